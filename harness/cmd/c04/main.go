// Harness for C04 (access control is complete).  Drives the REAL proxy in-process with every combination of
// the four controls x upstream none/proxy x generated requests, observes status line, headers, the dial log
// and what reached the scripted peers, and writes the observations as Gallina cases.  Also runs the pure
// functions the model transcribes through their public API (BasicAuth, net.ParseIP, URL.Hostname,
// TimeFrameEntry.Match) for a direct differential comparison.
package main

import (
	"bufio"
	"encoding/base64"
	"encoding/json"
	"flag"
	"fmt"
	"net"
	"net/http"
	"net/url"
	"os"
	"path/filepath"
	"regexp"
	"sort"
	"strings"
	"time"

	kbhosts "github.com/kevinburke/hostsfile/lib"
	"github.com/saucelabs/forwarder"
	"github.com/saucelabs/forwarder/hostsfile"
	"github.com/saucelabs/forwarder/middleware"
	"github.com/saucelabs/forwarder/ruleset"
	"golang.org/x/net/idna"

	"verifharness/accessrig"
	"verifharness/coqfmt"
	"verifharness/rng"
)

const (
	proxyName = "vfproxy"
	authUser  = "user"
	authPass  = "pa:ss" // a colon in the password: parseBasicAuth cuts at the FIRST colon
)

// ---------------------------------------------------------------- configurations

type TF struct {
	Day, Start, End int
}

type Spec struct {
	ID        int      `json:"id"`
	Auth      bool     `json:"auth"`
	DenyLocal bool     `json:"deny_local"`
	DenyRules []string `json:"deny_rules"` // nil = control off
	TimeFrame []TF     `json:"time_frame"` // nil = control off
	Upstream  bool     `json:"upstream"`
	RealDial  bool     `json:"real_dial"`
	Handler   bool     `json:"handler"`
	MITM      bool     `json:"mitm"`
	AltCreds  bool     `json:"alt_creds"` // this proxy is configured with the OTHER credentials (two proxies in one process)
	// the proxy is configured with a user name and an EMPTY password: 1 = `--basic-auth user` (url.User), 2 = `user:`
	EmptyPass int `json:"empty_pass"`
	// long configured credentials: lengths of user name and password (0 = the default ones)
	LongUser int `json:"long_user"`
	LongPass int `json:"long_pass"`
}

// longString is a deterministic string of n bytes without ':' whose bytes differ between neighbouring
// positions and between 256-byte blocks.
func longString(seed byte, n int) string {
	const al = "abcdefghijklmnopqrstuvwxyzABCDEFGHIJKLMNOPQRSTUVWXYZ0123456789-_.~"
	bs := make([]byte, n)
	for i := range bs {
		bs[i] = al[(int(seed)+i*7+i/256*13)%len(al)]
	}
	return string(bs)
}

const (
	altUser = "userb"
	altPass = "passb"
)

func (s Spec) creds() (string, string) {
	if s.LongUser != 0 || s.LongPass != 0 {
		u, p := authUser, authPass
		if s.LongUser != 0 {
			u = longString(3, s.LongUser)
		}
		if s.LongPass != 0 {
			p = longString(11, s.LongPass)
		}
		return u, p
	}
	if s.EmptyPass != 0 {
		return authUser, ""
	}
	if s.AltCreds {
		return altUser, altPass
	}
	return authUser, authPass
}

var denyRules = []string{`evil\.test$`, `^blocked\.`, `-^ok\.evil\.test$`}
var timeFrame = []TF{{2, 9, 17}, {6, 0, 24}} // Tue 9-17, Sat 0-24

// Clock values (weekday, hour, minute), local time of a zone with a FRACTIONAL offset (+05:30).  The proxy of a
// configuration lives through the whole sequence; consecutive pairs cross an edge of a frame without leaving the
// UTC hour (Tue 16:45 -> 17:15 is 11:15 -> 11:45 UTC), so a verdict remembered per UTC hour, per process or per
// configuration shows.
var clocks = [][3]int{{2, 16, 45}, {2, 17, 15}, {2, 8, 45}, {2, 9, 15}, {6, 23, 45}, {0, 0, 15}, {1, 10, 0}, {2, 10, 0}, {5, 23, 40}, {6, 0, 10}}

var clockZone = time.FixedZone("+0530", 5*3600+1800)

func clockTime(day, hour, min int) time.Time {
	// 2026-03-01 is a Sunday
	return time.Date(2026, 3, 1+day, hour, min, 0, 0, clockZone)
}

type recordingMatcher struct {
	inner forwarder.Matcher
	seen  map[string]bool
}

func (m *recordingMatcher) Match(s string) bool {
	r := m.inner.Match(s)
	if m.seen != nil {
		m.seen[s] = r
	}
	return r
}

func buildMatcher(rules []string) (forwarder.Matcher, error) {
	var items []ruleset.RegexpListItem
	for _, r := range rules {
		it, err := ruleset.ParseRegexpListItem(r)
		if err != nil {
			return nil, err
		}
		items = append(items, it)
	}
	return ruleset.NewRegexpMatcherFromList(items)
}

func (s Spec) proxySpec(rig *accessrig.Rig, seen map[string]bool) (accessrig.ProxySpec, forwarder.Matcher, error) {
	ps := accessrig.ProxySpec{Name: proxyName, DenyLocal: s.DenyLocal, RealDial: s.RealDial, Handler: s.Handler, MITM: s.MITM}
	if s.Auth {
		u, p := s.creds()
		ps.Basic = url.UserPassword(u, p)
		if s.EmptyPass == 1 {
			ps.Basic = url.User(u)
		}
	}
	var m forwarder.Matcher
	if s.DenyRules != nil {
		rm, err := buildMatcher(s.DenyRules)
		if err != nil {
			return ps, nil, err
		}
		m = rm
		ps.Deny = &recordingMatcher{inner: rm, seen: seen}
	}
	for _, t := range s.TimeFrame {
		ps.TimeFrame = append(ps.TimeFrame, ruleset.TimeFrameEntry{Weekday: time.Weekday(t.Day), HourStart: t.Start, HourEnd: t.End})
	}
	if s.Upstream {
		ps.Upstream = &url.URL{Scheme: "http", Host: rig.UpstreamAddr()}
	}
	return ps, m, nil
}

// ---------------------------------------------------------------- request generation

type ReqSpec struct {
	Method  string      `json:"method"`
	Host    string      `json:"host"`    // authority as spelt by the client (with brackets / port)
	Form    string      `json:"form"`    // "absolute" | "origin" (origin-form + Host header) | "authority" (CONNECT)
	Version string      `json:"version"` // "1.1" | "1.0"
	Headers [][2]string `json:"headers"`
	CredTag string      `json:"cred_tag"`
	HostTag string      `json:"host_tag"`
}

func (q ReqSpec) raw() accessrig.RawReq {
	hs := append([][2]string(nil), q.Headers...)
	body := ""
	var target string
	switch q.Form {
	case "authority":
		target = q.Host
		hs = append([][2]string{{"Host", q.Host}}, hs...)
	case "origin":
		target = "/vf"
		hs = append([][2]string{{"Host", q.Host}}, hs...)
	default:
		target = "http://" + q.Host + "/vf"
		hs = append([][2]string{{"Host", q.Host}}, hs...)
	}
	if q.Method == "POST" || q.Method == "PUT" {
		body = "payload"
	}
	r := accessrig.RawReq{Raw: accessrig.BuildRaw(q.Method, target, q.Version, hs, body), Method: q.Method}
	if q.Method == http.MethodConnect {
		r.Inner = accessrig.BuildRaw("GET", "/inner", "1.1", [][2]string{{"Host", q.Host}}, "")
	}
	return r
}

func swapCase(s string) string {
	bs := []byte(s)
	for i, c := range bs {
		switch {
		case c >= 'a' && c <= 'z':
			bs[i] = c - 32
		case c >= 'A' && c <= 'Z':
			bs[i] = c + 32
		}
	}
	return string(bs)
}

func b64(s string) string { return base64.StdEncoding.EncodeToString([]byte(s)) }

type credVariant struct {
	tag   string
	lines [][2]string
}

// credVariantsFor: the variants a configuration is driven with.
func credVariantsFor(s Spec) []credVariant {
	if s.LongUser != 0 || s.LongPass != 0 {
		return longCredVariants(s.creds())
	}
	if s.EmptyPass == 0 {
		return credVariants()
	}
	// user name with an empty password: only base64("user:") carries exactly these credentials;
	// base64("user") has NO colon and is not "user" + ":" + ""
	pa := func(v string) [2]string { return [2]string{"Proxy-Authorization", v} }
	u := authUser
	return []credVariant{
		{"absent", nil},
		{"exact", [][2]string{pa("Basic " + b64(u+":"))}},
		{"scheme-lower", [][2]string{pa("basic " + b64(u+":"))}},
		{"no-colon", [][2]string{pa("Basic " + b64(u))}},
		{"no-colon-lower", [][2]string{pa("basic " + b64(u))}},
		{"colon-only", [][2]string{pa("Basic " + b64(":"))}},
		{"scheme-only", [][2]string{pa("Basic ")}},
		{"empty-value", [][2]string{pa("")}},
		{"pass-suffix", [][2]string{pa("Basic " + b64(u+":x"))}},
		{"pass-space", [][2]string{pa("Basic " + b64(u+": "))}},
		{"pass-nul", [][2]string{pa("Basic " + b64(u+":\x00"))}},
		{"user-prefix", [][2]string{pa("Basic " + b64(u[:len(u)-1]+":"))}},
		{"user-prefix-no-colon", [][2]string{pa("Basic " + b64(u[:len(u)-1]))}},
		{"user-suffix-no-colon", [][2]string{pa("Basic " + b64(u+"x"))}},
		{"user-case-no-colon", [][2]string{pa("Basic " + b64(strings.ToUpper(u)))}},
		{"raw", [][2]string{pa("Basic " + u)}},
		{"bearer", [][2]string{pa("Bearer " + b64(u+":"))}},
		{"repeat-bad-good", [][2]string{pa("Basic " + b64(u)), pa("Basic " + b64(u+":"))}},
		{"repeat-good-bad", [][2]string{pa("Basic " + b64(u+":")), pa("Basic " + b64(u))}},
		{"value-upper", [][2]string{pa(strings.ToUpper("Basic " + b64(u+":")))}},
		{"token-lower", [][2]string{pa("Basic " + strings.ToLower(b64(u+":")))}},
	}
}

// longCredVariants: the right long credentials, and tokens of the same length that differ from them only near the
// end / at the 256-byte block boundaries (401.. 4 KiB credentials are compared byte by byte like short ones)
func longCredVariants(u, p string) []credVariant {
	pa := func(user, pass string) [][2]string {
		return [][2]string{{"Proxy-Authorization", "Basic " + b64(user+":"+pass)}}
	}
	flip := func(x string, idx ...int) string {
		bs := []byte(x)
		for _, i := range idx {
			if i < 0 {
				i += len(bs)
			}
			if i >= 0 && i < len(bs) {
				if bs[i] == 'X' {
					bs[i] = 'Y'
				} else {
					bs[i] = 'X'
				}
			}
		}
		return string(bs)
	}
	lastK := func(x string, k int) string {
		var idx []int
		for i := 1; i <= k && i <= len(x); i++ {
			idx = append(idx, -i)
		}
		return flip(x, idx...)
	}
	vs := []credVariant{
		{"absent", nil},
		{"exact", pa(u, p)},
		{"scheme-lower", [][2]string{{"Proxy-Authorization", "basic " + b64(u+":"+p)}}},
		{"long-pass-last-byte", pa(u, flip(p, -1))},
		{"long-pass-last-2", pa(u, lastK(p, 2))},
		{"long-pass-tail-after-last-block", pa(u, lastK(p, len(p)%256))},
		{"long-pass-last-255", pa(u, lastK(p, 255))},
		{"long-pass-byte-256", pa(u, flip(p, 255))},
		{"long-pass-byte-257", pa(u, flip(p, 256))},
		{"long-pass-byte-512", pa(u, flip(p, 511))},
		{"long-pass-byte-513", pa(u, flip(p, 512))},
		{"long-pass-first-byte", pa(u, flip(p, 0))},
		{"long-pass-truncated-to-256", pa(u, p[:min(256, len(p))])},
		{"long-pass-one-shorter", pa(u, p[:len(p)-1])},
		{"long-pass-one-longer", pa(u, p+"X")},
		{"long-user-last-byte", pa(flip(u, -1), p)},
		{"long-user-tail-after-last-block", pa(lastK(u, len(u)%256), p)},
		{"long-user-byte-256", pa(flip(u, 255), p)},
		{"long-user-byte-257", pa(flip(u, 256), p)},
		{"long-user-first-byte", pa(flip(u, 0), p)},
		{"long-user-one-shorter", pa(u[:len(u)-1], p)},
		{"long-both-last-byte", pa(flip(u, -1), flip(p, -1))},
		{"repeat-bad-good", append(pa(u, flip(p, -1)), pa(u, p)...)},
	}
	// variants that coincide with the right credentials (index out of range for short parts) are dropped
	good := vs[1].lines[0][1]
	out := vs[:3]
	for _, v := range vs[3:] {
		if v.tag == "repeat-bad-good" || v.lines[0][1] != good {
			out = append(out, v)
		}
	}
	return out
}

func credVariants() []credVariant {
	good := "Basic " + b64(authUser+":"+authPass)
	pa := func(v string) [2]string { return [2]string{"Proxy-Authorization", v} }
	enc := b64(authUser + ":" + authPass)
	// non-strict decoding: a different final character that decodes to the same bytes
	alt := []byte(enc)
	for i := len(alt) - 1; i >= 0; i-- {
		if alt[i] != '=' {
			alt[i]++
			break
		}
	}
	vs := []credVariant{
		{"absent", nil},
		{"exact", [][2]string{pa(good)}},
		{"scheme-lower", [][2]string{pa("basic " + enc)}},
		{"scheme-upper", [][2]string{pa("BASIC " + enc)}},
		{"scheme-mixed", [][2]string{pa("bAsIc " + enc)}},
		{"no-space", [][2]string{pa("Basic" + enc)}},
		{"two-spaces", [][2]string{pa("Basic  " + enc)}},
		{"tab", [][2]string{pa("Basic\t" + enc)}},
		{"bearer", [][2]string{pa("Bearer " + enc)}},
		{"digest", [][2]string{pa("Digest " + enc)}},
		{"scheme-only", [][2]string{pa("Basic ")}},
		{"scheme-only-nospace", [][2]string{pa("Basic")}},
		{"empty-value", [][2]string{pa("")}},
		{"pass-prefix", [][2]string{pa("Basic " + b64(authUser+":pa"))}},
		{"pass-prefix2", [][2]string{pa("Basic " + b64(authUser+":pa:s"))}},
		{"pass-suffix", [][2]string{pa("Basic " + b64(authUser+":"+authPass+"2"))}},
		{"pass-extra-colon", [][2]string{pa("Basic " + b64(authUser+":"+authPass+":"))}},
		{"pass-case", [][2]string{pa("Basic " + b64(authUser+":PA:SS"))}},
		{"pass-empty", [][2]string{pa("Basic " + b64(authUser+":"))}},
		{"user-case", [][2]string{pa("Basic " + b64("USER:"+authPass))}},
		{"user-prefix", [][2]string{pa("Basic " + b64("use:"+authPass))}},
		{"user-suffix", [][2]string{pa("Basic " + b64("user2:"+authPass))}},
		{"user-empty", [][2]string{pa("Basic " + b64(":"+authPass))}},
		{"user-space", [][2]string{pa("Basic " + b64(" user:"+authPass))}},
		{"no-colon", [][2]string{pa("Basic " + b64(authUser))}},
		{"swapped", [][2]string{pa("Basic " + b64(authPass+":"+authUser))}},
		{"colon-shift", [][2]string{pa("Basic " + b64("user:pa"+":ss"))}}, // same bytes as exact
		{"user-with-colon", [][2]string{pa("Basic " + b64("user:pa:"+"ss"))}},
		{"value-upper", [][2]string{pa(strings.ToUpper(good))}},
		{"value-lower", [][2]string{pa(strings.ToLower(good))}},
		{"token-upper", [][2]string{pa("Basic " + strings.ToUpper(enc))}},
		{"token-lower", [][2]string{pa("Basic " + strings.ToLower(enc))}},
		{"token-swapcase", [][2]string{pa("Basic " + swapCase(enc))}},
		{"pass-trailing-nul", [][2]string{pa("Basic " + b64(authUser+":"+authPass+"\x00"))}},
		{"pass-trailing-nuls", [][2]string{pa("Basic " + b64(authUser+":"+authPass+"\x00\x00\x00"))}},
		{"user-trailing-nul", [][2]string{pa("Basic " + b64(authUser+"\x00:"+authPass))}},
		{"both-trailing-nul", [][2]string{pa("Basic " + b64(authUser+"\x00:"+authPass+"\x00"))}},
		{"pass-leading-nul", [][2]string{pa("Basic " + b64(authUser+":\x00"+authPass))}},
		{"pass-trailing-ctl", [][2]string{pa("Basic " + b64(authUser+":"+authPass+"\x01"))}},
		{"pass-trailing-lf", [][2]string{pa("Basic " + b64(authUser+":"+authPass+"\n"))}},
		{"pass-trailing-space", [][2]string{pa("Basic " + b64(authUser+":"+authPass+" "))}},
		{"pass-trailing-ff", [][2]string{pa("Basic " + b64(authUser+":"+authPass+"\xff"))}},
		{"pass-inner-nul", [][2]string{pa("Basic " + b64(authUser+":pa:\x00ss"))}},
		{"unpadded", [][2]string{pa("Basic " + strings.TrimRight(enc, "="))}},
		{"garbage-after", [][2]string{pa("Basic " + enc + "!")}},
		{"garbage-after-pad", [][2]string{pa("Basic " + enc + "QQ==")}},
		{"urlsafe", [][2]string{pa("Basic " + base64.URLEncoding.EncodeToString([]byte(authUser+":"+authPass)))}},
		{"raw", [][2]string{pa("Basic " + authUser + ":" + authPass)}},
		{"nonstrict-bits", [][2]string{pa("Basic " + string(alt))}},
		{"trailing-space", [][2]string{pa(good + "  ")}},
		{"name-lower", [][2]string{{"proxy-authorization", good}}},
		{"name-upper", [][2]string{{"PROXY-AUTHORIZATION", good}}},
		{"wrong-header", [][2]string{{"Authorization", good}}},
		{"wrong-header2", [][2]string{{"Proxy-Authenticate", good}}},
		{"repeat-good-bad", [][2]string{pa(good), pa("Basic " + b64("user:wrong"))}},
		{"repeat-bad-good", [][2]string{pa("Basic " + b64("user:wrong")), pa(good)}},
		{"repeat-empty-good", [][2]string{pa(""), pa(good)}},
		{"repeat-good-good", [][2]string{pa(good), pa(good)}},
		{"repeat-bearer-good", [][2]string{pa("Bearer x"), pa(good)}},
		{"comma-joined", [][2]string{pa(good + ", " + good)}},
		{"nominated-by-connection", [][2]string{{"Connection", "Proxy-Authorization"}, pa(good)}},
	}
	return vs
}

type hostVariant struct {
	tag, host string
}

func hostVariants(aliases []string) []hostVariant {
	hs := []hostVariant{
		{"plain", "example.test"}, {"plain-upper", "EXAMPLE.TEST"}, {"plain-sub", "www.example.test"},
		{"deny-suffix", "evil.test"}, {"deny-suffix-sub", "sub.evil.test"}, {"deny-upper", "EVIL.TEST"},
		{"deny-excluded", "ok.evil.test"}, {"deny-prefix", "blocked.example"}, {"deny-near", "evil.test.example"},
		{"deny-near2", "notblocked.example"},
		{"lh", "localhost"}, {"lh-upper", "LOCALHOST"}, {"lh-mixed", "LocalHost"}, {"lh-near", "notlocalhost"},
		{"lh-sub", "localhost.example.test"}, {"lh-near2", "localhost2"},
		{"v4-loop", "127.0.0.1"}, {"v4-loop2", "127.1.2.3"}, {"v4-loop3", "127.255.255.254"},
		{"v4-unspec", "0.0.0.0"}, {"v4-other", "10.1.2.3"}, {"v4-other2", "128.0.0.1"}, {"v4-other3", "126.255.255.255"},
		{"v4-leading-zero", "127.000.000.001"}, {"v4-octal", "0177.0.0.1"},
		{"v6-loop", "[::1]"}, {"v6-loop-long", "[0:0:0:0:0:0:0:1]"}, {"v6-loop-pad", "[0000:0000:0000:0000:0000:0000:0000:0001]"},
		{"v6-loop-mid", "[0::1]"}, {"v6-loop-mid2", "[::0:1]"}, {"v6-loop-lead", "[::0001]"}, {"v6-loop-upper", "[0:0:0:0:0:0:0:0001]"},
		{"v6-unspec", "[::]"}, {"v6-unspec0", "[::0]"}, {"v6-unspec00", "[0::0]"}, {"v6-unspec-long", "[0:0:0:0:0:0:0:0]"},
		{"v6-unspec-mid", "[0::]"}, {"v6-unspec-v4", "[::0.0.0.0]"},
		{"v6-mapped-loop", "[::ffff:127.0.0.1]"}, {"v6-mapped-loop-upper", "[::FFFF:127.0.0.1]"}, {"v6-mapped-loop-hex", "[::ffff:7f00:1]"},
		{"v6-mapped-unspec", "[::ffff:0.0.0.0]"}, {"v6-mapped-unspec-hex", "[::ffff:0:0]"}, {"v6-mapped-other", "[::ffff:10.1.2.3]"},
		{"v6-compat-loop", "[::127.0.0.1]"}, {"v6-other", "[2001:db8::1]"}, {"v6-other2", "[::2]"}, {"v6-other3", "[1::]"},
	}
	// spellings the transport / dialer normalises AFTER the checks ran: IDNA compatibility mapping, zones
	hs = append(hs,
		hostVariant{"lh-idna", "\u24dbocalhost"}, hostVariant{"lh-idna-fullwidth", "\uff4c\uff4f\uff43\uff41\uff4c\uff48\uff4f\uff53\uff54"},
		hostVariant{"deny-idna", "\u24d4vil.test"}, hostVariant{"plain-idna", "\u24d4xample.test"},
		hostVariant{"v6-unspec-zone", "[::%25lo]"}, hostVariant{"v6-loop-zone", "[::1%25lo]"},
		hostVariant{"v6-mapped-loop-zone", "[::ffff:127.0.0.1%25lo]"})
	// a trailing dot LOOK-ALIKE that IDNA maps to '.': the name becomes fully qualified only after the mapping
	hs = append(hs, hostVariant{"lh-idna-ideographic-dot", "localhost\u3002"}, hostVariant{"lh-idna-fullwidth-dot", "LocalHost\uff0e"},
		hostVariant{"lh-idna-halfwidth-dot", "localhost\uff61"}, hostVariant{"deny-idna-ideographic-dot", "evil.test\u3002"},
		hostVariant{"deny-idna-fullwidth-dot", "sub.evil.test\uff0e"}, hostVariant{"alias-idna-halfwidth-dot", "devbox-01\uff61"},
		hostVariant{"plain-idna-ideographic-dot", "example.test\u3002"}, hostVariant{"deny-idna-inner-dot", "evil\u3002test"})
	// fully qualified spellings (trailing dot): the same name for the resolver and for TLS
	hs = append(hs, hostVariant{"lh-dot", "localhost."}, hostVariant{"lh-dot-mixed", "LocalHost."}, hostVariant{"deny-dot", "evil.test."},
		hostVariant{"deny-dot-sub", "sub.evil.test."}, hostVariant{"plain-dot", "example.test."}, hostVariant{"alias-dot", "devbox-01."},
		hostVariant{"deny-excluded-dot", "ok.evil.test."})
	hs = append(hs, hostVariant{"alias-as-written", "DevBox-01"}, hostVariant{"alias-as-written2", "MixedCase.Example"},
		hostVariant{"alias-as-written3", "Ip6-Loopback-VF"}, hostVariant{"alias-nonlocal", "NotLocal-Alias"},
		hostVariant{"alias-nonlocal-lower", "notlocal-alias"})
	for i, a := range aliases {
		hs = append(hs, hostVariant{fmt.Sprintf("alias%d", i), a}, hostVariant{fmt.Sprintf("alias%d-upper", i), strings.ToUpper(a)})
	}
	return hs
}

var probeCache = map[string]bool{}

// probeLocal requests http://hostport/ directly (no proxy) the way an http.Transport does it.
func probeLocal(hostport string) bool {
	if v, ok := probeCache[hostport]; ok {
		return v
	}
	tr := &http.Transport{DisableKeepAlives: true, ResponseHeaderTimeout: 2 * time.Second,
		DialContext: (&net.Dialer{Timeout: 2 * time.Second}).DialContext}
	defer tr.CloseIdleConnections()
	ok := false
	if req, err := http.NewRequest("GET", "http://"+hostport+"/probe", nil); err == nil {
		if res, err := tr.RoundTrip(req); err == nil {
			ok = res.Header.Get(accessrig.MarkerHeader) == "origin"
			res.Body.Close()
		}
	}
	probeCache[hostport] = ok
	return ok
}

var ports = []string{"", ":80", ":8080", ":443"}
var methods = []string{"GET", "CONNECT", "POST", "HEAD", "OPTIONS", "DELETE", "PUT"}

// ---------------------------------------------------------------- Coq rendering

func coqHeader(h http.Header) string { return coqfmt.Header(h) }

func coqTF(ts []TF) string {
	var parts []string
	for _, t := range ts {
		parts = append(parts, fmt.Sprintf("{| tf_day := %d; tf_start := %d; tf_end := %d |}", t.Day, t.Start, t.End))
	}
	return coqfmt.List("tf_entry", parts)
}

func cfgName(s Spec) string { return fmt.Sprintf("cfg%d", s.ID) }

// asciiForm is the transport's mapping of a host name (net/http: idna.Lookup.ToASCII on non-ASCII names).
func asciiForm(h string) string {
	for i := 0; i < len(h); i++ {
		if h[i] >= 0x80 {
			if a, err := idna.Lookup.ToASCII(h); err == nil {
				return a
			}
			break
		}
	}
	return h
}

func coqIDNA(table map[string]string) string {
	var keys []string
	for k := range table {
		keys = append(keys, k)
	}
	sort.Strings(keys)
	var parts []string
	for _, k := range keys {
		parts = append(parts, "("+coqfmt.Str(k)+", "+coqfmt.Str(table[k])+")")
	}
	return "(table_fun " + coqfmt.List("(str * str)", parts) + ")"
}

func coqConfig(s Spec, denied []string, aliases []string, idnaTable map[string]string) string {
	basic := "None"
	if s.Auth {
		u, p := s.creds()
		basic = fmt.Sprintf("(Some (%s, %s))", coqfmt.Str(u), coqfmt.Str(p))
	}
	deny := "None"
	if s.DenyRules != nil {
		deny = fmt.Sprintf("(Some (fun h => existsb (str_eqb h) %s))", coqfmt.StrList(denied))
	}
	return fmt.Sprintf("Definition %s : config := {| c_name := %s; c_timeframe := %s; c_basic := %s; c_deny_localhost := %s; c_deny := %s; c_aliases := %s; c_mitm := %s; c_idna := %s; c_handler := %s |}.",
		cfgName(s), coqfmt.Str(proxyName), coqTF(s.TimeFrame), basic, coqfmt.Bool(s.DenyLocal), deny, coqfmt.StrList(aliases), coqfmt.Bool(s.MITM), coqIDNA(idnaTable), coqfmt.Bool(s.Handler))
}

type Case struct {
	Spec  Spec   `json:"spec"`
	Clock [3]int `json:"clock"`
	// the session that ran on the same proxy at the previous clock value (history: needed to replay
	// a verdict that depends on what the proxy saw before)
	PrevSpec    *Spec              `json:"prev_spec,omitempty"` // the previous session ran on ANOTHER proxy of the same process (kept running)
	PrevClock   *[3]int            `json:"prev_clock,omitempty"`
	PrevSession []accessrig.RawReq `json:"prev_session,omitempty"`
	Session     []accessrig.RawReq `json:"session"`
	Index       int                `json:"index"`
	Req         ReqSpec            `json:"req"`
	Obs         accessrig.Obs      `json:"obs"`
	// MITM sessions: Connect is the CONNECT that opened the tunnel, Session the requests sent inside the TLS
	// session; Index -1 denotes the CONNECT itself
	Connect *accessrig.RawReq `json:"connect,omitempty"`
	// MITM: clock value set once the tunnel was established (Clock is then the CONNECT's clock)
	InnerClock *[3]int  `json:"inner_clock,omitempty"`
	Targets    []string `json:"targets"`         // where the exchange really went
	Truth      bool     `json:"target_is_local"` // direct probe without the proxy reached the loopback-only origin
	coq        string
}

// targetsOf lists the host names the exchange was really sent towards.
func targetsOf(o accessrig.Obs, upstreamAddr string) []string {
	var out []string
	for _, d := range o.Dials {
		if d != upstreamAddr {
			out = append(out, (&url.URL{Host: d}).Hostname())
		}
	}
	for _, m := range o.Msgs {
		if m.Peer != "upstream" {
			continue
		}
		switch m.Kind {
		case "proxy-connect":
			out = append(out, (&url.URL{Host: m.Target}).Hostname())
		case "proxy-plain":
			if u, err := url.Parse(m.Target); err == nil && u.Host != "" {
				out = append(out, u.Hostname())
			}
		}
	}
	return out
}

func coqCase(s Spec, clock [3]int, raw accessrig.RawReq, o accessrig.Obs, targets []string, truth bool) (string, bool) {
	req, err := accessrig.ParseRaw(raw.Raw)
	if err != nil {
		return "", false
	}
	reached := len(o.Msgs)
	rawHost := req.URL.Host
	if r0, err := http.ReadRequest(bufio.NewReader(strings.NewReader(raw.Raw))); err == nil {
		rawHost = r0.URL.Host // as parsed, before any completion from the Host field
	}
	return fmt.Sprintf("{| x_cfg := %s; x_env := {| now_day := %d; now_hour := %d |}; "+
		"x_req := {| r_method := %s; r_host := %s; r_hdr := %s |}; x_raw_host := %s; "+
		"x_obs := {| o_status := %d; o_hdr := %s; o_dials := %s; o_reached := %d; o_from_peer := %s; o_targets := %s; o_target_is_local := %s |} |}",
		cfgName(s), clock[0], clock[1],
		coqfmt.Str(req.Method), coqfmt.Str(req.URL.Host), coqHeader(req.Header), coqfmt.Str(rawHost),
		o.Status, coqHeader(o.Header), coqfmt.StrList(o.Dials), reached, coqfmt.Bool(o.FromPeer != ""),
		coqfmt.StrList(targets), coqfmt.Bool(truth)), true
}

func writeShard(dir, name, preamble, typ, modelF, propF string, cases []string) error {
	var sb strings.Builder
	sb.WriteString("From G04 Require Import AccessCheck TimeFrame.\nOpen Scope N_scope.\n")
	sb.WriteString(preamble)
	fmt.Fprintf(&sb, "Definition cases : list %s :=\n  %s.\n", typ, coqfmt.List(typ, cases))
	fmt.Fprintf(&sb, "Definition M := Eval vm_compute in (bad %s cases).\n", modelF)
	fmt.Fprintf(&sb, "Definition P := Eval vm_compute in (bad %s cases).\n", propF)
	sb.WriteString("Print M.\nPrint P.\n")
	return os.WriteFile(filepath.Join(dir, name), []byte(sb.String()), 0o644)
}

// ---------------------------------------------------------------- direct differential streams

func basicCases(r *rng.R, n int) ([]string, []any) {
	ba := middleware.NewProxyBasicAuth()
	var out []string
	var js []any
	emit := func(lines [][2]string, user, pass string) {
		h := http.Header{}
		for _, l := range lines {
			h.Add(l[0], l[1])
		}
		req := &http.Request{Header: h}
		u, p, ok := ba.BasicAuth(req)
		parsed := "None"
		if ok {
			parsed = fmt.Sprintf("(Some (%s, %s))", coqfmt.Str(u), coqfmt.Str(p))
		}
		auth := ba.AuthenticatedRequest(req, user, pass)
		out = append(out, fmt.Sprintf("{| b_hdr := %s; b_user := %s; b_pass := %s; b_parsed := %s; b_ok := %s |}",
			coqHeader(h), coqfmt.Str(user), coqfmt.Str(pass), parsed, coqfmt.Bool(auth)))
		js = append(js, map[string]any{"kind": "basic", "lines": lines, "user": user, "pass": pass})
	}
	for _, cv := range credVariants() {
		emit(cv.lines, authUser, authPass)
	}
	// expected credentials with an empty password: a payload without colon is not "user" + ":" + ""
	for _, cv := range credVariantsFor(Spec{EmptyPass: 1}) {
		emit(cv.lines, authUser, "")
	}
	for _, lp := range [][2]int{{5, 257}, {300, 8}, {257, 513}} {
		u, p := longString(3, lp[0]), longString(11, lp[1])
		for _, cv := range longCredVariants(u, p) {
			emit(cv.lines, u, p)
		}
	}
	for _, u := range []string{"user", "u", "a:b", ""} {
		for _, payload := range []string{b64(u), b64(u + ":"), b64(":"), b64(""), b64(u + "::")} {
			emit([][2]string{{"Proxy-Authorization", "Basic " + payload}}, u, "")
		}
	}
	users := []string{"user", "u", "User", "a:b", "", "ü", "user "}
	passes := []string{"pass", "", "p:q", ":", "pa:ss", " ", "p\tq", "é"}
	schemes := []string{"Basic ", "basic ", "BASIC ", "Basic", "Basic  ", "Bearer ", "", "Basi", "Basic\t", "Ba\xc5\xbfic ", "Basic\xa0"}
	alphabet := "QUJDZGVmMTIz+/=-_ \t!:"
	for i := 0; i < n; i++ {
		u, p := r.Pick(users), r.Pick(passes)
		var payload string
		switch r.Intn(6) {
		case 0, 1:
			payload = b64(u + ":" + p)
		case 2:
			payload = b64(r.Pick(users) + ":" + r.Pick(passes))
		case 3:
			payload = b64(u + ":" + p)
			bs := []byte(payload)
			if len(bs) > 0 {
				switch r.Intn(4) {
				case 0:
					bs[r.Intn(len(bs))] = alphabet[r.Intn(len(alphabet))]
				case 1:
					bs = bs[:r.Intn(len(bs))]
				case 2:
					bs = append(bs, alphabet[r.Intn(len(alphabet))])
				case 3:
					k := r.Intn(len(bs) + 1)
					bs = append(bs[:k], append([]byte{alphabet[r.Intn(len(alphabet))]}, bs[k:]...)...)
				}
			}
			payload = string(bs)
		case 4:
			var bs []byte
			for k := r.Intn(10); k > 0; k-- {
				bs = append(bs, alphabet[r.Intn(len(alphabet))])
			}
			payload = string(bs)
		case 5:
			payload = b64(u+":"+p) + b64(":x")
		}
		if r.Chance(1, 6) {
			// the right credentials with octets appended / prepended to one part
			junk := []string{"\x00", "\x00\x00", "\x01", " ", "\n", "\xff", "\x7f"}[r.Intn(7)]
			switch r.Intn(4) {
			case 0:
				payload = b64(u + ":" + p + junk)
			case 1:
				payload = b64(u + junk + ":" + p)
			case 2:
				payload = b64(junk + u + ":" + p)
			case 3:
				payload = b64(u + ":" + junk + p)
			}
		}
		lines := [][2]string{{"Proxy-Authorization", r.Pick(schemes) + payload}}
		if r.Chance(1, 5) {
			lines = append(lines, [2]string{"Proxy-Authorization", "Basic " + b64(u+":"+p)})
		}
		if r.Chance(1, 8) {
			lines = append([][2]string{{"Proxy-Authorization", ""}}, lines...)
		}
		emit(lines, u, p)
	}
	return out, js
}

func ipStrings(r *rng.R, n int, aliases []string) []string {
	var in []string
	for _, hv := range hostVariants(aliases) {
		in = append(in, strings.Trim(hv.host, "[]"))
	}
	in = append(in, "", ".", ":", "::", ":::", "1", "1.2.3", "1.2.3.4.5", "1.2.3.", ".1.2.3", "1..2.3", "256.1.1.1", "1.2.3.256",
		"01.2.3.4", "1.2.3.04", "0.0.0.00", "1.2.3.4 ", " 1.2.3.4", "1:2:3:4:5:6:7:8", "1:2:3:4:5:6:7", "1:2:3:4:5:6:7:8:9",
		"1:2:3:4:5:6:7::", "::2:3:4:5:6:7:8", "1::8", "1::2::3", "12345::", "::12345", "g::", "::g", "1:2:3:4:5:6:1.2.3.4",
		"1:2:3:4:5:1.2.3.4", "1:2:3:4:5:6:7:1.2.3.4", "::1.2.3.4", "::1.2.3", "::1.2.3.4.5", "1.2.3.4::", "::ffff:1.2.3.4",
		"::FFFF:1.2.3.4", "::ffff:127.0.0.1", "::1%lo", "::1%", "%", "1.2.3.4%eth0", "fe80::1%eth0", "::ffff:256.0.0.1",
		"::ffff:01.0.0.1", "0:0:0:0:0:ffff:7f00:1", "0:0:0:0:0:ffff:0:0", "::ffff:0:0", ":1", "1:", "1:2:3:4:5:6:7:8:",
		"1:2:3:4:5:6:7:8::", "::1:2:3:4:5:6:7:8", "::1:2:3:4:5:6:7", "1:2:3:4:5:6::1.2.3.4", "::1.2.3.4:5", "1::2:1.2.3.4", "0x7f.0.0.1", "127.1", "2130706433")
	al := "0123456789abcdefABCDEF:.%gx "
	pieces := []string{"0", "1", "7f", "ffff", "FFFF", "0000", "00001", "127", "255", "256", "::", ":", ".", "0.0.0.0", "127.0.0.1", "1.2.3.4", "%lo", "g", "00", "01"}
	for i := 0; i < n; i++ {
		var sb strings.Builder
		if r.Chance(1, 3) {
			for k := 1 + r.Intn(12); k > 0; k-- {
				sb.WriteByte(al[r.Intn(len(al))])
			}
		} else {
			for k := 1 + r.Intn(12); k > 0; k-- {
				sb.WriteString(r.Pick(pieces))
				if r.Chance(1, 2) {
					sb.WriteString(":")
				}
			}
		}
		in = append(in, sb.String())
	}
	return in
}

func ipCases(in []string) ([]string, []any) {
	var out []string
	var js []any
	for _, s := range in {
		ip := net.ParseIP(s)
		ipc := "None"
		loop, unspec := false, false
		if ip != nil {
			ipc = "(Some " + coqfmt.Bytes(ip.To16()) + ")"
			loop, unspec = ip.IsLoopback(), ip.IsUnspecified()
		}
		out = append(out, fmt.Sprintf("{| i_in := %s; i_ip := %s; i_loop := %s; i_unspec := %s |}",
			coqfmt.Str(s), ipc, coqfmt.Bool(loop), coqfmt.Bool(unspec)))
		js = append(js, map[string]any{"kind": "ip", "in": s})
	}
	return out, js
}

func hostnameCases(r *rng.R, n int, aliases []string) ([]string, []any) {
	var in []string
	for _, hv := range hostVariants(aliases) {
		for _, p := range ports {
			in = append(in, hv.host+p)
		}
	}
	in = append(in, "", ":", "a:", "a:b", "a:80:90", "[::1]:", "[::1]:x", "[::1", "::1", "[a]:1", "[]", "[]:80", "a]:80", "[a", "a:080", "a:-1", "[::1]]", "[[::1]]:80")
	al := "ab1:[].%-"
	for i := 0; i < n; i++ {
		var sb strings.Builder
		for k := r.Intn(9); k > 0; k-- {
			sb.WriteByte(al[r.Intn(len(al))])
		}
		in = append(in, sb.String())
	}
	var out []string
	var js []any
	for _, s := range in {
		u := url.URL{Host: s}
		out = append(out, fmt.Sprintf("{| h_in := %s; h_out := %s |}", coqfmt.Str(s), coqfmt.Str(u.Hostname())))
		js = append(js, map[string]any{"kind": "hostname", "in": s})
	}
	return out, js
}

// parseFrameCases: ruleset.ParseTimeFrameEntry (the --allow-time-frame syntax) on generated strings.
func parseFrameCases(r *rng.R, n int) ([]string, []any, int) {
	var out []string
	var js []any
	accepted := 0
	emit := func(in string) {
		e, err := ruleset.ParseTimeFrameEntry(in)
		res := "None"
		if err == nil {
			accepted++
			res = fmt.Sprintf("(Some {| tf_day := %d; tf_start := %d; tf_end := %d |})", int(e.Weekday), e.HourStart, e.HourEnd)
		}
		out = append(out, fmt.Sprintf("{| pf_in := %s; pf_out := %s |}", coqfmt.Str(in), res))
		js = append(js, map[string]any{"kind": "time-frame-syntax", "in": in})
	}
	days := []string{"mon", "monday", "Mon", "MONDAY", "tue", "Tuesday", "wed", "wednesday", "thu", "thursday", "fri", "friday", "sat", "saturday",
		"sun", "sunday", " sun ", "\tsat", "su", "mond", "mo", "", "0", "1", "montag", "mon ", "sunday\n", "m\u00f6n"}
	hours := []string{"0", "1", "9", "09", "009", "12", "17", "23", "24", "25", "-1", "-0", "+9", "+24", "+", "-", "", " 9", "9 ", "9.0", "0x9", "1_0",
		"99999999999999999999", "-99999999999999999999", "24 ", "\t5", "5\n", "e", "1e1"}
	seps := []string{"/", "/", "/", " /", "/ ", "//", "", "\\", "/ /"}
	dash := []string{"-", "-", "-", " - ", "--", "", "\u2013", "-+"}
	for _, d := range days {
		for _, hs := range []string{"0-24", "9-17", "0-0", "24-24", "17-9", "9-25", "-1-5", " 9-17", "9-17 ", "9-", "-17", "9", "9-17-18", "+9-+17", "12-12"} {
			emit(d + "/" + hs)
		}
	}
	for _, a := range hours {
		for _, c := range hours {
			emit("mon/" + a + "-" + c)
		}
	}
	for i := 0; i < n; i++ {
		emit(r.Pick(days) + r.Pick(seps) + r.Pick(hours) + r.Pick(dash) + r.Pick(hours))
	}
	emit("")
	emit("/")
	emit("mon/")
	emit("mon/ ")
	emit("/9-17")
	emit("mon/9-17/x")
	return out, js, accepted
}

func timeCases() ([]string, []any) {
	var out []string
	var js []any
	for day := 0; day < 7; day++ {
		for _, se := range [][2]int{{0, 24}, {9, 17}, {0, 0}, {12, 12}, {23, 24}, {0, 1}, {5, 6}} {
			e := ruleset.TimeFrameEntry{Weekday: time.Weekday(day), HourStart: se[0], HourEnd: se[1]}
			for d2 := 0; d2 < 7; d2++ {
				for h := 0; h < 24; h++ {
					if d2 != day && h%6 != 0 {
						continue
					}
					m := e.Match(clockTime(d2, h, 30))
					out = append(out, fmt.Sprintf("{| t_entry := {| tf_day := %d; tf_start := %d; tf_end := %d |}; t_day := %d; t_hour := %d; t_out := %s |}",
						day, se[0], se[1], d2, h, coqfmt.Bool(m)))
					js = append(js, map[string]any{"kind": "time", "day": day, "start": se[0], "end": se[1], "at_day": d2, "at_hour": h})
				}
			}
		}
	}
	return out, js
}

// ---------------------------------------------------------------- main

type Meta struct {
	Shards              []string       `json:"shards"`
	ShardSize           int            `json:"shard_size"`
	ShardKinds          map[string]int `json:"shard_case_counts"`
	ShardSizes          map[string]int `json:"shard_sizes"` // kinds whose shards are smaller than shard_size (long literals)
	Configs             int            `json:"configs"`
	Exchanges           int            `json:"exchanges"`
	Sessions            int            `json:"sessions"`
	ByStatus            map[string]int `json:"exchanges_by_status"`
	ByMethod            map[string]int `json:"exchanges_by_method"`
	ByCred              map[string]int `json:"exchanges_by_credential_variant"`
	ByHost              map[string]int `json:"exchanges_by_host_variant"`
	ByPos               map[string]int `json:"exchanges_by_position_on_connection"`
	InsideMITM          map[string]int `json:"exchanges_inside_mitm_by_status_and_refusing_check"`
	Refused             int            `json:"refused"`
	Forwarded           int            `json:"forwarded"`
	Skipped             int            `json:"skipped_unparsable"`
	MatcherChecks       int            `json:"deny_matcher_hostnames_checked"`
	MatcherDiffs        int            `json:"deny_matcher_hostname_differences"`
	Aliases             []string       `json:"hosts_file_aliases"`
	Basic               int            `json:"basic_cases"`
	IP                  int            `json:"ip_cases"`
	Hostname            int            `json:"hostname_cases"`
	Time                int            `json:"time_cases"`
	FrameSyntax         int            `json:"time_frame_syntax_cases"`
	FrameSyntaxAccepted int            `json:"time_frame_syntax_cases_accepted"`
	Samples             []Case         `json:"samples"`
	Errors              []string       `json:"errors"`
}

func allSpecs(tier string) []Spec {
	var out []Spec
	id := 0
	for mask := 0; mask < 16; mask++ {
		for _, up := range []bool{false, true} {
			s := Spec{ID: id, Auth: mask&1 != 0, DenyLocal: mask&2 != 0, Upstream: up}
			if mask&4 != 0 {
				s.DenyRules = denyRules
			}
			if mask&8 != 0 {
				s.TimeFrame = timeFrame
			}
			out = append(out, s)
			id++
		}
	}
	// real dialling: what a loopback / unspecified spelling really reaches
	out = append(out, Spec{ID: id, DenyLocal: true, RealDial: true})
	id++
	// the http.Handler implementation (TestingHTTPHandler): every control, origin-form requests included
	out = append(out, Spec{ID: id, Auth: true, DenyLocal: true, DenyRules: denyRules, Handler: true})
	id++
	out = append(out, Spec{ID: id, DenyLocal: true, DenyRules: denyRules, TimeFrame: timeFrame, Handler: true})
	id++
	out = append(out, Spec{ID: id, DenyLocal: true, Handler: true, Upstream: true})
	id++
	// a user name with an EMPTY password (`--basic-auth user` / `user:`)
	for _, ep := range []int{1, 2} {
		out = append(out, Spec{ID: id, Auth: true, EmptyPass: ep})
		id++
		out = append(out, Spec{ID: id, Auth: true, EmptyPass: ep, DenyLocal: true, DenyRules: denyRules, Upstream: true})
		id++
	}
	out = append(out, Spec{ID: id, Auth: true, EmptyPass: 1, MITM: true})
	id++
	// long configured credentials (not a multiple of 256 bytes; 4 KiB+): compared byte by byte to the end
	for _, lp := range [][2]int{{0, 257}, {0, 300}, {300, 0}, {0, 511}, {0, 513}, {257, 1000}, {0, 4100}} {
		out = append(out, Spec{ID: id, Auth: true, LongUser: lp[0], LongPass: lp[1], Upstream: lp[1] == 300})
		id++
	}
	// degenerate time frames: an entry with an empty interval never matches; a list made only of such
	// entries is still a configured list (it refuses everything), a mixed list behaves like its other entries
	for _, tf := range [][]TF{{{1, 0, 0}}, {{2, 12, 12}, {6, 24, 24}}, {{2, 0, 0}, {2, 9, 17}}, {{2, 16, 16}, {2, 17, 17}}} {
		out = append(out, Spec{ID: id, TimeFrame: tf})
		id++
		out = append(out, Spec{ID: id, Auth: true, DenyLocal: true, TimeFrame: tf, Upstream: true})
		id++
	}
	// MITM: every CONNECT that passes is answered 200 without dialling, the requests inside the TLS session
	// go through the same chain
	out = append(out, Spec{ID: id, Auth: true, DenyLocal: true, DenyRules: denyRules, MITM: true})
	id++
	out = append(out, Spec{ID: id, DenyLocal: true, DenyRules: denyRules, TimeFrame: timeFrame, MITM: true})
	return out
}

func genRequests(r *rng.R, s Spec, aliases []string, budget int, originPort string) []ReqSpec {
	var out []ReqSpec
	cvs := credVariantsFor(s)
	exact := cvs[1]
	hvs := hostVariants(aliases)
	mk := func(method string, hv hostVariant, port string, cv credVariant, form, version string) ReqSpec {
		host := hv.host + port
		if method == "CONNECT" {
			form = "authority"
			if port == "" {
				host = hv.host + ":443"
			}
		}
		if s.Handler && asciiForm(hv.host) != hv.host {
			// net/http's server rejects a non-ASCII Host header with 400 before the handler runs
			hv = hvs[0]
			host = hv.host + port
			if method == "CONNECT" && port == "" {
				host = hv.host + ":443"
			}
		}
		return ReqSpec{Method: method, Host: host, Form: form, Version: version, Headers: cv.lines, CredTag: cv.tag, HostTag: hv.tag}
	}
	if s.LongUser != 0 || s.LongPass != 0 {
		// (the literals are long: for the largest credentials only the variants that single out the tail and the
		// block boundaries, and CONNECT for every third variant)
		keep := map[string]bool{"exact": true, "long-pass-last-byte": true, "long-pass-tail-after-last-block": true,
			"long-pass-byte-256": true, "long-pass-byte-257": true, "long-pass-one-shorter": true, "long-user-last-byte": true,
			"long-user-tail-after-last-block": true, "long-both-last-byte": true}
		for i, cv := range cvs {
			if budget > 0 && s.LongPass >= 1000 && !keep[cv.tag] {
				continue
			}
			out = append(out, mk("GET", hvs[0], "", cv, "absolute", "1.1"))
			if i%3 == 1 || budget == 0 {
				out = append(out, mk("CONNECT", hvs[0], ":443", cv, "authority", "1.1"))
			}
		}
		return out
	}
	if s.RealDial {
		// only spellings of the local machine, with the scripted origin's real port
		for _, hv := range hvs {
			// ground truth: a plain http.Transport WITHOUT the proxy reaches the loopback-only origin
			if !probeLocal(hv.host + ":" + originPort) {
				continue
			}
			out = append(out, mk("GET", hv, ":"+originPort, credVariants()[0], "absolute", "1.1"))
			out = append(out, mk("CONNECT", hv, ":"+originPort, credVariants()[0], "authority", "1.1"))
		}
		return out
	}
	// A: every host spelling, right credentials, rotating method / port / form
	for i, hv := range hvs {
		m := methods[i%len(methods)]
		form := "absolute"
		if i%5 == 3 {
			form = "origin"
		}
		out = append(out, mk(m, hv, ports[i%len(ports)], exact, form, "1.1"))
		out = append(out, mk(methods[(i+1)%2], hv, ports[(i+1)%len(ports)], exact, "absolute", "1.1"))
	}
	// B: every credential variant against an allowed and a denied host, GET and CONNECT
	if s.Auth {
		for i, cv := range cvs {
			out = append(out, mk("GET", hvs[0], "", cv, "absolute", "1.1"))
			out = append(out, mk("CONNECT", hvs[0], ":443", cv, "authority", "1.1"))
			out = append(out, mk(methods[i%len(methods)], hvs[3], ports[i%len(ports)], cv, "absolute", "1.1"))
			out = append(out, mk(methods[i%len(methods)], hvs[16], ports[i%len(ports)], cv, "absolute", "1.1"))
		}
	} else {
		for _, cv := range cvs[:4] {
			out = append(out, mk("GET", hvs[0], "", cv, "absolute", "1.1"))
		}
	}
	// C: HTTP/1.0, origin-form and random combinations
	nrand := 40
	if budget == 0 {
		nrand = 400 // thorough: many more random combinations of method / host / port / credentials / form / version
	}
	for i := 0; i < nrand; i++ {
		hv := hvs[r.Intn(len(hvs))]
		cv := cvs[r.Intn(len(cvs))]
		if r.Chance(1, 2) {
			cv = exact
		}
		form := "absolute"
		if r.Chance(1, 3) {
			form = "origin"
		}
		ver := "1.1"
		if r.Chance(1, 4) {
			ver = "1.0"
		}
		out = append(out, mk(methods[r.Intn(len(methods))], hv, ports[r.Intn(len(ports))], cv, form, ver))
	}
	// shuffle, then cut to the budget
	for i := len(out) - 1; i > 0; i-- {
		j := r.Intn(i + 1)
		out[i], out[j] = out[j], out[i]
	}
	if budget > 0 && len(out) > budget {
		out = out[:budget]
	}
	return out
}

func main() {
	seed := flag.Uint64("seed", 1, "PRNG seed")
	tier := flag.String("tier", "quick", "quick|thorough")
	outDir := flag.String("out", "", "output directory")
	replay := flag.String("replay", "", "replay file")
	flag.Parse()
	if err := os.MkdirAll(*outDir, 0o755); err != nil {
		panic(err)
	}
	r := rng.New(*seed)
	m := Meta{ShardSize: 400, ShardKinds: map[string]int{}, ShardSizes: map[string]int{}, ByStatus: map[string]int{}, ByMethod: map[string]int{},
		ByCred: map[string]int{}, ByHost: map[string]int{}, ByPos: map[string]int{}, InsideMITM: map[string]int{}}

	// the hosts file the proxy reads (hostsfile.LocalhostAliases opens the Location variable of the
	// kevinburke/hostsfile library): this machine's file plus loopback aliases written with capital letters
	// and a non-loopback record
	sys, _ := os.ReadFile(kbhosts.Location)
	hostsPath := filepath.Join(*outDir, "hosts")
	extra := "\n127.0.0.1\tDevBox-01 lowerbox\n::1\tIp6-Loopback-VF\n127.0.1.1\tMixedCase.Example\n10.9.8.7\tNotLocal-Alias\n"
	if err := os.WriteFile(hostsPath, append(sys, extra...), 0o644); err != nil {
		panic(err)
	}
	kbhosts.Location = hostsPath
	aliases, err := hostsfile.LocalhostAliases()
	if err != nil {
		m.Errors = append(m.Errors, "hostsfile: "+err.Error())
	}
	for i := range aliases {
		aliases[i] = strings.ToLower(aliases[i])
	}
	sort.Strings(aliases)
	m.Aliases = aliases

	rig, err := accessrig.NewRig()
	if err != nil {
		panic(err)
	}
	defer rig.Close()
	if err := rig.StartTLSOrigin(); err != nil {
		panic(err)
	}
	_, originPort, _ := net.SplitHostPort(rig.OriginAddr())

	var now time.Time
	restore := middleware.VerifSetClock(func() time.Time { return now })
	defer restore()

	type job struct {
		spec    Spec
		clock   [3]int
		session []accessrig.RawReq
		reqs    []ReqSpec
		connect *accessrig.RawReq // MITM: the CONNECT; session = requests inside the TLS session
		creq    ReqSpec
		// MITM with a time frame: the clock is moved to this value once the tunnel is established, so the
		// requests inside it meet another verdict of the time-frame check than the CONNECT did
		innerClock *[3]int
	}
	var jobs []job
	var replayPair *Case
	if *replay != "" {
		data, err := os.ReadFile(*replay)
		if err != nil {
			panic(err)
		}
		var c Case
		if err := json.Unmarshal(data, &c); err != nil {
			panic(err)
		}
		if len(c.Session) == 0 && c.Connect == nil {
			fmt.Println("replay: no session in the replay file (pure-function cases are replayed by the full run)")
			os.Exit(3)
		}
		if c.PrevSpec != nil {
			replayPair = &c
		} else if c.PrevClock != nil && len(c.PrevSession) > 0 {
			jobs = append(jobs, job{spec: c.Spec, clock: *c.PrevClock, session: c.PrevSession, reqs: make([]ReqSpec, len(c.PrevSession))})
		}
		if c.PrevSpec == nil {
			jb := job{spec: c.Spec, clock: c.Clock, session: c.Session, reqs: make([]ReqSpec, len(c.Session)), connect: c.Connect}
			if c.InnerClock != nil && c.Connect != nil {
				jb.innerClock = c.InnerClock
				jb.clock = clocks[0] // a clock at which the CONNECT is accepted
			}
			jobs = append(jobs, jb)
		}
	} else {
		budget := 60
		tfBudget := 10
		if *tier == "thorough" {
			budget, tfBudget = 0, 120
		}
		for _, s := range allSpecs(*tier) {
			cl := [][3]int{clocks[0]}
			if s.TimeFrame != nil {
				cl = clocks
			}
			for _, c := range cl {
				bud := budget
				if s.TimeFrame != nil {
					bud = tfBudget
				}
				reqs := genRequests(r, s, aliases, bud, originPort)
				if s.MITM {
					// (a) tunnels that are established (right credentials, allowed host) carrying 1..4 generated
					//     requests each; (b) every generated CONNECT on its own, with one inner request
					all := genRequests(r, s, aliases, 0, originPort)
					mbudget := 160
					if *tier == "thorough" {
						mbudget = len(all)
					}
					var connects, inner []ReqSpec
					for _, q := range all {
						if q.Method == "CONNECT" {
							connects = append(connects, q)
						} else if len(inner) < mbudget {
							q.Form = "origin"
							inner = append(inner, q)
						}
					}
					good := ReqSpec{Method: "CONNECT", Host: "example.test:443", Form: "authority", Version: "1.1",
						Headers: credVariantsFor(s)[1].lines, CredTag: "exact", HostTag: "plain"}
					for k, nth := 0, 0; k < len(inner); nth++ {
						craw := good.raw()
						craw.Inner = ""
						j := job{spec: s, clock: c, connect: &craw, creq: good}
						if s.TimeFrame != nil && nth%2 == 1 {
							ic := clocks[(nth/2)%len(clocks)]
							j.innerClock = &ic
						}
						for n := 1 + r.Intn(4); n > 0 && k < len(inner); n, k = n-1, k+1 {
							j.session = append(j.session, inner[k].raw())
							j.reqs = append(j.reqs, inner[k])
						}
						jobs = append(jobs, j)
					}
					if *tier != "thorough" && len(connects) > 40 {
						connects = connects[:40]
					}
					for _, cq := range connects {
						craw := cq.raw()
						craw.Inner = ""
						one := inner[r.Intn(len(inner))]
						jobs = append(jobs, job{spec: s, clock: c, connect: &craw, creq: cq,
							session: []accessrig.RawReq{one.raw()}, reqs: []ReqSpec{one}})
					}
					continue
				}
				if s.Auth && !s.RealDial && s.LongUser == 0 && s.LongPass == 0 {
					// histories: an ACCEPTED request first, then wrong credentials — among them the right header value
					// with its case folded — on the same connection, and each again on a connection of its own
					cv := map[string]credVariant{}
					for _, v := range credVariantsFor(s) {
						cv[v.tag] = v
					}
					for _, t := range []string{"value-lower", "token-upper", "token-swapcase"} {
						if _, ok := cv[t]; !ok {
							cv[t] = cv["value-upper"] // configurations with a reduced variant list
						}
					}
					hq := func(method, host, tag string) ReqSpec {
						form := "absolute"
						if method == "CONNECT" {
							form = "authority"
						}
						return ReqSpec{Method: method, Host: host, Form: form, Version: "1.1", Headers: cv[tag].lines, CredTag: tag, HostTag: "plain"}
					}
					hist := []ReqSpec{hq("GET", "example.test", "exact"), hq("GET", "example.test", "value-upper"), hq("GET", "example.test", "value-lower"),
						hq("CONNECT", "example.test:443", "token-upper")}
					hj := job{spec: s, clock: c}
					for _, q := range hist {
						hj.session = append(hj.session, q.raw())
						hj.reqs = append(hj.reqs, q)
					}
					jobs = append(jobs, hj)
					for _, q := range []ReqSpec{hq("CONNECT", "example.test:443", "value-lower"), hq("GET", "www.example.test:8080", "token-swapcase"),
						hq("POST", "example.test", "value-upper"), hq("GET", "example.test", "token-lower")} {
						jobs = append(jobs, job{spec: s, clock: c, session: []accessrig.RawReq{q.raw()}, reqs: []ReqSpec{q}})
					}
				}
				// sessions of 1..4 requests on one connection
				for i := 0; i < len(reqs); {
					n := 1 + r.Intn(4)
					if i+n > len(reqs) {
						n = len(reqs) - i
					}
					j := job{spec: s, clock: c}
					for _, q := range reqs[i : i+n] {
						j.session = append(j.session, q.raw())
						j.reqs = append(j.reqs, q)
					}
					jobs = append(jobs, j)
					i += n
				}
			}
		}
	}

	// run: one proxy per configuration; the clock moves on between sessions
	var cases []Case
	denied := map[int]map[string]bool{} // spec id -> hostnames the deny matcher matches
	idnaTable := map[string]string{}    // non-ASCII host name -> what idna.Lookup.ToASCII maps it to
	specByID := map[int]Spec{}
	curID := -1
	var cur *accessrig.Proxy
	var curMatcher forwarder.Matcher
	seen := map[string]bool{}
	stop := func() {
		if cur != nil {
			cur.Stop()
			cur = nil
		}
	}
	var firstAcc []accessrig.RawReq // first plain session of this proxy instance with an accepted request (right credentials)
	var firstAccClock [3]int
	var curClock, prevClock [3]int
	var curFirst, prevFirst []accessrig.RawReq // first plain session run at the current / previous clock value
	for _, j := range jobs {
		if cur == nil || j.spec.ID != curID {
			stop()
			seen = map[string]bool{}
			ps, mt, err := j.spec.proxySpec(rig, seen)
			if err != nil {
				panic(err)
			}
			now = clockTime(j.clock[0], j.clock[1], j.clock[2])
			p, err := rig.StartProxy(ps)
			if err != nil {
				panic(err)
			}
			cur, curID, curMatcher = p, j.spec.ID, mt
			specByID[j.spec.ID] = j.spec
			if denied[j.spec.ID] == nil {
				denied[j.spec.ID] = map[string]bool{}
			}
			curClock, prevClock, curFirst, prevFirst = j.clock, j.clock, nil, nil
			firstAcc = nil
		}
		if j.clock != curClock {
			prevClock, prevFirst = curClock, curFirst
			curClock, curFirst = j.clock, nil
		}
		if curFirst == nil && j.connect == nil {
			curFirst = j.session
		}
		now = clockTime(j.clock[0], j.clock[1], j.clock[2])
		var obs []accessrig.Obs
		sess, reqSpecs := j.session, j.reqs
		if j.connect != nil {
			var hook func()
			if j.innerClock != nil {
				ic := *j.innerClock
				hook = func() { now = clockTime(ic[0], ic[1], ic[2]) }
			}
			co, io := rig.SessionMITMWith(cur, *j.connect, j.session, hook)
			// the CONNECT is case -1 of the session: put it in front
			obs = append([]accessrig.Obs{co}, io...)
			sess = append([]accessrig.RawReq{*j.connect}, j.session[:len(io)]...)
			reqSpecs = append([]ReqSpec{j.creq}, j.reqs[:len(io)]...)
		} else {
			obs = rig.Session(cur, j.session)
		}
		m.Sessions++
		for i, o := range obs {
			req, err := accessrig.ParseRaw(sess[i].Raw)
			if err != nil {
				m.Skipped++
				continue
			}
			hn := req.URL.Hostname()
			if a := asciiForm(hn); a != hn {
				idnaTable[hn] = a
			}
			if curMatcher != nil {
				if curMatcher.Match(hn) {
					denied[j.spec.ID][hn] = true
				}
				for _, f := range []string{asciiForm(hn), strings.TrimSuffix(hn, "."), strings.TrimSuffix(asciiForm(hn), ".")} {
					if curMatcher.Match(f) {
						denied[j.spec.ID][f] = true
					}
				}
				// what the proxy handed to the matcher (when the request got that far) must be the same string
				if v, ok := seen[hn]; ok {
					m.MatcherChecks++
					if v != curMatcher.Match(hn) {
						m.MatcherDiffs++
					}
				}
			}
			targets := targetsOf(o, rig.UpstreamAddr())
			if curMatcher != nil {
				for _, t := range targets {
					for _, f := range []string{t, strings.TrimSuffix(t, ".")} {
						if curMatcher.Match(f) {
							denied[j.spec.ID][f] = true
						}
					}
				}
			}
			truth := false
			if j.spec.RealDial {
				truth = probeLocal(req.URL.Host)
			}
			c := Case{Spec: j.spec, Clock: j.clock, Session: j.session, Index: i, Req: reqSpecs[i], Obs: o, Targets: targets, Truth: truth}
			if prevFirst != nil && prevClock != j.clock {
				pc := prevClock
				c.PrevClock, c.PrevSession = &pc, prevFirst
			}
			if j.spec.Auth && firstAcc != nil &&
				(strings.HasPrefix(reqSpecs[i].CredTag, "value-") || strings.HasPrefix(reqSpecs[i].CredTag, "token-")) {
				// what matters for these: the proxy has accepted the right header value before
				fc := firstAccClock
				c.PrevClock, c.PrevSession = &fc, firstAcc
			}
			if firstAcc == nil && j.connect == nil && j.spec.Auth && o.FromPeer != "" && reqSpecs[i].CredTag == "exact" {
				firstAcc, firstAccClock = j.session, j.clock
			}
			if firstAcc == nil && j.connect != nil && i == 0 && j.spec.Auth && o.Status == 200 && reqSpecs[i].CredTag == "exact" {
				// MITM configuration: the first accepted request is a CONNECT
				firstAcc, firstAccClock = []accessrig.RawReq{*j.connect}, j.clock
			}
			if j.connect != nil {
				c.Connect, c.Index = j.connect, i-1
				if j.innerClock != nil {
					c.InnerClock = j.innerClock
					if i > 0 {
						c.Clock = *j.innerClock // the request inside the tunnel was judged at the moved clock
						c.Connect = j.connect
					}
				}
			}
			cases = append(cases, c)
			m.Exchanges++
			m.ByStatus[fmt.Sprint(o.Status)]++
			m.ByMethod[req.Method]++
			m.ByCred[reqSpecs[i].CredTag]++
			m.ByHost[reqSpecs[i].HostTag]++
			pos := fmt.Sprint(i)
			if j.connect != nil && i > 0 {
				pos = "inside-mitm-session-after-" + fmt.Sprint(i-1) + "-exchanges"
			} else if o.NewConn {
				pos = "first-on-connection"
			} else {
				pos = "after-" + fmt.Sprint(i) + "-exchanges"
			}
			m.ByPos[pos]++
			if j.connect != nil && i > 0 {
				// which check answered, read off the proxy's own error text
				why := "forwarded"
				switch e := o.Header.Get("X-Forwarder-Error"); {
				case strings.Contains(e, "authentication"):
					why = "basic-auth"
				case strings.Contains(e, "localhost"):
					why = "localhost"
				case strings.Contains(e, "time frame"):
					why = "time-frame"
				case strings.Contains(e, "denied"):
					why = "deny-domains"
				case e != "":
					why = "other-error"
				}
				m.InsideMITM[fmt.Sprintf("%d/%s", o.Status, why)]++
			}
			if o.FromPeer != "" {
				m.Forwarded++
			} else if o.Status == 407 || o.Status == 403 || o.Status == 451 {
				m.Refused++
			}
		}
	}
	stop()

	// ---- two proxies with DIFFERENT credentials alive in one process: what one accepted must not open the other
	{
		pairCase := func(spec Spec, prevSpec *Spec, prevSession, session []accessrig.RawReq, reqs []ReqSpec, p *accessrig.Proxy) {
			obs := rig.Session(p, session)
			m.Sessions++
			for i, o := range obs {
				c := Case{Spec: spec, Clock: clocks[0], Session: session, Index: i, Req: reqs[i], Obs: o, Targets: targetsOf(o, rig.UpstreamAddr())}
				if prevSpec != nil {
					ps := *prevSpec
					c.PrevSpec, c.PrevSession = &ps, prevSession
				}
				cases = append(cases, c)
				m.Exchanges++
				m.ByStatus[fmt.Sprint(o.Status)]++
				m.ByPos["two-proxies-in-one-process"]++
				if o.FromPeer != "" {
					m.Forwarded++
				} else if o.Status == 407 {
					m.Refused++
				}
			}
		}
		start := func(spec Spec) *accessrig.Proxy {
			ps, _, err := spec.proxySpec(rig, nil)
			if err != nil {
				panic(err)
			}
			p, err := rig.StartProxy(ps)
			if err != nil {
				panic(err)
			}
			specByID[spec.ID] = spec
			if denied[spec.ID] == nil {
				denied[spec.ID] = map[string]bool{}
			}
			return p
		}
		now = clockTime(clocks[0][0], clocks[0][1], clocks[0][2])
		if replayPair != nil {
			c := replayPair
			pp, p := start(*c.PrevSpec), start(c.Spec)
			rig.Session(pp, c.PrevSession)
			pairCase(c.Spec, c.PrevSpec, c.PrevSession, c.Session, make([]ReqSpec, len(c.Session)), p)
			pp.Stop()
			p.Stop()
		} else if *replay == "" {
			credLine := func(u, p string) [][2]string {
				return [][2]string{{"Proxy-Authorization", "Basic " + b64(u+":"+p)}}
			}
			mkReqs := func(u, p, tag string) ([]accessrig.RawReq, []ReqSpec) {
				qs := []ReqSpec{
					{Method: "GET", Host: "example.test", Form: "absolute", Version: "1.1", Headers: credLine(u, p), CredTag: tag, HostTag: "plain"},
					{Method: "CONNECT", Host: "example.test:443", Form: "authority", Version: "1.1", Headers: credLine(u, p), CredTag: tag, HostTag: "plain"},
					{Method: "POST", Host: "www.example.test:8080", Form: "absolute", Version: "1.1", Headers: credLine(u, p), CredTag: tag, HostTag: "plain-sub"},
				}
				var raws []accessrig.RawReq
				for _, q := range qs {
					raws = append(raws, q.raw())
				}
				return raws, qs
			}
			for round, up := range []bool{false, true} {
				sa := Spec{ID: 900 + 2*round, Auth: true, Upstream: up}
				sb := Spec{ID: 901 + 2*round, Auth: true, AltCreds: true, Upstream: up}
				pa, pb := start(sa), start(sb)
				aRaw, aReq := mkReqs(authUser, authPass, "exact")
				aAtB, aAtBReq := mkReqs(authUser, authPass, "other-proxys-credentials")
				bRaw, bReq := mkReqs(altUser, altPass, "exact")
				bAtA, bAtAReq := mkReqs(altUser, altPass, "other-proxys-credentials")
				pairCase(sa, nil, nil, aRaw, aReq, pa)             // A accepts its own credentials
				pairCase(sb, &sa, aRaw, aAtB, aAtBReq, pb)         // the same header at B: 407, nothing dialled
				pairCase(sb, nil, nil, bRaw, bReq, pb)             // B accepts its own
				pairCase(sa, &sb, bRaw, bAtA, bAtAReq, pa)         // B's at A: 407
				pairCase(sb, &sa, aRaw, aAtB[:1], aAtBReq[:1], pb) // and once more after both have accepted something
				pa.Stop()
				pb.Stop()
			}
		}
	}
	// quiescence: nothing may be dialled after the last response was read
	mark := rig.Mark()
	time.Sleep(150 * time.Millisecond)
	if d, ms := rig.Since(mark); len(d) > 0 || len(ms) > 0 {
		m.Errors = append(m.Errors, fmt.Sprintf("late upstream activity after the run: dials=%v msgs=%d", d, len(ms)))
	}

	// render
	var ids []int
	for id := range specByID {
		ids = append(ids, id)
	}
	sort.Ints(ids)
	var pre strings.Builder
	for _, id := range ids {
		var dl []string
		for h := range denied[id] {
			dl = append(dl, h)
		}
		sort.Strings(dl)
		pre.WriteString(coqConfig(specByID[id], dl, aliases, idnaTable))
		pre.WriteString("\n")
	}
	var xc, yc []string
	var xj, yj []any
	for i := range cases {
		c := &cases[i]
		raw := accessrig.RawReq{}
		if c.Index < 0 {
			raw = *c.Connect
		} else {
			raw = c.Session[c.Index]
		}
		s, ok := coqCase(c.Spec, c.Clock, raw, c.Obs, c.Targets, c.Truth)
		if !ok {
			m.Skipped++
			continue
		}
		if c.Spec.LongUser != 0 || c.Spec.LongPass != 0 {
			// long literals: shards of their own, fewer cases each, so that no single shard dominates the wall time
			yc = append(yc, s)
			yj = append(yj, c)
			continue
		}
		xc = append(xc, s)
		xj = append(xj, c)
	}
	m.Configs = len(ids)
	emit := func(kind, preamble, typ, mf, pf string, cs []string, js []any) {
		size := m.ShardSize
		if n, ok := m.ShardSizes[kind]; ok {
			size = n
		}
		for i := 0; i*size < len(cs); i++ {
			hi := (i + 1) * size
			if hi > len(cs) {
				hi = len(cs)
			}
			name := fmt.Sprintf("%s_%03d.v", kind, i)
			if err := writeShard(*outDir, name, preamble, typ, mf, pf, cs[i*size:hi]); err != nil {
				panic(err)
			}
			m.Shards = append(m.Shards, name)
		}
		m.ShardKinds[kind] = len(cs)
		writeJSONL(*outDir, kind+".jsonl", js)
	}
	if len(yc) > 0 {
		m.ShardSizes["ycases"] = 40
		emit("ycases", pre.String(), "xcase", "xcase_model_ok", "xcase_prop_ok", yc, yj)
	}
	emit("xcases", pre.String(), "xcase", "xcase_model_ok", "xcase_prop_ok", xc, xj)
	if *replay == "" {
		nb, nip, nh := 1500, 1500, 400
		if *tier == "thorough" {
			nb, nip, nh = 40000, 40000, 6000
		}
		bc, bj := basicCases(r, nb)
		emit("bcases", "", "bcase", "bcase_model_ok", "bcase_prop_ok", bc, bj)
		m.Basic = len(bc)
		ic, ij := ipCases(ipStrings(r, nip, aliases))
		emit("icases", "", "icase", "icase_model_ok", "always_ok", ic, ij)
		m.IP = len(ic)
		hc, hj := hostnameCases(r, nh, aliases)
		emit("hcases", "", "hcase", "hcase_model_ok", "always_ok", hc, hj)
		m.Hostname = len(hc)
		pfc, pfj, pfAcc := parseFrameCases(r, nh)
		emit("pfcases", "", "pfcase", "pfcase_model_ok", "pfcase_prop_ok", pfc, pfj)
		m.FrameSyntax, m.FrameSyntaxAccepted = len(pfc), pfAcc
		tc, tj := timeCases()
		emit("tcases", "", "tcase", "tcase_model_ok", "tcase_prop_ok", tc, tj)
		m.Time = len(tc)
	}
	if len(cases) > 0 {
		m.Samples = []Case{cases[0], cases[len(cases)/2], cases[len(cases)-1]}
	}
	data, _ := json.MarshalIndent(m, "", " ")
	os.WriteFile(filepath.Join(*outDir, "meta.json"), data, 0o644)
}

func writeJSONL(dir, name string, items []any) {
	f, err := os.Create(filepath.Join(dir, name))
	if err != nil {
		panic(err)
	}
	defer f.Close()
	enc := json.NewEncoder(f)
	for _, it := range items {
		enc.Encode(it)
	}
}

var _ = regexp.MustCompile
