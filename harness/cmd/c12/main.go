// Harness for C12 (upstream faults and hostile input): runs the REAL error
// classifier on synthetic errors, sweeps the cut point of an origin reply over
// every byte offset (FIN and RST, three framings, direct and via an upstream
// proxy) through the real in-process proxy with an independent client-side
// parser, and feeds hostile byte streams to the proxy running in a CHILD
// process (so that a crash is observed), probing it afterwards.
package main

import (
	"encoding/json"
	"flag"
	"fmt"
	"os"
	"path/filepath"
	"sort"
	"sync"
	"time"

	"verifharness/coqfmt"
	fr "verifharness/faultrig"
)

const shardSize = 150

func main() {
	seed := flag.Uint64("seed", 1, "seed")
	tier := flag.String("tier", "quick", "quick|thorough")
	out := flag.String("out", ".", "output directory")
	replay := flag.String("replay", "", "replay file")
	child := flag.Bool("child", false, "run as the proxy child process of the hostile-input experiment")
	childMem := flag.Int64("child-mem", 0, "child: address-space limit in bytes (0 = none)")
	childNoFile := flag.Int("child-nofile", 0, "child: run one plain proxy and cap the descriptor table at this many (0 = full child)")
	childRHT := flag.Duration("child-read-header-timeout", 0, "child: read header timeout (0 = forwarder's default)")
	lits := flag.String("status-literals", "400", "comma separated ErrorStatus literals found in the sources")
	flag.Parse()

	if *child {
		fr.HostileChild(*childMem, *childRHT, *childNoFile)
		return
	}
	self, _ := os.Executable()

	var rp struct {
		Kind string `json:"kind"`
		Name string `json:"name"`
	}
	if *replay != "" {
		b, err := os.ReadFile(*replay)
		if err != nil {
			fatal(err)
		}
		json.Unmarshal(b, &rp)
	}

	var statusLits []int
	for _, s := range splitComma(*lits) {
		var n int
		fmt.Sscanf(s, "%d", &n)
		if n > 0 {
			statusLits = append(statusLits, n)
		}
	}

	meta := map[string]any{"shard_size": shardSize}
	shards := []string{}

	// ---- E1: classifier on synthetic errors
	t0 := time.Now()
	ecases, err := fr.ClassifierCases(*tier, *seed, statusLits)
	if err != nil {
		fatal(err)
	}
	if rp.Kind != "" {
		var sel []fr.ErrCase
		for _, c := range ecases {
			if rp.Kind == "classifier" && c.Name == rp.Name {
				sel = append(sel, c)
				break
			}
		}
		ecases = sel
	}
	writeJSONL(filepath.Join(*out, "ecases.jsonl"), len(ecases), func(i int) any { return ecases[i] })
	shards = append(shards, writeShards(*out, "ecases", "ecase", "ecase_check", len(ecases), func(i int) string { return ecases[i].Coq() })...)
	codes := map[int]int{}
	for _, c := range ecases {
		codes[c.Code]++
	}
	meta["classifier_cases"] = len(ecases)
	meta["classifier_codes"] = codes
	meta["classifier_wall_s"] = time.Since(t0).Seconds()

	// ---- E2: cut sweep
	t0 = time.Now()
	ccases := fr.CutCases(*tier)
	if rp.Kind != "" {
		var sel []fr.CutCase
		for _, c := range ccases {
			if rp.Kind == "cut" && c.Name == rp.Name {
				sel = append(sel, c)
			}
		}
		ccases = sel
	}
	if len(ccases) > 0 {
		if err := fr.RunCutCases(ccases, 24); err != nil {
			fatal(err)
		}
	}
	writeJSONL(filepath.Join(*out, "ccases.jsonl"), len(ccases), func(i int) any { return ccases[i] })
	shards = append(shards, writeShards(*out, "ccases", "fcase", "fcase_check", len(ccases), func(i int) string { return ccases[i].Coq() })...)
	outcome := map[string]int{}
	for _, c := range ccases {
		outcome[c.Framing+"/"+c.End+"/"+c.Go.Verdict]++
	}
	meta["cut_cases"] = len(ccases)
	meta["cut_outcomes"] = outcome
	meta["cut_wall_s"] = time.Since(t0).Seconds()

	// ---- E4: the fault classes of the property statement, end to end (status mapping)
	t0 = time.Now()
	var scs []fr.ExCase
	for _, c := range fr.ExchangeCases(*tier, *seed) {
		if c.Class == "" {
			continue
		}
		if rp.Kind != "" && !(rp.Kind == "status" && rp.Name == c.Name) {
			continue
		}
		scs = append(scs, c)
	}
	sobs := make([]*fr.ExObs, len(scs))
	{
		var wg sync.WaitGroup
		sem := make(chan struct{}, 12)
		for i := range scs {
			wg.Add(1)
			sem <- struct{}{}
			go func(i int) {
				defer wg.Done()
				defer func() { <-sem }()
				sobs[i] = fr.RunExchangeCase(scs[i])
			}(i)
		}
		wg.Wait()
	}
	var slines []string
	classN := map[string]int{"connfail": 1, "tlsfail": 2, "timeout": 3, "rejected": 4, "other": 5, "refusal": 6}
	sf, _ := os.Create(filepath.Join(*out, "scases.jsonl"))
	senc := json.NewEncoder(sf)
	sclasses := map[string]int{}
	for _, o := range sobs {
		// the exchange that carries the fault is the last one of the case
		if len(o.Exs) == 0 {
			continue
		}
		ex := o.Exs[len(o.Exs)-1]
		p := fr.ParseResponse(ex.Raw, ex.RawEOF, false)
		slines = append(slines, fmt.Sprintf("(mkscase %d %s %d %s %s %d %d)", classN[o.Class], ex.Feat.Coq(), ex.UpStatus,
			coqfmt.Bytes(ex.Raw), coqfmt.Bool(ex.RawEOF), map[string]int{fr.VComplete: 0, fr.VIncomplete: 1, fr.VMalformed: 2, fr.VNone: 3}[p.Verdict], p.Status))
		senc.Encode(map[string]any{"name": o.Name, "class": o.Class, "status": p.Status, "verdict": p.Verdict, "err_hdr": ex.ErrHdr,
			"up_status": ex.UpStatus, "feat": ex.Feat, "harness_err": o.Err})
		sclasses[o.Class]++
	}
	sf.Close()
	shards = append(shards, writeShards(*out, "scases", "scase", "scase_check", len(slines), func(i int) string { return slines[i] })...)
	meta["status_cases"] = len(slines)
	meta["status_classes"] = sclasses
	meta["status_wall_s"] = time.Since(t0).Seconds()

	// ---- E5: error pages of concurrently failing requests (each must get its OWN page)
	if rp.Kind == "" || rp.Kind == "pages" {
		t0 = time.Now()
		pcs, err := fr.RunConcurrentErrorPages(*tier)
		if err != nil {
			fatal(err)
		}
		writeJSONL(filepath.Join(*out, "pgcases.jsonl"), len(pcs), func(i int) any { return pcs[i] })
		shards = append(shards, writeShards(*out, "pgcases", "pgcase", "pgcase_check", len(pcs), func(i int) string { return pcs[i].Coq() })...)
		meta["page_cases"] = len(pcs)
		meta["page_wall_s"] = time.Since(t0).Seconds()
	}

	// ---- E3: hostile client streams against the proxy in a child process
	t0 = time.Now()
	var hres []fr.HostileResult
	if rp.Kind == "" || rp.Kind == "hostile" {
		hres = fr.RunHostile(self, *tier, *seed, rp.Name)
	}
	writeJSONL(filepath.Join(*out, "hostile.jsonl"), len(hres), func(i int) any { return hres[i] })
	meta["hostile_cases"] = len(hres)
	meta["hostile_wall_s"] = time.Since(t0).Seconds()
	var hk []string
	for _, h := range hres {
		hk = append(hk, h.Name)
	}
	sort.Strings(hk)
	meta["hostile_names"] = hk

	meta["shards"] = shards
	mb, _ := json.MarshalIndent(meta, "", " ")
	if err := os.WriteFile(filepath.Join(*out, "meta.json"), mb, 0o644); err != nil {
		fatal(err)
	}
}

func splitComma(s string) []string {
	var out []string
	cur := ""
	for _, c := range s {
		if c == ',' {
			out = append(out, cur)
			cur = ""
		} else {
			cur += string(c)
		}
	}
	return append(out, cur)
}

func writeJSONL(path string, n int, get func(int) any) {
	f, err := os.Create(path)
	if err != nil {
		fatal(err)
	}
	defer f.Close()
	enc := json.NewEncoder(f)
	for i := 0; i < n; i++ {
		enc.Encode(get(i))
	}
}

func writeShards(dir, prefix, typ, check string, n int, get func(int) string) []string {
	shards := []string{}
	for s := 0; s*shardSize < n; s++ {
		lo, hi := s*shardSize, (s+1)*shardSize
		if hi > n {
			hi = n
		}
		parts := make([]string, 0, hi-lo)
		for i := lo; i < hi; i++ {
			parts = append(parts, get(i))
		}
		name := fmt.Sprintf("%s_%d.v", prefix, s)
		body := "From G12 Require Import Check12.\nOpen Scope N_scope.\n" + fr.CutBodyCoq() +
			"Definition cases : list " + typ + " := " + coqfmt.List(typ, parts) + ".\n" +
			"Definition R := Eval vm_compute in (map " + check + " cases).\n" +
			"Definition M := Eval vm_compute in (bad_fst R).\nPrint M.\n" +
			"Definition P := Eval vm_compute in (bad_snd R).\nPrint P.\n"
		if err := os.WriteFile(filepath.Join(dir, name), []byte(body), 0o644); err != nil {
			fatal(err)
		}
		shards = append(shards, name)
	}
	return shards
}

func fatal(err error) {
	fmt.Fprintln(os.Stderr, "c12 harness:", err)
	os.Exit(2)
}
