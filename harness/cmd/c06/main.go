// Harness for C06 (credentials are confined to the hop they belong to).  Every hop is scripted and records
// the Authorization / Proxy-Authorization fields (and every other field) it receives: an origin, an upstream
// proxy (plain requests, CONNECT heads, and what comes through its tunnels).  The REAL proxy runs in-process
// with credential tables x upstream selections x targets x client header shapes.  CredentialsMatcher.Match /
// MatchURL are additionally run directly through the public API against the model and the documented precedence.
package main

import (
	"encoding/base64"
	"encoding/json"
	"flag"
	"fmt"
	"net/http"
	"net/url"
	"os"
	"path/filepath"
	"strings"

	"github.com/saucelabs/forwarder"
	"github.com/saucelabs/forwarder/log"
	"github.com/saucelabs/forwarder/verifhook/mheader"

	"verifharness/accessrig"
	"verifharness/coqfmt"
	"verifharness/rng"
)

const (
	proxyName = "vfproxy"
	authUser  = "user"
	authPass  = "pa:ss"
)

func b64(s string) string { return base64.StdEncoding.EncodeToString([]byte(s)) }

type Entry struct {
	Host, Port, User, Pass string
}

func (e Entry) String() string {
	p := e.Port
	if p == "0" {
		p = "*"
	}
	return fmt.Sprintf("%s:%s@%s:%s", e.User, e.Pass, e.Host, p)
}

func (e Entry) hpu() *forwarder.HostPortUser {
	return &forwarder.HostPortUser{HostPort: forwarder.HostPort{Host: e.Host, Port: e.Port}, Userinfo: url.UserPassword(e.User, e.Pass)}
}

func coqEntries(es []Entry) string {
	var parts []string
	for _, e := range es {
		parts = append(parts, fmt.Sprintf("{| e_host := %s; e_port := %s; e_cred := (%s, %s) |}",
			coqfmt.Str(e.Host), coqfmt.Str(e.Port), coqfmt.Str(e.User), coqfmt.Str(e.Pass)))
	}
	return coqfmt.List("entry", parts)
}

func coqOptCred(u *url.Userinfo) string {
	if u == nil {
		return "None"
	}
	p, _ := u.Password()
	return fmt.Sprintf("(Some (%s, %s))", coqfmt.Str(u.Username()), coqfmt.Str(p))
}

// ---------------------------------------------------------------- direct differential on the matcher

var mcHosts = []string{"example.test", "other.test", "EXAMPLE.test", "a.b", "127.0.0.1", "10.0.0.1", "::1", "2001:db8::1", "*"}
var mcPorts = []string{"80", "443", "8080", "0", "1", "65535"}

func genEntries(r *rng.R) []Entry {
	n := r.Intn(7)
	var es []Entry
	for i := 0; i < n; i++ {
		es = append(es, Entry{Host: r.Pick(mcHosts), Port: r.Pick(mcPorts), User: fmt.Sprintf("u%d", i), Pass: fmt.Sprintf("p%d", r.Intn(3))})
	}
	return es
}

func matcherCases(r *rng.R, n int) ([]string, []any, int, int) {
	var out []string
	var js []any
	built, hits := 0, 0
	queries := []string{"example.test:80", "example.test:443", "example.test:8080", "example.test", "example.test:", ":80", "other.test:80",
		"EXAMPLE.test:80", "[::1]:80", "::1:80", "[::1]", "[::1]:", "[2001:db8::1]:443", "127.0.0.1:80", "127.0.0.1:1", "a.b:65535", "*:80", "*:0",
		"example.test:0", "a.b:0", "", ":", "[", "[]:80", "[::1]x:80", "a:b:c", "example.test:80:80", "[::1]:80]", "x[::1]:80", "10.0.0.1:8080"}
	schemes := []string{"http", "https", "http", "https", "socks5", "", "HTTP", "ftp"}
	emit := func(es []Entry, isURL bool, scheme, q string) {
		var hpus []*forwarder.HostPortUser
		for _, e := range es {
			hpus = append(hpus, e.hpu())
		}
		cm, err := forwarder.NewCredentialsMatcher(hpus, log.NopLogger)
		ok := err == nil
		var res *url.Userinfo
		if ok {
			built++
			if isURL {
				res = cm.MatchURL(&url.URL{Scheme: scheme, Host: q})
			} else {
				res = cm.Match(q)
			}
			if res != nil {
				hits++
			}
		}
		out = append(out, fmt.Sprintf("{| mc_entries := %s; mc_built := %s; mc_url := %s; mc_scheme := %s; mc_query := %s; mc_out := %s |}",
			coqEntries(es), coqfmt.Bool(ok), coqfmt.Bool(isURL), coqfmt.Str(scheme), coqfmt.Str(q), coqOptCred(res)))
		var ss []string
		for _, e := range es {
			ss = append(ss, e.String())
		}
		js = append(js, map[string]any{"kind": "matcher", "entries": ss, "url": isURL, "scheme": scheme, "query": q})
	}
	// corpus: the documented precedence, every level shadowing the next
	full := []Entry{{"*", "0", "g", "gp"}, {"example.test", "0", "h", "hp"}, {"*", "80", "p", "pp"}, {"example.test", "80", "x", "xp"},
		{"::1", "80", "v6", "v6p"}, {"::1", "0", "v6h", "v6hp"}}
	for _, q := range queries {
		emit(full, false, "", q)
		emit(full[:3], false, "", q)
		emit(full[:2], false, "", q)
		emit(full[:1], false, "", q)
		emit(nil, false, "", q)
		for _, s := range []string{"http", "https", "ws"} {
			emit(full, true, s, q)
		}
	}
	emit([]Entry{{"*", "0", "a", "b"}, {"*", "0", "c", "d"}}, false, "", "x:1")
	emit([]Entry{{"a.b", "1", "a", "b"}, {"a.b", "1", "c", "d"}}, false, "", "a.b:1")
	for i := 0; i < n; i++ {
		es := genEntries(r)
		q := r.Pick(queries)
		if r.Chance(1, 2) {
			h := r.Pick(mcHosts)
			if strings.Contains(h, ":") && r.Chance(3, 4) {
				h = "[" + h + "]"
			}
			q = h
			if r.Chance(3, 4) {
				q += ":" + r.Pick(mcPorts)
			}
		}
		if r.Chance(1, 2) {
			emit(es, true, r.Pick(schemes), q)
		} else {
			emit(es, false, "", q)
		}
	}
	return out, js, built, hits
}

// ---------------------------------------------------------------- hop-by-hop modifier, directly

func hopCases(r *rng.R, n int) ([]string, []any) {
	mod := mheader.NewHopByHopModifier()
	var out []string
	var js []any
	emit := func(h http.Header) {
		in := h.Clone()
		req := &http.Request{Header: h}
		if err := mod.ModifyRequest(req); err != nil {
			return
		}
		out = append(out, fmt.Sprintf("{| k_in := %s; k_out := %s |}", coqfmt.Header(in), coqfmt.Header(req.Header)))
		js = append(js, map[string]any{"kind": "hop-by-hop", "header": in})
	}
	conns := []string{"", ",", " ", "close", "keep-alive", "keep-alive, ", ", keep-alive", "keep-alive,,x-a", "keep-alive, \t ,x-a",
		"proxy-authorization", "Proxy-Authorization", "PROXY-AUTHORIZATION", "authorization", "x-a, x-b", "x-a,x-b,", " x-a ", "te", "upgrade",
		"keep-alive, authorization", ",,", "x-a;q=1", "x a", "\u00e9"}
	names := []string{"Proxy-Authorization", "Authorization", "X-A", "X-B", "Keep-Alive", "Te", "Upgrade", "Proxy-Connection", "Trailer", "Transfer-Encoding", "Proxy-Authenticate", "Accept"}
	for _, c1 := range conns {
		for _, c2 := range []string{"-", "", "x-b", "proxy-authorization"} {
			h := http.Header{"Proxy-Authorization": {"Basic Y2xpOmVudA=="}, "Authorization": {"Bearer t"}, "X-A": {"1"}, "X-B": {"2"}, "Accept": {"*/*"}}
			h["Connection"] = []string{c1}
			if c2 != "-" {
				h["Connection"] = append(h["Connection"], c2)
			}
			emit(h)
		}
	}
	for i := 0; i < n; i++ {
		h := http.Header{}
		for k := r.Intn(3); k > 0; k-- {
			h["Connection"] = append(h["Connection"], r.Pick(conns))
		}
		for k := r.Intn(6); k > 0; k-- {
			nm := r.Pick(names)
			h[nm] = append(h[nm], r.Pick([]string{"", "v", "Basic eA==", "1, 2"}))
		}
		emit(h)
	}
	return out, js
}

// ---------------------------------------------------------------- end to end

type Spec struct {
	ID       int     `json:"id"`
	Table    []Entry `json:"table"`
	Upstream string  `json:"upstream"` // "none" | "static" | "static-userinfo" | "pac"
	Auth     bool    `json:"auth"`     // this proxy requires basic auth
	MITM     bool    `json:"mitm"`     // every CONNECT is intercepted; the session's requests travel inside the TLS session
	Reverse  bool    `json:"reverse"`  // "pac2": visit the second proxy's targets first
	// ports of the two scripted upstream proxies in the run that produced the case: a replay re-points
	// table entries naming them to the ports of its own run
	UpPort  string `json:"up_port"`
	Up2Port string `json:"up2_port"`
}

// pac2 selects one of two upstream proxies ON THE SAME HOST (different ports) by the request's host name.
type pac2 struct{ first, second string }

func pac2Second(host string) bool {
	return strings.HasPrefix(host, "other.") || strings.HasPrefix(host, "[2001")
}

func (p pac2) FindProxyForURL(u *url.URL, _ string) (string, error) {
	if pac2Second(u.Host) {
		return "PROXY " + p.second, nil
	}
	return "PROXY " + p.first, nil
}

type pacStub struct{ answer string }

func (p pacStub) FindProxyForURL(*url.URL, string) (string, error) { return p.answer, nil }

type ReqSpec struct {
	Scheme   string      `json:"scheme"` // "http" (default) | "https" for absolute-form requests
	Method   string      `json:"method"`
	Host     string      `json:"host"`
	Headers  [][2]string `json:"headers"`
	InnerHdr [][2]string `json:"inner_headers"`
	AuthTag  string      `json:"auth_tag"`
	PATag    string      `json:"pa_tag"`
	Inner    bool        `json:"inner"`      // sent inside an intercepted TLS session
	AbsForm  string      `json:"abs_scheme"` // Inner: "" = origin-form, else the scheme of the absolute-form target the client writes
}

func (q ReqSpec) raw() accessrig.RawReq {
	hs := append([][2]string{{"Host", q.Host}}, q.Headers...)
	if q.Method == http.MethodConnect {
		inner := append([][2]string{{"Host", q.Host}}, q.InnerHdr...)
		return accessrig.RawReq{Raw: accessrig.BuildRaw("CONNECT", q.Host, "1.1", hs, ""), Method: "CONNECT",
			Inner: accessrig.BuildRaw("GET", "/inner", "1.1", inner, "")}
	}
	body := ""
	if q.Method == "POST" {
		body = "payload"
	}
	if q.Inner {
		target := "/vf"
		if q.AbsForm != "" {
			target = q.AbsForm + "://" + q.Host + "/vf"
		}
		return accessrig.RawReq{Raw: accessrig.BuildRaw(q.Method, target, "1.1", hs, body), Method: q.Method}
	}
	scheme := q.Scheme
	if scheme == "" {
		scheme = "http"
	}
	return accessrig.RawReq{Raw: accessrig.BuildRaw(q.Method, scheme+"://"+q.Host+"/vf", "1.1", hs, body), Method: q.Method}
}

type shape struct {
	tag   string
	lines [][2]string
}

const clientSecret = "cli:entsecret"

func authShapes() []shape {
	return []shape{
		{"absent", nil},
		{"bearer", [][2]string{{"Authorization", "Bearer client-token"}}},
		{"basic", [][2]string{{"Authorization", "Basic " + b64("me:mine")}}},
		{"empty-then-bearer", [][2]string{{"Authorization", ""}, {"Authorization", "Bearer client-token"}}},
		{"bearer-then-empty", [][2]string{{"Authorization", "Bearer client-token"}, {"Authorization", ""}}},
		{"two-lines", [][2]string{{"Authorization", "Bearer one"}, {"Authorization", "Bearer two"}}},
		{"empty-only", [][2]string{{"Authorization", ""}}},
		{"lower-name", [][2]string{{"authorization", "Bearer client-token"}}},
		{"nominated", [][2]string{{"Connection", "Authorization"}, {"Authorization", "Bearer client-token"}}},
	}
}

func paShapes(auth bool) []shape {
	v := "Basic " + b64(clientSecret)
	if auth {
		v = "Basic " + b64(authUser+":"+authPass)
	}
	s := []shape{
		{"single", [][2]string{{"Proxy-Authorization", v}}},
		{"lower-name", [][2]string{{"proxy-authorization", v}}},
		{"upper-name", [][2]string{{"PROXY-AUTHORIZATION", v}}},
		{"repeated", [][2]string{{"Proxy-Authorization", v}, {"Proxy-Authorization", v}}},
		{"repeated-mixed-case", [][2]string{{"Proxy-Authorization", v}, {"proxy-AUTHORIZATION", v}}},
		{"nominated", [][2]string{{"Connection", "Proxy-Authorization"}, {"Proxy-Authorization", v}}},
		{"nominated-with-close", [][2]string{{"Connection", "keep-alive, proxy-authorization"}, {"Proxy-Authorization", v}}},
		{"with-proxy-connection", [][2]string{{"Proxy-Connection", "keep-alive"}, {"Proxy-Authorization", v}}},
		// Connection values with EMPTY list elements
		{"conn-trailing-comma", [][2]string{{"Connection", "keep-alive, "}, {"Proxy-Authorization", v}}},
		{"conn-leading-comma", [][2]string{{"Connection", ", keep-alive"}, {"Proxy-Authorization", v}}},
		{"conn-double-comma", [][2]string{{"Connection", "keep-alive,,x-vf-hop"}, {"X-Vf-Hop", "1"}, {"Proxy-Authorization", v}}},
		{"conn-empty-value", [][2]string{{"Connection", ""}, {"Proxy-Authorization", v}}},
		{"conn-whitespace-element", [][2]string{{"Connection", "keep-alive, \t ,x-vf-hop"}, {"X-Vf-Hop", "1"}, {"Proxy-Authorization", v}}},
		{"conn-only-comma", [][2]string{{"Connection", ","}, {"Proxy-Authorization", v}}},
		{"conn-two-lines-one-empty", [][2]string{{"Connection", ""}, {"Connection", "proxy-authorization"}, {"Proxy-Authorization", v}}},
	}
	if !auth {
		s = append(s, shape{"absent", nil},
			shape{"bearer", [][2]string{{"Proxy-Authorization", "Bearer " + b64(clientSecret)}}})
	}
	return s
}

var targets = []string{"example.test", "example.test:80", "example.test:8080", "other.test", "other.test:8080", "EXAMPLE.test:80", "[2001:db8::1]:80", "[2001:db8::1]"}
var httpsTargets = []string{"example.test", "example.test:443", "example.test:8080", "other.test", "[2001:db8::1]"}
var connectTargets = []string{"example.test:443", "example.test:80", "other.test:8443", "[2001:db8::1]:443"}

type Case struct {
	Spec    Spec               `json:"spec"`
	Session []accessrig.RawReq `json:"session"`
	Index   int                `json:"index"`
	Req     ReqSpec            `json:"req"`
	Obs     accessrig.Obs      `json:"obs"`
	Connect *accessrig.RawReq  `json:"connect,omitempty"` // MITM: the CONNECT that opened the intercepted tunnel
	// history on the same proxy instance: the session that ran just before (PAC: routed to the other proxy)
	PrevSession []accessrig.RawReq `json:"prev_session,omitempty"`
}

func coqUpstream(s Spec, upAddr string) string {
	switch s.Upstream {
	case "pac2":
		return fmt.Sprintf("(UpPac %s %s)", coqfmt.Str("http"), coqfmt.Str(upAddr))
	case "static":
		return fmt.Sprintf("(UpStatic %s %s None)", coqfmt.Str("http"), coqfmt.Str(upAddr))
	case "static-userinfo":
		return fmt.Sprintf("(UpStatic %s %s (Some (%s, %s)))", coqfmt.Str("http"), coqfmt.Str(upAddr), coqfmt.Str("urluser"), coqfmt.Str("urlpw"))
	case "pac":
		return fmt.Sprintf("(UpPac %s %s)", coqfmt.Str("http"), coqfmt.Str(upAddr))
	}
	return "UpNone"
}

func coqCase(s Spec, upAddr string, raw accessrig.RawReq, q ReqSpec, o accessrig.Obs) (string, bool) {
	req, err := accessrig.ParseRaw(raw.Raw)
	if err != nil {
		return "", false
	}
	var msgs []string
	for _, m := range o.Msgs {
		to, kind := "ToOrigin", "GPlain"
		if strings.HasPrefix(m.Peer, "upstream") {
			to = "ToProxy"
		}
		switch {
		case m.Kind == "proxy-connect":
			kind = "GConnect"
		case m.Kind == "tunnel-inner" && req.Method != http.MethodConnect:
			// the proxy's own request inside the tunnel it opened through the upstream proxy: its recipient is the origin
			to, kind = "ToOrigin", "GTunnelInner"
		case m.Kind == "tunnel-inner", req.Method == http.MethodConnect:
			kind = "GTunnelInner"
		}
		msgs = append(msgs, fmt.Sprintf("{| g_to := %s; g_kind := %s; g_hdr := %s |}", to, kind, coqfmt.Header(m.Header)))
	}
	var innerAuth []string
	for _, h := range q.InnerHdr {
		if strings.EqualFold(h[0], "Authorization") {
			innerAuth = append(innerAuth, h[1])
		}
	}
	scheme := req.URL.Scheme
	if scheme == "" && req.Method != http.MethodConnect {
		scheme = "http"
	}
	claimed := scheme
	if q.Inner {
		// Proxy.fixRequestScheme: the request line's scheme, else X-Forwarded-Proto, else https (TLS session);
		// the request really travels over TLS
		claimed = req.URL.Scheme
		if claimed == "" {
			claimed = req.Header.Get("X-Forwarded-Proto")
		}
		if claimed == "" {
			claimed = "https"
		}
		scheme = "https"
	}
	return fmt.Sprintf("{| f_entries := %s; f_up := %s; f_req := {| r_method := %s; r_host := %s; r_hdr := %s |}; f_scheme := %s; f_mitm := %s; f_claimed := %s; f_inner_auth := %s; f_msgs := %s |}",
		coqEntries(s.Table), coqUpstream(s, upAddr), coqfmt.Str(req.Method), coqfmt.Str(req.URL.Host), coqfmt.Header(req.Header),
		coqfmt.Str(scheme), coqfmt.Bool(q.Inner), coqfmt.Str(claimed), coqfmt.StrList(innerAuth), coqfmt.List("gmsg", msgs)), true
}

func writeShard(dir, name, typ, modelF, propF string, cases []string) error {
	var sb strings.Builder
	sb.WriteString("From G04 Require Import CredsCheck.\nOpen Scope N_scope.\n")
	fmt.Fprintf(&sb, "Definition cases : list %s :=\n  %s.\n", typ, coqfmt.List(typ, cases))
	fmt.Fprintf(&sb, "Definition M := Eval vm_compute in (bad %s cases).\n", modelF)
	fmt.Fprintf(&sb, "Definition P := Eval vm_compute in (bad %s cases).\n", propF)
	sb.WriteString("Print M.\nPrint P.\n")
	return os.WriteFile(filepath.Join(dir, name), []byte(sb.String()), 0o644)
}

type Meta struct {
	Shards       []string       `json:"shards"`
	ShardSize    int            `json:"shard_size"`
	ShardKinds   map[string]int `json:"shard_case_counts"`
	Configs      int            `json:"configs"`
	Exchanges    int            `json:"exchanges"`
	NotForwarded int            `json:"exchanges_not_forwarded"`
	MsgsByHop    map[string]int `json:"messages_received_by_hop_and_kind"`
	WithAuth     int            `json:"messages_carrying_authorization"`
	WithPA       int            `json:"messages_carrying_proxy_authorization"`
	ByUpstream   map[string]int `json:"exchanges_by_upstream_selection"`
	ByAuthShape  map[string]int `json:"exchanges_by_client_authorization_shape"`
	ByPAShape    map[string]int `json:"exchanges_by_client_proxy_authorization_shape"`
	ByMethod     map[string]int `json:"exchanges_by_method"`
	ByScheme     map[string]int `json:"exchanges_by_scheme"`
	HopCases     int            `json:"hop_by_hop_cases"`
	MatcherCases int            `json:"matcher_cases"`
	MatcherBuilt int            `json:"matcher_cases_table_accepted"`
	MatcherHits  int            `json:"matcher_cases_with_a_match"`
	Samples      []Case         `json:"samples"`
	Errors       []string       `json:"errors"`
}

func tables(upHost, upPort string) [][]Entry {
	return [][]Entry{
		nil,
		{{"example.test", "80", "site", "sitepw"}},
		{{"*", "80", "w80", "w80pw"}, {"example.test", "0", "hany", "hanypw"}, {"*", "0", "glob", "globpw"}, {"example.test", "8080", "ex", "expw"}},
		{{upHost, upPort, "up", "uppw"}, {"example.test", "443", "s443", "s443pw"}},
		{{upHost, "0", "uphost", "uphostpw"}, {"*", upPort, "upport", "upportpw"}, {"other.test", "8080", "oth", "othpw"}, {"2001:db8::1", "80", "v6", "v6pw"}},
		{{"*", "0", "glob", "globpw"}},
	}
}

func main() {
	seed := flag.Uint64("seed", 1, "PRNG seed")
	tier := flag.String("tier", "quick", "quick|thorough")
	outDir := flag.String("out", "", "output directory")
	replay := flag.String("replay", "", "replay file")
	flag.Parse()
	if err := os.MkdirAll(*outDir, 0o755); err != nil {
		panic(err)
	}
	r := rng.New(*seed)
	m := Meta{ShardSize: 300, ShardKinds: map[string]int{}, MsgsByHop: map[string]int{}, ByUpstream: map[string]int{},
		ByAuthShape: map[string]int{}, ByPAShape: map[string]int{}, ByMethod: map[string]int{}, ByScheme: map[string]int{}}

	rig, err := accessrig.NewRig()
	if err != nil {
		panic(err)
	}
	defer rig.Close()
	if err := rig.StartTLSOrigin(); err != nil {
		panic(err)
	}
	upAddr := rig.UpstreamAddr()
	upHost, upPort := "127.0.0.1", upAddr[strings.LastIndex(upAddr, ":")+1:]

	up2Addr := rig.Upstream2Addr()
	up2Port := up2Addr[strings.LastIndex(up2Addr, ":")+1:]
	type job struct {
		spec    Spec
		session []accessrig.RawReq
		reqs    []ReqSpec
		connect *accessrig.RawReq
	}
	var jobs []job
	if *replay != "" {
		data, err := os.ReadFile(*replay)
		if err != nil {
			panic(err)
		}
		var c Case
		if err := json.Unmarshal(data, &c); err != nil {
			panic(err)
		}
		if len(c.Session) == 0 {
			fmt.Println("replay: no session in the replay file (matcher cases are replayed by the full run)")
			os.Exit(3)
		}
		// entries naming the upstream proxy's address of the original run are re-pointed to this run's address
		for i := range c.Spec.Table {
			switch c.Spec.Table[i].Port {
			case c.Spec.UpPort:
				c.Spec.Table[i].Port = upPort
			case c.Spec.Up2Port:
				c.Spec.Table[i].Port = up2Port
			}
		}
		c.Spec.UpPort, c.Spec.Up2Port = upPort, up2Port
		if len(c.PrevSession) > 0 {
			jobs = append(jobs, job{spec: c.Spec, session: c.PrevSession, reqs: make([]ReqSpec, len(c.PrevSession))})
		}
		jobs = append(jobs, job{spec: c.Spec, session: c.Session, reqs: []ReqSpec{c.Req}, connect: c.Connect})
		for len(jobs[0].reqs) < len(c.Session) {
			jobs[0].reqs = append(jobs[0].reqs, c.Req)
		}
	} else {
		id := 0
		budget := 60
		if *tier == "thorough" {
			budget = 0
		}
		for _, tb := range tables(upHost, upPort) {
			for _, up := range []string{"none", "static", "static-userinfo", "pac"} {
				for _, auth := range []bool{false, true} {
					s := Spec{ID: id, Table: tb, Upstream: up, Auth: auth}
					id++
					var reqs []ReqSpec
					as, ps := authShapes(), paShapes(auth)
					for i, t := range targets {
						for j, a := range as {
							p := ps[(i+j)%len(ps)]
							method := "GET"
							if (i+j)%5 == 4 {
								method = "POST"
							}
							reqs = append(reqs, ReqSpec{Method: method, Host: t, Headers: append(append([][2]string{}, p.lines...), a.lines...), AuthTag: a.tag, PATag: p.tag})
						}
					}
					// https targets in absolute form: TLS to the origin, or the Transport's own CONNECT through the proxy
					for i, t := range httpsTargets {
						for j, a := range as {
							p := ps[(i+2*j)%len(ps)]
							reqs = append(reqs, ReqSpec{Scheme: "https", Method: "GET", Host: t, Headers: append(append([][2]string{}, p.lines...), a.lines...), AuthTag: a.tag, PATag: p.tag})
						}
					}
					for i, t := range connectTargets {
						for j, p := range ps {
							a := as[(i+j)%len(as)]
							inner := [][2]string{}
							if (i+j)%2 == 0 {
								inner = append(inner, [2]string{"Authorization", "Bearer inner-token"})
							}
							reqs = append(reqs, ReqSpec{Method: "CONNECT", Host: t, Headers: append(append([][2]string{}, p.lines...), a.lines...), InnerHdr: inner, AuthTag: a.tag, PATag: p.tag})
						}
					}
					for i := len(reqs) - 1; i > 0; i-- {
						j := r.Intn(i + 1)
						reqs[i], reqs[j] = reqs[j], reqs[i]
					}
					if budget > 0 && len(reqs) > budget {
						reqs = reqs[:budget]
					}
					for i := 0; i < len(reqs); {
						n := 1 + r.Intn(3)
						if i+n > len(reqs) {
							n = len(reqs) - i
						}
						j := job{spec: s}
						for _, q := range reqs[i : i+n] {
							j.session = append(j.session, q.raw())
							j.reqs = append(j.reqs, q)
						}
						jobs = append(jobs, j)
						i += n
					}
				}
			}
		}
		// ---- two PAC-selected proxies on the same host, different ports, port-specific entries; the proxy
		//      instance sees the targets of one proxy first, then those of the other (both orders)
		pacTables := [][]Entry{
			{{upHost, upPort, "up1", "up1pw"}, {upHost, up2Port, "up2", "up2pw"}},
			{{upHost, upPort, "up1", "up1pw"}},
			{{upHost, up2Port, "up2", "up2pw"}, {"*", upPort, "anyp1", "anyp1pw"}},
		}
		for _, tb := range pacTables {
			for _, rev := range []bool{false, true} {
				s := Spec{ID: id, Table: tb, Upstream: "pac2", Reverse: rev}
				id++
				groups := [][]string{{"example.test", "example.test:8080"}, {"other.test", "other.test:8080"}}
				if rev {
					groups[0], groups[1] = groups[1], groups[0]
				}
				for round := 0; round < 2; round++ {
					for _, g := range groups {
						for _, t := range g {
							ct := t
							if !strings.Contains(t, ":") {
								ct = t + ":443"
							}
							for _, q := range []ReqSpec{
								{Method: "GET", Host: t, AuthTag: "absent", PATag: "absent"},
								{Method: "CONNECT", Host: ct, AuthTag: "absent", PATag: "absent"},
								{Scheme: "https", Method: "GET", Host: t, AuthTag: "absent", PATag: "absent"},
							} {
								jobs = append(jobs, job{spec: s, session: []accessrig.RawReq{q.raw()}, reqs: []ReqSpec{q}})
							}
						}
					}
				}
			}
		}
		// ---- MITM: requests inside an intercepted TLS session that CLAIM to be http (X-Forwarded-Proto, absolute
		//      http:// target) while they really go to port 443 over TLS; entries differ by port
		mitmTables := [][]Entry{
			{{"example.test", "80", "u80", "u80pw"}, {"example.test", "443", "u443", "u443pw"}},
			{{"*", "80", "w80", "w80pw"}, {"*", "443", "w443", "w443pw"}},
			{{"example.test", "80", "u80", "u80pw"}},
			{{"*", "80", "w80", "w80pw"}, {"example.test", "0", "hany", "hanypw"}},
			{{"example.test", "443", "u443", "u443pw"}, {"*", "0", "glob", "globpw"}},
		}
		for _, tb := range mitmTables {
			s := Spec{ID: id, Table: tb, Upstream: "none", MITM: true}
			id++
			var inner []ReqSpec
			for _, h := range []string{"example.test", "other.test", "example.test:443", "example.test:8443"} {
				for _, abs := range []string{"", "http", "https"} {
					for _, xfp := range []string{"", "http", "https"} {
						for _, a := range authShapes()[:3] {
							hs := append([][2]string{}, a.lines...)
							if xfp != "" {
								hs = append(hs, [2]string{"X-Forwarded-Proto", xfp})
							}
							inner = append(inner, ReqSpec{Inner: true, Method: "GET", Host: h, AbsForm: abs, Headers: hs, AuthTag: a.tag, PATag: "claims-" + abs + "/" + xfp})
						}
					}
				}
			}
			for i := len(inner) - 1; i > 0; i-- {
				j := r.Intn(i + 1)
				inner[i], inner[j] = inner[j], inner[i]
			}
			if budget > 0 && len(inner) > 48 {
				inner = inner[:48]
			}
			for i := 0; i < len(inner); {
				n := 1 + r.Intn(4)
				if i+n > len(inner) {
					n = len(inner) - i
				}
				cq := ReqSpec{Method: "CONNECT", Host: "example.test:443"}
				craw := cq.raw()
				craw.Inner = ""
				j := job{spec: s, connect: &craw}
				for _, q := range inner[i : i+n] {
					j.session = append(j.session, q.raw())
					j.reqs = append(j.reqs, q)
				}
				jobs = append(jobs, j)
				i += n
			}
		}
	}

	var cases []Case
	var cur *accessrig.Proxy
	curID := -1
	prevID := -1
	var prevSession []accessrig.RawReq
	for _, j := range jobs {
		if cur == nil || j.spec.ID != curID {
			if cur != nil {
				cur.Stop()
			}
			ps := accessrig.ProxySpec{Name: proxyName, NoKeepAlive: true}
			if j.spec.Auth {
				ps.Basic = url.UserPassword(authUser, authPass)
			}
			for _, e := range j.spec.Table {
				ps.Creds = append(ps.Creds, e.hpu())
			}
			switch j.spec.Upstream {
			case "static":
				ps.Upstream = &url.URL{Scheme: "http", Host: upAddr}
			case "static-userinfo":
				ps.Upstream = &url.URL{Scheme: "http", Host: upAddr, User: url.UserPassword("urluser", "urlpw")}
			case "pac":
				ps.PAC = pacStub{"PROXY " + upAddr + "; DIRECT"}
			case "pac2":
				ps.PAC = pac2{first: upAddr, second: up2Addr}
			}
			ps.MITM = j.spec.MITM
			p, err := rig.StartProxy(ps)
			if err != nil {
				panic(err)
			}
			cur, curID = p, j.spec.ID
			m.Configs++
		}
		j.spec.UpPort, j.spec.Up2Port = upPort, up2Port
		var obs []accessrig.Obs
		if j.connect != nil {
			_, obs = rig.SessionMITM(cur, *j.connect, j.session)
		} else {
			obs = rig.Session(cur, j.session)
		}
		if j.spec.ID != prevID {
			prevID, prevSession = j.spec.ID, nil
		}
		// history that matters on one instance: the very first session it served (it went to the other proxy
		// for the second half of the run)
		thisPrev := prevSession
		if prevSession == nil {
			prevSession = j.session
		}
		for i, o := range obs {
			c := Case{Spec: j.spec, Session: j.session, Index: i, Req: j.reqs[i], Obs: o, Connect: j.connect}
			if j.spec.Upstream == "pac2" {
				c.PrevSession = thisPrev
			}
			cases = append(cases, c)
			m.Exchanges++
			if o.FromPeer == "" {
				m.NotForwarded++
			}
			m.ByUpstream[j.spec.Upstream]++
			m.ByAuthShape[j.reqs[i].AuthTag]++
			m.ByPAShape[j.reqs[i].PATag]++
			m.ByMethod[j.reqs[i].Method]++
			if j.reqs[i].Method != "CONNECT" {
				sc := j.reqs[i].Scheme
				if sc == "" {
					sc = "http"
				}
				m.ByScheme[sc]++
			}
			for _, mm := range o.Msgs {
				m.MsgsByHop[mm.Peer+"/"+mm.Kind]++
				if len(mm.Header.Values("Authorization")) > 0 {
					m.WithAuth++
				}
				if len(mm.Header.Values("Proxy-Authorization")) > 0 {
					m.WithPA++
				}
			}
		}
	}
	if cur != nil {
		cur.Stop()
	}

	var fc []string
	var fj []any
	for i := range cases {
		c := &cases[i]
		if c.Obs.FromPeer == "" {
			continue // not forwarded (would be an access-control matter); counted above
		}
		ua := upAddr
		if c.Spec.Upstream == "pac2" {
			if rq, err := accessrig.ParseRaw(c.Session[c.Index].Raw); err == nil && pac2Second(rq.URL.Host) {
				ua = up2Addr
			}
		}
		s, ok := coqCase(c.Spec, ua, c.Session[c.Index], c.Req, c.Obs)
		if !ok {
			continue
		}
		fc = append(fc, s)
		fj = append(fj, c)
	}
	emit := func(kind, typ, mf, pf string, cs []string, js []any) {
		for i := 0; i*m.ShardSize < len(cs); i++ {
			hi := (i + 1) * m.ShardSize
			if hi > len(cs) {
				hi = len(cs)
			}
			name := fmt.Sprintf("%s_%03d.v", kind, i)
			if err := writeShard(*outDir, name, typ, mf, pf, cs[i*m.ShardSize:hi]); err != nil {
				panic(err)
			}
			m.Shards = append(m.Shards, name)
		}
		m.ShardKinds[kind] = len(cs)
		f, _ := os.Create(filepath.Join(*outDir, kind+".jsonl"))
		enc := json.NewEncoder(f)
		for _, it := range js {
			enc.Encode(it)
		}
		f.Close()
	}
	emit("fcases", "fcase", "fcase_model_ok", "fcase_prop_ok", fc, fj)
	if *replay == "" {
		n := 2500
		if *tier == "thorough" {
			n = 60000
		}
		kc, kj := hopCases(r, n/4)
		emit("kcases", "kcase", "kcase_model_ok", "kcase_prop_ok", kc, kj)
		m.HopCases = len(kc)
		mc, mj, built, hits := matcherCases(r, n)
		emit("mcases", "mcase", "mcase_model_ok", "mcase_prop_ok", mc, mj)
		m.MatcherCases, m.MatcherBuilt, m.MatcherHits = len(mc), built, hits
	}
	if len(cases) > 0 {
		m.Samples = []Case{cases[0], cases[len(cases)/2], cases[len(cases)-1]}
	}
	if m.NotForwarded > 0 {
		m.Errors = append(m.Errors, fmt.Sprintf("%d exchanges were not forwarded although the client presented valid credentials", m.NotForwarded))
	}
	data, _ := json.MarshalIndent(m, "", " ")
	os.WriteFile(filepath.Join(*outDir, "meta.json"), data, 0o644)
}
