// Package gaterig provides the recording and gating wrappers used by the C11 harness:
// a net.Listener / net.Conn pair, an http.RoundTripper and a CONNECT dial function that append
// every externally visible step of the proxy to one totally ordered log and can hold a step
// until the scenario releases it.  Nothing here patches the proxy: the wrappers are handed to it
// through the injection points it already has.
package gaterig

import (
	"bytes"
	"crypto/ecdsa"
	"crypto/elliptic"
	"crypto/rand"
	"crypto/tls"
	"crypto/x509"
	"crypto/x509/pkix"
	"errors"
	"math/big"
	"io"
	"net"
	"net/http"
	"runtime"
	"strconv"
	"sync"
	"sync/atomic"
	"time"
)

// Ev is one recorded event.
type Ev struct {
	Seq  int    `json:"seq"`
	Us   int64  `json:"us"`
	K    string `json:"k"`    // Acc TlsConn HsDone Addr FirstByte ReqRead Fwd RTLeave WrCall Wrote SockClose SockCloseC ClientGone CtxExpire SdCall SdRet ClCall ClRet LClose SrvRet ClosingSeen CntIs
	Conn int    `json:"conn"` // connection id (accept order), -1 if none
	A    bool   `json:"a,omitempty"`
	B    bool   `json:"b,omitempty"`
	N    int64  `json:"n,omitempty"`
	S    string `json:"s,omitempty"`
}

// Log is the totally ordered event log of one scenario.
type Log struct {
	mu   sync.Mutex
	cond *sync.Cond
	t0   time.Time
	evs  []Ev
}

func NewLog() *Log {
	l := &Log{t0: time.Now()}
	l.cond = sync.NewCond(&l.mu)
	return l
}

func (l *Log) addLocked(e Ev) {
	e.Seq = len(l.evs)
	e.Us = time.Since(l.t0).Microseconds()
	l.evs = append(l.evs, e)
	l.cond.Broadcast()
}

// Add appends an event.
func (l *Log) Add(e Ev) {
	l.mu.Lock()
	l.addLocked(e)
	l.mu.Unlock()
}

// AddSampled appends an event whose value is read inside the log's critical section, so that
// the value is consistent with the order of the log.
func (l *Log) AddSampled(f func() (Ev, bool)) bool {
	l.mu.Lock()
	defer l.mu.Unlock()
	e, ok := f()
	if ok {
		l.addLocked(e)
	}
	return ok
}

// Events returns a copy of the log.
func (l *Log) Events() []Ev {
	l.mu.Lock()
	defer l.mu.Unlock()
	return append([]Ev(nil), l.evs...)
}

// Wait blocks until pred holds of the log or the timeout elapses.
func (l *Log) Wait(timeout time.Duration, pred func([]Ev) bool) bool {
	deadline := time.Now().Add(timeout)
	stop := make(chan struct{})
	go func() {
		select {
		case <-time.After(timeout + 10*time.Millisecond):
			l.mu.Lock()
			l.cond.Broadcast()
			l.mu.Unlock()
		case <-stop:
		}
	}()
	defer close(stop)
	l.mu.Lock()
	defer l.mu.Unlock()
	for !pred(l.evs) {
		if time.Now().After(deadline) {
			return false
		}
		l.cond.Wait()
	}
	return true
}

// Count returns how many events of kind k for connection conn (-1: any) are in evs.
func Count(evs []Ev, k string, conn int) int {
	n := 0
	for _, e := range evs {
		if e.K == k && (conn < 0 || e.Conn == conn) {
			n++
		}
	}
	return n
}

func goid() int64 {
	var buf [64]byte
	n := runtime.Stack(buf[:], false)
	// "goroutine 123 [running]:"
	f := bytes.Fields(buf[:n])
	if len(f) < 2 {
		return -1
	}
	id, _ := strconv.ParseInt(string(f[1]), 10, 64)
	return id
}

// Rig ties the wrappers of one scenario together.
type Rig struct {
	Log *Log

	mu       sync.Mutex
	conns    []*Conn
	byGo     map[int64]int // handler goroutine -> connection id
	rtGate   map[int]chan struct{}
	wrGate   map[int]chan struct{}
	allGate  map[int]chan struct{} // holds EVERY write on the connection (e.g. the TLS close_notify of the handler's Close)
	expectWr map[int]bool
}

func NewRig() *Rig {
	return &Rig{Log: NewLog(), byGo: map[int64]int{}, rtGate: map[int]chan struct{}{}, wrGate: map[int]chan struct{}{}, allGate: map[int]chan struct{}{}, expectWr: map[int]bool{}}
}

// GateRT makes the next round trip / CONNECT dial of connection id wait for ReleaseRT.
func (r *Rig) GateRT(id int) {
	r.mu.Lock()
	r.rtGate[id] = make(chan struct{})
	r.mu.Unlock()
}

func (r *Rig) ReleaseRT(id int) {
	r.mu.Lock()
	if ch, ok := r.rtGate[id]; ok {
		close(ch)
		delete(r.rtGate, id)
	}
	r.mu.Unlock()
}

// GateAllWrites makes every write on connection id wait for ReleaseAllWrites (or for the socket
// being closed); the first held write is recorded as WrHeld.
func (r *Rig) GateAllWrites(id int) {
	r.mu.Lock()
	r.allGate[id] = make(chan struct{})
	r.mu.Unlock()
}

func (r *Rig) ReleaseAllWrites(id int) {
	r.mu.Lock()
	if ch, ok := r.allGate[id]; ok {
		close(ch)
		delete(r.allGate, id)
	}
	r.mu.Unlock()
}

// GateWrite makes the next response write on connection id wait for ReleaseWrite.
func (r *Rig) GateWrite(id int) {
	r.mu.Lock()
	r.wrGate[id] = make(chan struct{})
	r.mu.Unlock()
}

func (r *Rig) ReleaseWrite(id int) {
	r.mu.Lock()
	if ch, ok := r.wrGate[id]; ok {
		close(ch)
		delete(r.wrGate, id)
	}
	r.mu.Unlock()
}

func (r *Rig) connOfGoroutine() int {
	g := goid()
	r.mu.Lock()
	defer r.mu.Unlock()
	if id, ok := r.byGo[g]; ok {
		return id
	}
	return -1
}

// ---------------------------------------------------------------- listener / conn

type Listener struct {
	net.Listener
	Rig *Rig
	// TLS, if set, makes Accept hand out *tls.Conn (as forwarder's own listener does for an https
	// proxy): martian then runs the handshake inside the handler.  The events TlsConn (right after
	// Acc) and HsDone (handshake complete) are recorded.
	TLS *tls.Config
}

// SelfSigned returns a server TLS configuration with a fresh self-signed certificate.
func SelfSigned() (*tls.Config, error) {
	key, err := ecdsa.GenerateKey(elliptic.P256(), rand.Reader)
	if err != nil {
		return nil, err
	}
	tpl := &x509.Certificate{
		SerialNumber: big.NewInt(1), Subject: pkix.Name{CommonName: "gaterig"},
		NotBefore: time.Now().Add(-time.Hour), NotAfter: time.Now().Add(24 * time.Hour),
		KeyUsage: x509.KeyUsageDigitalSignature, ExtKeyUsage: []x509.ExtKeyUsage{x509.ExtKeyUsageServerAuth},
		DNSNames: []string{"localhost"}, IPAddresses: []net.IP{net.IPv4(127, 0, 0, 1)},
	}
	der, err := x509.CreateCertificate(rand.Reader, tpl, tpl, &key.PublicKey, key)
	if err != nil {
		return nil, err
	}
	// TLS 1.2 only: there the server finishes the handshake before the client does, so the moment the
	// client's Handshake returns is a sound "handshake done" marker for the server side as well
	// (no server-side callback exists for that moment).
	return &tls.Config{Certificates: []tls.Certificate{{Certificate: [][]byte{der}, PrivateKey: key}},
		MinVersion: tls.VersionTLS12, MaxVersion: tls.VersionTLS12}, nil
}

func (l *Listener) Accept() (net.Conn, error) {
	c, err := l.Listener.Accept()
	if err != nil {
		return nil, err
	}
	r := l.Rig
	r.mu.Lock()
	gc := &Conn{Conn: c, rig: r, id: len(r.conns), closed: make(chan struct{})}
	gc.awaitFirst.Store(true)
	r.conns = append(r.conns, gc)
	// the Acc event is appended while the id is being assigned, so ids follow the log order
	r.Log.Add(Ev{K: "Acc", Conn: gc.id})
	if l.TLS != nil {
		r.Log.Add(Ev{K: "TlsConn", Conn: gc.id})
		gc.awaitFirst.Store(false) // handshake records are not request bytes
	}
	r.mu.Unlock()
	if l.TLS != nil {
		return tls.Server(gc, l.TLS), nil
	}
	return gc, nil
}

type Conn struct {
	net.Conn
	rig        *Rig
	id         int
	addrOnce   sync.Once
	closeOnce  sync.Once
	closed     chan struct{}
	awaitFirst atomic.Bool // the proxy is waiting for the first byte of a request
}

func (c *Conn) ID() int { return c.id }

func (c *Conn) RemoteAddr() net.Addr {
	c.addrOnce.Do(func() {
		g := goid()
		c.rig.mu.Lock()
		c.rig.byGo[g] = c.id
		c.rig.mu.Unlock()
		c.rig.Log.Add(Ev{K: "Addr", Conn: c.id})
	})
	return c.Conn.RemoteAddr()
}

func (c *Conn) Read(b []byte) (int, error) {
	n, err := c.Conn.Read(b)
	if n > 0 && c.awaitFirst.Load() && c.rig.connOfGoroutine() == c.id {
		c.awaitFirst.Store(false)
		c.rig.Log.Add(Ev{K: "FirstByte", Conn: c.id, N: int64(n)})
	}
	return n, err
}

func (c *Conn) Write(b []byte) (int, error) {
	r := c.rig
	r.mu.Lock()
	first := r.expectWr[c.id]
	if first {
		r.expectWr[c.id] = false
	}
	gate := r.wrGate[c.id]
	all := r.allGate[c.id]
	r.mu.Unlock()
	if all != nil {
		r.Log.Add(Ev{K: "WrHeld", Conn: c.id})
		select {
		case <-all:
		case <-c.closed:
		}
	}
	if first {
		r.Log.Add(Ev{K: "WrCall", Conn: c.id})
		if gate != nil {
			select {
			case <-gate:
			case <-c.closed:
			}
		}
	}
	return c.Conn.Write(b)
}

func (c *Conn) Close() error {
	// closed by the connection's own handler (deferred conn.Close()) or by somebody else (Proxy.Close)
	k := "SockCloseC"
	if c.rig.connOfGoroutine() == c.id {
		k = "SockClose"
	}
	c.rig.Log.Add(Ev{K: k, Conn: c.id})
	// close the socket first, then let a held Write go: it must see a closed socket
	err := c.Conn.Close()
	c.closeOnce.Do(func() { close(c.closed) })
	return err
}

// ---------------------------------------------------------------- upstream side

const ConnHeader = "X-Conn"

func connID(req *http.Request) int {
	id, err := strconv.Atoi(req.Header.Get(ConnHeader))
	if err != nil {
		return -1
	}
	return id
}

// RoundTripper records and gates the round trip of each request.
type RoundTripper struct {
	Inner http.RoundTripper
	Rig   *Rig
}

func (t *RoundTripper) RoundTrip(req *http.Request) (*http.Response, error) {
	id := connID(req)
	r := t.Rig
	r.Log.Add(Ev{K: "Fwd", Conn: id})
	r.mu.Lock()
	gate := r.rtGate[id]
	r.mu.Unlock()
	if gate != nil {
		<-gate
	}
	res, err := t.Inner.RoundTrip(req)
	r.mu.Lock()
	r.expectWr[id] = true
	r.mu.Unlock()
	k := "RTLeave"
	if err == nil && res != nil && res.StatusCode == http.StatusSwitchingProtocols {
		k = "RTLeaveUp" // the exchange becomes a tunnel (WebSocket)
	}
	r.Log.Add(Ev{K: k, Conn: id, A: err == nil})
	return res, err
}

// ConnectFunc returns a martian ConnectFunc that records and gates the dial of a CONNECT
// request and connects to target, whatever host the request names.
func (r *Rig) ConnectFunc(target string) func(req *http.Request) (*http.Response, io.ReadWriteCloser, error) {
	return func(req *http.Request) (*http.Response, io.ReadWriteCloser, error) {
		id := connID(req)
		r.Log.Add(Ev{K: "Fwd", Conn: id})
		r.mu.Lock()
		gate := r.rtGate[id]
		r.mu.Unlock()
		if gate != nil {
			<-gate
		}
		conn, err := net.DialTimeout("tcp", target, 2*time.Second)
		r.mu.Lock()
		r.expectWr[id] = true
		r.mu.Unlock()
		r.Log.Add(Ev{K: "RTLeave", Conn: id, A: err == nil})
		if err != nil {
			return nil, nil, err
		}
		res := &http.Response{
			Status: "200 OK", StatusCode: 200, Proto: "HTTP/1.1", ProtoMajor: 1, ProtoMinor: 1,
			Header: http.Header{}, Body: http.NoBody, Request: req,
		}
		return res, conn, nil
	}
}

// OnRead is the ProxyTrace.ReadRequest observer.
func (r *Rig) OnRead(req *http.Request, err error) {
	id := r.connOfGoroutine()
	kind := "err"
	if err == nil && req != nil {
		kind = "ok"
		if req.Method == http.MethodConnect {
			kind = "connect"
		}
		if h := connID(req); h >= 0 && h != id {
			kind += "!id-mismatch"
		}
	}
	r.Log.Add(Ev{K: "ReqRead", Conn: id, S: kind})
}

// OnWrote is the ProxyTrace.WroteResponse observer.
func (r *Rig) OnWrote(res *http.Response, err error) {
	id := r.connOfGoroutine()
	cl := false
	if res != nil {
		cl = res.Close
	}
	r.mu.Lock()
	if id >= 0 && id < len(r.conns) {
		r.conns[id].awaitFirst.Store(true)
	}
	r.mu.Unlock()
	r.Log.Add(Ev{K: "Wrote", Conn: id, A: cl, B: err != nil})
}

// HandshakeDone is called by the scenario when the client side of the listener TLS handshake of
// connection id has returned (TLS 1.2: the server side is complete by then).
func (r *Rig) HandshakeDone(id int) {
	r.mu.Lock()
	if id >= 0 && id < len(r.conns) {
		r.conns[id].awaitFirst.Store(true)
	}
	r.mu.Unlock()
	r.Log.Add(Ev{K: "HsDone", Conn: id})
}

// ErrGone is a helper for callers that need a distinguishable error.
var ErrGone = errors.New("gaterig: gone")
