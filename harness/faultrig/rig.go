// Package faultrig runs the REAL forwarder HTTP proxy in-process
// (forwarder.NewHTTPProxy + Run, forwarder.NewHTTPTransport, a private Prometheus
// registry) between scripted peers: a raw client socket with an independent
// response parser on one side, fault-injecting origins / upstream proxies on
// the other.  Shared by the C12 and C13 harness commands.
package faultrig

import (
	"context"
	"crypto/x509"
	"errors"
	"fmt"
	"net"
	"net/http"
	"net/url"
	"sort"
	"strings"
	"sync"
	"time"

	"github.com/prometheus/client_golang/prometheus"
	dto "github.com/prometheus/client_model/go"
	"github.com/saucelabs/forwarder"
	"github.com/saucelabs/forwarder/httplog"
	"github.com/saucelabs/forwarder/log"
	"github.com/saucelabs/forwarder/middleware"
)

// FaultHeader selects a fault injected by the rig's request/response modifiers.
const FaultHeader = "X-Vf-Fault"

// Options configures one proxy instance.
type Options struct {
	Upstream          string // "", "http://host:port", "https://host:port"
	MITM              bool
	ConnectTimeout    time.Duration
	DialTimeout       time.Duration
	ReadHeaderTimeout time.Duration
	IdleTimeout       time.Duration
	Namespace         string
	InsecureUpstream  bool // do not verify origin / upstream certificates
	CustomLabel       bool // add a per-request label (X-Vf-Id) to the HTTP metrics
	TLSListener       bool // the proxy listener speaks TLS (self-signed certificate)
	TLSHandshakeTimeout   time.Duration // transport: TLS handshake timeout towards the origin
	ResponseHeaderTimeout time.Duration // transport: time to wait for the origin's response head
	MITMH2Roots           *x509.CertPool    // MITM: enable martian's h2 relay, origin certificates verified against this pool
	Handler               bool              // serve through martian's http.Handler implementation on net/http's server (TestingHTTPHandler)
	ProxyProtocol         time.Duration     // > 0: the listener expects a PROXY protocol header (value = header read timeout)
	Redirect              map[string]string // dial redirect (--connect-to): requested host:port -> address actually dialled
	ConnectHeaderErr      bool              // the transport's GetProxyConnectHeader (as set by command/run for --proxy-header / Kerberos) fails
	DialAttempts          int               // dialer retry attempts (default 1)
	LogHTTPBody           bool              // HTTP log mode "body" (--log-http body): the logger reads request and response bodies and puts them back
}

// TraceEv is one ProxyTrace event as seen through the verif hook.
type TraceEv struct {
	Kind        string `json:"kind"` // "read" | "wrote"
	HasReq      bool   `json:"has_req"`
	Method      string `json:"method"`       // read: req.Method; wrote: res.Request.Method
	OwnReq      bool   `json:"own_req"`      // wrote: res.Request is the request object that was read
	Status      int    `json:"status"`       // wrote: res.StatusCode
	Err         string `json:"err"`          // error text or ""
	AfterTunnel bool   `json:"after_tunnel"` // set by the harness when it had already closed the tunnel
	ErrHdr      string `json:"err_hdr"`      // wrote: value of the X-Forwarder-Error field (diagnostics)
	Conn        string `json:"conn"`         // remote address of the client connection (req.RemoteAddr), "" if there is no request
}

// Rig is a running proxy.
type Rig struct {
	HP    *forwarder.HTTPProxy
	Addr  string
	Reg   *prometheus.Registry
	NS    string
	Opt   Options
	mu    sync.Mutex
	evs   []TraceEv
	reqs  map[*http.Request]bool
	mark  bool
	stop  context.CancelFunc
	done  chan error
	trans *http.Transport
}

// Errors injected by the modifiers.  They are built by MakeFault so that the
// harness knows the errors.As/Is features of each.
func MakeFault(name string) error {
	switch name {
	case "auth":
		return forwarder.ErrProxyAuthentication
	case "localhost":
		return forwarder.ErrProxyLocalhost
	case "deny":
		return forwarder.ErrProxyDenied
	case "timeframe":
		return forwarder.ErrProxyOutsideAllowedTimeframe
	case "canceled":
		return fmt.Errorf("wrapped: %w", context.Canceled)
	case "plain":
		return errors.New("vf injected failure")
	case "operr":
		return &net.OpError{Op: "dial", Net: "tcp", Err: errors.New("vf refused")}
	case "operr-timeout":
		return &net.OpError{Op: "dial", Net: "tcp", Err: timeoutErr{}}
	}
	return nil
}

type timeoutErr struct{}

func (timeoutErr) Error() string   { return "vf i/o timeout" }
func (timeoutErr) Timeout() bool   { return true }
func (timeoutErr) Temporary() bool { return true }

// New starts a proxy on 127.0.0.1:0.
func New(opt Options) (*Rig, error) {
	r := &Rig{Reg: prometheus.NewRegistry(), NS: opt.Namespace, Opt: opt, reqs: map[*http.Request]bool{}}
	if r.NS == "" {
		r.NS = "vf"
	}
	tc := forwarder.DefaultHTTPTransportConfig()
	tc.PromRegistry = r.Reg
	tc.PromNamespace = r.NS
	tc.Retry.Attempts = 1
	if opt.DialAttempts > 0 {
		tc.Retry.Attempts = opt.DialAttempts
	}
	tc.Retry.Backoff = time.Millisecond
	if opt.DialTimeout != 0 {
		tc.DialTimeout = opt.DialTimeout
	}
	tc.Insecure = opt.InsecureUpstream
	if len(opt.Redirect) > 0 {
		red := opt.Redirect
		tc.RedirectFunc = func(network, address string) (string, string) {
			if t, ok := red[address]; ok {
				return network, t
			}
			return network, address
		}
	}
	if opt.TLSHandshakeTimeout != 0 {
		tc.HandshakeTimeout = opt.TLSHandshakeTimeout
	}
	if opt.ResponseHeaderTimeout != 0 {
		tc.ResponseHeaderTimeout = opt.ResponseHeaderTimeout
	}
	tr, err := forwarder.NewHTTPTransport(tc)
	if err != nil {
		return nil, err
	}
	r.trans = tr
	if opt.ConnectHeaderErr {
		tr.GetProxyConnectHeader = func(ctx context.Context, proxyURL *url.URL, target string) (http.Header, error) {
			return nil, errors.New("vf: cannot build the CONNECT header")
		}
	}

	cfg := forwarder.DefaultHTTPProxyConfig()
	cfg.Address = "127.0.0.1:0"
	cfg.PromRegistry = r.Reg
	cfg.PromNamespace = r.NS
	cfg.ProxyLocalhost = forwarder.AllowProxyLocalhost
	cfg.Name = "vfproxy"
	if opt.TLSListener {
		cfg.Protocol = forwarder.HTTPSScheme
	}
	cfg.TestingHTTPHandler = opt.Handler
	if opt.LogHTTPBody {
		cfg.LogHTTPMode = httplog.Body
	}
	if opt.ProxyProtocol > 0 {
		cfg.ProxyProtocolConfig = &forwarder.ProxyProtocolConfig{ReadHeaderTimeout: opt.ProxyProtocol}
	}
	if opt.ConnectTimeout != 0 {
		cfg.ConnectTimeout = opt.ConnectTimeout
	}
	if opt.ReadHeaderTimeout != 0 {
		cfg.ReadHeaderTimeout = opt.ReadHeaderTimeout
	}
	if opt.IdleTimeout != 0 {
		cfg.IdleTimeout = opt.IdleTimeout
	}
	if opt.Upstream != "" {
		u, err := url.Parse(opt.Upstream)
		if err != nil {
			return nil, err
		}
		cfg.UpstreamProxy = u
	}
	if opt.MITM {
		cfg.MITM = forwarder.DefaultMITMConfig()
	}
	if opt.CustomLabel {
		cfg.PromHTTPOpts = []middleware.PrometheusOpt{middleware.WithCustomLabeler("vfid", func(req *http.Request) string {
			return req.Header.Get("X-Vf-Id")
		})}
	}
	cfg.RequestModifiers = []forwarder.RequestModifier{forwarder.RequestModifierFunc(func(req *http.Request) error {
		f := req.Header.Get(FaultHeader)
		if strings.HasPrefix(f, "mreq-") {
			return MakeFault(strings.TrimPrefix(f, "mreq-"))
		}
		return nil
	})}
	cfg.ResponseModifiers = []forwarder.ResponseModifier{forwarder.ResponseModifierFunc(func(res *http.Response) error {
		if res.Request == nil {
			return nil
		}
		// hold an error response of the proxy between the moment it is built and the moment it is written
		if h := res.Request.Header.Get("X-Vf-Hold-Error-Response"); h != "" && res.Header.Get(forwarder.ErrorHeader) != "" {
			if d, err := time.ParseDuration(h); err == nil {
				time.Sleep(d)
			}
		}
		f := res.Request.Header.Get(FaultHeader)
		// only fail the first response of the exchange (not the error response built for the failure)
		if strings.HasPrefix(f, "mres-") && res.Header.Get(forwarder.ErrorHeader) == "" {
			return MakeFault(strings.TrimPrefix(f, "mres-"))
		}
		return nil
	})}

	hp, err := forwarder.NewHTTPProxy(cfg, nil, nil, tr, log.NopLogger, nil)
	if err != nil {
		return nil, err
	}
	r.HP = hp
	if opt.MITM && opt.MITMH2Roots != nil {
		hp.VerifEnableMITMH2(opt.MITMH2Roots)
	}
	hp.VerifObserveTrace(r.onRead, r.onWrote)
	addrs, ok := hp.Addr()
	if !ok || len(addrs) == 0 {
		hp.Close()
		return nil, errors.New("faultrig: proxy has no address")
	}
	r.Addr = addrs[0]
	ctx, cancel := context.WithCancel(context.Background())
	r.stop = cancel
	r.done = make(chan error, 1)
	go func() { r.done <- hp.Run(ctx) }()
	return r, nil
}

func (r *Rig) onRead(req *http.Request, err error) {
	ev := TraceEv{Kind: "read", HasReq: req != nil}
	if req != nil {
		ev.Method = req.Method
		ev.Conn = req.RemoteAddr
	}
	if err != nil {
		ev.Err = err.Error()
	}
	r.mu.Lock()
	if req != nil {
		r.reqs[req] = true
	}
	r.evs = append(r.evs, ev)
	r.mu.Unlock()
}

func (r *Rig) onWrote(res *http.Response, err error) {
	ev := TraceEv{Kind: "wrote"}
	if res != nil {
		ev.Status = res.StatusCode
		ev.ErrHdr = res.Header.Get(forwarder.ErrorHeader)
		if res.Request != nil {
			ev.HasReq = true
			ev.Method = res.Request.Method
			ev.Conn = res.Request.RemoteAddr
		}
	}
	if err != nil {
		ev.Err = err.Error()
	}
	r.mu.Lock()
	if res != nil && res.Request != nil {
		ev.OwnReq = r.reqs[res.Request]
	}
	ev.AfterTunnel = r.mark
	r.evs = append(r.evs, ev)
	r.mu.Unlock()
}

// Mark records that the harness has closed the tunnel (events after this carry AfterTunnel).
func (r *Rig) Mark() {
	r.mu.Lock()
	r.mark = true
	r.mu.Unlock()
}

// Events returns a copy of the trace events so far.
func (r *Rig) Events() []TraceEv {
	r.mu.Lock()
	defer r.mu.Unlock()
	return append([]TraceEv(nil), r.evs...)
}

// WaitEvents waits until at least n events of the given kind were recorded.
func (r *Rig) WaitEvents(kind string, n int, d time.Duration) bool {
	deadline := time.Now().Add(d)
	for {
		c := 0
		for _, e := range r.Events() {
			if e.Kind == kind {
				c++
			}
		}
		if c >= n {
			return true
		}
		if time.Now().After(deadline) {
			return false
		}
		time.Sleep(time.Millisecond)
	}
}

// BeginShutdown cancels the proxy's context: listeners are closed and martian's Shutdown starts (it waits for
// the open connections), without waiting for it to finish.
func (r *Rig) BeginShutdown() { r.stop() }

// Close shuts the proxy down (after the observations have been taken).
func (r *Rig) Close() {
	r.stop()
	select {
	case <-r.done:
	case <-time.After(3 * time.Second):
	}
	r.trans.CloseIdleConnections()
}

// CloseIdle closes idle upstream connections of the transport (a quiescent
// point for the dialer gauges).
func (r *Rig) CloseIdle() { r.trans.CloseIdleConnections() }

// Metrics is the gathered registry, flattened: "name{k=v,k=v}" -> value.
type Metrics map[string]float64

// Gather reads the Prometheus registry.
func (r *Rig) Gather() Metrics {
	out := Metrics{}
	mfs, err := r.Reg.Gather()
	if err != nil {
		out["gather_error"] = 1
		return out
	}
	for _, mf := range mfs {
		for _, m := range mf.GetMetric() {
			var ls []string
			for _, lp := range m.GetLabel() {
				ls = append(ls, lp.GetName()+"="+lp.GetValue())
			}
			sort.Strings(ls)
			key := mf.GetName() + "{" + strings.Join(ls, ",") + "}"
			switch mf.GetType() {
			case dto.MetricType_COUNTER:
				out[key] = m.GetCounter().GetValue()
			case dto.MetricType_GAUGE:
				out[key] = m.GetGauge().GetValue()
			case dto.MetricType_SUMMARY:
				out[key+"_count"] = float64(m.GetSummary().GetSampleCount())
			}
		}
	}
	return out
}

// Sum adds up all series of a metric family whose key contains every given fragment.
func (m Metrics) Sum(name string, frags ...string) float64 {
	var s float64
	for k, v := range m {
		if !strings.HasPrefix(k, name+"{") {
			continue
		}
		ok := true
		for _, f := range frags {
			if !strings.Contains(k, f) {
				ok = false
			}
		}
		if ok {
			s += v
		}
	}
	return s
}

// AbsSum adds up the absolute values of all series of a gauge family: it is zero only if EVERY label series is zero.
func (m Metrics) AbsSum(name string) float64 {
	var s float64
	for k, v := range m {
		if strings.HasPrefix(k, name+"{") {
			if v < 0 {
				v = -v
			}
			s += v
		}
	}
	return s
}

// Series returns the series of one family: label-string -> value.
func (m Metrics) Series(name string) map[string]float64 {
	out := map[string]float64{}
	for k, v := range m {
		if strings.HasPrefix(k, name+"{") {
			out[strings.TrimSuffix(strings.TrimPrefix(k, name+"{"), "}")] = v
		}
	}
	return out
}

// WaitQuiescent polls until the in-flight and connection gauges stop changing
// and the listener gauge is zero, or the timeout passes; returns the last gather.
func (r *Rig) WaitQuiescent(d time.Duration) Metrics {
	deadline := time.Now().Add(d)
	for {
		m := r.Gather()
		if m.Sum(r.NS+"_listener_cx_active") == 0 && m.Sum(r.NS+"_dialer_cx_active") == 0 {
			return m
		}
		if time.Now().After(deadline) {
			return m
		}
		time.Sleep(2 * time.Millisecond)
	}
}
