package faultrig

import (
	"fmt"
	"sync"
	"time"

	"verifharness/coqfmt"
)

// PageCase: one of many concurrently failing requests, each with its own target (so that the error texts differ).
type PageCase struct {
	Target string `json:"target"`
	Raw    []byte `json:"-"`
	Status int    `json:"status"`
	ErrHdr string `json:"err_hdr"`
	Body   string `json:"body"`
	End    string `json:"end"`
}

// Coq renders it as G12.Check12.pgcase.
func (c PageCase) Coq() string {
	return fmt.Sprintf("(mkpgcase %s %s)", coqfmt.Bytes(c.Raw), coqfmt.Str(c.Target))
}

// RunConcurrentErrorPages sends waves of requests to distinct refused targets through ONE proxy at the same time.
func RunConcurrentErrorPages(tier string) ([]PageCase, error) {
	waves, width := 3, 32
	if tier == "thorough" {
		waves, width = 12, 64
	}
	rig, err := New(Options{})
	if err != nil {
		return nil, err
	}
	defer rig.Close()
	var out []PageCase
	for w := 0; w < waves; w++ {
		cases := make([]PageCase, width)
		seen := map[string]bool{}
		for i := range cases {
			a := FreeAddr()
			for seen[a] {
				a = FreeAddr()
			}
			seen[a] = true
			cases[i].Target = a
		}
		start := make(chan struct{})
		var wg sync.WaitGroup
		for i := range cases {
			wg.Add(1)
			go func(i int) {
				defer wg.Done()
				c, err := Dial(rig.Addr)
				if err != nil {
					cases[i].End = "dial: " + err.Error()
					return
				}
				defer c.Close()
				<-start
				// every other request has its error response held for a moment between being built and being
				// written (a response modifier of the rig sleeps), while the others are built meanwhile
				var extra []string
				if i%2 == 0 {
					extra = []string{"X-Vf-Hold-Error-Response: 25ms"}
				}
				c.Write([]byte(getReq(fmt.Sprintf("http://%s/page/%d", cases[i].Target, i), extra...)))
				co := ReadResponse(c, false, 8*time.Second)
				cases[i].Raw, cases[i].Status, cases[i].End = co.Raw, co.P.Status, co.End
				cases[i].ErrHdr, _ = co.P.Get("X-Forwarder-Error")
				cases[i].Body = string(co.P.Body)
			}(i)
		}
		close(start)
		wg.Wait()
		out = append(out, cases...)
	}
	return out, nil
}
