package faultrig

import (
	"fmt"
	"net"
	"sort"
	"strings"
	"sync"
	"sync/atomic"
	"time"

	"verifharness/coqfmt"
	"verifharness/rng"
)

// MixedObs: many client connections run random sequences of exchanges of all
// kinds concurrently against ONE proxy; the registry is gathered when
// everything is quiescent.
type MixedObs struct {
	Name      string               `json:"name"`
	Upstream  bool                 `json:"upstream"`
	Clients   int                  `json:"clients"`
	Conns     int                  `json:"conns"`     // client connections opened
	Requests  int                  `json:"requests"`  // requests sent by the clients
	Kinds     map[string]int       `json:"kinds"`
	Traces    map[string][]TraceEv `json:"-"`         // per client connection
	NoConn    int                  `json:"events_without_request"`
	InFlight  map[string]float64   `json:"in_flight"`
	Total     map[string]float64   `json:"total"`
	LAct      float64              `json:"listener_active"`
	LTot      float64              `json:"listener_total"`
	DAct      float64              `json:"dialer_active"`
	Err       string               `json:"err"`
	AllEvents []TraceEv            `json:"-"`
}

// Coq renders the observation as G12.Check.mobs.
func (o *MixedObs) Coq() string {
	keys := make([]string, 0, len(o.Traces))
	for k := range o.Traces {
		keys = append(keys, k)
	}
	sort.Strings(keys)
	parts := make([]string, len(keys))
	for i, k := range keys {
		parts[i] = CoqTrace(o.Traces[k])
	}
	return fmt.Sprintf("{| m_traces := %s;\n m_all := %s;\n m_inflight := %s; m_total := %s; m_lact := %s; m_dact := %s; m_ltot := %s; m_conns := %d; m_ok := %s |}",
		coqfmt.List("(list tev)", parts), CoqTrace(o.AllEvents), CoqGauge(o.InFlight), CoqGauge(o.Total),
		coqfmt.Z(int64(o.LAct)), coqfmt.Z(int64(o.DAct)), coqfmt.Z(int64(o.LTot)), o.Conns, coqfmt.Bool(o.Err == ""))
}

// RunMixed runs the experiment against a direct proxy (upstream=false) or one with an upstream proxy.
func RunMixed(name string, upstream bool, clients, perClient int, seed uint64) *MixedObs {
	o := &MixedObs{Name: name, Upstream: upstream, Clients: clients, Kinds: map[string]int{}, Traces: map[string][]TraceEv{}}
	okCL, _ := NewPeer(OriginReplying(ReplyCL(200, "OK", "hello world"), "keep"))
	headOnly, _ := NewPeer(OriginReplying(Reply(200, "OK", []string{"Content-Length: 11"}, ""), "keep"))
	okChunked, _ := NewPeer(OriginReplying(Reply(200, "OK", []string{"Transfer-Encoding: chunked"}, "5\r\nhello\r\n0\r\n\r\n"), "keep"))
	okClose, _ := NewPeer(OriginReplying(Reply(200, "OK", nil, "until close"), "fin"))
	nf, _ := NewPeer(OriginReplying(ReplyCL(404, "Not Found", "nope"), "keep"))
	big, _ := NewPeer(OriginReplying(ReplyCL(200, "OK", strings.Repeat("x", 4<<20)), "keep"))
	echo, _ := NewPeer(func(c net.Conn, n int) { Echo(c) })
	ws, _ := NewPeer(func(c net.Conn, n int) {
		if _, err := ReadHead(c, 5*time.Second); err != nil {
			c.Close()
			return
		}
		c.Write([]byte("HTTP/1.1 101 Switching Protocols\r\nConnection: Upgrade\r\nUpgrade: vfproto\r\n\r\n"))
		Echo(c)
	})
	up, _ := NewPeer(func(c net.Conn, n int) {
		head, err := ReadHead(c, 5*time.Second)
		if err != nil {
			c.Close()
			return
		}
		h := string(head)
		switch {
		case strings.Contains(h, "deny.invalid"):
			c.Write([]byte(ReplyCL(403, "Forbidden", "go away")))
		case strings.Contains(h, "sw.invalid"):
			c.Write([]byte("HTTP/1.1 101 Switching Protocols\r\nConnection: Upgrade\r\nUpgrade: x\r\n\r\n"))
		case strings.Contains(h, "junk.invalid"):
			c.Write([]byte("\x00\x01junk\r\n\r\n"))
		default:
			c.Write([]byte("HTTP/1.1 200 Connection established\r\n\r\n"))
			Echo(c)
			return
		}
		buf := make([]byte, 256)
		c.SetReadDeadline(time.Now().Add(2 * time.Second))
		c.Read(buf)
		c.Close()
	})
	peers := []*Peer{headOnly, okCL, okChunked, okClose, nf, big, echo, ws, up}
	defer func() {
		for _, p := range peers {
			if p != nil {
				p.Close()
			}
		}
	}()
	opt := Options{}
	if upstream {
		opt.Upstream = "http://" + up.Addr
	}
	rig, err := New(opt)
	if err != nil {
		o.Err = err.Error()
		return o
	}
	refused := FreeAddr()

	type kind struct {
		name string
		ends bool // the exchange ends the connection
		run  func(c net.Conn) bool
	}
	simple := func(name, req string, headOnly bool, wantStatus int) kind {
		return kind{name, false, func(c net.Conn) bool {
			c.Write([]byte(req))
			co := ReadResponse(c, headOnly, 5*time.Second)
			return co.P.Verdict == VComplete && co.P.Status == wantStatus
		}}
	}
	tunnel := func(name, req string, want int) kind {
		return kind{name, true, func(c net.Conn) bool {
			c.Write([]byte(req))
			co := ReadResponse(c, want == 200, 5*time.Second)
			if co.P.Verdict != VComplete || co.P.Status != want {
				return false
			}
			c.Write([]byte("ping"))
			buf := make([]byte, 4)
			c.SetReadDeadline(time.Now().Add(2 * time.Second))
			_, err := ioReadFull(c, buf)
			return err == nil && string(buf) == "ping"
		}}
	}
	var kinds []kind
	if !upstream {
		kinds = []kind{
			simple("ok-cl", getReq("http://"+okCL.Addr+"/a"), false, 200),
			simple("ok-chunked", getReq("http://"+okChunked.Addr+"/a"), false, 200),
			simple("head", reqLine("HEAD", "http://"+headOnly.Addr+"/a", "HTTP/1.1"), true, 200),
			simple("404", getReq("http://"+nf.Addr+"/a"), false, 404),
			simple("mreq-deny", getReq("http://127.0.0.1:9/x", FaultHeader+": mreq-deny"), false, 403),
			simple("mreq-auth", getReq("http://127.0.0.1:9/x", FaultHeader+": mreq-auth"), false, 407),
			simple("mres-err", getReq("http://"+okCL.Addr+"/a", FaultHeader+": mres-plain"), false, 500),
			simple("rt-refused", getReq("http://"+refused+"/x"), false, 502),
			simple("connect-refused", connectReq(refused), false, 502),
			{"ok-close-delimited", true, func(c net.Conn) bool {
				c.Write([]byte(getReq("http://" + okClose.Addr + "/a")))
				co := ReadResponse(c, false, 5*time.Second)
				return co.P.Verdict == VComplete && co.P.Status == 200
			}},
			tunnel("connect-tunnel", connectReq(echo.Addr), 200),
			tunnel("upgrade-101", getReq("http://"+ws.Addr+"/ws", "Connection: Upgrade", "Upgrade: vfproto"), 101),
			{"abort-download", true, func(c net.Conn) bool {
				c.Write([]byte(getReq("http://" + big.Addr + "/big")))
				buf := make([]byte, 512)
				c.SetReadDeadline(time.Now().Add(3 * time.Second))
				c.Read(buf)
				Reset(c)
				return true
			}},
			{"garbage", true, func(c net.Conn) bool {
				c.Write([]byte("GARBAGE\r\n\r\n"))
				ConnState(c, time.Second)
				return true
			}},
			{"http10", true, func(c net.Conn) bool {
				c.Write([]byte(reqLine("GET", "http://"+okCL.Addr+"/a", "HTTP/1.0")))
				co := ReadResponse(c, false, 5*time.Second)
				return co.P.Verdict == VComplete && co.P.Status == 200
			}},
		}
	} else {
		kinds = []kind{
			tunnel("connect-via-upstream", connectReq("ok.invalid:443"), 200),
			simple("connect-rejected-403", connectReq("deny.invalid:443"), false, 403),
			simple("connect-rejected-101", connectReq("sw.invalid:443"), false, 101),
			simple("connect-upstream-junk", connectReq("junk.invalid:443"), false, 500),
			simple("https-get-rejected-403", getReq("https://deny.invalid/x"), false, 403),
			simple("https-get-rejected-101", getReq("https://sw.invalid/x"), false, 101),
			simple("mreq-deny", getReq("http://127.0.0.1:9/x", FaultHeader+": mreq-deny"), false, 403),
		}
	}

	var wg sync.WaitGroup
	var conns, reqs atomic.Int64
	var kmu sync.Mutex
	var bad atomic.Int64
	for ci := 0; ci < clients; ci++ {
		wg.Add(1)
		go func(ci int) {
			defer wg.Done()
			r := rng.New(seed*1000003 + uint64(ci)*7919 + 17)
			left := perClient
			for left > 0 {
				c, err := Dial(rig.Addr)
				if err != nil {
					bad.Add(1)
					return
				}
				conns.Add(1)
				for left > 0 {
					k := kinds[r.Intn(len(kinds))]
					left--
					reqs.Add(1)
					kmu.Lock()
					o.Kinds[k.name]++
					kmu.Unlock()
					if !k.run(c) {
						bad.Add(1)
						break
					}
					if k.ends || r.Chance(1, 5) {
						break
					}
				}
				c.Close()
			}
		}(ci)
	}
	wg.Wait()
	o.Conns, o.Requests = int(conns.Load()), int(reqs.Load())
	if n := bad.Load(); n > 0 {
		o.Err = fmt.Sprintf("%d exchange(s) did not go as scripted", n)
	}
	// quiescence
	deadline := time.Now().Add(3 * time.Second)
	for time.Now().Before(deadline) {
		evs := rig.Events()
		reads, wrotes := 0, 0
		for _, e := range evs {
			if e.Kind == "read" && e.HasReq {
				reads++
			}
			if e.Kind == "wrote" {
				wrotes++
			}
		}
		if wrotes >= reads {
			break
		}
		time.Sleep(5 * time.Millisecond)
	}
	rig.CloseIdle()
	m := rig.WaitQuiescent(2 * time.Second)
	o.AllEvents = rig.Events()
	for _, e := range o.AllEvents {
		if e.Conn == "" {
			o.NoConn++
			continue
		}
		o.Traces[e.Conn] = append(o.Traces[e.Conn], e)
	}
	ns := rig.NS
	o.InFlight, o.Total = map[string]float64{}, map[string]float64{}
	for l, v := range m.Series(ns + "_http_requests_in_flight") {
		o.InFlight[LabelValue(l, "method")] += v
	}
	for l, v := range m.Series(ns + "_http_requests_total") {
		o.Total[LabelValue(l, "code")+"|"+LabelValue(l, "method")] += v
	}
	o.LAct, o.LTot = m.AbsSum(ns+"_listener_cx_active"), m.Sum(ns+"_listener_cx_total")
	o.DAct = m.AbsSum(ns + "_dialer_cx_active")
	rig.Close()
	return o
}
