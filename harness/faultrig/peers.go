package faultrig

import (
	"bytes"
	"crypto/ecdsa"
	"crypto/elliptic"
	"crypto/rand"
	"crypto/tls"
	"crypto/x509"
	"crypto/x509/pkix"
	"fmt"
	"io"
	"math/big"
	"net"
	"sync"
	"sync/atomic"
	"syscall"
	"time"
)

// Peer is a scripted TCP listener (origin server or upstream proxy).
type Peer struct {
	L        net.Listener
	Addr     string
	Accepted atomic.Int32
	wg       sync.WaitGroup
	mu       sync.Mutex
	conns    []net.Conn
}

// NewPeer listens on 127.0.0.1:0 and runs h on every accepted connection
// (n = 0-based index of the connection).  h owns the connection.
func NewPeer(h func(c net.Conn, n int)) (*Peer, error) {
	l, err := net.Listen("tcp", "127.0.0.1:0")
	if err != nil {
		return nil, err
	}
	p := &Peer{L: l, Addr: l.Addr().String()}
	go func() {
		for {
			c, err := l.Accept()
			if err != nil {
				return
			}
			n := int(p.Accepted.Add(1)) - 1
			p.mu.Lock()
			p.conns = append(p.conns, c)
			p.mu.Unlock()
			p.wg.Add(1)
			go func() {
				defer p.wg.Done()
				h(c, n)
			}()
		}
	}()
	return p, nil
}

// Close stops the listener and closes every connection it accepted.
func (p *Peer) Close() {
	p.L.Close()
	p.mu.Lock()
	for _, c := range p.conns {
		c.Close()
	}
	p.mu.Unlock()
	done := make(chan struct{})
	go func() { p.wg.Wait(); close(done) }()
	select {
	case <-done:
	case <-time.After(2 * time.Second):
	}
}

// FreeAddr returns a loopback address on which nothing listens (connection refused).
// The port stays RESERVED: a socket is bound to it but never listens, so that no other listener of this
// process or of another one (a proxy under test, a peer) can be given the same port while the case runs —
// with listen-and-close a proxy was once handed the "refused" port and dialled itself.
func FreeAddr() string {
	fd, err := syscall.Socket(syscall.AF_INET, syscall.SOCK_STREAM|syscall.SOCK_CLOEXEC, 0)
	if err != nil {
		return freeAddrFallback()
	}
	sa := &syscall.SockaddrInet4{Port: 0, Addr: [4]byte{127, 0, 0, 1}}
	if err := syscall.Bind(fd, sa); err != nil {
		syscall.Close(fd)
		return freeAddrFallback()
	}
	got, err := syscall.Getsockname(fd)
	in4, ok := got.(*syscall.SockaddrInet4)
	if err != nil || !ok {
		syscall.Close(fd)
		return freeAddrFallback()
	}
	reservedMu.Lock()
	reserved = append(reserved, fd)
	if len(reserved) > 3000 { // keep the number of descriptors bounded: release the oldest reservation
		syscall.Close(reserved[0])
		reserved = reserved[1:]
	}
	reservedMu.Unlock()
	return fmt.Sprintf("127.0.0.1:%d", in4.Port)
}

var (
	reservedMu sync.Mutex
	reserved   []int
)

// Blackhole returns the address of a TCP socket that listens but never completes another handshake: backlog 0 and a
// full accept queue, so the kernel drops further SYNs (Linux).  A dial to it neither succeeds nor is refused; it ends
// when the dialler's own time limit or context does.  The socket and the connections filling its queue live until the
// process ends.
func Blackhole() (string, error) {
	fd, err := syscall.Socket(syscall.AF_INET, syscall.SOCK_STREAM|syscall.SOCK_CLOEXEC, 0)
	if err != nil {
		return "", err
	}
	if err := syscall.Bind(fd, &syscall.SockaddrInet4{Addr: [4]byte{127, 0, 0, 1}}); err != nil {
		syscall.Close(fd)
		return "", err
	}
	if err := syscall.Listen(fd, 0); err != nil {
		syscall.Close(fd)
		return "", err
	}
	sa, err := syscall.Getsockname(fd)
	in4, ok := sa.(*syscall.SockaddrInet4)
	if err != nil || !ok {
		syscall.Close(fd)
		return "", fmt.Errorf("getsockname: %v", err)
	}
	addr := fmt.Sprintf("127.0.0.1:%d", in4.Port)
	for i := 0; i < 16; i++ {
		c, err := net.DialTimeout("tcp", addr, 250*time.Millisecond)
		if err != nil {
			if ne, ok := err.(net.Error); ok && ne.Timeout() {
				return addr, nil
			}
			return "", fmt.Errorf("filling the accept queue: %v", err)
		}
		blackholeFill = append(blackholeFill, c)
	}
	return "", fmt.Errorf("the accept queue of a backlog-0 listener never filled up")
}

var blackholeFill []net.Conn

func freeAddrFallback() string {
	l, err := net.Listen("tcp", "127.0.0.1:0")
	if err != nil {
		return "127.0.0.1:1"
	}
	a := l.Addr().String()
	l.Close()
	return a
}

// Reset closes c abortively (RST instead of FIN).
func Reset(c net.Conn) {
	if tc, ok := c.(*net.TCPConn); ok {
		tc.SetLinger(0)
	}
	c.Close()
}

// ReadHead reads from c until the end of an HTTP head (CRLF CRLF) and returns
// everything read so far (head and any extra bytes).
func ReadHead(c net.Conn, d time.Duration) ([]byte, error) {
	var buf []byte
	tmp := make([]byte, 4096)
	c.SetReadDeadline(time.Now().Add(d))
	defer c.SetReadDeadline(time.Time{})
	for {
		if i := bytes.Index(buf, []byte("\r\n\r\n")); i >= 0 {
			return buf, nil
		}
		n, err := c.Read(tmp)
		buf = append(buf, tmp[:n]...)
		if err != nil {
			return buf, err
		}
	}
}

// ReadAll reads until EOF / error / deadline and returns what was read plus
// how the stream ended: "eof", "reset", "timeout", or the error text.
func ReadAll(c net.Conn, d time.Duration) ([]byte, string) {
	var buf []byte
	tmp := make([]byte, 32*1024)
	c.SetReadDeadline(time.Now().Add(d))
	defer c.SetReadDeadline(time.Time{})
	for {
		n, err := c.Read(tmp)
		buf = append(buf, tmp[:n]...)
		if err != nil {
			return buf, EndKind(err)
		}
	}
}

// EndKind classifies a read error.
func EndKind(err error) string {
	if err == nil {
		return ""
	}
	if err == io.EOF {
		return "eof"
	}
	if ne, ok := err.(net.Error); ok && ne.Timeout() {
		return "timeout"
	}
	s := err.Error()
	if bytes.Contains([]byte(s), []byte("connection reset")) {
		return "reset"
	}
	return s
}

// SelfSigned returns a fresh self-signed server certificate for 127.0.0.1 / localhost.
func SelfSigned() (tls.Certificate, *x509.Certificate, error) {
	key, err := ecdsa.GenerateKey(elliptic.P256(), rand.Reader)
	if err != nil {
		return tls.Certificate{}, nil, err
	}
	tmpl := &x509.Certificate{
		SerialNumber:          big.NewInt(time.Now().UnixNano()),
		Subject:               pkix.Name{CommonName: "vf-origin"},
		NotBefore:             time.Now().Add(-time.Hour),
		NotAfter:              time.Now().Add(24 * time.Hour),
		KeyUsage:              x509.KeyUsageDigitalSignature | x509.KeyUsageCertSign,
		ExtKeyUsage:           []x509.ExtKeyUsage{x509.ExtKeyUsageServerAuth},
		BasicConstraintsValid: true,
		IsCA:                  true,
		IPAddresses:           []net.IP{net.ParseIP("127.0.0.1")},
		DNSNames:              []string{"localhost"},
	}
	der, err := x509.CreateCertificate(rand.Reader, tmpl, tmpl, &key.PublicKey, key)
	if err != nil {
		return tls.Certificate{}, nil, err
	}
	leaf, err := x509.ParseCertificate(der)
	if err != nil {
		return tls.Certificate{}, nil, err
	}
	return tls.Certificate{Certificate: [][]byte{der}, PrivateKey: key, Leaf: leaf}, leaf, nil
}
