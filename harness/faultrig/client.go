package faultrig

import (
	"net"
	"time"
)

// ClientObs is what a raw client saw for one response.
type ClientObs struct {
	Raw    []byte `json:"-"`
	RawLen int    `json:"raw_len"`
	End    string `json:"end"` // "open" (message complete, connection still open), "eof", "reset", "timeout", other error text
	P      Parsed `json:"parsed"`
}

// ReadResponse reads one response from c with the independent parser.  It stops
// as soon as the message is complete by its own framing (End="open"), or when
// the stream ends.  An orderly FIN counts as end-of-stream for close-delimited
// bodies; a reset or a timeout does not.
func ReadResponse(c net.Conn, headOnly bool, d time.Duration) ClientObs {
	var buf []byte
	tmp := make([]byte, 64*1024)
	c.SetReadDeadline(time.Now().Add(d))
	defer c.SetReadDeadline(time.Time{})
	for {
		n, err := c.Read(tmp)
		buf = append(buf, tmp[:n]...)
		if err != nil {
			end := EndKind(err)
			p := ParseResponse(buf, end == "eof", headOnly)
			return ClientObs{Raw: buf, RawLen: len(buf), End: end, P: p}
		}
		p := ParseResponse(buf, false, headOnly)
		if p.Verdict == VComplete || p.Verdict == VMalformed {
			return ClientObs{Raw: buf, RawLen: len(buf), End: "open", P: p}
		}
	}
}

// ConnState probes whether the peer has closed c: it waits up to d for EOF /
// reset.  Returns "closed", "reset", "open" (nothing happened within d) or
// "data" (unexpected extra bytes, returned too).
func ConnState(c net.Conn, d time.Duration) (string, []byte) {
	tmp := make([]byte, 4096)
	c.SetReadDeadline(time.Now().Add(d))
	defer c.SetReadDeadline(time.Time{})
	n, err := c.Read(tmp)
	if n > 0 {
		return "data", tmp[:n]
	}
	switch EndKind(err) {
	case "eof":
		return "closed", nil
	case "reset":
		return "reset", nil
	case "timeout":
		return "open", nil
	}
	return "closed", nil
}

// Dial connects a raw client to the proxy.
func Dial(addr string) (net.Conn, error) {
	return net.DialTimeout("tcp", addr, 2*time.Second)
}
