package faultrig

import (
	"crypto/tls"
	"fmt"
	"net"
	"strings"
	"sync"
	"time"

	"verifharness/coqfmt"
)

// CutCase: the origin (or the upstream proxy relaying it) sends the first K
// bytes of its reply and then ends the connection with FIN or RST.
type CutCase struct {
	Name    string `json:"name"`
	Route   string `json:"route"`   // "direct" | "upstream" (plain request forwarded through an upstream HTTP proxy) | "tls" (https origin) | "mitm" (client inside an intercepted TLS session, https origin)
	Framing string `json:"framing"` // "length" | "chunked" | "close"
	Proto   string `json:"proto"`   // client speaks "HTTP/1.1" | "HTTP/1.0"
	Method  string `json:"method"`
	K       int    `json:"k"`
	End     string `json:"end"` // "fin" | "rst" | TLS origin: "tlscut" (TCP FIN without close_notify), "tlsnotify" (close_notify, orderly)
	// End "corrupt" (chunked only): after k bytes the origin sends a chunk-size line that is not hexadecimal and keeps the connection open
	// Route "connect-reject": the reply is an upstream proxy's answer to the transport's CONNECT (request: GET https://... through that proxy)
	// filled by the run
	ReplyLen   int    `json:"reply_len"`
	HeadLen    int    `json:"head_len"`
	Body       string `json:"-"`          // the body the origin intends to send
	BodySent   int    `json:"body_sent"`  // decoded body bytes that left the origin before the cut
	Full       bool   `json:"full"`       // the whole reply was sent (no fault on CL/chunked; orderly end on close-delimited)
	UpStatus   int    `json:"up_status"`
	Raw        []byte `json:"-"`
	RawLen     int    `json:"raw_len"`
	ClientEnd  string `json:"client_end"` // how the client's stream ended: "open" | "eof" | "reset" | ...
	Go         Parsed `json:"go"`
	ErrHdr     string `json:"err_hdr"`
	HarnessErr string `json:"harness_err"`
	Pipelined  bool   `json:"pipelined"` // the client sent a second request right behind the first one
	Retried    bool   `json:"retried"` // the first attempt ran into the client's time limit (machine under load) and the case was run again
}

// Coq renders the case as G12.Check12.fcase.
func (c CutCase) Coq() string {
	fr := map[string]int{"length": 1, "chunked": 2, "close": 3}[c.Framing]
	_, hasErrHdr := c.Go.Get("X-Forwarder-Error")
	// the intended body is the shared constant cut_body (defined once per shard) or a prefix of it
	bodyRef := "cut_body"
	if c.Body != cutBody {
		bodyRef = fmt.Sprintf("(firstn %d cut_body)", len(c.Body))
	}
	minor := 1
	if c.Proto == "HTTP/1.0" {
		minor = 0
	}
	closed := c.ClientEnd == "eof" || c.ClientEnd == "reset"
	return fmt.Sprintf("(mkfcase %d %s %s %d %d %s %s %s %d %d %d %d %s %s %d %d %d %d %s %s %s %s)",
		fr, coqfmt.Bool(c.End == "rst" || c.End == "tlscut" || c.End == "corrupt"), coqfmt.Bool(c.Full), c.UpStatus, c.BodySent, bodyRef,
		coqfmt.Bytes(c.Raw), coqfmt.Bool(c.ClientEnd == "eof"), verdictN(c.Go.Verdict), c.Go.Status, c.Go.BodyLen, c.Go.RestLen,
		coqfmt.Bool(hasErrHdr), coqfmt.Bool(c.HarnessErr == ""), c.K, c.HeadLen, c.ReplyLen, minor, coqfmt.Bool(closed), coqfmt.Bool(c.Route == "connect-reject"), coqfmt.Bool(c.Route == "handler" || c.Route == "bodylog-handler"), coqfmt.Bool(c.End == "tlscut"))
}

// CutBodyCoq is the Gallina definition of the shared body constant.
func CutBodyCoq() string { return "Definition cut_body : str := " + coqfmt.Str(cutBody) + ".\n" }

const cutBody = "The quick brown fox jumps over the lazy dog. 0123456789\r\n0\r\n\r\nHTTP/1.1 200 OK\r\n\r\nend"

// the reply in a given framing, the length of its head, and for every prefix length the number of decoded body bytes
func cutReply(framing string) (reply string, headLen int) {
	switch framing {
	case "length":
		head := fmt.Sprintf("HTTP/1.1 200 OK\r\nContent-Type: text/plain\r\nContent-Length: %d\r\nX-Origin: vf\r\n\r\n", len(cutBody))
		return head + cutBody, len(head)
	case "chunked":
		head := "HTTP/1.1 200 OK\r\nContent-Type: text/plain\r\nTransfer-Encoding: chunked\r\nX-Origin: vf\r\n\r\n"
		var sb strings.Builder
		for i := 0; i < len(cutBody); i += 23 {
			j := i + 23
			if j > len(cutBody) {
				j = len(cutBody)
			}
			fmt.Fprintf(&sb, "%x\r\n%s\r\n", j-i, cutBody[i:j])
		}
		sb.WriteString("0\r\n\r\n")
		return head + sb.String(), len(head)
	case "reject":
		head := fmt.Sprintf("HTTP/1.1 403 Forbidden\r\nContent-Type: text/plain\r\nContent-Length: %d\r\nX-Upstream: vf\r\n\r\n", len(cutBody))
		return head + cutBody, len(head)
	default:
		head := "HTTP/1.1 200 OK\r\nContent-Type: text/plain\r\nX-Origin: vf\r\n\r\n"
		return head + cutBody, len(head)
	}
}

// chunkBoundary: reply[:k] ends exactly after the data CRLF of a chunk (so the next bytes are a chunk-size line)
func chunkBoundary(reply string, hl, k int) bool {
	p := ParseResponse([]byte(reply[:k]+"0\r\n\r\n"), false, false)
	return p.Verdict == VComplete
}

// decodedSent: how many body bytes are contained in the first k bytes of the reply
func decodedSent(framing string, reply string, headLen, k int) int {
	if k <= headLen {
		return 0
	}
	if framing != "chunked" {
		return k - headLen
	}
	p := ParseResponse([]byte(reply[:k]), false, false)
	return p.BodyLen
}

// CutCases enumerates the sweep.
func CutCases(tier string) []CutCase {
	var out []CutCase
	for _, route := range []string{"direct", "upstream"} {
		for _, framing := range []string{"length", "chunked", "close"} {
			reply, _ := cutReply(framing)
			for _, proto := range []string{"HTTP/1.1", "HTTP/1.0"} {
				for _, end := range []string{"fin", "rst"} {
					for k := 0; k <= len(reply); k++ {
						_, hl := cutReply(framing)
						if tier != "thorough" && k != len(reply) && k != hl {
							if (route == "upstream" || proto == "HTTP/1.0") && k%4 != 0 {
								continue
							}
							if k > hl && k%2 != 0 { // quick: every head offset, every second body offset
								continue
							}
						}
						out = append(out, CutCase{
							Name:  fmt.Sprintf("cut-%s-%s-%s-%s-%d", route, framing, proto, end, k),
							Route: route, Framing: framing, Proto: proto, Method: "GET", K: k, End: end,
						})
					}
				}
			}
		}
	}
	// the chunked body breaks BY FRAMING (a chunk-size line that is not hexadecimal) after the head / after each whole chunk,
	// the origin keeps its connection open: not an EOF or a reset, still a failure after the head
	{
		reply, hl := cutReply("chunked")
		for k := hl; k < len(reply)-5; k++ {
			if k != hl && !(reply[k-2:k] == "\r\n" && chunkBoundary(reply, hl, k)) {
				continue
			}
			for _, pl := range []bool{false, true} {
				name := fmt.Sprintf("cut-direct-chunked-HTTP/1.1-corrupt-%d", k)
				if pl {
					name += "-pipelined"
				}
				out = append(out, CutCase{Name: name, Route: "direct", Framing: "chunked", Proto: "HTTP/1.1", Method: "GET", K: k, End: "corrupt", Pipelined: pl})
			}
		}
	}
	// an upstream proxy rejects the transport's CONNECT (GET https://... through it) with a Content-Length body and ends
	// after k bytes of its reply
	{
		reply, hl := cutReply("reject")
		for _, end := range []string{"fin", "rst"} {
			for k := 0; k <= len(reply); k++ {
				if tier != "thorough" && k != len(reply) && k != hl && k%3 != 0 {
					continue
				}
				out = append(out, CutCase{Name: fmt.Sprintf("cut-connect-reject-length-HTTP/1.1-%s-%d", end, k),
					Route: "connect-reject", Framing: "reject", Proto: "HTTP/1.1", Method: "GET", K: k, End: end})
			}
		}
	}
	// a second request pipelined behind the one whose reply is cut: after the failure nothing of a second response may follow
	for _, framing := range []string{"length", "chunked", "close"} {
		reply, hl := cutReply(framing)
		for _, end := range []string{"fin", "rst"} {
			for _, k := range []int{0, hl / 2, hl, hl + 1, hl + 30, len(reply) - 1, len(reply)} {
				out = append(out, CutCase{
					Name:  fmt.Sprintf("cut-direct-%s-HTTP/1.1-%s-%d-pipelined", framing, end, k),
					Route: "direct", Framing: framing, Proto: "HTTP/1.1", Method: "GET", K: k, End: end, Pipelined: true,
				})
			}
		}
	}
	// the proxy served through martian's http.Handler on net/http's server
	for _, framing := range []string{"length", "chunked", "close"} {
		reply, hl := cutReply(framing)
		for _, end := range []string{"fin", "rst"} {
			for k := 0; k <= len(reply); k++ {
				if tier != "thorough" && k != len(reply) && k != hl && k%5 != 0 {
					continue
				}
				out = append(out, CutCase{Name: fmt.Sprintf("cut-handler-%s-HTTP/1.1-%s-%d", framing, end, k),
					Route: "handler", Framing: framing, Proto: "HTTP/1.1", Method: "GET", K: k, End: end})
			}
		}
	}
	// HTTP log mode "body": the logger has read the whole body (or failed to) before the response is written
	for _, route := range []string{"bodylog", "bodylog-handler"} {
		for _, framing := range []string{"length", "chunked", "close"} {
			reply, hl := cutReply(framing)
			for _, end := range []string{"fin", "rst"} {
				for k := 0; k <= len(reply); k++ {
					if tier != "thorough" && k != len(reply) && k != hl && (k%8 != 0 || k < hl && k%40 != 0) {
						continue
					}
					out = append(out, CutCase{Name: fmt.Sprintf("cut-%s-%s-HTTP/1.1-%s-%d", route, framing, end, k),
						Route: route, Framing: framing, Proto: "HTTP/1.1", Method: "GET", K: k, End: end})
				}
			}
		}
	}
	for _, route := range []string{"tls", "mitm"} {
		for _, framing := range []string{"length", "chunked", "close"} {
			reply, hl := cutReply(framing)
			for _, end := range []string{"tlscut", "rst", "tlsnotify"} {
				for k := 0; k <= len(reply); k++ {
					if tier != "thorough" && k != len(reply) && k != hl && k%7 != 0 {
						continue
					}
					out = append(out, CutCase{
						Name:  fmt.Sprintf("cut-%s-%s-%s-%s-%d", route, framing, "HTTP/1.1", end, k),
						Route: route, Framing: framing, Proto: "HTTP/1.1", Method: "GET", K: k, End: end,
					})
				}
			}
		}
	}
	return out
}

// CutRig holds the long-lived parts of the sweep: one proxy per route, one
// scripted origin (behaviour selected by the request path), one upstream relay.
type CutRig struct {
	direct    *Rig
	viaUp     *Rig
	tlsRig    *Rig
	mitmRig   *Rig
	origin    *Peer
	originTLS *Peer
	upstream  *Peer
	handlerRig *Rig
	bodyLogRig *Rig // log mode "body", also through the http.Handler (bodyLogHRig)
	bodyLogHRig *Rig
	rejecter  *Peer // upstream proxy that rejects every CONNECT with a reply cut as its target host name says
	rejRig    *Rig
}

// NewCutRig starts the peers and the proxies.
func NewCutRig() (*CutRig, error) {
	cr := &CutRig{}
	var err error
	script := func(c net.Conn, raw net.Conn) {
		head, err := ReadHead(c, 5*time.Second)
		if err != nil {
			c.Close()
			return
		}
		// request line: GET /<framing>/<k>/<end> HTTP/1.x   (absolute form when it comes through the upstream relay)
		line := string(head)
		if i := strings.Index(line, "\r\n"); i >= 0 {
			line = line[:i]
		}
		var framing, end string
		var k int
		path := strings.Fields(line)
		if len(path) < 2 {
			c.Close()
			return
		}
		p := path[1]
		if i := strings.Index(p, "/cut/"); i >= 0 {
			p = p[i+5:]
		}
		if strings.Contains(p, "/second") {
			c.Write([]byte("HTTP/1.1 200 OK\r\nContent-Length: 15\r\nX-Second: yes\r\n\r\nSECOND-RESPONSE"))
			buf := make([]byte, 256)
			c.SetReadDeadline(time.Now().Add(2 * time.Second))
			c.Read(buf)
			c.Close()
			return
		}
		parts := strings.Split(p, "/")
		if len(parts) < 3 {
			c.Close()
			return
		}
		framing, end = parts[0], parts[2]
		fmt.Sscanf(parts[1], "%d", &k)
		reply, _ := cutReply(framing)
		if k > len(reply) {
			k = len(reply)
		}
		c.Write([]byte(reply[:k]))
		if k == len(reply) && framing != "close" {
			// nothing was cut: leave the connection to the peer
			buf := make([]byte, 256)
			c.SetReadDeadline(time.Now().Add(2 * time.Second))
			c.Read(buf)
			c.Close()
			return
		}
		// let the bytes reach the proxy before the connection ends (a reset may overtake data still in flight)
		time.Sleep(15 * time.Millisecond)
		switch end {
		case "corrupt":
			c.Write([]byte("ZZ\r\nnot a chunk\r\n"))
			buf := make([]byte, 256)
			c.SetReadDeadline(time.Now().Add(1500 * time.Millisecond))
			c.Read(buf)
			c.Close()
		case "rst":
			Reset(raw)
		case "tlscut":
			raw.Close() // TCP FIN without a TLS close_notify
		default:
			c.Close() // plain: FIN; TLS: close_notify, then FIN
		}
	}
	cr.origin, err = NewPeer(func(c net.Conn, n int) { script(c, c) })
	if err != nil {
		return nil, err
	}
	cert, _, err := SelfSigned()
	if err != nil {
		return nil, err
	}
	cr.originTLS, err = NewPeer(func(c net.Conn, n int) {
		tc := tls.Server(c, &tls.Config{Certificates: []tls.Certificate{cert}, MinVersion: tls.VersionTLS12})
		tc.SetDeadline(time.Now().Add(5 * time.Second))
		if err := tc.Handshake(); err != nil {
			c.Close()
			return
		}
		tc.SetDeadline(time.Time{})
		script(tc, c)
	})
	if err != nil {
		return nil, err
	}
	// upstream HTTP proxy: forwards the (absolute-form) request head to the origin and relays bytes back verbatim,
	// ending its own connection the way the origin's ended
	cr.upstream, err = NewPeer(func(c net.Conn, n int) {
		head, err := ReadHead(c, 5*time.Second)
		if err != nil {
			c.Close()
			return
		}
		oc, err := net.DialTimeout("tcp", cr.origin.Addr, 2*time.Second)
		if err != nil {
			c.Close()
			return
		}
		oc.Write(head)
		buf := make([]byte, 4096)
		for {
			oc.SetReadDeadline(time.Now().Add(3 * time.Second))
			m, err := oc.Read(buf)
			if m > 0 {
				c.Write(buf[:m])
			}
			if err != nil {
				oc.Close()
				time.Sleep(15 * time.Millisecond)
				if EndKind(err) == "reset" {
					Reset(c)
				} else {
					c.Close()
				}
				return
			}
		}
	})
	if err != nil {
		return nil, err
	}
	if cr.direct, err = New(Options{}); err != nil {
		return nil, err
	}
	if cr.viaUp, err = New(Options{Upstream: "http://" + cr.upstream.Addr}); err != nil {
		return nil, err
	}
	cr.rejecter, err = NewPeer(func(c net.Conn, n int) {
		head, err := ReadHead(c, 5*time.Second)
		if err != nil {
			c.Close()
			return
		}
		// CONNECT k<k>-<end>.invalid:443
		var k int
		var end string
		line := string(head)
		if i := strings.Index(line, "CONNECT k"); i >= 0 {
			fmt.Sscanf(line[i+9:], "%d", &k)
			if strings.Contains(line[:strings.Index(line, "\r\n")], "-rst.") {
				end = "rst"
			}
		}
		reply, _ := cutReply("reject")
		if k > len(reply) {
			k = len(reply)
		}
		c.Write([]byte(reply[:k]))
		if k == len(reply) {
			buf := make([]byte, 256)
			c.SetReadDeadline(time.Now().Add(2 * time.Second))
			c.Read(buf)
			c.Close()
			return
		}
		time.Sleep(15 * time.Millisecond)
		if end == "rst" {
			Reset(c)
		} else {
			c.Close()
		}
	})
	if err != nil {
		return nil, err
	}
	if cr.rejRig, err = New(Options{Upstream: "http://" + cr.rejecter.Addr}); err != nil {
		return nil, err
	}
	if cr.handlerRig, err = New(Options{Handler: true}); err != nil {
		return nil, err
	}
	if cr.bodyLogRig, err = New(Options{LogHTTPBody: true}); err != nil {
		return nil, err
	}
	if cr.bodyLogHRig, err = New(Options{LogHTTPBody: true, Handler: true}); err != nil {
		return nil, err
	}
	if cr.tlsRig, err = New(Options{InsecureUpstream: true}); err != nil {
		return nil, err
	}
	if cr.mitmRig, err = New(Options{MITM: true, InsecureUpstream: true}); err != nil {
		return nil, err
	}
	return cr, nil
}

// Close stops everything.
func (cr *CutRig) Close() {
	cr.direct.Close()
	cr.viaUp.Close()
	cr.tlsRig.Close()
	cr.mitmRig.Close()
	cr.rejRig.Close()
	cr.rejecter.Close()
	cr.handlerRig.Close()
	cr.bodyLogRig.Close()
	cr.bodyLogHRig.Close()
	cr.origin.Close()
	cr.originTLS.Close()
	cr.upstream.Close()
}

func (c *CutCase) timeout() time.Duration {
	if c.Retried {
		return 8 * time.Second
	}
	return 2500 * time.Millisecond
}

// Run drives one case.
func (cr *CutRig) Run(c *CutCase) {
	reply, headLen := cutReply(c.Framing)
	c.ReplyLen, c.HeadLen, c.Body, c.UpStatus = len(reply), headLen, cutBody, 200
	if c.Route == "connect-reject" {
		c.UpStatus = 403
	}
	c.BodySent = decodedSent(c.Framing, reply, headLen, c.K)
	orderly := c.End == "fin" || c.End == "tlsnotify"
	c.Full = c.K == len(reply) && (c.Framing != "close" || orderly)
	if c.Framing == "close" && orderly && c.K >= headLen {
		// an orderly close after k bytes IS the end of a close-delimited body
		c.Full = true
		c.Body = cutBody[:c.K-headLen]
	}
	rig := cr.direct
	switch c.Route {
	case "upstream":
		rig = cr.viaUp
	case "tls":
		rig = cr.tlsRig
	case "mitm":
		rig = cr.mitmRig
	case "connect-reject":
		rig = cr.rejRig
	case "handler":
		rig = cr.handlerRig
	case "bodylog":
		rig = cr.bodyLogRig
	case "bodylog-handler":
		rig = cr.bodyLogHRig
	}
	raw, err := Dial(rig.Addr)
	if err != nil {
		c.HarnessErr = "dial proxy: " + err.Error()
		return
	}
	defer raw.Close()
	var conn net.Conn = raw
	target := fmt.Sprintf("http://%s/cut/%s/%d/%s", cr.origin.Addr, c.Framing, c.K, c.End)
	req := reqLine(c.Method, target, c.Proto)
	switch c.Route {
	case "connect-reject":
		req = reqLine(c.Method, fmt.Sprintf("https://k%d-%s.invalid/x", c.K, c.End), c.Proto)
	case "tls":
		req = reqLine(c.Method, fmt.Sprintf("https://%s/cut/%s/%d/%s", cr.originTLS.Addr, c.Framing, c.K, c.End), c.Proto)
	case "mitm":
		raw.Write([]byte(connectReq(cr.originTLS.Addr)))
		co := ReadResponse(raw, true, 3*time.Second)
		if co.P.Verdict != VComplete || co.P.Status != 200 {
			c.HarnessErr = "mitm CONNECT not accepted"
			return
		}
		tc, err := TLSClient(raw, "127.0.0.1")
		if err != nil {
			c.HarnessErr = "mitm handshake: " + err.Error()
			return
		}
		conn = tc
		req = fmt.Sprintf("%s /cut/%s/%d/%s %s\r\nHost: %s\r\n\r\n", c.Method, c.Framing, c.K, c.End, c.Proto, cr.originTLS.Addr)
	}
	if c.Pipelined {
		req += reqLine("GET", fmt.Sprintf("http://%s/second", cr.origin.Addr), "HTTP/1.1")
	}
	if _, err := conn.Write([]byte(req)); err != nil {
		c.HarnessErr = "client write: " + err.Error()
		return
	}
	co := ReadResponse(conn, false, c.timeout())
	if cv, _ := co.P.Get("Connection"); c.Pipelined && co.End == "open" && co.P.Verdict == VComplete && !strings.EqualFold(cv, "close") {
		// the first reply is complete and the connection is still open: what follows belongs to the second exchange.
		// Keep only the first message for the checker; the second must be the second origin reply, whole.
		first := co.Raw[:len(co.Raw)-co.P.RestLen]
		rest := append([]byte(nil), co.Raw[len(co.Raw)-co.P.RestLen:]...)
		second := ParseResponse(rest, false, false)
		deadline := time.Now().Add(3 * time.Second)
		buf := make([]byte, 4096)
		for second.Verdict == VIncomplete && time.Now().Before(deadline) {
			conn.SetReadDeadline(deadline)
			n, err := conn.Read(buf)
			rest = append(rest, buf[:n]...)
			second = ParseResponse(rest, err != nil && EndKind(err) == "eof", false)
			if err != nil {
				break
			}
		}
		if _, isErr := co.P.Get("X-Forwarder-Error"); !isErr || true {
			if second.Verdict != VComplete || second.Status != 200 || string(second.Body) != "SECOND-RESPONSE" {
				c.HarnessErr = fmt.Sprintf("second pipelined request not answered with the second origin reply: %s %d %q", second.Verdict, second.Status, truncate(rest, 60))
			}
		}
		co.Raw, co.RawLen = first, len(first)
		co.P = ParseResponse(first, false, false)
	}
	c.Raw, c.RawLen, c.ClientEnd, c.Go = co.Raw, co.RawLen, co.End, co.P
	c.ErrHdr, _ = co.P.Get("X-Forwarder-Error")
	if co.End == "timeout" {
		c.HarnessErr = "client timed out"
	}
}

// RunCutCases runs the sweep with the given parallelism.
func RunCutCases(cases []CutCase, par int) error {
	cr, err := NewCutRig()
	if err != nil {
		return err
	}
	defer cr.Close()
	var wg sync.WaitGroup
	sem := make(chan struct{}, par)
	for i := range cases {
		wg.Add(1)
		sem <- struct{}{}
		go func(i int) {
			defer wg.Done()
			defer func() { <-sem }()
			cr.Run(&cases[i])
			if cases[i].HarnessErr != "" {
				// a time limit hit on a loaded machine is not an observation of the proxy: run the case once more, generously
				cases[i].HarnessErr, cases[i].Retried = "", true
				cr.Run(&cases[i])
			}
		}(i)
	}
	wg.Wait()
	return nil
}
