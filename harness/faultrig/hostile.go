package faultrig

import (
	"bufio"
	"bytes"
	"crypto/tls"
	"encoding/json"
	"fmt"
	"io"
	"net"
	"os"
	"os/exec"
	"sort"
	"strconv"
	"strings"
	"sync"
	"syscall"
	"time"

	"verifharness/rng"
)

// ---- child side ------------------------------------------------------------

// ChildInfo is printed by the child as one JSON line when its proxies listen.
type ChildInfo struct {
	Plain string `json:"plain"`
	TLS   string `json:"tls"`
	MITM  string `json:"mitm"`
	PP    string `json:"pp"` // listener that expects a PROXY protocol header
	// proxies whose upstream proxy (http / socks5) is a blackhole: dials to it stay pending until the connect
	// timeout (300 ms) ends the context the dialer was given; 3 dial attempts
	UpBH    string `json:"upbh"`
	SocksBH string `json:"socksbh"`
	BHErr   string `json:"bh_err"`
	BodyLog string `json:"bodylog"` // HTTP log mode "body" (every relayed reply is formatted, bodies are read and put back)
	Pid   int    `json:"pid"`
}

// HostileChild runs three real proxies (plain listener, TLS listener, plain
// listener with MITM) until stdin is closed.
func HostileChild(memLimit int64, readHeaderTimeout time.Duration, nofile int) {
	if nofile > 0 {
		// descriptor-exhaustion experiment: one plain proxy, then the descriptor table is capped
		o := Options{Namespace: "vfp", ReadHeaderTimeout: readHeaderTimeout}
		plain, err := New(o)
		if err != nil {
			fmt.Fprintln(os.Stderr, "child: start proxy:", err)
			os.Exit(3)
		}
		lim := syscall.Rlimit{Cur: uint64(nofile), Max: uint64(nofile)}
		if err := syscall.Setrlimit(syscall.RLIMIT_NOFILE, &lim); err != nil {
			fmt.Fprintln(os.Stderr, "child: setrlimit nofile:", err)
			os.Exit(3)
		}
		b, _ := json.Marshal(ChildInfo{Plain: plain.Addr, Pid: os.Getpid()})
		fmt.Println(string(b))
		io.Copy(io.Discard, os.Stdin)
		os.Exit(0)
	}
	if memLimit > 0 {
		lim := syscall.Rlimit{Cur: uint64(memLimit), Max: uint64(memLimit)}
		if err := syscall.Setrlimit(syscall.RLIMIT_AS, &lim); err != nil {
			fmt.Fprintln(os.Stderr, "child: setrlimit:", err)
		}
	}
	mk := func(o Options) *Rig {
		o.ReadHeaderTimeout = readHeaderTimeout
		o.InsecureUpstream = true
		r, err := New(o)
		if err != nil {
			fmt.Fprintln(os.Stderr, "child: start proxy:", err)
			os.Exit(3)
		}
		return r
	}
	plain := mk(Options{Namespace: "vfp"})
	tl := mk(Options{Namespace: "vft", TLSListener: true})
	mitm := mk(Options{Namespace: "vfm", MITM: true})
	pp := mk(Options{Namespace: "vfpp", ProxyProtocol: 500 * time.Millisecond})
	bl := mk(Options{Namespace: "vfbl", LogHTTPBody: true})
	info := ChildInfo{Plain: plain.Addr, TLS: tl.Addr, MITM: mitm.Addr, PP: pp.Addr, BodyLog: bl.Addr, Pid: os.Getpid()}
	if bh, err := Blackhole(); err != nil {
		info.BHErr = err.Error()
	} else {
		info.UpBH = mk(Options{Namespace: "vfub", Upstream: "http://" + bh, ConnectTimeout: 300 * time.Millisecond, DialAttempts: 3}).Addr
		info.SocksBH = mk(Options{Namespace: "vfsb", Upstream: "socks5://" + bh, ConnectTimeout: 300 * time.Millisecond, DialAttempts: 3}).Addr
	}
	b, _ := json.Marshal(info)
	fmt.Println(string(b))
	io.Copy(io.Discard, os.Stdin)
	os.Exit(0)
}

// ---- parent side -----------------------------------------------------------

// HostileResult is the outcome of one hostile stream.
type HostileResult struct {
	Name      string  `json:"name"`
	Listener  string  `json:"listener"` // "plain" | "tls" | "mitm" | "origin" (hostile upstream reply)
	Sent      int     `json:"sent"`
	Crashed   bool    `json:"crashed"`
	ExitText  string  `json:"exit_text"`
	ProbeOK   bool    `json:"probe_ok"`
	ProbeMS   float64 `json:"probe_ms"`
	ProbeText string  `json:"probe_text"`
	Reply     string  `json:"reply"` // first bytes of what the hostile client got back (diagnostics)
	Verdict   string  `json:"verdict"`
	Status    int     `json:"status"`
	RSSBefore int64   `json:"rss_before_kb"`
	RSSAfter  int64   `json:"rss_after_kb"`
	RSSPeak   int64   `json:"rss_peak_kb"`
	Seconds   float64 `json:"seconds"`
	Note      string  `json:"note"`
	Want      int     `json:"want"` // status the statement requires for this stream (0 = none)
}

type child struct {
	cmd    *exec.Cmd
	info   ChildInfo
	stdin  io.WriteCloser
	stderr *bytes.Buffer
	done   chan struct{}
	mu     sync.Mutex
	exit   string
}

func startChild(self string, mem int64, rht time.Duration) (*child, error) {
	return startChildN(self, mem, rht, 0)
}

func startChildN(self string, mem int64, rht time.Duration, nofile int) (*child, error) {
	args := []string{"-child"}
	if nofile > 0 {
		args = append(args, "-child-nofile", strconv.Itoa(nofile))
	}
	if mem > 0 {
		args = append(args, "-child-mem", strconv.FormatInt(mem, 10))
	}
	if rht > 0 {
		args = append(args, "-child-read-header-timeout", rht.String())
	}
	cmd := exec.Command(self, args...)
	stdin, err := cmd.StdinPipe()
	if err != nil {
		return nil, err
	}
	stdout, err := cmd.StdoutPipe()
	if err != nil {
		return nil, err
	}
	c := &child{cmd: cmd, stdin: stdin, stderr: &bytes.Buffer{}, done: make(chan struct{})}
	cmd.Stderr = c.stderr
	if err := cmd.Start(); err != nil {
		return nil, err
	}
	br := bufio.NewReader(stdout)
	line, err := br.ReadString('\n')
	if err != nil {
		cmd.Process.Kill()
		cmd.Wait()
		return nil, fmt.Errorf("child did not start: %v; stderr: %s", err, c.stderr.String())
	}
	if err := json.Unmarshal([]byte(line), &c.info); err != nil {
		cmd.Process.Kill()
		return nil, err
	}
	go func() {
		io.Copy(io.Discard, br)
		err := cmd.Wait()
		c.mu.Lock()
		if err != nil {
			c.exit = err.Error()
		} else {
			c.exit = "exit 0"
		}
		c.mu.Unlock()
		close(c.done)
	}()
	return c, nil
}

func (c *child) alive() bool {
	select {
	case <-c.done:
		return false
	default:
		return true
	}
}

func (c *child) stop() {
	c.stdin.Close()
	select {
	case <-c.done:
	case <-time.After(3 * time.Second):
		c.cmd.Process.Kill()
		<-c.done
	}
}

func (c *child) exitText() string {
	c.mu.Lock()
	defer c.mu.Unlock()
	s := c.stderr.String()
	if len(s) > 600 {
		s = s[:300] + " ... " + s[len(s)-300:]
	}
	return c.exit + " " + s
}

func rssKB(pid int) int64 {
	b, err := os.ReadFile(fmt.Sprintf("/proc/%d/status", pid))
	if err != nil {
		return -1
	}
	for _, l := range strings.Split(string(b), "\n") {
		if strings.HasPrefix(l, "VmRSS:") {
			f := strings.Fields(l)
			if len(f) >= 2 {
				n, _ := strconv.ParseInt(f[1], 10, 64)
				return n
			}
		}
	}
	return -1
}

// hostile stream: bytes, how to end, which listener
type stream struct {
	name     string
	listener string
	chunks   [][]byte
	pause    time.Duration // between chunks
	end      string        // "fin" | "rst" | "hold" (keep open while probing)
	viaTLS   bool          // speak TLS to the listener first (tls listener), then send the bytes inside
	want     int           // status the statement requires (0 = none)
	waitReply bool         // with end "hold": wait for the proxy's reply before probing
	settle   time.Duration // with end "rst": wait this long after the reset before probing
	connect  string        // send "CONNECT <target>" first, expect 200, perform a TLS handshake with the proxy (MITM), then send the bytes inside
}

func hostileStreams(tier string, seed uint64, originAddr string) []stream {
	var ss []stream
	add := func(name, l string, end string, chunks ...[]byte) {
		ss = append(ss, stream{name: name, listener: l, chunks: chunks, end: end})
	}
	valid := "GET http://" + originAddr + "/probe HTTP/1.1\r\nHost: " + originAddr + "\r\n\r\n"
	rep := func(s string, n int) []byte { return bytes.Repeat([]byte(s), n) }
	for _, l := range []string{"plain", "mitm"} {
		add("empty-close", l, "fin")
		add("nul-bytes", l, "fin", rep("\x00", 4096))
		add("binary-garbage", l, "fin", []byte("\xff\xfe\xfd\x00\x01\x02\r\n\r\n"))
		add("only-crlf", l, "fin", rep("\r\n", 2000))
		add("bad-method-chars", l, "fin", []byte("G\x01T / HTTP/1.1\r\n\r\n"))
		add("bad-version", l, "fin", []byte("GET / HTTP/9.9\r\n\r\n"))
		add("http2-preface", l, "fin", []byte("PRI * HTTP/2.0\r\n\r\nSM\r\n\r\n\x00\x00\x00\x04\x00\x00\x00\x00\x00"))
		add("tls-client-hello-on-plain", l, "fin", []byte{22, 3, 1, 2, 0, 1, 0, 1, 252, 3, 3}, rep("\x11", 300))
		add("negative-content-length", l, "fin", []byte("POST http://"+originAddr+"/x HTTP/1.1\r\nHost: x\r\nContent-Length: -5\r\n\r\nabc"))
		add("huge-content-length", l, "rst", []byte("POST http://"+originAddr+"/x HTTP/1.1\r\nHost: x\r\nContent-Length: 99999999999999999999\r\n\r\nabc"))
		add("cl-and-te", l, "fin", []byte("POST http://"+originAddr+"/x HTTP/1.1\r\nHost: x\r\nContent-Length: 3\r\nTransfer-Encoding: chunked\r\n\r\n0\r\n\r\n"))
		add("bad-chunk-size", l, "fin", []byte("POST http://"+originAddr+"/x HTTP/1.1\r\nHost: x\r\nTransfer-Encoding: chunked\r\n\r\nZZ\r\nabc\r\n0\r\n\r\n"))
		add("huge-chunk-size", l, "fin", []byte("POST http://"+originAddr+"/x HTTP/1.1\r\nHost: x\r\nTransfer-Encoding: chunked\r\n\r\nffffffffffffffff\r\nabc"))
		add("many-headers", l, "fin", []byte("GET http://"+originAddr+"/probe HTTP/1.1\r\nHost: x\r\n"), rep("X-A: b\r\n", 20000), []byte("\r\n"))
		add("long-header-value-1MiB", l, "fin", []byte("GET http://"+originAddr+"/probe HTTP/1.1\r\nHost: x\r\nX-Long: "), rep("v", 1<<20), []byte("\r\n\r\n"))
		add("long-request-line-1MiB-no-crlf", l, "fin", []byte("GET http://"+originAddr+"/"), rep("a", 1<<20))
		add("long-method", l, "fin", rep("M", 70000), []byte(" / HTTP/1.1\r\n\r\n"))
		add("control-chars-in-url", l, "fin", []byte("GET http://"+originAddr+"/\x7f\x00\x1b HTTP/1.1\r\nHost: x\r\n\r\n"))
		add("url-bad-escape", l, "fin", []byte("GET http://"+originAddr+"/%zz%% HTTP/1.1\r\nHost: x\r\n\r\n"))
		add("invalid-utf8-host-get", l, "fin", []byte("GET http://127\x920.0.1:8080/ HTTP/1.1\r\nHost: x\r\n\r\n"))
		add("invalid-utf8-host-connect", l, "fin", []byte("CONNECT exa\xffmple.invalid:443 HTTP/1.1\r\nHost: exa\xffmple.invalid:443\r\n\r\n"))
		add("invalid-utf8-host-header-only", l, "fin", []byte("GET / HTTP/1.1\r\nHost: \xc3\x28.invalid\r\n\r\n"))
		add("connect-bad-target", l, "fin", []byte("CONNECT :::::999999 HTTP/1.1\r\nHost: x\r\n\r\n"))
		add("connect-no-port", l, "fin", []byte("CONNECT example.invalid HTTP/1.1\r\nHost: example.invalid\r\n\r\n"))
		add("connect-then-garbage", l, "fin", []byte("CONNECT "+originAddr+" HTTP/1.1\r\nHost: "+originAddr+"\r\n\r\n"), []byte("\x16\x03\x01\xff\xff"), rep("\x00", 70000))
		add("connect-then-truncated-hello", l, "rst", []byte("CONNECT "+originAddr+" HTTP/1.1\r\nHost: "+originAddr+"\r\n\r\n"), []byte{22, 3, 1, 0, 200, 1, 0, 0, 196, 3, 3})
		add("pipelined-300", l, "fin", rep(valid, 300))
		add("expect-continue-no-body", l, "rst", []byte("POST http://"+originAddr+"/x HTTP/1.1\r\nHost: x\r\nExpect: 100-continue\r\nContent-Length: 10\r\n\r\n"))
		add("upgrade-h2c", l, "fin", []byte("GET http://"+originAddr+"/probe HTTP/1.1\r\nHost: x\r\nConnection: Upgrade, HTTP2-Settings\r\nUpgrade: h2c\r\nHTTP2-Settings: AAMAAABkAAQCAAAAAAIAAAAA\r\n\r\n"))
		add("connection-upgrade-without-upgrade-field", l, "fin", []byte("GET http://"+originAddr+"/probe HTTP/1.1\r\nHost: x\r\nConnection: Upgrade\r\n\r\n"))
		add("upgrade-field-empty", l, "fin", []byte("GET http://"+originAddr+"/probe HTTP/1.1\r\nHost: x\r\nConnection: Upgrade\r\nUpgrade:\r\n\r\n"))
		add("connection-field-empty-tokens", l, "fin", []byte("GET http://"+originAddr+"/probe HTTP/1.1\r\nHost: x\r\nConnection: ,, ,\r\nConnection:\r\nProxy-Connection:\r\n\r\n"))
		add("header-without-colon", l, "fin", []byte("GET http://"+originAddr+"/probe HTTP/1.1\r\nHost x\r\n\r\n"))
		add("obs-fold", l, "fin", []byte("GET http://"+originAddr+"/probe HTTP/1.1\r\nHost: x\r\nX-A: a\r\n b\r\n\r\n"))
		add("reset-mid-head", l, "rst", []byte("GET http://"+originAddr+"/probe HTTP/1.1\r\nHos"))
		add("hold-partial-head", l, "hold", []byte("GET http://"+originAddr+"/probe HTTP/1.1\r\nHost: x\r\n"))
	}
	// TLS listener: raw bytes instead of a handshake, broken handshakes, and the same garbage inside TLS
	add("plain-http-on-tls", "tls", "fin", []byte(valid))
	add("tls-garbage-record", "tls", "fin", []byte{22, 3, 1, 0, 5, 1, 2, 3, 4, 5})
	add("tls-oversized-record", "tls", "fin", []byte{22, 3, 3, 0xff, 0xff}, rep("\x00", 70000))
	add("tls-truncated-hello", "tls", "rst", []byte{22, 3, 1, 0, 200, 1, 0, 0, 196, 3, 3})
	add("tls-alert-first", "tls", "fin", []byte{21, 3, 3, 0, 2, 2, 40})
	add("tls-empty-close", "tls", "fin")
	ss = append(ss, stream{name: "tls-inner-garbage", listener: "tls", viaTLS: true, end: "fin", chunks: [][]byte{[]byte("\xff\xfe\x00garbage\r\n\r\n")}})
	ss = append(ss, stream{name: "tls-inner-long-line", listener: "tls", viaTLS: true, end: "fin", chunks: [][]byte{[]byte("GET /"), rep("a", 1<<20)}})

	// listener that expects the PROXY protocol (v1 text / v2 binary header before the request)
	v2sig := "\r\n\r\n\x00\r\nQUIT\n"
	ppStreams := map[string][]byte{
		"pp-no-header":               []byte(valid),
		"pp-v1-unknown":              []byte("PROXY UNKNOWN\r\n" + valid),
		"pp-v1-garbage-family":       []byte("PROXY TCP9 1.2.3.4 5.6.7.8 1 2\r\n" + valid),
		"pp-v1-bad-ports":            []byte("PROXY TCP4 1.2.3.4 5.6.7.8 -1 70000\r\n" + valid),
		"pp-v1-bad-addr":             []byte("PROXY TCP4 999.2.3.4 x 1 2\r\n" + valid),
		"pp-v1-too-long":             append([]byte("PROXY TCP6 "), append(rep("f", 300), []byte("\r\n"+valid)...)...),
		"pp-v1-no-crlf":              append([]byte("PROXY TCP4 1.2.3.4 5.6.7.8 1 2"), rep(" ", 4000)...),
		"pp-v1-tcp6-minimal":         []byte("PROXY TCP6 :: ::1 2 3\r\n" + valid),
		"pp-v2-local":                []byte(v2sig + "\x20\x00\x00\x00" + valid),
		"pp-v2-family-unspec":        []byte(v2sig + "\x21\x00\x00\x00" + valid),
		"pp-v2-unknown-family":       []byte(v2sig + "\x21\x41\x00\x00" + valid),
		"pp-v2-unknown-command":      []byte(v2sig + "\x2f\x11\x00\x0c\x01\x02\x03\x04\x05\x06\x07\x08\x00\x01\x00\x02" + valid),
		"pp-v2-bad-version":          []byte(v2sig + "\x11\x11\x00\x0c\x01\x02\x03\x04\x05\x06\x07\x08\x00\x01\x00\x02" + valid),
		"pp-v2-short-length":         []byte(v2sig + "\x21\x11\x00\x04\x01\x02\x03\x04" + valid),
		"pp-v2-huge-length":          []byte(v2sig + "\x21\x11\xff\xff\x01\x02\x03\x04"),
		"pp-v2-truncated":            []byte(v2sig + "\x21\x11\x00\x0c\x01\x02"),
		"pp-v2-unix-family":          append([]byte(v2sig+"\x21\x31\x00\xd8"), append(rep("u", 216), []byte(valid)...)...),
		"pp-v2-tcp4-ok-then-garbage": []byte(v2sig + "\x21\x11\x00\x0c\x01\x02\x03\x04\x05\x06\x07\x08\x00\x01\x00\x02" + "\x00\xffgarbage\r\n\r\n"),
		"pp-signature-only":          []byte(v2sig),
		"pp-binary-garbage":          rep("\xfe", 500),
	}
	var ppNames []string
	for n := range ppStreams {
		ppNames = append(ppNames, n)
	}
	sort.Strings(ppNames)
	for _, n := range ppNames {
		add(n, "pp", "fin", ppStreams[n])
	}

	// MITM: certificates are minted for whatever host the CONNECT names
	for i, h := range []string{"exa\xffmple.invalid:443", strings.Repeat("a", 300) + ".invalid:443", "a..b.invalid:443", "[::1]:443", ":443",
		"*.example.invalid:443", "xn--80ak6aa92e.invalid:443", "UPPER.Invalid:443", "127.0.0.1:443", "a_b.invalid:443", "-dash.invalid:443",
		strings.Repeat("l.", 120) + "invalid:443", "exam ple.invalid:443", "%41.invalid:443"} {
		ss = append(ss, stream{name: fmt.Sprintf("mitm-cert-for-odd-host-%d", i), listener: "mitm", connect: h, end: "fin",
			chunks: [][]byte{[]byte("GET / HTTP/1.1\r\nHost: " + h + "\r\n\r\n")}})
	}
	ss = append(ss, stream{name: "mitm-inner-garbage", listener: "mitm", connect: originAddr, end: "fin", chunks: [][]byte{[]byte("\x00\xffgarbage\r\n\r\n")}})
	ss = append(ss, stream{name: "mitm-inner-invalid-utf8-host", listener: "mitm", connect: originAddr, end: "fin",
		chunks: [][]byte{[]byte("GET / HTTP/1.1\r\nHost: \xc3\x28.invalid\r\n\r\n")}})
	ss = append(ss, stream{name: "mitm-inner-absolute-http-url", listener: "mitm", connect: originAddr, end: "fin",
		chunks: [][]byte{[]byte("GET http://" + originAddr + "/probe HTTP/1.1\r\nHost: x\r\nX-Forwarded-Proto: http\r\n\r\n")}})

	// seeded mutations of a valid request
	r := rng.New(seed)
	n := 60
	if tier == "thorough" {
		n = 600
	}
	pool := []string{"\r", "\n", "\x00", ":", " ", "\t", "\xff", "%", "/", "HTTP/1.1", "Content-Length: 1", "Transfer-Encoding: chunked", "\r\n\r\n", "CONNECT ", "Host: ", "Upgrade: x", "Connection: Upgrade"}
	base := []string{
		valid,
		"POST http://" + originAddr + "/x HTTP/1.1\r\nHost: x\r\nContent-Length: 3\r\n\r\nabc",
		"CONNECT " + originAddr + " HTTP/1.1\r\nHost: " + originAddr + "\r\n\r\n",
		"POST http://" + originAddr + "/x HTTP/1.1\r\nHost: x\r\nTransfer-Encoding: chunked\r\n\r\n3\r\nabc\r\n0\r\n\r\n",
	}
	for i := 0; i < n; i++ {
		bs := []byte(base[r.Intn(len(base))])
		for m := 1 + r.Intn(4); m > 0; m-- {
			ins := []byte(pool[r.Intn(len(pool))])
			switch r.Intn(4) {
			case 0:
				p := r.Intn(len(bs) + 1)
				bs = append(bs[:p], append(append([]byte{}, ins...), bs[p:]...)...)
			case 1:
				if len(bs) > 2 {
					p := r.Intn(len(bs) - 1)
					q := p + 1 + r.Intn(len(bs)-p-1)
					bs = append(bs[:p], bs[q:]...)
				}
			case 2:
				if len(bs) > 0 {
					bs[r.Intn(len(bs))] = byte(r.Intn(256))
				}
			case 3:
				if len(bs) > 0 {
					bs = bs[:r.Intn(len(bs))]
				}
			}
		}
		end := []string{"fin", "rst"}[r.Intn(2)]
		switch r.Intn(4) {
		case 0:
			add(fmt.Sprintf("mutant-%d", i), "plain", end, bs)
		case 1:
			add(fmt.Sprintf("mutant-%d", i), "mitm", end, bs)
		case 2: // inside a TLS session with the TLS listener
			ss = append(ss, stream{name: fmt.Sprintf("mutant-%d", i), listener: "tls", viaTLS: true, end: "fin", chunks: [][]byte{bs}})
		default: // inside an intercepted (MITM) TLS session
			ss = append(ss, stream{name: fmt.Sprintf("mutant-%d", i), listener: "mitm", connect: originAddr, end: "fin", chunks: [][]byte{bs}})
		}
	}
	return ss
}

// hostile upstream replies: what the origin answers to a well-formed request
func hostileReplies() []struct {
	name  string
	reply [][]byte
	end   string
} {
	rep := func(s string, n int) []byte { return bytes.Repeat([]byte(s), n) }
	type hr = struct {
		name  string
		reply [][]byte
		end   string
	}
	base := []hr{
		{"origin-garbage", [][]byte{[]byte("\x00\x01\x02garbage\r\n\r\n")}, "fin"},
		{"origin-bad-status-line", [][]byte{[]byte("HTTP/1.1 abc OK\r\n\r\n")}, "fin"},
		{"origin-status-999999", [][]byte{[]byte("HTTP/1.1 999999 X\r\nContent-Length: 0\r\n\r\n")}, "fin"},
		{"origin-negative-cl", [][]byte{[]byte("HTTP/1.1 200 OK\r\nContent-Length: -1\r\n\r\nabc")}, "fin"},
		{"origin-two-cl", [][]byte{[]byte("HTTP/1.1 200 OK\r\nContent-Length: 3\r\nContent-Length: 5\r\n\r\nabcde")}, "fin"},
		{"origin-bad-chunk", [][]byte{[]byte("HTTP/1.1 200 OK\r\nTransfer-Encoding: chunked\r\n\r\nZZZ\r\nabc\r\n")}, "fin"},
		{"origin-huge-chunk-size", [][]byte{[]byte("HTTP/1.1 200 OK\r\nTransfer-Encoding: chunked\r\n\r\nfffffffffffffff\r\nabc")}, "rst"},
		{"origin-header-no-colon", [][]byte{[]byte("HTTP/1.1 200 OK\r\nBroken Header\r\n\r\n")}, "fin"},
		{"origin-2MiB-header", [][]byte{[]byte("HTTP/1.1 200 OK\r\nX-Big: "), rep("h", 2<<20), []byte("\r\n\r\n")}, "fin"},
		{"origin-100-continue-flood", [][]byte{rep("HTTP/1.1 100 Continue\r\n\r\n", 200), []byte("HTTP/1.1 200 OK\r\nContent-Length: 2\r\n\r\nok")}, "fin"},
		{"origin-nul-in-header", [][]byte{[]byte("HTTP/1.1 200 OK\r\nX-A: a\x00b\r\nContent-Length: 0\r\n\r\n")}, "fin"},
		{"origin-http09", [][]byte{[]byte("<html>hello</html>")}, "fin"},
		{"origin-101-unasked", [][]byte{[]byte("HTTP/1.1 101 Switching Protocols\r\nConnection: Upgrade\r\nUpgrade: x\r\n\r\n\x00\x01\x02")}, "fin"},
		{"origin-204-with-body", [][]byte{[]byte("HTTP/1.1 204 No Content\r\nContent-Length: 5\r\n\r\nhello")}, "fin"},
		// status lines without a reason phrase (net/http: Status == "503"), with an empty one, and with odd ones; the default
		// HTTP log mode (errors) formats every relayed reply with status >= 500, mode body formats all
		{"origin-bare-status-503", [][]byte{[]byte("HTTP/1.1 503\r\nContent-Length: 2\r\n\r\nno")}, "fin"},
		{"origin-bare-status-599", [][]byte{[]byte("HTTP/1.1 599\r\nContent-Length: 0\r\n\r\n")}, "fin"},
		{"origin-bare-status-500-chunked", [][]byte{[]byte("HTTP/1.1 500\r\nTransfer-Encoding: chunked\r\n\r\n2\r\nno\r\n0\r\n\r\n")}, "fin"},
		{"origin-bare-status-200", [][]byte{[]byte("HTTP/1.1 200\r\nContent-Length: 2\r\n\r\nok")}, "fin"},
		{"origin-empty-reason-502", [][]byte{[]byte("HTTP/1.1 502 \r\nContent-Length: 0\r\n\r\n")}, "fin"},
		{"origin-empty-reason-200", [][]byte{[]byte("HTTP/1.1 200 \r\nContent-Length: 2\r\n\r\nok")}, "fin"},
		{"origin-reason-only-spaces-504", [][]byte{[]byte("HTTP/1.1 504    \r\nContent-Length: 0\r\n\r\n")}, "fin"},
		{"origin-http10-bare-status-500", [][]byte{[]byte("HTTP/1.0 500\r\n\r\nclose-delimited")}, "fin"},
		{"origin-four-digit-status", [][]byte{[]byte("HTTP/1.1 5030 Nope\r\nContent-Length: 0\r\n\r\n")}, "fin"},
		{"origin-two-digit-status", [][]byte{[]byte("HTTP/1.1 50\r\nContent-Length: 0\r\n\r\n")}, "fin"},
		{"origin-extra-after-body", [][]byte{[]byte("HTTP/1.1 200 OK\r\nContent-Length: 2\r\n\r\nokHTTP/1.1 200 OK\r\nContent-Length: 4\r\n\r\nevil")}, "fin"},
	}
	// reply heads that must not carry a body (1xx, 101, 204, 304, replies to HEAD) combined with header fields that
	// announce one or select a special writer in the proxy; names starting with "headreq-" are requested with HEAD
	hdrs := []struct{ n, h string }{
		{"event-stream", "Content-Type: text/event-stream\r\n"},
		{"chunked", "Transfer-Encoding: chunked\r\n"},
		{"length", "Content-Length: 5\r\n"},
		{"upgrade", "Connection: Upgrade\r\nUpgrade: vfproto\r\n"},
		{"event-stream-chunked", "Content-Type: text/event-stream\r\nTransfer-Encoding: chunked\r\n"},
		{"event-stream-upgrade", "Content-Type: text/event-stream\r\nConnection: Upgrade\r\nUpgrade: vfproto\r\n"},
		{"trailer", "Transfer-Encoding: chunked\r\nTrailer: X-T\r\n"},
	}
	sts := []struct {
		n    string
		line string
		head bool
		then string // what follows a 1xx interim head
	}{
		{"101", "HTTP/1.1 101 Switching Protocols\r\n", false, ""},
		{"100", "HTTP/1.1 100 Continue\r\n", false, "HTTP/1.1 200 OK\r\nContent-Length: 2\r\n\r\nok"},
		{"103", "HTTP/1.1 103 Early Hints\r\n", false, "HTTP/1.1 200 OK\r\nContent-Length: 2\r\n\r\nok"},
		{"199", "HTTP/1.1 199 Whatever\r\n", false, ""},
		{"204", "HTTP/1.1 204 No Content\r\n", false, ""},
		{"304", "HTTP/1.1 304 Not Modified\r\n", false, ""},
		{"headreq-200", "HTTP/1.1 200 OK\r\n", true, ""},
		{"headreq-404", "HTTP/1.1 404 Not Found\r\n", true, ""},
	}
	var out []hr
	for _, st := range sts {
		for _, h := range hdrs {
			for _, tail := range []struct{ n, b string }{{"", ""}, {"-with-bytes", "5\r\nhello\r\n0\r\n\r\n"}} {
				name := fmt.Sprintf("origin-head-%s-%s%s", st.n, h.n, tail.n)
				if st.head {
					name = "headreq-" + name
				}
				out = append(out, hr{name, [][]byte{[]byte(st.line + h.h + "\r\n" + tail.b + st.then)}, "fin"})
			}
		}
	}
	return append(base, out...)
}

// RunHostile runs the experiment.  only != "" restricts it to one stream name.
func RunHostile(self, tier string, seed uint64, only string) []HostileResult {
	var out []HostileResult
	// probe / hostile origin (in this process)
	var replyMu sync.Mutex
	replyFor := map[string]struct {
		reply [][]byte
		end   string
	}{}
	origin, err := NewPeer(func(c net.Conn, n int) {
		for {
			head, err := ReadHead(c, 10*time.Second)
			if err != nil {
				c.Close()
				return
			}
			line := string(head)
			if i := strings.Index(line, "\r\n"); i >= 0 {
				line = line[:i]
			}
			if i := strings.Index(line, "/hostile/"); i >= 0 {
				name := strings.Fields(line[i+9:])[0]
				replyMu.Lock()
				hr, ok := replyFor[name]
				replyMu.Unlock()
				if ok {
					for _, b := range hr.reply {
						c.Write(b)
					}
					time.Sleep(10 * time.Millisecond)
					if hr.end == "rst" {
						Reset(c)
					} else {
						c.Close()
					}
					return
				}
			}
			c.Write([]byte("HTTP/1.1 200 OK\r\nContent-Length: 8\r\n\r\nprobe-ok"))
		}
	})
	if err != nil {
		return []HostileResult{{Name: "setup", Note: "origin: " + err.Error()}}
	}
	defer origin.Close()

	ch, err := startChild(self, 0, 2*time.Second)
	if err != nil {
		return []HostileResult{{Name: "setup", Note: "child: " + err.Error(), Crashed: true}}
	}
	restart := func() {
		ch.stop()
		ch, err = startChild(self, 0, 2*time.Second)
	}
	addrOf := func(l string) string {
		switch l {
		case "tls":
			return ch.info.TLS
		case "mitm":
			return ch.info.MITM
		case "pp":
			return ch.info.PP
		case "bodylog":
			return ch.info.BodyLog
		case "upbh":
			return ch.info.UpBH
		case "socksbh":
			return ch.info.SocksBH
		}
		return ch.info.Plain
	}
	probe := func(l string) (bool, float64, string) {
		t0 := time.Now()
		c, err := net.DialTimeout("tcp", addrOf(l), 2*time.Second)
		if err != nil {
			return false, 0, "dial: " + err.Error()
		}
		defer c.Close()
		var rw net.Conn = c
		if l == "tls" {
			tc, err := TLSClient(c, "127.0.0.1")
			if err != nil {
				return false, 0, "tls: " + err.Error()
			}
			rw = tc
		}
		pre := ""
		if l == "pp" {
			pre = "PROXY TCP4 192.0.2.1 192.0.2.2 1234 80\r\n"
		}
		rw.Write([]byte(pre + "GET http://" + origin.Addr + "/probe HTTP/1.1\r\nHost: " + origin.Addr + "\r\nConnection: close\r\n\r\n"))
		co := ReadResponse(rw, false, 5*time.Second)
		ok := co.P.Verdict == VComplete && co.P.Status == 200 && string(co.P.Body) == "probe-ok"
		txt := ""
		if !ok {
			txt = fmt.Sprintf("%s %d %q end=%s", co.P.Verdict, co.P.Status, truncate(co.Raw, 80), co.End)
		}
		return ok, float64(time.Since(t0).Microseconds()) / 1000, txt
	}

	wantOf := map[string]int{}
	run := func(name, listener string, sent int, drive func() (string, string, int)) {
		if only != "" && only != name+"@"+listener && only != name {
			return
		}
		if ch != nil && !ch.alive() && len(out) > 0 && !out[len(out)-1].Crashed {
			// the child died after the previous stream had been probed: that stream is the cause
			out[len(out)-1].Crashed = true
			out[len(out)-1].ExitText = "(died after the probe) " + ch.exitText()
		}
		if ch == nil || !ch.alive() {
			restart()
			if err != nil {
				out = append(out, HostileResult{Name: name, Listener: listener, Crashed: true, Note: "child could not be restarted: " + err.Error()})
				return
			}
		}
		r := HostileResult{Name: name, Listener: listener, Sent: sent, RSSBefore: rssKB(ch.info.Pid), Want: wantOf[name+"@"+listener]}
		t0 := time.Now()
		r.Reply, r.Verdict, r.Status = drive()
		time.Sleep(5 * time.Millisecond)
		r.Crashed = !ch.alive()
		if r.Crashed {
			r.ExitText = ch.exitText()
		} else {
			pl := listener
			if pl == "origin" || pl == "upbh" || pl == "socksbh" {
				pl = "plain" // same process; a request through the blackholed upstream could not be served
			}
			r.ProbeOK, r.ProbeMS, r.ProbeText = probe(pl)
			if !r.ProbeOK && !ch.alive() {
				r.Crashed = true
				r.ExitText = ch.exitText()
			}
			r.RSSAfter = rssKB(ch.info.Pid)
		}
		r.Seconds = time.Since(t0).Seconds()
		out = append(out, r)
	}

	streams := hostileStreams(tier, seed, origin.Addr)
	// dials that are still pending when the context they were given ends (connect timeout): 504, and the process lives
	if ch.info.BHErr != "" {
		out = append(out, HostileResult{Name: "blackhole-setup", Listener: "upbh", Note: ch.info.BHErr, ProbeOK: true})
	} else {
		for _, l := range []string{"upbh", "socksbh"} {
			streams = append(streams,
				stream{name: "connect-dial-pending-at-connect-timeout", listener: l, end: "hold", want: 504, waitReply: true,
					chunks: [][]byte{[]byte("CONNECT example.invalid:443 HTTP/1.1\r\nHost: example.invalid:443\r\n\r\n")}},
				stream{name: "connect-dial-pending-client-gone", listener: l, end: "rst", pause: 100 * time.Millisecond, settle: 350 * time.Millisecond,
					chunks: [][]byte{[]byte("CONNECT example.invalid:443 HTTP/1.1\r\nHost: example.invalid:443\r\n\r\n")}})
		}
	}
	for _, s := range streams {
		wantOf[s.name+"@"+s.listener] = s.want
	}
	for _, s := range streams {
		s := s
		total := 0
		for _, b := range s.chunks {
			total += len(b)
		}
		run(s.name, s.listener, total, func() (string, string, int) {
			c, err := net.DialTimeout("tcp", addrOf(s.listener), 2*time.Second)
			if err != nil {
				return "dial: " + err.Error(), "", 0
			}
			var rw net.Conn = c
			if s.viaTLS {
				tc, err := TLSClient(c, "127.0.0.1")
				if err != nil {
					c.Close()
					return "tls: " + err.Error(), "", 0
				}
				rw = tc
			}
			if s.connect != "" {
				c.Write([]byte("CONNECT " + s.connect + " HTTP/1.1\r\nHost: " + s.connect + "\r\n\r\n"))
				co := ReadResponse(c, true, 4*time.Second)
				if co.P.Verdict != VComplete || co.P.Status != 200 {
					c.Close()
					return "connect refused: " + truncate(co.Raw, 80), co.P.Verdict, co.P.Status
				}
				tc, err := TLSClient(c, "odd.invalid")
				if err != nil {
					c.Close()
					return "mitm handshake: " + err.Error(), "", 0
				}
				rw = tc
			}
			// read concurrently so that the proxy is never blocked on writing to us
			got := make(chan ClientObs, 1)
			go func() { got <- ReadResponse(rw, false, 4*time.Second) }()
			for _, b := range s.chunks {
				rw.SetWriteDeadline(time.Now().Add(3 * time.Second))
				if _, err := rw.Write(b); err != nil {
					break
				}
				if s.pause > 0 {
					time.Sleep(s.pause)
				}
			}
			switch s.end {
			case "rst":
				time.Sleep(5 * time.Millisecond)
				Reset(c)
				time.Sleep(s.settle)
			case "hold":
				if s.waitReply {
					co := <-got
					c.Close()
					return truncate(co.Raw, 120), co.P.Verdict, co.P.Status
				}
				// keep the connection open while the probe runs; the proxy's read-header timeout (2 s) ends it
				go func() { time.Sleep(3 * time.Second); c.Close() }()
				return "(held open)", "", 0
			default:
				if tc, ok := c.(*net.TCPConn); ok && !s.viaTLS && s.connect == "" {
					tc.CloseWrite()
				} else {
					rw.Close()
				}
			}
			co := <-got
			c.Close()
			return truncate(co.Raw, 120), co.P.Verdict, co.P.Status
		})
	}
	for _, hr := range hostileReplies() {
		hr := hr
		replyMu.Lock()
		replyFor[hr.name] = struct {
			reply [][]byte
			end   string
		}{hr.reply, hr.end}
		replyMu.Unlock()
		via := []string{"origin"}
		if strings.Contains(hr.name, "-status") || strings.Contains(hr.name, "-reason-") {
			via = append(via, "bodylog") // the same reply relayed by the proxy in HTTP log mode body
		}
		for _, l := range via {
			l := l
			run(hr.name, l, 0, func() (string, string, int) {
				addr := ch.info.Plain
				if l == "bodylog" {
					addr = ch.info.BodyLog
				}
				c, err := net.DialTimeout("tcp", addr, 2*time.Second)
				if err != nil {
					return "dial: " + err.Error(), "", 0
				}
				defer c.Close()
				method, headOnly := "GET", false
				if strings.HasPrefix(hr.name, "headreq-") {
					method, headOnly = "HEAD", true
				}
				c.Write([]byte(method + " http://" + origin.Addr + "/hostile/" + hr.name + " HTTP/1.1\r\nHost: " + origin.Addr + "\r\n\r\n"))
				co := ReadResponse(c, headOnly, 3*time.Second)
				return truncate(co.Raw, 120), co.P.Verdict, co.P.Status
			})
		}
	}
	// seeded mutations of well-formed origin replies
	{
		r := rng.New(seed ^ 0x5eed)
		nrep := 40
		if tier == "thorough" {
			nrep = 400
		}
		bases := []string{
			"HTTP/1.1 200 OK\r\nContent-Length: 5\r\nContent-Type: text/plain\r\n\r\nhello",
			"HTTP/1.1 200 OK\r\nTransfer-Encoding: chunked\r\nTrailer: X-T\r\n\r\n5\r\nhello\r\n0\r\nX-T: v\r\n\r\n",
			"HTTP/1.1 304 Not Modified\r\nETag: \"x\"\r\n\r\n",
			"HTTP/1.1 101 Switching Protocols\r\nConnection: Upgrade\r\nUpgrade: x\r\n\r\n",
			"HTTP/1.1 200 OK\r\nContent-Type: text/event-stream\r\n\r\ndata: 1\n\ndata: 2\n\n",
			"HTTP/1.0 200 OK\r\nConnection: keep-alive\r\nContent-Length: 2\r\n\r\nok",
		}
		pool := []string{"\r", "\n", "\x00", ":", " ", "\xff", "-1", "999999999999999999999", "Content-Length: 7\r\n", "Transfer-Encoding: chunked\r\n", "\r\n\r\n", "HTTP/1.1 100 Continue\r\n\r\n", "ffffffffffffffff\r\n", "Connection: close\r\n", "Content-Encoding: gzip\r\n"}
		for i := 0; i < nrep; i++ {
			bs := []byte(bases[r.Intn(len(bases))])
			for m := 1 + r.Intn(3); m > 0; m-- {
				ins := []byte(pool[r.Intn(len(pool))])
				switch r.Intn(4) {
				case 0:
					p := r.Intn(len(bs) + 1)
					bs = append(bs[:p], append(append([]byte{}, ins...), bs[p:]...)...)
				case 1:
					if len(bs) > 2 {
						p := r.Intn(len(bs) - 1)
						q := p + 1 + r.Intn(len(bs)-p-1)
						bs = append(bs[:p], bs[q:]...)
					}
				case 2:
					if len(bs) > 0 {
						bs[r.Intn(len(bs))] = byte(r.Intn(256))
					}
				case 3:
					if len(bs) > 0 {
						bs = bs[:r.Intn(len(bs))]
					}
				}
			}
			name := fmt.Sprintf("origin-mutant-%d", i)
			end := []string{"fin", "rst"}[r.Intn(2)]
			replyMu.Lock()
			replyFor[name] = struct {
				reply [][]byte
				end   string
			}{[][]byte{bs}, end}
			replyMu.Unlock()
			run(name, "origin", len(bs), func() (string, string, int) {
				c, err := net.DialTimeout("tcp", ch.info.Plain, 2*time.Second)
				if err != nil {
					return "dial: " + err.Error(), "", 0
				}
				defer c.Close()
				c.Write([]byte("GET http://" + origin.Addr + "/hostile/" + name + " HTTP/1.1\r\nHost: " + origin.Addr + "\r\n\r\n"))
				co := ReadResponse(c, false, 3*time.Second)
				return truncate(co.Raw, 120), co.P.Verdict, co.P.Status
			})
		}
	}
	if ch != nil {
		time.Sleep(20 * time.Millisecond)
		if !ch.alive() && len(out) > 0 && !out[len(out)-1].Crashed {
			out[len(out)-1].Crashed = true
			out[len(out)-1].ExitText = "(died after the probe) " + ch.exitText()
		}
		ch.stop()
	}

	// a burst of connections exhausts the child's descriptor table: accept fails with EMFILE (temporary, not a timeout)
	if only == "" || strings.HasPrefix(only, "accept-storm") {
		out = append(out, acceptStorm(self, origin.Addr))
	}
	// endless request-head line against a memory-capped child
	if only == "" || strings.HasPrefix(only, "endless-request-line") {
		budget, capBudget, limit := 64<<20, 256<<20, 20*time.Second
		if tier == "thorough" {
			budget, capBudget, limit = 512<<20, 4<<30, 75*time.Second
		}
		out = append(out, endlessLine(self, "endless-request-line-uncapped", 0, budget, limit, origin.Addr))
		// 2 GiB address space (the Go runtime of this binary does not start below ~1.2 GiB)
		out = append(out, endlessLine(self, "endless-request-line-capped-2GiB-AS", 2<<30, capBudget, limit, origin.Addr))
	}
	return out
}

func truncate(b []byte, n int) string {
	if len(b) > n {
		b = b[:n]
	}
	return string(b)
}

// endlessLine sends a request line that never ends, with forwarder's DEFAULT
// read-header timeout (1 minute).  capBytes = 0: no memory cap, the child's
// resident memory is sampled while budget bytes are sent.  capBytes > 0: the
// child's address space is capped (RLIMIT_AS) and bytes are sent until the
// budget is used up or the child dies.
func endlessLine(self, name string, capBytes int64, budget int, limit time.Duration, originAddr string) HostileResult {
	r := HostileResult{Name: name, Listener: "plain"}
	ch, err := startChild(self, capBytes, 0)
	if err != nil {
		r.Note = "child: " + err.Error()
		r.Crashed = true
		return r
	}
	defer ch.stop()
	time.Sleep(50 * time.Millisecond)
	r.RSSBefore = rssKB(ch.info.Pid)
	c, err := net.DialTimeout("tcp", ch.info.Plain, 2*time.Second)
	if err != nil {
		r.Note = "dial: " + err.Error()
		return r
	}
	defer c.Close()
	t0 := time.Now()
	c.Write([]byte("GET http://" + originAddr + "/"))
	block := bytes.Repeat([]byte("a"), 1<<20)
	for r.Sent < budget && time.Since(t0) < limit && ch.alive() {
		c.SetWriteDeadline(time.Now().Add(5 * time.Second))
		n, err := c.Write(block)
		r.Sent += n
		if k := rssKB(ch.info.Pid); k > r.RSSPeak {
			r.RSSPeak = k
		}
		if err != nil {
			r.Note = "write stopped: " + err.Error()
			break
		}
	}
	time.Sleep(100 * time.Millisecond)
	if k := rssKB(ch.info.Pid); k > r.RSSPeak {
		r.RSSPeak = k
	}
	r.RSSAfter = rssKB(ch.info.Pid)
	r.Seconds = time.Since(t0).Seconds()
	r.Crashed = !ch.alive()
	if r.Crashed {
		r.ExitText = ch.exitText()
	} else {
		// is the proxy still serving others while it buffers?
		pc, err := net.DialTimeout("tcp", ch.info.Plain, 2*time.Second)
		if err == nil {
			pc.Write([]byte("GET http://" + originAddr + "/probe HTTP/1.1\r\nHost: " + originAddr + "\r\nConnection: close\r\n\r\n"))
			co := ReadResponse(pc, false, 5*time.Second)
			r.ProbeOK = co.P.Verdict == VComplete && co.P.Status == 200
			pc.Close()
		}
	}
	return r
}

// acceptStorm: the child's descriptor limit is 64; 200 clients connect and stay silent, so Accept keeps failing with
// "too many open files"; the clients leave; a fresh client must be served (the accept loop backs off at most 1 s).
func acceptStorm(self, originAddr string) HostileResult {
	r := HostileResult{Name: "accept-storm-descriptor-table-full", Listener: "plain"}
	ch, err := startChildN(self, 0, 2*time.Second, 64)
	if err != nil {
		r.Note = "child: " + err.Error()
		r.Crashed = true
		return r
	}
	defer ch.stop()
	t0 := time.Now()
	var cs []net.Conn
	for i := 0; i < 200; i++ {
		c, err := net.DialTimeout("tcp", ch.info.Plain, 500*time.Millisecond)
		if err != nil {
			break
		}
		cs = append(cs, c)
	}
	r.Sent = len(cs)
	time.Sleep(400 * time.Millisecond)
	for _, c := range cs {
		c.Close()
	}
	r.Crashed = !ch.alive()
	if r.Crashed {
		r.ExitText = ch.exitText()
		return r
	}
	for try := 0; try < 8 && !r.ProbeOK; try++ {
		time.Sleep(300 * time.Millisecond)
		pc, err := net.DialTimeout("tcp", ch.info.Plain, time.Second)
		if err != nil {
			r.ProbeText = "dial: " + err.Error()
			continue
		}
		pc.Write([]byte("GET http://" + originAddr + "/probe HTTP/1.1\r\nHost: " + originAddr + "\r\nConnection: close\r\n\r\n"))
		co := ReadResponse(pc, false, 2*time.Second)
		r.ProbeOK = co.P.Verdict == VComplete && co.P.Status == 200
		if !r.ProbeOK {
			r.ProbeText = fmt.Sprintf("%s %d %q end=%s", co.P.Verdict, co.P.Status, truncate(co.Raw, 80), co.End)
		}
		pc.Close()
	}
	if !ch.alive() {
		r.Crashed = true
		r.ExitText = ch.exitText()
	}
	r.Seconds = time.Since(t0).Seconds()
	return r
}

var _ = tls.VersionTLS12
