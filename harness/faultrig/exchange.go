package faultrig

import (
	"crypto/tls"
	"fmt"
	"net"
	"strings"
	"sync/atomic"
	"time"

	"verifharness/coqfmt"
)

// Ex is one exchange of a case as the model sees it.
type Ex struct {
	Val      Val    `json:"val"`
	Method   string `json:"method"`    // method of the request the client sent
	UpStatus int    `json:"up_status"` // status scripted at the origin / upstream proxy (0 if none)
	Feat     Feat   `json:"feat"`      // features of the error the classifier is expected to see (if any)
	Seen     bool   `json:"seen"`      // the client read the reply of this exchange to its end
	Client   int    `json:"client"`    // status the client parsed (0 = no complete well-formed response)
	Verdict  string `json:"verdict"`
	Why      string `json:"why"`
	Raw      []byte `json:"-"`      // every byte the client received for this exchange
	RawEOF   bool   `json:"raw_eof"` // the client's stream ended with an orderly FIN while reading this reply
	ErrHdr   string `json:"err_hdr"`
}

// ExObs is the observation of one case.
type ExObs struct {
	Name     string             `json:"name"`
	Leaf     string             `json:"leaf"`
	Class    string             `json:"class"`
	Exs      []Ex               `json:"exs"`
	Trace    []TraceEv          `json:"trace"`
	Closed   bool               `json:"closed"`      // proxy closed the client connection after the last reply
	CheckEnd bool               `json:"check_end"`   // Closed is meaningful (the client did not close first)
	InFlight map[string]float64 `json:"in_flight"`   // method -> gauge
	Total    map[string]float64 `json:"total"`       // "code|method" -> counter
	LAct     float64            `json:"listener_active"`
	LTot     float64            `json:"listener_total"`
	DAct     float64            `json:"dialer_active"`
	DTot     float64            `json:"dialer_total"`
	UpOpen   int                `json:"upstream_open"` // connections a scripted upstream accepted from the proxy that are still open at quiescence (cases that watch them)
	Handler  bool               `json:"handler"`       // driven through martian's http.Handler on net/http's server
	Shutdown bool               `json:"shutdown"` // the case shut the proxy down while the exchange was in progress
	Retried  bool               `json:"retried"`
	Err      string             `json:"err"` // harness-level problem (rig could not be driven as planned)
	Raw      string             `json:"raw"` // first bytes of the last reply (diagnostics)
}

// Coq renders the observation as a G12.Check.obs record.
func (o *ExObs) Coq() string {
	exs := make([]string, len(o.Exs))
	for i, e := range o.Exs {
		exs[i] = fmt.Sprintf("(mkex %s %s %d %s %s %d)", e.Val.Coq(), coqfmt.Str(e.Method), e.UpStatus, e.Feat.Coq(),
			coqfmt.Bool(e.Seen), e.Client)
	}
	return fmt.Sprintf("{| o_exs := %s;\n   o_trace := %s;\n   o_closed := %s; o_check_end := %s;\n   o_inflight := %s;\n   o_total := %s;\n   o_lact := %s; o_dact := %s; o_upopen := %s; o_harness_ok := %s; o_handler := %s; o_shutdown := %s |}",
		coqfmt.List("ex", exs), CoqTrace(o.Trace), coqfmt.Bool(o.Closed), coqfmt.Bool(o.CheckEnd),
		CoqGauge(o.InFlight), CoqGauge(o.Total), coqfmt.Z(int64(o.LAct)), coqfmt.Z(int64(o.DAct)), coqfmt.Z(int64(o.UpOpen)), coqfmt.Bool(o.Err == ""), coqfmt.Bool(o.Handler), coqfmt.Bool(o.Shutdown))
}

// ExCase is a named way of driving the proxy through one leaf.
type ExCase struct {
	Name string
	Leaf string
	// Class is the fault class of the property statement this case belongs to (C12): "connfail" (502),
	// "tlsfail" (502), "timeout" (504), "rejected" (the upstream proxy's status), "other" (5xx), "" none.
	Class string
	Opt  Options
	Run  func(e *Env)
}

// Env is what a case script works with.
type Env struct {
	Rig   *Rig
	O     *ExObs
	peers []*Peer
	conns []net.Conn
	fail  string
	pending *Options
	upOpen  atomic.Int32 // see WatchedUpstream
}

// WatchedUpstream wraps the handler of a scripted upstream proxy / origin: the connections it accepted from the proxy
// are counted until the proxy closes them (the handler must return only when its read side has seen the end).
func (e *Env) WatchedUpstream(h func(c net.Conn, n int)) func(c net.Conn, n int) {
	return func(c net.Conn, n int) {
		e.upOpen.Add(1)
		h(c, n)
		// whatever the script did: wait for the proxy's side to end
		c.SetReadDeadline(time.Now().Add(3 * time.Second))
		buf := make([]byte, 512)
		for {
			if _, err := c.Read(buf); err != nil {
				if ne, ok := err.(net.Error); !ok || !ne.Timeout() {
					e.upOpen.Add(-1)
				}
				break
			}
		}
		c.Close()
	}
}

// Failf records a harness-level problem.
func (e *Env) Failf(format string, a ...any) {
	if e.fail == "" {
		e.fail = fmt.Sprintf(format, a...)
	}
}

// Peer starts a scripted peer that lives until the end of the case.
func (e *Env) Peer(h func(c net.Conn, n int)) *Peer {
	p, err := NewPeer(h)
	if err != nil {
		e.Failf("peer: %v", err)
		return &Peer{Addr: "127.0.0.1:1"}
	}
	e.peers = append(e.peers, p)
	return p
}

// Client opens a raw client connection to the proxy.
func (e *Env) Client() net.Conn {
	c, err := Dial(e.Rig.Addr)
	if err != nil {
		e.Failf("dial proxy: %v", err)
		c1, c2 := net.Pipe()
		c2.Close()
		return c1
	}
	e.conns = append(e.conns, c)
	return c
}

// Do sends a request and reads one response; it fills the client part of ex.
func (e *Env) Do(c net.Conn, req string, headOnly bool, ex *Ex) ClientObs {
	if _, err := c.Write([]byte(req)); err != nil {
		e.Failf("client write: %v", err)
	}
	co := ReadResponse(c, headOnly, 5*time.Second)
	ex.Seen = true
	ex.Raw, ex.RawEOF = co.Raw, co.End == "eof"
	ex.ErrHdr, _ = co.P.Get("X-Forwarder-Error")
	ex.Verdict, ex.Why = co.P.Verdict, co.P.Why
	if co.P.Verdict == VComplete {
		ex.Client = co.P.Status
	}
	raw := co.Raw
	if len(raw) > 160 {
		raw = raw[:160]
	}
	e.O.Raw = string(raw)
	if co.End == "timeout" {
		e.Failf("client timed out waiting for the reply")
	}
	return co
}

// End observes whether the proxy closes the connection after the reply.
func (e *Env) End(c net.Conn, co ClientObs) {
	e.O.CheckEnd = true
	if co.End == "eof" || co.End == "reset" {
		e.O.Closed = true
		return
	}
	st, _ := ConnState(c, 40*time.Millisecond)
	e.O.Closed = st == "closed" || st == "reset"
}

// RunExchangeCase runs one case against a fresh proxy.  A case that ran into one of the harness' own time limits
// (a loaded machine, not an observation of the proxy) is run once more.
func RunExchangeCase(cs ExCase) *ExObs {
	o := runExchangeCaseOnce(cs)
	if strings.Contains(o.Err, "timed out") || strings.Contains(o.Err, "dial proxy") {
		o2 := runExchangeCaseOnce(cs)
		o2.Retried = true
		return o2
	}
	return o
}

func runExchangeCaseOnce(cs ExCase) *ExObs {
	o := &ExObs{Name: cs.Name, Leaf: cs.Leaf, Class: cs.Class, Handler: cs.Opt.Handler}
	opt := cs.Opt
	e := &Env{O: o}
	defer func() {
		for _, p := range e.peers {
			p.Close()
		}
	}()
	// peers may have to exist before the proxy (upstream address): cases create
	// them in Run via e.Peer and pass the address through Opt by the helper below.
	if cs.Run == nil {
		o.Err = "no script"
		return o
	}
	// the script creates the rig itself through e.Start(opt)
	e.pending = &opt
	cs.Run(e)
	if e.Rig == nil {
		o.Err = "script did not start the proxy: " + e.fail
		return o
	}
	// quiescence: client connections closed, every request read has been reported
	for _, c := range e.conns {
		c.Close()
	}
	reads := 0
	for _, ev := range e.Rig.Events() {
		if ev.Kind == "read" && ev.HasReq {
			reads++
		}
	}
	e.Rig.WaitEvents("wrote", reads, 1500*time.Millisecond)
	e.Rig.CloseIdle()
	m := e.Rig.WaitQuiescent(1500 * time.Millisecond)
	o.Trace = e.Rig.Events()
	ns := e.Rig.NS
	o.InFlight = map[string]float64{}
	for l, v := range m.Series(ns + "_http_requests_in_flight") {
		o.InFlight[LabelValue(l, "method")] += v
	}
	o.Total = map[string]float64{}
	for l, v := range m.Series(ns + "_http_requests_total") {
		o.Total[LabelValue(l, "code")+"|"+LabelValue(l, "method")] += v
	}
	o.LAct = m.AbsSum(ns + "_listener_cx_active") // every series, not their sum
	o.LTot = m.Sum(ns + "_listener_cx_total")
	o.DAct = m.AbsSum(ns + "_dialer_cx_active")
	o.DTot = m.Sum(ns + "_dialer_cx_total")
	for w := time.Now().Add(time.Second); e.upOpen.Load() > 0 && time.Now().Before(w); {
		time.Sleep(2 * time.Millisecond)
	}
	o.UpOpen = int(e.upOpen.Load())
	e.Rig.Close()
	// cases whose write outcome is decided by a race (client already gone or not):
	// take it from the observed completion event (err set or not)
	for i := range o.Exs {
		if o.Exs[i].Val.W == 9 {
			o.Exs[i].Val.W = 0
			for _, ev := range o.Trace {
				if ev.Kind == "wrote" && ev.Err != "" {
					o.Exs[i].Val.W = 1
				}
			}
		}
	}
	o.Err = e.fail
	if o.Handler {
		o.CheckEnd = false
	}
	return o
}

// ---- helpers used by the case scripts ------------------------------------

// Start creates the proxy (after the peers it depends on exist).
func (e *Env) Start(mod func(*Options)) {
	opt := *e.pending
	if mod != nil {
		mod(&opt)
	}
	r, err := New(opt)
	if err != nil {
		e.Failf("start proxy: %v", err)
		return
	}
	e.Rig = r
}

// Reply builds a response head + body.
func Reply(status int, reason string, hdr []string, body string) string {
	var sb strings.Builder
	fmt.Fprintf(&sb, "HTTP/1.1 %03d %s\r\n", status, reason)
	for _, h := range hdr {
		sb.WriteString(h)
		sb.WriteString("\r\n")
	}
	sb.WriteString("\r\n")
	sb.WriteString(body)
	return sb.String()
}

// ReplyCL builds a Content-Length framed response.
func ReplyCL(status int, reason string, body string) string {
	return Reply(status, reason, []string{"Content-Type: text/plain", fmt.Sprintf("Content-Length: %d", len(body))}, body)
}

// OriginReplying reads one request head per connection and writes reply; then
// "keep" waits for the peer to close, "fin" closes, "rst" resets.
func OriginReplying(reply string, then string) func(c net.Conn, n int) {
	return func(c net.Conn, n int) {
		for {
			if _, err := ReadHead(c, 5*time.Second); err != nil {
				c.Close()
				return
			}
			c.Write([]byte(reply))
			switch then {
			case "fin":
				c.Close()
				return
			case "rst":
				Reset(c)
				return
			}
		}
	}
}

// Echo copies everything back until EOF, then closes.
func Echo(c net.Conn) {
	buf := make([]byte, 4096)
	for {
		n, err := c.Read(buf)
		if n > 0 {
			c.Write(buf[:n])
		}
		if err != nil {
			c.Close()
			return
		}
	}
}

// TLSClient performs a client handshake over c trusting anything.
func TLSClient(c net.Conn, serverName string) (*tls.Conn, error) {
	tc := tls.Client(c, &tls.Config{InsecureSkipVerify: true, ServerName: serverName, NextProtos: []string{"http/1.1"}}) //nolint:gosec // test rig
	tc.SetDeadline(time.Now().Add(5 * time.Second))
	err := tc.Handshake()
	tc.SetDeadline(time.Time{})
	return tc, err
}
