package faultrig

import (
	"context"
	"fmt"
	"net"
	"sync"
	"sync/atomic"
	"time"

	"github.com/prometheus/client_golang/prometheus"
	"github.com/saucelabs/forwarder"
	"github.com/saucelabs/forwarder/conntrack"
)

// CtObs is one concurrent-close experiment on the real conntrack / Listener / Dialer code.
type CtObs struct {
	Kind       string  `json:"kind"` // "builder" | "listener" | "dialer"
	Track      bool    `json:"track"`
	Closers    int     `json:"closers"`     // goroutines closing each connection at the same time
	Conns      int     `json:"conns"`       // connections in the experiment
	OnClose    int     `json:"on_close"`    // builder: OnClose invocations (sum over conns); listener/dialer: cx_total - cx_active
	UnderClose int     `json:"under_close"` // builder: Close calls that reached the underlying connection
	Active     float64 `json:"active"`      // listener/dialer: active gauge after all closes
	Total      float64 `json:"total"`       // listener/dialer: total counter
	MaxPerConn int     `json:"max_per_conn"`
	MinPerConn int     `json:"min_per_conn"`
}

// Coq renders the observation as G12.Check.ctobs.
func (c CtObs) Coq() string {
	kind := map[string]int{"builder": 0, "listener": 1, "dialer": 2}[c.Kind]
	return fmt.Sprintf("(mkct %d %v %d %d %d %d (%d)%%Z %d %d %d)", kind, c.Track, c.Closers, c.Conns, c.OnClose, c.UnderClose,
		int64(c.Active), int64(c.Total), c.MinPerConn, c.MaxPerConn)
}

type countConn struct {
	net.Conn
	closes *atomic.Int64
}

func (c *countConn) Close() error {
	c.closes.Add(1)
	return c.Conn.Close()
}

func closeConcurrently(c net.Conn, n int) {
	var wg sync.WaitGroup
	start := make(chan struct{})
	for i := 0; i < n; i++ {
		wg.Add(1)
		go func() {
			defer wg.Done()
			<-start
			c.Close()
		}()
	}
	close(start)
	wg.Wait()
}

// RunConntrack runs the experiments.
func RunConntrack(tier string, seed uint64) []CtObs {
	reps := 40
	if tier == "thorough" {
		reps = 400
	}
	var out []CtObs
	for _, track := range []bool{false, true} {
		for _, n := range []int{1, 2, 3, 16} {
			o := CtObs{Kind: "builder", Track: track, Closers: n, Conns: reps, MinPerConn: 1 << 30}
			var under atomic.Int64
			for r := 0; r < reps; r++ {
				a, b := net.Pipe()
				var on atomic.Int64
				wc := conntrack.Builder{TrackTraffic: track, OnClose: func() { on.Add(1) }}.Build(&countConn{Conn: a, closes: &under})
				closeConcurrently(wc, n)
				b.Close()
				k := int(on.Load())
				o.OnClose += k
				if k > o.MaxPerConn {
					o.MaxPerConn = k
				}
				if k < o.MinPerConn {
					o.MinPerConn = k
				}
			}
			o.UnderClose = int(under.Load())
			out = append(out, o)
		}
	}
	// real Listener: accept k connections, close each n-way concurrently, gather the gauges
	for _, track := range []bool{false, true} {
		for _, n := range []int{1, 2, 16} {
			k := 8
			reg := prometheus.NewRegistry()
			l := &forwarder.Listener{ListenerConfig: *forwarder.DefaultListenerConfig("127.0.0.1:0"),
				PromConfig: forwarder.PromConfig{PromNamespace: "vf", PromRegistry: reg}}
			l.TrackTraffic = track
			o := CtObs{Kind: "listener", Track: track, Closers: n, Conns: k, MinPerConn: 1, MaxPerConn: 1}
			if err := l.Listen(); err != nil {
				o.Active = -999
				out = append(out, o)
				continue
			}
			var accepted []net.Conn
			var clients []net.Conn
			for i := 0; i < k; i++ {
				cc, err := net.DialTimeout("tcp", l.Addr().String(), time.Second)
				if err != nil {
					continue
				}
				clients = append(clients, cc)
				ac, err := l.Accept()
				if err != nil {
					continue
				}
				accepted = append(accepted, ac)
			}
			for _, ac := range accepted {
				closeConcurrently(ac, n)
			}
			for _, cc := range clients {
				cc.Close()
			}
			l.Close()
			m := gatherReg(reg)
			o.Active = m.Sum("vf_listener_cx_active")
			o.Total = m.Sum("vf_listener_cx_total")
			o.OnClose = int(o.Total - o.Active)
			out = append(out, o)
		}
	}
	// real Dialer
	for _, n := range []int{1, 2, 16} {
		k := 8
		reg := prometheus.NewRegistry()
		dc := forwarder.DefaultDialConfig()
		dc.PromRegistry, dc.PromNamespace = reg, "vf"
		d := forwarder.NewDialer(dc)
		p, err := NewPeer(func(c net.Conn, i int) { Echo(c) })
		o := CtObs{Kind: "dialer", Closers: n, Conns: k, MinPerConn: 1, MaxPerConn: 1}
		if err != nil {
			o.Active = -999
			out = append(out, o)
			continue
		}
		var conns []net.Conn
		for i := 0; i < k; i++ {
			c, err := d.DialContext(context.Background(), "tcp", p.Addr)
			if err == nil {
				conns = append(conns, c)
			}
		}
		for _, c := range conns {
			closeConcurrently(c, n)
		}
		p.Close()
		m := gatherReg(reg)
		o.Active = m.Sum("vf_dialer_cx_active")
		o.Total = m.Sum("vf_dialer_cx_total")
		o.OnClose = int(o.Total - o.Active)
		out = append(out, o)
	}
	return out
}

func gatherReg(reg *prometheus.Registry) Metrics {
	r := &Rig{Reg: reg}
	return r.Gather()
}
