package faultrig

import (
	"bytes"
	"context"
	"fmt"
	"io"
	"net"
	"strings"
	"sync"
	"sync/atomic"
	"time"

	"github.com/prometheus/client_golang/prometheus"
	"github.com/saucelabs/forwarder"
	"github.com/saucelabs/forwarder/conntrack"

	"verifharness/rng"
)

// CtObs is one concurrent-close experiment on the real conntrack / Listener / Dialer code.
type CtObs struct {
	Kind       string  `json:"kind"` // "builder" | "listener" | "dialer"
	Track      bool    `json:"track"`
	Closers    int     `json:"closers"`     // goroutines closing each connection at the same time
	Conns      int     `json:"conns"`       // connections in the experiment
	OnClose    int     `json:"on_close"`    // builder: OnClose invocations (sum over conns); listener/dialer: cx_total - cx_active
	UnderClose int     `json:"under_close"` // builder: Close calls that reached the underlying connection
	Active     float64 `json:"active"`      // listener/dialer: active gauge after all closes
	Total      float64 `json:"total"`       // listener/dialer: total counter
	MaxPerConn int     `json:"max_per_conn"`
	MinPerConn int     `json:"min_per_conn"`
	Pre        bool    `json:"pre"`  // a layer below the wrapper closed the connection before the first Close
	Note       string  `json:"note"` // which history
}

// Coq renders the observation as G12.Check.ctobs.
func (c CtObs) Coq() string {
	kind := map[string]int{"builder": 0, "listener": 1, "dialer": 2}[c.Kind]
	return fmt.Sprintf("(mkct %d %v %d %d %d %d (%d)%%Z %d %d %d %v)", kind, c.Track, c.Closers, c.Conns, c.OnClose, c.UnderClose,
		int64(c.Active), int64(c.Total), c.MinPerConn, c.MaxPerConn, c.Pre)
}

type countConn struct {
	net.Conn
	closes *atomic.Int64
	closed *atomic.Bool
}

// Close counts the call; like a TCP connection it reports net.ErrClosed when it has been closed before
// (by an earlier Close, or "from below": see MarkClosed).
func (c *countConn) Close() error {
	c.closes.Add(1)
	if c.closed != nil && c.closed.Swap(true) {
		return net.ErrClosed
	}
	return c.Conn.Close()
}

func closeConcurrently(c net.Conn, n int) {
	var wg sync.WaitGroup
	start := make(chan struct{})
	for i := 0; i < n; i++ {
		wg.Add(1)
		go func() {
			defer wg.Done()
			<-start
			c.Close()
		}()
	}
	close(start)
	wg.Wait()
}

// RunConntrack runs the experiments.
func RunConntrack(tier string, seed uint64) []CtObs {
	reps := 40
	if tier == "thorough" {
		reps = 400
	}
	var out []CtObs
	for _, track := range []bool{false, true} {
		for _, n := range []int{1, 2, 3, 16} {
			o := CtObs{Kind: "builder", Track: track, Closers: n, Conns: reps, MinPerConn: 1 << 30}
			var under atomic.Int64
			for r := 0; r < reps; r++ {
				a, b := net.Pipe()
				var on atomic.Int64
				wc := conntrack.Builder{TrackTraffic: track, OnClose: func() { on.Add(1) }}.Build(&countConn{Conn: a, closes: &under, closed: new(atomic.Bool)})
				closeConcurrently(wc, n)
				b.Close()
				k := int(on.Load())
				o.OnClose += k
				if k > o.MaxPerConn {
					o.MaxPerConn = k
				}
				if k < o.MinPerConn {
					o.MinPerConn = k
				}
			}
			o.UnderClose = int(under.Load())
			out = append(out, o)
		}
	}
	// the connection is closed by a layer BELOW the wrapper before anybody calls the wrapper's Close
	for _, track := range []bool{false, true} {
		for _, n := range []int{1, 2, 16} {
			o := CtObs{Kind: "builder", Track: track, Closers: n, Conns: reps, MinPerConn: 1 << 30, Pre: true, Note: "underlying closed first"}
			var under atomic.Int64
			for r := 0; r < reps; r++ {
				a, b := net.Pipe()
				var on atomic.Int64
				cl := new(atomic.Bool)
				wc := conntrack.Builder{TrackTraffic: track, OnClose: func() { on.Add(1) }}.Build(&closedConn{countConn{Conn: a, closes: &under, closed: cl}})
				a.Close() // the lower layer closes on its own ...
				cl.Store(true) // ... so every Close from above reports net.ErrClosed
				closeConcurrently(wc, n)
				b.Close()
				k := int(on.Load())
				o.OnClose += k
				if k > o.MaxPerConn {
					o.MaxPerConn = k
				}
				if k < o.MinPerConn {
					o.MinPerConn = k
				}
			}
			o.UnderClose = int(under.Load())
			out = append(out, o)
		}
	}
	// real Listener with the PROXY protocol: the client never sends the header, the header reader times out and closes the
	// TCP connection below the conntrack wrapper; then the accepted connection is closed
	for _, n := range []int{1, 2} {
		k := 4
		reg := prometheus.NewRegistry()
		lc := *forwarder.DefaultListenerConfig("127.0.0.1:0")
		lc.ProxyProtocolConfig = &forwarder.ProxyProtocolConfig{ReadHeaderTimeout: 60 * time.Millisecond}
		l := &forwarder.Listener{ListenerConfig: lc, PromConfig: forwarder.PromConfig{PromNamespace: "vf", PromRegistry: reg}}
		o := CtObs{Kind: "listener", Closers: n, Conns: k, MinPerConn: 1, MaxPerConn: 1, Pre: true, Note: "proxy-protocol header timeout"}
		if err := l.Listen(); err != nil {
			o.Active = -999
			out = append(out, o)
			continue
		}
		var clients []net.Conn
		acc := make(chan net.Conn, k)
		go func() {
			for i := 0; i < k; i++ {
				ac, err := l.Accept()
				if err != nil {
					acc <- nil
					continue
				}
				acc <- ac
			}
		}()
		for i := 0; i < k; i++ {
			cc, err := net.DialTimeout("tcp", l.Addr().String(), time.Second)
			if err == nil {
				clients = append(clients, cc)
			}
		}
		for i := 0; i < k; i++ {
			var ac net.Conn
			select {
			case ac = <-acc:
			case <-time.After(3 * time.Second):
			}
			if ac == nil {
				continue
			}
			buf := make([]byte, 16)
			ac.SetReadDeadline(time.Now().Add(2 * time.Second))
			ac.Read(buf) // fails after the header timeout; the header reader has closed the socket
			closeConcurrently(ac, n)
		}
		for _, cc := range clients {
			cc.Close()
		}
		l.Close()
		m := gatherReg(reg)
		o.Active = m.AbsSum("vf_listener_cx_active")
		o.Total = m.Sum("vf_listener_cx_total")
		o.OnClose = int(o.Total - m.Sum("vf_listener_cx_active"))
		out = append(out, o)
	}
	// real Listener: accept k connections, close each n-way concurrently, gather the gauges
	for _, track := range []bool{false, true} {
		for _, n := range []int{1, 2, 16} {
			k := 8
			reg := prometheus.NewRegistry()
			l := &forwarder.Listener{ListenerConfig: *forwarder.DefaultListenerConfig("127.0.0.1:0"),
				PromConfig: forwarder.PromConfig{PromNamespace: "vf", PromRegistry: reg}}
			l.TrackTraffic = track
			o := CtObs{Kind: "listener", Track: track, Closers: n, Conns: k, MinPerConn: 1, MaxPerConn: 1}
			if err := l.Listen(); err != nil {
				o.Active = -999
				out = append(out, o)
				continue
			}
			var accepted []net.Conn
			var clients []net.Conn
			for i := 0; i < k; i++ {
				cc, err := net.DialTimeout("tcp", l.Addr().String(), time.Second)
				if err != nil {
					continue
				}
				clients = append(clients, cc)
				ac, err := l.Accept()
				if err != nil {
					continue
				}
				accepted = append(accepted, ac)
			}
			for _, ac := range accepted {
				closeConcurrently(ac, n)
			}
			for _, cc := range clients {
				cc.Close()
			}
			l.Close()
			m := gatherReg(reg)
			o.Active = m.AbsSum("vf_listener_cx_active")
			o.Total = m.Sum("vf_listener_cx_total")
			o.OnClose = int(o.Total - m.Sum("vf_listener_cx_active"))
			out = append(out, o)
		}
	}
	// real Dialer
	for _, n := range []int{1, 2, 16} {
		k := 8
		reg := prometheus.NewRegistry()
		dc := forwarder.DefaultDialConfig()
		dc.PromRegistry, dc.PromNamespace = reg, "vf"
		d := forwarder.NewDialer(dc)
		p, err := NewPeer(func(c net.Conn, i int) { Echo(c) })
		o := CtObs{Kind: "dialer", Closers: n, Conns: k, MinPerConn: 1, MaxPerConn: 1}
		if err != nil {
			o.Active = -999
			out = append(out, o)
			continue
		}
		var conns []net.Conn
		for i := 0; i < k; i++ {
			c, err := d.DialContext(context.Background(), "tcp", p.Addr)
			if err == nil {
				conns = append(conns, c)
			}
		}
		for _, c := range conns {
			closeConcurrently(c, n)
		}
		p.Close()
		m := gatherReg(reg)
		o.Active = m.AbsSum("vf_dialer_cx_active")
		o.Total = m.Sum("vf_dialer_cx_total")
		o.OnClose = int(o.Total - m.Sum("vf_dialer_cx_active"))
		out = append(out, o)
	}
	// real Dialer with a redirect (--connect-to): the connection is requested for one host and dialled to another;
	// every label series of the active gauge must return to zero, not just their sum
	for _, n := range []int{1, 2} {
		k := 6
		reg := prometheus.NewRegistry()
		p, err := NewPeer(func(c net.Conn, i int) { Echo(c) })
		o := CtObs{Kind: "dialer", Closers: n, Conns: k, MinPerConn: 1, MaxPerConn: 1, Note: "dial redirected to another host"}
		if err != nil {
			o.Active = -999
			out = append(out, o)
			continue
		}
		dc := forwarder.DefaultDialConfig()
		dc.PromRegistry, dc.PromNamespace = reg, "vf"
		target := p.Addr
		dc.RedirectFunc = func(network, address string) (string, string) {
			if strings.HasPrefix(address, "requested.invalid:") {
				return network, target
			}
			return network, address
		}
		d := forwarder.NewDialer(dc)
		var conns []net.Conn
		for i := 0; i < k; i++ {
			c, err := d.DialContext(context.Background(), "tcp", "requested.invalid:80")
			if err == nil {
				conns = append(conns, c)
			}
		}
		for _, c := range conns {
			closeConcurrently(c, n)
		}
		p.Close()
		m := gatherReg(reg)
		o.Active = m.AbsSum("vf_dialer_cx_active")
		o.Total = m.Sum("vf_dialer_cx_total")
		o.OnClose = int(o.Total - m.AbsSum("vf_dialer_cx_active"))
		out = append(out, o)
	}
	return out
}

// closedConn lets the test close the wrapped connection "from below" while still counting the wrapper's Close calls.
type closedConn struct{ countConn }

func gatherReg(reg *prometheus.Registry) Metrics {
	r := &Rig{Reg: reg}
	return r.Gather()
}

// ByteObs: the conntrack Observer against the bytes actually transferred on a loopback TCP pair.
type ByteObs struct {
	Ops      [][2]int `json:"ops"`       // per call through the wrapper: {0 Read | 1 Write | 2 ReadFrom, n returned}
	Rx       uint64   `json:"rx"`        // Observer.Rx()
	Tx       uint64   `json:"tx"`        // Observer.Tx()
	PeerSent int      `json:"peer_sent"` // bytes the peer wrote
	PeerGot  int      `json:"peer_got"`  // bytes the peer read
	ShortWrite bool   `json:"short_write"` // a Write returned 0 < n < len(p) together with an error (write deadline, peer not reading)
}

// Coq renders it as G12.Check.bobs.
func (b ByteObs) Coq() string {
	parts := make([]string, len(b.Ops))
	for i, o := range b.Ops {
		parts[i] = fmt.Sprintf("(%d, %d)", o[0], o[1])
	}
	ops := "(@nil (N * N))"
	if len(parts) > 0 {
		ops = "[" + strings.Join(parts, "; ") + "]"
	}
	return fmt.Sprintf("(mkbobs %s %d %d %d %d)", ops, b.Rx, b.Tx, b.PeerSent, b.PeerGot)
}

type chunkReader struct {
	left int
	step int
}

func (r *chunkReader) Read(p []byte) (int, error) {
	if r.left == 0 {
		return 0, io.EOF
	}
	n := r.step
	if n > r.left {
		n = r.left
	}
	if n > len(p) {
		n = len(p)
	}
	for i := 0; i < n; i++ {
		p[i] = 'r'
	}
	r.left -= n
	return n, nil
}

// RunByteCounters drives Read / Write / ReadFrom of tracked connections with seeded sizes.
func RunByteCounters(tier string, seed uint64) []ByteObs {
	n := 12
	if tier == "thorough" {
		n = 120
	}
	r := rng.New(seed ^ 0xb17e5)
	var out []ByteObs
	for i := 0; i < n; i++ {
		l, err := net.Listen("tcp", "127.0.0.1:0")
		if err != nil {
			continue
		}
		var bo ByteObs
		toSend := 1 + r.Intn(200000)
		peerDone := make(chan struct{})
		go func() {
			defer close(peerDone)
			c, err := l.Accept()
			if err != nil {
				return
			}
			defer c.Close()
			// the peer sends toSend bytes in odd pieces, half-closes, then reads everything
			buf := bytes.Repeat([]byte("p"), 7001)
			left := toSend
			for left > 0 {
				k := len(buf)
				if k > left {
					k = left
				}
				m, err := c.Write(buf[:k])
				bo.PeerSent += m
				left -= m
				if err != nil {
					break
				}
			}
			c.(*net.TCPConn).CloseWrite()
			got, _ := io.Copy(io.Discard, c)
			bo.PeerGot = int(got)
		}()
		raw, err := net.Dial("tcp", l.Addr().String())
		if err != nil {
			l.Close()
			continue
		}
		wc, ob := conntrack.Builder{TrackTraffic: true, OnClose: func() {}}.BuildWithObserver(raw)
		// writes of seeded sizes, one ReadFrom, reads until EOF with a seeded buffer size
		for k := 1 + r.Intn(6); k > 0; k-- {
			m, _ := wc.Write(bytes.Repeat([]byte("w"), 1+r.Intn(50000)))
			bo.Ops = append(bo.Ops, [2]int{1, m})
		}
		if rf, ok := wc.(io.ReaderFrom); ok {
			m, _ := rf.ReadFrom(&chunkReader{left: 1 + r.Intn(100000), step: 1 + r.Intn(9000)})
			bo.Ops = append(bo.Ops, [2]int{2, int(m)})
		}
		if cw, ok := wc.(interface{ CloseWrite() error }); ok {
			cw.CloseWrite()
		} else {
			raw.(*net.TCPConn).CloseWrite()
		}
		rb := make([]byte, 1+r.Intn(20000))
		for {
			m, err := wc.Read(rb)
			bo.Ops = append(bo.Ops, [2]int{0, m})
			if err != nil {
				break
			}
		}
		<-peerDone
		wc.Close()
		l.Close()
		if ob != nil {
			bo.Rx, bo.Tx = ob.Rx(), ob.Tx()
		}
		out = append(out, bo)
	}
	// short writes: the peer does not read, the write deadline expires in the middle of a large write, which returns
	// n > 0 AND an error; those n bytes have left the wrapper (the peer gets them later)
	for i := 0; i < 3; i++ {
		l, err := net.Listen("tcp", "127.0.0.1:0")
		if err != nil {
			continue
		}
		var bo ByteObs
		release := make(chan struct{})
		peerDone := make(chan struct{})
		go func() {
			defer close(peerDone)
			c, err := l.Accept()
			if err != nil {
				return
			}
			defer c.Close()
			<-release
			got, _ := io.Copy(io.Discard, c)
			bo.PeerGot = int(got)
		}()
		raw, err := net.Dial("tcp", l.Addr().String())
		if err != nil {
			l.Close()
			close(release)
			continue
		}
		wc, ob := conntrack.Builder{TrackTraffic: true, OnClose: func() {}}.BuildWithObserver(raw)
		big := bytes.Repeat([]byte("s"), 32<<20)
		wc.SetWriteDeadline(time.Now().Add(150 * time.Millisecond))
		m, werr := wc.Write(big)
		bo.Ops = append(bo.Ops, [2]int{1, m})
		bo.ShortWrite = werr != nil && m > 0 && m < len(big)
		wc.SetWriteDeadline(time.Time{})
		m, _ = wc.Write([]byte("tail"))
		bo.Ops = append(bo.Ops, [2]int{1, m})
		close(release)
		wc.Close()
		<-peerDone
		l.Close()
		if ob != nil {
			bo.Rx, bo.Tx = ob.Rx(), ob.Tx()
		}
		out = append(out, bo)
	}
	return out
}
