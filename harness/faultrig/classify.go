package faultrig

import (
	"bytes"
	"context"
	"crypto/tls"
	"crypto/x509"
	"errors"
	"fmt"
	"net"
	"net/http"
	"net/url"
	"strings"

	"github.com/saucelabs/forwarder"
	"github.com/saucelabs/forwarder/log"

	"verifharness/coqfmt"
	"verifharness/rng"
)

// ErrCase is one synthetic error run through the real classifier
// (HTTPProxy.errorResponse via the verif hook) and serialised by net/http.
type ErrCase struct {
	Name   string `json:"name"`
	Feat   Feat   `json:"feat"`
	HTTPS  bool   `json:"https"`
	Code   int    `json:"code"`
	Raw    []byte `json:"-"`
	RawLen int    `json:"raw_len"`
	ErrHdr string `json:"err_hdr"`
	CL     string `json:"content_length"`
	Body   int    `json:"body_len"`
	Go     Parsed `json:"go"`
	Reason  string `json:"reason"`
	PName   string `json:"pname"`
	Msg     string `json:"msg"`
	ErrText string `json:"err_text"`
}

// Coq renders the case as G12.Check12.ecase.
func (c ErrCase) Coq() string {
	return fmt.Sprintf("(mkecase %s %d %s %d %d %d %s %s %s %s)", c.Feat.Coq(), c.Code, coqfmt.Bytes(c.Raw), verdictN(c.Go.Verdict), c.Go.Status, c.Go.BodyLen,
		coqfmt.Str(c.Reason), coqfmt.Str(c.PName), coqfmt.Str(c.Msg), coqfmt.Str(c.ErrText))
}

func verdictN(v string) int {
	switch v {
	case VComplete:
		return 0
	case VIncomplete:
		return 1
	case VMalformed:
		return 2
	}
	return 3
}

type atom struct {
	name string
	err  error
	set  func(*Feat)
}

func errAtoms() []atom {
	return []atom{
		// errors.As(err, &interface{ Timeout() bool }) stops at the FIRST error of the chain that has a
		// Timeout method; its answer is the feature (TimeoutSeen records that the question is settled)
		{"operr", &net.OpError{Op: "dial", Net: "tcp", Err: errors.New("connection refused")}, func(f *Feat) {
			if f.OpErr == 0 {
				f.OpErr = 1
			}
			f.TimeoutSeen = true
		}},
		{"operr-timeout", &net.OpError{Op: "dial", Net: "tcp", Err: timeoutErr{}}, func(f *Feat) {
			if f.OpErr == 0 {
				f.OpErr = 2
			}
			if !f.TimeoutSeen {
				f.Timeout, f.TimeoutSeen = true, true
			}
		}},
		{"bare-timeout", timeoutErr{}, func(f *Feat) {
			if !f.TimeoutSeen {
				f.Timeout, f.TimeoutSeen = true, true
			}
		}},
		{"record", tls.RecordHeaderError{Msg: "first record does not look like a TLS handshake", RecordHeader: [5]byte{'H', 'T', 'T', 'P', '/'}}, func(f *Feat) { f.RecordHdr = true }},
		{"record-bin", tls.RecordHeaderError{Msg: "oversized record", RecordHeader: [5]byte{1, 2, 3, 4, 5}}, func(f *Feat) { f.RecordHdr = true }},
		{"cert", &tls.CertificateVerificationError{UnverifiedCertificates: []*x509.Certificate{}, Err: errors.New("x509: unknown authority")}, func(f *Feat) { f.Cert = true }},
		{"ech", &tls.ECHRejectionError{}, func(f *Feat) { f.Ech = true }},
		{"alert", tls.AlertError(40), func(f *Feat) { f.Alert = true }},
		{"auth", forwarder.ErrProxyAuthentication, func(f *Feat) { f.Auth = true }},
		{"localhost", forwarder.ErrProxyLocalhost, func(f *Feat) { f.Deny = true }},
		{"denied", forwarder.ErrProxyDenied, func(f *Feat) { f.Deny = true }},
		{"timeframe", forwarder.ErrProxyOutsideAllowedTimeframe, func(f *Feat) { f.Prohibited = true }},
		{"canceled", context.Canceled, func(f *Feat) { f.Canceled = true }},
		{"deadline", context.DeadlineExceeded, func(f *Feat) {
			if !f.TimeoutSeen {
				f.Timeout, f.TimeoutSeen = true, true
			}
		}},
		{"plain", errors.New("some failure\nwith a second line\r\nand a third"), func(f *Feat) {}},
		{"eof", fmt.Errorf("unexpected EOF"), func(f *Feat) {}},
	}
}

type textWrap struct {
	text  string
	inner error
}

func (t textWrap) Error() string { return t.text }
func (t textWrap) Unwrap() error { return t.inner }

type joined struct{ errs []error }

func (j joined) Error() string {
	var parts []string
	for _, e := range j.errs {
		parts = append(parts, e.Error())
	}
	return strings.Join(parts, "; ")
}
func (j joined) Unwrap() []error { return j.errs }

// ClassifierCases builds the synthetic errors, runs the real classifier and records the outcome.
func ClassifierCases(tier string, seed uint64, statusLits []int) ([]ErrCase, error) {
	cfg := forwarder.DefaultHTTPProxyConfig()
	cfg.Address = "127.0.0.1:0"
	cfg.Name = "vfproxy"
	hp, err := forwarder.NewHTTPProxy(cfg, nil, nil, nil, log.NopLogger, nil)
	if err != nil {
		return nil, err
	}
	defer hp.Close()

	var out []ErrCase
	run := func(name string, e error, f Feat, https bool) {
		scheme := "http"
		if https {
			scheme = "https"
		}
		req := &http.Request{Method: "GET", URL: &url.URL{Scheme: scheme, Host: "origin.example:8443", Path: "/x"}, Host: "origin.example:8443",
			Proto: "HTTP/1.1", ProtoMajor: 1, ProtoMinor: 1, Header: http.Header{}}
		f.HTTPS = https
		res := hp.VerifErrorResponse(req, e)
		var buf bytes.Buffer
		res.Write(&buf)
		c := ErrCase{Name: name, Feat: f, HTTPS: https, Code: res.StatusCode, Raw: buf.Bytes(), RawLen: buf.Len(),
			ErrHdr: res.Header.Get(forwarder.ErrorHeader), CL: res.Header.Get("Content-Length")}
		c.Go = ParseResponse(buf.Bytes(), true, false)
		c.Body = c.Go.BodyLen
		// the parts the response is built from: proxy name, the handler's message, the error text, the reason phrase
		c.Reason, c.PName, c.ErrText = http.StatusText(res.StatusCode), cfg.Name, e.Error()
		if b := string(c.Go.Body); len(b) >= len(c.PName)+1+1+len(c.ErrText)+1 {
			c.Msg = b[len(c.PName)+1 : len(b)-len(c.ErrText)-2]
		}
		out = append(out, c)
	}
	atoms := errAtoms()
	// the status-text atoms: err.Error() == http.StatusText(i)
	for _, i := range []int{400, 403, 404, 407, 429, 451, 499, 500, 502, 503, 504, 511, 599, 200, 302, 600} {
		i := i
		txt := http.StatusText(i)
		if txt == "" {
			continue
		}
		atoms = append(atoms, atom{fmt.Sprintf("text-%d", i), errors.New(txt), func(f *Feat) {
			if f.StatusText == 0 {
				// first i in [400,600) whose text equals this one
				for k := 400; k < 600; k++ {
					if http.StatusText(k) == txt {
						f.StatusText = k
						break
					}
				}
			}
		}})
	}
	for _, n := range statusLits {
		n := n
		atoms = append(atoms, atom{fmt.Sprintf("status-%d", n), martianErrorStatus(n), func(f *Feat) {
			if f.Status < 0 {
				f.Status = n
			}
		}})
	}
	// singles, wrapped singles
	for _, a := range atoms {
		for _, https := range []bool{false, true} {
			f := NoFeat()
			a.set(&f)
			run("single-"+a.name, a.err, f, https)
			f2 := NoFeat()
			a.set(&f2)
			if strings.HasPrefix(a.name, "text-") {
				f2.StatusText = 0 // wrapping changes err.Error()
			}
			run("wrapped-"+a.name, fmt.Errorf("round trip: %w", a.err), f2, https)
		}
	}
	// an error whose text is a status text AND that wraps another error: the order of the handlers decides
	for _, inner := range []string{"operr", "operr-timeout", "record", "cert", "alert", "auth", "denied", "canceled", "deadline"} {
		for _, code := range []int{403, 404, 502, 503} {
			var ia atom
			for _, a := range atoms {
				if a.name == inner {
					ia = a
				}
			}
			f := NoFeat()
			ia.set(&f)
			f.StatusText = code
			run(fmt.Sprintf("textwrap-%d-%s", code, inner), textWrap{http.StatusText(code), ia.err}, f, true)
		}
	}
	// pairs and triples in both orders: which handler wins is decided by the handler order, not by the order of wrapping
	r := rng.New(seed)
	nPairs := 150
	if tier == "thorough" {
		nPairs = 4000
	}
	for i := 0; i < nPairs; i++ {
		k := 2 + r.Intn(2)
		var errs []error
		var names []string
		f := NoFeat()
		for j := 0; j < k; j++ {
			a := atoms[r.Intn(len(atoms))]
			if strings.HasPrefix(a.name, "text-") {
				continue // text equality never holds for a joined error
			}
			errs = append(errs, a.err)
			names = append(names, a.name)
			a.set(&f)
		}
		if len(errs) == 0 {
			continue
		}
		// features that depend on which error errors.As finds FIRST in a multi-error: depth-first, in order
		f = NoFeat()
		for _, n := range names {
			for _, a := range atoms {
				if a.name == n {
					a.set(&f)
				}
			}
		}
		run("join-"+strings.Join(names, "+"), joined{errs}, f, r.Chance(1, 2))
	}
	return out, nil
}

func martianErrorStatus(n int) error {
	return forwarder.VerifErrorStatus(fmt.Errorf("via: detected request loop (status %d)", n), n)
}
