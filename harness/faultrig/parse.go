package faultrig

import (
	"strings"
)

// Independent client-side HTTP/1.x response parser (does not use net/http).
// It implements RFC 7230 section 3.3.3 message framing for a client and is
// mirrored line by line by G12.Framing.client_parse in Coq.

// Verdict of parsing the bytes a client received.
const (
	VComplete   = "complete"   // a whole, well-formed response (body delimited by its framing)
	VIncomplete = "incomplete" // the stream ended / has not yet delivered the whole message
	VMalformed  = "malformed"  // not a well-formed HTTP/1.x response
	VNone       = "none"       // no bytes at all
)

// Parsed is the result of ParseResponse.
type Parsed struct {
	Verdict string     `json:"verdict"`
	Major   int        `json:"major"`
	Minor   int        `json:"minor"`
	Status  int        `json:"status"`
	Reason  string     `json:"reason"`
	Header  [][2]string `json:"header"`
	Framing string     `json:"framing"` // "none" | "length" | "chunked" | "close"
	Body    []byte     `json:"-"`
	BodyLen int        `json:"body_len"`
	Rest    []byte     `json:"-"` // bytes after the message
	RestLen int        `json:"rest_len"`
	Why     string     `json:"why"`
}

// Get returns the first value of a header (case-insensitive) and whether it is present.
func (p *Parsed) Get(name string) (string, bool) {
	for _, kv := range p.Header {
		if strings.EqualFold(kv[0], name) {
			return kv[1], true
		}
	}
	return "", false
}

func (p *Parsed) values(name string) []string {
	var out []string
	for _, kv := range p.Header {
		if strings.EqualFold(kv[0], name) {
			out = append(out, kv[1])
		}
	}
	return out
}

// readLine returns the line up to the first LF (one trailing CR stripped) and the rest.
func readLine(d []byte) (line, rest []byte, ok bool) {
	for i, c := range d {
		if c == '\n' {
			l := d[:i]
			if len(l) > 0 && l[len(l)-1] == '\r' {
				l = l[:len(l)-1]
			}
			return l, d[i+1:], true
		}
	}
	return nil, d, false
}

func isDigit(c byte) bool { return c >= '0' && c <= '9' }

func isTokenByte(c byte) bool {
	if c >= 'a' && c <= 'z' || c >= 'A' && c <= 'Z' || isDigit(c) {
		return true
	}
	return strings.IndexByte("!#$%&'*+-.^_`|~", c) >= 0
}

func trimOWS(s string) string {
	return strings.Trim(s, " \t")
}

func parseDec(s string) (int, bool) {
	if s == "" || len(s) > 18 {
		return 0, false
	}
	n := 0
	for i := 0; i < len(s); i++ {
		if !isDigit(s[i]) {
			return 0, false
		}
		n = n*10 + int(s[i]-'0')
	}
	return n, true
}

func parseHex(s string) (int, bool) {
	if s == "" || len(s) > 15 {
		return 0, false
	}
	n := 0
	for i := 0; i < len(s); i++ {
		c := s[i]
		switch {
		case isDigit(c):
			n = n*16 + int(c-'0')
		case c >= 'a' && c <= 'f':
			n = n*16 + int(c-'a') + 10
		case c >= 'A' && c <= 'F':
			n = n*16 + int(c-'A') + 10
		default:
			return 0, false
		}
	}
	return n, true
}

// ParseResponse parses the bytes received by a client.  eof tells whether the
// stream has ended; headOnly tells that the request was HEAD (no body follows).
func ParseResponse(d []byte, eof bool, headOnly bool) Parsed {
	p := Parsed{Framing: "none"}
	fail := func(v, why string) Parsed { p.Verdict, p.Why = v, why; return p }
	if len(d) == 0 {
		if eof {
			return fail(VNone, "no bytes")
		}
		return fail(VIncomplete, "no bytes yet")
	}
	// status line
	line, rest, ok := readLine(d)
	if !ok {
		return fail(VIncomplete, "status line not terminated")
	}
	sl := string(line)
	// HTTP/<d>.<d> SP ddd [SP reason]
	if len(sl) < 12 || sl[:5] != "HTTP/" || !isDigit(sl[5]) || sl[6] != '.' || !isDigit(sl[7]) || sl[8] != ' ' ||
		!isDigit(sl[9]) || !isDigit(sl[10]) || !isDigit(sl[11]) || (len(sl) > 12 && sl[12] != ' ') {
		return fail(VMalformed, "bad status line")
	}
	p.Major, p.Minor = int(sl[5]-'0'), int(sl[7]-'0')
	p.Status = int(sl[9]-'0')*100 + int(sl[10]-'0')*10 + int(sl[11]-'0')
	if len(sl) > 13 {
		p.Reason = sl[13:]
	}
	if p.Major != 1 {
		return fail(VMalformed, "HTTP major version is not 1")
	}
	if p.Status < 100 {
		return fail(VMalformed, "status code below 100")
	}
	// header fields
	for {
		line, rest, ok = readLine(rest)
		if !ok {
			return fail(VIncomplete, "head not terminated")
		}
		if len(line) == 0 {
			break
		}
		s := string(line)
		i := strings.IndexByte(s, ':')
		if i <= 0 {
			return fail(VMalformed, "header line without name")
		}
		for j := 0; j < i; j++ {
			if !isTokenByte(s[j]) {
				return fail(VMalformed, "header name is not a token")
			}
		}
		p.Header = append(p.Header, [2]string{s[:i], trimOWS(s[i+1:])})
	}
	// framing
	if headOnly || p.Status/100 == 1 || p.Status == 204 || p.Status == 304 {
		p.Rest, p.RestLen, p.Verdict = rest, len(rest), VComplete
		return p
	}
	chunked := false
	if te := p.values("Transfer-Encoding"); len(te) > 0 {
		last := te[len(te)-1]
		parts := strings.Split(last, ",")
		if strings.EqualFold(trimOWS(parts[len(parts)-1]), "chunked") {
			chunked = true
		} else {
			return fail(VMalformed, "transfer-encoding without final chunked")
		}
	}
	if chunked {
		p.Framing = "chunked"
		var body []byte
		for {
			line, rest, ok = readLine(rest)
			if !ok {
				p.Body, p.BodyLen = body, len(body)
				return fail(VIncomplete, "chunk size line not terminated")
			}
			s := string(line)
			if i := strings.IndexByte(s, ';'); i >= 0 {
				s = s[:i]
			}
			n, ok2 := parseHex(trimOWS(s))
			if !ok2 {
				return fail(VMalformed, "bad chunk size")
			}
			if n == 0 {
				break
			}
			if len(rest) < n+2 {
				if len(rest) >= n {
					body = append(body, rest[:n]...)
				} else {
					body = append(body, rest...)
				}
				p.Body, p.BodyLen = body, len(body)
				return fail(VIncomplete, "chunk data truncated")
			}
			if rest[n] != '\r' || rest[n+1] != '\n' {
				return fail(VMalformed, "chunk data not followed by CRLF")
			}
			body = append(body, rest[:n]...)
			rest = rest[n+2:]
		}
		p.Body, p.BodyLen = body, len(body)
		// trailer section
		for {
			line, rest, ok = readLine(rest)
			if !ok {
				return fail(VIncomplete, "trailer not terminated")
			}
			if len(line) == 0 {
				break
			}
		}
		p.Rest, p.RestLen, p.Verdict = rest, len(rest), VComplete
		return p
	}
	if cl := p.values("Content-Length"); len(cl) > 0 {
		p.Framing = "length"
		n, ok2 := parseDec(cl[0])
		if !ok2 {
			return fail(VMalformed, "bad content-length")
		}
		for _, v := range cl[1:] {
			if v != cl[0] {
				return fail(VMalformed, "conflicting content-length")
			}
		}
		if len(rest) < n {
			p.Body, p.BodyLen = rest, len(rest)
			return fail(VIncomplete, "body shorter than content-length")
		}
		p.Body, p.BodyLen = rest[:n], n
		p.Rest, p.RestLen, p.Verdict = rest[n:], len(rest)-n, VComplete
		return p
	}
	p.Framing = "close"
	p.Body, p.BodyLen = rest, len(rest)
	if !eof {
		return fail(VIncomplete, "close-delimited body, stream still open")
	}
	p.Verdict = VComplete
	return p
}
