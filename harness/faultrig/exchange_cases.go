package faultrig

import (
	"crypto/tls"
	"crypto/x509"
	"fmt"
	"io"
	"net"
	"net/http"
	"strings"
	"time"

	"golang.org/x/net/http2"
)

// The leaves of the exchange path tree (G12.Exchange.run) and how each is
// driven through the real proxy.  Each case fills e.O.Exs with the valuation(s)
// it intended to drive; the Coq checker compares the model's prediction for
// that valuation with what was observed.

func getReq(target string, extra ...string) string {
	host := target
	if i := strings.Index(target, "://"); i >= 0 {
		host = target[i+3:]
	}
	if i := strings.IndexByte(host, '/'); i >= 0 {
		host = host[:i]
	}
	return "GET " + target + " HTTP/1.1\r\nHost: " + host + "\r\n" + strings.Join(append(extra, ""), "\r\n") + "\r\n"
}

func reqLine(method, target, proto string, extra ...string) string {
	host := target
	if i := strings.Index(target, "://"); i >= 0 {
		host = target[i+3:]
	}
	if i := strings.IndexByte(host, '/'); i >= 0 {
		host = host[:i]
	}
	return method + " " + target + " " + proto + "\r\nHost: " + host + "\r\n" + strings.Join(append(extra, ""), "\r\n") + "\r\n"
}

func connectReq(hostport string, extra ...string) string {
	return "CONNECT " + hostport + " HTTP/1.1\r\nHost: " + hostport + "\r\n" + strings.Join(append(extra, ""), "\r\n") + "\r\n"
}

// features of the faults the rig's modifiers inject
func faultFeat(name string) Feat {
	f := NoFeat()
	switch name {
	case "auth":
		f.Auth = true
	case "localhost", "deny":
		f.Deny = true
	case "timeframe":
		f.Prohibited = true
	case "canceled":
		f.Canceled = true
	case "operr":
		f.OpErr = 1
	case "operr-timeout":
		f.OpErr = 2
	}
	return f
}

// upstream proxy answering every CONNECT with a fixed reply, then closing
func rejectingUpstream(reply string) func(c net.Conn, n int) {
	return func(c net.Conn, n int) {
		if _, err := ReadHead(c, 5*time.Second); err != nil {
			c.Close()
			return
		}
		c.Write([]byte(reply))
		// leave the connection to the peer: the client side decides
		buf := make([]byte, 1024)
		c.SetReadDeadline(time.Now().Add(3 * time.Second))
		c.Read(buf)
		c.Close()
	}
}

// upstream proxy accepting the CONNECT and echoing the tunnel
func echoingUpstream(delay time.Duration) func(c net.Conn, n int) {
	return func(c net.Conn, n int) {
		if _, err := ReadHead(c, 5*time.Second); err != nil {
			c.Close()
			return
		}
		if delay > 0 {
			time.Sleep(delay)
		}
		c.Write([]byte("HTTP/1.1 200 Connection established\r\n\r\n"))
		Echo(c)
	}
}

// ExchangeCases lists the cases of a tier.
func ExchangeCases(tier string, seed uint64) []ExCase {
	var cs []ExCase
	add := func(name, leaf string, run func(e *Env)) {
		cs = append(cs, ExCase{Name: name, Leaf: leaf, Opt: Options{}, Run: run})
	}

	// ---------------------------------------------------------------- reading fails
	add("read-eof", "read-eof", func(e *Env) {
		e.Start(nil)
		c := e.Client()
		c.Close()
		e.O.Exs = []Ex{{Val: Val{Rd: 1}}}
		e.Rig.WaitEvents("read", 1, time.Second)
	})
	for _, g := range []struct{ n, bytes string }{
		{"garbage-line", "GARBAGE\r\n\r\n"},
		{"bad-version", "GET / HTTP/9.9.9\r\n\r\n"},
		{"binary", "\x00\x01\x02\xff\xfe\r\n\r\n"},
		{"bad-header", "GET http://x/ HTTP/1.1\r\nBad Header\r\n\r\n"},
		{"partial-then-close", "GET http://x/ HTTP/1.1\r\nHost: x\r\n"},
	} {
		g := g
		add("read-err-"+g.n, "read-err", func(e *Env) {
			e.Start(nil)
			c := e.Client()
			c.Write([]byte(g.bytes))
			if g.n == "partial-then-close" {
				c.Close()
				e.O.Exs = []Ex{{Val: Val{Rd: 2}}}
				e.Rig.WaitEvents("read", 1, time.Second)
				return
			}
			st, _ := ConnState(c, 2*time.Second)
			e.O.CheckEnd, e.O.Closed = true, st == "closed" || st == "reset"
			e.O.Exs = []Ex{{Val: Val{Rd: 2}}}
		})
	}

	// ---------------------------------------------------------------- plain requests
	type body struct{ n, reply, then string }
	okBodies := []body{
		{"cl", ReplyCL(200, "OK", "hello world"), "keep"},
		{"chunked", Reply(200, "OK", []string{"Transfer-Encoding: chunked"}, "5\r\nhello\r\n6\r\n world\r\n0\r\n\r\n"), "keep"},
		{"close-delim", Reply(200, "OK", []string{"Content-Type: text/plain"}, "hello world"), "fin"},
		{"204", Reply(204, "No Content", nil, ""), "keep"},
		{"404", ReplyCL(404, "Not Found", "nope"), "keep"},
		{"500", ReplyCL(500, "Internal Server Error", "oops"), "keep"},
		{"empty-cl", ReplyCL(200, "OK", ""), "keep"},
	}
	for _, b := range okBodies {
		b := b
		for _, proto := range []string{"HTTP/1.1", "HTTP/1.0", "close"} {
			proto := proto
			add("plain-ok-"+b.n+"-"+proto, "plain-ok", func(e *Env) {
				o := e.Peer(OriginReplying(b.reply, b.then))
				e.Start(nil)
				c := e.Client()
				p, extra := proto, []string(nil)
				if proto == "close" {
					p, extra = "HTTP/1.1", []string{"Connection: close"}
				}
				var st int
				fmt.Sscanf(b.reply, "HTTP/1.1 %d", &st)
				ex := Ex{Val: Val{ReqClose: proto != "HTTP/1.1" || b.n == "close-delim", St: stClass(st)}, Method: "GET", UpStatus: st}
				co := e.Do(c, reqLine("GET", "http://"+o.Addr+"/x", p, extra...), false, &ex)
				e.End(c, co)
				e.O.Exs = []Ex{ex}
			})
		}
	}
	add("plain-ok-head", "plain-ok", func(e *Env) {
		o := e.Peer(OriginReplying(Reply(200, "OK", []string{"Content-Length: 11"}, ""), "keep"))
		e.Start(nil)
		c := e.Client()
		ex := Ex{Val: Val{}, Method: "HEAD", UpStatus: 200}
		co := e.Do(c, reqLine("HEAD", "http://"+o.Addr+"/x", "HTTP/1.1"), true, &ex)
		e.End(c, co)
		e.O.Exs = []Ex{ex}
	})
	add("plain-ok-post", "plain-ok", func(e *Env) {
		o := e.Peer(func(c net.Conn, n int) {
			ReadHead(c, 5*time.Second) // body (5 bytes) arrives with or after the head; not needed
			c.Write([]byte(ReplyCL(201, "Created", "made")))
			buf := make([]byte, 64)
			c.Read(buf)
			c.Close()
		})
		e.Start(nil)
		c := e.Client()
		ex := Ex{Val: Val{}, Method: "POST", UpStatus: 201}
		co := e.Do(c, reqLine("POST", "http://"+o.Addr+"/x", "HTTP/1.1", "Content-Length: 5")+"12345", false, &ex)
		e.End(c, co)
		e.O.Exs = []Ex{ex}
	})
	add("plain-two-on-one-connection", "plain-ok", func(e *Env) {
		o := e.Peer(OriginReplying(ReplyCL(200, "OK", "hello world"), "keep"))
		e.Start(nil)
		c := e.Client()
		ex1 := Ex{Val: Val{}, Method: "GET", UpStatus: 200}
		e.Do(c, getReq("http://"+o.Addr+"/1"), false, &ex1)
		ex2 := Ex{Val: Val{}, Method: "GET", UpStatus: 200}
		co := e.Do(c, getReq("http://"+o.Addr+"/2"), false, &ex2)
		e.End(c, co)
		e.O.Exs = []Ex{ex1, ex2}
	})

	// dial redirect (--connect-to): requested for one host, dialled to another; every label series must return to zero
	add("plain-ok-dial-redirected", "plain-ok", func(e *Env) {
		o := e.Peer(OriginReplying(ReplyCL(200, "OK", "hello world"), "keep"))
		e.Start(func(op *Options) { op.Redirect = map[string]string{"requested.invalid:80": o.Addr} })
		c := e.Client()
		ex := Ex{Val: Val{}, Method: "GET", UpStatus: 200}
		co := e.Do(c, getReq("http://requested.invalid/x"), false, &ex)
		e.End(c, co)
		e.O.Exs = []Ex{ex}
	})
	add("connect-ok-dial-redirected", "connect-ok", func(e *Env) {
		o := e.Peer(func(c net.Conn, n int) { Echo(c) })
		e.Start(func(op *Options) { op.Redirect = map[string]string{"requested.invalid:443": o.Addr} })
		c := e.Client()
		ex := Ex{Val: Val{Connect: true}, Method: "CONNECT"}
		co := e.Do(c, connectReq("requested.invalid:443"), true, &ex)
		if co.P.Verdict == VComplete && co.P.Status == 200 {
			c.Write([]byte("ping"))
			buf := make([]byte, 4)
			c.SetReadDeadline(time.Now().Add(2 * time.Second))
			if _, err := ioReadFull(c, buf); err != nil || string(buf) != "ping" {
				e.Failf("tunnel did not echo: %v %q", err, buf)
			}
		}
		e.Rig.Mark()
		c.Close()
		e.O.Exs = []Ex{ex}
	})

	// request modifier refuses
	for _, f := range []string{"auth", "localhost", "deny", "timeframe", "canceled", "plain", "operr", "operr-timeout"} {
		f := f
		for _, m := range []string{"GET", "POST", "CONNECT"} {
			m := m
			add("mreq-"+f+"-"+m, "mreq-err", func(e *Env) {
				e.Start(nil)
				c := e.Client()
				ex := Ex{Val: Val{Connect: m == "CONNECT", MreqErr: true}, Method: m, Feat: faultFeat(f)}
				var req string
				switch m {
				case "CONNECT":
					req = connectReq("127.0.0.1:9", FaultHeader+": mreq-"+f)
				case "POST":
					req = reqLine("POST", "http://127.0.0.1:9/x", "HTTP/1.1", FaultHeader+": mreq-"+f, "Content-Length: 0")
				default:
					req = getReq("http://127.0.0.1:9/x", FaultHeader+": mreq-"+f)
				}
				co := e.Do(c, req, false, &ex)
				e.End(c, co)
				e.O.Exs = []Ex{ex}
			})
		}
	}
	// Via loop: the Via modifier returns martian.ErrorStatus{400} and sets req.Close.
	// The proxy's Via tag carries a random boundary: learn it from a first request.
	add("mreq-via-loop", "mreq-err", func(e *Env) {
		var seen []byte
		got := make(chan struct{}, 1)
		o := e.Peer(func(c net.Conn, n int) {
			h, _ := ReadHead(c, 5*time.Second)
			seen = h
			got <- struct{}{}
			c.Write([]byte(ReplyCL(200, "OK", "hi")))
			buf := make([]byte, 64)
			c.Read(buf)
			c.Close()
		})
		e.Start(nil)
		c := e.Client()
		ex1 := Ex{Val: Val{}, Method: "GET", UpStatus: 200}
		e.Do(c, getReq("http://"+o.Addr+"/learn"), false, &ex1)
		<-got
		via := ""
		for _, l := range strings.Split(string(seen), "\r\n") {
			if strings.HasPrefix(strings.ToLower(l), "via:") {
				via = strings.TrimSpace(l[4:])
			}
		}
		if via == "" {
			e.Failf("origin saw no Via field: %q", seen)
		}
		f := NoFeat()
		f.Status = 400
		ex2 := Ex{Val: Val{MreqErr: true, ReqClose: true}, Method: "GET", Feat: f}
		co := e.Do(c, getReq("http://127.0.0.1:9/x", "Via: "+via), false, &ex2)
		e.End(c, co)
		e.O.Exs = []Ex{ex1, ex2}
	})

	// round trip fails
	add("rt-refused", "rt-err", func(e *Env) {
		e.Start(nil)
		c := e.Client()
		f := NoFeat()
		f.OpErr = 1
		ex := Ex{Val: Val{Rt: 1}, Method: "GET", Feat: f}
		co := e.Do(c, getReq("http://"+FreeAddr()+"/x"), false, &ex)
		e.End(c, co)
		e.O.Exs = []Ex{ex}
	})
	add("rt-dial-timeout", "rt-err", func(e *Env) {
		o := e.Peer(OriginReplying(ReplyCL(200, "OK", "x"), "keep"))
		e.Start(func(op *Options) { op.DialTimeout = time.Nanosecond })
		c := e.Client()
		f := NoFeat()
		f.OpErr = 2
		ex := Ex{Val: Val{Rt: 1}, Method: "GET", Feat: f}
		co := e.Do(c, getReq("http://"+o.Addr+"/x"), false, &ex)
		e.End(c, co)
		e.O.Exs = []Ex{ex}
	})
	add("rt-https-origin-speaks-http", "rt-err", func(e *Env) {
		o := e.Peer(func(c net.Conn, n int) {
			c.Write([]byte("HTTP/1.1 400 Bad Request\r\nContent-Length: 0\r\n\r\n"))
			time.Sleep(50 * time.Millisecond)
			c.Close()
		})
		e.Start(nil)
		c := e.Client()
		f := NoFeat()
		f.RecordHdr, f.HTTPS = true, true
		ex := Ex{Val: Val{Rt: 1}, Method: "GET", Feat: f}
		co := e.Do(c, getReq("https://"+o.Addr+"/x"), false, &ex)
		e.End(c, co)
		e.O.Exs = []Ex{ex}
	})
	add("rt-https-untrusted-cert", "rt-err", func(e *Env) {
		cert, _, err := SelfSigned()
		if err != nil {
			e.Failf("cert: %v", err)
		}
		o := e.Peer(func(c net.Conn, n int) {
			tc := tls.Server(c, &tls.Config{Certificates: []tls.Certificate{cert}, MinVersion: tls.VersionTLS12})
			tc.SetDeadline(time.Now().Add(3 * time.Second))
			tc.Handshake()
			tc.Close()
		})
		e.Start(nil)
		c := e.Client()
		f := NoFeat()
		f.Cert, f.HTTPS = true, true
		ex := Ex{Val: Val{Rt: 1}, Method: "GET", Feat: f}
		co := e.Do(c, getReq("https://"+o.Addr+"/x"), false, &ex)
		e.End(c, co)
		e.O.Exs = []Ex{ex}
	})

	// upstream proxy rejects the transport's CONNECT for an https request (F14 shape)
	// the CONNECT header for the upstream proxy cannot be built (command/run sets GetProxyConnectHeader for --proxy-header and
	// Kerberos): the connection to the upstream proxy is already dialled and must be closed
	add("connect-upstream-header-error", "connect-err", func(e *Env) {
		up := e.Peer(e.WatchedUpstream(func(c net.Conn, n int) {}))
		e.Start(func(op *Options) { op.Upstream = "http://" + up.Addr; op.ConnectHeaderErr = true })
		c := e.Client()
		ex := Ex{Val: Val{Connect: true, Cn: 1}, Method: "CONNECT", Feat: NoFeat()}
		co := e.Do(c, connectReq("example.invalid:443"), false, &ex)
		e.End(c, co)
		e.O.Exs = []Ex{ex}
	})
	for _, r := range []struct {
		n      string
		status int
		reply  string
	}{
		{"403-nobody", 403, Reply(403, "Forbidden", []string{"Content-Length: 0"}, "")},
		{"403-body", 403, ReplyCL(403, "Forbidden", "go away")},
		{"407-body", 407, Reply(407, "Proxy Authentication Required", []string{"Proxy-Authenticate: Basic realm=\"up\"", "Content-Length: 4"}, "auth")},
		{"502-nobody", 502, Reply(502, "Bad Gateway", []string{"Content-Length: 0"}, "")},
	} {
		r := r
		add("rt-upstream-rejects-connect-"+r.n, "rt-connerr", func(e *Env) {
			up := e.Peer(rejectingUpstream(r.reply))
			e.Start(func(op *Options) { op.Upstream = "http://" + up.Addr })
			c := e.Client()
			ex := Ex{Val: Val{Rt: 2, St: stClass(r.status)}, Method: "GET", UpStatus: r.status}
			co := e.Do(c, getReq("https://127.0.0.1:9/x"), false, &ex)
			e.End(c, co)
			e.O.Exs = []Ex{ex}
		})
	}

	// the upstream proxy rejects the transport's CONNECT with a body that has no framing (no Content-Length, not chunked)
	// and KEEPS ITS CONNECTION OPEN: the end of that body never comes.  The client must get the rejection (or a close)
	// within a bounded time; the wait here (1.5 s) is far below how long the upstream holds the connection (until the case ends).
	for _, k := range []struct{ n, reply string }{
		{"unframed-keeps-open", "HTTP/1.1 403 Forbidden\r\nContent-Type: text/plain\r\nX-Upstream: vf\r\n\r\nrejected, and more may follow"},
		{"short-body-keeps-open", "HTTP/1.1 403 Forbidden\r\nContent-Type: text/plain\r\nContent-Length: 100\r\nX-Upstream: vf\r\n\r\nonly ten b"},
	} {
	k := k
	add("rt-upstream-rejects-connect-403-"+k.n, "rt-connerr", func(e *Env) {
		up := e.Peer(func(c net.Conn, n int) {
			if _, err := ReadHead(c, 5*time.Second); err != nil {
				c.Close()
				return
			}
			c.Write([]byte(k.reply))
			buf := make([]byte, 1024)
			c.SetReadDeadline(time.Now().Add(15 * time.Second))
			c.Read(buf)
			c.Close()
		})
		e.Start(func(op *Options) { op.Upstream = "http://" + up.Addr; op.ConnectTimeout = 400 * time.Millisecond })
		c := e.Client()
		ex := Ex{Val: Val{Rt: 2, St: stClass(403)}, Method: "GET", UpStatus: 403}
		if _, err := c.Write([]byte(getReq("https://127.0.0.1:9/x"))); err != nil {
			e.Failf("client write: %v", err)
		}
		co := ReadResponse(c, false, 1500*time.Millisecond)
		ex.Seen = true
		ex.Raw, ex.RawEOF = co.Raw, co.End == "eof"
		ex.ErrHdr, _ = co.P.Get("X-Forwarder-Error")
		ex.Verdict, ex.Why = co.P.Verdict, co.P.Why
		if co.P.Verdict == VComplete {
			ex.Client = co.P.Status
		}
		e.End(c, co)
		e.O.Exs = []Ex{ex}
	})
	}

	// response modifier fails
	for _, f := range []string{"plain", "deny"} {
		f := f
		add("mres-"+f, "mres-err", func(e *Env) {
			o := e.Peer(OriginReplying(ReplyCL(200, "OK", "hello world"), "keep"))
			e.Start(nil)
			c := e.Client()
			ex := Ex{Val: Val{MresErr: true}, Method: "GET", UpStatus: 200, Feat: faultFeat(f)}
			co := e.Do(c, getReq("http://"+o.Addr+"/x", FaultHeader+": mres-"+f), false, &ex)
			e.End(c, co)
			e.O.Exs = []Ex{ex}
		})
	}

	// chunked origin replies with trailers: announced in Trailer, not announced, announced but not sent
	for _, k := range []struct{ n, reply string }{
		{"announced", "HTTP/1.1 200 OK\r\nTransfer-Encoding: chunked\r\nTrailer: X-T\r\n\r\n5\r\nhello\r\n0\r\nX-T: v\r\n\r\n"},
		{"unannounced", "HTTP/1.1 200 OK\r\nTransfer-Encoding: chunked\r\n\r\n5\r\nhello\r\n0\r\nX-T: v\r\n\r\n"},
		{"one-more-than-announced", "HTTP/1.1 200 OK\r\nTransfer-Encoding: chunked\r\nTrailer: X-T\r\n\r\n5\r\nhello\r\n0\r\nX-T: v\r\nX-U: w\r\n\r\n"},
		{"announced-not-sent", "HTTP/1.1 200 OK\r\nTransfer-Encoding: chunked\r\nTrailer: X-T\r\n\r\n5\r\nhello\r\n0\r\n\r\n"},
	} {
		k := k
		add("plain-ok-trailers-"+k.n, "plain-ok", func(e *Env) {
			o := e.Peer(OriginReplying(k.reply, "keep"))
			e.Start(nil)
			c := e.Client()
			ex := Ex{Val: Val{}, Method: "GET", UpStatus: 200}
			co := e.Do(c, getReq("http://"+o.Addr+"/x"), false, &ex)
			e.End(c, co)
			e.O.Exs = []Ex{ex}
		})
	}

	// 101 upgrade: tunnel, completion reported after the tunnel is torn down
	add("upgrade-101", "upgrade", func(e *Env) {
		o := e.Peer(func(c net.Conn, n int) {
			if _, err := ReadHead(c, 5*time.Second); err != nil {
				c.Close()
				return
			}
			c.Write([]byte("HTTP/1.1 101 Switching Protocols\r\nConnection: Upgrade\r\nUpgrade: vfproto\r\n\r\n"))
			Echo(c)
		})
		e.Start(nil)
		c := e.Client()
		ex := Ex{Val: Val{St: 1, Rwc: true}, Method: "GET", UpStatus: 101}
		co := e.Do(c, getReq("http://"+o.Addr+"/ws", "Connection: Upgrade", "Upgrade: vfproto"), false, &ex)
		if co.P.Verdict == VComplete && co.P.Status == 101 {
			c.Write([]byte("ping"))
			buf := make([]byte, 4)
			c.SetReadDeadline(time.Now().Add(2 * time.Second))
			if _, err := ioReadFull(c, buf); err != nil || string(buf) != "ping" {
				e.Failf("upgrade tunnel did not echo: %v %q", err, buf)
			}
		}
		time.Sleep(20 * time.Millisecond)
		if n := len(e.Rig.Events()); n != 1 {
			e.Failf("expected only the read event while the tunnel is up, have %d events", n)
		}
		e.Rig.Mark()
		c.Close()
		e.O.Exs = []Ex{ex}
	})

	// 101 to a request that asks to close (HTTP/1.0 client, or "Connection: close, Upgrade")
	for _, k := range []string{"http10", "conn-close"} {
		k := k
		add("upgrade-101-"+k, "upgrade", func(e *Env) {
			o := e.Peer(func(c net.Conn, n int) {
				if _, err := ReadHead(c, 5*time.Second); err != nil {
					c.Close()
					return
				}
				c.Write([]byte("HTTP/1.1 101 Switching Protocols\r\nConnection: Upgrade\r\nUpgrade: vfproto\r\n\r\n"))
				Echo(c)
			})
			e.Start(nil)
			c := e.Client()
			ex := Ex{Val: Val{St: 1, Rwc: true, ReqClose: true}, Method: "GET", UpStatus: 101}
			var req string
			if k == "http10" {
				req = reqLine("GET", "http://"+o.Addr+"/ws", "HTTP/1.0", "Connection: Upgrade", "Upgrade: vfproto")
			} else {
				req = reqLine("GET", "http://"+o.Addr+"/ws", "HTTP/1.1", "Connection: close, Upgrade", "Upgrade: vfproto")
			}
			co := e.Do(c, req, false, &ex)
			if co.P.Verdict == VComplete && co.P.Status == 101 {
				c.Write([]byte("ping"))
				buf := make([]byte, 4)
				c.SetReadDeadline(time.Now().Add(500 * time.Millisecond))
				if _, err := ioReadFull(c, buf); err == nil && string(buf) == "ping" {
					e.Rig.Mark()
				}
			}
			c.Close()
			e.O.Exs = []Ex{ex}
		})
	}

	// the client is gone when the 101 is written: the origin delays its answer, the client resets meanwhile
	add("upgrade-client-gone-before-101", "upgrade-write-fail", func(e *Env) {
		o := e.Peer(func(c net.Conn, n int) {
			if _, err := ReadHead(c, 5*time.Second); err != nil {
				c.Close()
				return
			}
			time.Sleep(150 * time.Millisecond)
			c.Write([]byte("HTTP/1.1 101 Switching Protocols\r\nConnection: Upgrade\r\nUpgrade: vfproto\r\n\r\n"))
			Echo(c)
		})
		e.Start(nil)
		c := e.Client()
		c.Write([]byte(getReq("http://"+o.Addr+"/ws", "Connection: Upgrade", "Upgrade: vfproto")))
		time.Sleep(30 * time.Millisecond)
		Reset(c)
		e.O.Exs = []Ex{{Val: Val{St: 1, Rwc: true, W: 9}, Method: "GET", UpStatus: 101}}
		e.Rig.WaitEvents("wrote", 1, 3*time.Second)
	})

	// the origin dies in the middle of the body (after the head has been relayed): the write of the response fails after the head
	for _, k := range []struct{ n, head string; rst bool }{
		{"length-fin", "HTTP/1.1 200 OK\r\nContent-Length: 100\r\n\r\n", false},
		{"length-rst", "HTTP/1.1 200 OK\r\nContent-Length: 100\r\n\r\n", true},
		{"chunked-fin", "HTTP/1.1 200 OK\r\nTransfer-Encoding: chunked\r\n\r\n64\r\n", false},
		{"chunked-rst", "HTTP/1.1 200 OK\r\nTransfer-Encoding: chunked\r\n\r\n64\r\n", true},
	} {
		k := k
		add("origin-dies-mid-body-"+k.n, "write-fail", func(e *Env) {
			o := e.Peer(func(c net.Conn, n int) {
				if _, err := ReadHead(c, 5*time.Second); err != nil {
					c.Close()
					return
				}
				c.Write([]byte(k.head + "0123456789"))
				time.Sleep(30 * time.Millisecond)
				if k.rst {
					Reset(c)
				} else {
					c.Close()
				}
			})
			e.Start(nil)
			c := e.Client()
			c.Write([]byte(getReq("http://" + o.Addr + "/cut")))
			co := ReadResponse(c, false, 3*time.Second)
			if co.P.Verdict == VComplete {
				e.Failf("a truncated reply was delivered as a complete message")
			}
			e.O.Exs = []Ex{{Val: Val{W: 2}, Method: "GET", UpStatus: 200}}
			e.Rig.WaitEvents("wrote", 1, 3*time.Second)
		})
	}

	// client aborts while downloading: origin sends a large body, client resets after the head
	add("client-abort-download", "write-fail", func(e *Env) {
		big := strings.Repeat("x", 8<<20)
		o := e.Peer(OriginReplying(ReplyCL(200, "OK", big), "keep"))
		e.Start(nil)
		c := e.Client()
		c.Write([]byte(getReq("http://" + o.Addr + "/big")))
		buf := make([]byte, 1024)
		c.SetReadDeadline(time.Now().Add(3 * time.Second))
		if _, err := c.Read(buf); err != nil {
			e.Failf("no head before abort: %v", err)
		}
		Reset(c)
		e.O.Exs = []Ex{{Val: Val{W: 2}, Method: "GET", UpStatus: 200}}
		e.Rig.WaitEvents("wrote", 1, 3*time.Second)
	})
	// client aborts while uploading: announces 1 MiB, sends 1 KiB, closes
	add("client-abort-upload", "rt-err", func(e *Env) {
		o := e.Peer(func(c net.Conn, n int) {
			buf := make([]byte, 64*1024)
			for {
				if _, err := c.Read(buf); err != nil {
					c.Close()
					return
				}
			}
		})
		e.Start(nil)
		c := e.Client()
		c.Write([]byte(reqLine("POST", "http://"+o.Addr+"/up", "HTTP/1.1", "Content-Length: 1048576") + strings.Repeat("u", 1024)))
		time.Sleep(30 * time.Millisecond)
		c.Close()
		// the round trip fails with an unexpected EOF on the request body; the error
		// response may or may not still be writable (w is not determined: use W=9 "any")
		f := NoFeat()
		f.OpErr = 1 // "readfrom tcp ...: unexpected EOF" is a *net.OpError
		e.O.Exs = []Ex{{Val: Val{Rt: 1, W: 9}, Method: "POST", Feat: f}}
		e.Rig.WaitEvents("wrote", 1, 3*time.Second)
	})

	// ---------------------------------------------------------------- CONNECT
	add("connect-direct-ok", "connect-ok", func(e *Env) {
		o := e.Peer(func(c net.Conn, n int) { Echo(c) })
		e.Start(nil)
		c := e.Client()
		ex := Ex{Val: Val{Connect: true}, Method: "CONNECT"}
		co := e.Do(c, connectReq(o.Addr), true, &ex)
		if co.P.Verdict == VComplete && co.P.Status == 200 {
			c.Write([]byte("ping"))
			buf := make([]byte, 4)
			c.SetReadDeadline(time.Now().Add(2 * time.Second))
			if _, err := ioReadFull(c, buf); err != nil || string(buf) != "ping" {
				e.Failf("tunnel did not echo: %v %q", err, buf)
			}
		}
		time.Sleep(20 * time.Millisecond)
		if n := len(e.Rig.Events()); n != 1 {
			e.Failf("expected only the read event while the tunnel is up, have %d events", n)
		}
		e.Rig.Mark()
		c.Close()
		e.O.Exs = []Ex{ex}
	})
	add("connect-via-upstream-ok", "connect-ok", func(e *Env) {
		up := e.Peer(echoingUpstream(0))
		e.Start(func(op *Options) { op.Upstream = "http://" + up.Addr })
		c := e.Client()
		ex := Ex{Val: Val{Connect: true}, Method: "CONNECT"}
		co := e.Do(c, connectReq("example.invalid:443"), true, &ex)
		if co.P.Verdict == VComplete && co.P.Status == 200 {
			c.Write([]byte("ping"))
			buf := make([]byte, 4)
			c.SetReadDeadline(time.Now().Add(2 * time.Second))
			if _, err := ioReadFull(c, buf); err != nil || string(buf) != "ping" {
				e.Failf("tunnel did not echo: %v %q", err, buf)
			}
		}
		e.Rig.Mark()
		c.Close()
		e.O.Exs = []Ex{ex}
	})
	add("connect-refused", "connect-err", func(e *Env) {
		e.Start(nil)
		c := e.Client()
		f := NoFeat()
		f.OpErr = 1
		ex := Ex{Val: Val{Connect: true, Cn: 1}, Method: "CONNECT", Feat: f}
		co := e.Do(c, connectReq(FreeAddr()), false, &ex)
		e.End(c, co)
		e.O.Exs = []Ex{ex}
	})
	add("connect-dial-timeout", "connect-err", func(e *Env) {
		o := e.Peer(func(c net.Conn, n int) { Echo(c) })
		e.Start(func(op *Options) { op.DialTimeout = time.Nanosecond })
		c := e.Client()
		f := NoFeat()
		f.OpErr = 2
		ex := Ex{Val: Val{Connect: true, Cn: 1}, Method: "CONNECT", Feat: f}
		co := e.Do(c, connectReq(o.Addr), false, &ex)
		e.End(c, co)
		e.O.Exs = []Ex{ex}
	})
	add("connect-upstream-refused", "connect-err", func(e *Env) {
		e.Start(func(op *Options) { op.Upstream = "http://" + FreeAddr() })
		c := e.Client()
		f := NoFeat()
		f.OpErr = 1
		ex := Ex{Val: Val{Connect: true, Cn: 1}, Method: "CONNECT", Feat: f}
		co := e.Do(c, connectReq("example.invalid:443"), false, &ex)
		e.End(c, co)
		e.O.Exs = []Ex{ex}
	})
	for _, r := range []struct {
		n      string
		status int
		reply  string
	}{
		{"403-nobody", 403, Reply(403, "Forbidden", []string{"Content-Length: 0"}, "")},
		{"403-body", 403, ReplyCL(403, "Forbidden", "go away")},
		{"407-body", 407, Reply(407, "Proxy Authentication Required", []string{"Proxy-Authenticate: Basic realm=\"up\"", "Content-Length: 4"}, "auth")},
		{"503-body", 503, ReplyCL(503, "Service Unavailable", "later")},
		{"101", 101, Reply(101, "Switching Protocols", []string{"Connection: Upgrade", "Upgrade: vfproto"}, "")},
	} {
		r := r
		add("connect-upstream-rejects-"+r.n, "connect-rejected", func(e *Env) {
			up := e.Peer(rejectingUpstream(r.reply))
			e.Start(func(op *Options) { op.Upstream = "http://" + up.Addr })
			c := e.Client()
			ex := Ex{Val: Val{Connect: true, Cn: 2, St: stClass(r.status)}, Method: "CONNECT", UpStatus: r.status}
			co := e.Do(c, connectReq("example.invalid:443"), false, &ex)
			e.End(c, co)
			e.O.Exs = []Ex{ex}
		})
	}
	add("connect-mres-err", "connect-mres-err", func(e *Env) {
		o := e.Peer(func(c net.Conn, n int) { Echo(c) })
		e.Start(nil)
		c := e.Client()
		ex := Ex{Val: Val{Connect: true, MresErr: true}, Method: "CONNECT", Feat: faultFeat("plain")}
		co := e.Do(c, connectReq(o.Addr, FaultHeader+": mres-plain"), false, &ex)
		e.End(c, co)
		e.O.Exs = []Ex{ex}
	})
	// the client is gone when the 200 is written: upstream delays its answer, client resets meanwhile
	add("connect-client-gone-before-200", "connect-write-fail", func(e *Env) {
		up := e.Peer(echoingUpstream(150 * time.Millisecond))
		e.Start(func(op *Options) { op.Upstream = "http://" + up.Addr })
		c := e.Client()
		c.Write([]byte(connectReq("example.invalid:443")))
		time.Sleep(30 * time.Millisecond)
		Reset(c)
		e.O.Exs = []Ex{{Val: Val{Connect: true, W: 9}, Method: "CONNECT"}}
		e.Rig.WaitEvents("wrote", 1, 3*time.Second)
	})

	// a shutdown begins while the upstream proxy has not yet answered the CONNECT: outside the statement
	// (no shutdown in progress), driven to confirm the model's account of it: 200 with Connection: close,
	// no tunnel, no completion report
	add("connect-answered-during-shutdown", "connect-during-shutdown", func(e *Env) {
		up := e.Peer(echoingUpstream(250 * time.Millisecond))
		e.Start(func(op *Options) { op.Upstream = "http://" + up.Addr })
		c := e.Client()
		c.Write([]byte(connectReq("example.invalid:443")))
		e.Rig.WaitEvents("read", 1, time.Second)
		e.Rig.BeginShutdown()
		e.O.Shutdown = true
		ex := Ex{Val: Val{Connect: true, ClosingW: true}, Method: "CONNECT"}
		co := ReadResponse(c, true, 3*time.Second)
		ex.Seen, ex.Verdict = true, co.P.Verdict
		if co.P.Verdict == VComplete {
			ex.Client = co.P.Status
		}
		e.End(c, co)
		e.O.Exs = []Ex{ex}
	})

	// ---------------------------------------------------------------- more upstream faults (status mapping, C12)
	httpsGet := func(addr string) string { return getReq("https://" + addr + "/x") }
	type tlsFault struct {
		name string
		h    func(c net.Conn, n int)
		opt  func(*Options)
		feat func(*Feat)
	}
	cert2, _, _ := SelfSigned()
	for _, tf := range []tlsFault{
		{"tls-origin-closes-in-handshake", func(c net.Conn, n int) { buf := make([]byte, 16); c.Read(buf); c.Close() }, nil,
			func(f *Feat) { f.OpErr = 1 }}, // unread handshake bytes turn the close into a reset: read tcp ...: connection reset by peer
		{"tls-origin-resets-in-handshake", func(c net.Conn, n int) { buf := make([]byte, 16); c.Read(buf); Reset(c) }, nil,
			func(f *Feat) { f.OpErr = 1 }},
		{"tls-origin-requires-client-cert", func(c net.Conn, n int) {
			tc := tls.Server(c, &tls.Config{Certificates: []tls.Certificate{cert2}, ClientAuth: tls.RequireAnyClientCert})
			tc.SetDeadline(time.Now().Add(2 * time.Second))
			tc.Handshake()
			buf := make([]byte, 16)
			tc.Read(buf)
			tc.Close()
		}, func(o *Options) { o.InsecureUpstream = true }, func(f *Feat) { f.OpErr = 1 }}, // remote error: tls: certificate required (an OpError)
		{"tls-origin-old-version-only", func(c net.Conn, n int) {
			tc := tls.Server(c, &tls.Config{Certificates: []tls.Certificate{cert2}, MaxVersion: tls.VersionTLS10, MinVersion: tls.VersionTLS10})
			tc.SetDeadline(time.Now().Add(2 * time.Second))
			tc.Handshake()
			tc.Close()
		}, nil, func(f *Feat) { f.OpErr = 1 }},
		{"tls-origin-garbage-handshake-message", func(c net.Conn, n int) {
			c.Write([]byte{22, 3, 3, 0, 5, 9, 9, 9, 9, 9})
			time.Sleep(50 * time.Millisecond)
			c.Close()
		}, nil, func(f *Feat) {}}, // "tls: handshake message of length ... exceeds maximum": an untyped error
	} {
		tf := tf
		cs = append(cs, ExCase{Name: "rt-" + tf.name, Leaf: "rt-err", Class: "tlsfail", Run: func(e *Env) {
			o := e.Peer(tf.h)
			e.Start(tf.opt)
			c := e.Client()
			f := NoFeat()
			f.HTTPS = true
			tf.feat(&f)
			ex := Ex{Val: Val{Rt: 1}, Method: "GET", Feat: f}
			co := e.Do(c, httpsGet(o.Addr), false, &ex)
			e.End(c, co)
			e.O.Exs = []Ex{ex}
		}})
	}
	cs = append(cs, ExCase{Name: "rt-tls-handshake-timeout", Leaf: "rt-err", Class: "timeout", Run: func(e *Env) {
		o := e.Peer(func(c net.Conn, n int) { time.Sleep(2 * time.Second); c.Close() })
		e.Start(func(op *Options) { op.TLSHandshakeTimeout = 250 * time.Millisecond })
		c := e.Client()
		f := NoFeat()
		f.HTTPS, f.Timeout = true, true // net/http: TLS handshake timeout (Timeout() true, not an OpError)
		ex := Ex{Val: Val{Rt: 1}, Method: "GET", Feat: f}
		co := e.Do(c, httpsGet(o.Addr), false, &ex)
		e.End(c, co)
		e.O.Exs = []Ex{ex}
	}})
	cs = append(cs, ExCase{Name: "rt-response-header-timeout", Leaf: "rt-err", Class: "other", Run: func(e *Env) {
		o := e.Peer(func(c net.Conn, n int) { time.Sleep(2 * time.Second); c.Close() })
		e.Start(func(op *Options) { op.ResponseHeaderTimeout = 250 * time.Millisecond })
		c := e.Client()
		f := NoFeat()
		f.Timeout = true // net/http: timeout awaiting response headers
		ex := Ex{Val: Val{Rt: 1}, Method: "GET", Feat: f}
		co := e.Do(c, getReq("http://"+o.Addr+"/x"), false, &ex)
		e.End(c, co)
		e.O.Exs = []Ex{ex}
	}})
	cs = append(cs, ExCase{Name: "connect-upstream-silent-connect-timeout", Leaf: "connect-err", Class: "timeout", Run: func(e *Env) {
		up := e.Peer(func(c net.Conn, n int) { time.Sleep(2 * time.Second); c.Close() })
		e.Start(func(op *Options) { op.Upstream = "http://" + up.Addr; op.ConnectTimeout = 250 * time.Millisecond })
		c := e.Client()
		f := NoFeat()
		f.Timeout = true // context deadline exceeded
		ex := Ex{Val: Val{Connect: true, Cn: 1}, Method: "CONNECT", Feat: f}
		co := e.Do(c, connectReq("example.invalid:443"), false, &ex)
		e.End(c, co)
		e.O.Exs = []Ex{ex}
	}})
	// CONNECT that asks the proxy to terminate TLS towards the target (X-Martian-Terminate-Tls: true) and the target's
	// handshake fails: the connection to the target is already dialled and must be closed
	// ("no-server-name": without InsecureSkipVerify the handshake fails before a byte is sent — martian's client TLS
	// configuration for terminated tunnels carries no ServerName)
	for _, k := range []string{"plaintext", "closes", "no-server-name"} {
		k := k
		cs = append(cs, ExCase{Name: "connect-terminate-tls-target-" + k, Leaf: "connect-err", Class: map[string]string{"plaintext": "tlsfail", "closes": "other", "no-server-name": "other"}[k], Run: func(e *Env) {
			o := e.Peer(e.WatchedUpstream(func(c net.Conn, n int) {
				if k == "plaintext" {
					c.Write([]byte("HTTP/1.1 400 Bad Request\r\nContent-Length: 0\r\n\r\n"))
				} else {
					buf := make([]byte, 16)
					c.SetReadDeadline(time.Now().Add(2 * time.Second))
					c.Read(buf)
					c.(*net.TCPConn).CloseWrite()
				}
			}))
			e.Start(func(op *Options) { op.InsecureUpstream = k != "no-server-name" })
			c := e.Client()
			f := NoFeat()
			f.RecordHdr = k == "plaintext" // "closes": EOF during the handshake, no typed TLS error
			ex := Ex{Val: Val{Connect: true, Cn: 1}, Method: "CONNECT", Feat: f}
			co := e.Do(c, connectReq(o.Addr, "X-Martian-Terminate-Tls: true"), false, &ex)
			e.End(c, co)
			e.O.Exs = []Ex{ex}
		}})
	}
	// upstream proxy reached over TLS (https://): TLS failures towards the upstream proxy
	cs = append(cs, ExCase{Name: "connect-https-upstream-speaks-plaintext", Leaf: "connect-err", Class: "tlsfail", Run: func(e *Env) {
		up := e.Peer(func(c net.Conn, n int) {
			c.Write([]byte("HTTP/1.1 400 Bad Request\r\nContent-Length: 0\r\n\r\n"))
			time.Sleep(50 * time.Millisecond)
			c.Close()
		})
		e.Start(func(op *Options) { op.Upstream = "https://" + up.Addr })
		c := e.Client()
		f := NoFeat()
		f.RecordHdr = true
		ex := Ex{Val: Val{Connect: true, Cn: 1}, Method: "CONNECT", Feat: f}
		co := e.Do(c, connectReq("example.invalid:443"), false, &ex)
		e.End(c, co)
		e.O.Exs = []Ex{ex}
	}})
	cs = append(cs, ExCase{Name: "connect-https-upstream-untrusted-cert", Leaf: "connect-err", Class: "tlsfail", Run: func(e *Env) {
		up := e.Peer(func(c net.Conn, n int) {
			tc := tls.Server(c, &tls.Config{Certificates: []tls.Certificate{cert2}, MinVersion: tls.VersionTLS12})
			tc.SetDeadline(time.Now().Add(2 * time.Second))
			tc.Handshake()
			tc.Close()
		})
		e.Start(func(op *Options) { op.Upstream = "https://" + up.Addr })
		c := e.Client()
		f := NoFeat()
		f.Cert = true
		ex := Ex{Val: Val{Connect: true, Cn: 1}, Method: "CONNECT", Feat: f}
		co := e.Do(c, connectReq("example.invalid:443"), false, &ex)
		e.End(c, co)
		e.O.Exs = []Ex{ex}
	}})
	// SOCKS5 upstream proxy
	for _, k := range []string{"refuses-target", "garbage", "closes", "silent"} {
		k := k
		class := map[string]string{"refuses-target": "connfail", "garbage": "other", "closes": "other", "silent": "timeout"}[k]
		cs = append(cs, ExCase{Name: "connect-socks5-upstream-" + k, Leaf: "connect-err", Class: class, Run: func(e *Env) {
			up := e.Peer(func(c net.Conn, n int) {
				buf := make([]byte, 64)
				c.SetReadDeadline(time.Now().Add(2 * time.Second))
				c.Read(buf) // greeting: 05 01 00
				switch k {
				case "garbage":
					c.Write([]byte("HTTP/1.1 200 OK\r\n\r\n"))
					c.Close()
				case "closes":
					c.Close()
				case "silent":
					time.Sleep(2 * time.Second)
					c.Close()
				default:
					c.Write([]byte{5, 0})  // no authentication
					c.Read(buf)            // connect request
					c.Write([]byte{5, 5, 0, 1, 0, 0, 0, 0, 0, 0}) // reply: connection refused
					time.Sleep(30 * time.Millisecond)
					c.Close()
				}
			})
			e.Start(func(op *Options) { op.Upstream = "socks5://" + up.Addr; op.ConnectTimeout = 300 * time.Millisecond })
			c := e.Client()
			f := NoFeat()
			f.OpErr = 1 // golang.org/x/net/internal/socks reports *net.OpError{Op: "socks connect"}
			if k == "silent" {
				f.OpErr = 2
			}
			ex := Ex{Val: Val{Connect: true, Cn: 1}, Method: "CONNECT", Feat: f}
			co := e.Do(c, connectReq("example.invalid:443"), false, &ex)
			e.End(c, co)
			e.O.Exs = []Ex{ex}
		}})
	}
	for _, k := range []string{"close", "garbage", "reset"} {
		k := k
		class := "other"
		if k == "reset" {
			class = "connfail"
		}
		cs = append(cs, ExCase{Name: "connect-upstream-" + k + "-instead-of-reply", Leaf: "connect-err", Class: class, Run: func(e *Env) {
			up := e.Peer(func(c net.Conn, n int) {
				ReadHead(c, time.Second)
				switch k {
				case "garbage":
					c.Write([]byte("\x00\x01garbage\r\n\r\n"))
					time.Sleep(30 * time.Millisecond)
					c.Close()
				case "reset":
					Reset(c)
				default:
					c.Close()
				}
			})
			e.Start(func(op *Options) { op.Upstream = "http://" + up.Addr })
			c := e.Client()
			f := NoFeat()
			if k == "reset" {
				f.OpErr = 1
			}
			ex := Ex{Val: Val{Connect: true, Cn: 1}, Method: "CONNECT", Feat: f}
			co := e.Do(c, connectReq("example.invalid:443"), false, &ex)
			e.End(c, co)
			e.O.Exs = []Ex{ex}
		}})
	}

	// ---------------------------------------------------------------- MITM
	add("mitm-tls-inner-get", "mitm", func(e *Env) {
		cert, _, err := SelfSigned()
		if err != nil {
			e.Failf("cert: %v", err)
		}
		o := e.Peer(func(c net.Conn, n int) {
			tc := tls.Server(c, &tls.Config{Certificates: []tls.Certificate{cert}, MinVersion: tls.VersionTLS12})
			OriginReplying(ReplyCL(200, "OK", "secret"), "keep")(tc, n)
		})
		e.Start(func(op *Options) { op.MITM = true; op.InsecureUpstream = true })
		c := e.Client()
		ex1 := Ex{Val: Val{Connect: true, Mitm: true, After: 1}, Method: "CONNECT"}
		co := e.Do(c, connectReq(o.Addr), true, &ex1)
		if co.P.Verdict != VComplete || co.P.Status != 200 {
			e.Failf("mitm CONNECT not accepted: %+v", co.P)
			e.O.Exs = []Ex{ex1}
			return
		}
		tc, err := TLSClient(c, "127.0.0.1")
		if err != nil {
			e.Failf("mitm handshake: %v", err)
			e.O.Exs = []Ex{ex1}
			return
		}
		ex2 := Ex{Val: Val{}, Method: "GET", UpStatus: 200}
		co2 := e.Do(tc, "GET /inner HTTP/1.1\r\nHost: "+o.Addr+"\r\n\r\n", false, &ex2)
		_ = co2
		e.O.Exs = []Ex{ex1, ex2}
	})
	// h2 hand-off: the client negotiates h2 inside the intercepted TLS session, martian relays frames to an h2 origin
	add("mitm-h2-inner-get", "mitm-h2", func(e *Env) {
		cert, leaf, err := SelfSigned()
		if err != nil {
			e.Failf("cert: %v", err)
			return
		}
		pool := x509.NewCertPool()
		pool.AddCert(leaf)
		srv := &http.Server{Handler: http.HandlerFunc(func(w http.ResponseWriter, r *http.Request) {
			w.Header().Set("X-Proto", r.Proto)
			w.WriteHeader(200)
			w.Write([]byte("h2-secret"))
		})}
		http2.ConfigureServer(srv, nil)
		ln, err := tls.Listen("tcp", "127.0.0.1:0", &tls.Config{Certificates: []tls.Certificate{cert}, NextProtos: []string{"h2"}, MinVersion: tls.VersionTLS12})
		if err != nil {
			e.Failf("origin: %v", err)
			return
		}
		go srv.Serve(ln)
		defer srv.Close()
		origin := ln.Addr().String()
		e.Start(func(op *Options) { op.MITM = true; op.InsecureUpstream = true; op.MITMH2Roots = pool })
		c := e.Client()
		ex1 := Ex{Val: Val{Connect: true, Mitm: true, After: 4}, Method: "CONNECT"}
		co := e.Do(c, connectReq(origin), true, &ex1)
		e.O.Exs = []Ex{ex1}
		if co.P.Verdict != VComplete || co.P.Status != 200 {
			e.Failf("mitm CONNECT not accepted")
			return
		}
		tc := tls.Client(c, &tls.Config{InsecureSkipVerify: true, ServerName: "127.0.0.1", NextProtos: []string{"h2"}}) //nolint:gosec // test rig
		tc.SetDeadline(time.Now().Add(5 * time.Second))
		if err := tc.Handshake(); err != nil {
			e.Failf("mitm handshake: %v", err)
			return
		}
		tc.SetDeadline(time.Time{})
		if p := tc.ConnectionState().NegotiatedProtocol; p != "h2" {
			e.Failf("h2 not negotiated with the proxy: %q", p)
			return
		}
		cc, err := (&http2.Transport{}).NewClientConn(tc)
		if err != nil {
			e.Failf("h2 client: %v", err)
			return
		}
		for i := 0; i < 3; i++ {
			req, _ := http.NewRequest("GET", "https://"+origin+"/inner", nil)
			res, err := cc.RoundTrip(req)
			if err != nil {
				e.Failf("h2 round trip through the proxy: %v", err)
				return
			}
			b, _ := io.ReadAll(res.Body)
			res.Body.Close()
			if res.StatusCode != 200 || string(b) != "h2-secret" || res.Header.Get("X-Proto") != "HTTP/2.0" {
				e.Failf("h2 reply through the proxy: %d %q %q", res.StatusCode, b, res.Header.Get("X-Proto"))
			}
		}
		// requests inside the h2 session are relayed frame by frame: no ProxyTrace event for them
		time.Sleep(20 * time.Millisecond)
		if n := len(e.Rig.Events()); n != 2 {
			e.Failf("expected the read and the completion of the CONNECT only, have %d events", n)
		}
		cc.Close()
		tc.Close() // the client ends the session; the proxy's next readRequest on the connection fails
	})
	add("mitm-client-closes-after-200", "mitm", func(e *Env) {
		e.Start(func(op *Options) { op.MITM = true; op.InsecureUpstream = true })
		c := e.Client()
		ex1 := Ex{Val: Val{Connect: true, Mitm: true, After: 2}, Method: "CONNECT"}
		e.Do(c, connectReq("127.0.0.1:9"), true, &ex1)
		c.Close()
		e.O.Exs = []Ex{ex1}
	})
	add("mitm-bad-handshake", "mitm", func(e *Env) {
		e.Start(func(op *Options) { op.MITM = true; op.InsecureUpstream = true })
		c := e.Client()
		ex1 := Ex{Val: Val{Connect: true, Mitm: true, After: 3}, Method: "CONNECT"}
		e.Do(c, connectReq("127.0.0.1:9"), true, &ex1)
		c.Write([]byte{22, 3, 1, 0, 5, 1, 2, 3, 4, 5})
		st, _ := ConnState(c, 2*time.Second)
		e.O.CheckEnd, e.O.Closed = true, st == "closed" || st == "reset" || st == "data"
		e.O.Exs = []Ex{ex1}
	})
	add("mitm-plain-inner-get", "mitm", func(e *Env) {
		o := e.Peer(OriginReplying(ReplyCL(200, "OK", "inner"), "keep"))
		e.Start(func(op *Options) { op.MITM = true; op.InsecureUpstream = true })
		c := e.Client()
		ex1 := Ex{Val: Val{Connect: true, Mitm: true, After: 0}, Method: "CONNECT"}
		e.Do(c, connectReq(o.Addr), true, &ex1)
		ex2 := Ex{Val: Val{}, Method: "GET", UpStatus: 200}
		co := e.Do(c, "GET /inner HTTP/1.1\r\nHost: "+o.Addr+"\r\n\r\n", false, &ex2)
		e.End(c, co)
		e.O.Exs = []Ex{ex1, ex2}
	})
	add("mitm-mres-err", "mitm", func(e *Env) {
		e.Start(func(op *Options) { op.MITM = true; op.InsecureUpstream = true })
		c := e.Client()
		ex1 := Ex{Val: Val{Connect: true, Mitm: true, MresErr: true}, Method: "CONNECT", Feat: faultFeat("plain")}
		co := e.Do(c, connectReq("127.0.0.1:9", FaultHeader+": mres-plain"), false, &ex1)
		e.End(c, co)
		e.O.Exs = []Ex{ex1}
	})
	if tier == "thorough" {
		// more statuses and methods through the plain leaf, and every case three times (the write-failure
		// and abort cases are decided by races between the peers)
		for _, st := range []int{200, 201, 203, 206, 300, 301, 304, 400, 401, 403, 409, 418, 429, 451, 500, 501, 503, 599} {
			for _, m := range []string{"GET", "POST", "PUT", "DELETE", "OPTIONS", "PATCH"} {
				st, m := st, m
				add(fmt.Sprintf("plain-status-%d-%s", st, m), "plain-ok", func(e *Env) {
					reply := ReplyCL(st, "X", "body")
					if st == 304 {
						reply = Reply(304, "Not Modified", nil, "")
					}
					o := e.Peer(OriginReplying(reply, "keep"))
					e.Start(nil)
					c := e.Client()
					ex := Ex{Val: Val{St: stClass(st)}, Method: m, UpStatus: st}
					extra := []string(nil)
					if m != "GET" && m != "DELETE" && m != "OPTIONS" {
						extra = []string{"Content-Length: 0"}
					}
					co := e.Do(c, reqLine(m, "http://"+o.Addr+"/x", "HTTP/1.1", extra...), false, &ex)
					e.End(c, co)
					e.O.Exs = []Ex{ex}
				})
			}
		}
		base := append([]ExCase(nil), cs...)
		for r := 1; r < 3; r++ {
			for _, c := range base {
				c.Name = fmt.Sprintf("%s#%d", c.Name, r)
				cs = append(cs, c)
			}
		}
	}
	for i := range cs {
		if cs[i].Class != "" {
			continue
		}
		n := cs[i].Name
		switch {
		case n == "rt-refused", n == "connect-refused", n == "connect-upstream-refused":
			cs[i].Class = "connfail"
		case n == "rt-dial-timeout", n == "connect-dial-timeout":
			cs[i].Class = "timeout"
		case strings.HasPrefix(n, "rt-https-"):
			cs[i].Class = "tlsfail"
		case strings.HasPrefix(n, "rt-upstream-rejects-connect-"), strings.HasPrefix(n, "connect-upstream-rejects-"):
			cs[i].Class = "rejected"
		case strings.HasPrefix(n, "mres-"), n == "connect-mres-err", n == "mitm-mres-err", strings.HasPrefix(n, "mreq-"):
			cs[i].Class = "refusal"
		}
	}
	return cs
}

// HandlerVariants returns the cases that make sense for martian's http.Handler implementation (no MITM, no
// shutdown-in-progress cases, no cases about reading the request: net/http's server reads it), to be run with
// TestingHTTPHandler.  Whether the connection is closed afterwards is net/http's decision and is not compared.
func HandlerVariants(cs []ExCase) []ExCase {
	var out []ExCase
	for _, c := range cs {
		switch c.Leaf {
		case "read-eof", "read-err", "mitm", "mitm-h2", "connect-during-shutdown":
			continue
		}
		if strings.Contains(c.Name, "#") {
			continue
		}
		c.Name += "@handler"
		c.Opt.Handler = true
		out = append(out, c)
	}
	return out
}

func stClass(st int) int {
	switch {
	case st/100 == 2:
		return 0
	case st == 101:
		return 1
	}
	return 2
}

func ioReadFull(c net.Conn, buf []byte) (int, error) {
	n := 0
	for n < len(buf) {
		m, err := c.Read(buf[n:])
		n += m
		if err != nil {
			return n, err
		}
	}
	return n, nil
}
