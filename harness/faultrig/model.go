package faultrig

import (
	"fmt"
	"sort"
	"strings"

	"verifharness/coqfmt"
)

// Val is a branch valuation of the exchange path model G12.Exchange (one
// exchange = one pass through proxyConn.handle).  Field meanings are those of
// the Coq record `val`.
type Val struct {
	Rd       int  `json:"rd"`        // 0 request read, 1 EOF, 2 other read error
	Closing  bool `json:"closing"`   // proxy is closing when the request has been read
	Connect  bool `json:"connect"`   // method is CONNECT
	MreqErr  bool `json:"mreq_err"`  // request modifiers return an error
	Mitm     bool `json:"mitm"`      // CONNECT is intercepted
	Rt       int  `json:"rt"`        // plain: 0 round trip ok, 1 error, 2 connectError (upstream proxy rejected the transport's CONNECT)
	St       int  `json:"st"`        // status class of the upstream response / relayed rejection: 0 2xx, 1 101, 2 other
	MresErr  bool `json:"mres_err"`  // response modifiers return an error on the upstream response
	Rwc      bool `json:"rwc"`       // body of a 101 response is a ReadWriteCloser
	Cn       int  `json:"cn"`        // CONNECT: 0 connected, 1 error, 2 upstream proxy answered non-2xx
	W        int  `json:"w"`         // first response write: 0 ok, 1 failed before any byte reached the client, 2 failed after the head
	DrainErr bool `json:"drain_err"` // draining the read buffer into the tunnel failed
	ReqClose bool `json:"req_close"` // request asks to close (HTTP/1.0 or Connection: close) or the response has Close set
	After    int  `json:"after"`     // MITM after the 200: 0 go on (plain bytes), 1 go on (TLS), 2 peek failed, 3 handshake failed, 4 h2 session
	ClosingW bool `json:"closing_w"` // a shutdown began before the response was written
}

// Coq renders the valuation as a Gallina record.
func (v Val) Coq() string {
	return fmt.Sprintf("(mkval %d %s %s %s %s %d %d %s %s %d %d %s %s %d %s)",
		v.Rd, coqfmt.Bool(v.Closing), coqfmt.Bool(v.Connect), coqfmt.Bool(v.MreqErr), coqfmt.Bool(v.Mitm), v.Rt, v.St,
		coqfmt.Bool(v.MresErr), coqfmt.Bool(v.Rwc), v.Cn, v.W, coqfmt.Bool(v.DrainErr), coqfmt.Bool(v.ReqClose), v.After, coqfmt.Bool(v.ClosingW))
}

// Feat are the errors.As / errors.Is facts of an error as the classifier sees
// them (Coq record G12.Errors.feat).
type Feat struct {
	Win        bool `json:"win"`         // windows WSAENETUNREACH syscall error
	OpErr      int  `json:"op_err"`      // 0 no *net.OpError, 1 OpError non-timeout, 2 OpError timeout
	RecordHdr  bool `json:"record_hdr"`  // tls.RecordHeaderError
	Cert       bool `json:"cert"`        // *tls.CertificateVerificationError
	Ech        bool `json:"ech"`         // *tls.ECHRejectionError
	Alert      bool `json:"alert"`       // tls.AlertError
	Status     int  `json:"status"`      // martian.ErrorStatus.Status, -1 if absent
	Auth       bool `json:"auth"`        // errors.Is ErrProxyAuthentication
	Deny       bool `json:"deny"`        // denyError
	Prohibited bool `json:"prohibited"`  // prohibitedError
	Canceled   bool `json:"canceled"`    // errors.Is context.Canceled
	HTTPS      bool `json:"https"`       // req.URL.Scheme == "https"
	StatusText int  `json:"status_text"` // first i in [400,600) with err.Error() == http.StatusText(i), 0 if none
	Timeout    bool `json:"timeout"`     // the first error in the chain that has a Timeout method answers true
	TimeoutSeen bool `json:"-"`
}

// Coq renders the features as a Gallina record.
func (f Feat) Coq() string {
	st := "None"
	if f.Status > 0 {
		st = fmt.Sprintf("(Some %d)", f.Status)
	}
	return fmt.Sprintf("(mkfeat %s %d %s %s %s %s %s %s %s %s %s %s %d %s)",
		coqfmt.Bool(f.Win), f.OpErr, coqfmt.Bool(f.RecordHdr), coqfmt.Bool(f.Cert), coqfmt.Bool(f.Ech), coqfmt.Bool(f.Alert),
		st, coqfmt.Bool(f.Auth), coqfmt.Bool(f.Deny), coqfmt.Bool(f.Prohibited), coqfmt.Bool(f.Canceled), coqfmt.Bool(f.HTTPS), f.StatusText, coqfmt.Bool(f.Timeout))
}

// NoFeat is the feature vector of an error nothing matches.
func NoFeat() Feat { return Feat{Status: -1} }

// CoqTrace renders trace events as a list of G12.Exchange.tev.
func CoqTrace(evs []TraceEv) string {
	parts := make([]string, len(evs))
	for i, e := range evs {
		parts[i] = fmt.Sprintf("(mktev %s %s %s %s %d %s %s)", coqfmt.Bool(e.Kind == "read"), coqfmt.Bool(e.HasReq),
			coqfmt.Str(e.Method), coqfmt.Bool(e.OwnReq), e.Status, coqfmt.Bool(e.Err != ""), coqfmt.Bool(e.AfterTunnel))
	}
	return coqfmt.List("tev", parts)
}

// CoqGauge renders label -> value pairs (sorted) as list (str * Z).
func CoqGauge(m map[string]float64) string {
	keys := make([]string, 0, len(m))
	for k := range m {
		keys = append(keys, k)
	}
	sort.Strings(keys)
	parts := make([]string, len(keys))
	for i, k := range keys {
		parts[i] = fmt.Sprintf("(%s, %s)", coqfmt.Str(k), coqfmt.Z(int64(m[k])))
	}
	return coqfmt.List("(str * Z)", parts)
}

// LabelValue extracts the value of label name from a flattened label string "a=b,c=d".
func LabelValue(labels, name string) string {
	for _, kv := range strings.Split(labels, ",") {
		if strings.HasPrefix(kv, name+"=") {
			return strings.TrimPrefix(kv, name+"=")
		}
	}
	return ""
}
