// Package rng is the single PRNG (splitmix64) every harness derives its random
// choices from, so that a seed and a case index replay exactly.
package rng

type R struct{ s uint64 }

func New(seed uint64) *R { return &R{s: seed} }

func (r *R) U64() uint64 {
	r.s += 0x9e3779b97f4a7c15
	z := r.s
	z = (z ^ (z >> 30)) * 0xbf58476d1ce4e5b9
	z = (z ^ (z >> 27)) * 0x94d049bb133111eb
	return z ^ (z >> 31)
}

// Intn returns a value in [0,n).
func (r *R) Intn(n int) int {
	if n <= 0 {
		return 0
	}
	return int(r.U64() % uint64(n))
}

// Bool returns true with probability num/den.
func (r *R) Chance(num, den int) bool { return r.Intn(den) < num }

// Pick returns one of the strings.
func (r *R) Pick(ss []string) string { return ss[r.Intn(len(ss))] }

// Fork derives an independent generator (for per-case replay).
func (r *R) Fork() *R { return New(r.U64()) }
