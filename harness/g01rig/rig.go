// Package g01rig is the end-to-end rig of proof group g01 (C18, C01): real
// forwarder proxies in-process (forwarder.NewHTTPProxy + Run), a scripted raw
// origin / upstream proxy on a TCP socket with an independent minimal HTTP/1
// parser, and a raw TCP client.
package g01rig

import (
	"bufio"
	"bytes"
	"context"
	"crypto/ecdsa"
	"crypto/elliptic"
	"crypto/rand"
	"crypto/tls"
	"crypto/x509"
	"crypto/x509/pkix"
	"errors"
	"math/big"
	"fmt"
	"io"
	"net"
	"net/http"
	"net/url"
	"strconv"
	"strings"
	"sync"
	"sync/atomic"
	"time"

	"github.com/prometheus/client_golang/prometheus"
	"github.com/saucelabs/forwarder"
	"github.com/saucelabs/forwarder/log"
)

// ---------------------------------------------------------------- minimal parser

// Field is one header field line as received: name as spelled on the wire,
// value with optional white space around it removed.
type Field struct{ Name, Value string }

// RawRequest is what the independent parser recovered from the bytes a peer received.
type RawRequest struct {
	ConnID     int
	Seq        int // index of the request on its connection
	Method     string
	Target     string
	Proto      string
	Fields     []Field
	Framing    string // none | cl | chunked
	Body       []byte
	ChunkSizes []int
	Trailers   []Field
	HeadBytes  []byte
	Err        string
}

func (r *RawRequest) Values(name string) []string {
	var out []string
	for _, f := range r.Fields {
		if strings.EqualFold(f.Name, name) {
			out = append(out, f.Value)
		}
	}
	return out
}

func trimOWS(s string) string { return strings.Trim(s, " \t") }

func readLine(br *bufio.Reader) (string, []byte, error) {
	raw, err := br.ReadBytes('\n')
	if err != nil {
		return "", raw, err
	}
	line := strings.TrimSuffix(string(raw), "\n")
	line = strings.TrimSuffix(line, "\r")
	return line, raw, nil
}

func readFields(br *bufio.Reader, rawAcc *[]byte) ([]Field, error) {
	var fs []Field
	for {
		line, raw, err := readLine(br)
		if rawAcc != nil {
			*rawAcc = append(*rawAcc, raw...)
		}
		if err != nil {
			return fs, err
		}
		if line == "" {
			return fs, nil
		}
		i := strings.IndexByte(line, ':')
		if i < 0 {
			return fs, fmt.Errorf("field line without colon: %q", line)
		}
		fs = append(fs, Field{line[:i], trimOWS(line[i+1:])})
	}
}

// ReadRawRequest parses one request (RFC 7230 section 3) from br.
func ReadRawRequest(br *bufio.Reader) (*RawRequest, error) { return ReadRawRequestHead(br, nil) }

// ReadRawRequestHead is ReadRawRequest with a callback that runs when the head has been parsed, before the body is read
// (used to answer "Expect: 100-continue").
func ReadRawRequestHead(br *bufio.Reader, onHead func(*RawRequest)) (*RawRequest, error) {
	r := &RawRequest{Framing: "none"}
	line, raw, err := readLine(br)
	if err != nil {
		if len(raw) == 0 {
			return nil, io.EOF
		}
		return nil, err
	}
	r.HeadBytes = append(r.HeadBytes, raw...)
	parts := strings.SplitN(line, " ", 3)
	if len(parts) != 3 {
		return nil, fmt.Errorf("bad request line %q", line)
	}
	r.Method, r.Target, r.Proto = parts[0], parts[1], parts[2]
	r.Fields, err = readFields(br, &r.HeadBytes)
	if err != nil {
		return nil, err
	}
	if onHead != nil {
		onHead(r)
	}
	te := r.Values("Transfer-Encoding")
	cl := r.Values("Content-Length")
	switch {
	case len(te) > 0:
		last := te[len(te)-1]
		toks := strings.Split(last, ",")
		if trimOWS(toks[len(toks)-1]) != "chunked" {
			return nil, fmt.Errorf("transfer-encoding does not end in chunked: %q", te)
		}
		r.Framing = "chunked"
		for {
			l, _, err := readLine(br)
			if err != nil {
				return nil, err
			}
			if i := strings.IndexByte(l, ';'); i >= 0 {
				l = l[:i]
			}
			n, err := strconv.ParseUint(strings.TrimSpace(l), 16, 31)
			if err != nil {
				return nil, fmt.Errorf("bad chunk size %q", l)
			}
			if n == 0 {
				break
			}
			buf := make([]byte, n)
			if _, err := io.ReadFull(br, buf); err != nil {
				return nil, err
			}
			r.Body = append(r.Body, buf...)
			r.ChunkSizes = append(r.ChunkSizes, int(n))
			if l, _, err := readLine(br); err != nil || l != "" {
				return nil, fmt.Errorf("chunk not followed by CRLF (%q, %v)", l, err)
			}
		}
		r.Trailers, err = readFields(br, nil)
		if err != nil {
			return nil, err
		}
	case len(cl) > 0:
		n, err := strconv.ParseUint(cl[0], 10, 31)
		if err != nil {
			return nil, fmt.Errorf("bad content-length %q", cl[0])
		}
		for _, c := range cl[1:] {
			if c != cl[0] {
				return nil, fmt.Errorf("differing content-length fields %q", cl)
			}
		}
		r.Framing = "cl"
		r.Body = make([]byte, n)
		if _, err := io.ReadFull(br, r.Body); err != nil {
			return nil, err
		}
	}
	return r, nil
}

// RawResponse is a parsed response as seen by the raw client.
type RawResponse struct {
	Proto   string
	Status  int
	Reason  string
	Fields  []Field
	Body    []byte
	Framing string // none | cl | chunked | close
}

func (r *RawResponse) Values(name string) []string {
	var out []string
	for _, f := range r.Fields {
		if strings.EqualFold(f.Name, name) {
			out = append(out, f.Value)
		}
	}
	return out
}

// ReadRawResponse parses one response; method decides header-only replies.
func ReadRawResponse(br *bufio.Reader, method string) (*RawResponse, error) {
	for {
		r, err := readRawResponse1(br, method)
		if err != nil || r.Status != 100 {
			return r, err
		}
		// an interim 100 Continue: the final response follows
	}
}

func readRawResponse1(br *bufio.Reader, method string) (*RawResponse, error) {
	r := &RawResponse{Framing: "none"}
	line, _, err := readLine(br)
	if err != nil {
		return nil, err
	}
	parts := strings.SplitN(line, " ", 3)
	if len(parts) < 2 {
		return nil, fmt.Errorf("bad status line %q", line)
	}
	r.Proto = parts[0]
	r.Status, err = strconv.Atoi(parts[1])
	if err != nil {
		return nil, fmt.Errorf("bad status line %q", line)
	}
	if len(parts) == 3 {
		r.Reason = parts[2]
	}
	r.Fields, err = readFields(br, nil)
	if err != nil {
		return nil, err
	}
	if method == "HEAD" || r.Status/100 == 1 || r.Status == 204 || r.Status == 304 {
		return r, nil
	}
	if method == "CONNECT" && r.Status/100 == 2 {
		return r, nil
	}
	te := r.Values("Transfer-Encoding")
	cl := r.Values("Content-Length")
	switch {
	case len(te) > 0 && strings.Contains(strings.ToLower(te[len(te)-1]), "chunked"):
		r.Framing = "chunked"
		for {
			l, _, err := readLine(br)
			if err != nil {
				return nil, err
			}
			if i := strings.IndexByte(l, ';'); i >= 0 {
				l = l[:i]
			}
			n, err := strconv.ParseUint(strings.TrimSpace(l), 16, 31)
			if err != nil {
				return nil, fmt.Errorf("bad chunk size %q", l)
			}
			if n == 0 {
				break
			}
			buf := make([]byte, n)
			if _, err := io.ReadFull(br, buf); err != nil {
				return nil, err
			}
			r.Body = append(r.Body, buf...)
			if _, _, err := readLine(br); err != nil {
				return nil, err
			}
		}
		if _, err := readFields(br, nil); err != nil {
			return nil, err
		}
	case len(cl) > 0:
		n, err := strconv.ParseUint(cl[0], 10, 31)
		if err != nil {
			return nil, fmt.Errorf("bad content-length %q", cl[0])
		}
		r.Framing = "cl"
		r.Body = make([]byte, n)
		if _, err := io.ReadFull(br, r.Body); err != nil {
			return nil, err
		}
	default:
		r.Framing = "close"
		r.Body, _ = io.ReadAll(br)
	}
	return r, nil
}

// ---------------------------------------------------------------- scripted origin / upstream proxy

// Origin is a scripted raw peer: it accepts TCP connections, parses each request
// with the minimal parser, records it and answers with Respond's bytes.
type Origin struct {
	L       net.Listener
	Respond func(r *RawRequest) []byte // nil: 200 with body "ok"

	mu    sync.Mutex
	conns int
	reqs  []*RawRequest
	errs  []string
}

func NewOrigin() (*Origin, error) {
	l, err := net.Listen("tcp", "127.0.0.1:0")
	if err != nil {
		return nil, err
	}
	o := &Origin{L: l}
	go o.serve()
	return o, nil
}

// NewTLSOrigin is NewOrigin behind TLS with a fresh self-signed certificate for 127.0.0.1.
func NewTLSOrigin() (*Origin, error) {
	key, err := ecdsa.GenerateKey(elliptic.P256(), rand.Reader)
	if err != nil {
		return nil, err
	}
	tmpl := &x509.Certificate{
		SerialNumber: big.NewInt(1), Subject: pkix.Name{CommonName: "g01rig origin"},
		NotBefore: time.Now().Add(-time.Hour), NotAfter: time.Now().Add(24 * time.Hour),
		KeyUsage: x509.KeyUsageDigitalSignature, ExtKeyUsage: []x509.ExtKeyUsage{x509.ExtKeyUsageServerAuth},
		IPAddresses: []net.IP{net.ParseIP("127.0.0.1")}, DNSNames: []string{"localhost"},
	}
	der, err := x509.CreateCertificate(rand.Reader, tmpl, tmpl, &key.PublicKey, key)
	if err != nil {
		return nil, err
	}
	cert := tls.Certificate{Certificate: [][]byte{der}, PrivateKey: key}
	l, err := net.Listen("tcp", "127.0.0.1:0")
	if err != nil {
		return nil, err
	}
	o := &Origin{L: tls.NewListener(l, &tls.Config{Certificates: []tls.Certificate{cert}, NextProtos: []string{"http/1.1"}})}
	go o.serve()
	return o, nil
}

func (o *Origin) Addr() string { return o.L.Addr().String() }
func (o *Origin) Close()       { o.L.Close() }

func (o *Origin) serve() {
	for {
		c, err := o.L.Accept()
		if err != nil {
			return
		}
		o.mu.Lock()
		o.conns++
		id := o.conns
		o.mu.Unlock()
		go o.handle(c, id)
	}
}

var defaultReply = []byte("HTTP/1.1 200 OK\r\nContent-Length: 2\r\n\r\nok")
var defaultHeadReply = []byte("HTTP/1.1 200 OK\r\nContent-Length: 2\r\n\r\n")

func (o *Origin) handle(c net.Conn, id int) {
	defer c.Close()
	br := bufio.NewReaderSize(c, 64<<10)
	for seq := 0; ; seq++ {
		r, err := ReadRawRequestHead(br, func(h *RawRequest) {
			for _, v := range h.Values("Expect") {
				if strings.EqualFold(v, "100-continue") {
					c.Write([]byte("HTTP/1.1 100 Continue\r\n\r\n"))
				}
			}
		})
		if err != nil {
			if !errors.Is(err, io.EOF) {
				o.mu.Lock()
				o.errs = append(o.errs, err.Error())
				o.mu.Unlock()
			}
			return
		}
		r.ConnID, r.Seq = id, seq
		o.mu.Lock()
		o.reqs = append(o.reqs, r)
		o.mu.Unlock()
		reply := defaultReply
		if r.Method == "HEAD" {
			reply = defaultHeadReply
		}
		if o.Respond != nil {
			reply = o.Respond(r)
		}
		if reply == nil {
			return
		}
		if _, err := c.Write(reply); err != nil {
			return
		}
	}
}

// Snapshot returns (connections accepted so far, requests received so far).
func (o *Origin) Snapshot() (int, int) {
	o.mu.Lock()
	defer o.mu.Unlock()
	return o.conns, len(o.reqs)
}

// Since returns the requests received after the first n.
func (o *Origin) Since(n int) []*RawRequest {
	o.mu.Lock()
	defer o.mu.Unlock()
	out := make([]*RawRequest, len(o.reqs)-n)
	copy(out, o.reqs[n:])
	return out
}

func (o *Origin) Errors() []string {
	o.mu.Lock()
	defer o.mu.Unlock()
	return append([]string(nil), o.errs...)
}

// ---------------------------------------------------------------- real proxy in-process

// Proxy is a real forwarder HTTP proxy running in this process.
type Proxy struct {
	HP     *forwarder.HTTPProxy
	Addr   string
	Name   string
	Passed atomic.Int64 // requests that passed the whole request modifier stack (inner modifier)
	// LoopGuard, when non-zero, makes the inner modifier fail once Passed exceeds it
	// (so that an undetected forwarding loop ends instead of exhausting the machine).
	LoopGuard atomic.Int64
	// Routed counts next-hop selections (one per forwarded request or CONNECT); RouteGuard,
	// when non-zero, makes the selection fail once Routed exceeds it.
	Routed     atomic.Int64
	RouteGuard atomic.Int64
	cancel context.CancelFunc
	done   chan error
	https  bool

	mu       sync.Mutex
	upstream *url.URL
}

// SetUpstream switches the upstream proxy (nil = direct) for subsequent requests.
func (p *Proxy) SetUpstream(u *url.URL) {
	p.mu.Lock()
	p.upstream = u
	p.mu.Unlock()
}

func (p *Proxy) URL() *url.URL {
	if p.https {
		return &url.URL{Scheme: "https", Host: p.Addr}
	}
	return &url.URL{Scheme: "http", Host: p.Addr}
}

// StartProxy builds the proxy exactly as cmd/forwarder does for a plain HTTP
// listener (forwarder.NewHTTPProxy, production transport from
// forwarder.NewHTTPTransport) and runs it.  tweak may adjust the configuration.
func StartProxy(name string, tweak func(cfg *forwarder.HTTPProxyConfig)) (*Proxy, error) {
	return StartProxyOpts(name, ProxyOpts{Tweak: tweak})
}

// ProxyOpts selects variations of the production wiring.
type ProxyOpts struct {
	Tweak func(cfg *forwarder.HTTPProxyConfig)
	// ConnectHeaderCallback sets Transport.GetProxyConnectHeader the way command/run
	// configureTransportProxy always does (a callback returning the configured, here empty, header).
	ConnectHeaderCallback bool
	// MITM enables interception of CONNECT tunnels with a self-signed CA (as --mitm does); the
	// transport then accepts any origin certificate (the scripted TLS origin is self-signed).
	MITM bool
	// HTTPSListener makes the proxy listen with TLS (self-signed certificate), i.e. it is an https:// upstream for others.
	HTTPSListener bool
	// InsecureUpstreamTLS: accept any certificate of a TLS upstream proxy / origin (the scripted TLS peers are self-signed).
	InsecureUpstreamTLS bool
	// Credentials are the site credentials (--credentials) handed to forwarder.NewHTTPProxy.
	Credentials *forwarder.CredentialsMatcher
}

func StartProxyOpts(name string, opts ProxyOpts) (*Proxy, error) {
	tweak := opts.Tweak
	p := &Proxy{Name: name, done: make(chan error, 1)}
	cfg := forwarder.DefaultHTTPProxyConfig()
	cfg.Address = "127.0.0.1:0"
	cfg.Name = name
	cfg.ProxyLocalhost = forwarder.AllowProxyLocalhost // the scripted peers live on 127.0.0.1
	cfg.UpstreamProxyFunc = func(*http.Request) (*url.URL, error) {
		// the guard sits here, outside the modifier stack, so that it also ends loops of a
		// proxy that ignores modifier errors
		n := p.Routed.Add(1)
		if g := p.RouteGuard.Load(); g != 0 && n > g {
			return nil, errors.New("verif: route guard tripped (forwarding loop not refused)")
		}
		p.mu.Lock()
		defer p.mu.Unlock()
		return p.upstream, nil
	}
	cfg.RequestModifiers = append(cfg.RequestModifiers, forwarder.RequestModifierFunc(func(*http.Request) error {
		n := p.Passed.Add(1)
		if g := p.LoopGuard.Load(); g != 0 && n > g {
			return errors.New("verif: loop guard tripped")
		}
		return nil
	}))
	if tweak != nil {
		tweak(cfg)
	}
	tcfg := forwarder.DefaultHTTPTransportConfig()
	if opts.HTTPSListener {
		cfg.Protocol = forwarder.HTTPSScheme
		cfg.PromRegistry = prometheus.NewRegistry() // the certificate expiry metric needs a registry
		cfg.PromNamespace = "g01rig_tls"
	}
	if opts.InsecureUpstreamTLS {
		tcfg.TLSClientConfig.Insecure = true
	}
	if opts.MITM {
		cfg.MITM = forwarder.DefaultMITMConfig()
		cfg.PromRegistry = prometheus.NewRegistry()
		cfg.PromNamespace = "g01rig"
		tcfg.TLSClientConfig.Insecure = true
	}
	rt, err := forwarder.NewHTTPTransport(tcfg)
	if err != nil {
		return nil, err
	}
	if opts.ConnectHeaderCallback {
		rt.GetProxyConnectHeader = func(context.Context, *url.URL, string) (http.Header, error) {
			// non-empty, like command/run with one --connect-header Add rule: the dialer must merge it with the
			// client's (modified) CONNECT header, not replace that header by it
			return http.Header{"X-Connect-Header": {"from-callback"}}, nil
		}
	}
	hp, err := forwarder.NewHTTPProxy(cfg, nil, opts.Credentials, rt, log.NopLogger, nil)
	if err != nil {
		return nil, err
	}
	addrs, ok := hp.Addr()
	if !ok || len(addrs) == 0 {
		return nil, errors.New("proxy has no address")
	}
	p.HP, p.Addr, p.https = hp, addrs[0], opts.HTTPSListener
	ctx, cancel := context.WithCancel(context.Background())
	p.cancel = cancel
	go func() { p.done <- hp.Run(ctx) }()
	return p, nil
}

func (p *Proxy) Stop() {
	p.cancel()
	select {
	case <-p.done:
	case <-time.After(5 * time.Second):
	}
}

// ---------------------------------------------------------------- raw client

type Client struct {
	C  net.Conn
	BR *bufio.Reader
}

func Dial(addr string) (*Client, error) {
	c, err := net.DialTimeout("tcp", addr, 5*time.Second)
	if err != nil {
		return nil, err
	}
	return &Client{C: c, BR: bufio.NewReaderSize(c, 64<<10)}, nil
}

// DialTLS connects to a proxy that listens with TLS (certificate not verified).
func DialTLS(addr string) (*Client, error) {
	c, err := net.DialTimeout("tcp", addr, 5*time.Second)
	if err != nil {
		return nil, err
	}
	tc := tls.Client(c, &tls.Config{InsecureSkipVerify: true, NextProtos: []string{"http/1.1"}})
	c.SetDeadline(time.Now().Add(20 * time.Second))
	if err := tc.Handshake(); err != nil {
		c.Close()
		return nil, err
	}
	return &Client{C: tc, BR: bufio.NewReaderSize(tc, 64<<10)}, nil
}

// DialMITM opens a CONNECT tunnel to target through the proxy and starts TLS inside it
// (certificate not verified: C07 checks what the proxy presents).
func DialMITM(proxyAddr, target string) (*Client, error) {
	c, err := Dial(proxyAddr)
	if err != nil {
		return nil, err
	}
	res, err := c.Do(BuildRequest("CONNECT", target, "HTTP/1.1", []Field{{"Host", target}}, nil), "CONNECT")
	if err != nil {
		c.Close()
		return nil, err
	}
	if res.Status != 200 {
		c.Close()
		return nil, fmt.Errorf("CONNECT answered %d", res.Status)
	}
	tc := tls.Client(c.C, &tls.Config{InsecureSkipVerify: true, ServerName: "localhost", NextProtos: []string{"http/1.1"}})
	c.C.SetDeadline(time.Now().Add(20 * time.Second))
	if err := tc.Handshake(); err != nil {
		c.Close()
		return nil, err
	}
	return &Client{C: tc, BR: bufio.NewReaderSize(tc, 64<<10)}, nil
}

func (c *Client) Close() { c.C.Close() }

// Do writes raw request bytes and reads one response.
func (c *Client) Do(raw []byte, method string) (*RawResponse, error) {
	c.C.SetDeadline(time.Now().Add(20 * time.Second))
	if _, err := c.C.Write(raw); err != nil {
		return nil, err
	}
	return ReadRawResponse(c.BR, method)
}

// BuildRequest renders a request: request line, the field lines in order, blank line, body bytes.
func BuildRequest(method, target, proto string, fields []Field, body []byte) []byte {
	var b bytes.Buffer
	fmt.Fprintf(&b, "%s %s %s\r\n", method, target, proto)
	for _, f := range fields {
		fmt.Fprintf(&b, "%s: %s\r\n", f.Name, f.Value)
	}
	b.WriteString("\r\n")
	b.Write(body)
	return b.Bytes()
}
