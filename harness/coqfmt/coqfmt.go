// Package coqfmt renders Go values as Gallina literals for cases.v files.
package coqfmt

import (
	"net/http"
	"sort"
	"strconv"
	"strings"
)

// Str renders a byte string as a list of N.
func Str(s string) string {
	if s == "" {
		return "(@nil N)"
	}
	parts := make([]string, len(s))
	for i := 0; i < len(s); i++ {
		parts[i] = strconv.Itoa(int(s[i]))
	}
	return "[" + strings.Join(parts, ";") + "]"
}

// Bytes renders a byte slice as a list of N.
func Bytes(b []byte) string { return Str(string(b)) }

// StrList renders a list of byte strings.
func StrList(ss []string) string {
	if len(ss) == 0 {
		return "(@nil (list N))"
	}
	parts := make([]string, len(ss))
	for i, s := range ss {
		parts[i] = Str(s)
	}
	return "[" + strings.Join(parts, "; ") + "]"
}

// List renders already-rendered elements as a list of the given Coq type.
func List(typ string, elems []string) string {
	if len(elems) == 0 {
		return "(@nil " + typ + ")"
	}
	return "[" + strings.Join(elems, ";\n  ") + "]"
}

// Header renders an http.Header as an association list with sorted keys.
func Header(h http.Header) string {
	keys := make([]string, 0, len(h))
	for k := range h {
		keys = append(keys, k)
	}
	sort.Strings(keys)
	parts := make([]string, len(keys))
	for i, k := range keys {
		parts[i] = "(" + Str(k) + ", " + StrList(h[k]) + ")"
	}
	return List("(list N * list (list N))", parts)
}

// Bool renders a bool.
func Bool(b bool) string {
	if b {
		return "true"
	}
	return "false"
}

// N renders a non-negative integer.
func N(n uint64) string { return strconv.FormatUint(n, 10) }

// Z renders an integer.
func Z(n int64) string { return "(" + strconv.FormatInt(n, 10) + ")%Z" }

// Opt renders an option.
func Opt(some bool, v string) string {
	if !some {
		return "None"
	}
	return "(Some " + v + ")"
}
