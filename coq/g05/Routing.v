(* C05 — routing: executable model (no proofs here) of
     http_proxy.go      configureProxy (selection switch, wrappers), directDomains, directLocalhost, pacProxy
     pac/proxy.go       Proxies.First, parseProxy, parseMode, Proxy.URL (+ stringer output)
     internal/martian   Proxy.connect (scheme switch, what each arm dials), Proxy.init (shared proxy function)
     dialvia            address dialled for an http(s) / socks5 proxy hop
     net.go             DialRedirectFromHostPortPairs, Dialer.DialContext
   and, MODELLED (not in /repo): net.SplitHostPort, net.JoinHostPort, url.URL.Hostname/Port,
   net/http.Transport's choice of first hop (canonicalAddr, scheme dispatch).
   Everything a realistic edit changes comes from Tables.v (regenerated from the source on every run). *)
From FwdLib Require Export Bytes.
From G05 Require Export Tables.

(* ------------------------------------------------------------------ small helpers *)
Definition is_empty (s : str) : bool := match s with [] => true | _ => false end.
Definition first_is (c : N) (s : str) : bool := match s with d :: _ => N.eqb c d | [] => false end.
Definition last_is (c : N) (s : str) : bool := match rev s with d :: _ => N.eqb c d | [] => false end.
Definition has_byte (c : N) (s : str) : bool := existsb (N.eqb c) s.

Fixpoint assoc (k : str) (l : list (str * str)) : option str :=
  match l with
  | [] => None
  | (a, v) :: r => if str_eqb k a then Some v else assoc k r
  end.

Fixpoint index_of (k : str) (l : list str) : nat :=
  match l with
  | [] => O
  | a :: r => if str_eqb k a then O else S (index_of k r)
  end.

Definition mem (k : str) (l : list str) : bool := existsb (str_eqb k) l.

(* index of the LAST occurrence of byte c *)
Fixpoint last_index (c : N) (s : str) : option nat :=
  match s with
  | [] => None
  | d :: r => match last_index c r with
              | Some k => Some (S k)
              | None => if N.eqb c d then Some O else None
              end
  end.

(* ------------------------------------------------------------------ net.SplitHostPort / JoinHostPort *)
(* literal transcription of net.SplitHostPort (Go 1.23): None = any error *)
Definition split_host_port (hp : str) : option (str * str) :=
  match last_index 58 hp with                        (* i := last(hostport, ':') *)
  | None => None                                     (* missing port *)
  | Some i =>
      if first_is 91 hp then                         (* hostport[0] == '[' *)
        match index_byte 93 hp with                  (* end := IndexByte(hostport, ']') *)
        | None => None                               (* missing ']' *)
        | Some e =>
            if Nat.eqb (S e) (length hp) then None   (* no ':' behind ']' *)
            else if Nat.eqb (S e) i then
              let host := firstn (e - 1) (skipn 1 hp) in
              if has_byte 91 (skipn 1 hp) then None          (* j = 1 *)
              else if has_byte 93 (skipn (S e) hp) then None (* k = end+1 *)
              else Some (host, skipn (S i) hp)
            else None                                (* too many colons / missing port *)
        end
      else
        let host := firstn i hp in
        if has_byte 58 host then None                (* too many colons *)
        else if has_byte 91 hp then None             (* j = 0 *)
        else if has_byte 93 hp then None             (* k = 0 *)
        else Some (host, skipn (S i) hp)
  end.

(* net.JoinHostPort *)
Definition join_host_port (h p : str) : str :=
  if has_byte 58 h then [91] ++ h ++ [93; 58] ++ p else h ++ [58] ++ p.

(* net/url: splitHostPort used by URL.Hostname() and URL.Port() *)
Definition valid_optional_port (s : str) : bool :=
  match s with [] => true | c :: r => N.eqb c 58 && forallb is_digit r end.

Definition url_split (hostport : str) : str * str :=
  let hp := match last_index 58 hostport with
            | Some i => if valid_optional_port (skipn i hostport)
                        then (firstn i hostport, skipn (S i) hostport) else (hostport, [])
            | None => (hostport, [])
            end in
  let host := fst hp in
  (if first_is 91 host && last_is 93 host then removelast (tl host) else host, snd hp).
Definition url_hostname (hostport : str) : str := fst (url_split hostport).
Definition url_port (hostport : str) : str := snd (url_split hostport).

(* ------------------------------------------------------------------ pac/proxy.go *)
Record pproxy := { pp_mode : str; pp_host : str; pp_port : str }.

(* noProxy = Proxy{Mode: DIRECT}: DIRECT is the iota-0 constant, i.e. the first name of the const block *)
Definition mode_direct : str := nth 0 mode_consts [].
Definition no_proxy : pproxy := {| pp_mode := mode_direct; pp_host := []; pp_port := [] |}.

Definition parse_mode (s : str) : str :=
  match assoc s parse_mode_arms with Some m => m | None => parse_mode_default end.

Definition sep_byte (s : str) : N := nth 0 s 0.

(* strconv.ParseUint(port, 10, 16) succeeds: non-empty, decimal digits only, value below 2^16 *)
Definition dec_value (s : str) : N := fold_left (fun acc c => acc * 10 + (c - 48)) s 0.
Definition valid_port16 (p : str) : bool :=
  negb (is_empty p) && forallb is_digit p && (dec_value p <=? 65535).

(* host test of parseProxy: non-empty, no byte <= ' ' and no DEL (strings.ContainsFunc decodes runes; a byte
   >= 0x80 never decodes to a rune in that range) *)
Definition valid_host (h : str) : bool :=
  negb (is_empty h) && negb (existsb (fun c => (c <=? 32) || (c =? 127)) h).

Definition parse_proxy (s0 : str) : option pproxy :=
  let s := if parse_proxy_trims then trim_space s0 else s0 in
  if is_empty s then Some no_proxy
  else if parse_proxy_has_direct_literal && str_eqb s parse_proxy_direct_literal then Some no_proxy
  else match cut_byte (sep_byte parse_proxy_cut_sep) s with
       | None => None                                        (* missing host:port *)
       | Some (mode, hostport) =>
           match split_host_port hostport with
           | None => None
           | Some (h, p) =>
               if parse_proxy_validates_host && negb (valid_host h) then None
               else if parse_proxy_validates_port && negb (valid_port16 p) then None
               else Some {| pp_mode := parse_mode mode; pp_host := h; pp_port := p |}
           end
       end.

Definition proxies_first (s : str) : option pproxy :=
  if first_empty_is_direct && is_empty s then Some no_proxy
  else let spec := match cut_byte (sep_byte first_entry_sep) s with Some (x, _) => x | None => s end in
       parse_proxy spec.

(* Mode.String(): stringer table indexed by the constant's position in the const block *)
Definition mode_string (m : str) : str := nth (index_of m mode_consts) mode_strings [].

(* Proxy.URL(): None = nil URL; Some (scheme, Host) *)
Definition proxy_url (p : pproxy) : option (str * str) :=
  if str_eqb (pp_mode p) url_nil_mode then None
  else let m := match assoc (pp_mode p) url_remap with Some m' => m' | None => pp_mode p end in
       Some ((if url_scheme_lower then lower (mode_string m) else mode_string m),
             join_host_port (pp_host p) (pp_port p)).

(* ------------------------------------------------------------------ http_proxy.go *)
(* result of a ProxyFunc: (nil, nil) | (url, nil) | (_, err) *)
Inductive presult := PDirect | PUrl (scheme hostport : str) | PFail.

Inductive pac_res := PacErr | PacOk (s : str).

Definition pac_proxy (r : pac_res) : presult :=
  match r with
  | PacErr => PFail
  | PacOk s =>
      match proxies_first s with
      | None => PFail
      | Some p =>
          if mem (pp_mode p) pac_unsupported_modes then PFail
          else match proxy_url p with
               | None => PDirect
               | Some (sch, hp) => PUrl sch hp
               end
      end
  end.

Inductive kind := Plain | Connect.

(* what the proxy has in req.URL when the proxy function is called *)
Record target := { t_kind : kind; t_scheme : str; t_urlhost : str }.
Definition hostname (t : target) : str := url_hostname (t_urlhost t).

Definition proxy_fn := target -> presult.

Record config := {
  c_upfunc : option proxy_fn;                 (* HTTPProxyConfig.UpstreamProxyFunc *)
  c_upstream : option (str * str);            (* UpstreamProxy: scheme, Host *)
  c_pac : option (target -> pac_res);         (* PAC resolver: FindProxyForURL(r.URL, "") *)
  c_direct : option (str -> bool);            (* DirectDomains matcher *)
  c_lh_mode : str;                            (* ProxyLocalhost *)
  c_is_localhost : str -> bool;               (* hp.isLocalhost (itself maps the name the way the transport does) *)
  c_idna : str -> str                         (* oracle: golang.org/x/net/idna Lookup.ToASCII as net/http and
                                                 asciiHostname use it; the identity on ASCII names and on names
                                                 the mapping rejects *)
  ; c_puny : str -> str                         (* oracle: idna.ToASCII (plain Punycode, NO compatibility mapping) as
                                                 httpguts.PunycodeHostPort uses it when a request is written *)
}.

Definition is_ascii (s : str) : bool := forallb (fun c => c <? 128) s.

Definition arm_fn (cfg : config) (tag : str) : option proxy_fn :=
  if str_eqb tag (b "func") then c_upfunc cfg
  else if str_eqb tag (b "upstream") then
    match c_upstream cfg with Some u => Some (fun _ => PUrl (fst u) (snd u)) | None => None end
  else if str_eqb tag (b "pac") then
    match c_pac cfg with Some f => Some (fun t => pac_proxy (f t)) | None => None end
  else None.

Fixpoint select_base (cfg : config) (order : list str) : option proxy_fn :=
  match order with
  | [] => None
  | tag :: r => match arm_fn cfg tag with Some f => Some f | None => select_base cfg r end
  end.

(* directDomains / directLocalhost: `if fn == nil { return nil }`, else test, else fn(req) *)
Definition wrap_direct (pred : str -> bool) (fn : option proxy_fn) : option proxy_fn :=
  match fn with
  | None => None
  | Some f => Some (fun t => if pred (hostname t) then PDirect else f t)
  end.

(* strings.TrimSuffix(s, ".") *)
Definition strip_dot (s : str) : str := if last_is 46 s then removelast s else s.

(* the spellings of the request's host the direct-domains matcher is asked about: as written; as the transport
   will connect to it (asciiHostname); each without the trailing dot of a fully qualified name (matchesAnyForm) *)
Definition direct_forms (cfg : config) (h : str) : list str :=
  h :: (if direct_domains_maps_idna then [c_idna cfg h] else []) ++
       (if direct_domains_strips_dot then [strip_dot h; strip_dot (c_idna cfg h)] else []).

Definition apply_wrapper (cfg : config) (fn : option proxy_fn) (w : str) : option proxy_fn :=
  if str_eqb w (b "direct-domains") then
    (* the matcher is asked about the name as written and, when the source does so, about the name the
       transport will connect to (asciiHostname) *)
    match c_direct cfg with
    | Some m => wrap_direct (fun h => existsb m (direct_forms cfg h)) fn
    | None => fn
    end
  else if str_eqb w (b "direct-localhost") then
    if str_eqb (c_lh_mode cfg) localhost_direct_const then wrap_direct (c_is_localhost cfg) fn else fn
  else fn.

(* hp.proxyFunc after configureProxy; None = nil *)
Definition proxy_func (cfg : config) : option proxy_fn :=
  fold_left (apply_wrapper cfg) wrappers (select_base cfg select_order).

(* the value p.ProxyURL(req) / t.Proxy(req) yields; a nil function means "no proxy" on both paths
   (forwarder's transport is built with Proxy: nil) *)
Definition proxy_for (cfg : config) (t : target) : presult :=
  match proxy_func cfg with None => PDirect | Some f => f t end.

(* ------------------------------------------------------------------ net.go: connect-to *)
Record rule := { src_host : str; src_port : str; dst_host : str; dst_port : str }.

Definition rule_matches (r : rule) (h p : str) : bool :=
  (is_empty (src_host r) || str_eqb (src_host r) h) && (is_empty (src_port r) || str_eqb (src_port r) p).

Definition rule_target (r : rule) (h p : str) : str :=
  join_host_port (if is_empty (dst_host r) then h else dst_host r)
                 (if is_empty (dst_port r) then p else dst_port r).

Fixpoint redirect_hp (rules : list rule) (h p : str) : option str :=
  match rules with
  | [] => None
  | r :: rest => if rule_matches r h p then Some (rule_target r h p) else redirect_hp rest h p
  end.

Definition dial_redirect (rules : list rule) (addr : str) : str :=
  match split_host_port addr with
  | None => addr
  | Some (h, p) => match redirect_hp rules h p with Some a => a | None => addr end
  end.

(* ------------------------------------------------------------------ first hop of an exchange *)
(* what the party the connection is opened to sees first *)
Inductive wire :=
  | WDirect      (* no proxy protocol: origin-form request, or the tunnelled bytes themselves *)
  | WAbs         (* absolute-form request: the party is used as an HTTP proxy *)
  | WConnect     (* CONNECT authority request *)
  | WSocks.      (* SOCKS5 handshake *)

(* named: the target the first hop is told (CONNECT authority, authority of the absolute URI, SOCKS5 target
   address, Host field of an origin-form request); [] for a direct tunnel, where the proxy says nothing itself *)
Inductive outcome :=
  | OFail                                                       (* request fails, nothing is dialled *)
  | OSent (addr : str) (tls : bool) (w : wire) (named : str).   (* connection opened to addr (after connect-to) *)

(* connect's `switch proxyURL.Scheme` *)
Definition connect_handler (scheme : str) : option str := assoc scheme connect_switch.

(* address handed to the dialer on the CONNECT path *)
Definition connect_addr (handler hostport : str) : str :=
  if str_eqb handler (b "connectSOCKS5") then
    let p := url_port hostport in
    join_host_port (url_hostname hostport) (if is_empty p then socks5_default_port else p)
  else hostport.                                     (* dialvia/http.go: d.proxyURL.Host *)

(* MODELLED net/http canonicalAddr (ASCII hosts; IDNA conversion is outside the model); portMap and the
   SOCKS schemes of dialConn are read from the toolchain's own transport.go (Tables.v) *)
Definition canonical_addr (idna : str -> str) (scheme hostport : str) : str :=
  let p := url_port hostport in
  join_host_port (idna (url_hostname hostport))
    (if is_empty p then match assoc scheme transport_port_map with Some d => d | None => [] end else p).

(* MODELLED net/http Request.write (httpguts.PunycodeHostPort): the host an HTTP party is told (Host field, the
   authority of an absolute URI, the authority of a CONNECT written with Request.Write) is Punycode-encoded
   label by label WITHOUT the compatibility mapping the Transport applies to the name it connects to *)
Definition puny_hostport (puny : str -> str) (hp : str) : str :=
  if is_ascii hp then hp
  else match split_host_port hp with
       | Some (h, p) => join_host_port (puny h) p
       | None => puny hp
       end.

Definition route_connect (puny : str -> str) (rules : list rule) (pr : presult) (t : target) : outcome :=
  match pr with
  | PFail => OFail
  | PDirect => OSent (dial_redirect rules (t_urlhost t)) false WDirect []
  | PUrl sch hp =>
      match connect_handler sch with
      | None => OFail                                (* default arm: unsupported proxy scheme *)
      | Some h =>
          (* both dialers are asked for req.URL.Host: x/net/proxy sends that address as is; dialvia/http.go
             writes `CONNECT addr` with Request.Write, which maps the host to ASCII *)
          if str_eqb h (b "connectSOCKS5")
          then OSent (dial_redirect rules (connect_addr h hp)) false WSocks (t_urlhost t)
          else OSent (dial_redirect rules (connect_addr h hp)) (str_eqb sch dialvia_http_tls_scheme) WConnect
                     (puny_hostport puny (t_urlhost t))
      end
  end.

(* MODELLED net/http.Transport.dialConn: TLS to the first hop iff its scheme is https; socks5/socks5h speak
   SOCKS5; EVERY other proxy scheme is used as an HTTP proxy (absolute form for http targets, CONNECT for https) *)
Definition route_plain (idna puny : str -> str) (rules : list rule) (pr : presult) (t : target) : outcome :=
  match pr with
  | PFail => OFail
  | PDirect => OSent (dial_redirect rules (canonical_addr idna (t_scheme t) (t_urlhost t)))
                     (str_eqb (t_scheme t) (b "https")) WDirect (puny_hostport puny (t_urlhost t))
  | PUrl sch hp =>
      let addr := dial_redirect rules (canonical_addr idna sch hp) in
      let target := canonical_addr idna (t_scheme t) (t_urlhost t) in     (* cm.targetAddr *)
      if mem sch transport_socks_schemes then OSent addr false WSocks target
      else if str_eqb (t_scheme t) (b "http")
           then OSent addr (str_eqb sch (b "https")) WAbs (puny_hostport puny (t_urlhost t)) (* absolute URI *)
           else OSent addr (str_eqb sch (b "https")) WConnect target
  end.

Definition route (cfg : config) (rules : list rule) (t : target) : outcome :=
  match t_kind t with
  | Connect => if connect_uses_proxy_func then route_connect (c_puny cfg) rules (proxy_for cfg t) t
               else route_connect (c_puny cfg) rules PDirect t
  | Plain => if transport_shares_proxy_func then route_plain (c_idna cfg) (c_puny cfg) rules (proxy_for cfg t) t
             else route_plain (c_idna cfg) (c_puny cfg) rules PDirect t
  end.

(* ------------------------------------------------------------------ net.go: the Dialer, one exchange as a trace *)
Inductive event := EvDial (addr : str) | EvUse (addr : str) (tls : bool) (w : wire) (named : str).

Definition effective_attempts (n : nat) : nat := match n with O => 1%nat | _ => n end.

(* Dialer.dialContext: `for i := 0; i < attempts; i++ { conn, err := dial(ctx, network, address); if err == nil
   { return conn, nil } ... }`.  outcomes = what the socket layer answers to the successive attempts (true =
   connected; no answer left = failure): ANY list.  in_loop = the redirect statement stands inside the loop (one of
   the two source shapes the translator knows): then every attempt maps the address the previous attempt used.
   Result: the addresses handed to the socket layer, in order, and the address of the connection obtained. *)
Fixpoint dial_loop (rules : list rule) (in_loop : bool) (n : nat) (outcomes : list bool) (addr : str)
  : list str * option str :=
  match n with
  | O => ([], None)
  | S n' =>
      let a := if in_loop then dial_redirect rules addr else addr in
      match outcomes with
      | true :: _ => ([a], Some a)
      | _ => let r := dial_loop rules in_loop n' (tl outcomes) a in (a :: fst r, snd r)
      end
  end.

(* Dialer.DialContext(address) with Retry.Attempts = attempts *)
Definition dialer_dial (rules : list rule) (attempts : nat) (outcomes : list bool) (addr : str)
  : list str * option str :=
  dial_loop rules redirect_in_retry_loop (effective_attempts attempts) outcomes
            (if redirect_in_retry_loop then addr else dial_redirect rules addr).

(* one exchange: the hop's address as the routing code hands it to the Dialer (route with no rules: the
   redirect lives in the Dialer), the Dialer's attempts, then one use of the connection if one was obtained *)
Definition exchange_o (cfg : config) (rules : list rule) (t : target) (attempts : nat) (outcomes : list bool)
  : list event :=
  match route cfg [] t with
  | OFail => []
  | OSent a0 tls w n =>
      let r := dialer_dial rules attempts outcomes a0 in
      map EvDial (fst r) ++ match snd r with Some a => [EvUse a tls w n] | None => [] end
  end.

(* the environments the harness scripts: the first `failures` attempts fail, the next one connects *)
Definition exchange (cfg : config) (rules : list rule) (t : target) (attempts failures : nat) : list event :=
  exchange_o cfg rules t attempts (repeat false failures ++ [true]).

Definition event_addr (e : event) : str := match e with EvDial a => a | EvUse a _ _ _ => a end.
