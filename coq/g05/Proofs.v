(* C05 — lemmas.  Facts about the source (Tables.v) enter as hypotheses; they are discharged in C05.v with
   the closed computations of Obligations.v. *)
From G05 Require Import Routing Spec Check.

(* ------------------------------------------------------------------ precedence *)
Section Precedence.
  Hypothesis Hsel : select_order = [b "func"; b "upstream"; b "pac"; b "default"].
  Hypothesis Hwr : wrappers = [b "direct-domains"; b "direct-localhost"].
  Hypothesis Hlh : localhost_direct_const = b "direct".
  Hypothesis Hdd : direct_domains_maps_idna = true.

  Lemma select_base_spec cfg : select_base cfg select_order = spec_base cfg.
  Proof.
    rewrite Hsel. unfold spec_base. cbn [select_base].
    change (arm_fn cfg (b "func")) with (c_upfunc cfg).
    destruct (c_upfunc cfg); [reflexivity|].
    change (arm_fn cfg (b "upstream")) with
      (match c_upstream cfg with Some u => Some (fun _ : target => PUrl (fst u) (snd u)) | None => None end).
    destruct (c_upstream cfg); [reflexivity|].
    change (arm_fn cfg (b "pac")) with
      (match c_pac cfg with Some f => Some (fun t => pac_proxy (f t)) | None => None end).
    destruct (c_pac cfg); reflexivity.
  Qed.

  Lemma proxy_for_is_spec cfg t : proxy_for cfg t = spec_proxy cfg t.
  Proof.
    unfold proxy_for, proxy_func, spec_proxy. rewrite select_base_spec, Hwr.
    cbn [fold_left].
    change (apply_wrapper cfg ?f (b "direct-domains")) with
      (match c_direct cfg with
       | Some m => wrap_direct (fun h => m h || (direct_domains_maps_idna && m (c_idna cfg h))) f
       | None => f end).
    rewrite Hdd.
    set (f1 := match c_direct cfg with
               | Some m => wrap_direct (fun h => m h || (true && m (c_idna cfg h))) (spec_base cfg)
               | None => spec_base cfg end).
    change (apply_wrapper cfg f1 (b "direct-localhost")) with
      (if str_eqb (c_lh_mode cfg) localhost_direct_const then wrap_direct (c_is_localhost cfg) f1 else f1).
    rewrite Hlh. subst f1. unfold direct_domain, localhost_direct.
    destruct (spec_base cfg) as [f|]; destruct (c_direct cfg) as [m|];
      destruct (str_eqb (c_lh_mode cfg) (b "direct")); cbn [wrap_direct andb]; try reflexivity;
      try (destruct (m (hostname t) || m (c_idna cfg (hostname t))));
      try (destruct (c_is_localhost cfg (hostname t))); reflexivity.
  Qed.
End Precedence.
