(* C05 — lemmas.  Facts about the source (Tables.v) enter as hypotheses; they are discharged in C05.v with
   the closed computations of Obligations.v. *)
From G05 Require Import Routing Spec Check.

(* ------------------------------------------------------------------ precedence *)
Fixpoint list_str_eqb (x y : list str) : bool :=
  match x, y with
  | [], [] => true
  | a :: x', c :: y' => str_eqb a c && list_str_eqb x' y'
  | _, _ => false
  end.
Lemma list_str_eqb_eq x y : list_str_eqb x y = true -> x = y.
Proof.
  revert y; induction x as [|a x IH]; intros [|c y] H; try discriminate; [reflexivity|].
  cbn in H. apply andb_true_iff in H as [H1 H2]. apply str_eqb_eq in H1. rewrite (IH y H2), H1. reflexivity.
Qed.

(* The arms of configureProxy's selection switch may stand in any order when at most one kind of upstream is
   configured (the CLI cannot configure more: newHTTPProxy rejects static upstream + PAC, and has no flag for
   UpstreamProxyFunc); with several kinds configured the source order func > upstream > pac is what counts. *)
Definition select_canonical : bool :=
  list_str_eqb select_order [b "func"; b "upstream"; b "pac"; b "default"].
Definition select_arms_present : bool :=
  mem (b "func") select_order && mem (b "upstream") select_order && mem (b "pac") select_order.
Definition at_most_one_upstream (cfg : config) : Prop :=
  match c_upfunc cfg, c_upstream cfg, c_pac cfg with
  | Some _, None, None | None, Some _, None | None, None, Some _ | None, None, None => True
  | _, _, _ => False
  end.
Definition sel_ok (cfg : config) : Prop := select_canonical = true \/ at_most_one_upstream cfg.

Lemma arm_fn_unfold cfg tag :
  arm_fn cfg tag =
  if str_eqb tag (b "func") then c_upfunc cfg
  else if str_eqb tag (b "upstream") then
    match c_upstream cfg with Some u => Some (fun _ : target => PUrl (fst u) (snd u)) | None => None end
  else if str_eqb tag (b "pac") then
    match c_pac cfg with Some f => Some (fun t => pac_proxy (f t)) | None => None end
  else None.
Proof. reflexivity. Qed.

Lemma select_none cfg order :
  c_upfunc cfg = None -> c_upstream cfg = None -> c_pac cfg = None -> select_base cfg order = None.
Proof.
  intros Hf Hu Hp. induction order as [|tag r IH]; [reflexivity|]. cbn [select_base].
  rewrite arm_fn_unfold, Hf, Hu, Hp.
  destruct (str_eqb tag (b "func")), (str_eqb tag (b "upstream")), (str_eqb tag (b "pac")); exact IH.
Qed.

Lemma mem_cons k a r : mem k (a :: r) = str_eqb k a || mem k r.
Proof. reflexivity. Qed.

Lemma select_only cfg order tag0 f :
  (forall tag, str_eqb tag tag0 = false -> arm_fn cfg tag = None) -> arm_fn cfg tag0 = Some f ->
  mem tag0 order = true -> select_base cfg order = Some f.
Proof.
  intros Hother Hthis. induction order as [|tag r IH]; intros Hm; [discriminate|].
  cbn [select_base]. rewrite mem_cons in Hm. destruct (str_eqb tag tag0) eqn:E.
  - apply str_eqb_eq in E. subst tag. rewrite Hthis. reflexivity.
  - rewrite (Hother tag E). apply IH. rewrite str_eqb_sym, E in Hm. exact Hm.
Qed.

Section Precedence.
  Hypothesis Hpresent : select_arms_present = true.
  Hypothesis Hwr : wrappers = [b "direct-domains"; b "direct-localhost"].
  Hypothesis Hlh : localhost_direct_const = b "direct".
  Hypothesis Hdd : direct_domains_maps_idna = true /\ direct_domains_strips_dot = true.

  Lemma select_base_spec cfg : sel_ok cfg -> select_base cfg select_order = spec_base cfg.
  Proof.
    intros [Hc|Hone].
    - apply list_str_eqb_eq in Hc. rewrite Hc. unfold spec_base. cbn [select_base].
      change (arm_fn cfg (b "func")) with (c_upfunc cfg).
      destruct (c_upfunc cfg); [reflexivity|].
      change (arm_fn cfg (b "upstream")) with
        (match c_upstream cfg with Some u => Some (fun _ : target => PUrl (fst u) (snd u)) | None => None end).
      destruct (c_upstream cfg); [reflexivity|].
      change (arm_fn cfg (b "pac")) with
        (match c_pac cfg with Some f => Some (fun t => pac_proxy (f t)) | None => None end).
      destruct (c_pac cfg); reflexivity.
    - unfold select_arms_present in Hpresent. apply andb_true_iff in Hpresent as [Hfu Hp].
      apply andb_true_iff in Hfu as [Hf Hu].
      unfold at_most_one_upstream in Hone. unfold spec_base.
      destruct (c_upfunc cfg) as [f|] eqn:Ef; destruct (c_upstream cfg) as [u|] eqn:Eu;
        destruct (c_pac cfg) as [p|] eqn:Ep; try contradiction.
      + apply (select_only cfg select_order (b "func")); [| rewrite arm_fn_unfold, Ef; reflexivity | exact Hf].
        intros tag E. rewrite arm_fn_unfold, E, Eu, Ep.
        destruct (str_eqb tag (b "upstream")), (str_eqb tag (b "pac")); reflexivity.
      + apply (select_only cfg select_order (b "upstream")); [| rewrite arm_fn_unfold, Eu; reflexivity | exact Hu].
        intros tag E. rewrite arm_fn_unfold, E, Ef, Ep.
        destruct (str_eqb tag (b "func")), (str_eqb tag (b "pac")); reflexivity.
      + apply (select_only cfg select_order (b "pac")); [| rewrite arm_fn_unfold, Ep; reflexivity | exact Hp].
        intros tag E. rewrite arm_fn_unfold, E, Ef, Eu.
        destruct (str_eqb tag (b "func")), (str_eqb tag (b "upstream")); reflexivity.
      + apply select_none; assumption.
  Qed.

  Lemma proxy_for_is_spec cfg t : sel_ok cfg -> proxy_for cfg t = spec_proxy cfg t.
  Proof.
    intros Hsel. unfold proxy_for, proxy_func, spec_proxy. rewrite (select_base_spec cfg Hsel), Hwr.
    cbn [fold_left].
    change (apply_wrapper cfg ?f (b "direct-domains")) with
      (match c_direct cfg with
       | Some m => wrap_direct (fun h => existsb m (direct_forms cfg h)) f
       | None => f end).
    set (f1 := match c_direct cfg with
               | Some m => wrap_direct (fun h => existsb m (direct_forms cfg h)) (spec_base cfg)
               | None => spec_base cfg end).
    change (apply_wrapper cfg f1 (b "direct-localhost")) with
      (if str_eqb (c_lh_mode cfg) localhost_direct_const then wrap_direct (c_is_localhost cfg) f1 else f1).
    rewrite Hlh. subst f1. unfold direct_domain, localhost_direct, direct_forms.
    destruct Hdd as [-> ->]. cbn [app].
    destruct (spec_base cfg) as [f|]; destruct (c_direct cfg) as [m|];
      destruct (str_eqb (c_lh_mode cfg) (b "direct")); cbn [wrap_direct andb]; try reflexivity;
      try (destruct (existsb m _));
      try (destruct (c_is_localhost cfg (hostname t))); reflexivity.
  Qed.
End Precedence.
