(* C05 — executable checkers run on the implementation's observed behaviour.
   *_model_ok : the model computes what the implementation did (correspondence)
   *_prop_ok  : the implementation's own output satisfies the property's predicate (oracle) *)
From G05 Require Export Spec FlagSyntax.

Definition opt_eqb {A} (f : A -> A -> bool) (x y : option A) : bool :=
  match x, y with Some a, Some c => f a c | None, None => true | _, _ => false end.
Definition pair_eqb (x y : str * str) : bool := str_eqb (fst x) (fst y) && str_eqb (snd x) (snd y).

Definition presult_eqb (x y : presult) : bool :=
  match x, y with
  | PDirect, PDirect | PFail, PFail => true
  | PUrl s h, PUrl s' h' => str_eqb s s' && str_eqb h h'
  | _, _ => false
  end.

Definition ptype_eqb (x y : ptype) : bool :=
  match x, y with THttp, THttp | THttps, THttps | TSocks5, TSocks5 => true | _, _ => false end.

Definition hop_eqb (x y : hop) : bool :=
  match x, y with
  | HDirect, HDirect | HFail, HFail => true
  | HProxy t h, HProxy t' h' => ptype_eqb t t' && str_eqb h h'
  | _, _ => false
  end.

Definition wire_eqb (x y : wire) : bool :=
  match x, y with
  | WDirect, WDirect | WAbs, WAbs | WConnect, WConnect | WSocks, WSocks => true
  | _, _ => false
  end.

Definition outcome_eqb (x y : outcome) : bool :=
  match x, y with
  | OFail, OFail => true
  | OSent a t w n, OSent a' t' w' n' => str_eqb a a' && Bool.eqb t t' && wire_eqb w w' && str_eqb n n'
  | _, _ => false
  end.

Definition role_eqb (x y : role) : bool :=
  match x, y with RPeer, RPeer | RHttpProxy, RHttpProxy | RSocksProxy, RSocksProxy => true | _, _ => false end.

Definition first_hop_eqb (x y : option (str * bool * role)) : bool :=
  opt_eqb (fun a c => str_eqb (fst (fst a)) (fst (fst c)) && Bool.eqb (snd (fst a)) (snd (fst c)) &&
                      role_eqb (snd a) (snd c)) x y.

(* ---------- D0: the modelled standard-library functions (net.SplitHostPort, net.JoinHostPort,
   url.URL.Hostname/Port).  Correspondence only: a mismatch means the model of the library is wrong. *)
Record scase := { sc_in : str; sc_split : option (str * str); sc_rejoin : str;
                  sc_hostname : str; sc_port : str }.
Definition scase_model_ok (c : scase) : bool :=
  opt_eqb pair_eqb (split_host_port (sc_in c)) (sc_split c) &&
  match sc_split c with
  | Some (h, p) => str_eqb (join_host_port h p) (sc_rejoin c)
  | None => true
  end &&
  str_eqb (url_hostname (sc_in c)) (sc_hostname c) && str_eqb (url_port (sc_in c)) (sc_port c).
Definition scase_prop_ok (c : scase) : bool := true.

(* ---------- D1: pac.Proxies(s).First() and Proxy.URL() through the public API *)
Record pcase := { pc_in : str;
                  pc_first : option (str * str * str);   (* Mode.String(), Host, Port; None = error *)
                  pc_url : option (str * str) }.         (* URL(): scheme, Host; None = nil or error *)
Definition pcase_model_ok (c : pcase) : bool :=
  match proxies_first (pc_in c), pc_first c with
  | None, None => true
  | Some p, Some (m, h, pt) =>
      str_eqb (mode_string (pp_mode p)) m && str_eqb (pp_host p) h && str_eqb (pp_port p) pt &&
      opt_eqb pair_eqb (proxy_url p) (pc_url c)
  | _, _ => false
  end.
(* the statement's keyword table, evaluated on what the implementation returned.  A recognised but
   unsupported type may be rejected here or later (pacProxy): at this level it must only not come out
   as a proxy of a supported type. *)
Definition pcase_prop_ok (c : pcase) : bool :=
  match spec_pac_entry (pc_in c) with
  | HDirect => match pc_first c, pc_url c with Some _, None => true | _, _ => false end
  | HProxy ty hp => opt_eqb pair_eqb (pc_url c) (Some (ptype_scheme ty, hp))
  | HFail => match pc_first c, pc_url c with
             | None, _ => true
             | Some _, Some (sch, _) => match ptype_of_scheme sch with None => true | Some _ => false end
             | Some _, None => false
             end
  end.

(* ---------- D2: forwarder.DialRedirectFromHostPortPairs through the public API *)
Definition mkrule (a c d e : str) : rule := {| src_host := a; src_port := c; dst_host := d; dst_port := e |}.
Record rcase := { rc_rules : list rule; rc_addr : str; rc_out : str }.
Definition rcase_model_ok (c : rcase) : bool := str_eqb (dial_redirect (rc_rules c) (rc_addr c)) (rc_out c).
Definition rcase_prop_ok (c : rcase) : bool := str_eqb (spec_redirect (rc_rules c) (rc_addr c)) (rc_out c).

(* ---------- D2a: forwarder.ParseHostPortPair (the syntax of a --connect-to value) through the public API *)
Record kcase := { k_in : str; k_out : option rule }.
Definition rule_eqb (x y : rule) : bool :=
  str_eqb (src_host x) (src_host y) && str_eqb (src_port x) (src_port y) &&
  str_eqb (dst_host x) (dst_host y) && str_eqb (dst_port x) (dst_port y).
Definition kcase_model_ok (c : kcase) : bool := opt_eqb rule_eqb (parse_pair (k_in c)) (k_out c).
(* an accepted value means what it spells: without its brackets it is the four fields joined by colons, the
   ports are port numbers (or absent), the hosts carry no bracket *)
Definition kcase_prop_ok (c : kcase) : bool :=
  match k_out c with
  | None => true
  | Some r =>
      str_eqb (strip_brackets (k_in c))
              (src_host r ++ [58] ++ src_port r ++ [58] ++ dst_host r ++ [58] ++ dst_port r) &&
      port_valid (src_port r) && port_valid (dst_port r) &&
      negb (has_byte 91 (src_host r) || has_byte 93 (src_host r) || has_byte 91 (dst_host r) || has_byte 93 (dst_host r))
  end.

(* ---------- D2b: forwarder.Dialer.DialContext itself (real NewDialer with the real redirect; only the socket
   function is scripted): rules, Retry.Attempts (any integer), the answers of the socket layer to the successive
   attempts (any pattern), the address; observed: every address handed to the socket layer and whether a
   connection came back *)
Record dcase := { dc_rules : list rule; dc_attempts : Z; dc_outcomes : list bool; dc_addr : str;
                  dc_dials : list str; dc_ok : bool }.
Definition dcase_attempts (c : dcase) : nat := Z.to_nat (dc_attempts c).   (* <= 0 -> 0 -> one attempt *)
Fixpoint strs_eqb (x y : list str) : bool :=
  match x, y with
  | [], [] => true
  | a :: x', c :: y' => str_eqb a c && strs_eqb x' y'
  | _, _ => false
  end.
Definition dcase_model_ok (c : dcase) : bool :=
  let r := dialer_dial (dc_rules c) (dcase_attempts c) (dc_outcomes c) (dc_addr c) in
  strs_eqb (fst r) (dc_dials c) && Bool.eqb (match snd r with Some _ => true | None => false end) (dc_ok c).
(* every attempt goes to the once-mapped address; at least one and at most `attempts` attempts; success iff an
   attempt connected *)
Definition dcase_prop_ok (c : dcase) : bool :=
  let a := spec_redirect (dc_rules c) (dc_addr c) in
  let r := tries (effective_attempts (dcase_attempts c)) (dc_outcomes c) in
  strs_eqb (dc_dials c) (repeat a (fst r)) && Bool.eqb (dc_ok c) (snd r).

(* ---------- configurations as first-order data: the oracles' answers for the one host of the case *)
Record cfgd := {
  d_upfunc : option presult;          (* UpstreamProxyFunc returning this constant *)
  d_upstream : option (str * str);
  d_pac : option pac_res;             (* what the PAC script returned for this request *)
  d_direct : option (list (str * bool)); (* DirectDomains.Match on the names of this request (as written, ASCII
                                            form); None = no direct-domains list; other names: false *)
  d_lh_mode : str;
  d_is_localhost : bool;              (* hp.isLocalhost(hostname) as observed *)
  d_idna : list (str * str);          (* idna.Lookup.ToASCII on the non-ASCII names of this request; identity elsewhere *)
  d_puny : list (str * str);          (* idna.ToASCII (plain Punycode) on them *)
  d_aliases : list str                (* hostsfile.LocalhostAliases(): loopback names of the hosts file, as written there *)
}.
Fixpoint assoc_bool (k : str) (l : list (str * bool)) : bool :=
  match l with [] => false | (a, v) :: r => if str_eqb k a then v else assoc_bool k r end.
Definition cfg_of (d : cfgd) : config :=
  {| c_upfunc := match d_upfunc d with Some r => Some (fun _ => r) | None => None end;
     c_upstream := d_upstream d;
     c_pac := match d_pac d with Some r => Some (fun _ => r) | None => None end;
     c_direct := match d_direct d with Some l => Some (fun h => assoc_bool h l) | None => None end;
     c_lh_mode := d_lh_mode d;
     c_is_localhost := fun _ => d_is_localhost d;
     c_idna := fun h => match assoc h (d_idna d) with Some a => a | None => h end;
     c_puny := fun h => match assoc h (d_puny d) with Some a => a | None => h end |}.

(* ---------- D3: the composed proxy function martian is given (hp.proxy.ProxyURL), called directly *)
Record fcase := { fc_cfg : cfgd; fc_t : target; fc_out : presult }.
Definition fcase_model_ok (c : fcase) : bool := presult_eqb (proxy_for (cfg_of (fc_cfg c)) (fc_t c)) (fc_out c).
(* the hop the function names is the spec's, and (unless an external UpstreamProxyFunc produced it) a URL it
   hands to its two consumers always has a scheme both of them support *)
(* the classifier's answer for this request's host is the reference's (the host that is contacted is a
   loopback / unspecified address, "localhost", or - in any letter case - a loopback name of the hosts file) *)
Definition localhost_answer_ok (d : cfgd) (t : target) : bool :=
  Bool.eqb (d_is_localhost d) (localhost_ref (c_idna (cfg_of d)) (d_aliases d) (hostname t)).

Definition fcase_prop_ok (c : fcase) : bool :=
  localhost_answer_ok (fc_cfg c) (fc_t c) &&
  hop_eqb (presult_hop (fc_out c)) (spec_hop (cfg_of (fc_cfg c)) (fc_t c)) &&
  match fc_out c, d_upfunc (fc_cfg c) with
  | PUrl sch _, None => match ptype_of_scheme sch with Some _ => true | None => false end
  | _, _ => true
  end.

(* ---------- E: the real proxy in-process with scripted parties *)
(* what was seen for one request: every address handed to the dialer (after connect-to), and what the
   party that accepted the connection saw first: TLS or not, then which protocol *)
Record obs := { o_dials : list str; o_recv : option (str * bool * wire * str); o_ok : bool (* client got 2xx *) }.

Definition event_eqb (x y : event) : bool :=
  match x, y with
  | EvDial a, EvDial c => str_eqb a c
  | EvUse a t w n, EvUse c t' w' n' => str_eqb a c && Bool.eqb t t' && wire_eqb w w' && str_eqb n n'
  | _, _ => false
  end.
Fixpoint events_eqb (x y : list event) : bool :=
  match x, y with
  | [], [] => true
  | a :: x', c :: y' => event_eqb a c && events_eqb x' y'
  | _, _ => false
  end.

(* the observed trace: every address handed to the socket layer, then the party that received data *)
Definition obs_trace (o : obs) : list event :=
  map EvDial (o_dials o) ++ match o_recv o with Some (a, tls, w, n) => [EvUse a tls w n] | None => [] end.
(* the client sees success exactly when some party was used *)
Definition obs_consistent (o : obs) : bool :=
  Bool.eqb (o_ok o) (match o_recv o with Some _ => true | None => false end).
Definition obs_is (o : obs) (tr : list event) : bool := events_eqb (obs_trace o) tr && obs_consistent o.

(* first hop as observed (for the agreement check): Some None = failed without contacting anybody *)
Definition obs_first_hop (o : obs) : option (option (str * bool * role)) :=
  match o_dials o, o_recv o with
  | [], None => Some None
  | _, Some (a, tls, w, n) => Some (first_hop (OSent a tls w n))
  | _, _ => None
  end.

(* per case: one host, exercised by a plain http request, a CONNECT (+ inner request), an https request in
   absolute form, and (configurations with MITM) a request inside the MITM'd tunnel *)
(* one client session against one configuration: a list of requests (possibly on one client connection /
   inside one MITM'd TLS session); each request carries the oracle answers for THAT request (a PAC script may
   answer by URL; answers come from fresh resolver / matcher instances, so they are history-free) *)
Definition part := (cfgd * target * obs)%type.
Record ecase := { ec_rules : list rule;
                  ec_attempts : nat; ec_failures : nat;   (* Dialer retry setting; scripted dial failures per request *)
                  ec_parts : list part }.
Definition part_ok (f : config -> list rule -> target -> nat -> nat -> list event) (c : ecase) (p : part) : bool :=
  match p with (d, t, o) => obs_is o (f (cfg_of d) (ec_rules c) t (ec_attempts c) (ec_failures c)) end.
Definition ecase_model_ok (c : ecase) : bool := forallb (part_ok exchange c) (ec_parts c).

(* a plain http request and a CONNECT of the session, for the same address and for which the configuration
   names the same hop, agree on the first hop *)
Definition agree_pair (c : ecase) (p q : part) : bool :=
  match p, q with
  | (dp, tp, op), (dc, tc, oc) =>
      match t_kind tp, t_kind tc with
      | Plain, Connect =>
          if str_eqb (t_scheme tp) (b "http") &&
             str_eqb (spec_target_addr (c_idna (cfg_of dp)) tp) (spec_target_addr (c_idna (cfg_of dc)) tc) &&
             hop_eqb (spec_hop (cfg_of dp) tp) (spec_hop (cfg_of dc) tc) &&
             Nat.ltb (ec_failures c) (effective_attempts (ec_attempts c)) then
            match obs_first_hop op, obs_first_hop oc with
            | Some x, Some y => first_hop_eqb x y
            | _, _ => false
            end
          else true
      | _, _ => true
      end
  end.
(* the property: each request's socket events are exactly the spec's for that request (one party: the one the
   short spec names, or nobody when it says the request fails) and plain/CONNECT agree *)
Definition ecase_prop_ok (c : ecase) : bool :=
  forallb (part_ok spec_exchange c) (ec_parts c) &&
  forallb (fun p => match p with (d, t, _) => localhost_answer_ok d t end) (ec_parts c) &&
  forallb (fun p => forallb (agree_pair c p) (ec_parts c)) (ec_parts c).

(* ---------- H: history independence of the PAC resolver: a sequence of look-ups on ONE resolver (bare, and
   through the pool), each answer next to the answer of a fresh resolver asked only that question *)
Record hcase := { h_answers : list (option str * option str) }.
Definition hcase_model_ok (c : hcase) : bool :=
  forallb (fun p => opt_eqb str_eqb (fst p) (snd p)) (h_answers c).
Definition hcase_prop_ok (c : hcase) : bool := hcase_model_ok c.

(* ---------- L: hp.isLocalhost on the host pool against the small reference *)
Record lcase := { lc_aliases : list str; lc_idna : list (str * str); lc_host : str; lc_out : bool }.
Definition lcase_model_ok (c : lcase) : bool :=
  Bool.eqb (localhost_ref (fun h => match assoc h (lc_idna c) with Some a => a | None => h end)
                          (lc_aliases c) (lc_host c)) (lc_out c).
Definition lcase_prop_ok (c : lcase) : bool := lcase_model_ok c.

(* indices (from 0) of the cases on which f fails *)
Fixpoint bad_from {A} (f : A -> bool) (i : N) (l : list A) : list N :=
  match l with
  | [] => []
  | x :: r => if f x then bad_from f (i + 1) r else i :: bad_from f (i + 1) r
  end.
Definition bad {A} (f : A -> bool) (l : list A) : list N := bad_from f 0 l.

(* constructors used by the harness when it writes cases *)
Definition tgt (k : N) (scheme urlhost : str) : target :=
  {| t_kind := if N.eqb k 0 then Plain else Connect; t_scheme := scheme; t_urlhost := urlhost |}.
Definition wr (n : N) : wire :=
  if N.eqb n 0 then WDirect else if N.eqb n 1 then WAbs else if N.eqb n 2 then WConnect else WSocks.
