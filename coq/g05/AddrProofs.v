(* C05 — lemmas about the address functions: SplitHostPort / JoinHostPort / URL.Hostname,Port round trips,
   and the connect-to redirect as "first matching rule". *)
From G05 Require Import Routing Spec Check.

(* ------------------------------------------------------------------ has_byte, last_index, index_byte *)
Lemma has_byte_cons c d s : has_byte c (d :: s) = N.eqb c d || has_byte c s.
Proof. reflexivity. Qed.

Lemma has_byte_app c x y : has_byte c (x ++ y) = has_byte c x || has_byte c y.
Proof. apply existsb_app. Qed.

Lemma has_byte_firstn c n l : has_byte c l = false -> has_byte c (firstn n l) = false.
Proof.
  revert n; induction l as [|d l IH]; intros [|n] H; try reflexivity.
  rewrite has_byte_cons in H. apply orb_false_iff in H as [H1 H2].
  cbn [firstn]. rewrite has_byte_cons, H1. cbn [orb]. apply IH, H2.
Qed.

Lemma last_index_none c s : has_byte c s = false -> last_index c s = None.
Proof.
  induction s as [|d s IH]; intros H; [reflexivity|].
  rewrite has_byte_cons in H. apply orb_false_iff in H as [H1 H2].
  cbn [last_index]. rewrite (IH H2), H1. reflexivity.
Qed.

Lemma last_index_app c x p : has_byte c p = false -> last_index c (x ++ c :: p) = Some (length x).
Proof.
  intros H. induction x as [|d x IH]; cbn [app last_index length].
  - rewrite (last_index_none _ _ H), N.eqb_refl. reflexivity.
  - rewrite IH. reflexivity.
Qed.

Lemma index_byte_firstn c l k : index_byte c l = Some k -> has_byte c (firstn k l) = false.
Proof.
  revert k; induction l as [|d l IH]; intros k H; [discriminate|].
  cbn [index_byte] in H. destruct (N.eqb c d) eqn:E.
  - inversion H; subst. reflexivity.
  - destruct (index_byte c l) as [j|]; [|discriminate]. inversion H; subst.
    cbn [firstn]. rewrite has_byte_cons, E. cbn [orb]. apply IH. reflexivity.
Qed.

Lemma firstn_length_app {A} (x y : list A) : firstn (length x) (x ++ y) = x.
Proof. induction x; cbn; [destruct y; reflexivity | f_equal; assumption]. Qed.

Lemma skipn_length_app {A} (x y : list A) : skipn (length x) (x ++ y) = y.
Proof. induction x; cbn; [reflexivity | assumption]. Qed.

Lemma skipn_S_length_app {A} (x : list A) c p : skipn (S (length x)) (x ++ c :: p) = p.
Proof. induction x; cbn [length app skipn]; [reflexivity | exact IHx]. Qed.

Lemma digits_no_byte c p : is_digit c = false -> forallb is_digit p = true -> has_byte c p = false.
Proof.
  intros Hc. induction p as [|d p IH]; intros H; [reflexivity|].
  cbn [forallb] in H. apply andb_true_iff in H as [H1 H2]. rewrite has_byte_cons, (IH H2).
  destruct (N.eqb c d) eqn:E; [|reflexivity]. apply N.eqb_eq in E. subst d. congruence.
Qed.

Lemma digits_no_colon p : forallb is_digit p = true -> has_byte 58 p = false.
Proof. apply digits_no_byte. reflexivity. Qed.

Lemma first_is_no_byte c h : has_byte c h = false -> first_is c h = false.
Proof.
  destruct h as [|d h]; [reflexivity|]. rewrite has_byte_cons. intros H.
  apply orb_false_iff in H as [H _]. exact H.
Qed.

Lemma last_is_snoc c x : last_is c (x ++ [c]) = true.
Proof. unfold last_is. rewrite rev_app_distr. cbn. apply N.eqb_refl. Qed.

Lemma removelast_snoc {A} (x : list A) a : removelast (x ++ [a]) = x.
Proof. apply removelast_last. Qed.

(* ------------------------------------------------------------------ what SplitHostPort returns *)
Lemma split_host_no_brackets s h p :
  split_host_port s = Some (h, p) -> has_byte 91 h = false /\ has_byte 93 h = false.
Proof.
  unfold split_host_port. destruct (last_index 58 s) as [i|]; [|discriminate].
  destruct (first_is 91 s) eqn:F.
  - destruct (index_byte 93 s) as [e|] eqn:Ei; [|discriminate].
    destruct (Nat.eqb (S e) (length s)); [discriminate|].
    destruct (Nat.eqb (S e) i); [|discriminate].
    destruct (has_byte 91 (skipn 1 s)) eqn:H1; [discriminate|].
    destruct (has_byte 93 (skipn (S e) s)); [discriminate|].
    intros H; inversion H; subst. split.
    + apply has_byte_firstn. exact H1.
    + destruct s as [|c s]; [discriminate|]. cbn [skipn].
      cbn [first_is] in F. cbn [index_byte] in Ei. destruct (N.eqb 93 c) eqn:E93.
      * apply N.eqb_eq in E93. apply N.eqb_eq in F. subst c. discriminate.
      * destruct (index_byte 93 s) as [j|] eqn:Ej; [|discriminate]. inversion Ei; subst.
        replace (S j - 1)%nat with j by (destruct j; cbn; try rewrite Nat.sub_0_r; reflexivity).
        apply index_byte_firstn. exact Ej.
  - destruct (has_byte 58 (firstn i s)); [discriminate|].
    destruct (has_byte 91 s) eqn:H1; [discriminate|].
    destruct (has_byte 93 s) eqn:H2; [discriminate|].
    intros H; inversion H; subst. split; apply has_byte_firstn; assumption.
Qed.

(* ------------------------------------------------------------------ URL.Hostname/Port of a joined address *)
Lemma url_split_join h p :
  has_byte 91 h = false -> has_byte 93 h = false -> forallb is_digit p = true ->
  url_split (join_host_port h p) = (h, p).
Proof.
  intros H91 H93 Hd. pose proof (digits_no_colon p Hd) as Hc.
  unfold join_host_port, url_split. destruct (has_byte 58 h) eqn:Hh.
  - replace ([91] ++ h ++ [93; 58] ++ p) with (([91] ++ h ++ [93]) ++ 58 :: p)
      by (rewrite <- !app_assoc; reflexivity).
    rewrite (last_index_app 58 _ p Hc), skipn_length_app, firstn_length_app.
    cbn [valid_optional_port]. rewrite N.eqb_refl, Hd. cbn [andb fst snd].
    rewrite skipn_S_length_app.
    replace ([91] ++ h ++ [93]) with ((91 :: h) ++ [93]) by reflexivity.
    rewrite last_is_snoc. cbn [first_is app tl]. change (91 =? 91) with true. cbn [andb].
    rewrite removelast_snoc. reflexivity.
  - change (h ++ [58] ++ p) with (h ++ 58 :: p).
    rewrite (last_index_app 58 h p Hc), skipn_length_app, firstn_length_app.
    cbn [valid_optional_port]. rewrite N.eqb_refl, Hd. cbn [andb fst snd].
    rewrite (first_is_no_byte 91 h H91). cbn [andb].
    rewrite skipn_S_length_app. reflexivity.
Qed.

(* an address is canonical when URL.Hostname/Port give back exactly its two parts and the port is present:
   then every consumer (dialvia http: Host as is; dialvia socks5 and the Transport: re-joined, default port
   only if absent) dials the same string *)
Definition canon_hp (hp : str) : bool :=
  str_eqb (join_host_port (url_hostname hp) (url_port hp)) hp && negb (is_empty (url_port hp)).

Lemma canon_join h p :
  has_byte 91 h = false -> has_byte 93 h = false -> valid_port16 p = true ->
  canon_hp (join_host_port h p) = true.
Proof.
  intros H1 H2 Hv. unfold valid_port16 in Hv. apply andb_true_iff in Hv as [Hv _].
  apply andb_true_iff in Hv as [Hne Hd].
  unfold canon_hp, url_hostname, url_port. rewrite (url_split_join h p H1 H2 Hd). cbn [fst snd].
  rewrite str_eqb_refl, Hne. reflexivity.
Qed.

Lemma canon_connect_addr handler hp : canon_hp hp = true -> connect_addr handler hp = hp.
Proof.
  unfold canon_hp, connect_addr. intros H. apply andb_true_iff in H as [H1 H2].
  apply str_eqb_eq in H1. destruct (str_eqb handler (b "connectSOCKS5")); [|reflexivity].
  destruct (is_empty (url_port hp)); [discriminate|]. exact H1.
Qed.

Lemma canon_canonical_addr idna sch hp :
  canon_hp hp = true -> idna (url_hostname hp) = url_hostname hp -> canonical_addr idna sch hp = hp.
Proof.
  unfold canon_hp, canonical_addr. intros H Hi. rewrite Hi. apply andb_true_iff in H as [H1 H2].
  apply str_eqb_eq in H1. destruct (is_empty (url_port hp)); [discriminate|]. exact H1.
Qed.

Lemma url_hostname_join h p :
  has_byte 91 h = false -> has_byte 93 h = false -> valid_port16 p = true ->
  url_hostname (join_host_port h p) = h.
Proof.
  intros H1 H2 Hv. unfold valid_port16 in Hv. apply andb_true_iff in Hv as [Hv _].
  apply andb_true_iff in Hv as [_ Hd]. unfold url_hostname. rewrite (url_split_join h p H1 H2 Hd). reflexivity.
Qed.

(* ------------------------------------------------------------------ ASCII-ness is inherited by the pieces *)
Lemma ascii_firstn n s : is_ascii s = true -> is_ascii (firstn n s) = true.
Proof.
  unfold is_ascii. revert n; induction s as [|c s IH]; intros [|n] H; try reflexivity.
  cbn [forallb firstn] in *. apply andb_true_iff in H as [Hc Hs]. rewrite Hc. cbn [andb]. apply IH, Hs.
Qed.

Lemma ascii_skipn n s : is_ascii s = true -> is_ascii (skipn n s) = true.
Proof.
  unfold is_ascii. revert n; induction s as [|c s IH]; intros [|n] H; try reflexivity; [exact H|].
  cbn [forallb skipn] in *. apply andb_true_iff in H as [_ Hs]. apply IH, Hs.
Qed.

Lemma ascii_rev s : is_ascii s = true -> is_ascii (rev s) = true.
Proof.
  unfold is_ascii. rewrite !forallb_forall. intros H x Hx. apply H. apply in_rev. exact Hx.
Qed.

Lemma ascii_trim_left s : is_ascii s = true -> is_ascii (trim_left s) = true.
Proof.
  induction s as [|c s IH]; intros H; [reflexivity|]. cbn [trim_left].
  destruct (is_space c); [|exact H]. apply IH. unfold is_ascii in *. cbn [forallb] in H.
  apply andb_true_iff in H as [_ H]. exact H.
Qed.

Lemma ascii_trim_space s : is_ascii s = true -> is_ascii (trim_space s) = true.
Proof.
  intros H. unfold trim_space. apply ascii_rev, ascii_trim_left, ascii_rev, ascii_trim_left, H.
Qed.

Lemma ascii_cut_byte c s x y : is_ascii s = true -> cut_byte c s = Some (x, y) -> is_ascii x = true /\ is_ascii y = true.
Proof.
  revert x y; induction s as [|d s IH]; intros x y H E; [discriminate|].
  unfold is_ascii in H. cbn [forallb] in H. apply andb_true_iff in H as [Hd Hs]. cbn [cut_byte] in E.
  destruct (N.eqb c d).
  - inversion E; subst. split; [reflexivity | exact Hs].
  - destruct (cut_byte c s) as [[x' y']|]; [|discriminate]. inversion E; subst.
    destruct (IH x' y Hs eq_refl) as [Hx Hy]. split; [|exact Hy].
    unfold is_ascii. cbn [forallb]. rewrite Hd. exact Hx.
Qed.

Lemma ascii_split_host s h p : is_ascii s = true -> split_host_port s = Some (h, p) -> is_ascii h = true.
Proof.
  intros H. unfold split_host_port. destruct (last_index 58 s) as [i|]; [|discriminate].
  destruct (first_is 91 s).
  - destruct (index_byte 93 s) as [e|]; [|discriminate].
    destruct (Nat.eqb (S e) (length s)); [discriminate|].
    destruct (Nat.eqb (S e) i); [|discriminate].
    destruct (has_byte 91 (skipn 1 s)); [discriminate|].
    destruct (has_byte 93 (skipn (S e) s)); [discriminate|].
    intros E; inversion E; subst. apply ascii_firstn. exact (ascii_skipn 1 s H).
  - destruct (has_byte 58 (firstn i s)); [discriminate|].
    destruct (has_byte 91 s); [discriminate|]. destruct (has_byte 93 s); [discriminate|].
    intros E; inversion E; subst. apply ascii_firstn, H.
Qed.

(* ------------------------------------------------------------------ SplitHostPort of a joined simple address *)
Lemma split_join_simple h p :
  has_byte 58 h = false -> has_byte 91 h = false -> has_byte 93 h = false ->
  has_byte 58 p = false -> has_byte 91 p = false -> has_byte 93 p = false ->
  split_host_port (join_host_port h p) = Some (h, p).
Proof.
  intros Hc H1 H2 Pc P1 P2. unfold join_host_port. rewrite Hc.
  change (h ++ [58] ++ p) with (h ++ 58 :: p). unfold split_host_port.
  rewrite (last_index_app 58 h p Pc).
  assert (F : first_is 91 (h ++ 58 :: p) = false).
  { destruct h as [|c h]; [reflexivity|]. cbn [app first_is]. rewrite has_byte_cons in H1.
    apply orb_false_iff in H1 as [H1 _]. exact H1. }
  rewrite F, firstn_length_app, Hc.
  assert (B1 : has_byte 91 (h ++ 58 :: p) = false).
  { rewrite has_byte_app, has_byte_cons, H1, P1. reflexivity. }
  assert (B2 : has_byte 93 (h ++ 58 :: p) = false).
  { rewrite has_byte_app, has_byte_cons, H2, P2. reflexivity. }
  rewrite B1, B2, skipn_S_length_app. reflexivity.
Qed.

(* ------------------------------------------------------------------ connect-to *)
Lemma redirect_hp_find rules h p :
  redirect_hp rules h p =
  match find (fun r => rule_matches r h p) rules with Some r => Some (rule_target r h p) | None => None end.
Proof.
  induction rules as [|r rules IH]; [reflexivity|]. cbn. destruct (rule_matches r h p); [reflexivity | exact IH].
Qed.

Lemma dial_redirect_is_spec rules addr : dial_redirect rules addr = spec_redirect rules addr.
Proof.
  unfold dial_redirect, spec_redirect. destruct (split_host_port addr) as [[h p]|]; [|reflexivity].
  rewrite redirect_hp_find. destruct (find _ rules); reflexivity.
Qed.

Lemma is_empty_nil s : is_empty s = true <-> s = [].
Proof. destruct s; split; intros H; try reflexivity; discriminate. Qed.

Lemma rule_matches_meaning r h p :
  rule_matches r h p = true <->
  (src_host r = [] \/ src_host r = h) /\ (src_port r = [] \/ src_port r = p).
Proof.
  unfold rule_matches. rewrite andb_true_iff, !orb_true_iff, !is_empty_nil, !str_eqb_eq. reflexivity.
Qed.

Lemma rule_target_meaning r h p :
  rule_target r h p = join_host_port (match dst_host r with [] => h | x => x end)
                                     (match dst_port r with [] => p | x => x end).
Proof. unfold rule_target. destruct (dst_host r), (dst_port r); reflexivity. Qed.

(* first match: a matching head rule decides, a non-matching head rule is skipped, no rule = identity *)
Lemma redirect_first_match r rules h p :
  has_byte 58 h = false -> has_byte 91 h = false -> has_byte 93 h = false ->
  has_byte 58 p = false -> has_byte 91 p = false -> has_byte 93 p = false ->
  dial_redirect [] (join_host_port h p) = join_host_port h p /\
  (rule_matches r h p = true -> dial_redirect (r :: rules) (join_host_port h p) = rule_target r h p) /\
  (rule_matches r h p = false ->
   dial_redirect (r :: rules) (join_host_port h p) = dial_redirect rules (join_host_port h p)).
Proof.
  intros. unfold dial_redirect. rewrite split_join_simple by assumption. cbn [redirect_hp].
  split; [reflexivity|]. split; intros E; rewrite E; reflexivity.
Qed.

Lemma redirect_unparsable rules addr : split_host_port addr = None -> dial_redirect rules addr = addr.
Proof. unfold dial_redirect. intros ->. reflexivity. Qed.
