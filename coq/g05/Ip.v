(* COPY of coq/g04/Ip.v (C04 owns it; vlib/c05.py reports when the two files differ). *)
(* net.ParseIP (Go 1.23: netip.ParseAddr without zone, As16) and the
   IsLoopback / IsUnspecified classification, as executable Gallina.
   Validated against the real functions by the harness (differential). *)
From FwdLib Require Export Bytes.

Definition all_digits (s : str) : bool :=
  match s with [] => false | _ => forallb is_digit s end.

Fixpoint dec_val (s : str) (acc : N) : N :=
  match s with [] => acc | c :: r => dec_val r (acc * 10 + (c - 48)) end.

(* netip.parseIPv4Fields, one field: decimal digits only, no leading zero
   unless the field is "0", value <= 255 *)
Definition v4_field (s : str) : option N :=
  if all_digits s then
    match s with
    | c :: _ :: _ =>
        if c =? 48 then None
        else let v := dec_val s 0 in if v <=? 255 then Some v else None
    | _ => Some (dec_val s 0)
    end
  else None.

Definition parse_ipv4 (s : str) : option (list N) :=
  match split_byte 46 s with
  | [f0; f1; f2; f3] =>
      match v4_field f0, v4_field f1, v4_field f2, v4_field f3 with
      | Some a, Some c, Some d, Some e => Some [a; c; d; e]
      | _, _, _, _ => None
      end
  | _ => None
  end.

Definition v4_prefix : list N := [0;0;0;0;0;0;0;0;0;0;255;255].

Definition hex_val (c : N) : option N :=
  if is_digit c then Some (c - 48)
  else if (97 <=? c) && (c <=? 102) then Some (c - 97 + 10)
  else if (65 <=? c) && (c <=? 70) then Some (c - 65 + 10)
  else None.

(* the inner hex loop of netip.parseIPv6: (number of digits, value, rest);
   None when a fifth digit is met *)
Fixpoint hex_run (s : str) (off : nat) (acc : N) : option (nat * N * str) :=
  match s with
  | c :: r =>
      match hex_val c with
      | Some v => if (3 <? off)%nat then None else hex_run r (S off) (acc * 16 + v)
      | None => Some (off, acc, s)
      end
  | [] => Some (off, acc, [])
  end.

Definition v6_finish (s : str) (i : N) (bytes : list N) (ell : option N) : option (list N) :=
  match s with
  | _ :: _ => None                                  (* trailing garbage *)
  | [] =>
      if i <? 16 then
        match ell with
        | None => None                              (* address string too short *)
        | Some e => Some (firstn (N.to_nat e) bytes ++ repeat 0 (N.to_nat (16 - i))
                          ++ skipn (N.to_nat e) bytes)
        end
      else match ell with Some _ => None | None => Some bytes end
  end.

Fixpoint v6_loop (fuel : nat) (s : str) (i : N) (bytes : list N) (ell : option N)
  : option (list N) :=
  match fuel with
  | O => None
  | S f =>
      if 16 <=? i then v6_finish s i bytes ell
      else
        match hex_run s 0 0 with
        | None => None
        | Some (off, acc, rest) =>
            match off with
            | O => None                              (* no digits *)
            | S _ =>
                match rest with
                | [] => v6_finish [] (i + 2) (bytes ++ [acc / 256; acc mod 256]) ell
                | c :: rest1 =>
                    if c =? 46 then                  (* '.': trailing dotted quad *)
                      if (match ell with None => negb (i =? 12) | Some _ => false end) then None
                      else if 16 <? i + 4 then None
                      else match parse_ipv4 s with
                           | Some q => v6_finish [] (i + 4) (bytes ++ q) ell
                           | None => None
                           end
                    else if negb (c =? 58) then None (* want colon *)
                    else
                      let bytes' := bytes ++ [acc / 256; acc mod 256] in
                      match rest1 with
                      | [] => None                   (* colon must be followed by more *)
                      | d :: rest2 =>
                          if d =? 58 then            (* ellipsis *)
                            match ell with
                            | Some _ => None
                            | None =>
                                match rest2 with
                                | [] => v6_finish [] (i + 2) bytes' (Some (i + 2))
                                | _ => v6_loop f rest2 (i + 2) bytes' (Some (i + 2))
                                end
                            end
                          else v6_loop f rest1 (i + 2) bytes' ell
                      end
                end
            end
        end
  end.

Definition parse_ipv6 (s : str) : option (list N) :=
  match s with
  | 58 :: 58 :: r =>
      match r with
      | [] => Some (repeat 0 16%nat)
      | _ => v6_loop (S (length r)) r 0 [] (Some 0)
      end
  | _ => v6_loop (S (length s)) s 0 [] None
  end.

(* netip.ParseAddr looks for the first of '.', ':' or '%' *)
Fixpoint first_sep (s : str) : N :=
  match s with
  | [] => 0
  | c :: r => if (c =? 46) || (c =? 58) || (c =? 37) then c else first_sep r
  end.

(* net.ParseIP: 16-byte form, or None.  Any '%' makes it fail: either
   ParseAddr rejects it or the zone is non-empty and net.parseIP rejects that. *)
Definition parse_ip (s : str) : option (list N) :=
  if existsb (N.eqb 37) s then None
  else if first_sep s =? 46 then option_map (app v4_prefix) (parse_ipv4 s)
  else if first_sep s =? 58 then parse_ipv6 s
  else None.

Definition is_v4mapped (ip : list N) : bool := str_eqb (firstn 12 ip) v4_prefix.

(* net.IP.IsLoopback on a 16-byte address *)
Definition ip_loopback (ip : list N) : bool :=
  if is_v4mapped ip then nth 12 ip 0 =? 127
  else str_eqb ip (repeat 0 15%nat ++ [1]).

(* net.IP.IsUnspecified *)
Definition ip_unspecified (ip : list N) : bool :=
  str_eqb ip (v4_prefix ++ [0;0;0;0]) || str_eqb ip (repeat 0 16%nat).
