(* C05 — the PAC first-entry translation (Proxies.First + parseProxy + parseMode + Proxy.URL + pacProxy's
   rejection) computes the statement's keyword table.  Facts about Tables.v are hypotheses. *)
From G05 Require Import Routing Spec Check.

Section Pac.
  Hypothesis Hconsts : mode_consts = [b "DIRECT"; b "PROXY"; b "HTTP"; b "HTTPS"; b "SOCKS"; b "SOCKS4"; b "SOCKS5"].
  Hypothesis Hstrings : mode_strings = mode_consts.
  Hypothesis Harms : parse_mode_arms = map (fun m => (m, m)) mode_consts.
  Hypothesis Hdefault : parse_mode_default = b "DIRECT".
  Hypothesis Hshape : parse_proxy_trims = true /\ parse_proxy_has_direct_literal = true /\
                      parse_proxy_direct_literal = b "DIRECT" /\ parse_proxy_cut_sep = [32].
  Hypothesis Hport : parse_proxy_validates_port = true.
  Hypothesis Hhost : parse_proxy_validates_host = true.
  Hypothesis Hfirst : first_empty_is_direct = true /\ first_entry_sep = [59].
  Hypothesis Hurl : url_nil_mode = b "DIRECT" /\ url_remap = [(b "PROXY", b "HTTP")] /\ url_scheme_lower = true.
  Hypothesis Hunsup : pac_unsupported_modes = [b "SOCKS"; b "SOCKS4"].

  (* what pacProxy does with a parsed entry, as a function of the mode *)
  Definition entry_result (p : pproxy) : presult :=
    if mem (pp_mode p) pac_unsupported_modes then PFail
    else match proxy_url p with None => PDirect | Some (sch, hp) => PUrl sch hp end.

  Definition keyword_hop (kw h p : str) : hop :=
    match spec_keyword kw with
    | None => HDirect
    | Some None => HFail
    | Some (Some ty) => HProxy ty (join_host_port h p)
    end.

  Lemma entry_result_no_proxy : entry_result no_proxy = PDirect.
  Proof.
    unfold entry_result, no_proxy, proxy_url, mode_direct. destruct Hurl as (Hn & _ & _).
    rewrite Hunsup, Hn, Hconsts. reflexivity.
  Qed.

  Lemma mode_table kw h p :
    entry_result {| pp_mode := parse_mode kw; pp_host := h; pp_port := p |} = hop_presult (keyword_hop kw h p).
  Proof.
    unfold entry_result, proxy_url, parse_mode, keyword_hop, spec_keyword, mode_string. cbn [pp_mode pp_host pp_port].
    destruct Hurl as (Hn & Hr & Hl). rewrite Hunsup, Hn, Hr, Hl, Hstrings, Harms, Hdefault, Hconsts.
    cbn [map assoc].
    destruct (str_eqb kw (b "DIRECT")) eqn:E1; [apply str_eqb_eq in E1; subst kw; reflexivity|].
    destruct (str_eqb kw (b "PROXY")) eqn:E2; [apply str_eqb_eq in E2; subst kw; reflexivity|].
    destruct (str_eqb kw (b "HTTP")) eqn:E3; [apply str_eqb_eq in E3; subst kw; reflexivity|].
    destruct (str_eqb kw (b "HTTPS")) eqn:E4; [apply str_eqb_eq in E4; subst kw; reflexivity|].
    destruct (str_eqb kw (b "SOCKS")) eqn:E5; [apply str_eqb_eq in E5; subst kw; reflexivity|].
    destruct (str_eqb kw (b "SOCKS4")) eqn:E6; [apply str_eqb_eq in E6; subst kw; reflexivity|].
    destruct (str_eqb kw (b "SOCKS5")) eqn:E7; [apply str_eqb_eq in E7; subst kw; reflexivity|].
    reflexivity.
  Qed.

  Lemma parse_proxy_entry (x : str) :
    match parse_proxy x with None => PFail | Some p => entry_result p end =
    hop_presult
      (let e := trim_space x in
       if is_empty e || str_eqb e (b "DIRECT") then HDirect
       else match cut_byte 32 e with
            | None => HFail
            | Some (kw, hp) =>
                match split_host_port hp with
                | None => HFail
                | Some (h, p) => if negb (valid_host h) then HFail
                                 else if negb (valid_port16 p) then HFail else keyword_hop kw h p
                end
            end).
  Proof.
    unfold parse_proxy. destruct Hshape as (Ht & Hd & Hl & Hc). rewrite Ht, Hd, Hl, Hc, Hport, Hhost.
    cbv zeta. set (e := trim_space x).
    destruct (is_empty e) eqn:Ee; [cbn [orb]; rewrite entry_result_no_proxy; reflexivity|].
    cbn [orb andb]. destruct (str_eqb e (b "DIRECT")) eqn:Ed; [rewrite entry_result_no_proxy; reflexivity|].
    change (sep_byte [32]) with 32.
    destruct (cut_byte 32 e) as [[kw hp]|]; [|reflexivity].
    destruct (split_host_port hp) as [[h p]|]; [|reflexivity].
    destruct (valid_host h); cbn [negb andb]; [|reflexivity].
    destruct (valid_port16 p); cbn [negb]; [|reflexivity].
    apply mode_table.
  Qed.

  Theorem pac_proxy_is_spec r : pac_proxy r = hop_presult (spec_pac r).
  Proof.
    destruct r as [|s]; [reflexivity|].
    unfold pac_proxy, spec_pac, spec_pac_entry, first_entry, proxies_first.
    destruct Hfirst as (He & Hs). rewrite He, Hs. change (sep_byte [59]) with 59. cbn [andb].
    destruct (is_empty s) eqn:Es.
    - destruct s; [|discriminate]. fold (entry_result no_proxy). rewrite entry_result_no_proxy. reflexivity.
    - set (x := match cut_byte 59 s with Some (x, _) => x | None => s end).
      pose proof (parse_proxy_entry x) as H. cbv zeta in H.
      unfold entry_result in H. unfold keyword_hop in H. exact H.
  Qed.
End Pac.
