(* C05 — the syntax of a --connect-to value: host.go ParseHostPortPair.
   Model: the regular expression ^(H)?:(\d+)?:(H)?:(\d+)?$ with H = [.\w\-]+ | [.0-9]+ | \[?[:0-9a-fA-F]+\]?
   under Go's leftmost-first (backtracking-priority) submatch semantics, written as a search over the candidate
   splits in priority order; then the removal of brackets and HostPort.Validate (net.isDomainName and
   net.ParseIP transcribed).  MODELLED: Go regexp's submatch semantics, net.isDomainName. *)
From G05 Require Import Routing Ip.

Definition is_word (c : N) : bool := is_alpha c || is_digit c || (c =? 95).
Definition cls_dns (c : N) : bool := (c =? 46) || is_word c || (c =? 45).
Definition cls_ip4 (c : N) : bool := (c =? 46) || is_digit c.
Definition is_hex (c : N) : bool := is_digit c || ((97 <=? c) && (c <=? 102)) || ((65 <=? c) && (c <=? 70)).
Definition cls_ip6 (c : N) : bool := (c =? 58) || is_hex c.

(* every way `[class]+` matches a prefix of s, longest first: (matched, rest) *)
Fixpoint run_splits (cls : N -> bool) (s : str) : list (str * str) :=
  match s with
  | c :: r => if cls c then map (fun mr => (c :: fst mr, snd mr)) (run_splits cls r) ++ [([c], r)] else []
  | [] => []
  end.

(* `c?` (greedy) *)
Definition opt_byte (c : N) (s : str) : list (str * str) :=
  match s with
  | d :: r => if d =? c then [([c], r); ([], s)] else [([], s)]
  | [] => [([], s)]
  end.

Definition alt6 (s : str) : list (str * str) :=
  flat_map (fun a =>
    flat_map (fun m => map (fun z => (fst a ++ fst m ++ fst z, snd z)) (opt_byte 93 (snd m)))
             (run_splits cls_ip6 (snd a)))
    (opt_byte 91 s).

(* (H)? : the three alternatives in order, then "group absent" (an absent group is the empty string for the caller) *)
Definition opt_host (s : str) : list (str * str) :=
  run_splits cls_dns s ++ run_splits cls_ip4 s ++ alt6 s ++ [([], s)].
Definition opt_digits (s : str) : list (str * str) := run_splits is_digit s ++ [([], s)].

Definition expect_colon (s : str) : option str :=
  match s with c :: r => if c =? 58 then Some r else None | [] => None end.

Fixpoint first_some {A B} (f : A -> option B) (l : list A) : option B :=
  match l with
  | [] => None
  | x :: r => match f x with Some y => Some y | None => first_some f r end
  end.

(* the four captured groups *)
Definition re_groups (s : str) : option (str * str * str * str) :=
  first_some (fun h1 => match expect_colon (snd h1) with None => None | Some r1 =>
    first_some (fun p1 => match expect_colon (snd p1) with None => None | Some r2 =>
      first_some (fun h2 => match expect_colon (snd h2) with None => None | Some r3 =>
        first_some (fun p2 => match snd p2 with
                              | [] => Some (fst h1, fst p1, fst h2, fst p2)
                              | _ => None
                              end) (opt_digits r3) end) (opt_host r2) end) (opt_digits r1) end) (opt_host s).

(* strings.NewReplacer("[", "", "]", "") *)
Definition strip_brackets (s : str) : str := filter (fun c => negb ((c =? 91) || (c =? 93))) s.

(* net.isDomainName *)
Record dn_state := { dn_last : N; dn_nonnum : bool; dn_part : nat; dn_bad : bool }.
Definition dn_step (st : dn_state) (c : N) : dn_state :=
  if dn_bad st then st
  else if is_alpha c || (c =? 95) then {| dn_last := c; dn_nonnum := true; dn_part := S (dn_part st); dn_bad := false |}
  else if is_digit c then {| dn_last := c; dn_nonnum := dn_nonnum st; dn_part := S (dn_part st); dn_bad := false |}
  else if c =? 45 then
    if dn_last st =? 46 then {| dn_last := c; dn_nonnum := dn_nonnum st; dn_part := dn_part st; dn_bad := true |}
    else {| dn_last := c; dn_nonnum := true; dn_part := S (dn_part st); dn_bad := false |}
  else if c =? 46 then
    if (dn_last st =? 46) || (dn_last st =? 45) || Nat.ltb 63 (dn_part st) || Nat.eqb (dn_part st) 0
    then {| dn_last := c; dn_nonnum := dn_nonnum st; dn_part := dn_part st; dn_bad := true |}
    else {| dn_last := c; dn_nonnum := dn_nonnum st; dn_part := O; dn_bad := false |}
  else {| dn_last := c; dn_nonnum := dn_nonnum st; dn_part := dn_part st; dn_bad := true |}.
Definition is_domain_name (s : str) : bool :=
  if str_eqb s [46] then true
  else if is_empty s || Nat.ltb 254 (length s) || (Nat.eqb (length s) 254 && negb (last_is 46 s)) then false
  else let st := fold_left dn_step s {| dn_last := 46; dn_nonnum := false; dn_part := O; dn_bad := false |} in
       negb (dn_bad st) && negb (dn_last st =? 45) && negb (Nat.ltb 63 (dn_part st)) && dn_nonnum st.

(* HostPort.Validate *)
Definition host_valid (h : str) : bool :=
  is_empty h || str_eqb h [42] || is_domain_name h || match parse_ip h with Some _ => true | None => false end.
Definition port_valid (p : str) : bool := is_empty p || valid_port16 p.

Definition parse_pair (s : str) : option rule :=
  match re_groups s with
  | None => None
  | Some (h1, p1, h2, p2) =>
      let r := {| src_host := strip_brackets h1; src_port := p1; dst_host := strip_brackets h2; dst_port := p2 |} in
      if host_valid (src_host r) && port_valid p1 && host_valid (dst_host r) && port_valid p2 then Some r else None
  end.

(* ------------------------------------------------------------------ soundness: an accepted value means what it spells *)
Lemma run_splits_sound cls s : forall m r, In (m, r) (run_splits cls s) -> s = m ++ r /\ forallb cls m = true /\ m <> [].
Proof.
  induction s as [|c s IH]; intros m r H; [destruct H|].
  cbn [run_splits] in H. destruct (cls c) eqn:E; [|destruct H].
  apply in_app_or in H as [H|[H|[]]].
  - apply in_map_iff in H as [[m' r0] [Heq Hin]]. cbn [fst snd] in Heq. inversion Heq; subst.
    destruct (IH m' r Hin) as (-> & Hc & _). repeat split; [cbn; rewrite E, Hc; reflexivity | discriminate].
  - inversion H; subst. repeat split; [cbn; rewrite E; reflexivity | discriminate].
Qed.

Lemma opt_byte_sound c s m r : In (m, r) (opt_byte c s) -> s = m ++ r.
Proof.
  unfold opt_byte. destruct s as [|d s]; [intros [H|[]]; inversion H; reflexivity|].
  destruct (d =? c) eqn:E.
  - apply N.eqb_eq in E. subst d. intros [H|[H|[]]]; inversion H; reflexivity.
  - intros [H|[]]; inversion H; reflexivity.
Qed.

Lemma alt6_sound s m r : In (m, r) (alt6 s) -> s = m ++ r.
Proof.
  unfold alt6. intros H. apply in_flat_map in H as [[a ra] [Ha H]].
  apply in_flat_map in H as [[x rx] [Hx H]]. apply in_map_iff in H as [[z rz] [Heq Hz]].
  cbn [fst snd] in *. inversion Heq; subst.
  apply opt_byte_sound in Ha. apply run_splits_sound in Hx as [Hx _]. apply opt_byte_sound in Hz.
  subst. rewrite <- !app_assoc. reflexivity.
Qed.

Lemma opt_host_sound s m r : In (m, r) (opt_host s) -> s = m ++ r.
Proof.
  unfold opt_host. intros H. apply in_app_or in H as [H|H]; [apply run_splits_sound in H; tauto|].
  apply in_app_or in H as [H|H]; [apply run_splits_sound in H; tauto|].
  apply in_app_or in H as [H|[H|[]]]; [apply alt6_sound; exact H | inversion H; reflexivity].
Qed.

Lemma opt_digits_sound s m r : In (m, r) (opt_digits s) -> s = m ++ r /\ forallb is_digit m = true.
Proof.
  unfold opt_digits. intros H. apply in_app_or in H as [H|[H|[]]].
  - apply run_splits_sound in H. tauto.
  - inversion H; subst. split; reflexivity.
Qed.

Lemma first_some_in {A B} (f : A -> option B) l y : first_some f l = Some y -> exists x, In x l /\ f x = Some y.
Proof.
  induction l as [|x l IH]; [discriminate|]. cbn. destruct (f x) eqn:E.
  - intros H; inversion H; subst. exists x. split; [left; reflexivity | exact E].
  - intros H. destruct (IH H) as [x' [Hin Hf]]. exists x'. split; [right; exact Hin | exact Hf].
Qed.

Lemma expect_colon_sound s r : expect_colon s = Some r -> s = 58 :: r.
Proof.
  destruct s as [|c s]; [discriminate|]. cbn. destruct (c =? 58) eqn:E; [|discriminate].
  apply N.eqb_eq in E. intros H; inversion H; subst. reflexivity.
Qed.

(* whatever the expression accepts is exactly group1 ":" group2 ":" group3 ":" group4, the port groups are digits *)
Theorem re_groups_sound s h1 p1 h2 p2 :
  re_groups s = Some (h1, p1, h2, p2) ->
  s = h1 ++ [58] ++ p1 ++ [58] ++ h2 ++ [58] ++ p2 /\ forallb is_digit p1 = true /\ forallb is_digit p2 = true.
Proof.
  unfold re_groups. intros H.
  apply first_some_in in H as [[a ra] [Ha H]]. cbn [fst snd] in H.
  destruct (expect_colon ra) as [r1|] eqn:E1; [|discriminate].
  apply first_some_in in H as [[q1 rq1] [Hq1 H]]. cbn [fst snd] in H.
  destruct (expect_colon rq1) as [r2|] eqn:E2; [|discriminate].
  apply first_some_in in H as [[c rc] [Hc H]]. cbn [fst snd] in H.
  destruct (expect_colon rc) as [r3|] eqn:E3; [|discriminate].
  apply first_some_in in H as [[q2 rq2] [Hq2 H]]. cbn [fst snd] in H.
  destruct rq2; [|discriminate]. inversion H; subst.
  apply opt_host_sound in Ha. apply expect_colon_sound in E1.
  apply opt_digits_sound in Hq1 as [Hq1 D1]. apply expect_colon_sound in E2.
  apply opt_host_sound in Hc. apply expect_colon_sound in E3.
  apply opt_digits_sound in Hq2 as [Hq2 D2].
  subst. rewrite app_nil_r. repeat split; assumption.
Qed.

(* a rule the flag parser returns has decimal ports below 2^16 (or none) and hosts free of brackets *)
Theorem parse_pair_sound s r :
  parse_pair s = Some r ->
  port_valid (src_port r) = true /\ port_valid (dst_port r) = true /\
  has_byte 91 (src_host r) = false /\ has_byte 93 (dst_host r) = false /\
  exists h1 h2, s = h1 ++ [58] ++ src_port r ++ [58] ++ h2 ++ [58] ++ dst_port r /\
                src_host r = strip_brackets h1 /\ dst_host r = strip_brackets h2.
Proof.
  unfold parse_pair. destruct (re_groups s) as [[[[h1 p1] h2] p2]|] eqn:E; [|discriminate].
  cbn [src_host src_port dst_host dst_port].
  destruct (host_valid (strip_brackets h1) && port_valid p1 && host_valid (strip_brackets h2) && port_valid p2) eqn:V;
    [|discriminate].
  intros H; inversion H; subst. cbn [src_host src_port dst_host dst_port].
  apply andb_true_iff in V as [V V4]. apply andb_true_iff in V as [V V3]. apply andb_true_iff in V as [V1 V2].
  assert (NB : forall c x, (c =? 91) || (c =? 93) = true -> has_byte c (strip_brackets x) = false).
  { intros c x Hc. unfold has_byte, strip_brackets. induction x as [|d x IH]; [reflexivity|].
    cbn [filter]. destruct ((d =? 91) || (d =? 93)) eqn:Ed; cbn [negb]; [exact IH|].
    cbn [existsb]. rewrite IH. destruct (c =? d) eqn:Ecd; [|reflexivity].
    apply N.eqb_eq in Ecd. subst d. rewrite Hc in Ed. discriminate. }
  repeat split; try assumption; [apply NB; reflexivity | apply NB; reflexivity|].
  exists h1, h2. destruct (re_groups_sound s h1 p1 h2 p2 E) as (Hs & _ & _). repeat split; assumption.
Qed.
