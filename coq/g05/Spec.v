(* C05 — the property in its own words (short, declarative; no reference to Tables.v).
   spec_hop      which next hop the configuration selects for a target
   spec_pac_entry  the PAC keyword table of the statement
   spec_redirect   --connect-to: first matching rule, empty = any / unchanged, no rule = identity
   spec_route    the party the connection is opened to and what it is used as *)
From G05 Require Export Routing Ip.

Inductive ptype := THttp | THttps | TSocks5.
Inductive hop := HDirect | HProxy (ty : ptype) (hostport : str) | HFail.

Definition ptype_scheme (ty : ptype) : str :=
  match ty with THttp => b "http" | THttps => b "https" | TSocks5 => b "socks5" end.

Definition ptype_of_scheme (s : str) : option ptype :=
  if str_eqb s (b "http") then Some THttp
  else if str_eqb s (b "https") then Some THttps
  else if str_eqb s (b "socks5") then Some TSocks5
  else None.

(* keyword of a PAC entry: None = unrecognised (treated as DIRECT);
   Some None = recognised but unsupported; Some (Some ty) = proxy of that type *)
Definition spec_keyword (kw : str) : option (option ptype) :=
  if str_eqb kw (b "PROXY") || str_eqb kw (b "HTTP") then Some (Some THttp)
  else if str_eqb kw (b "HTTPS") then Some (Some THttps)
  else if str_eqb kw (b "SOCKS5") then Some (Some TSocks5)
  else if str_eqb kw (b "SOCKS") || str_eqb kw (b "SOCKS4") then Some None
  else None.

Definition first_entry (s : str) : str :=
  trim_space (match cut_byte 59 s with Some (x, _) => x | None => s end).

Definition spec_pac_entry (s : str) : hop :=
  let e := first_entry s in
  if is_empty e || str_eqb e (b "DIRECT") then HDirect
  else match cut_byte 32 e with
       | None => HFail                                   (* no host:port *)
       | Some (kw, hp) =>
           match split_host_port hp with
           | None => HFail                               (* host:port cannot be parsed *)
           | Some (h, p) =>
               if negb (valid_host h) then HFail         (* no host, or a blank / control byte in it *)
               else if negb (valid_port16 p) then HFail  (* the port is not a port number *)
               else match spec_keyword kw with
               | None => HDirect
               | Some None => HFail
               | Some (Some ty) => HProxy ty (join_host_port h p)
               end
           end
       end.

Definition spec_pac (r : pac_res) : hop :=
  match r with PacErr => HFail | PacOk s => spec_pac_entry s end.

Definition presult_hop (r : presult) : hop :=
  match r with
  | PDirect => HDirect
  | PFail => HFail
  | PUrl sch hp => match ptype_of_scheme sch with Some ty => HProxy ty hp | None => HFail end
  end.

Definition hop_presult (h : hop) : presult :=
  match h with HDirect => PDirect | HFail => PFail | HProxy ty hp => PUrl (ptype_scheme ty) hp end.

(* a host is a direct-domains host when the list matches its name as written or the name that is actually
   contacted (its IDNA-mapped ASCII form), with or without the trailing dot of a fully qualified name *)
Definition direct_domain (cfg : config) (h : str) : bool :=
  match c_direct cfg with
  | Some m => existsb m [h; c_idna cfg h; strip_dot h; strip_dot (c_idna cfg h)]
  | None => false
  end.
Definition localhost_direct (cfg : config) (h : str) : bool :=
  str_eqb (c_lh_mode cfg) (b "direct") && c_is_localhost cfg h.

(* the configured upstream, before the direct rules: external function > static upstream > PAC *)
Definition spec_upstream (cfg : config) : option (target -> hop) :=
  match c_upfunc cfg, c_upstream cfg, c_pac cfg with
  | Some f, _, _ => Some (fun t => presult_hop (f t))
  | None, Some u, _ => Some (fun _ => presult_hop (PUrl (fst u) (snd u)))
  | None, None, Some p => Some (fun t => spec_pac (p t))
  | None, None, None => None
  end.

Definition spec_hop (cfg : config) (t : target) : hop :=
  match spec_upstream cfg with
  | None => HDirect
  | Some up => if direct_domain cfg (hostname t) then HDirect
               else if localhost_direct cfg (hostname t) then HDirect
               else up t
  end.

(* same precedence, one level lower (results of the proxy function), with the PAC translation left as in the code:
   used to state T05_precedence independently of the PAC table *)
Definition spec_base (cfg : config) : option proxy_fn :=
  match c_upfunc cfg, c_upstream cfg, c_pac cfg with
  | Some f, _, _ => Some f
  | None, Some u, _ => Some (fun _ => PUrl (fst u) (snd u))
  | None, None, Some p => Some (fun t => pac_proxy (p t))
  | None, None, None => None
  end.

Definition spec_proxy (cfg : config) (t : target) : presult :=
  match spec_base cfg with
  | None => PDirect
  | Some up => if direct_domain cfg (hostname t) then PDirect
               else if localhost_direct cfg (hostname t) then PDirect
               else up t
  end.

(* --connect-to *)
Definition spec_redirect (rules : list rule) (addr : str) : str :=
  match split_host_port addr with
  | None => addr
  | Some (h, p) =>
      match find (fun r => rule_matches r h p) rules with
      | Some r => rule_target r h p
      | None => addr
      end
  end.

(* address the request is for: the CONNECT authority exactly as given (the proxy dials it as is; a name that is
   not ASCII does not resolve); for requests the proxy forwards itself the ASCII form of the host with the
   scheme's default port *)
Definition spec_target_addr (idna : str -> str) (t : target) : str :=
  match t_kind t with
  | Connect => t_urlhost t
  | Plain => canonical_addr idna (t_scheme t) (t_urlhost t)
  end.

Definition spec_wire (ty : ptype) (t : target) : wire :=
  match ty with
  | TSocks5 => WSocks
  | _ => match t_kind t with
         | Connect => WConnect
         | Plain => if str_eqb (t_scheme t) (b "http") then WAbs else WConnect
         end
  end.

Definition ptype_tls (ty : ptype) : bool := match ty with THttps => true | _ => false end.

(* what the first hop is told about the target: a proxy asked to tunnel gets the CONNECT authority / SOCKS5
   address (the client's authority for a CONNECT, host:port with the scheme's default port for a request the
   proxy forwards itself); an HTTP proxy relaying a plain request gets the request's host in the absolute URI;
   an origin gets it in the Host field; a direct tunnel is told nothing by the proxy *)
Definition spec_named (idna puny : str -> str) (h : hop) (t : target) : str :=
  match h, t_kind t with
  | HFail, _ => []
  | HDirect, Connect => []
  | HDirect, Plain => puny_hostport puny (t_urlhost t)
  | HProxy TSocks5 _, Connect => t_urlhost t
  | HProxy _ _, Connect => puny_hostport puny (t_urlhost t)
  | HProxy ty _, Plain => match spec_wire ty t with
                          | WAbs => puny_hostport puny (t_urlhost t)
                          | _ => spec_target_addr idna t
                          end
  end.

Definition spec_route_hop (idna puny : str -> str) (rules : list rule) (h : hop) (t : target) : outcome :=
  match h with
  | HFail => OFail
  | HDirect => OSent (spec_redirect rules (spec_target_addr idna t))
                     (match t_kind t with Plain => str_eqb (t_scheme t) (b "https") | Connect => false end) WDirect
                     (spec_named idna puny h t)
  | HProxy ty hp => OSent (spec_redirect rules hp) (ptype_tls ty) (spec_wire ty t) (spec_named idna puny h t)
  end.

Definition spec_route (cfg : config) (rules : list rule) (t : target) : outcome :=
  spec_route_hop (c_idna cfg) (c_puny cfg) rules (spec_hop cfg t) t.

(* the first hop as a party: address, whether TLS is spoken to it, and what it is used as
   (direct peer / HTTP proxy / SOCKS5 proxy) — what must agree between a plain request and a CONNECT *)
Inductive role := RPeer | RHttpProxy | RSocksProxy.
Definition wire_role (w : wire) : role :=
  match w with WDirect => RPeer | WAbs | WConnect => RHttpProxy | WSocks => RSocksProxy end.
Definition first_hop (o : outcome) : option (str * bool * role) :=
  match o with
  | OFail => None
  | OSent a tls w _ => Some (a, match wire_role w with RPeer => false | _ => tls end, wire_role w)
  end.

(* how many attempts are made and whether one connected: stop at the first success, at most n attempts *)
Fixpoint tries (n : nat) (outcomes : list bool) : nat * bool :=
  match n with
  | O => (O, false)
  | S n' => match outcomes with
            | true :: _ => (1%nat, true)
            | _ => let r := tries n' (tl outcomes) in (S (fst r), snd r)
            end
  end.

(* the socket events of one exchange according to the spec, for ANY sequence of attempt outcomes: every attempt
   goes to the one address the rules map the hop to; the connection, if any, is used once *)
Definition spec_exchange_o (cfg : config) (rules : list rule) (t : target) (attempts : nat) (outcomes : list bool)
  : list event :=
  match spec_route cfg rules t with
  | OFail => []
  | OSent a tls w n =>
      let r := tries (effective_attempts attempts) outcomes in
      repeat (EvDial a) (fst r) ++ (if snd r then [EvUse a tls w n] else [])
  end.

(* the socket events of one exchange according to the spec: dial attempts (retries of the SAME address) and
   one use of the connection *)
Definition spec_exchange (cfg : config) (rules : list rule) (t : target) (attempts failures : nat) : list event :=
  match spec_route cfg rules t with
  | OFail => []
  | OSent a tls w n =>
      if Nat.ltb failures (effective_attempts attempts)
      then repeat (EvDial a) (S failures) ++ [EvUse a tls w n]
      else repeat (EvDial a) (effective_attempts attempts)
  end.

(* ------------------------------------------------------------------ localhost (for the hosts of the e2e pool) *)
(* The classifier hp.isLocalhost is an oracle of this group (it is modelled and proved complete in C04).  So that
   a change of it does not go unseen here, its answers are compared with this small reference on a fixed pool:
   the name the transport connects to (IDNA-mapped, lower case, without the trailing dot) is "localhost" or an
   alias of a loopback address in the hosts file (hostsfile.LocalhostAliases), or an IP literal (net.ParseIP as
   transcribed in Ip.v, zone ignored) that is a loopback or the unspecified address. *)
Definition localhost_ref (idna : str -> str) (aliases : list str) (h : str) : bool :=
  let l := strip_dot (lower (idna h)) in
  str_eqb l (b "localhost") || mem l (map lower aliases) ||
  match parse_ip (match cut_byte 37 l with Some (x, _) => x | None => l end) with   (* a zone does not change the host *)
  | Some ip => ip_loopback ip || ip_unspecified ip
  | None => false
  end.
