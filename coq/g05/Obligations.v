(* C05 — table obligations: facts about the CURRENT source as extracted into Tables.v on this run, each
   discharged by closed computation.  When the source changes shape, exactly the lemma naming that shape
   stops checking (and the generic theorems in Proofs.v, which take these facts as hypotheses, are untouched). *)
From G05 Require Import Routing Spec Proofs.

Definition m_DIRECT := b "DIRECT".
Definition m_PROXY := b "PROXY".
Definition m_HTTP := b "HTTP".
Definition m_HTTPS := b "HTTPS".
Definition m_SOCKS := b "SOCKS".
Definition m_SOCKS4 := b "SOCKS4".
Definition m_SOCKS5 := b "SOCKS5".

(* pac/proxy.go *)
Lemma ob_mode_consts : mode_consts = [m_DIRECT; m_PROXY; m_HTTP; m_HTTPS; m_SOCKS; m_SOCKS4; m_SOCKS5].
Proof. vm_compute. reflexivity. Qed.
Lemma ob_mode_strings : mode_strings = mode_consts.
Proof. vm_compute. reflexivity. Qed.
Lemma ob_parse_mode_arms : parse_mode_arms = map (fun m => (m, m)) mode_consts.
Proof. vm_compute. reflexivity. Qed.
Lemma ob_parse_mode_default : parse_mode_default = m_DIRECT.
Proof. vm_compute. reflexivity. Qed.
Lemma ob_parse_proxy_shape :
  parse_proxy_trims = true /\ parse_proxy_has_direct_literal = true /\
  parse_proxy_direct_literal = m_DIRECT /\ parse_proxy_cut_sep = [32].
Proof. vm_compute. repeat split; reflexivity. Qed.
Lemma ob_parse_proxy_validates_port : parse_proxy_validates_port = true.
Proof. vm_compute. reflexivity. Qed.
Lemma ob_parse_proxy_validates_host : parse_proxy_validates_host = true.
Proof. vm_compute. reflexivity. Qed.
Lemma ob_first_shape : first_empty_is_direct = true /\ first_entry_sep = [59].
Proof. vm_compute. split; reflexivity. Qed.
Lemma ob_url_shape : url_nil_mode = m_DIRECT /\ url_remap = [(m_PROXY, m_HTTP)] /\ url_scheme_lower = true.
Proof. vm_compute. repeat split; reflexivity. Qed.

(* http_proxy.go *)
(* every kind of upstream has its arm in configureProxy's selection switch (the order of the arms only matters
   when several kinds are configured at once: Proofs.sel_ok) *)
Lemma ob_select_arms_present : select_arms_present = true.
Proof. vm_compute. reflexivity. Qed.
Lemma ob_wrappers : wrappers = [b "direct-domains"; b "direct-localhost"].
Proof. vm_compute. reflexivity. Qed.
Lemma ob_localhost_const : localhost_direct_const = b "direct".
Proof. vm_compute. reflexivity. Qed.
Lemma ob_wrappers_hostname : wrappers_test_url_hostname = true.
Proof. vm_compute. reflexivity. Qed.
(* the direct rules judge the host that is contacted: direct-domains also asks about the IDNA-mapped name,
   isLocalhost maps the name itself *)
Lemma ob_direct_rules_judge_contacted_host :
  (direct_domains_maps_idna = true /\ direct_domains_strips_dot = true) /\ localhost_maps_idna_inside = true.
Proof. vm_compute. repeat split; reflexivity. Qed.

(* internal/martian, dialvia *)
Lemma ob_connect_switch :
  connect_switch = [(b "http", b "connectHTTP"); (b "https", b "connectHTTP"); (b "socks5", b "connectSOCKS5")] /\
  connect_default_fails = true.
Proof. vm_compute. split; reflexivity. Qed.
Lemma ob_tls_scheme : connect_http_tls_scheme = b "https" /\ dialvia_http_tls_scheme = b "https".
Proof. vm_compute. split; reflexivity. Qed.
Lemma ob_shared_functions :
  connect_uses_proxy_func = true /\ transport_shares_proxy_func = true /\ transport_shares_dial = true /\
  transport_own_proxy_nil = true.
Proof. vm_compute. repeat split; reflexivity. Qed.
Lemma ob_socks_port : socks5_default_port = b "1080".
Proof. vm_compute. reflexivity. Qed.

(* loopback names of the hosts file are recognised in any letter case: NewHTTPProxy lower-cases them when it
   builds hp.localhost, isLocalhost lower-cases the name it is asked about *)
Lemma ob_alias_case_insensitive :
  aliases_lowercased_at_construction = true /\ localhost_lowercases_query = true.
Proof. vm_compute. split; reflexivity. Qed.

(* pac/pac.go: FindProxyForURL uses its receiver only to call the script, so its answer is a function of the
   query (the model's PAC oracle is a function of the request) *)
Lemma ob_pac_resolver_stateless :
  forallb (fun f => mem f [b "fn"; b "vm"]) pac_find_proxy_receiver_fields = true /\
  pac_find_proxy_writes_receiver = false.
Proof. vm_compute. split; reflexivity. Qed.

(* net/http of the toolchain that builds the harness; config.go *)
Lemma ob_transport_socks : transport_socks_schemes = [b "socks5"; b "socks5h"].
Proof. vm_compute. reflexivity. Qed.
Lemma ob_transport_ports :
  assoc (b "http") transport_port_map = Some (b "80") /\ assoc (b "https") transport_port_map = Some (b "443") /\
  assoc (b "socks5") transport_port_map = Some socks5_default_port.
Proof. vm_compute. repeat split; reflexivity. Qed.
Lemma ob_stdlib_shapes : stdlib_shapes_checked = true.
Proof. vm_compute. reflexivity. Qed.
(* every scheme config.go accepts for the static upstream is handled by connect's switch and is a proxy type
   of the statement; its port must be a number; the configuration is validated when the proxy is built *)
Lemma ob_static_upstream_validated :
  forallb (fun s => match connect_handler s, ptype_of_scheme s with Some _, Some _ => true | _, _ => false end)
          upstream_supported_schemes = true /\
  upstream_port_validated = true /\ upstream_validated_at_construction = true /\ upstream_pac_exclusive = true.
Proof. vm_compute. repeat split; reflexivity. Qed.

(* net.go and wiring *)
(* the connect-to redirect is applied once, before the Dialer's retry loop is entered *)
Lemma ob_redirect_before_retry_loop : redirect_in_retry_loop = false.
Proof. vm_compute. reflexivity. Qed.
Lemma ob_redirect_shape :
  redirect_shape_first_match = true /\ dialer_redirects_every_dial = true /\ connect_to_wired = true.
Proof. vm_compute. repeat split; reflexivity. Qed.

(* every proxy type the PAC parser recognises is either DIRECT, or has a URL scheme that BOTH the CONNECT
   switch and the statement's table support, or is rejected by pacProxy *)
Definition mode_accounted (m : str) : bool :=
  str_eqb m url_nil_mode ||
  mem m pac_unsupported_modes ||
  match proxy_url {| pp_mode := m; pp_host := b "h"; pp_port := b "1" |} with
  | Some (sch, _) => match connect_handler sch, ptype_of_scheme sch with Some _, Some _ => true | _, _ => false end
  | None => true
  end.
Lemma ob_every_mode_accounted : forallb mode_accounted mode_consts = true.
Proof. vm_compute. reflexivity. Qed.
Lemma ob_pac_unsupported : pac_unsupported_modes = [m_SOCKS; m_SOCKS4].
Proof. vm_compute. reflexivity. Qed.
