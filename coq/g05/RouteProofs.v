(* C05 — the route taken by both paths (CONNECT: martian's connect; plain: the Transport) is the spec's route. *)
From G05 Require Import Routing Spec Check Proofs AddrProofs.

Definition presult_wf (idna : str -> str) (r : presult) : Prop :=
  match r with
  | PUrl sch hp => ptype_of_scheme sch <> None /\ canon_hp hp = true /\ idna (url_hostname hp) = url_hostname hp
  | _ => True
  end.

(* what the theorems need from the environment of the routing code:
   - non-PAC upstreams are well formed: config.go validateProxyURL for the static upstream (scheme
     http/https/socks5, ASCII host name or IP, numeric port); an embedding program's UpstreamProxyFunc must
     deliver the same;
   - the IDNA mapping leaves ASCII names alone (net/http and asciiHostname only call it on non-ASCII names);
   - a PAC answer is ASCII (pac.go rejects anything else). *)
Definition cfg_wf (cfg : config) : Prop :=
  (forall f t, c_upfunc cfg = Some f -> presult_wf (c_idna cfg) (f t)) /\
  (forall u, c_upstream cfg = Some u -> presult_wf (c_idna cfg) (PUrl (fst u) (snd u))) /\
  (forall s, is_ascii s = true -> c_idna cfg s = s) /\
  (forall p t s, c_pac cfg = Some p -> p t = PacOk s -> is_ascii s = true) /\
  sel_ok cfg.   (* at most one kind of upstream is configured, or the selection arms stand in the source's order *)

Lemma cfg_wf_no_static cfg :
  c_upfunc cfg = None -> c_upstream cfg = None ->
  (forall s, is_ascii s = true -> c_idna cfg s = s) ->
  (forall p t s, c_pac cfg = Some p -> p t = PacOk s -> is_ascii s = true) -> cfg_wf cfg.
Proof.
  intros Hf Hu Hi Hp. split; [intros f t; rewrite Hf; discriminate|].
  split; [intros u; rewrite Hu; discriminate|]. split; [assumption|]. split; [assumption|].
  right. unfold at_most_one_upstream. rewrite Hf, Hu. destruct (c_pac cfg); exact I.
Qed.

(* a static upstream as config.go validates it: supported scheme, ASCII host without brackets, numeric port *)
Lemma cfg_wf_static cfg sch h p :
  c_upfunc cfg = None -> c_upstream cfg = Some (sch, join_host_port h p) -> c_pac cfg = None ->
  (forall s, is_ascii s = true -> c_idna cfg s = s) ->
  ptype_of_scheme sch <> None -> has_byte 91 h = false -> has_byte 93 h = false -> is_ascii h = true ->
  valid_port16 p = true ->
  cfg_wf cfg.
Proof.
  intros Hf Hu Hp Hi Hs H1 H2 Ha Hv. split; [intros f t; rewrite Hf; discriminate|]. split.
  - intros u; rewrite Hu; intros E; inversion E; subst. cbn [fst snd presult_wf].
    split; [exact Hs|]. split; [apply canon_join; assumption|].
    rewrite (url_hostname_join h p H1 H2 Hv). apply Hi, Ha.
  - split; [exact Hi|]. split; [intros q t s; rewrite Hp; discriminate|].
    right. unfold at_most_one_upstream. rewrite Hf, Hu, Hp. exact I.
Qed.

(* a static upstream that passed config.go's validation (scheme in its list, ASCII host name or IP, numeric
   port) is well formed in the sense the theorems need *)
Lemma static_upstream_wf idna sch h p :
  forallb (fun s => match connect_handler s, ptype_of_scheme s with Some _, Some _ => true | _, _ => false end)
          upstream_supported_schemes = true ->
  mem sch upstream_supported_schemes = true ->
  has_byte 91 h = false -> has_byte 93 h = false -> valid_port16 p = true -> idna h = h ->
  presult_wf idna (PUrl sch (join_host_port h p)).
Proof.
  intros Hall Hm H1 H2 Hv Hi. unfold mem in Hm. apply existsb_exists in Hm as [x [Hin Hx]].
  apply str_eqb_eq in Hx. subst x. rewrite forallb_forall in Hall. specialize (Hall sch Hin).
  cbn [presult_wf]. split; [|split; [apply canon_join; assumption|]].
  - destruct (connect_handler sch); [|discriminate]. destruct (ptype_of_scheme sch); [discriminate | discriminate].
  - rewrite (url_hostname_join h p H1 H2 Hv). exact Hi.
Qed.

Lemma presult_hop_round h : presult_hop (hop_presult h) = h.
Proof. destruct h as [|ty hp|]; try reflexivity. destruct ty; reflexivity. Qed.

Lemma ptype_scheme_supported ty : ptype_of_scheme (ptype_scheme ty) = Some ty.
Proof. destruct ty; reflexivity. Qed.

(* ------------------------------------------------------------------ the Dialer's retry loop *)
Lemma dial_redirect_nil addr : dial_redirect [] addr = addr.
Proof. unfold dial_redirect. destruct (split_host_port addr) as [[h p]|]; reflexivity. Qed.

(* with the redirect outside the loop every attempt uses the address the loop was entered with, for every
   number of attempts and EVERY sequence of outcomes *)
Lemma dial_loop_same rules n : forall outcomes a,
  dial_loop rules false n outcomes a =
  (repeat a (fst (tries n outcomes)), if snd (tries n outcomes) then Some a else None).
Proof.
  induction n as [|n IH]; intros outcomes a; [reflexivity|].
  cbn [dial_loop tries]. destruct outcomes as [|[|] r]; cbn [tl]; try reflexivity;
    rewrite IH; destruct (tries n _) as [k ok]; reflexivity.
Qed.

Lemma dialer_once rules attempts outcomes addr :
  redirect_in_retry_loop = false ->
  dialer_dial rules attempts outcomes addr =
  (repeat (dial_redirect rules addr) (fst (tries (effective_attempts attempts) outcomes)),
   if snd (tries (effective_attempts attempts) outcomes) then Some (dial_redirect rules addr) else None).
Proof. intros H. unfold dialer_dial. rewrite H. apply dial_loop_same. Qed.

Lemma tries_bound n outcomes : (fst (tries n outcomes) <= n)%nat.
Proof.
  revert outcomes; induction n as [|n IH]; intros outcomes; [apply le_n|].
  cbn [tries]. destruct outcomes as [|[|] r]; cbn [tl fst]; try lia;
    specialize (IH r) + specialize (IH []); destruct (tries n _); cbn [fst] in *; lia.
Qed.

Lemma tries_positive n outcomes : (1 <= n)%nat -> (1 <= fst (tries n outcomes))%nat.
Proof.
  destruct n as [|n]; [lia|]. intros _. cbn [tries].
  destruct outcomes as [|[|] r]; cbn [tl fst]; try lia; destruct (tries n _); cbn [fst]; lia.
Qed.

Lemma effective_attempts_pos n : (1 <= effective_attempts n)%nat.
Proof. destruct n; cbn; lia. Qed.

Lemma map_repeat_ev a k : map EvDial (repeat a k) = repeat (EvDial a) k.
Proof. induction k as [|k IH]; [reflexivity|]. cbn [repeat map]. rewrite IH. reflexivity. Qed.

(* the scripted environments: k failures, then a success *)
Lemma tries_scripted n k :
  tries n (repeat false k ++ [true]) = if Nat.ltb k n then (S k, true) else (n, false).
Proof.
  revert k; induction n as [|n IH]; intros k; [reflexivity|].
  destruct k as [|k]; [reflexivity|]. cbn [repeat app tries tl]. rewrite IH.
  change (Nat.ltb (S k) (S n)) with (Nat.ltb k n). destruct (Nat.ltb k n); reflexivity.
Qed.

(* the other source shape (redirect inside the loop) sends a retry somewhere else: with rules A->B, B->C and a
   failing first attempt the second attempt goes to C *)
Lemma redirect_in_loop_refuted :
  exists rules outcomes addr a1 a2,
    fst (dial_loop rules true 2 outcomes addr) = [a1; a2] /\ a1 <> a2 /\
    fst (dial_loop rules false 2 outcomes (dial_redirect rules addr)) = [a1; a1].
Proof.
  exists [mkrule (b "a.test") [] (b "b.test") []; mkrule (b "b.test") [] (b "c.test") []],
         [false; true], (b "a.test:80"), (b "b.test:80"), (b "c.test:80").
  split; [reflexivity|]. split; [discriminate | reflexivity].
Qed.

Section Route.
  Hypothesis Hsw : connect_switch =
    [(b "http", b "connectHTTP"); (b "https", b "connectHTTP"); (b "socks5", b "connectSOCKS5")].
  Hypothesis Htls : dialvia_http_tls_scheme = b "https".
  Hypothesis Hsocks : transport_socks_schemes = [b "socks5"; b "socks5h"].
  Hypothesis Hshared : connect_uses_proxy_func = true /\ transport_shares_proxy_func = true.
  Hypothesis Hprec : forall cfg t, sel_ok cfg -> proxy_for cfg t = spec_proxy cfg t.
  Hypothesis Hpac : forall r, pac_proxy r = hop_presult (spec_pac r).

  (* every URL pacProxy returns has a supported scheme, a canonical host:port and an ASCII host *)
  Lemma spec_pac_entry_wf s ty hp :
    is_ascii s = true -> spec_pac_entry s = HProxy ty hp ->
    canon_hp hp = true /\ is_ascii (url_hostname hp) = true.
  Proof.
    intros Ha. unfold spec_pac_entry.
    destruct (is_empty (first_entry s) || str_eqb (first_entry s) (b "DIRECT")); [discriminate|].
    assert (He : is_ascii (first_entry s) = true).
    { unfold first_entry. apply ascii_trim_space. destruct (cut_byte 59 s) as [[x y]|] eqn:E; [|exact Ha].
      apply (ascii_cut_byte 59 s x y Ha E). }
    destruct (cut_byte 32 (first_entry s)) as [[kw x]|] eqn:Ec; [|discriminate].
    destruct (ascii_cut_byte 32 _ kw x He Ec) as [_ Hx].
    destruct (split_host_port x) as [[h p]|] eqn:Es; [|discriminate].
    destruct (valid_host h); cbn [negb]; [|discriminate].
    destruct (valid_port16 p) eqn:Ev; cbn [negb]; [|discriminate].
    destruct (spec_keyword kw) as [[ty'|]|]; try discriminate.
    intros H; inversion H; subst.
    destruct (split_host_no_brackets _ _ _ Es) as [H1 H2].
    split; [apply canon_join; assumption|].
    rewrite (url_hostname_join h p H1 H2 Ev). exact (ascii_split_host x h p Hx Es).
  Qed.

  Lemma pac_proxy_wf idna r :
    (forall s, is_ascii s = true -> idna s = s) -> (forall s, r = PacOk s -> is_ascii s = true) ->
    presult_wf idna (pac_proxy r).
  Proof.
    intros Hi Ha. rewrite Hpac. destruct r as [|s]; [exact I|]. cbn [spec_pac].
    destruct (spec_pac_entry s) as [|ty hp|] eqn:E; cbn [hop_presult presult_wf]; try exact I.
    destruct (spec_pac_entry_wf s ty hp (Ha s eq_refl) E) as [Hc Hh].
    split; [rewrite ptype_scheme_supported; discriminate|]. split; [exact Hc | apply Hi, Hh].
  Qed.

  Lemma proxy_for_wf cfg t : cfg_wf cfg -> presult_wf (c_idna cfg) (proxy_for cfg t).
  Proof.
    intros (Hf & Hu & Hi & Hp & Hsel). rewrite (Hprec cfg t Hsel). unfold spec_proxy, spec_base.
    destruct (c_upfunc cfg) as [f|] eqn:Ef.
    - destruct (direct_domain cfg (hostname t)); [exact I|].
      destruct (localhost_direct cfg (hostname t)); [exact I|]. eapply Hf; reflexivity.
    - destruct (c_upstream cfg) as [u|] eqn:Eu.
      + destruct (direct_domain cfg (hostname t)); [exact I|].
        destruct (localhost_direct cfg (hostname t)); [exact I|]. apply Hu; reflexivity.
      + destruct (c_pac cfg) as [p|] eqn:Epac; [|exact I].
        destruct (direct_domain cfg (hostname t)); [exact I|].
        destruct (localhost_direct cfg (hostname t)); [exact I|].
        apply pac_proxy_wf; [exact Hi | intros s Es; exact (Hp p t s eq_refl Es)].
  Qed.

  (* the hop named by the composed proxy function is the spec's hop *)
  Lemma hop_of_proxy_for cfg t : sel_ok cfg -> presult_hop (proxy_for cfg t) = spec_hop cfg t.
  Proof.
    intros Hsel. rewrite (Hprec cfg t Hsel). unfold spec_proxy, spec_hop, spec_base, spec_upstream.
    destruct (c_upfunc cfg) as [f|]; [|destruct (c_upstream cfg) as [u|]; [|destruct (c_pac cfg) as [p|]]];
      try reflexivity;
      destruct (direct_domain cfg (hostname t)); try reflexivity;
      destruct (localhost_direct cfg (hostname t)); try reflexivity.
    rewrite Hpac. apply presult_hop_round.
  Qed.

  Lemma handler_http : connect_handler (b "http") = Some (b "connectHTTP").
  Proof. unfold connect_handler. rewrite Hsw. reflexivity. Qed.
  Lemma handler_https : connect_handler (b "https") = Some (b "connectHTTP").
  Proof. unfold connect_handler. rewrite Hsw. reflexivity. Qed.
  Lemma handler_socks5 : connect_handler (b "socks5") = Some (b "connectSOCKS5").
  Proof. unfold connect_handler. rewrite Hsw. reflexivity. Qed.

  Lemma ptype_cases sch ty :
    ptype_of_scheme sch = Some ty ->
    (sch = b "http" /\ ty = THttp) \/ (sch = b "https" /\ ty = THttps) \/ (sch = b "socks5" /\ ty = TSocks5).
  Proof.
    unfold ptype_of_scheme.
    destruct (str_eqb sch (b "http")) eqn:E1; [apply str_eqb_eq in E1; intros H; inversion H; auto|].
    destruct (str_eqb sch (b "https")) eqn:E2; [apply str_eqb_eq in E2; intros H; inversion H; auto|].
    destruct (str_eqb sch (b "socks5")) eqn:E3; [apply str_eqb_eq in E3; intros H; inversion H; auto|].
    discriminate.
  Qed.

  Lemma route_of_presult idna puny rules pr t :
    presult_wf idna pr ->
    match t_kind t with Connect => route_connect puny rules pr t | Plain => route_plain idna puny rules pr t end =
    spec_route_hop idna puny rules (presult_hop pr) t.
  Proof.
    intros Hwf. destruct pr as [|sch hp|].
    - unfold spec_route_hop, spec_named, presult_hop, spec_target_addr, route_connect, route_plain.
      destruct (t_kind t); rewrite dial_redirect_is_spec; reflexivity.
    - destruct Hwf as (Hs & Hc & Hi). unfold presult_hop.
      destruct (ptype_of_scheme sch) as [ty|] eqn:Ety; [|congruence].
      unfold spec_route_hop, spec_named, spec_wire, spec_target_addr, route_connect, route_plain.
      rewrite (canon_canonical_addr idna _ _ Hc Hi), Hsocks.
      destruct (ptype_cases _ _ Ety) as [[-> ->]|[[-> ->]|[-> ->]]].
      + rewrite handler_http, Htls, (canon_connect_addr _ _ Hc), !dial_redirect_is_spec.
        destruct (t_kind t); [destruct (str_eqb (t_scheme t) (b "http"))|]; reflexivity.
      + rewrite handler_https, Htls, (canon_connect_addr _ _ Hc), !dial_redirect_is_spec.
        destruct (t_kind t); [destruct (str_eqb (t_scheme t) (b "http"))|]; reflexivity.
      + rewrite handler_socks5, (canon_connect_addr _ _ Hc), !dial_redirect_is_spec.
        destruct (t_kind t); reflexivity.
    - destruct (t_kind t); reflexivity.
  Qed.

  Theorem route_is_spec cfg rules t : cfg_wf cfg -> route cfg rules t = spec_route cfg rules t.
  Proof.
    intros Hwf. unfold route, spec_route. destruct Hshared as [-> ->].
    rewrite <- (hop_of_proxy_for cfg t (proj2 (proj2 (proj2 (proj2 Hwf))))).
    pose proof (route_of_presult (c_idna cfg) (c_puny cfg) rules (proxy_for cfg t) t (proxy_for_wf cfg t Hwf)) as H.
    destruct (t_kind t); exact H.
  Qed.

  (* ---------------- consequences ---------------- *)
  (* whenever the spec says the request must fail (script error, entry that cannot be parsed, recognised but
     unsupported type) both paths fail and nothing is dialled *)
  Corollary fail_on_both_paths cfg rules t :
    cfg_wf cfg -> spec_hop cfg t = HFail -> route cfg rules t = OFail.
  Proof. intros Hwf H. rewrite (route_is_spec _ _ _ Hwf). unfold spec_route. rewrite H. reflexivity. Qed.

  Lemma cut_space_keyword kw rest :
    has_byte 32 kw = false -> cut_byte 32 (kw ++ 32 :: rest) = Some (kw, rest).
  Proof.
    induction kw as [|c kw IH]; intros H; [reflexivity|].
    rewrite has_byte_cons in H. apply orb_false_iff in H as [H1 H2].
    cbn [app cut_byte]. rewrite H1, (IH H2). reflexivity.
  Qed.

  Lemma unsupported_entry_fails s kw rest :
    (kw = b "SOCKS" \/ kw = b "SOCKS4") -> first_entry s = kw ++ 32 :: rest -> spec_pac_entry s = HFail.
  Proof.
    intros Hkw He. unfold spec_pac_entry. rewrite He.
    assert (Hsp : has_byte 32 kw = false) by (destruct Hkw; subst; reflexivity).
    assert (Hne : is_empty (kw ++ 32 :: rest) || str_eqb (kw ++ 32 :: rest) (b "DIRECT") = false)
      by (destruct Hkw; subst; reflexivity).
    rewrite Hne, (cut_space_keyword kw rest Hsp).
    destruct (split_host_port rest) as [[h p]|]; [|reflexivity].
    destruct (negb (valid_host h)); [reflexivity|].
    destruct (negb (valid_port16 p)); [reflexivity|].
    destruct Hkw; subst; reflexivity.
  Qed.

  Theorem unsupported_fails cfg rules t p s kw rest :
    cfg_wf cfg ->
    c_upfunc cfg = None -> c_upstream cfg = None -> c_pac cfg = Some p ->
    direct_domain cfg (hostname t) = false -> localhost_direct cfg (hostname t) = false ->
    p t = PacOk s -> (kw = b "SOCKS" \/ kw = b "SOCKS4") -> first_entry s = kw ++ 32 :: rest ->
    route cfg rules t = OFail.
  Proof.
    intros Hwf Hf Hu Hp Hd Hl Hs Hkw He. apply fail_on_both_paths; [exact Hwf|].
    unfold spec_hop, spec_upstream. rewrite Hf, Hu, Hp, Hd, Hl, Hs. cbn [spec_pac].
    eapply unsupported_entry_fails; eassumption.
  Qed.

  (* the plain request and the CONNECT for the same host use the same first hop, or both fail *)
  Lemma first_hop_spec_agree idna puny rules h tp tc :
    t_kind tp = Plain -> t_kind tc = Connect -> t_scheme tp = b "http" ->
    spec_target_addr idna tp = spec_target_addr idna tc ->
    first_hop (spec_route_hop idna puny rules h tp) = first_hop (spec_route_hop idna puny rules h tc).
  Proof.
    intros Kp Kc Sp Ha. destruct h as [|ty hp|]; cbn [spec_route_hop first_hop wire_role]; [| |reflexivity].
    - rewrite Ha. reflexivity.
    - unfold spec_wire. rewrite Kp, Kc, Sp. destruct ty; reflexivity.
  Qed.

  Theorem http_connect_agree cfg rules tp tc :
    cfg_wf cfg ->
    t_kind tp = Plain -> t_kind tc = Connect -> t_scheme tp = b "http" ->
    spec_target_addr (c_idna cfg) tp = spec_target_addr (c_idna cfg) tc ->
    spec_hop cfg tp = spec_hop cfg tc ->
    first_hop (route cfg rules tp) = first_hop (route cfg rules tc).
  Proof.
    intros Hwf Kp Kc Sp Ha Hh. rewrite !(route_is_spec _ _ _ Hwf). unfold spec_route. rewrite Hh.
    apply first_hop_spec_agree; assumption.
  Qed.

  (* when the oracles answer by host name only, the hop depends on the host name only *)
  Lemma spec_hop_by_hostname cfg t1 t2 :
    hostname t1 = hostname t2 ->
    (forall f, c_upfunc cfg = Some f -> f t1 = f t2) ->
    (forall p, c_pac cfg = Some p -> p t1 = p t2) ->
    spec_hop cfg t1 = spec_hop cfg t2.
  Proof.
    intros Hh Hf Hp. unfold spec_hop, spec_upstream. rewrite Hh.
    destruct (c_upfunc cfg) as [f|]; [rewrite (Hf f eq_refl); reflexivity|].
    destruct (c_upstream cfg); [reflexivity|].
    destruct (c_pac cfg) as [p|]; [rewrite (Hp p eq_refl); reflexivity | reflexivity].
  Qed.

  (* ---------------- one exchange: a single recipient ---------------- *)
  (* the rules only act in the Dialer: routing with a rule list = routing with none, then mapping the address *)
  Lemma route_rules cfg rules t :
    route cfg rules t =
    match route cfg [] t with
    | OFail => OFail
    | OSent a tls w n => OSent (dial_redirect rules a) tls w n
    end.
  Proof.
    unfold route. destruct Hshared as [-> ->].
    destruct (t_kind t); destruct (proxy_for cfg t) as [|sch hp|];
      unfold route_connect, route_plain; rewrite ?dial_redirect_nil; try reflexivity.
    - cbv zeta. rewrite ?dial_redirect_nil. destruct (mem sch transport_socks_schemes); [reflexivity|].
      destruct (str_eqb (t_scheme t) (b "http")); reflexivity.
    - destruct (connect_handler sch) as [h|]; [|reflexivity].
      destruct (str_eqb h (b "connectSOCKS5")); rewrite ?dial_redirect_nil; reflexivity.
  Qed.

  Hypothesis Hdial : redirect_in_retry_loop = false.

  Theorem exchange_o_is_spec cfg rules t attempts outcomes :
    cfg_wf cfg -> exchange_o cfg rules t attempts outcomes = spec_exchange_o cfg rules t attempts outcomes.
  Proof.
    intros Hwf. unfold exchange_o, spec_exchange_o. rewrite <- (route_is_spec _ _ _ Hwf), (route_rules cfg rules t).
    destruct (route cfg [] t) as [|a0 tls w n]; [reflexivity|].
    rewrite (dialer_once rules attempts outcomes a0 Hdial). cbn [fst snd].
    destruct (tries (effective_attempts attempts) outcomes) as [k ok]. cbn [fst snd].
    rewrite map_repeat_ev. destruct ok; reflexivity.
  Qed.

  Lemma exchange_is_spec cfg rules t attempts failures :
    cfg_wf cfg -> exchange cfg rules t attempts failures = spec_exchange cfg rules t attempts failures.
  Proof.
    intros Hwf. unfold exchange. rewrite (exchange_o_is_spec _ _ _ _ _ Hwf). unfold spec_exchange_o, spec_exchange.
    destruct (spec_route cfg rules t) as [|a tls w n]; [reflexivity|].
    rewrite tries_scripted. destruct (Nat.ltb failures (effective_attempts attempts)); cbn [fst snd];
      [reflexivity | rewrite app_nil_r; reflexivity].
  Qed.

  (* one exchange contacts one party, whatever the socket layer answers to the attempts *)
  Theorem single_recipient cfg rules t attempts outcomes :
    cfg_wf cfg ->
    match spec_route cfg rules t with
    | OFail => exchange_o cfg rules t attempts outcomes = []
    | OSent a tls w nm =>
        (forall e, In e (exchange_o cfg rules t attempts outcomes) -> event_addr e = a) /\
        (exists n, (1 <= n <= effective_attempts attempts)%nat /\
           (exchange_o cfg rules t attempts outcomes = repeat (EvDial a) n ++ [EvUse a tls w nm] \/
            exchange_o cfg rules t attempts outcomes = repeat (EvDial a) n))
    end.
  Proof.
    intros Hwf. rewrite (exchange_o_is_spec _ _ _ _ _ Hwf). unfold spec_exchange_o.
    destruct (spec_route cfg rules t) as [|a tls w nm]; [reflexivity|].
    pose proof (tries_bound (effective_attempts attempts) outcomes) as Hb.
    assert (Hp : (1 <= fst (tries (effective_attempts attempts) outcomes))%nat)
      by (apply tries_positive; destruct attempts; cbn; lia).
    destruct (tries (effective_attempts attempts) outcomes) as [k ok]. cbn [fst snd] in *. split.
    - intros e He. apply in_app_or in He as [He|He].
      + apply repeat_spec in He. subst e. reflexivity.
      + destruct ok; [destruct He as [<-|[]]; reflexivity | destruct He].
    - exists k. split; [lia|]. destruct ok; [left; reflexivity | right; apply app_nil_r].
  Qed.
End Route.

(* ------------------------------------------------------------------ concrete configurations for the examples *)
Definition ex_pac (t : target) : pac_res :=
  if str_eqb (hostname t) (b "bad.test") then PacOk (b "SOCKS4 pa.test:1080; DIRECT")
  else PacOk (b " HTTPS pa.test:8443 ; DIRECT").
Definition ex_cfg : config :=
  {| c_upfunc := None; c_upstream := None; c_pac := Some ex_pac;
     c_direct := Some (fun h => str_eqb h (b "intra.test")); c_lh_mode := b "direct";
     c_is_localhost := fun h => str_eqb h (b "localhost"); c_idna := fun h => h; c_puny := fun h => h |}.
Definition ex_rules : list rule := [mkrule (b "pa.test") [] (b "10.0.0.9") []; mkrule [] [] (b "sink.test") []].
Definition ex_cfg_static : config :=
  {| c_upfunc := None; c_upstream := Some (b "socks5", join_host_port (b "pa.test") (b "1080")); c_pac := None;
     c_direct := None; c_lh_mode := b "deny"; c_is_localhost := fun _ => false; c_idna := fun h => h; c_puny := fun h => h |}.
Definition ex_rules_chain : list rule :=
  [mkrule (b "a.test") [] (b "b.test") []; mkrule (b "b.test") [] (b "c.test") []].
Lemma socks5_supported : ptype_of_scheme (b "socks5") <> None.
Proof. discriminate. Qed.
Lemma ex_pac_ascii : forall p t s, c_pac ex_cfg = Some p -> p t = PacOk s -> is_ascii s = true.
Proof.
  intros p t s E. inversion E; subst p. unfold ex_pac.
  destruct (str_eqb (hostname t) (b "bad.test")); intros H; inversion H; reflexivity.
Qed.
