(* C05 — property theorems.  Nothing but statements, `exact`, Print Assumptions (and one Example). *)
From G05 Require Import Routing Spec FlagSyntax Check Proofs PacProofs AddrProofs RouteProofs Obligations.

(* direct-domains > localhost-direct > (external function > static upstream > PAC) > none:
   the proxy function composed by configureProxy computes the short spec, for every configuration,
   every matcher / localhost classifier / PAC / IDNA oracle and every target; a host is a direct-domains host
   when the list matches its name as written or the (IDNA-mapped) name that is contacted.  sel_ok: at most one
   kind of upstream is configured (all the CLI can do), or the arms of the selection switch stand in the order
   func > upstream > pac. *)
Theorem T05_precedence : forall cfg t, sel_ok cfg -> proxy_for cfg t = spec_proxy cfg t.
Proof. exact (proxy_for_is_spec ob_select_arms_present ob_wrappers ob_localhost_const (proj1 ob_direct_rules_judge_contacted_host)). Qed.
Print Assumptions T05_precedence.

(* The PAC result is translated by the statement's table, for EVERY return string: first entry only; empty /
   DIRECT / unrecognised keyword = direct; PROXY,HTTP = http proxy; HTTPS = TLS proxy; SOCKS5 = socks5 proxy;
   SOCKS,SOCKS4 (recognised, unsupported) = fail; host:port that cannot be parsed, whose host is empty or
   contains a blank / control byte, or whose port is not a port number = fail; script error = fail. *)
Theorem T05_pac_first_entry : forall r, pac_proxy r = hop_presult (spec_pac r).
Proof. exact (pac_proxy_is_spec ob_mode_consts ob_mode_strings ob_parse_mode_arms ob_parse_mode_default
               ob_parse_proxy_shape ob_parse_proxy_validates_port ob_parse_proxy_validates_host ob_first_shape ob_url_shape ob_pac_unsupported). Qed.
Print Assumptions T05_pac_first_entry.

(* --connect-to: the redirect is "first matching rule" (find), for every rule list and every address ... *)
Theorem T05_connect_to_first_match : forall rules addr, dial_redirect rules addr = spec_redirect rules addr.
Proof. exact dial_redirect_is_spec. Qed.
Print Assumptions T05_connect_to_first_match.

(* ... where matching means "empty = any", the target means "empty = unchanged", a matching head rule decides,
   a non-matching one is skipped, no rule or an unparsable address = identity. *)
Theorem T05_connect_to_meaning : forall r rules h p,
  (rule_matches r h p = true <->
     (src_host r = [] \/ src_host r = h) /\ (src_port r = [] \/ src_port r = p)) /\
  rule_target r h p = join_host_port (match dst_host r with [] => h | x => x end)
                                     (match dst_port r with [] => p | x => x end) /\
  (has_byte 58 h = false -> has_byte 91 h = false -> has_byte 93 h = false ->
   has_byte 58 p = false -> has_byte 91 p = false -> has_byte 93 p = false ->
   dial_redirect [] (join_host_port h p) = join_host_port h p /\
   (rule_matches r h p = true -> dial_redirect (r :: rules) (join_host_port h p) = rule_target r h p) /\
   (rule_matches r h p = false ->
    dial_redirect (r :: rules) (join_host_port h p) = dial_redirect rules (join_host_port h p))) /\
  (forall addr, split_host_port addr = None -> dial_redirect rules addr = addr).
Proof. exact (fun r rules h p => conj (rule_matches_meaning r h p) (conj (rule_target_meaning r h p)
               (conj (redirect_first_match r rules h p) (redirect_unparsable rules)))). Qed.
Print Assumptions T05_connect_to_meaning.

(* The syntax of a --connect-to value (host.go ParseHostPortPair: the regular expression under Go's leftmost-first
   submatch semantics, bracket removal, HostPort.Validate): EVERY accepted string is, group by group, exactly
   src_host ":" src_port ":" dst_host ":" dst_port; the rule's ports are port numbers or absent and its hosts are
   the host groups without brackets - the parser never invents or moves a field. *)
Theorem T05_connect_to_flag_sound : forall s r,
  parse_pair s = Some r ->
  port_valid (src_port r) = true /\ port_valid (dst_port r) = true /\
  has_byte 91 (src_host r) = false /\ has_byte 93 (dst_host r) = false /\
  exists h1 h2, s = h1 ++ [58] ++ src_port r ++ [58] ++ h2 ++ [58] ++ dst_port r /\
                src_host r = strip_brackets h1 /\ dst_host r = strip_brackets h2.
Proof. exact parse_pair_sound. Qed.
Print Assumptions T05_connect_to_flag_sound.

(* ... and the documented forms are accepted with the meaning they spell (evaluated instances: names, IPv4,
   bracketed IPv6, empty fields; an unbracketed IPv6 source host takes the leading colons as the expression does). *)
Example T05_example_flag :
  parse_pair (b "origin.test:80:rt.test:9000") = Some (mkrule (b "origin.test") (b "80") (b "rt.test") (b "9000")) /\
  parse_pair (b ":::") = Some (mkrule [] [] [] []) /\
  parse_pair (b ":443:[::1]:") = Some (mkrule [] (b "443") (b "::1") []) /\
  parse_pair (b "10.0.0.1::[fe80::1]:8080") = Some (mkrule (b "10.0.0.1") [] (b "fe80::1") (b "8080")) /\
  parse_pair (b "::1:80:a.test:1") = Some (mkrule (b "::1") (b "80") (b "a.test") (b "1")) /\
  parse_pair (b "a.test:80:b.test") = None /\ parse_pair (b "a.test:65536::") = None /\ parse_pair (b "-a:::") = None.
Proof. exact (conj eq_refl (conj eq_refl (conj eq_refl (conj eq_refl (conj eq_refl (conj eq_refl (conj eq_refl eq_refl))))))). Qed.

(* Main refinement: for both paths (CONNECT through martian's connect, plain requests through the Transport as
   modelled) the party the connection is opened to, whether TLS is spoken to it and what it is used as are
   exactly the spec's — for every configuration whose non-PAC upstreams are well formed (cfg_wf: what
   config.go validates), every PAC oracle and return string, every rule list, every target. *)
Theorem T05_route_is_spec : forall cfg rules t, cfg_wf cfg -> route cfg rules t = spec_route cfg rules t.
Proof. exact (route_is_spec (proj1 ob_connect_switch) (proj2 ob_tls_scheme) ob_transport_socks
               (conj (proj1 ob_shared_functions) (proj1 (proj2 ob_shared_functions)))
               T05_precedence T05_pac_first_entry). Qed.
Print Assumptions T05_route_is_spec.

(* cfg_wf is what config.go enforces for --proxy: every scheme of its list (extracted) is a proxy type both
   consumers support, the host is a name or an IP literal (no brackets), the port is a number. *)
Theorem T05_static_upstream_wf : forall idna sch h p,
  mem sch upstream_supported_schemes = true ->
  has_byte 91 h = false -> has_byte 93 h = false -> valid_port16 p = true -> idna h = h ->
  presult_wf idna (PUrl sch (join_host_port h p)).
Proof. exact (fun idna sch h p => static_upstream_wf idna sch h p (proj1 ob_static_upstream_validated)). Qed.
Print Assumptions T05_static_upstream_wf.

(* The hop chosen for a plain request and for a CONNECT to the same host is the same, or both fail. *)
Theorem T05_http_connect_agree : forall cfg rules tp tc,
  cfg_wf cfg -> t_kind tp = Plain -> t_kind tc = Connect -> t_scheme tp = b "http" ->
  spec_target_addr (c_idna cfg) tp = spec_target_addr (c_idna cfg) tc ->
  hostname tp = hostname tc ->
  (forall f, c_upfunc cfg = Some f -> f tp = f tc) ->
  (forall p, c_pac cfg = Some p -> p tp = p tc) ->
  first_hop (route cfg rules tp) = first_hop (route cfg rules tc).
Proof. exact (fun cfg rules tp tc Hwf Kp Kc Sp Ha Hh Hf Hp =>
               http_connect_agree (proj1 ob_connect_switch) (proj2 ob_tls_scheme) ob_transport_socks
                 (conj (proj1 ob_shared_functions) (proj1 (proj2 ob_shared_functions)))
                 T05_precedence T05_pac_first_entry cfg rules tp tc Hwf Kp Kc Sp Ha
                 (spec_hop_by_hostname cfg tp tc Hh Hf Hp)). Qed.
Print Assumptions T05_http_connect_agree.

(* A recognised but unsupported PAC type fails the request on both paths (nothing is dialled) ... *)
Theorem T05_unsupported_fails : forall cfg rules t p s kw rest,
  cfg_wf cfg ->
  c_upfunc cfg = None -> c_upstream cfg = None -> c_pac cfg = Some p ->
  direct_domain cfg (hostname t) = false -> localhost_direct cfg (hostname t) = false ->
  p t = PacOk s -> (kw = b "SOCKS" \/ kw = b "SOCKS4") -> first_entry s = kw ++ 32 :: rest ->
  route cfg rules t = OFail.
Proof. exact (unsupported_fails (proj1 ob_connect_switch) (proj2 ob_tls_scheme) ob_transport_socks
               (conj (proj1 ob_shared_functions) (proj1 (proj2 ob_shared_functions)))
               T05_precedence T05_pac_first_entry). Qed.
Print Assumptions T05_unsupported_fails.

(* ... and so does everything else the spec calls a failure (script error, unparsable entry). *)
Theorem T05_fail_on_both_paths : forall cfg rules t,
  cfg_wf cfg -> spec_hop cfg t = HFail -> route cfg rules t = OFail.
Proof. exact (fail_on_both_paths (proj1 ob_connect_switch) (proj2 ob_tls_scheme) ob_transport_socks
               (conj (proj1 ob_shared_functions) (proj1 (proj2 ob_shared_functions)))
               T05_precedence T05_pac_first_entry). Qed.
Print Assumptions T05_fail_on_both_paths.

(* net.go's Dialer (retry loop transcribed, redirect placed where the source places it): for every rule list,
   attempts setting, address and EVERY sequence of attempt outcomes, all attempts go to the address the rules map
   the given address to, computed once; the loop stops at the first success and after at most `attempts`
   (<= 0 meaning 1) attempts. *)
Theorem T05_dialer_redirects_once : forall rules attempts outcomes addr,
  dialer_dial rules attempts outcomes addr =
  (repeat (dial_redirect rules addr) (fst (tries (effective_attempts attempts) outcomes)),
   if snd (tries (effective_attempts attempts) outcomes) then Some (dial_redirect rules addr) else None) /\
  (1 <= fst (tries (effective_attempts attempts) outcomes) <= effective_attempts attempts)%nat.
Proof. exact (fun rules attempts outcomes addr =>
               conj (dialer_once rules attempts outcomes addr ob_redirect_before_retry_loop)
                    (conj (tries_positive _ outcomes (effective_attempts_pos attempts))
                          (tries_bound _ outcomes))). Qed.
Print Assumptions T05_dialer_redirects_once.

(* The other source shape the translator knows (redirect inside the retry loop) is NOT the property: with rules
   A->B, B->C and a failing first attempt the retry goes to C (the model branch for that shape, evaluated). *)
Theorem T05_redirect_in_retry_loop_refuted :
  exists rules outcomes addr a1 a2,
    fst (dial_loop rules true 2 outcomes addr) = [a1; a2] /\ a1 <> a2 /\
    fst (dial_loop rules false 2 outcomes (dial_redirect rules addr)) = [a1; a1].
Proof. exact redirect_in_loop_refuted. Qed.
Print Assumptions T05_redirect_in_retry_loop_refuted.

(* One exchange contacts one party, whatever the socket layer answers to the attempts: every dial attempt
   (retries included) and the single use of the connection go to the address the connect-to rules map the
   selected hop to; a failed selection dials nothing. *)
Theorem T05_single_recipient : forall cfg rules t attempts outcomes,
  cfg_wf cfg ->
  match spec_route cfg rules t with
  | OFail => exchange_o cfg rules t attempts outcomes = []
  | OSent a tls w nm =>
      (forall e, In e (exchange_o cfg rules t attempts outcomes) -> event_addr e = a) /\
      (exists n, (1 <= n <= effective_attempts attempts)%nat /\
         (exchange_o cfg rules t attempts outcomes = repeat (EvDial a) n ++ [EvUse a tls w nm] \/
          exchange_o cfg rules t attempts outcomes = repeat (EvDial a) n))
  end.
Proof. exact (single_recipient (proj1 ob_connect_switch) (proj2 ob_tls_scheme) ob_transport_socks
               (conj (proj1 ob_shared_functions) (proj1 (proj2 ob_shared_functions)))
               T05_precedence T05_pac_first_entry ob_redirect_before_retry_loop). Qed.
Print Assumptions T05_single_recipient.

(* The model's trace (routing code, then the Dialer) is the spec's trace, for every sequence of attempt outcomes;
   the run-time oracle compares the observed socket events with the instance "k failures, then a success". *)
Theorem T05_exchange_is_spec : forall cfg rules t attempts outcomes,
  cfg_wf cfg -> exchange_o cfg rules t attempts outcomes = spec_exchange_o cfg rules t attempts outcomes.
Proof. exact (exchange_o_is_spec (proj1 ob_connect_switch) (proj2 ob_tls_scheme) ob_transport_socks
               (conj (proj1 ob_shared_functions) (proj1 (proj2 ob_shared_functions)))
               T05_precedence T05_pac_first_entry ob_redirect_before_retry_loop). Qed.
Print Assumptions T05_exchange_is_spec.

Theorem T05_scripted_exchange_is_spec : forall cfg rules t attempts failures,
  cfg_wf cfg -> exchange cfg rules t attempts failures = spec_exchange cfg rules t attempts failures.
Proof. exact (exchange_is_spec (proj1 ob_connect_switch) (proj2 ob_tls_scheme) ob_transport_socks
               (conj (proj1 ob_shared_functions) (proj1 (proj2 ob_shared_functions)))
               T05_precedence T05_pac_first_entry ob_redirect_before_retry_loop). Qed.
Print Assumptions T05_scripted_exchange_is_spec.

(* Non-vacuity of the dialer statements: a chained rule list, three attempts, the first two fail. *)
Example T05_example_dialer :
  dialer_dial ex_rules_chain 3 [false; false; true; false] (b "a.test:80") =
    ([b "b.test:80"; b "b.test:80"; b "b.test:80"], Some (b "b.test:80")) /\
  dialer_dial ex_rules_chain 0 [false; true] (b "a.test:80") = ([b "b.test:80"], None).
Proof. exact (conj eq_refl eq_refl). Qed.

(* Every proxy type the PAC parser knows is DIRECT, supported by both consumers, or rejected (generic form of
   the repair of finding F6: it also covers a type added to parseMode later). *)
Theorem T05_every_pac_type_accounted : forallb mode_accounted mode_consts = true.
Proof. exact ob_every_mode_accounted. Qed.
Print Assumptions T05_every_pac_type_accounted.

(* Non-vacuity: a concrete configuration (RouteProofs.ex_cfg: PAC script, direct-domains list, localhost mode
   "direct", connect-to list ex_rules) meeting the hypotheses; the interesting outcomes are computed. *)
Example T05_example :
  cfg_wf ex_cfg /\
  route ex_cfg ex_rules (tgt 0 (b "http") (b "origin.test")) = OSent (b "10.0.0.9:8443") true WAbs (b "origin.test") /\
  route ex_cfg ex_rules (tgt 1 [] (b "origin.test:80")) = OSent (b "10.0.0.9:8443") true WConnect (b "origin.test:80") /\
  route ex_cfg ex_rules (tgt 0 (b "http") (b "intra.test")) = OSent (b "sink.test:80") false WDirect (b "intra.test") /\
  route ex_cfg ex_rules (tgt 1 [] (b "localhost:443")) = OSent (b "sink.test:443") false WDirect [] /\
  route ex_cfg ex_rules (tgt 0 (b "http") (b "bad.test")) = OFail /\
  route ex_cfg ex_rules (tgt 1 [] (b "bad.test:80")) = OFail.
Proof. exact (conj (cfg_wf_no_static ex_cfg eq_refl eq_refl (fun s _ => eq_refl) ex_pac_ascii)
                   (conj eq_refl (conj eq_refl (conj eq_refl (conj eq_refl (conj eq_refl eq_refl)))))). Qed.

(* the hypothesis cfg_wf is met by every static upstream config.go accepts *)
Example T05_example_static :
  cfg_wf ex_cfg_static /\
  route ex_cfg_static [] (tgt 1 [] (b "origin.test:443")) = OSent (b "pa.test:1080") false WSocks (b "origin.test:443").
Proof. exact (conj (cfg_wf_static ex_cfg_static (b "socks5") (b "pa.test") (b "1080") eq_refl eq_refl eq_refl
                      (fun s _ => eq_refl) socks5_supported eq_refl eq_refl eq_refl eq_refl) eq_refl). Qed.
