(* C05 — property theorems.  Nothing but statements, `exact`, Print Assumptions. *)
From G05 Require Import Routing Spec Check Proofs Obligations.

(* direct-domains > localhost-direct > (external function > static upstream > PAC) > none:
   the proxy function composed by configureProxy computes the short spec, for every configuration,
   every matcher / classifier / PAC oracle and every target. *)
Theorem T05_precedence : forall cfg t, proxy_for cfg t = spec_proxy cfg t.
Proof. exact (proxy_for_is_spec ob_select_order ob_wrappers ob_localhost_const). Qed.
Print Assumptions T05_precedence.
