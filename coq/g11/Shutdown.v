(* C11 — labelled transition system of martian.Proxy's connection registry and shutdown.

   Transcribed from internal/martian/proxy.go (Serve, handleLoop, Shutdown, Close, closing) and
   internal/martian/proxy_conn.go (handle, writeResponse); shapes re-extracted into Tables.v.

   Threads: the accept loop of Serve, one handler per accepted connection, at most one call of
   Shutdown and one of Close (closeOnce makes further calls idempotent on the closing signal),
   and the environment (clients, origin, the caller's context, the listener being closed).

   Every step is a label; `stepf g l` is the deterministic successor (None = not enabled), so the
   reachable states are those of all interleavings of all threads.  Labels marked (tau) are not
   observable from outside the proxy; the others are exactly the events the harness records on the
   real proxy (gating listener/conn/round-tripper wrappers, ProxyTrace, call/return of
   Shutdown/Close).

   Critical sections of handleLoop (lock; conns[conn]=..; cnt++; unlock  and  lock; delete; unlock)
   are single steps enabled only while nobody holds connsMu: nothing else can observe their inside,
   because every other access to conns happens under connsMu and cnt is only read by Shutdown,
   which holds connsMu for its whole duration. *)
From FwdLib Require Export Bytes.
From G11 Require Export Tables.
Open Scope Z_scope.

(* program counter of one handler (handleLoop / handle / writeResponse) *)
Inductive cpc :=
| CAcc                 (* accepted, goroutine started, before the registration *)
| CReg                 (* registered (in conns, counted), defers installed *)
| CAddr                (* conn.RemoteAddr() called (may wait for a PROXY header) *)
| CWait                (* past the closing check: being served; readRequest waits for the first byte *)
| CHead                (* first byte of a request received, head incomplete *)
| CRead                (* readRequest returned a request; before the closing check of handle *)
| CChecked             (* closing check passed; modifiers run *)
| CFwd                 (* round trip entered: the request has reached the origin side *)
| CResp                (* round trip left; writeResponse not yet entered *)
| CWriting (b : bool)  (* writeResponse decided res.Close = b *)
| CWriting2 (b : bool) (* first conn.Write of the response called; for a CONNECT with b = false: tunnel copying *)
| CExit                (* handleLoop returning: deferred conn.Close() next *)
| CClosed              (* conn.Close() done; deferred counter decrement next *)
| CDec                 (* counter decremented; deferred delete (needs connsMu) next *)
| CDone.

Record cst := mkc {
  pc : cpc;
  acc_closing : bool;   (* ghost: closing was set when the connection was accepted *)
  fb_closing : bool;    (* ghost: closing was set when the first byte of the current request arrived *)
  served : bool;        (* ghost: passed the closing check of handleLoop *)
  sock_closed : bool;   (* conn.Close() has been called (by the handler or by Close) *)
  client_gone : bool;   (* the client closed its side *)
  is_connect : bool;    (* the current exchange is a tunnel: a CONNECT, or a request answered with 101 *)
  hs : bool;            (* a listener TLS handshake is still pending (maybeHandshakeTLS) *)
  nreq : N              (* ghost: requests forwarded on this connection *)
}.

Inductive sdst := SdIdle | SdCalled | SdHolding | SdOut (ok : bool) | SdDone (ok : bool).
Inductive clst := ClIdle | ClCalled | ClHolding (todo : list nat) | ClOut | ClDone.
Inductive svst := SvCheck | SvAccepting | SvErr | SvDone.
Inductive owner := OSd | OCl.

Record gst := mkg {
  closing : bool;          (* closeCh closed *)
  mu : option owner;       (* connsMu held across steps by Shutdown / Close *)
  cnt : Z;                 (* connsWg *)
  regs : list nat;         (* keys of conns *)
  conns : list cst;        (* handler of connection i = nth i *)
  sd : sdst;
  cl : clst;
  sv : svst;
  lopen : bool;            (* listener open *)
  ctx_exp : bool           (* the context given to Shutdown is done *)
}.

Inductive rk := RErr | ROk | RConnect.   (* read error / a request / a CONNECT request *)

Inductive label :=
(* accept loop *)
| TSvChk                 (* (tau) Serve: `if p.closing() { return nil }` else call Accept *)
| Acc (i : nat)          (* Accept returned connection i; go handleLoop *)
| LClose                 (* the listener is closed from outside (forwarder's run does that first) *)
| TSvErr                 (* (tau) Accept failed with net.ErrClosed *)
| SrvRet                 (* Serve returned (deferred l.Close()) *)
(* handler *)
| TRegister (i : nat)    (* (tau) lock; conns[conn]; cnt++; unlock *)
| Addr (i : nat)         (* conn.RemoteAddr() called *)
| TlsConn (i : nat)      (* the accepted connection is a *tls.Conn: handleLoop will handshake first *)
| TChkConn (i : nat)     (* (tau) `if p.closing() { return }` of handleLoop *)
| HsDone (i : nat)       (* the listener TLS handshake completed *)
| THsFail (i : nat)      (* (tau) the handshake failed or timed out: handleLoop returns *)
| FirstByte (i : nat)    (* a Read on the client socket returned the first byte(s) of a request *)
| ReqRead (i : nat) (k : rk)      (* readRequest returned; ProxyTrace.ReadRequest *)
| TChkReq (i : nat)      (* (tau) `if p.closing() { return errClose }` of handle *)
| Fwd (i : nat)          (* RoundTrip / dial entered *)
| RTLeave (i : nat)      (* RoundTrip / dial returned (response or error response) *)
| RTLeaveUp (i : nat)    (* RoundTrip returned 101 Switching Protocols: the exchange becomes a tunnel (WebSocket),
                            handled from here on exactly like a successful CONNECT *)
| TDecide (i : nat)      (* (tau) writeResponse: `if p.closing() { res.Close = true }` *)
| WrCall (i : nat)       (* first conn.Write of the response called *)
| Wrote (i : nat) (close err : bool)  (* response written / tunnel over; ProxyTrace.WroteResponse *)
| TConnRefuse (i : nat)  (* (tau) 2xx to a CONNECT written with Connection: close while closing: no tunnel, no trace *)
| SockClose (i : nat)    (* conn.Close() called on connection i by its handler (deferred) *)
| SockCloseC (i : nat)   (* conn.Close() called on connection i by Close (one item of its loop) *)
| TSilentClose (i : nat) (* (tau) the handler's deferred conn.Close() on a socket that Close has closed already:
                            a *tls.Conn returns net.ErrClosed without touching the socket again *)
| TDec (i : nat)         (* (tau) deferred cnt-- *)
| TDelete (i : nat)      (* (tau) deferred lock; delete(conns, conn); unlock *)
(* environment *)
| ClientGone (i : nat)
| CtxExpire
(* Shutdown *)
| SdCall
| TSdLock                (* (tau) connsMu.Lock(); closeOnce: close(closeCh) *)
| TSdOut (ok : bool)     (* (tau) poll saw cnt = 0 (ok) or <-ctx.Done() (not ok); deferred Unlock *)
| SdRet (ok : bool)      (* Shutdown returned nil (ok) or ctx.Err() *)
(* Close *)
| ClCall
| TClLock                (* (tau) connsMu.Lock(); closeOnce; start ranging over conns *)
| TClOut                 (* (tau) every registered connection closed; deferred Unlock *)
| ClRet
(* observations without effect *)
| ClosingSeen            (* closing() observed true *)
| CntIs (k : Z)          (* the counter was read as k *)
(* what the client saw (no effect on the proxy; used by the trace predicates) *)
| CliResp (i : nat) (full closehdr : bool)   (* a response arrived: complete 200 / with Connection: close *)
| CliEOF (i : nat)                           (* the client saw its socket closed *).

Definition is_tau (l : label) : bool :=
  match l with
  | TSvChk | TSvErr | TRegister _ | TChkConn _ | THsFail _ | TChkReq _ | TDecide _ | TConnRefuse _ | TSilentClose _
  | TDec _ | TDelete _
  | TSdLock | TSdOut _ | TClLock | TClOut => true
  | _ => false
  end.

Definition c0 (cl : bool) : cst := mkc CAcc cl false false false false false false 0%N.

Definition g0 : gst := mkg false None 0 [] [] SdIdle ClIdle SvCheck true false.

Definition getc (g : gst) (i : nat) : option cst := nth_error (conns g) i.

Fixpoint upd {A} (l : list A) (i : nat) (x : A) : list A :=
  match l, i with
  | [], _ => []
  | _ :: r, O => x :: r
  | a :: r, S j => a :: upd r j x
  end.

Definition set_pc (c : cst) (p : cpc) : cst :=
  mkc p (acc_closing c) (fb_closing c) (served c) (sock_closed c) (client_gone c) (is_connect c) (hs c) (nreq c).

Definition setc (g : gst) (i : nat) (c : cst) : gst :=
  mkg (closing g) (mu g) (cnt g) (regs g) (upd (conns g) i c) (sd g) (cl g) (sv g) (lopen g) (ctx_exp g).

Fixpoint remove_nat (i : nat) (l : list nat) : list nat :=
  match l with [] => [] | x :: r => if Nat.eqb x i then r else x :: remove_nat i r end.
Fixpoint mem_nat (i : nat) (l : list nat) : bool :=
  match l with [] => false | x :: r => Nat.eqb x i || mem_nat i r end.

(* handler steps: conditions on the connection's own state, result = new cst *)
Definition set_hs (c : cst) (h : bool) : cst :=
  mkc (pc c) (acc_closing c) (fb_closing c) (served c) (sock_closed c) (client_gone c) (is_connect c) h (nreq c).

Definition before_check (p : cpc) : bool := match p with CAcc | CReg | CAddr => true | _ => false end.

Definition hstep (closing_now : bool) (c : cst) (l : label) : option cst :=
  match l, pc c with
  | TlsConn _, _ => if before_check (pc c) then Some (set_hs c true) else None
  | Addr _, CReg => Some (set_pc c CAddr)
  | TChkConn _, CAddr =>
      if closing_now then Some (set_pc c CExit)
      else Some (mkc CWait (acc_closing c) (fb_closing c) true (sock_closed c) (client_gone c) (is_connect c) (hs c) (nreq c))
  | HsDone _, CWait => if hs c then Some (set_hs c false) else None
  | THsFail _, CWait => if hs c then Some (set_pc c CExit) else None
  | FirstByte _, CWait =>
      if hs c then None
      else Some (mkc CHead (acc_closing c) closing_now (served c) (sock_closed c) (client_gone c) (is_connect c) (hs c) (nreq c))
  | ReqRead _ ROk, CHead =>
      Some (mkc CRead (acc_closing c) (fb_closing c) (served c) (sock_closed c) (client_gone c) false (hs c) (nreq c))
  | ReqRead _ RConnect, CHead =>
      Some (mkc CRead (acc_closing c) (fb_closing c) (served c) (sock_closed c) (client_gone c) true (hs c) (nreq c))
  | ReqRead _ RErr, CWait => if hs c then None else Some (set_pc c CExit)      (* EOF, timeout, socket closed *)
  | ReqRead _ RErr, CHead => Some (set_pc c CExit)
  | TChkReq _, CRead => if closing_now then Some (set_pc c CExit) else Some (set_pc c CChecked)
  | Fwd _, CChecked =>
      Some (mkc CFwd (acc_closing c) (fb_closing c) (served c) (sock_closed c) (client_gone c) (is_connect c) (hs c) (nreq c + 1)%N)
  | RTLeave _, CFwd => Some (set_pc c CResp)
  | RTLeaveUp _, CFwd =>
      Some (mkc CResp (acc_closing c) (fb_closing c) (served c) (sock_closed c) (client_gone c) true (hs c) (nreq c))
  | TDecide _, CResp => Some (set_pc c (CWriting closing_now))
  | WrCall _, CWriting b => Some (set_pc c (CWriting2 b))
  | Wrote _ b e, CWriting b' =>
      (* the write failed before any byte reached the socket (a closed *tls.Conn refuses at once) *)
      if e && Bool.eqb b b' && (sock_closed c || client_gone c) then Some (set_pc c CExit) else None
  | Wrote _ b e, CWriting2 b' =>
      if is_connect c
      then (* end of a tunnel: traceWroteResponse(res, nil) with res.Close = false; or the 2xx could not
              be written (traced with the error); handleConnectRequest returns errClose either way *)
           if (negb b && negb b' && negb e) || (Bool.eqb b b' && e && (sock_closed c || client_gone c))
           then Some (set_pc c CExit) else None
      else if Bool.eqb b b' && (negb e || sock_closed c || client_gone c)
           then Some (set_pc c (if b || e then CExit else CWait)) else None
  | TConnRefuse _, CWriting2 true => if is_connect c then Some (set_pc c CExit) else None
  | SockClose _, CExit =>
      Some (mkc CClosed (acc_closing c) (fb_closing c) (served c) true (client_gone c) (is_connect c) (hs c) (nreq c))
  | TSilentClose _, CExit => if sock_closed c then Some (set_pc c CClosed) else None
  | ClientGone _, _ =>
      Some (mkc (pc c) (acc_closing c) (fb_closing c) (served c) (sock_closed c) true (is_connect c) (hs c) (nreq c))
  | _, _ => None
  end.

Definition label_conn (l : label) : option nat :=
  match l with
  | TlsConn i | HsDone i | THsFail i | TSilentClose i
  | Addr i | TChkConn i | FirstByte i | ReqRead i _ | TChkReq i | Fwd i | RTLeave i | RTLeaveUp i | TDecide i
  | WrCall i | Wrote i _ _ | TConnRefuse i | ClientGone i => Some i
  | _ => None
  end.

Definition mark_closed (c : cst) : cst :=
  mkc (pc c) (acc_closing c) (fb_closing c) (served c) true (client_gone c) (is_connect c) (hs c) (nreq c).

Definition stepf (g : gst) (l : label) : option gst :=
  match l with
  (* ---- accept loop ---- *)
  | TSvChk =>
      match sv g with
      | SvCheck => Some (mkg (closing g) (mu g) (cnt g) (regs g) (conns g) (sd g) (cl g)
                             (if closing g then SvErr else SvAccepting) (lopen g) (ctx_exp g))
      | _ => None
      end
  | Acc i =>
      match sv g with
      | SvAccepting =>
          if lopen g && Nat.eqb i (length (conns g))
          then Some (mkg (closing g) (mu g) (cnt g) (regs g) (conns g ++ [c0 (closing g)]) (sd g) (cl g)
                         SvCheck (lopen g) (ctx_exp g))
          else None
      | _ => None
      end
  | LClose => Some (mkg (closing g) (mu g) (cnt g) (regs g) (conns g) (sd g) (cl g) (sv g) false (ctx_exp g))
  | TSvErr =>
      match sv g with
      | SvAccepting => if lopen g then None
                       else Some (mkg (closing g) (mu g) (cnt g) (regs g) (conns g) (sd g) (cl g) SvErr false (ctx_exp g))
      | _ => None
      end
  | SrvRet =>
      match sv g with
      | SvErr => Some (mkg (closing g) (mu g) (cnt g) (regs g) (conns g) (sd g) (cl g) SvDone false (ctx_exp g))
      | _ => None
      end
  (* ---- handler steps touching the registry ---- *)
  | TRegister i =>
      match getc g i, mu g with
      | Some c, None =>
          match pc c with
          | CAcc => Some (mkg (closing g) None (cnt g + 1) (i :: regs g) (upd (conns g) i (set_pc c CReg))
                              (sd g) (cl g) (sv g) (lopen g) (ctx_exp g))
          | _ => None
          end
      | _, _ => None
      end
  | TDec i =>
      match getc g i with
      | Some c =>
          match pc c with
          | CClosed => Some (mkg (closing g) (mu g) (cnt g - 1) (regs g) (upd (conns g) i (set_pc c CDec))
                                 (sd g) (cl g) (sv g) (lopen g) (ctx_exp g))
          | _ => None
          end
      | None => None
      end
  | TDelete i =>
      match getc g i, mu g with
      | Some c, None =>
          match pc c with
          | CDec => Some (mkg (closing g) None (cnt g) (remove_nat i (regs g)) (upd (conns g) i (set_pc c CDone))
                              (sd g) (cl g) (sv g) (lopen g) (ctx_exp g))
          | _ => None
          end
      | _, _ => None
      end
  | SockClose i =>
      match getc g i with
      | Some c => option_map (setc g i) (hstep (closing g) c l)
      | None => None
      end
  | SockCloseC i =>
      (* one item of Close's `for conn := range p.conns { conn.Close() }` *)
      match getc g i, cl g with
      | Some c, ClHolding todo =>
          (* Close closes a *tls.Conn and then the socket underneath it: a registered connection can be
             closed more than once by the loop; only the first time takes it off the list *)
          if mem_nat i todo || mem_nat i (regs g)
          then Some (mkg (closing g) (mu g) (cnt g) (regs g) (upd (conns g) i (mark_closed c))
                         (sd g) (ClHolding (remove_nat i todo)) (sv g) (lopen g) (ctx_exp g))
          else None
      | _, _ => None
      end
  (* ---- environment ---- *)
  | CtxExpire => Some (mkg (closing g) (mu g) (cnt g) (regs g) (conns g) (sd g) (cl g) (sv g) (lopen g) true)
  (* ---- Shutdown ---- *)
  | SdCall =>
      match sd g with
      | SdIdle => Some (mkg (closing g) (mu g) (cnt g) (regs g) (conns g) SdCalled (cl g) (sv g) (lopen g) (ctx_exp g))
      | _ => None
      end
  | TSdLock =>
      match sd g, mu g with
      | SdCalled, None => Some (mkg true (Some OSd) (cnt g) (regs g) (conns g) SdHolding (cl g) (sv g) (lopen g) (ctx_exp g))
      | _, _ => None
      end
  | TSdOut ok =>
      match sd g with
      | SdHolding =>
          if (if ok then cnt g =? 0 else ctx_exp g)
          then Some (mkg (closing g) None (cnt g) (regs g) (conns g) (SdOut ok) (cl g) (sv g) (lopen g) (ctx_exp g))
          else None
      | _ => None
      end
  | SdRet ok =>
      match sd g with
      | SdOut ok' => if Bool.eqb ok ok'
                     then Some (mkg (closing g) (mu g) (cnt g) (regs g) (conns g) (SdDone ok) (cl g) (sv g) (lopen g) (ctx_exp g))
                     else None
      | _ => None
      end
  (* ---- Close ---- *)
  | ClCall =>
      match cl g with
      | ClIdle => Some (mkg (closing g) (mu g) (cnt g) (regs g) (conns g) (sd g) ClCalled (sv g) (lopen g) (ctx_exp g))
      | _ => None
      end
  | TClLock =>
      match cl g, mu g with
      | ClCalled, None => Some (mkg true (Some OCl) (cnt g) (regs g) (conns g) (sd g) (ClHolding (regs g)) (sv g) (lopen g) (ctx_exp g))
      | _, _ => None
      end
  | TClOut =>
      match cl g with
      | ClHolding [] => Some (mkg (closing g) None (cnt g) (regs g) (conns g) (sd g) ClOut (sv g) (lopen g) (ctx_exp g))
      | _ => None
      end
  | ClRet =>
      match cl g with
      | ClOut => Some (mkg (closing g) (mu g) (cnt g) (regs g) (conns g) (sd g) ClDone (sv g) (lopen g) (ctx_exp g))
      | _ => None
      end
  (* ---- observations ---- *)
  | ClosingSeen => if closing g then Some g else None
  | CntIs k => if cnt g =? k then Some g else None
  | CliResp _ _ _ | CliEOF _ => Some g
  (* ---- all other handler steps ---- *)
  | _ =>
      match label_conn l with
      | Some i =>
          match getc g i with
          | Some c => option_map (setc g i) (hstep (closing g) c l)
          | None => None
          end
      | None => None
      end
  end.

Fixpoint runf (g : gst) (ls : list label) : option gst :=
  match ls with
  | [] => Some g
  | l :: r => match stepf g l with Some g' => runf g' r | None => None end
  end.

Definition reach (g : gst) : Prop := exists ls, runf g0 ls = Some g.

(* ---- classification used by the theorems ---- *)
(* registered and not yet decremented: contributes 1 to the counter *)
Definition counted (p : cpc) : bool :=
  match p with CAcc | CDec | CDone => false | _ => true end.
(* in the open-connection set *)
Definition in_set (p : cpc) : bool :=
  match p with CAcc | CDone => false | _ => true end.
(* an exchange whose request has reached the origin side and whose response is not yet written *)
Definition in_flight (p : cpc) : bool :=
  match p with CFwd | CResp | CWriting _ | CWriting2 _ => true | _ => false end.

Fixpoint count_pc (f : cpc -> bool) (l : list cst) : Z :=
  match l with [] => 0 | c :: r => (if f (pc c) then 1 else 0) + count_pc f r end.
