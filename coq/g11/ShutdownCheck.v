(* C11 — executable checkers run on traces recorded from the real proxy.
   accepts / first_reject : trace inclusion — is the recorded sequence of visible events a trace
                            of the LTS (unobservable steps are searched: tau-closure of state sets);
   p_check                : the property's predicates evaluated on the recorded trace itself.   *)
From G11 Require Export Shutdown.
Open Scope Z_scope.

(* ---------- decidable equality of states (for de-duplicating state sets) ---------- *)
Definition cpc_eqb (a c : cpc) : bool :=
  match a, c with
  | CAcc, CAcc | CReg, CReg | CAddr, CAddr | CWait, CWait | CHead, CHead | CRead, CRead
  | CChecked, CChecked | CFwd, CFwd | CResp, CResp | CExit, CExit | CClosed, CClosed
  | CDec, CDec | CDone, CDone => true
  | CWriting x, CWriting y | CWriting2 x, CWriting2 y => Bool.eqb x y
  | _, _ => false
  end.
Definition cst_eqb (a c : cst) : bool :=
  cpc_eqb (pc a) (pc c) && Bool.eqb (acc_closing a) (acc_closing c) && Bool.eqb (fb_closing a) (fb_closing c) &&
  Bool.eqb (served a) (served c) && Bool.eqb (sock_closed a) (sock_closed c) &&
  Bool.eqb (client_gone a) (client_gone c) && Bool.eqb (is_connect a) (is_connect c) && Bool.eqb (hs a) (hs c) &&
  N.eqb (nreq a) (nreq c).
Fixpoint list_eqb {A} (f : A -> A -> bool) (x y : list A) : bool :=
  match x, y with
  | [], [] => true
  | a :: x', c :: y' => f a c && list_eqb f x' y'
  | _, _ => false
  end.
Definition sdst_eqb (a c : sdst) : bool :=
  match a, c with
  | SdIdle, SdIdle | SdCalled, SdCalled | SdHolding, SdHolding => true
  | SdOut x, SdOut y | SdDone x, SdDone y => Bool.eqb x y
  | _, _ => false
  end.
Definition clst_eqb (a c : clst) : bool :=
  match a, c with
  | ClIdle, ClIdle | ClCalled, ClCalled | ClOut, ClOut | ClDone, ClDone => true
  | ClHolding x, ClHolding y => list_eqb Nat.eqb x y
  | _, _ => false
  end.
Definition svst_eqb (a c : svst) : bool :=
  match a, c with
  | SvCheck, SvCheck | SvAccepting, SvAccepting | SvErr, SvErr | SvDone, SvDone => true
  | _, _ => false
  end.
Definition mu_eqb (a c : option owner) : bool :=
  match a, c with
  | None, None | Some OSd, Some OSd | Some OCl, Some OCl => true
  | _, _ => false
  end.
Definition gst_eqb (a c : gst) : bool :=
  Bool.eqb (closing a) (closing c) && mu_eqb (mu a) (mu c) && (cnt a =? cnt c) &&
  list_eqb Nat.eqb (regs a) (regs c) && list_eqb cst_eqb (conns a) (conns c) &&
  sdst_eqb (sd a) (sd c) && clst_eqb (cl a) (cl c) && svst_eqb (sv a) (sv c) &&
  Bool.eqb (lopen a) (lopen c) && Bool.eqb (ctx_exp a) (ctx_exp c).

(* ---------- tau successors ---------- *)
Definition conn_taus (i : nat) : list label :=
  [TRegister i; TChkConn i; THsFail i; TChkReq i; TDecide i; TConnRefuse i; TSilentClose i; TDec i; TDelete i].
Definition all_taus (g : gst) : list label :=
  [TSvChk; TSvErr; TSdLock; TSdOut true; TSdOut false; TClLock; TClOut] ++
  flat_map conn_taus (seq 0 (length (conns g))).

Fixpoint filter_map {A B} (f : A -> option B) (l : list A) : list B :=
  match l with
  | [] => []
  | x :: r => match f x with Some y => y :: filter_map f r | None => filter_map f r end
  end.

Definition tau_succs (g : gst) : list gst := filter_map (stepf g) (all_taus g).

Definition mem_st (g : gst) (l : list gst) : bool := existsb (gst_eqb g) l.

(* worklist closure under tau steps; fuel bounds the number of expansions *)
Fixpoint closure (fuel : nat) (seen frontier : list gst) : list gst :=
  match fuel with
  | O => seen ++ frontier
  | S f =>
    match frontier with
    | [] => seen
    | g :: rest =>
      if mem_st g seen then closure f seen rest
      else closure f (g :: seen) (tau_succs g ++ rest)
    end
  end.

Definition FUEL : nat := Nat.mul 60 100.   (* 6000, written so that no large-literal warning is printed *)

Fixpoint dedup (l : list gst) : list gst :=
  match l with
  | [] => []
  | g :: r => let r' := dedup r in if mem_st g r' then r' else g :: r'
  end.

(* index of the first visible label that no state of the LTS can perform; None = accepted *)
Fixpoint first_reject (S : list gst) (tr : list label) (idx : N) : option N :=
  match tr with
  | [] => None
  | l :: r =>
    let S1 := closure FUEL [] S in
    match dedup (filter_map (fun g => stepf g l) S1) with
    | [] => Some idx
    | S2 => first_reject S2 r (idx + 1)%N
    end
  end.

Definition accepts (tr : list label) : bool :=
  match first_reject [g0] tr 0%N with None => true | Some _ => false end.

(* ---------- the same search with a trie for membership ----------
   key g identifies a state up to its ghost fields and the order of regs / todo; it is only used
   to avoid inserting a state twice.  A collision can only drop a state, i.e. make the search
   stricter: whatever it accepts is a trace of the LTS (every state kept was produced by stepf). *)
From Coq Require Import FMapPositive.

Definition pc_code (p : cpc) : N :=
  match p with
  | CAcc => 0 | CReg => 1 | CAddr => 2 | CWait => 3 | CHead => 4 | CRead => 5 | CChecked => 6
  | CFwd => 7 | CResp => 8 | CWriting false => 9 | CWriting true => 10 | CWriting2 false => 11
  | CWriting2 true => 12 | CExit => 13 | CClosed => 14 | CDec => 15 | CDone => 16
  end%N.
Definition b2n (x : bool) : N := if x then 1%N else 0%N.
Definition conn_code (c : cst) : N :=
  (pc_code (pc c) * 8 + b2n (sock_closed c) * 4 + b2n (client_gone c) * 2 + b2n (is_connect c) + b2n (hs c) * 136)%N.
Definition conns_code (l : list cst) : N := fold_left (fun a c => (a * 512 + conn_code c)%N) l 1%N.
Definition set_code (l : list nat) : N := fold_left (fun a i => N.lor a (N.shiftl 1 (N.of_nat i))) l 0%N.
Definition sd_code (x : sdst) : N :=
  match x with SdIdle => 0 | SdCalled => 1 | SdHolding => 2 | SdOut false => 3 | SdOut true => 4
             | SdDone false => 5 | SdDone true => 6 end%N.
Definition cl_code (x : clst) : N :=
  match x with ClIdle => 0 | ClCalled => 1 | ClHolding _ => 2 | ClOut => 3 | ClDone => 4 end%N.
Definition cl_todo (x : clst) : list nat := match x with ClHolding t => t | _ => [] end.
Definition sv_code (x : svst) : N := match x with SvCheck => 0 | SvAccepting => 1 | SvErr => 2 | SvDone => 3 end%N.
Definition mu_code (x : option owner) : N := match x with None => 0 | Some OSd => 1 | Some OCl => 2 end%N.
Definition key (g : gst) : positive :=
  let small := (((((((b2n (closing g) * 3 + mu_code (mu g)) * 8 + sd_code (sd g)) * 8 + cl_code (cl g)) * 4
                   + sv_code (sv g)) * 2 + b2n (lopen g)) * 2 + b2n (ctx_exp g)) * 1024 + Z.to_N (cnt g + 512))%N in
  N.succ_pos ((((conns_code (conns g) * 1048576 + set_code (regs g)) * 1048576 + set_code (cl_todo (cl g))) * 16777216 + small)%N).

Definition sset := (PositiveMap.t unit * list gst)%type.
Definition sset_empty : sset := (PositiveMap.empty unit, []).
Definition sset_add (g : gst) (s : sset) : sset * bool :=
  let k := key g in
  match PositiveMap.find k (fst s) with
  | Some _ => (s, false)
  | None => ((PositiveMap.add k tt (fst s), g :: snd s), true)
  end.

(* worklist closure; returns the set of all states met *)
Fixpoint closure_f (fuel : nat) (seen : sset) (frontier : list gst) : sset :=
  match fuel with
  | O => seen
  | S f =>
    match frontier with
    | [] => seen
    | g :: rest =>
      let '(seen', fresh) := sset_add g seen in
      if fresh then closure_f f seen' (tau_succs g ++ rest) else closure_f f seen rest
    end
  end.

Definition FUEL_F : nat := Nat.mul 300 300.

Fixpoint first_reject_f (S : list gst) (tr : list label) (idx : N) : option N :=
  match tr with
  | [] => None
  | l :: r =>
    let S1 := snd (closure_f FUEL_F sset_empty S) in
    match filter_map (fun g => stepf g l) S1 with
    | [] => Some idx
    | S2 => first_reject_f S2 r (idx + 1)%N
    end
  end.

Definition accepts_f (tr : list label) : bool :=
  match first_reject_f [g0] tr 0%N with None => true | Some _ => false end.

Fixpoint max_states_f (S : list gst) (tr : list label) (m : nat) : nat :=
  match tr with
  | [] => Nat.max m (length (snd (closure_f FUEL_F sset_empty S)))
  | l :: r =>
    let S1 := snd (closure_f FUEL_F sset_empty S) in
    max_states_f (filter_map (fun g => stepf g l) S1) r (Nat.max m (length S1))
  end.

(* largest state set met while simulating (reported as coverage) *)
Fixpoint max_states (S : list gst) (tr : list label) (m : nat) : nat :=
  match tr with
  | [] => Nat.max m (length (closure FUEL [] S))
  | l :: r =>
    let S1 := closure FUEL [] S in
    max_states (dedup (filter_map (fun g => stepf g l) S1)) r (Nat.max m (length S1))
  end.

(* ---------- the property's predicates on a recorded trace ---------- *)
Definition is_label_of (i : nat) (l : label) : bool :=
  match label_conn l with Some j => Nat.eqb i j | None =>
    match l with Acc j | SockClose j | SockCloseC j => Nat.eqb i j | _ => false end end.

Definition lab_eqb_simple (a c : label) : bool :=
  match a, c with
  | ClosingSeen, ClosingSeen | SdCall, SdCall | ClCall, ClCall | ClRet, ClRet | CtxExpire, CtxExpire => true
  | SdRet x, SdRet y => Bool.eqb x y
  | _, _ => false
  end.

(* scan with a small summary state per connection *)
Record pcn := mkp {
  p_fb_late : bool;      (* first byte of the current request was read after ClosingSeen *)
  p_acc_late : bool;     (* accepted after ClosingSeen *)
  p_addr : bool;         (* Addr seen: certainly registered *)
  p_closed : bool;       (* SockClose seen *)
  p_inflight : bool;     (* Fwd seen, response not yet written *)
  p_rt_late : bool;      (* the round trip of the current exchange returned after ClosingSeen *)
  p_must_close : bool;   (* a response with Connection: close (or a failed write) was written *)
  p_gone : bool;         (* the client went away at some point *)
  p_connect : bool;      (* a CONNECT was read on this connection *)
  p_wrote : list bool;   (* Connection: close flag of every response written without error *)
  p_cli : list bool;     (* Connection: close header of every complete 200 the client received *)
  p_cli_bad : bool;      (* the client received something that is not a complete 200 *)
  p_eof : bool           (* the client saw its socket closed *)
}.
Definition pcn0 (late : bool) : pcn := mkp false late false false false false false false false [] [] false false.

Record pscan := mkps {
  ps_closing_seen : bool;
  ps_close_called : bool;
  ps_ctx : bool;
  ps_conns : list pcn;
  ps_bad : list N;         (* codes of violated predicates *)
  ps_at_sd : list nat;     (* connections certainly registered (Addr seen) when Shutdown was called *)
  ps_at_cl : list nat      (* ... when Close was called *)
}.

Definition getp (s : pscan) (i : nat) : pcn := nth i (ps_conns s) (pcn0 false).
Definition setp (s : pscan) (i : nat) (p : pcn) : pscan :=
  mkps (ps_closing_seen s) (ps_close_called s) (ps_ctx s) (upd (ps_conns s) i p) (ps_bad s) (ps_at_sd s) (ps_at_cl s).
Definition flag (s : pscan) (code : N) : pscan :=
  mkps (ps_closing_seen s) (ps_close_called s) (ps_ctx s) (ps_conns s) (code :: ps_bad s) (ps_at_sd s) (ps_at_cl s).
(* ids of the connections for which Addr has been seen *)
Fixpoint addr_ids (i : nat) (l : list pcn) : list nat :=
  match l with [] => [] | p :: r => if p_addr p then i :: addr_ids (S i) r else addr_ids (S i) r end.
Definition open_among (ids : list nat) (s : pscan) : bool :=
  existsb (fun i => negb (p_closed (nth i (ps_conns s) (pcn0 false)))) ids.
Definition flag_if (b : bool) (code : N) (s : pscan) : pscan := if b then flag s code else s.

Fixpoint prefix_b (x y : list bool) : bool :=
  match x, y with
  | [], _ => true
  | a :: x', c :: y' => Bool.eqb a c && prefix_b x' y'
  | _ :: _, [] => false
  end.

(* codes:
   1 a request whose first byte arrived after closing was observed has been forwarded      (T11_no_new_work)
   2 a connection accepted after closing was observed has been served                       (T11_late_accepts_closed_unserved)
   3 a response whose round trip ended after closing was observed lacks Connection: close   (T11_inflight_completes)
   4 a response write failed although neither the client vanished nor Close was called      (T11_inflight_completes)
   5 another request was read on a connection after a closing response                      (T11_inflight_completes)
   6 Shutdown returned nil while a connection registered before the call had not been closed (T11_success_means_drained)
   7 Shutdown returned an error although the context had not expired                        (T11_else_ctx_error)
   8 Close returned while a connection registered before the call had not been closed       (T11_close_closes_all)
   9 at the end of a settled trace some accepted connection is not closed                   (T11_close_closes_all, counter)
   10 the counter was read negative                                                          (T11_counter_balanced)
   11 at the end of a settled trace a forwarded exchange never had its response written      (T11_inflight_completes)
   12 what a client received differs from what the proxy wrote (truncated / other close flag) (T11_inflight_completes)
   13 a closing response was written but the client did not see the socket closed            (T11_inflight_completes)
   14 a tunnel (CONNECT 2xx / 101) was opened although closing had been observed before its dial / round
      trip returned: the tunnel ran                                                                   (T11_no_new_work)
   15 ... : the CLIENT was told so by a complete 2xx without Connection: close                        (T11_no_new_work)
   Codes 1-8, 10 and 14 are theorems of the LTS (ShutdownTrace.v: no run produces them); 15 and the settled-trace
   codes 9, 11, 12, 13 concern what clients observed / quiescence and are evaluated only. *)
Definition pstep (s : pscan) (l : label) : pscan :=
  match l with
  | ClosingSeen => mkps true (ps_close_called s) (ps_ctx s) (ps_conns s) (ps_bad s) (ps_at_sd s) (ps_at_cl s)
  | SdCall => mkps (ps_closing_seen s) (ps_close_called s) (ps_ctx s) (ps_conns s) (ps_bad s) (addr_ids 0 (ps_conns s)) (ps_at_cl s)
  | ClCall => mkps (ps_closing_seen s) true (ps_ctx s) (ps_conns s) (ps_bad s) (ps_at_sd s) (addr_ids 0 (ps_conns s))
  | CtxExpire => mkps (ps_closing_seen s) (ps_close_called s) true (ps_conns s) (ps_bad s) (ps_at_sd s) (ps_at_cl s)
  | Acc i => mkps (ps_closing_seen s) (ps_close_called s) (ps_ctx s) (ps_conns s ++ [pcn0 (ps_closing_seen s)]) (ps_bad s)
                  (ps_at_sd s) (ps_at_cl s)
  | Addr i => let p := getp s i in
      setp s i (mkp (p_fb_late p) (p_acc_late p) true (p_closed p) (p_inflight p) (p_rt_late p) (p_must_close p)
                    (p_gone p) (p_connect p) (p_wrote p) (p_cli p) (p_cli_bad p) (p_eof p))
  | FirstByte i => let p := getp s i in
      flag_if (p_must_close p) 5
        (setp s i (mkp (ps_closing_seen s) (p_acc_late p) (p_addr p) (p_closed p) (p_inflight p) (p_rt_late p)
                       (p_must_close p) (p_gone p) (p_connect p) (p_wrote p) (p_cli p) (p_cli_bad p) (p_eof p)))
  | ReqRead i ROk => let p := getp s i in
      flag_if (p_acc_late p) 2 (flag_if (p_must_close p) 5 s)
  | ReqRead i RConnect => let p := getp s i in
      flag_if (p_acc_late p) 2 (flag_if (p_must_close p) 5
        (setp s i (mkp (p_fb_late p) (p_acc_late p) (p_addr p) (p_closed p) (p_inflight p) (p_rt_late p)
                       (p_must_close p) (p_gone p) true (p_wrote p) (p_cli p) (p_cli_bad p) (p_eof p))))
  | Fwd i => let p := getp s i in
      flag_if (p_fb_late p) 1 (flag_if (p_acc_late p) 2
        (setp s i (mkp (p_fb_late p) (p_acc_late p) (p_addr p) (p_closed p) true (p_rt_late p) (p_must_close p)
                       (p_gone p) (p_connect p) (p_wrote p) (p_cli p) (p_cli_bad p) (p_eof p))))
  | RTLeaveUp i => let p := getp s i in
      setp s i (mkp (p_fb_late p) (p_acc_late p) (p_addr p) (p_closed p) (p_inflight p) (ps_closing_seen s)
                    (p_must_close p) (p_gone p) true (p_wrote p) (p_cli p) (p_cli_bad p) (p_eof p))
  | RTLeave i => let p := getp s i in
      setp s i (mkp (p_fb_late p) (p_acc_late p) (p_addr p) (p_closed p) (p_inflight p) (ps_closing_seen s)
                    (p_must_close p) (p_gone p) (p_connect p) (p_wrote p) (p_cli p) (p_cli_bad p) (p_eof p))
  | WrCall i => let p := getp s i in flag_if (p_acc_late p) 2 s
  | Wrote i b e => let p := getp s i in
      flag_if (p_rt_late p && p_connect p && negb b && negb e) 14 (
      flag_if (p_rt_late p && negb (p_connect p) && negb b && negb e) 3
        (flag_if (e && negb (p_gone p) && negb (ps_close_called s) && negb (p_closed p)) 4
          (setp s i (mkp (p_fb_late p) (p_acc_late p) (p_addr p) (p_closed p) false (p_rt_late p)
                         (p_must_close p || b || e) (p_gone p) (p_connect p)
                         (if e || p_connect p then p_wrote p else p_wrote p ++ [b]) (p_cli p) (p_cli_bad p) (p_eof p)))))
  | ClientGone i => let p := getp s i in
      setp s i (mkp (p_fb_late p) (p_acc_late p) (p_addr p) (p_closed p) (p_inflight p) (p_rt_late p) (p_must_close p)
                    true (p_connect p) (p_wrote p) (p_cli p) (p_cli_bad p) (p_eof p))
  | SockClose i | SockCloseC i => let p := getp s i in
      setp s i (mkp (p_fb_late p) (p_acc_late p) (p_addr p) true (p_inflight p) (p_rt_late p) (p_must_close p)
                    (p_gone p) (p_connect p) (p_wrote p) (p_cli p) (p_cli_bad p) (p_eof p))
  | CliResp i full ch => let p := getp s i in
      flag_if (p_connect p && p_rt_late p && p_inflight p && full && negb ch) 15 (
      setp s i (mkp (p_fb_late p) (p_acc_late p) (p_addr p) (p_closed p) (p_inflight p) (p_rt_late p) (p_must_close p)
                    (p_gone p) (p_connect p) (p_wrote p) (if full then p_cli p ++ [ch] else p_cli p)
                    (p_cli_bad p || negb full) (p_eof p)))
  | CliEOF i => let p := getp s i in
      setp s i (mkp (p_fb_late p) (p_acc_late p) (p_addr p) (p_closed p) (p_inflight p) (p_rt_late p) (p_must_close p)
                    (p_gone p) (p_connect p) (p_wrote p) (p_cli p) (p_cli_bad p) true)
  | SdRet true => flag_if (open_among (ps_at_sd s) s) 6 s
  | SdRet false => flag_if (negb (ps_ctx s)) 7 s
  | ClRet => flag_if (open_among (ps_at_cl s) s) 8 s
  | CntIs k => flag_if (k <? 0) 10 s
  | _ => s
  end.

Definition pscan0 : pscan := mkps false false false [] [] [] [].

(* what a client saw must be what the proxy wrote: all of it if the client stayed, a prefix if it left *)
Definition client_view_ok (p : pcn) : bool :=
  p_connect p ||
  (negb (p_cli_bad p) &&
   (if p_gone p then prefix_b (p_cli p) (p_wrote p)
    else list_eqb Bool.eqb (p_cli p) (p_wrote p))).

(* settled = the harness waited until the proxy was quiescent after Shutdown/Close *)
Definition p_check (settled : bool) (tr : list label) : list N :=
  let s := fold_left pstep tr pscan0 in
  let s := flag_if (settled && existsb (fun p => negb (p_closed p)) (ps_conns s)) 9 s in
  let s := flag_if (settled && existsb (fun p => p_inflight p && negb (p_connect p)) (ps_conns s)) 11 s in
  let s := flag_if (settled && existsb (fun p => negb (client_view_ok p)) (ps_conns s)) 12 s in
  let s := flag_if (settled && existsb (fun p => p_must_close p && negb (p_gone p) && negb (p_connect p) && negb (p_eof p))
                                        (ps_conns s)) 13 s in
  ps_bad s.

Record scase := { sc_trace : list label; sc_settled : bool }.

(* ---------- forwarder's run(): ctx cancelled -> listeners closed -> Shutdown(timeout) -> Close on error
   -> idle upstream connections closed -> Run returns the context's error.  Observed from outside
   (no wrappers: Run uses the proxy's own listeners). ---------- *)
Record rcase := {
  r_timeout : Z;          (* configured shutdown timeout, ms *)
  r_cancel_at : Z;        (* the drain was interrupted by a shutdown signal this long after the cancel (ms); negative = never *)
  r_elapsed : Z;          (* from the cancel to the return of Run, ms *)
  r_err_ctx : bool;       (* Run returned the cancelled context's error *)
  r_refused : bool;       (* a connection attempt after the cancel was refused / reset without service *)
  r_inflight : bool;      (* an exchange was at the origin when the context was cancelled *)
  r_origin_answers : Z;   (* the origin answered this long after the cancel (ms); negative = never *)
  r_idle_conn : bool;     (* an idle keep-alive client connection existed *)
  r_late_sent : bool;     (* ... and its client sent another request after the cancel *)
  r_resp_full : bool;     (* the in-flight client received its complete response *)
  r_resp_close : bool;    (* ... with Connection: close *)
  r_clients_eof : bool;   (* every client socket was closed by the time Run returned (+ slack) *)
  r_late_served : bool;   (* a request sent on an idle connection after the cancel was answered *)
  r_final_cnt : Z;        (* open-connection counter after Run returned and the origin had answered *)
  r_upstream_closed : bool; (* the idle upstream connection to the origin was closed (checked when no exchange was in flight) *)
  r_tol : Z
}.

(* codes: 1 Run did not return the context's error; 2 a new connection was served; 3 an exchange that
   reached an origin answering within the timeout was not completed in full with Connection: close;
   4 Run returned before the drain although nothing forced it / later than timeout + tolerance;
   5 a client socket was left open; 6 the counter did not return to zero; 7 a request sent after the
   cancel was served; 8 Run returned early although an idle connection was never closed by its client
   nor woken by a request (must wait for the timeout); 9 idle upstream connections were not closed *)
(* the drain's deadline as data (None = no limit).  What shutdownContext does, by its extracted shape
   (`if cfg.ShutdownTimeout > 0 { ctx = WithTimeout(ctx, ShutdownTimeout) }`): *)
Definition drain_deadline (timeout : Z) : option Z :=
  if shutdown_timeout_guarded then (if 0 <? timeout then Some timeout else None) else Some timeout.
(* ... and what is documented ("zero means no limit"), which the oracle uses *)
Definition spec_drain_deadline (timeout : Z) : option Z := if 0 <? timeout then Some timeout else None.
(* the two agree exactly when the guard is there (obligation ob_shutdown_context) *)
Lemma drain_deadline_is_spec : shutdown_timeout_guarded = true -> forall t, drain_deadline t = spec_drain_deadline t.
Proof. intros H t. unfold drain_deadline. rewrite H. reflexivity. Qed.

Definition rcase_codes (r : rcase) : list N :=
  (* the drain ends at the timeout or when a further signal cancels the shutdown context, whichever is first *)
  (* a shutdown timeout of zero (or less) means NO limit: the deadline is data, None = wait for the drain *)
  let r_timeout := fun r => match spec_drain_deadline (r_timeout r) with Some t => t | None => 1000000000 end in
  let r_timeout := fun r => if (0 <=? r_cancel_at r) && (r_cancel_at r <? r_timeout r) then r_cancel_at r else r_timeout r in
  let drains := r_inflight r && (0 <=? r_origin_answers r) && (r_origin_answers r + r_tol r <? r_timeout r) in
  let blocked := (r_idle_conn r && negb (r_late_sent r)) || (r_inflight r && negb drains) in
  (if r_err_ctx r then [] else [1%N]) ++
  (if r_refused r then [] else [2%N]) ++
  (if drains && negb (r_resp_full r && r_resp_close r) then [3%N] else []) ++
  (if r_timeout r + r_tol r <? r_elapsed r then [4%N] else []) ++
  (if r_clients_eof r then [] else [5%N]) ++
  (if r_final_cnt r =? 0 then [] else [6%N]) ++
  (if r_late_served r then [7%N] else []) ++
  (if blocked && (r_elapsed r <? r_timeout r - r_tol r) then [8%N] else []) ++
  (if r_upstream_closed r || r_inflight r then [] else [9%N]) ++
  (* 10: Run returned before an exchange that the drain had to wait for was answered *)
  (if drains && (r_elapsed r <? r_origin_answers r - r_tol r) then [10%N] else []).
Definition rcase_prop_ok (r : rcase) : bool := match rcase_codes r with [] => true | _ => false end.

(* ---------- a request first sent after shutdown began, inside an established session of a proxy
   that intercepts CONNECT (MITM), or a CONNECT on an idle connection of such a proxy ---------- *)
Record mcase := {
  m_upstream_after : Z;   (* round trips / dials started after closing had been observed *)
  m_got_response : bool;  (* the client received a response to the late request *)
  m_eof : bool            (* the client saw its socket closed *)
}.
(* ---------- the proxy's exported count of open connections (gauge listener_cx_active) ---------- *)
Record gcase := {
  g_served : bool;     (* the well-behaved client was served *)
  g_before : Z;        (* gauge once every client of the scenario has been dealt with, before shutdown *)
  g_open_before : Z;   (* client sockets of the scenario the proxy had not closed at that moment *)
  g_after : Z;         (* gauge after Run returned (direct-* scenarios: martian's counter at the end) *)
  g_sd : N;            (* direct-* scenarios: 0 n/a, 1 Shutdown returned nil, 2 exactly ctx.Err(), 3 anything else *)
  g_sd_want : N        (* what the property demands: nil once drained, otherwise the context's error *)
}.
(* "the proxy's count of open connections always returns to zero": it equals the connections still
   open before shutdown and is zero afterwards *)
Definition gcase_prop_ok (g : gcase) : bool :=
  g_served g && (g_before g =? g_open_before g) && (g_after g =? 0) && (g_sd g =? g_sd_want g)%N.

Definition mcase_prop_ok (m : mcase) : bool := (m_upstream_after m =? 0) && negb (m_got_response m) && m_eof m.

(* the checker used on recorded runs: only observable labels, and accepted by the search *)
Definition accepts_visible (tr : list label) : bool :=
  forallb (fun l => negb (is_tau l)) tr && accepts_f tr.
Definition scase_model_ok (c : scase) : bool := accepts_visible (sc_trace c).
Definition scase_prop_ok (c : scase) : bool := match p_check (sc_settled c) (sc_trace c) with [] => true | _ => false end.

Fixpoint bad_from {A} (f : A -> bool) (i : N) (l : list A) : list N :=
  match l with
  | [] => []
  | x :: r => if f x then bad_from f (i + 1)%N r else i :: bad_from f (i + 1)%N r
  end.
Definition bad {A} (f : A -> bool) (l : list A) : list N := bad_from f 0%N l.
