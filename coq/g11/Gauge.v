(* C11 — the exported count of open connections (gauge listener_cx_active), phase 4.

   forwarder.Listener.Accept:   conn, err := l.listener.Accept(); if err != nil { ...; return }
                                l.metrics.accept()                       -> accepted.Inc(); active.Inc()
                                conn = conntrack.Builder{OnClose: l.metrics.close}.Build(conn)
   conntrack closeListener.Close: err := c.close(); c.once.Do(c.onClose); return err     -> active.Dec()

   "the proxy's count of open connections always returns to zero" for this gauge: a connection can be
   closed several times (handler's deferred Close, Proxy.Close, tls.Conn on top), by different
   goroutines, and every Close after the first returns net.ErrClosed.  The model runs the extracted
   programs over arbitrary sequences of accepts and Close calls with arbitrary results. *)
From FwdLib Require Import Bytes.
From G11 Require Import Tables.
Open Scope Z_scope.

(* what the extracted programs amount to *)
Record gpar := mkgpar {
  gp_inc : Z;                (* what a successful Accept adds to the gauge *)
  gp_dec : Z;                (* what onClose subtracts *)
  gp_wrapped : bool;         (* the accepted connection is wrapped with OnClose = metrics.close *)
  gp_runs : bool -> bool     (* does Close reach once.Do(onClose) when the underlying Close returned err? *)
}.

Inductive gev :=
| GAcc (ok : bool)               (* the listener's Accept returned a connection / an error *)
| GClose (k : nat) (err : bool). (* Close called on the k-th accepted connection; underlying Close failed? *)

Record gauge := mkgauge { g_once : list bool; g_val : Z }.
Definition gs0 : gauge := mkgauge [] 0.

Fixpoint setb (l : list bool) (k : nat) : list bool :=
  match l, k with
  | [], _ => []
  | _ :: r, O => true :: r
  | a :: r, S j => a :: setb r j
  end.

Definition gstep (p : gpar) (s : gauge) (e : gev) : gauge :=
  match e with
  | GAcc false => s
  | GAcc true => mkgauge (g_once s ++ [false]) (g_val s + gp_inc p)
  | GClose k err =>
      match nth_error (g_once s) k with
      | Some false => if (gp_wrapped p && gp_runs p err)%bool then mkgauge (setb (g_once s) k) (g_val s - gp_dec p) else s
      | _ => s          (* onClose has run already (sync.Once), or no such connection *)
      end
  end.
Definition grun (p : gpar) (evs : list gev) (s : gauge) : gauge := fold_left (gstep p) evs s.

Fixpoint unclosed (l : list bool) : Z := match l with [] => 0 | a :: r => (if a then 0 else 1) + unclosed r end.

Definition good (p : gpar) : Prop :=
  gp_inc p = 1 /\ gp_dec p = 1 /\ gp_wrapped p = true /\ forall err, gp_runs p err = true.

Lemma unclosed_app l1 l2 : unclosed (l1 ++ l2) = unclosed l1 + unclosed l2.
Proof. induction l1 as [|a l IH]; cbn [app unclosed]; [reflexivity|rewrite IH; lia]. Qed.

Lemma unclosed_setb l : forall k, nth_error l k = Some false -> unclosed (setb l k) = unclosed l - 1.
Proof.
  induction l as [|a l IH]; intros [|k] H; cbn in *; try discriminate.
  - inversion H. subst. lia.
  - rewrite (IH _ H). lia.
Qed.

Lemma unclosed_nonneg l : 0 <= unclosed l.
Proof. induction l as [|a l IH]; cbn; [lia|destruct a; lia]. Qed.

Lemma setb_length l : forall k, length (setb l k) = length l.
Proof. induction l as [|a l IH]; intros [|k]; cbn; auto. Qed.

Lemma setb_true l : forall k j, nth_error l j = Some true -> nth_error (setb l k) j = Some true.
Proof. induction l as [|a l IH]; intros [|k] [|j] H; cbn in *; try discriminate; auto. Qed.

Lemma setb_same l : forall k, (k < length l)%nat -> nth_error (setb l k) k = Some true.
Proof. induction l as [|a l IH]; intros [|k] H; cbn in *; try lia; auto. apply IH. lia. Qed.

(* the gauge is the number of accepted connections on which Close has not been called yet - after any
   sequence of accepts and Close calls, whatever the Close calls returned *)
Lemma gauge_is_unclosed p : good p -> forall evs s,
  g_val s = unclosed (g_once s) -> g_val (grun p evs s) = unclosed (g_once (grun p evs s)).
Proof.
  intros (Hi & Hd & Hw & Hr). induction evs as [|e r IH]; intros s Hs; [assumption|].
  unfold grun in *. cbn [fold_left]. apply IH.
  destruct e as [[|]|k err]; cbn [gstep].
  - cbn [g_val g_once]. rewrite unclosed_app, Hi, Hs. cbn. lia.
  - assumption.
  - destruct (nth_error (g_once s) k) as [[|]|] eqn:E; try assumption.
    rewrite Hw, Hr. cbn [andb g_val g_once]. rewrite (unclosed_setb _ _ E), Hd, Hs. reflexivity.
Qed.

(* a Close on connection k marks it, and marks stay *)
Lemma close_marks p : good p -> forall s k err,
  (k < length (g_once s))%nat -> nth_error (g_once (gstep p s (GClose k err))) k = Some true.
Proof.
  intros (_ & _ & Hw & Hr) s k err Hk. cbn [gstep].
  destruct (nth_error (g_once s) k) as [[|]|] eqn:E.
  - assumption.
  - rewrite Hw, Hr. cbn [andb g_once]. apply setb_same. assumption.
  - apply nth_error_None in E. lia.
Qed.

Lemma step_keeps p s e : forall j, nth_error (g_once s) j = Some true -> nth_error (g_once (gstep p s e)) j = Some true.
Proof.
  intros j H. destruct e as [[|]|k err]; cbn [gstep]; try assumption.
  - cbn [g_once]. rewrite nth_error_app1; [assumption|]. apply nth_error_Some. congruence.
  - destruct (nth_error (g_once s) k) as [[|]|]; try assumption.
    destruct (gp_wrapped p && gp_runs p err)%bool; [|assumption]. cbn [g_once]. apply setb_true. assumption.
Qed.

Lemma step_length_closes p s k err : length (g_once (gstep p s (GClose k err))) = length (g_once s).
Proof.
  cbn [gstep]. destruct (nth_error (g_once s) k) as [[|]|]; try reflexivity.
  destruct (gp_wrapped p && gp_runs p err)%bool; [|reflexivity]. cbn [g_once]. apply setb_length.
Qed.

Lemma all_true_unclosed l : (forall j, (j < length l)%nat -> nth_error l j = Some true) -> unclosed l = 0.
Proof.
  induction l as [|a l IH]; intros H; [reflexivity|]. cbn [unclosed].
  assert (a = true) by (specialize (H O ltac:(cbn; lia)); cbn in H; congruence). subst a.
  rewrite IH; [reflexivity|]. intros j Hj. apply (H (S j)). cbn. lia.
Qed.

(* ... hence it RETURNS TO ZERO: after any history, once every connection accepted so far has had Close
   called on it at least once - in any order, any number of times, with any results, by anybody - the
   gauge reads zero; and it is never negative. *)
Theorem gauge_returns_to_zero p : good p -> forall evs closes,
  let s := grun p evs gs0 in
  (forall k, (k < length (g_once s))%nat -> In k (map fst closes)) ->
  0 <= g_val s /\
  g_val (grun p (map (fun ke => GClose (fst ke) (snd ke)) closes) s) = 0.
Proof.
  intros Hg evs closes s Hall.
  assert (Hs : g_val s = unclosed (g_once s)) by (apply gauge_is_unclosed; [assumption|reflexivity]).
  split; [rewrite Hs; apply unclosed_nonneg|].
  rewrite (gauge_is_unclosed p Hg _ s Hs). apply all_true_unclosed.
  assert (G : forall cl s1, length (g_once s1) = length (g_once s) ->
              (forall k, (k < length (g_once s))%nat -> In k (map fst cl) \/ nth_error (g_once s1) k = Some true) ->
              let s2 := grun p (map (fun ke => GClose (fst ke) (snd ke)) cl) s1 in
              length (g_once s2) = length (g_once s) /\
              forall k, (k < length (g_once s))%nat -> nth_error (g_once s2) k = Some true).
  { clear Hall. induction cl as [|[k0 e0] r IH]; intros s1 Hl H1; cbn [map grun fold_left fst snd].
    - split; [assumption|]. intros k Hk. destruct (H1 k Hk) as [[]|Q]; assumption.
    - apply IH.
      + rewrite step_length_closes. assumption.
      + intros k Hk. destruct (H1 k Hk) as [[Q|Q]|Q].
        * cbn in Q. subst k0. right. apply (close_marks p Hg). rewrite Hl. assumption.
        * left. assumption.
        * right. apply step_keeps. assumption. }
  destruct (G closes s eq_refl (fun k Hk => or_introl (Hall k Hk))) as [L A].
  intros j Hj. apply A. unfold grun in *. rewrite <- L. exact Hj.
Qed.

(* the other shape - onClose skipped when the underlying Close reports an error - leaks: the first Close
   of a connection fails (say the peer reset it), every later Close returns net.ErrClosed *)
Theorem gauge_leak_witness :
  let p := mkgpar 1 1 true negb in
  g_val (grun p [GAcc true; GClose 0 true; GClose 0 true; GClose 0 true] gs0) = 1.
Proof. reflexivity. Qed.

(* ---------- the parameters the extracted programs amount to (Tables.v) ---------- *)
Fixpoint strs_eqb (x y : list str) : bool :=
  match x, y with
  | [], [] => true
  | a :: x', c :: y' => str_eqb a c && strs_eqb x' y'
  | _, _ => false
  end.
Fixpoint count_str (s : str) (l : list str) : Z :=
  match l with [] => 0 | x :: r => (if str_eqb s x then 1 else 0) + count_str s r end.

Definition accept_shape_ok : bool :=
  strs_eqb listener_accept_gauge_prog [b "accept"; b "error-return"; b "metrics-accept"; b "wrap-onclose-metrics-close"].
Definition close_shape_ok : bool :=
  strs_eqb conntrack_close_prog [b "err := c.close()"; b "c.once.Do(c.onClose)"; b "return err"] &&
  str_eqb conntrack_conn_close_body (b "{ return c.l.Close() }").

(* an Accept program of another shape, or a Close program of another shape, is read conservatively:
   nothing is added / onClose is skipped whenever the underlying Close reports an error *)
Definition gpar_of_tables : gpar :=
  mkgpar (if accept_shape_ok then count_str (b "m.active.Inc()") metrics_accept_prog else 0)
         (count_str (b "m.active.Dec()") metrics_close_prog)
         accept_shape_ok
         (fun err => if close_shape_ok then true else negb err).
