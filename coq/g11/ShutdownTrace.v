(* C11 — the trace predicates are theorems of the LTS (phase 4).

   ShutdownCheck.p_check states the property on an observable history: "no request whose first byte
   arrived after closing was observed is forwarded", "Shutdown returned nil only when every connection
   registered before the call had been closed", ...  Until now these predicates were EVALUATED on
   every recorded trace.  Here they are PROVED for every run of the LTS, i.e. for every interleaving
   of accept loop, handlers, Shutdown, Close, clients, origin and context, of any length:

       runf g0 ls = Some g  ->  every code in p_check false (vis ls) is 15

   (15 = what a CLIENT reported about a tunnel reply; client-side observations have no effect in the
   LTS, so nothing can be proved about them from it; the settled-trace codes 9, 11, 12, 13 are about
   quiescence / the client's view and are not produced by p_check false).
   The proof is a simulation: the scanner state of p_check is related to the LTS state by R below
   and the relation is preserved by every step.  With T11_trace_inclusion_sound: a recorded trace the
   checker accepts satisfies predicates 1-8, 10 and 14 - without evaluating them. *)
From G11 Require Import Shutdown ShutdownCheck ShutdownProofs ShutdownAccepts.
Open Scope Z_scope.

Definition exit_pc (p : cpc) : bool := match p with CExit | CClosed | CDec | CDone => true | _ => false end.
Definition conn_pc (p : cpc) : bool := match p with CAcc | CReg | CAddr | CWait | CHead => false | _ => true end.
Definition wr_flag (p : cpc) : bool := match p with CWriting b | CWriting2 b => b | _ => true end.
Definition not_acc (p : cpc) : bool := match p with CAcc => false | _ => true end.

(* scanner summary of one connection vs. its handler state; cl = closing signal of the LTS state *)
Record relc (cl : bool) (c : cst) (p : pcn) : Prop := {
  r_fb : p_fb_late p = true -> fb_closing c = true;
  r_acc : p_acc_late p = true -> acc_closing c = true;
  r_addr : p_addr p = true -> not_acc (pc c) = true;
  r_closed : sock_closed c = true -> p_closed p = true;
  r_gone : client_gone c = true -> p_gone p = true;
  r_must : p_must_close p = true -> exit_pc (pc c) = true;
  r_conn : p_connect p = is_connect c;
  r_connpc : p_connect p = true -> conn_pc (pc c) = true;
  r_rt : p_rt_late p = true -> cl = true /\ wr_flag (pc c) = true
}.

Record R (g : gst) (s : pscan) : Prop := {
  R_inv : Inv g;
  R_len : length (ps_conns s) = length (conns g);
  R_seen : ps_closing_seen s = true -> closing g = true;
  R_ctx : ctx_exp g = true -> ps_ctx s = true;
  R_conn : forall i c, getc g i = Some c -> relc (closing g) c (getp s i);
  R_bad : forall code, In code (ps_bad s) -> code = 15%N;
  R_at_sd : forall i, In i (ps_at_sd s) -> p_addr (getp s i) = true;
  R_at_cl : forall i, In i (ps_at_cl s) -> p_addr (getp s i) = true;
  R_sd : sd g = SdOut true -> forall i c, In i (ps_at_sd s) -> getc g i = Some c -> sock_closed c = true;
  R_cl : cl g = ClOut -> forall i c, In i (ps_at_cl s) -> getc g i = Some c -> sock_closed c = true;
  R_sderr : sd g = SdOut false -> ctx_exp g = true
}.

(* ---------- lists ---------- *)
Lemma nth_upd_same_d {A} (l : list A) i x d : (i < length l)%nat -> nth i (upd l i x) d = x.
Proof. revert i; induction l as [|a l IH]; intros [|i] H; cbn in *; try lia; auto; try (apply IH; lia). Qed.

Lemma nth_upd_other_d {A} (l : list A) i j x d : i <> j -> nth j (upd l i x) d = nth j l d.
Proof.
  revert i j; induction l as [|a l IH]; intros [|i] [|j] H; cbn; auto; try contradiction;
    try (apply IH; congruence).
Qed.

Lemma upd_overflow {A} (l : list A) i x : (length l <= i)%nat -> upd l i x = l.
Proof. revert i; induction l as [|a l IH]; intros [|i] H; cbn in *; auto; try lia; try (f_equal; apply IH; lia). Qed.

Lemma getp_setp_same s i p : (i < length (ps_conns s))%nat -> getp (setp s i p) i = p.
Proof. intros H. unfold getp, setp. cbn. apply nth_upd_same_d. assumption. Qed.

Lemma getp_setp_other s i j p : i <> j -> getp (setp s i p) j = getp s j.
Proof. intros H. unfold getp, setp. cbn. apply nth_upd_other_d. assumption. Qed.

Lemma getp_addr_lt s i : p_addr (getp s i) = true -> (i < length (ps_conns s))%nat.
Proof.
  intros H. destruct (Nat.lt_ge_cases i (length (ps_conns s))) as [L|L]; [assumption|].
  unfold getp in H. rewrite nth_overflow in H by assumption. discriminate.
Qed.

Lemma addr_ids_spec l : forall k i d, In i (addr_ids k l) -> (k <= i)%nat /\ p_addr (nth (i - k) l d) = true.
Proof.
  induction l as [|p r IH]; intros k i d H; cbn in H; [contradiction|].
  destruct (p_addr p) eqn:E.
  - destruct H as [<-|H].
    + split; [lia|]. rewrite Nat.sub_diag. assumption.
    + destruct (IH _ _ d H) as [A B]. split; [lia|]. replace (i - k)%nat with (S (i - S k)) by lia. assumption.
  - destruct (IH _ _ d H) as [A B]. split; [lia|]. replace (i - k)%nat with (S (i - S k)) by lia. assumption.
Qed.

Lemma open_among_false ids s :
  (forall i, In i ids -> p_closed (getp s i) = true) -> open_among ids s = false.
Proof.
  intros H. unfold open_among. unfold getp in H. induction ids as [|i r IH]; [reflexivity|]. cbn.
  rewrite (H i (or_introl eq_refl)). cbn. apply IH. intros j Hj. apply H. right. assumption.
Qed.

(* ---------- the relation is monotone in the closing signal ---------- *)
Lemma relc_mono cl cl' c p : relc cl c p -> (cl = true -> cl' = true) -> relc cl' c p.
Proof. intros [] H. constructor; auto. intros Hr. destruct (r_rt0 Hr). auto. Qed.

(* ---------- generic preservation lemmas ---------- *)
(* a step that changes (at most) handler i and (at most) the scanner's summary of connection i *)
Lemma R_upd g s g' s' i c c' :
  R g s -> Inv g' -> getc g i = Some c ->
  conns g' = upd (conns g) i c' -> closing g' = closing g -> sd g' = sd g -> ctx_exp g' = ctx_exp g ->
  (cl g' = ClOut -> cl g = ClOut) ->
  length (ps_conns s') = length (ps_conns s) -> (forall j, j <> i -> getp s' j = getp s j) ->
  ps_closing_seen s' = ps_closing_seen s -> ps_ctx s' = ps_ctx s -> ps_bad s' = ps_bad s ->
  ps_at_sd s' = ps_at_sd s -> ps_at_cl s' = ps_at_cl s ->
  relc (closing g) c' (getp s' i) ->
  (sock_closed c = true -> sock_closed c' = true) ->
  (p_addr (getp s i) = true -> p_addr (getp s' i) = true) ->
  R g' s'.
Proof.
  intros HR Hinv Hc Hconns Hcl Hsd Hctx Hclo Hlen Hoth Hseen Hpctx Hbad Hasd Hacl Hrel Hsock Haddr.
  destruct HR. unfold getc in *.
  assert (Hget : forall j cj, nth_error (conns g') j = Some cj ->
                 (j = i /\ cj = c') \/ (j <> i /\ nth_error (conns g) j = Some cj)).
  { intros j cj Hj. rewrite Hconns in Hj. destruct (Nat.eq_dec i j) as [<-|Hne].
    - rewrite (nth_upd_same _ _ _ _ Hc) in Hj. inversion Hj. left. auto.
    - rewrite nth_upd_other in Hj by assumption. right. split; [congruence|assumption]. }
  assert (Hpa : forall j, p_addr (getp s j) = true -> p_addr (getp s' j) = true).
  { intros j Hj. destruct (Nat.eq_dec j i) as [->|Hne]; [auto|]. rewrite Hoth by assumption. assumption. }
  constructor.
  - assumption.
  - rewrite Hlen, Hconns, upd_length. assumption.
  - rewrite Hseen, Hcl. assumption.
  - rewrite Hctx, Hpctx. assumption.
  - intros j cj Hj. unfold getc in Hj. rewrite Hcl. destruct (Hget _ _ Hj) as [[-> ->]|[Hne Hj']].
    + assumption.
    + rewrite Hoth by assumption. apply R_conn0. assumption.
  - rewrite Hbad. assumption.
  - rewrite Hasd. intros j Hj. apply Hpa. auto.
  - rewrite Hacl. intros j Hj. apply Hpa. auto.
  - rewrite Hsd, Hasd. intros Hs j cj Hin Hj. unfold getc in Hj. destruct (Hget _ _ Hj) as [[-> ->]|[Hne Hj']].
    + apply Hsock. eapply R_sd0; eauto.
    + eapply R_sd0; eauto.
  - rewrite Hacl. intros Hs j cj Hin Hj. unfold getc in Hj. specialize (Hclo Hs).
    destruct (Hget _ _ Hj) as [[-> ->]|[Hne Hj']].
    + apply Hsock. eapply R_cl0; eauto.
    + eapply R_cl0; eauto.
  - rewrite Hsd, Hctx. assumption.
Qed.

(* a step that leaves the handlers and the scanner's per-connection summaries alone *)
Lemma R_glob g s g' s' :
  R g s -> Inv g' -> conns g' = conns g -> (closing g = true -> closing g' = true) ->
  ps_conns s' = ps_conns s ->
  (ps_closing_seen s' = true -> closing g' = true) ->
  (ctx_exp g' = true -> ps_ctx s' = true) ->
  (forall code, In code (ps_bad s') -> code = 15%N) ->
  (forall i, In i (ps_at_sd s') -> p_addr (getp s i) = true) ->
  (forall i, In i (ps_at_cl s') -> p_addr (getp s i) = true) ->
  (sd g' = SdOut true -> forall i c, In i (ps_at_sd s') -> getc g i = Some c -> sock_closed c = true) ->
  (cl g' = ClOut -> forall i c, In i (ps_at_cl s') -> getc g i = Some c -> sock_closed c = true) ->
  (sd g' = SdOut false -> ctx_exp g' = true) ->
  R g' s'.
Proof.
  intros HR Hinv Hconns Hcl Hpc H1 H2 H3 H4 H5 H6 H7 H8. destruct HR.
  assert (Hgp : forall j, getp s' j = getp s j) by (intros j; unfold getp; rewrite Hpc; reflexivity).
  constructor; auto.
  - rewrite Hpc, Hconns. assumption.
  - intros i c Hc. unfold getc in Hc. rewrite Hconns in Hc. rewrite Hgp.
    eapply relc_mono; [apply R_conn0; exact Hc|assumption].
  - intros i Hi. rewrite Hgp. auto.
  - intros i Hi. rewrite Hgp. auto.
  - intros Hs i c Hi Hc. unfold getc in Hc. rewrite Hconns in Hc. eapply H6; eauto.
  - intros Hs i c Hi Hc. unfold getc in Hc. rewrite Hconns in Hc. eapply H7; eauto.
Qed.

Lemma R_getp_lt g s i c : R g s -> getc g i = Some c -> (i < length (ps_conns s))%nat.
Proof. intros HR Hc. rewrite (R_len _ _ HR). apply getc_lt with c. assumption. Qed.

(* the scanner changes only fields of connection i that the relation does not mention *)
Lemma R_scan_only g s i p' :
  R g s ->
  p_fb_late p' = p_fb_late (getp s i) -> p_acc_late p' = p_acc_late (getp s i) -> p_addr p' = p_addr (getp s i) ->
  p_closed p' = p_closed (getp s i) -> p_gone p' = p_gone (getp s i) -> p_must_close p' = p_must_close (getp s i) ->
  p_connect p' = p_connect (getp s i) -> p_rt_late p' = p_rt_late (getp s i) ->
  R g (setp s i p').
Proof.
  intros HR E1 E2 E3 E4 E5 E6 E7 E8.
  destruct (getc g i) as [c|] eqn:Hc.
  - assert (Hlt := R_getp_lt _ _ _ _ HR Hc).
    eapply (R_upd g s g (setp s i p') i c c); try reflexivity; auto.
    + apply (R_inv _ _ HR).
    + unfold getc in Hc. clear -Hc. revert i Hc. induction (conns g) as [|a l IH]; intros [|i] H; cbn in *; try discriminate.
      * inversion H. reflexivity.
      * f_equal. apply IH. assumption.
    + cbn. apply upd_length.
    + intros j Hj. apply getp_setp_other. congruence.
    + rewrite getp_setp_same by assumption. destruct (R_conn _ _ HR _ _ Hc).
      constructor; rewrite ?E1, ?E2, ?E3, ?E4, ?E5, ?E6, ?E7, ?E8; assumption.
    + rewrite getp_setp_same by assumption. rewrite E3. auto.
  - assert (Hge : (length (ps_conns s) <= i)%nat).
    { rewrite (R_len _ _ HR). unfold getc in Hc. apply nth_error_None. assumption. }
    eapply (R_glob g s g); try reflexivity; auto; try apply HR.
    cbn. apply upd_overflow. assumption.
Qed.

(* ---------- one step ---------- *)
Ltac flag_off := unfold flag_if;
  repeat match goal with |- context [if ?b then flag _ _ else _] =>
    let E := fresh "Eflag" in
    assert (E : b = true \/ b = false) by (destruct b; auto);
    destruct E as [E|E]; [exfalso | rewrite E; cbv iota] end.

(* from a handler step of stepf: the connection, its old and new state *)
Lemma hstep_of g l g' i :
  stepf g l = Some g' -> (label_conn l = Some i \/ l = SockClose i) ->
  exists c c', getc g i = Some c /\ hstep (closing g) c l = Some c' /\ g' = setc g i c'.
Proof.
  intros H Hl.
  assert (K : match getc g i with Some c => option_map (setc g i) (hstep (closing g) c l) | None => None end = Some g').
  { destruct Hl as [Hl| ->]; [|exact H]. destruct l; cbn in Hl; try discriminate; inversion Hl; subst; exact H. }
  destruct (getc g i) as [c|]; [|discriminate]. destruct (hstep (closing g) c l) as [c'|] eqn:E; [|discriminate].
  cbn in K. inversion K. eauto.
Qed.

(* preservation for a handler step, given the new summary *)
Lemma R_hstep g s l i c c' s' cg :
  R g s -> getc g i = Some c -> closing g = cg -> hstep cg c l = Some c' -> Inv (setc g i c') ->
  length (ps_conns s') = length (ps_conns s) -> (forall j, j <> i -> getp s' j = getp s j) ->
  ps_closing_seen s' = ps_closing_seen s -> ps_ctx s' = ps_ctx s -> ps_bad s' = ps_bad s ->
  ps_at_sd s' = ps_at_sd s -> ps_at_cl s' = ps_at_cl s ->
  relc cg c' (getp s' i) ->
  (p_addr (getp s i) = true -> p_addr (getp s' i) = true) ->
  R (setc g i c') s'.
Proof.
  intros HR Hc <-. intros. eapply (R_upd g s (setc g i c') s' i c c'); eauto.
  destruct (hstep_frame _ _ _ _ H) as (_ & _ & _ & F & _). exact F.
Qed.

Ltac rel_fin :=
  repeat match goal with
         | H : stepf _ _ = _ |- _ => clear H
         | H : Inv _ |- _ => clear H
         | H : hstep _ _ _ = _ |- _ => clear H
         end;
  cbn in *; intros;
  try (match goal with E : pc _ = _ |- _ => rewrite ?E in *; cbn in * end);
  try reflexivity; try assumption; try discriminate; try congruence; auto;
  try (intuition congruence).

(* everything known about connection i before the step *)
Ltac facts HR Hc :=
  let Hrel := fresh "Hrel" in let Hok := fresh "Hok" in
  pose proof (R_conn _ _ HR _ _ Hc) as Hrel;
  pose proof (inv_conn _ (R_inv _ _ HR) _ _ Hc) as Hok;
  destruct Hrel as [F1 F2 F3 F4 F5 F6 F7 F8 F9];
  destruct Hok as (K1 & K2 & K3 & K4 & K5 & K6 & K7 & K8).

Lemma sim_step g s l g' : R g s -> stepf g l = Some g' -> R g' (pstep s l).
Proof.
  intros HR Hs. assert (Hinv : Inv g') by (eapply inv_step; [apply (R_inv _ _ HR)|exact Hs]).
  assert (Hseen := R_seen _ _ HR).
  destruct l.
  - (* TSvChk *) cbn in Hs. destruct (sv g); try discriminate. inversion Hs; subst; clear Hs.
    eapply (R_glob g s); try reflexivity; try eassumption; auto; try apply HR.
  - (* Acc *) cbn in Hs. destruct (sv g); try discriminate.
    destruct (lopen g && Nat.eqb i (length (conns g)))%bool eqn:E; [|discriminate].
    apply andb_true_iff in E as [_ E]. apply Nat.eqb_eq in E. inversion Hs; subst; clear Hs.
    cbn [pstep]. destruct HR.
    assert (Hgp : forall j, (j < length (ps_conns s))%nat ->
                  getp (mkps (ps_closing_seen s) (ps_close_called s) (ps_ctx s) (ps_conns s ++ [pcn0 (ps_closing_seen s)])
                             (ps_bad s) (ps_at_sd s) (ps_at_cl s)) j = getp s j).
    { intros j Hj. unfold getp. cbn. apply app_nth1. assumption. }
    constructor; cbn [ps_conns ps_closing_seen ps_ctx ps_bad ps_at_sd ps_at_cl conns closing ctx_exp sd cl]; auto.
    + rewrite !app_length. cbn. lia.
    + intros j cj Hj. unfold getc in Hj. cbn in Hj. apply nth_app_new in Hj. destruct Hj as [Hj|[-> ->]].
      * rewrite Hgp by (rewrite R_len0; apply getc_lt with cj; exact Hj). apply R_conn0. exact Hj.
      * unfold getp. cbn. rewrite app_nth2 by lia. rewrite R_len0, Nat.sub_diag. cbn.
        constructor; cbn; intros; try discriminate; auto.
    + intros j Hj. rewrite Hgp; [auto|]. apply getp_addr_lt. auto.
    + intros j Hj. rewrite Hgp; [auto|]. apply getp_addr_lt. auto.
    + intros Hsd j cj Hin Hj. unfold getc in Hj. cbn in Hj. apply nth_app_new in Hj. destruct Hj as [Hj|[-> ->]].
      * eapply R_sd0; eauto.
      * specialize (R_at_sd0 _ Hin). apply getp_addr_lt in R_at_sd0. lia.
    + intros Hcl j cj Hin Hj. unfold getc in Hj. cbn in Hj. apply nth_app_new in Hj. destruct Hj as [Hj|[-> ->]].
      * eapply R_cl0; eauto.
      * specialize (R_at_cl0 _ Hin). apply getp_addr_lt in R_at_cl0. lia.
  - (* LClose *) cbn in Hs. inversion Hs; subst; clear Hs. eapply (R_glob g s); try reflexivity; try eassumption; auto; try apply HR.
  - (* TSvErr *) cbn in Hs. destruct (sv g); try discriminate. destruct (lopen g); try discriminate.
    inversion Hs; subst; clear Hs. eapply (R_glob g s); try reflexivity; try eassumption; auto; try apply HR.
  - (* SrvRet *) cbn in Hs. destruct (sv g); try discriminate.
    inversion Hs; subst; clear Hs. eapply (R_glob g s); try reflexivity; try eassumption; auto; try apply HR.
  - (* TRegister *) cbn in Hs. destruct (getc g i) as [c|] eqn:Hc; [|discriminate]. destruct (mu g); [discriminate|].
    destruct (pc c) eqn:Ep; try discriminate. inversion Hs; subst; clear Hs. facts HR Hc.
    eapply (R_upd g s _ s i c (set_pc c CReg)); try reflexivity; try eassumption; auto.
    constructor; rewrite ?Ep in *; rel_fin.
  - (* Addr *) destruct (hstep_of _ _ _ i Hs (or_introl eq_refl)) as (c & c' & Hc & Hh & ->). facts HR Hc. pose proof Hh as Hh0.
    assert (Hlt := R_getp_lt _ _ _ _ HR Hc).
    unfold hstep in Hh. destruct (pc c) eqn:Ep; try discriminate. inversion Hh; subst; clear Hh.
    cbn [pstep]. eapply (R_hstep g s _ i c _ _ _ HR Hc eq_refl Hh0); try reflexivity; try eassumption; auto.
    + cbn. apply upd_length.
    + intros j Hj. apply getp_setp_other. congruence.
    + rewrite getp_setp_same by assumption. constructor; rewrite ?Ep in *; rel_fin.
    + rewrite getp_setp_same by assumption. reflexivity.
  - (* TlsConn *) destruct (hstep_of _ _ _ i Hs (or_introl eq_refl)) as (c & c' & Hc & Hh & ->). facts HR Hc. pose proof Hh as Hh0.
    cbn [pstep]. cbn in Hh. destruct (before_check (pc c)); [|discriminate]. inversion Hh; subst; clear Hh.
    eapply (R_hstep g s _ i c _ _ _ HR Hc eq_refl Hh0); try reflexivity; try eassumption; auto.
    + constructor; rel_fin.
  - (* TChkConn *) destruct (hstep_of _ _ _ i Hs (or_introl eq_refl)) as (c & c' & Hc & Hh & ->). facts HR Hc. pose proof Hh as Hh0.
    cbn [pstep]. unfold hstep in Hh. destruct (pc c) eqn:Ep; try discriminate.
    destruct (closing g) eqn:Ecl; inversion Hh; subst; clear Hh;
      (eapply (R_hstep g s _ i c _ _ _ HR Hc Ecl Hh0); try reflexivity; try eassumption; auto; constructor; rewrite ?Ep in *; rel_fin).
  - (* HsDone *) destruct (hstep_of _ _ _ i Hs (or_introl eq_refl)) as (c & c' & Hc & Hh & ->). facts HR Hc. pose proof Hh as Hh0.
    cbn [pstep]. unfold hstep in Hh. destruct (pc c) eqn:Ep; try discriminate.
    destruct (hs c); inversion Hh; subst; clear Hh.
    eapply (R_hstep g s _ i c _ _ _ HR Hc eq_refl Hh0); try reflexivity; try eassumption; auto; constructor; rewrite ?Ep in *; rel_fin.
  - (* THsFail *) destruct (hstep_of _ _ _ i Hs (or_introl eq_refl)) as (c & c' & Hc & Hh & ->). facts HR Hc. pose proof Hh as Hh0.
    cbn [pstep]. unfold hstep in Hh. destruct (pc c) eqn:Ep; try discriminate.
    destruct (hs c); inversion Hh; subst; clear Hh.
    eapply (R_hstep g s _ i c _ _ _ HR Hc eq_refl Hh0); try reflexivity; try eassumption; auto; constructor; rewrite ?Ep in *; rel_fin.
  - (* FirstByte *) destruct (hstep_of _ _ _ i Hs (or_introl eq_refl)) as (c & c' & Hc & Hh & ->). facts HR Hc. pose proof Hh as Hh0.
    assert (Hlt := R_getp_lt _ _ _ _ HR Hc).
    cbn [pstep]. unfold hstep in Hh. destruct (pc c) eqn:Ep; try discriminate.
    destruct (hs c); inversion Hh; subst; clear Hh.
    flag_off. { rewrite ?Ep in *. specialize (F6 Eflag). discriminate. }
    eapply (R_hstep g s _ i c _ _ _ HR Hc eq_refl Hh0); try reflexivity; try eassumption; auto.
    + cbn. apply upd_length.
    + intros j Hj. apply getp_setp_other. congruence.
    + rewrite getp_setp_same by assumption. constructor; rewrite ?Ep in *; rel_fin.
    + rewrite getp_setp_same by assumption. cbn. auto.
  - (* ReqRead *) destruct (hstep_of _ _ _ i Hs (or_introl eq_refl)) as (c & c' & Hc & Hh & ->). facts HR Hc. pose proof Hh as Hh0.
    assert (Hlt := R_getp_lt _ _ _ _ HR Hc).
    unfold hstep in Hh. destruct k.
    + (* RErr *) cbn [pstep]. destruct (pc c) eqn:Ep; try discriminate.
      * destruct (hs c); inversion Hh; subst; clear Hh.
        eapply (R_hstep g s _ i c _ _ _ HR Hc eq_refl Hh0); try reflexivity; try eassumption; auto; constructor; rewrite ?Ep in *; rel_fin.
      * inversion Hh; subst; clear Hh.
        eapply (R_hstep g s _ i c _ _ _ HR Hc eq_refl Hh0); try reflexivity; try eassumption; auto; constructor; rewrite ?Ep in *; rel_fin.
    + (* ROk *) cbn [pstep]. destruct (pc c) eqn:Ep; try discriminate. inversion Hh; subst; clear Hh.
      flag_off.
      { specialize (F2 Eflag). destruct (K4 F2) as [_ Q]. specialize (K5 Q). discriminate. }
      { rewrite ?Ep in *. specialize (F6 Eflag0). discriminate. }
      eapply (R_hstep g s _ i c _ _ _ HR Hc eq_refl Hh0); try reflexivity; try eassumption; auto. constructor; rewrite ?Ep in *; rel_fin.
      destruct (p_connect (getp s i)); [exfalso; specialize (F8 eq_refl); discriminate|reflexivity].
    + (* RConnect *) cbn [pstep]. destruct (pc c) eqn:Ep; try discriminate. inversion Hh; subst; clear Hh.
      flag_off.
      { specialize (F2 Eflag). destruct (K4 F2) as [_ Q]. specialize (K5 Q). discriminate. }
      { rewrite ?Ep in *. specialize (F6 Eflag0). discriminate. }
      eapply (R_hstep g s _ i c _ _ _ HR Hc eq_refl Hh0); try reflexivity; try eassumption; auto.
      * cbn. apply upd_length.
      * intros j Hj. apply getp_setp_other. congruence.
      * rewrite getp_setp_same by assumption. constructor; rewrite ?Ep in *; rel_fin.
      * rewrite getp_setp_same by assumption. cbn. auto.
  - (* TChkReq *) destruct (hstep_of _ _ _ i Hs (or_introl eq_refl)) as (c & c' & Hc & Hh & ->). facts HR Hc. pose proof Hh as Hh0.
    cbn [pstep]. unfold hstep in Hh. destruct (pc c) eqn:Ep; try discriminate.
    destruct (closing g) eqn:Ecl; inversion Hh; subst; clear Hh;
      (eapply (R_hstep g s _ i c _ _ _ HR Hc Ecl Hh0); try reflexivity; try eassumption; auto; constructor; rewrite ?Ep in *; rel_fin).
  - (* Fwd *) destruct (hstep_of _ _ _ i Hs (or_introl eq_refl)) as (c & c' & Hc & Hh & ->). facts HR Hc. pose proof Hh as Hh0.
    assert (Hlt := R_getp_lt _ _ _ _ HR Hc).
    cbn [pstep]. unfold hstep in Hh. destruct (pc c) eqn:Ep; try discriminate.
    inversion Hh; subst; clear Hh. rewrite ?Ep in *.
    flag_off.
    { specialize (F1 Eflag). specialize (K2 eq_refl). congruence. }
    { specialize (F2 Eflag0). destruct (K4 F2) as [_ Q]. specialize (K5 Q). discriminate. }
    eapply (R_hstep g s _ i c _ _ _ HR Hc eq_refl Hh0); try reflexivity; try eassumption; auto.
    + cbn. apply upd_length.
    + intros j Hj. apply getp_setp_other. congruence.
    + rewrite getp_setp_same by assumption. constructor; rel_fin.
    + rewrite getp_setp_same by assumption. cbn. auto.
  - (* RTLeave *) destruct (hstep_of _ _ _ i Hs (or_introl eq_refl)) as (c & c' & Hc & Hh & ->). facts HR Hc. pose proof Hh as Hh0.
    assert (Hlt := R_getp_lt _ _ _ _ HR Hc).
    cbn [pstep]. unfold hstep in Hh. destruct (pc c) eqn:Ep; try discriminate.
    inversion Hh; subst; clear Hh. rewrite ?Ep in *.
    eapply (R_hstep g s _ i c _ _ _ HR Hc eq_refl Hh0); try reflexivity; try eassumption; auto.
    + cbn. apply upd_length.
    + intros j Hj. apply getp_setp_other. congruence.
    + rewrite getp_setp_same by assumption. constructor; rel_fin.
    + rewrite getp_setp_same by assumption. cbn. auto.
  - (* RTLeaveUp *) destruct (hstep_of _ _ _ i Hs (or_introl eq_refl)) as (c & c' & Hc & Hh & ->). facts HR Hc. pose proof Hh as Hh0.
    assert (Hlt := R_getp_lt _ _ _ _ HR Hc).
    cbn [pstep]. unfold hstep in Hh. destruct (pc c) eqn:Ep; try discriminate.
    inversion Hh; subst; clear Hh. rewrite ?Ep in *.
    eapply (R_hstep g s _ i c _ _ _ HR Hc eq_refl Hh0); try reflexivity; try eassumption; auto.
    + cbn. apply upd_length.
    + intros j Hj. apply getp_setp_other. congruence.
    + rewrite getp_setp_same by assumption. constructor; rel_fin.
    + rewrite getp_setp_same by assumption. cbn. auto.
  - (* TDecide *) destruct (hstep_of _ _ _ i Hs (or_introl eq_refl)) as (c & c' & Hc & Hh & ->). facts HR Hc. pose proof Hh as Hh0.
    cbn [pstep]. unfold hstep in Hh. destruct (pc c) eqn:Ep; try discriminate.
    inversion Hh; subst; clear Hh. rewrite ?Ep in *.
    eapply (R_hstep g s _ i c _ _ _ HR Hc eq_refl Hh0); try reflexivity; try eassumption; auto. constructor; rel_fin.
  - (* WrCall *) destruct (hstep_of _ _ _ i Hs (or_introl eq_refl)) as (c & c' & Hc & Hh & ->). facts HR Hc. pose proof Hh as Hh0.
    cbn [pstep]. unfold hstep in Hh. destruct (pc c) eqn:Ep; try discriminate.
    inversion Hh; subst; clear Hh. rewrite ?Ep in *.
    flag_off. { specialize (F2 Eflag). destruct (K4 F2) as [_ Q]. specialize (K5 Q). discriminate. }
    eapply (R_hstep g s _ i c _ _ _ HR Hc eq_refl Hh0); try reflexivity; try eassumption; auto. constructor; rel_fin.
  - (* Wrote *) destruct (hstep_of _ _ _ i Hs (or_introl eq_refl)) as (c & c' & Hc & Hh & ->). facts HR Hc. pose proof Hh as Hh0.
    assert (Hlt := R_getp_lt _ _ _ _ HR Hc).
    cbn [pstep]. unfold hstep in Hh. destruct (pc c) eqn:Ep; try discriminate; rewrite ?Ep in *.
    + (* from CWriting b: the write failed at once *)
      destruct (err && Bool.eqb close b && (sock_closed c || client_gone c))%bool eqn:Eg; [|discriminate].
      inversion Hh; subst; clear Hh.
      apply andb_true_iff in Eg as [Eg Eg3]. apply andb_true_iff in Eg as [-> Eg2].
      flag_off.
      { rewrite !andb_false_r in Eflag. discriminate. }
      { rewrite !andb_false_r in Eflag0. discriminate. }
      { apply orb_true_iff in Eg3 as [Q|Q]; [rewrite (F4 Q) in Eflag1|rewrite (F5 Q) in Eflag1];
          cbn in Eflag1; rewrite ?andb_false_r in Eflag1; discriminate. }
      eapply (R_hstep g s _ i c _ _ _ HR Hc eq_refl Hh0); try reflexivity; try eassumption; auto.
      * cbn. apply upd_length.
      * intros j Hj. apply getp_setp_other. congruence.
      * rewrite getp_setp_same by assumption. constructor; rel_fin.
      * rewrite getp_setp_same by assumption. cbn. auto.
    + (* from CWriting2 b *)
      destruct (is_connect c) eqn:Ec.
      * destruct ((negb close && negb b && negb err) || (Bool.eqb close b && err && (sock_closed c || client_gone c)))%bool eqn:Eg;
          [|discriminate]. inversion Hh; subst; clear Hh.
        flag_off.
        { apply andb_true_iff in Eflag as [Eflag Ee]. apply andb_true_iff in Eflag as [Eflag Eb].
          apply andb_true_iff in Eflag as [Ert _]. destruct (F9 Ert) as [_ Q]. cbn in Q. subst b.
          destruct close, err; cbn in *; discriminate. }
        { rewrite F7 in Eflag0. cbn in Eflag0. rewrite ?andb_false_r in Eflag0. discriminate. }
        { apply andb_true_iff in Eflag1 as [Eflag1 Ecl]. apply andb_true_iff in Eflag1 as [Eflag1 Ecc].
          apply andb_true_iff in Eflag1 as [-> Egn].
          destruct close, b; cbn in Eg; try discriminate;
            (apply orb_true_iff in Eg as [Q|Q]; [rewrite (F4 Q) in Ecl|rewrite (F5 Q) in Egn]; discriminate). }
        eapply (R_hstep g s _ i c _ _ _ HR Hc eq_refl Hh0); try reflexivity; try eassumption; auto.
        -- cbn. apply upd_length.
        -- intros j Hj. apply getp_setp_other. congruence.
        -- rewrite getp_setp_same by assumption. constructor; rel_fin.
        -- rewrite getp_setp_same by assumption. cbn. auto.
      * destruct (Bool.eqb close b && (negb err || sock_closed c || client_gone c))%bool eqn:Eg; [|discriminate].
        inversion Hh; subst; clear Hh. apply andb_true_iff in Eg as [Eb Eg]. apply Bool.eqb_prop in Eb. subst b.
        flag_off.
        { rewrite F7 in Eflag. cbn in Eflag. rewrite ?andb_false_r in Eflag. discriminate. }
        { apply andb_true_iff in Eflag0 as [Eflag0 Ee]. apply andb_true_iff in Eflag0 as [Eflag0 Eb].
          apply andb_true_iff in Eflag0 as [Ert _]. destruct (F9 Ert) as [_ Q]. cbn in Q. subst close. discriminate. }
        { apply andb_true_iff in Eflag1 as [Eflag1 Ecl]. apply andb_true_iff in Eflag1 as [Eflag1 Ecc].
          apply andb_true_iff in Eflag1 as [-> Egn]. cbn in Eg.
          apply orb_true_iff in Eg as [Q|Q]; [rewrite (F4 Q) in Ecl|rewrite (F5 Q) in Egn]; discriminate. }
        eapply (R_hstep g s _ i c _ _ _ HR Hc eq_refl Hh0); try reflexivity; try eassumption; auto.
        -- cbn. apply upd_length.
        -- intros j Hj. apply getp_setp_other. congruence.
        -- rewrite getp_setp_same by assumption.
           constructor; cbn; try (destruct (close || err)%bool eqn:Ece); rel_fin.
           all: destruct (p_must_close (getp s i)); [discriminate (F6 eq_refl)|]; destruct close, err; cbn in *; discriminate.
        -- rewrite getp_setp_same by assumption. cbn. auto.
  - (* TConnRefuse *) destruct (hstep_of _ _ _ i Hs (or_introl eq_refl)) as (c & c' & Hc & Hh & ->). facts HR Hc. pose proof Hh as Hh0.
    cbn [pstep]. unfold hstep in Hh. destruct (pc c) eqn:Ep; try discriminate.
    destruct b; try discriminate. destruct (is_connect c) eqn:Eic; inversion Hh; subst; clear Hh. rewrite ?Ep in *.
    eapply (R_hstep g s _ i c _ _ _ HR Hc eq_refl Hh0); try reflexivity; try eassumption; auto. constructor; rel_fin.
  - (* SockClose *) destruct (hstep_of _ _ _ i Hs (or_intror eq_refl)) as (c & c' & Hc & Hh & ->). facts HR Hc. pose proof Hh as Hh0.
    assert (Hlt := R_getp_lt _ _ _ _ HR Hc).
    cbn [pstep]. unfold hstep in Hh. destruct (pc c) eqn:Ep; try discriminate.
    inversion Hh; subst; clear Hh. rewrite ?Ep in *.
    eapply (R_hstep g s _ i c _ _ _ HR Hc eq_refl Hh0); try reflexivity; try eassumption; auto.
    + cbn. apply upd_length.
    + intros j Hj. apply getp_setp_other. congruence.
    + rewrite getp_setp_same by assumption. constructor; rel_fin.
    + rewrite getp_setp_same by assumption. cbn. auto.
  - (* SockCloseC *) cbn in Hs. destruct (getc g i) as [c|] eqn:Hc; [|discriminate].
    destruct (cl g) as [| |todo| |] eqn:Ecl; try discriminate.
    destruct (mem_nat i todo || mem_nat i (regs g))%bool; [|discriminate]. inversion Hs; subst; clear Hs. facts HR Hc.
    assert (Hlt := R_getp_lt _ _ _ _ HR Hc).
    cbn [pstep]. eapply (R_upd g s _ _ i c (mark_closed c)); try reflexivity; try eassumption; auto.
    + cbn. discriminate.
    + cbn. apply upd_length.
    + intros j Hj. apply getp_setp_other. congruence.
    + rewrite getp_setp_same by assumption. constructor; rel_fin.
    + rewrite getp_setp_same by assumption. cbn. auto.
  - (* TSilentClose *) destruct (hstep_of _ _ _ i Hs (or_introl eq_refl)) as (c & c' & Hc & Hh & ->). facts HR Hc. pose proof Hh as Hh0.
    cbn [pstep]. unfold hstep in Hh. destruct (pc c) eqn:Ep; try discriminate.
    destruct (sock_closed c); inversion Hh; subst; clear Hh. rewrite ?Ep in *.
    eapply (R_hstep g s _ i c _ _ _ HR Hc eq_refl Hh0); try reflexivity; try eassumption; auto. constructor; rel_fin.
  - (* TDec *) cbn in Hs. destruct (getc g i) as [c|] eqn:Hc; [|discriminate].
    destruct (pc c) eqn:Ep; try discriminate. inversion Hs; subst; clear Hs. facts HR Hc.
    eapply (R_upd g s _ s i c (set_pc c CDec)); try reflexivity; try eassumption; auto.
    constructor; rewrite ?Ep in *; rel_fin.
  - (* TDelete *) cbn in Hs. destruct (getc g i) as [c|] eqn:Hc; [|discriminate]. destruct (mu g); [discriminate|].
    destruct (pc c) eqn:Ep; try discriminate. inversion Hs; subst; clear Hs. facts HR Hc.
    eapply (R_upd g s _ s i c (set_pc c CDone)); try reflexivity; try eassumption; auto.
    constructor; rewrite ?Ep in *; rel_fin.
  - (* ClientGone *) destruct (hstep_of _ _ _ i Hs (or_introl eq_refl)) as (c & c' & Hc & Hh & ->). facts HR Hc. pose proof Hh as Hh0.
    assert (Hlt := R_getp_lt _ _ _ _ HR Hc).
    cbn [pstep]. cbn in Hh. inversion Hh; subst; clear Hh.
    eapply (R_hstep g s _ i c _ _ _ HR Hc eq_refl Hh0); try reflexivity; try eassumption; auto.
    + cbn. apply upd_length.
    + intros j Hj. apply getp_setp_other. congruence.
    + rewrite getp_setp_same by assumption. constructor; rel_fin.
    + rewrite getp_setp_same by assumption. cbn. auto.
  - (* CtxExpire *) cbn in Hs. inversion Hs; subst; clear Hs. cbn [pstep].
    eapply (R_glob g s); try reflexivity; try eassumption; auto; try apply HR.
  - (* SdCall *) cbn in Hs. destruct (sd g) eqn:Esd; try discriminate. inversion Hs; subst; clear Hs. cbn [pstep].
    eapply (R_glob g s); try reflexivity; try eassumption; auto; try apply HR; cbn; try discriminate.
    intros i Hi. destruct (addr_ids_spec _ _ _ (pcn0 false) Hi) as [_ Q]. rewrite Nat.sub_0_r in Q. exact Q.
  - (* TSdLock *) cbn in Hs. destruct (sd g) eqn:Esd; try discriminate. destruct (mu g); try discriminate.
    inversion Hs; subst; clear Hs. cbn [pstep].
    eapply (R_glob g s); try reflexivity; try eassumption; auto; try apply HR; cbn; try discriminate.
  - (* TSdOut *) cbn in Hs. destruct (sd g) eqn:Esd; try discriminate.
    destruct (if ok then cnt g =? 0 else ctx_exp g) eqn:Eg; [|discriminate]. inversion Hs; subst; clear Hs. cbn [pstep].
    eapply (R_glob g s); try reflexivity; try eassumption; auto; try apply HR; cbn.
    + intros Hok i c Hi Hc. inversion Hok; subst ok. apply Z.eqb_eq in Eg. facts HR Hc.
      specialize (F3 (R_at_sd _ _ HR _ Hi)).
      assert (Hcnt : counted (pc c) = false).
      { eapply count_pc_zero; [|exact Hc]. rewrite <- (inv_cnt _ (R_inv _ _ HR)). exact Eg. }
      apply K1. destruct (pc c); cbn in *; try discriminate; reflexivity.
    + intros Hok. inversion Hok; subst ok. exact Eg.
  - (* SdRet *) cbn in Hs. destruct (sd g) as [| | |ok'|] eqn:Esd; try discriminate.
    destruct (Bool.eqb ok ok') eqn:Eo; [|discriminate]. apply Bool.eqb_prop in Eo. subst ok'.
    inversion Hs; subst; clear Hs. cbn [pstep].
    destruct ok.
    + rewrite open_among_false.
      * cbn [flag_if]. eapply (R_glob g s); try reflexivity; try eassumption; auto; try apply HR; cbn; try discriminate.
      * intros i Hi.
        assert (Hlt := getp_addr_lt _ _ (R_at_sd _ _ HR _ Hi)). rewrite (R_len _ _ HR) in Hlt.
        destruct (nth_error (conns g) i) as [c|] eqn:Hc; [|apply nth_error_None in Hc; lia].
        apply (r_closed _ _ _ (R_conn _ _ HR _ _ Hc)). eapply (R_sd _ _ HR); eauto.
    + rewrite (R_ctx _ _ HR (R_sderr _ _ HR Esd)). cbn [negb flag_if].
      eapply (R_glob g s); try reflexivity; try eassumption; auto; try apply HR; cbn; try discriminate.
  - (* ClCall *) cbn in Hs. destruct (cl g) eqn:Ecl; try discriminate. inversion Hs; subst; clear Hs. cbn [pstep].
    eapply (R_glob g s); try reflexivity; try eassumption; auto; try apply HR; cbn; try discriminate.
    intros i Hi. destruct (addr_ids_spec _ _ _ (pcn0 false) Hi) as [_ Q]. rewrite Nat.sub_0_r in Q. exact Q.
  - (* TClLock *) cbn in Hs. destruct (cl g) eqn:Ecl; try discriminate. destruct (mu g); try discriminate.
    inversion Hs; subst; clear Hs. cbn [pstep].
    eapply (R_glob g s); try reflexivity; try eassumption; auto; try apply HR; cbn; try discriminate.
  - (* TClOut *) cbn in Hs. destruct (cl g) as [| |todo| |] eqn:Ecl; try discriminate. destruct todo; [|discriminate].
    inversion Hs; subst; clear Hs. cbn [pstep].
    eapply (R_glob g s); try reflexivity; try eassumption; auto; try apply HR; cbn.
    + intros _ i c Hi Hc. facts HR Hc. specialize (F3 (R_at_cl _ _ HR _ Hi)).
      destruct (in_set (pc c)) eqn:Ein.
      * destruct (K7 _ Ecl eq_refl) as [Q|Q]; [discriminate|exact Q].
      * apply K1. destruct (pc c); cbn in *; try discriminate; reflexivity.
  - (* ClRet *) cbn in Hs. destruct (cl g) eqn:Ecl; try discriminate. inversion Hs; subst; clear Hs. cbn [pstep].
    assert (Ho : open_among (ps_at_cl s) s = false).
    { apply open_among_false. intros i Hi.
      assert (Hlt := getp_addr_lt _ _ (R_at_cl _ _ HR _ Hi)). rewrite (R_len _ _ HR) in Hlt.
      destruct (nth_error (conns g) i) as [c|] eqn:Hc; [|apply nth_error_None in Hc; lia].
      apply (r_closed _ _ _ (R_conn _ _ HR _ _ Hc)). eapply (R_cl _ _ HR); eauto. }
    rewrite Ho. cbn [flag_if].
    eapply (R_glob g s); try reflexivity; try eassumption; auto; try apply HR; cbn; try discriminate.
  - (* ClosingSeen *) cbn in Hs. destruct (closing g) eqn:Ecl; [|discriminate]. assert (g' = g) by congruence; subst g'; clear Hs. cbn [pstep].
    eapply (R_glob g s); try reflexivity; try eassumption; auto; try apply HR.
  - (* CntIs *) cbn in Hs. destruct (cnt g =? k) eqn:Ek; [|discriminate]. assert (g' = g) by congruence; subst g'; clear Hs. cbn [pstep].
    apply Z.eqb_eq in Ek.
    assert (Hk : (k <? 0) = false).
    { apply Z.ltb_ge. rewrite <- Ek, (inv_cnt _ (R_inv _ _ HR)). apply count_pc_nonneg. }
    rewrite Hk. cbn [flag_if]. exact HR.
  - (* CliResp *) cbn in Hs. assert (g' = g) by congruence; subst g'; clear Hs. cbn [pstep].
    assert (HR' : R g (setp s i (mkp (p_fb_late (getp s i)) (p_acc_late (getp s i)) (p_addr (getp s i)) (p_closed (getp s i))
                     (p_inflight (getp s i)) (p_rt_late (getp s i)) (p_must_close (getp s i)) (p_gone (getp s i))
                     (p_connect (getp s i)) (p_wrote (getp s i)) (if full then p_cli (getp s i) ++ [closehdr] else p_cli (getp s i))
                     (p_cli_bad (getp s i) || negb full) (p_eof (getp s i))))).
    { apply R_scan_only; auto. }
    unfold flag_if. destruct (_ && _ && _ && _ && _)%bool; [|exact HR'].
    destruct HR'. constructor; auto. cbn. intros code [<-|Hin]; [reflexivity|auto].
  - (* CliEOF *) cbn in Hs. assert (g' = g) by congruence; subst g'; clear Hs. cbn [pstep]. apply R_scan_only; auto.
Qed.

Lemma R_init : R g0 pscan0.
Proof.
  constructor; cbn; try discriminate; try contradiction; auto.
  - apply inv_g0.
  - intros i c H. unfold getc in H. cbn in H. destruct i; discriminate.
Qed.

Lemma sim_run ls : forall g s g', R g s -> runf g ls = Some g' -> R g' (fold_left pstep ls s).
Proof.
  induction ls as [|l r IH]; intros g s g' HR H; cbn in *.
  - inversion H; subst. exact HR.
  - destruct (stepf g l) as [g1|] eqn:E; [|discriminate]. eapply IH; [eapply sim_step; eauto|exact H].
Qed.

(* the scanner ignores internal steps *)
Lemma pstep_tau s l : is_tau l = true -> pstep s l = s.
Proof. destruct l; cbn; try discriminate; reflexivity. Qed.

Lemma fold_vis ls : forall s, fold_left pstep (vis ls) s = fold_left pstep ls s.
Proof.
  induction ls as [|l r IH]; intros s; [reflexivity|]. unfold vis in *. cbn.
  destruct (is_tau l) eqn:E; cbn.
  - rewrite (pstep_tau _ _ E). apply IH.
  - apply IH.
Qed.

(* Every run of the LTS satisfies the proxy-side trace predicates. *)
Theorem run_satisfies_trace_predicates ls g :
  runf g0 ls = Some g -> forall code, In code (p_check false (vis ls)) -> code = 15%N.
Proof.
  intros H code. unfold p_check. cbn [andb flag_if]. rewrite fold_vis.
  apply (R_bad _ _ (sim_run ls g0 pscan0 g R_init H)).
Qed.

(* ... hence so does every recorded trace the inclusion checker accepts. *)
Corollary accepted_trace_satisfies_predicates tr :
  accepts_visible tr = true -> forall code, In code (p_check false tr) -> code = 15%N.
Proof.
  intros H. destruct (accepts_visible_sound tr H) as (ls & g & Hr & Hv). rewrite <- Hv.
  eapply run_satisfies_trace_predicates. exact Hr.
Qed.
