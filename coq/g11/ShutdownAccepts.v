(* C11 — soundness of the trace-inclusion checker: whatever accepts_f accepts is the visible
   projection of a run of the LTS from its initial state. *)
From Coq Require Import FMapPositive.
From G11 Require Import Shutdown ShutdownCheck.

Definition vis (ls : list label) : list label := filter (fun l => negb (is_tau l)) ls.

Definition Reach (tr : list label) (g : gst) : Prop := exists ls, runf g0 ls = Some g /\ vis ls = tr.

Lemma runf_app ls1 : forall g g1 ls2,
  runf g ls1 = Some g1 -> runf g (ls1 ++ ls2) = runf g1 ls2.
Proof.
  induction ls1 as [|l r IH]; intros g g1 ls2 H; cbn in *.
  - inversion H. reflexivity.
  - destruct (stepf g l) as [g'|]; [|discriminate]. apply IH. assumption.
Qed.

Lemma vis_app a c : vis (a ++ c) = vis a ++ vis c.
Proof. unfold vis. apply filter_app. Qed.

Lemma reach_step tr g l g' :
  Reach tr g -> stepf g l = Some g' -> Reach (tr ++ vis [l]) g'.
Proof.
  intros (ls & Hr & Hv) Hs. exists (ls ++ [l]). split.
  - rewrite (runf_app _ _ _ _ Hr). cbn. rewrite Hs. reflexivity.
  - rewrite vis_app, Hv. reflexivity.
Qed.

Lemma all_taus_tau g l : In l (all_taus g) -> is_tau l = true.
Proof.
  unfold all_taus. intros H. apply in_app_or in H as [H|H].
  - cbn in H. repeat (destruct H as [<-|H]; [reflexivity|]). contradiction.
  - apply in_flat_map in H as (i & _ & H). cbn in H.
    repeat (destruct H as [<-|H]; [reflexivity|]). contradiction.
Qed.

Lemma in_filter_map {A B} (f : A -> option B) l y :
  In y (filter_map f l) -> exists x, In x l /\ f x = Some y.
Proof.
  induction l as [|a l IH]; cbn; [contradiction|].
  destruct (f a) eqn:E.
  - intros [<-|H]; [eauto|]. destruct (IH H) as (x & Hx & Hf). eauto.
  - intros H. destruct (IH H) as (x & Hx & Hf). eauto.
Qed.

Lemma tau_succs_reach tr g g' : Reach tr g -> In g' (tau_succs g) -> Reach tr g'.
Proof.
  intros Hr H. apply in_filter_map in H as (t & Ht & Hs).
  pose proof (reach_step _ _ _ _ Hr Hs) as H. cbn in H. rewrite (all_taus_tau _ _ Ht) in H. cbn in H.
  rewrite app_nil_r in H. exact H.
Qed.

Lemma closure_f_sound tr fuel : forall seen frontier,
  (forall g, In g (snd seen) -> Reach tr g) -> (forall g, In g frontier -> Reach tr g) ->
  forall g, In g (snd (closure_f fuel seen frontier)) -> Reach tr g.
Proof.
  induction fuel as [|f IH]; intros seen frontier Hs Hf g Hin; cbn in Hin; [auto|].
  destruct frontier as [|x rest]; [auto|].
  unfold sset_add in Hin. destruct (PositiveMap.find (key x) (fst seen)) eqn:E.
  - eapply IH; [exact Hs| |exact Hin]. intros y Hy. apply Hf. right. assumption.
  - eapply IH; [| |exact Hin]; cbn.
    + intros y [<-|Hy]; [apply Hf; left; reflexivity|auto].
    + intros y Hy. apply in_app_or in Hy as [Hy|Hy].
      * eapply tau_succs_reach; [|exact Hy]. apply Hf. left. reflexivity.
      * apply Hf. right. assumption.
Qed.

Opaque FUEL_F.

Lemma first_reject_f_sound tr : forall S pre idx,
  S <> [] -> (forall g, In g S -> Reach pre g) ->
  forallb (fun l => negb (is_tau l)) tr = true ->
  first_reject_f S tr idx = None -> exists g, Reach (pre ++ tr) g.
Proof.
  induction tr as [|l r IH]; intros S pre idx Hne HS Hv H; cbn [first_reject_f] in H.
  - destruct S as [|g S']; [contradiction|]. exists g. rewrite app_nil_r. apply HS. left. reflexivity.
  - cbn in Hv. apply andb_true_iff in Hv as [Hl Hv].
    destruct (filter_map (fun g => stepf g l) (snd (closure_f FUEL_F sset_empty S))) as [|g2 S2] eqn:E; [discriminate|].
    replace (pre ++ l :: r) with ((pre ++ [l]) ++ r) by (rewrite <- app_assoc; reflexivity).
    eapply IH; [| |exact Hv|exact H]; [discriminate|].
    intros g Hg. rewrite <- E in Hg. apply in_filter_map in Hg as (g1 & Hg1 & Hs).
    assert (R1 : Reach pre g1).
    { eapply closure_f_sound; [| |exact Hg1]; [cbn; contradiction|exact HS]. }
    pose proof (reach_step _ _ _ _ R1 Hs) as R2. cbn in R2. rewrite Hl in R2. exact R2.
Qed.

Theorem accepts_visible_sound tr :
  accepts_visible tr = true -> exists ls g, runf g0 ls = Some g /\ vis ls = tr.
Proof.
  unfold accepts_visible, accepts_f. intros H. apply andb_true_iff in H as [Hv H].
  destruct (first_reject_f [g0] tr 0%N) eqn:E; [discriminate|].
  destruct (first_reject_f_sound tr [g0] [] 0%N) as (g & ls & Hr & Hvis); auto; [discriminate| |eauto].
  intros g [<-|[]]. exists []. split; reflexivity.
Qed.
