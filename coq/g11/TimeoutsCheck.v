(* C15 — executable checkers run on what the real proxy was observed to do.
   tcase : one scripted client that stalls; the script as it actually ran (measured gaps),
           the phase the client stalled in, when that phase was entered and when (if at all)
           the client saw the proxy close the socket.
   acase : N stalled peers and a well-behaved probe.
   *_model_ok : the timed model predicts the observation within the stated tolerance
   *_prop_ok  : the observation itself satisfies the property's predicate (limits taken from
                the configuration by the property's own table, not from the model's state)   *)
From G11 Require Export Timeouts RateLimit.
Open Scope Z_scope.

Record tcase := {
  t_cfg : cfg;
  t_evs : list ev;
  t_phase : N;            (* phase_idx of the phase the client stalled in *)
  t_enter : Z;            (* client clock, ms since connect *)
  t_closed : option Z;    (* client clock; None = still open at the end of the watch *)
  t_reply : bool;         (* a complete response was received (slow-origin scenarios) *)
  t_tol : Z               (* lateness tolerance, ms *)
}.

Definition early_tol : Z := 10.  (* clock granularity + in-flight time of the client's last byte *)

Definition within (a o tol : Z) : bool := (Z.abs (a - o) <=? tol).

Definition tcase_model_ok (t : tcase) : bool :=
  let s := run (t_cfg t) (conn_start (t_cfg t)) (t_evs t) in
  N.eqb (phase_idx (ph s)) (if N.eqb (t_phase t) 4 || N.eqb (t_phase t) 8 then 2%N else t_phase t) &&
  match closed s, t_closed t with
  | Some a, Some o => within a o (t_tol t)
  | None, None => true
  | _, _ => false
  end.
(* (a slow-origin scenario ends in the idle wait after the reply, a body that never comes in the
   idle wait after the aborted exchange: phases 4 and 8 -> 2) *)

(* the limit the property statement names for a stall in each phase *)
Definition spec_limit (c : cfg) (p : N) : option Z :=
  match p with
  | 0%N => pos (c_pp c)                                   (* PROXY-protocol header timeout *)
  | 1%N => pos (c_tls c)                                  (* tls-handshake-timeout, listener *)
  | 2%N => pos (if 0 <? c_idle c then c_idle c else c_read c)   (* idle-timeout *)
  | 3%N => pos (if 0 <? c_rhdr c then c_rhdr c else c_read c)   (* read-header-timeout *)
  | 5%N | 6%N => pos (c_mitm c)                           (* tls-handshake-timeout, MITM *)
  | 8%N => (* request body never sent: the exchange is aborted at first byte + ReadTimeout with an error
              response, the connection stays and is closed idle-timeout later (t_enter = first byte) *)
           match pos (c_read c), pos (if 0 <? c_idle c then c_idle c else c_read c) with
           | Some r, Some i => Some (r + i)
           | _, _ => None
           end
  | _ => None
  end.

Definition tcase_prop_ok (t : tcase) : bool :=
  if N.eqb (t_phase t) 4 then t_reply t   (* slow origin / slow body: the exchange must complete, the socket must not be cut *)
  else
    match spec_limit (t_cfg t) (t_phase t), t_closed t with
    | Some L, Some o => (t_enter t + L - early_tol <=? o) && (o <=? t_enter t + L + t_tol t)
    | Some _, None => false      (* not closed although the limit elapsed within the watch *)
    | None, Some _ => false      (* closed although no limit applies *)
    | None, None => true
    end.

Record acase := {
  a_cfg : cfg;
  a_n : N;                (* stalled peers, all connected before the probe *)
  a_peer_in_pp : bool;    (* the peers stall inside the PROXY header *)
  a_probe : Z;            (* worst latency of the probes, ms (dial start to complete response) *)
  a_first : Z;            (* latency of the first probe *)
  a_ok : bool;            (* every probe got its response before giving up *)
  a_base : Z;             (* latency of the same probe without stalled peers *)
  a_cap : Z;              (* a probe gives up after this long *)
  a_lead : Z;             (* the probe started this long after the peers had connected *)
  a_rate : Z;             (* --read-limit / --write-limit of the listener, bytes per second; 0 = none *)
  a_tol : Z
}.

Definition stalled_peer (in_pp : bool) : peer := mkpeer 0 (if in_pp then None else Some 0).

(* size of the probe's request, bytes (only matters when the bucket is within a request of empty) *)
Definition probe_bytes : Z := 256.

(* predicted extra latency of the probe = its hand-off time minus its arrival, plus - on a rate-limited
   listener - the wait of its first read behind the tokens the parked peers hold (RateLimit.v) *)
Definition predicted_delay (a : acase) : option Z :=
  let ps := repeat (stalled_peer (a_peer_in_pp a)) (N.to_nat (a_n a)) ++ [mkpeer (a_lead a) (Some 0)] in
  match last (serve (a_cfg a) ps) None with
  | Some t => Some (t - a_lead a + parked_delay ratelimit_read_prog (a_rate a) (N.to_nat (a_n a)) probe_bytes)
  | None => None
  end.

Definition acase_model_ok (a : acase) : bool :=
  match predicted_delay a with
  | Some d => if a_cap a <=? d + a_base a then negb (a_ok a) || (a_cap a - a_tol a <=? a_first a)
              else within (a_first a) (d + a_base a) (a_tol a)
  | None => negb (a_ok a)
  end.

(* the property: the probe is served without waiting for the stalled peers *)
Definition acase_prop_ok (a : acase) : bool := a_ok a && (a_probe a <=? a_base a + a_tol a).

Fixpoint bad_from {A} (f : A -> bool) (i : N) (l : list A) : list N :=
  match l with
  | [] => []
  | x :: r => if f x then bad_from f (i + 1)%N r else i :: bad_from f (i + 1)%N r
  end.
Definition bad {A} (f : A -> bool) (l : list A) : list N := bad_from f 0%N l.
