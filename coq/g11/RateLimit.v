(* C15 — the one resource a rate-limited listener shares between its connections (phase 4).

   `--read-limit` / `--write-limit` wrap every accepted connection in ratelimit.Conn; all connections of
   a listener draw on ONE token bucket (golang.org/x/time/rate.Limiter: level may go negative by
   reservation, refills with time up to the burst size).  "However many connections are stalled ... a
   well-behaved client ... is served without waiting for them" therefore also says: a connection parked
   in Read holds no tokens.  Whether it does is decided by the order of statements in
   ratelimit.Conn.Read, which the translator extracts (Tables.ratelimit_read_prog):

       n, err = c.Conn.Read(b) ; c.rxLimiter.WaitN(ctx, n)        charged after the I/O, for the bytes moved
       c.rxLimiter.WaitN(ctx, len(b)) ; n, err = c.Conn.Read(b)   charged before it, for the buffer size

   The model interprets the extracted program: anything that precedes the wrapped Read is taken to be a
   charge of the whole buffer (the conservative reading of an unknown statement). *)
From G11 Require Import Timeouts.
Open Scope Z_scope.

Definition rl_read_stmt : str := b "c.Conn.Read(b)".

(* the statements of the program that run before the wrapped Read is entered; None: no such Read *)
Fixpoint before_read (prog : list str) : option (list str) :=
  match prog with
  | [] => None
  | x :: r => if str_eqb x rl_read_stmt then Some []
              else match before_read r with Some l => Some (x :: l) | None => None end
  end.

(* tokens taken from the shared bucket by a connection that is parked in Read with a buffer of `buf` bytes *)
Definition park_cost (prog : list str) (buf : Z) : Z :=
  match before_read prog with Some [] => 0 | _ => Z.max 0 buf end.

(* what happens to the bucket: time passes; a connection parks in Read; a completed Read/Write of n bytes
   is charged *)
Inductive rev := RTick (d : Z) | RPark (buf : Z) | RCharge (n : Z).

Definition rstep (rate burst : Z) (prog : list str) (lvl : Z) (e : rev) : Z :=
  match e with
  | RTick d => Z.min burst (lvl + rate * Z.max 0 d / 1000)
  | RPark buf => lvl - park_cost prog buf
  | RCharge n => lvl - Z.max 0 n
  end.

Definition level (rate burst : Z) (prog : list str) (evs : list rev) (lvl : Z) : Z :=
  fold_left (rstep rate burst prog) evs lvl.

Definition is_park (e : rev) : bool := match e with RPark _ => true | _ => false end.
Definition without_parked (evs : list rev) : list rev := filter (fun e => negb (is_park e)) evs.

(* how long WaitN(n) makes its caller wait at bucket level lvl (ms; rate in tokens per second) *)
Definition wait_ms (rate lvl n : Z) : Z :=
  if n <=? lvl then 0 else if rate <=? 0 then 0 else ((n - lvl) * 1000 + rate - 1) / rate.

(* ---------- parked connections are invisible to the bucket, if nothing precedes the Read ---------- *)
Lemma parked_invisible rate burst prog :
  (forall buf, park_cost prog buf = 0) ->
  forall evs lvl, level rate burst prog evs lvl = level rate burst prog (without_parked evs) lvl.
Proof.
  intros Hp. induction evs as [|e r IH]; intros lvl; [reflexivity|].
  unfold level, without_parked in *. cbn [fold_left filter].
  destruct e as [d|buf|n]; cbn [is_park negb fold_left].
  - apply IH.
  - cbn [rstep]. rewrite Hp, Z.sub_0_r. apply IH.
  - apply IH.
Qed.

(* ... so the wait of any client's WaitN is the same with and without them, wherever their parking is
   interleaved with the other connections' traffic and the passing of time, and however many they are *)
Lemma probe_wait_independent rate burst prog :
  (forall buf, park_cost prog buf = 0) ->
  forall evs lvl n,
    wait_ms rate (level rate burst prog evs lvl) n = wait_ms rate (level rate burst prog (without_parked evs) lvl) n.
Proof. intros Hp evs lvl n. rewrite (parked_invisible rate burst prog Hp evs lvl). reflexivity. Qed.

(* the program shape that has this property: the wrapped Read is the first statement *)
Lemma park_cost_read_first prog r : prog = rl_read_stmt :: r -> forall buf, park_cost prog buf = 0.
Proof. intros -> buf. unfold park_cost. cbn [before_read]. rewrite str_eqb_refl. reflexivity. Qed.

(* ---------- the other shape: N parked peers cost N buffers ---------- *)
Lemma parked_cost_prepaid rate burst prog buf :
  0 <= buf -> park_cost prog buf = buf ->
  forall n lvl, level rate burst prog (repeat (RPark buf) n) lvl = lvl - Z.of_nat n * buf.
Proof.
  intros Hb Hp. induction n as [|n IH]; intros lvl.
  - cbn. lia.
  - unfold level in *. cbn [repeat fold_left rstep]. rewrite IH, Hp. lia.
Qed.

(* forwarder's bucket: burst = max(4 MiB, rate / 64); the handler reads through a 4 KiB bufio.Reader *)
Definition burst_of (rate : Z) : Z := Z.max 4194304 (rate / 64).
Definition read_buf : Z := 4096.

(* extra latency of a fresh client's first request (n bytes) behind N parked peers, bucket full before *)
Definition parked_delay (prog : list str) (rate : Z) (npeers : nat) (n : Z) : Z :=
  if rate <=? 0 then 0
  else wait_ms rate (level rate (burst_of rate) prog (repeat (RPark read_buf) npeers) (burst_of rate)) n.

Lemma parked_delay_zero prog rate npeers n :
  (forall buf, park_cost prog buf = 0) -> 0 <= n <= 4194304 -> parked_delay prog rate npeers n = 0.
Proof.
  intros Hp Hn. unfold parked_delay. destruct (rate <=? 0); [reflexivity|].
  rewrite (parked_invisible _ _ _ Hp).
  assert (E : without_parked (repeat (RPark read_buf) npeers) = []).
  { induction npeers as [|k IH]; [reflexivity|]. cbn. exact IH. }
  rewrite E. cbn [level fold_left]. unfold wait_ms, burst_of.
  destruct (n <=? Z.max 4194304 (rate / 64)) eqn:El; [reflexivity|]. apply Z.leb_gt in El. lia.
Qed.
