(* C11 — property theorems.  Nothing but statements, `exact`, Print Assumptions.
   `reach g` : g is reachable from the initial state by ANY sequence of labels, i.e. under every
   interleaving of the accept loop, the handlers, Shutdown, Close, clients, origin and context. *)
From G11 Require Import Shutdown Gauge ShutdownCheck ShutdownProofs ShutdownAccepts ShutdownTrace ShutdownRun ShutdownTermination ShutdownProgress ShutdownQuiescent ShutdownObligations.
Open Scope Z_scope.

(* Shutdown decides "drained" (and then returns nil) only in a state where the counter is zero and
   every connection that has registered has had its socket closed; connections accepted but not yet
   registered are the only ones that may still be open. *)
Theorem T11_success_means_drained : forall g g',
  reach g -> stepf g (TSdOut true) = Some g' ->
  cnt g = 0 /\ forall i c, getc g i = Some c -> pc c = CAcc \/ sock_closed c = true.
Proof. exact success_means_drained. Qed.
Print Assumptions T11_success_means_drained.

(* Otherwise Shutdown returns the context's error, and only if the context is done; what it returns
   is what it decided. *)
Theorem T11_else_ctx_error : forall g g',
  (stepf g (TSdOut false) = Some g' -> ctx_exp g = true) /\
  (forall ok, stepf g (SdRet ok) = Some g' -> sd g = SdOut ok).
Proof. exact (fun g g' => conj (else_ctx_error g g') (fun ok => shutdown_returns_what_it_decided g g' ok)). Qed.
Print Assumptions T11_else_ctx_error.

(* A request is forwarded only if its first byte was received before closing was set (and on a
   connection that passed the closing check of handleLoop); once closing is set, no connection that
   was not being served before ever becomes served, whatever happens afterwards. *)
Theorem T11_no_new_work : forall g,
  reach g ->
  (forall i g', stepf g (Fwd i) = Some g' -> exists c, getc g i = Some c /\ fb_closing c = false /\ served c = true) /\
  (closing g = true -> forall ls g', runf g ls = Some g' ->
     closing g' = true /\
     forall i c', getc g' i = Some c' -> served c' = true -> exists c, getc g i = Some c /\ served c = true).
Proof. exact (fun g Hr => conj (fun i g' => no_new_work g g' i Hr) (fun Hc ls g' => no_new_served ls g g' Hc)). Qed.
Print Assumptions T11_no_new_work.

(* An exchange that has reached the origin side is never abandoned: the handler leaves the in-flight
   program points only by writing the response (for a CONNECT while closing: its 2xx); the close flag
   of the response is the closing signal at the moment writeResponse runs; after a response with
   Connection: close (or a failed write, possible only if the socket was closed or the client left)
   the handler closes the connection instead of reading another request. *)
Theorem T11_inflight_completes : forall g l g' i,
  (forall c, stepf g l = Some g' -> getc g i = Some c -> in_flight (pc c) = true ->
     (exists c', getc g' i = Some c' /\ in_flight (pc c') = true) \/ (exists b e, l = Wrote i b e) \/ l = TConnRefuse i) /\
  (stepf g (TDecide i) = Some g' -> exists c', getc g' i = Some c' /\ pc c' = CWriting (closing g)) /\
  (forall b e, stepf g (Wrote i b e) = Some g' ->
     exists c c', getc g i = Some c /\ getc g' i = Some c' /\ (pc c = CWriting2 b \/ (pc c = CWriting b /\ e = true)) /\
       pc c' = (if is_connect c || b || e then CExit else CWait) /\
       (e = true -> sock_closed c = true \/ client_gone c = true)).
Proof. exact (fun g l g' i => conj (fun c Hs => inflight_not_abandoned g l g' i c Hs)
                (conj (decide_uses_closing g g' i) (fun b e => wrote_then g g' i b e))). Qed.
Print Assumptions T11_inflight_completes.

(* A connection accepted after closing was set is never served, and there is at most one. *)
Theorem T11_late_accepts_closed_unserved : forall g,
  reach g ->
  (forall i c, getc g i = Some c -> acc_closing c = true -> served c = false /\ unserved_pc (pc c) = true) /\
  n_late (conns g) <= 1.
Proof. exact late_accepts_closed_unserved. Qed.
Print Assumptions T11_late_accepts_closed_unserved.

(* Close returns only after its loop; from then on every connection that was ever served has had
   its socket closed, every other accepted connection is unserved and will stay so (closing is set),
   and a handler that has finished has closed its socket. *)
Theorem T11_close_closes_all : forall g,
  reach g ->
  (forall g', stepf g ClRet = Some g' -> cl_finished g = true) /\
  (cl_finished g = true ->
     closing g = true /\
     forall i c, getc g i = Some c -> sock_closed c = true \/ (served c = false /\ unserved_pc (pc c) = true)) /\
  (forall i c, getc g i = Some c -> pc c = CDone -> sock_closed c = true).
Proof. exact (fun g Hr => conj (fun g' => close_returns_finished g g')
                (conj (close_closes_all g Hr) (fun i c => done_means_closed g i c Hr))). Qed.
Print Assumptions T11_close_closes_all.

(* The counter equals the number of handlers between registration and their deferred decrement, is
   never negative, and is zero (and the registry empty) whenever every handler has finished. *)
Theorem T11_counter_balanced : forall g,
  reach g ->
  cnt g = count_pc counted (conns g) /\ 0 <= cnt g /\
  ((forall i c, getc g i = Some c -> pc c = CDone) -> cnt g = 0 /\ regs g = []).
Proof. exact counter_balanced. Qed.
Print Assumptions T11_counter_balanced.

(* The exported gauge of open connections (listener_cx_active; forwarder.Listener + conntrack, not the
   martian counter): after ANY sequence of accepts (successful or not) and Close calls on the tracked
   connections - repeated, in any order, whatever each underlying Close returned (every Close after the
   first returns net.ErrClosed) - the gauge is not negative, and once Close has been called at least
   once on every connection accepted so far it reads zero.  Second part: the model can express the
   defect (onClose skipped when the underlying Close reports an error leaves the gauge at 1 for ever). *)
Theorem T11_gauge_returns_to_zero :
  (forall evs closes,
     let s := grun gpar_of_tables evs gs0 in
     (forall k, (k < length (g_once s))%nat -> In k (map fst closes)) ->
     0 <= g_val s /\
     g_val (grun gpar_of_tables (map (fun ke => GClose (fst ke) (snd ke)) closes) s) = 0) /\
  g_val (grun (mkgpar 1 1 true negb) [GAcc true; GClose 0%nat true; GClose 0%nat true; GClose 0%nat true] gs0) = 1.
Proof. exact (conj (gauge_returns_to_zero gpar_of_tables ob_gauge_programs) gauge_leak_witness). Qed.
Print Assumptions T11_gauge_returns_to_zero.

(* Progress: the LTS has no deadlock.  From EVERY reachable state there is a continuation, in which the
   environment withholds nothing (the context may expire, clients go away, origins answer), that
   releases connsMu and takes every handler to its end; then the counter is zero and the registry
   empty.  In particular Shutdown holding connsMu for its whole duration never blocks the handlers
   for ever: their registration and deletion wait for it, their decrement does not. *)
Theorem T11_no_deadlock : forall g,
  reach g ->
  exists ls g', runf g ls = Some g' /\
    (forall i c, getc g' i = Some c -> pc c = CDone) /\ cnt g' = 0 /\ regs g' = [] /\ mu g' = None.
Proof. exact no_deadlock. Qed.
Print Assumptions T11_no_deadlock.

(* The other half of "the count always returns to zero": once closing is set no handler can run for
   ever.  Along EVERY continuation (any interleaving, any behaviour of clients, origins, Shutdown, Close)
   at most one more connection is accepted and the handlers together take at most (sum of their ranks) + 41
   <= 41 x (connections + 1) further steps: every step of a handler lowers its rank, nothing raises one.
   With T11_no_deadlock (a handler that is not at its end can always be given a step): every run in
   which enabled handlers eventually move ends with all handlers done and the counter at zero. *)
Theorem T11_handlers_terminate : forall g,
  reach g -> closing g = true ->
  forall ls g', runf g ls = Some g' ->
    count is_acc ls <= 1 /\
    count handler_step ls <= total (conns g) + max_rank /\
    count handler_step ls <= max_rank * (Z.of_nat (length (conns g)) + 1).
Proof. exact handlers_terminate. Qed.
Print Assumptions T11_handlers_terminate.

(* ... and where such a run ends: in ANY reachable state in which no handler step is possible, every
   handler has finished or is waiting for connsMu (before it is counted, or after its decrement), and the
   counter is zero.  With T11_handlers_terminate: once closing is set, every run in which a handler that
   can move eventually does move reaches the counter value zero after at most 41 x (connections + 1) handler
   steps. *)
Theorem T11_quiescent_counter_zero : forall g,
  reach g -> (forall l, handler_step l = true -> stepf g l = None) ->
  cnt g = 0 /\
  forall i c, getc g i = Some c -> pc c = CDone \/ (mu g <> None /\ (pc c = CAcc \/ pc c = CDec)).
Proof. exact quiescent_counter_zero. Qed.
Print Assumptions T11_quiescent_counter_zero.

(* ... and the drain itself can always succeed: from every reachable state in which Shutdown is
   polling (holding connsMu), every registered handler can run up to its decrement without the lock,
   the counter reaches zero and Shutdown returns nil - without any context expiry. *)
Theorem T11_drain_can_succeed : forall g,
  reach g -> sd g = SdHolding ->
  exists ls g', runf g ls = Some g' /\ sd g' = SdDone true /\ cnt g' = 0.
Proof. exact drain_can_succeed. Qed.
Print Assumptions T11_drain_can_succeed.

(* The trace-inclusion checker run on every recorded execution of the real proxy is sound: what it
   accepts is the observable projection of a run of the LTS from its initial state — so every theorem
   above applies to the state such a run ends in. *)
Theorem T11_trace_inclusion_sound : forall tr,
  accepts_visible tr = true -> exists ls g, runf g0 ls = Some g /\ vis ls = tr.
Proof. exact accepts_visible_sound. Qed.
Print Assumptions T11_trace_inclusion_sound.

(* Once forwarder's run() has returned - Shutdown returned nil, or it returned the context's error and
   the Close that run() then calls has returned - and for ever after, along every continuation (late
   registrations, handlers still unwinding, clients, anything): every connection that was ever served has
   been closed, every other accepted connection is unserved, and closing stays set (so by T11_no_new_work
   none of them will ever be served). *)
Theorem T11_after_run_nothing_served_is_open : forall g,
  reach g -> run_returned g ->
  forall ls g', runf g ls = Some g' ->
    run_returned g' /\ closing g' = true /\
    forall i c, getc g' i = Some c -> sock_closed c = true \/ (served c = false /\ unserved_pc (pc c) = true).
Proof. exact after_run. Qed.
Print Assumptions T11_after_run_nothing_served_is_open.

(* run() closes the listeners before it calls Shutdown (ob_run_prog): once the listener is closed, along
   every continuation nothing is accepted any more - under run()'s order of calls not even the single late
   accept that T11_late_accepts_closed_unserved allows for a bare Shutdown happens. *)
Theorem T11_closed_listener_accepts_nothing : forall ls g g',
  lopen g = false -> runf g ls = Some g' -> lopen g' = false /\ accepts ls = 0.
Proof. exact closed_listener_accepts_nothing. Qed.
Print Assumptions T11_closed_listener_accepts_nothing.

(* The property on observable histories.  p_check states the clauses on a trace: 1 a request whose first
   byte arrived after closing was observed has been forwarded; 2 a connection accepted after closing was
   observed has been served; 3 a response whose round trip ended after closing was observed lacks
   Connection: close; 4 a response write failed although neither the client vanished nor Close was
   called; 5 another request was read after a closing response; 6 Shutdown returned nil while a
   connection registered before the call had not been closed; 7 Shutdown returned an error although the
   context had not expired; 8 Close returned while a connection registered before the call had not
   been closed; 10 the counter was read negative; 14 a tunnel ran although closing had been observed
   before its dial returned.  NO run of the LTS - no interleaving of accept loop, handlers, Shutdown,
   Close, clients, origin and context, of any length - produces any of them; the only code p_check false
   can report is 15, which is about what a client saw (client observations have no effect in the LTS).
   Hence (second part) a recorded trace that the inclusion checker accepts satisfies all of them. *)
Theorem T11_every_run_satisfies_the_trace_predicates :
  (forall ls g, runf g0 ls = Some g -> forall code, In code (p_check false (vis ls)) -> code = 15%N) /\
  (forall tr, accepts_visible tr = true -> forall code, In code (p_check false tr) -> code = 15%N).
Proof. exact (conj run_satisfies_trace_predicates accepted_trace_satisfies_predicates). Qed.
Print Assumptions T11_every_run_satisfies_the_trace_predicates.

(* Non-vacuity: a run with an exchange in flight when Shutdown starts, a late connection that blocks
   on the registry lock, the response written with Connection: close, Shutdown returning nil, the late
   connection closed unserved — accepted by the LTS, and all trace predicates hold. *)
Example T11_example :
  let tr := [Acc 0%nat; Addr 0%nat; FirstByte 0%nat; ReqRead 0%nat ROk; Fwd 0%nat; SdCall; ClosingSeen; Acc 1%nat;
             RTLeave 0%nat; WrCall 0%nat; Wrote 0%nat true false; CliResp 0%nat true true; SockClose 0%nat; CliEOF 0%nat;
             SdRet true; Addr 1%nat; SockClose 1%nat; CliEOF 1%nat; CntIs 0] in
  accepts_f tr = true /\ p_check true tr = [] /\
  accepts_f [Acc 0%nat; Addr 0%nat; SdCall; ClosingSeen; FirstByte 0%nat; ReqRead 0%nat ROk; Fwd 0%nat] = false.
Proof. exact (conj eq_refl (conj eq_refl eq_refl)). Qed.

(* ... and the predicates are not vacuous: a history that forwards a request first sent after closing was
   observed is flagged (code 1) - and, as the theorem demands, is not a run of the LTS. *)
Example T11_example_predicates_bite :
  let bad := [Acc 0%nat; Addr 0%nat; SdCall; ClosingSeen; FirstByte 0%nat; ReqRead 0%nat ROk; Fwd 0%nat] in
  p_check false bad = [1%N] /\ accepts_f bad = false /\
  p_check false [Acc 0%nat; Addr 0%nat; SdCall; ClosingSeen; SdRet true] = [6%N].
Proof. exact (conj eq_refl (conj eq_refl eq_refl)). Qed.

(* run() returning by its second route: a connection is being served, the context expires, Shutdown
   returns its error, Close closes the connection and returns. *)
Example T11_example_run_returns :
  option_map (fun g => (sd g, cl g, map sock_closed (conns g), map served (conns g)))
    (runf g0 [TSvChk; Acc 0%nat; TRegister 0%nat; Addr 0%nat; TChkConn 0%nat; LClose; SdCall; TSdLock; CtxExpire;
              TSdOut false; SdRet false; ClCall; TClLock; SockCloseC 0%nat; TClOut; ClRet])
  = Some (SdDone false, ClDone, [true], [true]).
Proof. reflexivity. Qed.

(* the measure at work: a connection waiting for its next request when closing is set has rank 24; the run
   that takes it to its end (read fails, close, decrement, delete) has 4 handler steps and ends at rank 10 *)
Example T11_example_rank :
  option_map (fun g => (map ShutdownTermination.rank (conns g), closing g))
    (runf g0 [TSvChk; Acc 0%nat; TRegister 0%nat; Addr 0%nat; TChkConn 0%nat; SdCall; TSdLock]) = Some ([24], true) /\
  option_map (fun g => map ShutdownTermination.rank (conns g))
    (runf g0 [TSvChk; Acc 0%nat; TRegister 0%nat; Addr 0%nat; TChkConn 0%nat; SdCall; TSdLock;
              ReqRead 0%nat RErr; SockClose 0%nat; TDec 0%nat; TSdOut true; TDelete 0%nat]) = Some [10] /\
  count handler_step [ReqRead 0%nat RErr; SockClose 0%nat; TDec 0%nat; TSdOut true; TDelete 0%nat] = 4.
Proof. exact (conj eq_refl (conj eq_refl eq_refl)). Qed.

(* the gauge model at work: three accepts (one failed), the handler and Proxy.Close both close connection 0
   (the second call fails with ErrClosed), connection 1 still open: the gauge reads 1 *)
Example T11_example_gauge :
  g_val (grun gpar_of_tables [GAcc true; GAcc false; GAcc true; GClose 0%nat false; GClose 0%nat true] gs0) = 1 /\
  g_val (grun gpar_of_tables [GAcc true; GAcc false; GAcc true; GClose 0%nat false; GClose 0%nat true; GClose 1%nat true] gs0) = 0.
Proof. exact (conj eq_refl eq_refl). Qed.
