(* C15 — what holds for EVERY configuration, in particular with Proxy.ReadTimeout > 0
   (whole-request deadline): no hypothesis on the configuration anywhere in this file.

   What the code does with ReadTimeout = R > 0 (readRequest):
     t0 := time of the first byte;  header deadline t0 + (ReadHeaderTimeout, or R if that is 0);
     once the head is complete the read deadline becomes the whole-request deadline t0 + R
     and STAYS ARMED on the socket: through the body, the upstream wait and the response write,
     until the next readRequest replaces it (handleMITM and tunnel replace / clear it themselves).
   Consequences proved below:
     - a request body that is not complete at t0 + R makes the round trip fail exactly then (never
       earlier): the client gets an error response (504) and the connection is NOT closed, it goes back
       to the idle wait (and is closed idle-timeout later if the client stays silent);
     - while the origin is awaited nothing reads from the client, so the armed — possibly long
       expired — deadline closes nothing: a slow origin never gets the client cut, whatever R is;
     - the head and idle limits are the configured ones with the documented fall-back to R. *)
From G11 Require Import Timeouts TimeoutsProofs.
Open Scope Z_scope.

Section AnyConfig.
Variable c : cfg.

(* ---------- a stalled client: generic facts, no invariant needed ---------- *)
Lemma fa_now t s : fire_at (set_now t s) = fire_at s. Proof. reflexivity. Qed.
Lemma fa_closed t s : fire_at (set_closed t s) = fire_at s. Proof. reflexivity. Qed.

Lemma stall_keeps s e :
  closed s = None -> (ph s <> PBody \/ fire_at s = None) -> stall (ph s) e = true ->
  let s' := step c s e in
  ph s' = ph s /\ fire_at s' = fire_at s /\ t0 s' = t0 s /\ now s <= now s'.
Proof.
  intros Hc Hnb Hs. destruct e as [d| | | | |]; cbn [stall] in Hs; try discriminate.
  - cbn [step]. rewrite tick_eq by (right; exact Hnb). unfold tick_plain.
    destruct (d <? 0) eqn:Ed; [cbn; repeat split; lia|]. apply Z.ltb_ge in Ed. rewrite Hc.
    destruct (fire_at s) as [f|] eqn:Ef; [destruct (f <=? now s + d)|];
      rewrite ?fa_closed, ?fa_now, ?Ef; cbn [ph t0 now set_closed set_now]; repeat split; lia.
  - cbn [step]. rewrite Hc. destruct (ph s) eqn:Hp; try discriminate; rewrite ?Hp; repeat split; try lia; reflexivity.
Qed.

Lemma closed_stays evs : forall s t, closed s = Some t -> closed (run c s evs) = Some t /\ now s <= now (run c s evs).
Proof.
  intros s t H. destruct (run_closed c evs s t H) as (A & _ & _ & B). auto.
Qed.

(* no deadline in force: never closed *)
Lemma stall_none evs : forall s,
  closed s = None -> fire_at s = None -> forallb (stall (ph s)) evs = true -> closed (run c s evs) = None.
Proof.
  induction evs as [|e r IH]; intros s Hc Hf Hs; [assumption|]. rewrite run_cons.
  cbn [forallb] in Hs. apply andb_true_iff in Hs as [Hs1 Hs2].
  destruct (stall_keeps s e Hc (or_intror Hf) Hs1) as (Hp & Hf' & _ & _).
  apply IH; [| rewrite Hf'; assumption | rewrite Hp; assumption].
  destruct e as [d| | | | |]; cbn [stall] in Hs1; try discriminate.
  - cbn [step]. rewrite tick_eq by (right; right; exact Hf). unfold tick_plain.
    destruct (d <? 0); [assumption|]. rewrite Hc, Hf. cbn. assumption.
  - cbn [step]. rewrite Hc. destruct (ph s); try discriminate; assumption.
Qed.

(* a deadline f in the future: closed exactly at f, once f has been reached *)
Lemma stall_some evs : forall s f,
  closed s = None -> ph s <> PBody -> fire_at s = Some f -> now s < f -> forallb (stall (ph s)) evs = true ->
  (closed (run c s evs) = None /\ now (run c s evs) < f) \/
  (closed (run c s evs) = Some f /\ f <= now (run c s evs)).
Proof.
  induction evs as [|e r IH]; intros s f Hc Hnb Hf Hlt Hs; [left; auto|]. rewrite run_cons.
  cbn [forallb] in Hs. apply andb_true_iff in Hs as [Hs1 Hs2].
  destruct (stall_keeps s e Hc (or_introl Hnb) Hs1) as (Hp & Hf' & _ & Hn).
  destruct (closed (step c s e)) as [t|] eqn:Hc'.
  - (* this step fired *)
    assert (t = f /\ f <= now (step c s e)).
    { destruct e as [d| | | | |]; cbn [stall] in Hs1; try discriminate.
      - cbn [step] in *. rewrite tick_eq in * by (right; left; exact Hnb). unfold tick_plain in *.
        destruct (d <? 0) eqn:Ed; [congruence|]. apply Z.ltb_ge in Ed.
        rewrite Hc, Hf in *. destruct (f <=? now s + d) eqn:E; cbn in *; [|congruence].
        apply Z.leb_le in E. inversion Hc'. split; lia.
      - cbn [step] in Hc'. rewrite Hc in Hc'. destruct (ph s); try discriminate; congruence. }
    destruct H as [-> Hle]. destruct (closed_stays r _ _ Hc') as [A B]. right. split; [assumption|lia].
  - assert (Hlt' : now (step c s e) < f).
    { destruct e as [d| | | | |]; cbn [stall] in Hs1; try discriminate.
      - cbn [step] in *. rewrite tick_eq in * by (right; left; exact Hnb). unfold tick_plain in *.
        destruct (d <? 0) eqn:Ed; [assumption|]. apply Z.ltb_ge in Ed.
        rewrite Hc, Hf in *. destruct (f <=? now s + d) eqn:E; cbn in *; [discriminate|]. apply Z.leb_gt in E. lia.
      - cbn [step]. rewrite Hc. destruct (ph s); try discriminate; assumption. }
    apply IH; try assumption; [rewrite Hp; assumption | rewrite Hf'; assumption | rewrite Hp; assumption].
Qed.

(* ---------- the origin is slow: never cut, whatever the configuration ---------- *)
Lemma slow_origin_never_cut s evs :
  closed s = None -> (ph s = PUp \/ ph s = PTunnel) -> forallb (stall (ph s)) evs = true ->
  closed (run c s evs) = None.
Proof.
  intros Hc Hp Hs. apply stall_none; try assumption. unfold fire_at. destruct Hp as [-> | ->]; reflexivity.
Qed.

(* ---------- which deadline is armed, for every reachable state, for every configuration ---------- *)
Definition inv_g (s : st) : Prop :=
  closed s = None ->
  (ph s = PIdle -> rd s = arm (idle_eff c) (entered s) /\ entered s <= now s) /\
  (ph s = PHead -> rd s = arm (rhdr_eff c) (t0 s) /\ t0 s <= now s) /\
  (ph s = PBody -> rd s = arm (c_read c) (t0 s)) /\
  (* a PROXY header awaited lazily: the idle deadline of the phase that follows is armed already *)
  (ph s = PPHdr -> pp_early = false -> (nxt s = PLTls \/ nxt s = PIdle) /\
                   (nxt s = PIdle -> rd s = arm (idle_eff c) (entered s) /\ entered s <= now s)).

Lemma opt_eqb_eq a e : opt_eqb a e = true -> a = e.
Proof. destruct a, e; cbn; try discriminate; auto. intros H. apply Z.eqb_eq in H. congruence. Qed.

Lemma rd_after_head_whole s :
  rd s = arm (rhdr_eff c) (t0 s) -> rd_after_head c s = arm (c_read c) (t0 s).
Proof.
  intros Hrd. unfold rd_after_head. destruct whole_set_guard_equal; [|reflexivity].
  destruct (opt_eqb (arm (rhdr_eff c) (t0 s)) (arm (c_read c) (t0 s))) eqn:E; [|reflexivity].
  apply opt_eqb_eq in E. congruence.
Qed.

Ltac ginv := unfold inv_g; intros _; cbn [ph rd entered now t0 closed nxt];
  repeat split; intros; try discriminate; try lia; auto.

Lemma inv_g_start : inv_g (conn_start c).
Proof.
  unfold conn_start, after_accept, start_ltls, start_read_request, s_init.
  destruct (c_has_pp c), pp_early eqn:Ee, (c_has_tls c); ginv.
Qed.

Lemma inv_g_rr s : inv_g (start_read_request c s).
Proof. unfold start_read_request. ginv. Qed.

Lemma inv_g_tick_plain d s : 0 <= d -> inv_g s -> inv_g (tick_plain d s).
Proof.
  intros Ed Hi. unfold tick_plain.
  destruct (closed s) eqn:Hc; [intros H; cbn in H; congruence|].
  destruct (Hi Hc) as (A & B & C & D).
  destruct (fire_at s) as [f|]; [destruct (f <=? now s + d)|]; try (intros H; cbn in H; discriminate);
    intros _; cbn [ph rd entered now t0 closed set_now nxt];
    (split; [intros H; destruct (A H); split; [assumption|lia]|]);
    (split; [intros H; destruct (B H); split; [assumption|lia]|]);
    (split; [assumption|]);
    (intros H He; destruct (D H He) as [D1 D2]; split; [assumption|]; intros H2; destruct (D2 H2); split; [assumption|lia]).
Qed.

Lemma inv_g_body_timeout s f : inv_g (body_timeout c s f).
Proof. unfold body_timeout. ginv. Qed.

Lemma inv_g_step s e : inv_g s -> inv_g (step c s e).
Proof.
  intros Hi. destruct e as [d| | | | |]; cbn [step].
  - (* Tick *) unfold tick. destruct (d <? 0) eqn:Ed; [assumption|]. apply Z.ltb_ge in Ed.
    destruct (closed s) eqn:Hc; [apply inv_g_tick_plain; assumption|].
    destruct (ph s) eqn:Hp; try (apply inv_g_tick_plain; assumption).
    destruct (fire_at s) as [f|] eqn:Hf; [|apply inv_g_tick_plain; assumption].
    destruct (f <=? now s + d) eqn:E; [|apply inv_g_tick_plain; assumption].
    apply Z.leb_le in E. apply inv_g_tick_plain; [lia|apply inv_g_body_timeout].
  - (* Bytes *) destruct (closed s) eqn:Hc; [assumption|]. destruct (ph s) eqn:Hp; try assumption.
    + unfold head_start. ginv.
    + unfold mtls_start. ginv.
  - (* Done *) destruct (closed s) eqn:Hc; [assumption|]. destruct (Hi Hc) as (A & B & C & D).
    destruct (ph s) eqn:Hp; try assumption.
    + unfold pp_done, after_accept, start_ltls, start_read_request. destruct pp_early eqn:Ee.
      * destruct (c_has_tls c); ginv.
      * (* lazily awaited header: the phase that follows was entered at `entered`, its deadline is armed *)
        destruct (D eq_refl eq_refl) as [Dn Di]. intros _. cbn [ph rd entered now t0 closed nxt].
        destruct Dn as [Dn|Dn]; rewrite Dn in *.
        -- repeat split; intros; try discriminate.
        -- destruct (Di eq_refl). repeat split; intros; try discriminate; assumption.
    + apply inv_g_rr.
    + unfold head_done, head_start. ginv.
    + unfold head_done. ginv.
    + unfold body_done. ginv.
    + apply inv_g_rr.
    + apply inv_g_rr.
  - (* DoneHeadBody *) destruct (closed s) eqn:Hc; [assumption|]. destruct (Hi Hc) as (A & B & C & D).
    destruct (ph s) eqn:Hp; try assumption.
    + unfold head_done_body. intros _. cbn [ph rd entered now t0 closed head_start].
      repeat split; intros; try discriminate; try (apply rd_after_head_whole; reflexivity).
    + unfold head_done_body. intros _. cbn [ph rd entered now t0 closed].
      repeat split; intros; try discriminate; try (apply rd_after_head_whole; apply B; reflexivity).
  - (* DoneConnect *) destruct (closed s) eqn:Hc; [assumption|].
    destruct (ph s) eqn:Hp; try assumption; unfold connect_done; destruct (c_mitm_on c); ginv.
  - (* Reply *) destruct (closed s) eqn:Hc; [assumption|]. destruct (ph s) eqn:Hp; try assumption. apply inv_g_rr.
Qed.

Lemma inv_g_run evs : forall s, inv_g s -> inv_g (run c s evs).
Proof. induction evs as [|e r IH]; intros s Hi; [assumption|]. rewrite run_cons. apply IH, inv_g_step, Hi. Qed.

Lemma inv_g_reach pre : inv_g (run c (conn_start c) pre).
Proof. apply inv_g_run, inv_g_start. Qed.

Lemma arm_cases d t : (d <= 0 /\ arm d t = None) \/ (0 < d /\ arm d t = Some (t + d)).
Proof. unfold arm. destruct (0 <? d) eqn:E; [right; apply Z.ltb_lt in E|left; apply Z.ltb_ge in E]; auto. Qed.

(* a deadline `arm d t` governing a stalled phase other than the body phase: never closed if d <= 0;
   otherwise closed exactly at t + d (if that moment is still ahead), not before *)
Lemma governed s evs d t :
  closed s = None -> ph s <> PBody -> fire_at s = arm d t -> forallb (stall (ph s)) evs = true ->
  (d <= 0 -> closed (run c s evs) = None) /\
  (0 < d -> now s < t + d ->
     (closed (run c s evs) = None /\ now (run c s evs) < t + d) \/
     (closed (run c s evs) = Some (t + d) /\ t + d <= now (run c s evs))).
Proof.
  intros Hc Hnb Hf Hs. destruct (arm_cases d t) as [[Hd E]|[Hd E]]; rewrite E in Hf; split; intros; try lia.
  - apply stall_none; assumption.
  - apply stall_some; assumption.
Qed.

(* ---------- the whole-request deadline while the body is outstanding ---------- *)
Lemma now_mono_step s e : now s <= now (step c s e).
Proof.
  destruct e as [d| | | | |]; cbn [step].
  - unfold tick. destruct (d <? 0) eqn:Ed; [lia|]. apply Z.ltb_ge in Ed.
    assert (P : forall x s0, 0 <= x -> now s0 <= now (tick_plain x s0)).
    { intros x s0 Hx. unfold tick_plain. destruct (closed s0); [cbn; lia|].
      destruct (fire_at s0) as [f|]; [destruct (f <=? now s0 + x)|]; cbn; lia. }
    destruct (closed s); [apply P; assumption|]. destruct (ph s); try (apply P; assumption).
    destruct (fire_at s) as [f|]; [|apply P; assumption].
    destruct (f <=? now s + d) eqn:E; [|apply P; assumption]. apply Z.leb_le in E.
    etransitivity; [|apply P; lia]. cbn. lia.
  - destruct (closed s); [lia|]. destruct (ph s); cbn; lia.
  - destruct (closed s); [lia|]. destruct (ph s); cbn; try lia.
    unfold pp_done, after_accept, start_ltls, start_read_request. destruct pp_early, (c_has_tls c); cbn; lia.
  - destruct (closed s); [lia|]. destruct (ph s); cbn; lia.
  - destruct (closed s); [lia|]. destruct (ph s); cbn; try lia; unfold connect_done; destruct (c_mitm_on c); cbn; lia.
  - destruct (closed s); [lia|]. destruct (ph s); cbn; lia.
Qed.

Lemma now_mono evs : forall s, now s <= now (run c s evs).
Proof.
  induction evs as [|e r IH]; intros s; [cbn; lia|]. rewrite run_cons.
  etransitivity; [apply now_mono_step|apply IH].
Qed.

(* before the deadline nothing happens to a request whose body is outstanding *)
Lemma body_before evs : forall s f,
  closed s = None -> ph s = PBody -> fire_at s = Some f -> forallb (stall PBody) evs = true ->
  now (run c s evs) < f ->
  closed (run c s evs) = None /\ ph (run c s evs) = PBody /\ fire_at (run c s evs) = Some f /\ t0 (run c s evs) = t0 s.
Proof.
  induction evs as [|e r IH]; intros s f Hc Hp Hf Hs Hn; [auto|]. rewrite run_cons in *.
  cbn [forallb] in Hs. apply andb_true_iff in Hs as [Hs1 Hs2].
  assert (Hstep : closed (step c s e) = None /\ ph (step c s e) = PBody /\ fire_at (step c s e) = Some f /\ t0 (step c s e) = t0 s).
  { destruct e as [d| | | | |]; cbn [stall] in Hs1; try discriminate.
    - pose proof (now_mono r (step c s (Tick d))) as Hm.
      cbn [step] in *. unfold tick in *. destruct (d <? 0) eqn:Ed; [auto|]. apply Z.ltb_ge in Ed.
      rewrite Hc, Hp, Hf in *. destruct (f <=? now s + d) eqn:E.
      + exfalso. apply Z.leb_le in E.
        assert (f <= now (tick_plain (now s + d - Z.max f (now s)) (body_timeout c s f))).
        { unfold tick_plain, body_timeout. cbn [closed fire_at ph rd now].
          destruct (arm (idle_eff c) (Z.max f (now s))) as [g|]; [destruct (g <=? _)|]; cbn; lia. }
        lia.
      + unfold tick_plain. rewrite Hc, Hf, E. cbn. rewrite Hp. auto.
    - cbn [step]. rewrite Hc, Hp. auto. }
  destruct Hstep as (A & B & C & D). destruct (IH _ f A B C Hs2 Hn) as (G1 & G2 & G3 & G4).
  repeat split; congruence.
Qed.

(* at the deadline the exchange is aborted with an error response and the connection returns to the
   idle wait; it is not closed at that moment *)
Lemma body_cross s f d :
  closed s = None -> ph s = PBody -> fire_at s = Some f -> now s < f -> f <= now s + d ->
  let s' := step c s (Tick d) in
  ph s' = PIdle /\ entered s' = f /\
  match closed s' with
  | None => idle_eff c <= 0 \/ now s + d < f + idle_eff c
  | Some t => 0 < idle_eff c /\ t = f + idle_eff c
  end.
Proof.
  intros Hc Hp Hf Hlt Hle. cbn [step]. unfold tick. assert (Ed : (d <? 0) = false) by (apply Z.ltb_ge; lia).
  rewrite Ed, Hc, Hp, Hf. assert (E : (f <=? now s + d) = true) by (apply Z.leb_le; lia). rewrite E.
  replace (Z.max f (now s)) with f by lia.
  unfold tick_plain, body_timeout. cbn [closed fire_at ph rd now entered]. replace (Z.max f (now s)) with f by lia.
  destruct (arm_cases (idle_eff c) f) as [[Hd Ea]|[Hd Ea]]; rewrite Ea.
  - cbn. repeat split; auto.
  - destruct (f + idle_eff c <=? f + (now s + d - f)) eqn:E2; cbn.
    + apply Z.leb_le in E2. repeat split; auto. lia.
    + apply Z.leb_gt in E2. repeat split; auto. right. lia.
Qed.

Lemma body_deadline pre evs d :
  let s := run c (conn_start c) pre in
  closed s = None -> ph s = PBody -> forallb (stall PBody) evs = true ->
  (c_read c <= 0 -> closed (run c s evs) = None) /\
  (0 < c_read c -> let s1 := run c s evs in let D := t0 s + c_read c in
     now s1 < D ->
     (* not cut before the deadline ... *)
     closed s1 = None /\ ph s1 = PBody /\
     (* ... and at the deadline: error response, back to the idle wait, still open *)
     (D <= now s1 + d ->
        let s2 := step c s1 (Tick d) in
        ph s2 = PIdle /\ entered s2 = D /\
        match closed s2 with
        | None => idle_eff c <= 0 \/ now s1 + d < D + idle_eff c
        | Some t => 0 < idle_eff c /\ t = D + idle_eff c
        end)).
Proof.
  intros s Hc Hp Hs. destruct (inv_g_reach pre Hc) as (_ & _ & C & _). specialize (C Hp).
  assert (Hfa : fire_at s = arm (c_read c) (t0 s)) by (unfold fire_at; fold s; rewrite Hp; exact C).
  destruct (arm_cases (c_read c) (t0 s)) as [[Hd E]|[Hd E]]; rewrite E in Hfa; split; intros; try lia.
  - apply stall_none; [assumption|assumption|fold s; rewrite Hp; assumption].
  - destruct (body_before evs s _ Hc Hp Hfa Hs H0) as (A1 & A2 & A3 & A4).
    split; [assumption|]. split; [assumption|]. intros Hle.
    apply (body_cross (run c s evs) (t0 s + c_read c) d); assumption.
Qed.

(* the head deadline, with the documented fall-back of ReadHeaderTimeout to ReadTimeout *)
Lemma head_deadline pre evs :
  let s := run c (conn_start c) pre in
  closed s = None -> ph s = PHead -> forallb (stall PHead) evs = true ->
  (rhdr_eff c <= 0 -> closed (run c s evs) = None) /\
  (0 < rhdr_eff c -> now s < t0 s + rhdr_eff c ->
     (closed (run c s evs) = None /\ now (run c s evs) < t0 s + rhdr_eff c) \/
     (closed (run c s evs) = Some (t0 s + rhdr_eff c) /\ t0 s + rhdr_eff c <= now (run c s evs))).
Proof.
  intros s Hc Hp Hs. destruct (inv_g_reach pre Hc) as (_ & B & _ & _).
  apply governed; [assumption|fold s; rewrite Hp; discriminate| |fold s; rewrite Hp; assumption].
  unfold fire_at. fold s. rewrite Hp. apply B. assumption.
Qed.

(* the idle deadline, with the fall-back of IdleTimeout to ReadTimeout *)
Lemma idle_deadline pre evs :
  let s := run c (conn_start c) pre in
  closed s = None -> ph s = PIdle -> forallb (stall PIdle) evs = true ->
  (idle_eff c <= 0 -> closed (run c s evs) = None) /\
  (0 < idle_eff c -> now s < entered s + idle_eff c ->
     (closed (run c s evs) = None /\ now (run c s evs) < entered s + idle_eff c) \/
     (closed (run c s evs) = Some (entered s + idle_eff c) /\ entered s + idle_eff c <= now (run c s evs))).
Proof.
  intros s Hc Hp Hs. destruct (inv_g_reach pre Hc) as (A & _ & _ & _).
  apply governed; [assumption|fold s; rewrite Hp; discriminate| |fold s; rewrite Hp; assumption].
  unfold fire_at. fold s. rewrite Hp. apply A. assumption.
Qed.
End AnyConfig.
