(* C15 — timed model of one client connection of the proxy, and of the accept loop.

   Time is an explicit clock (Z, milliseconds in the cases, any unit in the proofs).
   Computation takes no time in the model; only the client / the origin let time pass.
   Every deadline the code arms is a datum of the state:

     rd    the read deadline armed on the socket           (readRequest, handleMITM)
     ctxd  the deadline of a handshake context             (maybeHandshakeTLS, handleMITM)
     ppd   the PROXY-header timer                          (proxyproto.Conn.readHeaderContext)

   Transcribed from (shapes re-extracted into Tables.v on every run):
     internal/martian/proxy_conn.go  readRequest, maybeHandshakeTLS, handleMITM
     internal/martian/proxy.go       Serve (accept loop), handleLoop, idleTimeout, readHeaderTimeout
     proxyproto/net.go               Conn.readHeaderContext and the Conn methods that call it
     net.go, http_proxy.go           how the listener is stacked and the limits are configured *)
From FwdLib Require Export Bytes.
From G11 Require Export Tables.
Open Scope Z_scope.

Record cfg := mkcfg {
  c_idle : Z;  (* Proxy.IdleTimeout *)
  c_read : Z;  (* Proxy.ReadTimeout *)
  c_rhdr : Z;  (* Proxy.ReadHeaderTimeout *)
  c_tls : Z;   (* Proxy.TLSHandshakeTimeout *)
  c_mitm : Z;  (* Proxy.MITMTLSHandshakeTimeout *)
  c_pp : Z;    (* proxyproto.Listener.ReadHeaderTimeout *)
  c_has_pp : bool;   (* listener wrapped in proxyproto.Listener *)
  c_has_tls : bool;  (* listener hands out *tls.Conn *)
  c_mitm_on : bool   (* CONNECT requests are MITM'd *)
}.

(* "if d > 0 { deadline = now.Add(d) }"; None = the zero time.Time = no deadline *)
Definition arm (d now : Z) : option Z := if 0 <? d then Some (now + d) else None.

(* Proxy.idleTimeout / Proxy.readHeaderTimeout *)
Definition idle_eff (c : cfg) : Z :=
  if 0 <? c_idle c then c_idle c else if idle_fallback_read then c_read c else 0.
Definition rhdr_eff (c : cfg) : Z :=
  if 0 <? c_rhdr c then c_rhdr c else if rhdr_fallback_read then c_read c else 0.

Inductive phase :=
| PPHdr   (* waiting for the PROXY-protocol header *)
| PLTls   (* listener TLS handshake *)
| PIdle   (* readRequest: Peek(1), waiting for the first byte of a request *)
| PHead   (* readRequest: http.ReadRequest, head incomplete *)
| PBody   (* head complete, request body still being received (read by the round trip) *)
| PUp     (* request fully received, waiting for the origin / writing the response *)
| PMPeek  (* handleMITM: 200 sent, Peek(1), waiting for the first byte of the client hello *)
| PMTls   (* handleMITM: TLS handshake with the client *)
| PTunnel (* CONNECT tunnel, no limits *).

Definition phase_idx (p : phase) : N :=
  match p with PPHdr => 0 | PLTls => 1 | PIdle => 2 | PHead => 3 | PUp => 4 | PMPeek => 5 | PMTls => 6 | PTunnel => 7
             | PBody => 8 end%N.

Record st := mkst {
  now : Z;
  ph : phase;
  rd : option Z;
  ctxd : option Z;
  ppd : option Z;
  entered : Z;          (* when the current phase's clock started *)
  closed : option Z;    (* Some t: the proxy closed the socket at t *)
  nxt : phase;          (* phase that follows the PROXY header when its timer runs concurrently *)
  t0 : Z                (* readRequest's t0: when the first byte of the current request arrived *)
}.

Definition set_now t s := mkst t (ph s) (rd s) (ctxd s) (ppd s) (entered s) (closed s) (nxt s) (t0 s).
Definition set_closed t s := mkst (now s) (ph s) (rd s) (ctxd s) (ppd s) (entered s) (Some t) (nxt s) (t0 s).

(* Where is the PROXY header first waited for?  Any proxyproto.Conn method that calls
   readHeader blocks until the header is complete or its timer fires. *)
Fixpoint mem (m : str) (l : list str) : bool :=
  match l with [] => false | x :: r => str_eqb m x || mem m r end.
Definition touches_pp (calls : list str) : bool := existsb (fun m => mem m pp_blocking_methods) calls.
Definition pp_touch_accept : bool := touches_pp serve_pre_go_calls.
Definition pp_touch_goroutine : bool := touches_pp handleloop_pre_handshake_calls.
(* true: the header is awaited before the handshake / readRequest timers are started *)
Definition pp_early : bool := pp_touch_accept || pp_touch_goroutine.

(* readRequest entry: idle deadline, then Peek(1) *)
Definition start_read_request (c : cfg) (s : st) : st :=
  mkst (now s) PIdle (arm (idle_eff c) (now s)) None None (now s) (closed s) (nxt s) (t0 s).
(* maybeHandshakeTLS: context.WithTimeout(Background, TLSHandshakeTimeout); HandshakeContext *)
Definition start_ltls (c : cfg) (s : st) : st :=
  mkst (now s) PLTls (rd s) (arm (if ltls_timeout_guarded then c_tls c else 0) (now s)) None (now s) (closed s) (nxt s) (t0 s).
Definition after_accept (c : cfg) (s : st) : st :=
  if c_has_tls c then start_ltls c s else start_read_request c s.

Definition s_init : st := mkst 0 PIdle None None None 0 None PIdle 0.

Definition pp_timer (c : cfg) (t : Z) : option Z := arm (if pp_timeout_closes_conn then c_pp c else 0) t.

Definition conn_start (c : cfg) : st :=
  if c_has_pp c then
    if pp_early then mkst 0 PPHdr None None (pp_timer c 0) 0 None PIdle 0
    else let s1 := after_accept c s_init in
         mkst 0 PPHdr (rd s1) (ctxd s1) (pp_timer c 0) 0 None (ph s1) 0
  else after_accept c s_init.

Definition opt_eqb (a c : option Z) : bool :=
  match a, c with Some x, Some y => x =? y | None, None => true | _, _ => false end.

(* first byte of a request: t0 := now; header deadline *)
Definition head_start (c : cfg) (s : st) : st :=
  mkst (now s) PHead (arm (rhdr_eff c) (now s)) (ctxd s) (ppd s) (now s) (closed s) (nxt s) (now s).
(* head complete: "if !hdrDeadline.Equal(wholeReqDeadline) { SetReadDeadline(wholeReqDeadline) }" *)
Definition rd_after_head (c : cfg) (s : st) : option Z :=
  let hdr := arm (rhdr_eff c) (t0 s) in
  let whole := arm (c_read c) (t0 s) in
  if whole_set_guard_equal then (if opt_eqb hdr whole then rd s else whole) else whole.
Definition head_done (c : cfg) (s : st) : st :=
  mkst (now s) PUp (rd_after_head c s) (ctxd s) (ppd s) (now s) (closed s) (nxt s) (t0 s).
(* head complete, body outstanding: the same deadline handling, but a read from the client stays pending *)
Definition head_done_body (c : cfg) (s : st) : st :=
  mkst (now s) PBody (rd_after_head c s) (ctxd s) (ppd s) (now s) (closed s) (nxt s) (t0 s).
Definition body_done (s : st) : st :=
  mkst (now s) PUp (rd s) (ctxd s) (ppd s) (now s) (closed s) (nxt s) (t0 s).
(* CONNECT head complete *)
Definition connect_done (c : cfg) (s : st) : st :=
  if c_mitm_on c then
    mkst (now s) PMPeek (if mitm_peek_deadline then arm (c_mitm c) (now s) else rd_after_head c s)
         (ctxd s) (ppd s) (now s) (closed s) (nxt s) (t0 s)
  else mkst (now s) PTunnel (rd_after_head c s) (ctxd s) (ppd s) (now s) (closed s) (nxt s) (t0 s).
(* first byte after the CONNECT reply: handshake context *)
Definition mtls_start (c : cfg) (s : st) : st :=
  mkst (now s) PMTls (if mitm_peek_deadline then None else rd s)
       (arm (if mitm_timeout_guarded then c_mitm c else 0) (now s)) (ppd s) (now s) (closed s) (nxt s) (t0 s).
Definition clear_ctx (s : st) : st := mkst (now s) (ph s) (rd s) None (ppd s) (entered s) (closed s) (nxt s) (t0 s).
Definition pp_done (c : cfg) (s : st) : st :=
  if pp_early then after_accept c (mkst (now s) (ph s) (rd s) (ctxd s) None (entered s) (closed s) (nxt s) (t0 s))
  else mkst (now s) (nxt s) (rd s) (ctxd s) None (entered s) (closed s) (nxt s) (t0 s).

Definition omin (a c : option Z) : option Z :=
  match a, c with
  | Some x, Some y => Some (Z.min x y)
  | Some x, None => Some x
  | None, y => y
  end.

(* the earliest armed deadline that a blocked read of the current phase is subject to *)
Definition fire_at (s : st) : option Z :=
  match ph s with
  | PPHdr => omin (ppd s) (omin (ctxd s) (rd s))
  | PLTls | PMTls => omin (ctxd s) (rd s)
  | PIdle | PHead | PMPeek | PBody => rd s
  | PUp | PTunnel => None     (* nobody reads from the client: an armed deadline closes nothing *)
  end.

Inductive ev :=
| Tick (d : Z)     (* d time units pass; the client sends nothing that completes the current unit *)
| Bytes            (* the client sends bytes that do not complete the current unit *)
| Done             (* the client completes the current unit (PROXY header / handshake / request head) *)
| DoneHeadBody     (* the client completes a request head that announces a body *)
| DoneConnect      (* the client completes a CONNECT head (and receives the 200) *)
| Reply            (* the origin answered and the response has been written; keep-alive *).

(* time passes while a read from the client is pending: the earliest armed deadline, if reached,
   makes that read fail and the handler closes the connection *)
Definition tick_plain (d : Z) (s : st) : st :=
  match closed s with
  | Some _ => set_now (now s + d) s
  | None =>
    match fire_at s with
    | Some f => if f <=? now s + d then set_closed (Z.max f (now s)) (set_now (now s + d) s)
                else set_now (now s + d) s
    | None => set_now (now s + d) s
    end
  end.

(* ... except while the request BODY is outstanding: the failing read is the round trip's, which
   answers with an error response (504) and lets the handler go on - the connection is not closed,
   it returns to readRequest's idle wait at that moment (observed on the real proxy; the unread
   body, should it still arrive, would be taken for the next request) *)
Definition body_timeout (c : cfg) (s : st) (f : Z) : st :=
  let t := Z.max f (now s) in
  mkst t PIdle (arm (idle_eff c) t) (ctxd s) (ppd s) t None (nxt s) (t0 s).

Definition body_fires (s : st) : bool :=
  match closed s, ph s, fire_at s with None, PBody, Some _ => true | _, _, _ => false end.

Definition tick (c : cfg) (d : Z) (s : st) : st :=
  if d <? 0 then s else
  match closed s, ph s, fire_at s with
  | None, PBody, Some f =>
      if f <=? now s + d then tick_plain (now s + d - Z.max f (now s)) (body_timeout c s f) else tick_plain d s
  | _, _, _ => tick_plain d s
  end.

Definition step (c : cfg) (s : st) (e : ev) : st :=
  match e with
  | Tick d => tick c d s
  | _ =>
    match closed s with
    | Some _ => s
    | None =>
      match e, ph s with
      | Bytes, PIdle => head_start c s
      | Bytes, PMPeek => mtls_start c s
      | Bytes, _ => s
      | Done, PPHdr => pp_done c s
      | Done, PLTls => start_read_request c (clear_ctx s)
      | Done, PIdle => head_done c (head_start c s)
      | Done, PHead => head_done c s
      | Done, PMPeek => start_read_request c (clear_ctx (mtls_start c s))
      | Done, PMTls => start_read_request c (clear_ctx s)
      | Done, PBody => body_done s
      | Done, _ => s
      | DoneHeadBody, PIdle => head_done_body c (head_start c s)
      | DoneHeadBody, PHead => head_done_body c s
      | DoneHeadBody, _ => s
      | DoneConnect, PIdle => connect_done c (head_start c s)
      | DoneConnect, PHead => connect_done c s
      | DoneConnect, _ => s
      | Reply, PUp => start_read_request c s
      | Reply, _ => s
      | Tick _, _ => s
      end
    end
  end.

Definition run (c : cfg) (s : st) (evs : list ev) : st := fold_left (step c) evs s.

(* ---- the limit the property names for each phase ("no limit" = None) ---- *)
Definition pos (d : Z) : option Z := if 0 <? d then Some d else None.
Definition limit (c : cfg) (p : phase) : option Z :=
  match p with
  | PPHdr => pos (if pp_timeout_closes_conn then c_pp c else 0)
  | PLTls => pos (if ltls_timeout_guarded then c_tls c else 0)
  | PIdle => pos (idle_eff c)
  | PHead => pos (rhdr_eff c)
  | PMPeek => if mitm_peek_deadline then pos (c_mitm c) else None
  | PMTls => pos (if mitm_timeout_guarded then c_mitm c else 0)
  | PBody => None   (* with ReadTimeout = 0: a slow request body is never cut *)
  | PUp | PTunnel => None
  end.

(* The limit in force in a state.  When the PROXY header is awaited lazily (its timer runs
   concurrently with the timer of the phase that follows: handshake or idle wait), a connection
   stalled in the header is closed by whichever of the two fires first. *)
Definition eff_limit (c : cfg) (s : st) : option Z :=
  match ph s with
  | PPHdr => if pp_early then limit c PPHdr else omin (limit c PPHdr) (limit c (nxt s))
  | p => limit c p
  end.

(* a client that makes no progress in phase p *)
Definition stall (p : phase) (e : ev) : bool :=
  match e with
  | Tick _ => true
  | Bytes => match p with PIdle | PMPeek => false | _ => true end
  | _ => false
  end.

(* ================= the accept loop of Serve as a sequential program =================
   for { closing?; conn := Accept(); <calls on conn before go>; go handleLoop(conn) }   *)
Record peer := mkpeer {
  p_arrive : Z;               (* when the connection reaches the accept queue *)
  p_hdr_after : option Z      (* PROXY header complete this long after it is first waited for; None = never *)
}.

(* I/O on the connection waits for the peer on any listener; the address getters and deadline
   setters of a TCP / tls / conntrack connection do not (modelled: net, crypto/tls delegate them),
   except on a proxyproto.Conn, where the extracted methods first wait for the PROXY header. *)
Definition io_methods : list str :=
  [b "Read"; b "Write"; b "ReadFrom"; b "WriteTo"; b "Handshake"; b "HandshakeContext"].
Definition conn_methods : list str :=
  [b "Close"; b "LocalAddr"; b "RemoteAddr"; b "SetDeadline"; b "SetReadDeadline"; b "SetWriteDeadline"].
Definition blocks (c : cfg) (m : str) : bool :=
  mem m io_methods || negb (mem m conn_methods) || (c_has_pp c && mem m pp_blocking_methods).
(* the obligation on the extracted call list: every call is a known non-I/O method that does
   not wait for the PROXY header (an escape of the connection into a helper is not known) *)
Definition call_never_waits (m : str) : bool :=
  negb (mem m io_methods) && mem m conn_methods && negb (mem m pp_blocking_methods).

(* how long the calls made before `go` hold the loop for this peer; None = for ever *)
Definition pre_go_wait (calls : list str) (c : cfg) (p : peer) : option Z :=
  if existsb (fun m => mem m io_methods || negb (mem m conn_methods)) calls then None
  else if existsb (blocks c) calls then
    match p_hdr_after p, pos (if pp_timeout_closes_conn then c_pp c else 0) with
    | Some x, Some L => Some (Z.max 0 (Z.min x L))
    | Some x, None => Some (Z.max 0 x)
    | None, Some L => Some L
    | None, None => None
    end
  else Some 0.

(* time at which each connection is handed to its own goroutine *)
Fixpoint serve_loop (calls : list str) (c : cfg) (free : option Z) (ps : list peer) : list (option Z) :=
  match ps with
  | [] => []
  | p :: r =>
    match free with
    | None => None :: serve_loop calls c None r
    | Some f =>
      let acc := Z.max f (p_arrive p) in
      match pre_go_wait calls c p with
      | Some w => Some (acc + w) :: serve_loop calls c (Some (acc + w)) r
      | None => None :: serve_loop calls c None r
      end
    end
  end.

Definition serve (c : cfg) (ps : list peer) : list (option Z) := serve_loop serve_pre_go_calls c (Some 0) ps.

Fixpoint arrivals_sorted (t : Z) (ps : list peer) : Prop :=
  match ps with [] => True | p :: r => t <= p_arrive p /\ arrivals_sorted (p_arrive p) r end.
