(* C15 — property theorems.  Nothing but statements, `exact`, Print Assumptions. *)
From G11 Require Import Timeouts TimeoutsCheck TimeoutsProofs Obligations.
Open Scope Z_scope.

(* A connection that makes no progress in a phase is closed exactly when the limit in force has
   elapsed since the phase was entered — after any history `pre` of the connection (any number of
   earlier requests, handshakes, partial heads), for any stalling behaviour `evs` (silence or
   trickled bytes that do not complete the unit), with the default ReadTimeout = 0.
   eff_limit is the limit of the phase (see T15_limit_in_force); only when the source awaits the
   PROXY header lazily is it the smaller of that limit and the limit of the phase that follows. *)
Theorem T15_closed_at_limit : forall c pre evs L,
  c_read c = 0 ->
  let s := run c (conn_start c) pre in
  closed s = None -> eff_limit c s = Some L -> forallb (stall (ph s)) evs = true ->
  entered s + L <= now (run c s evs) ->
  closed (run c s evs) = Some (entered s + L).
Proof. exact (fun c pre evs L Hr => closed_at_limit c Hr pre evs L). Qed.
Print Assumptions T15_closed_at_limit.

(* ... and never at any other time: if the proxy closes a stalled connection, a limit is in force
   and the close happens exactly at phase entry + limit. *)
Theorem T15_not_before : forall c pre evs t,
  c_read c = 0 ->
  let s := run c (conn_start c) pre in
  closed s = None -> forallb (stall (ph s)) evs = true ->
  closed (run c s evs) = Some t ->
  exists L, eff_limit c s = Some L /\ t = entered s + L.
Proof. exact (fun c pre evs t Hr => not_before c Hr pre evs t). Qed.
Print Assumptions T15_not_before.

(* With the source as it is (the PROXY header is awaited by the first call of the handler, before
   the handshake / request timers are started) the limit in force is the limit of the phase. *)
Theorem T15_limit_in_force : forall c s, pp_early = true -> eff_limit c s = limit c (ph s).
Proof. exact eff_limit_early. Qed.
Print Assumptions T15_limit_in_force.

(* A connection whose request has been received in full is never closed while the origin is awaited. *)
Theorem T15_upstream_never_cut : forall c pre evs,
  c_read c = 0 ->
  let s := run c (conn_start c) pre in
  closed s = None -> ph s = PUp -> forallb (stall PUp) evs = true ->
  closed (run c s evs) = None.
Proof. exact (fun c pre evs Hr => upstream_never_cut c Hr pre evs). Qed.
Print Assumptions T15_upstream_never_cut.

(* The limits of the model are the configured ones the property names, phase by phase;
   in particular every phase in which the proxy waits for the client has one. *)
Theorem T15_limits_are_the_configured_ones : forall c,
  limit c PPHdr = spec_limit c 0%N /\ limit c PLTls = spec_limit c 1%N /\
  limit c PIdle = spec_limit c 2%N /\ limit c PHead = spec_limit c 3%N /\
  limit c PMPeek = spec_limit c 5%N /\ limit c PMTls = spec_limit c 6%N /\
  limit c PUp = None /\ limit c PTunnel = None /\ limit c PBody = None.
Proof. exact ob_limits_are_the_configured_ones. Qed.
Print Assumptions T15_limits_are_the_configured_ones.

(* The accept loop: every connection is handed to its own goroutine at the moment it arrives,
   for every number of earlier peers and whatever those peers do. *)
Theorem T15_accept_never_blocks : forall c ps,
  arrivals_sorted 0 ps -> serve c ps = map (fun p => Some (p_arrive p)) ps.
Proof. exact (fun c ps => serve_loop_never_blocks serve_pre_go_calls c
                (blocks_of_never_waits c serve_pre_go_calls ob_accept_loop_calls_never_wait) ps 0). Qed.
Print Assumptions T15_accept_never_blocks.

(* The model can express the defect: with a header-reading call before `go`, one silent peer
   delays the next client by the whole PROXY-header timeout. *)
Theorem T15_model_expresses_accept_delay : forall calls c L,
  existsb (fun m => mem m io_methods || negb (mem m conn_methods)) calls = false ->
  existsb (blocks c) calls = true ->
  pos (if pp_timeout_closes_conn then c_pp c else 0) = Some L -> 0 <= L ->
  serve_loop calls c (Some 0) [mkpeer 0 None; mkpeer 0 (Some 0)] = [Some L; Some L].
Proof. exact serve_loop_blocks_witness. Qed.
Print Assumptions T15_model_expresses_accept_delay.

(* Non-vacuity: PROXY + TLS listener; header and handshake complete, first request byte at 30,
   then a trickle: closed at 30 + read-header-timeout, not earlier. *)
Example T15_example :
  let c := mkcfg 420 0 300 360 360 240 true true true in
  let pre := [Tick 10; Done; Tick 15; Done; Tick 5; Bytes] in
  let s := run c (conn_start c) pre in
  closed s = None /\ ph s = PHead /\ eff_limit c s = Some 300 /\ entered s = 30 /\
  closed (run c s [Tick 100; Bytes; Tick 199]) = None /\
  closed (run c s [Tick 100; Bytes; Tick 250; Bytes]) = Some 330.
Proof. exact (conj eq_refl (conj eq_refl (conj eq_refl (conj eq_refl (conj eq_refl eq_refl))))). Qed.
