(* C15 — property theorems.  Nothing but statements, `exact`, Print Assumptions. *)
From G11 Require Import Timeouts RateLimit TimeoutsCheck TimeoutsProofs TimeoutsGeneral TimeoutsHandshake Obligations.
Open Scope Z_scope.

(* A connection that makes no progress in a phase is closed exactly when the limit in force has
   elapsed since the phase was entered — after any history `pre` of the connection (any number of
   earlier requests, handshakes, partial heads), for any stalling behaviour `evs` (silence or
   trickled bytes that do not complete the unit), with the default ReadTimeout = 0.
   eff_limit is the limit of the phase (see T15_limit_in_force); only when the source awaits the
   PROXY header lazily is it the smaller of that limit and the limit of the phase that follows. *)
Theorem T15_closed_at_limit : forall c pre evs L,
  c_read c = 0 ->
  let s := run c (conn_start c) pre in
  closed s = None -> eff_limit c s = Some L -> forallb (stall (ph s)) evs = true ->
  entered s + L <= now (run c s evs) ->
  closed (run c s evs) = Some (entered s + L).
Proof. exact (fun c pre evs L Hr => closed_at_limit c Hr pre evs L). Qed.
Print Assumptions T15_closed_at_limit.

(* ... and never at any other time: if the proxy closes a stalled connection, a limit is in force
   and the close happens exactly at phase entry + limit. *)
Theorem T15_not_before : forall c pre evs t,
  c_read c = 0 ->
  let s := run c (conn_start c) pre in
  closed s = None -> forallb (stall (ph s)) evs = true ->
  closed (run c s evs) = Some t ->
  exists L, eff_limit c s = Some L /\ t = entered s + L.
Proof. exact (fun c pre evs t Hr => not_before c Hr pre evs t). Qed.
Print Assumptions T15_not_before.

(* With the source as it is (the PROXY header is awaited by the first call of the handler, before
   the handshake / request timers are started) the limit in force is the limit of the phase. *)
Theorem T15_limit_in_force : forall c s, pp_early = true -> eff_limit c s = limit c (ph s).
Proof. exact eff_limit_early. Qed.
Print Assumptions T15_limit_in_force.

(* A connection whose request has been received in full is never closed while the origin is awaited. *)
Theorem T15_upstream_never_cut : forall c pre evs,
  c_read c = 0 ->
  let s := run c (conn_start c) pre in
  closed s = None -> ph s = PUp -> forallb (stall PUp) evs = true ->
  closed (run c s evs) = None.
Proof. exact (fun c pre evs Hr => upstream_never_cut c Hr pre evs). Qed.
Print Assumptions T15_upstream_never_cut.

(* ---- every configuration, in particular ReadTimeout > 0 (whole-request deadline) ---- *)

(* "... nor at all merely because the origin is slow": in ANY state (reachable or not) and for ANY
   configuration, a connection whose request has been received in full (or that is a tunnel) is never
   closed while time passes: the whole-request deadline t0 + ReadTimeout stays armed on the socket, but
   nothing reads from the client, so it closes nothing however long the origin takes. *)
Theorem T15_slow_origin_never_cut_any_config : forall c s evs,
  closed s = None -> (ph s = PUp \/ ph s = PTunnel) -> forallb (stall (ph s)) evs = true ->
  closed (run c s evs) = None.
Proof. exact slow_origin_never_cut. Qed.
Print Assumptions T15_slow_origin_never_cut_any_config.

(* The whole-request deadline D = (first byte of the request) + ReadTimeout, after any history, for a
   request whose body is outstanding: nothing happens to the connection before D; when D is reached
   the exchange is aborted (the client is sent an error response) and the connection is NOT closed:
   the handler is back in the idle wait, entered at D, and a silent client is closed idle-timeout
   later.  With ReadTimeout <= 0 an outstanding body is waited for indefinitely. *)
Theorem T15_whole_request_deadline : forall c pre evs d,
  let s := run c (conn_start c) pre in
  closed s = None -> ph s = PBody -> forallb (stall PBody) evs = true ->
  (c_read c <= 0 -> closed (run c s evs) = None) /\
  (0 < c_read c -> let s1 := run c s evs in let D := t0 s + c_read c in
     now s1 < D ->
     closed s1 = None /\ ph s1 = PBody /\
     (D <= now s1 + d ->
        let s2 := step c s1 (Tick d) in
        ph s2 = PIdle /\ entered s2 = D /\
        match closed s2 with
        | None => idle_eff c <= 0 \/ now s1 + d < D + idle_eff c
        | Some t => 0 < idle_eff c /\ t = D + idle_eff c
        end)).
Proof. exact body_deadline. Qed.
Print Assumptions T15_whole_request_deadline.

(* Head and idle limits for every configuration: first byte + read-header-timeout (ReadTimeout when
   that is 0), phase entry + idle-timeout (ReadTimeout when that is 0); no limit when both are 0. *)
Theorem T15_head_and_idle_deadline_any_config : forall c pre evs,
  let s := run c (conn_start c) pre in
  closed s = None ->
  (ph s = PHead -> forallb (stall PHead) evs = true ->
     (rhdr_eff c <= 0 -> closed (run c s evs) = None) /\
     (0 < rhdr_eff c -> now s < t0 s + rhdr_eff c ->
        (closed (run c s evs) = None /\ now (run c s evs) < t0 s + rhdr_eff c) \/
        (closed (run c s evs) = Some (t0 s + rhdr_eff c) /\ t0 s + rhdr_eff c <= now (run c s evs)))) /\
  (ph s = PIdle -> forallb (stall PIdle) evs = true ->
     (idle_eff c <= 0 -> closed (run c s evs) = None) /\
     (0 < idle_eff c -> now s < entered s + idle_eff c ->
        (closed (run c s evs) = None /\ now (run c s evs) < entered s + idle_eff c) \/
        (closed (run c s evs) = Some (entered s + idle_eff c) /\ entered s + idle_eff c <= now (run c s evs)))).
Proof. exact (fun c pre evs Hc => conj (fun Hp Hs => head_deadline c pre evs Hc Hp Hs) (fun Hp Hs => idle_deadline c pre evs Hc Hp Hs)). Qed.
Print Assumptions T15_head_and_idle_deadline_any_config.

(* The remaining client-wait phases for every configuration: the listener TLS handshake, the MITM wait
   for the client hello, the MITM handshake and the PROXY header.  After any history, for any stalling
   behaviour, whatever ReadTimeout is: closed exactly when the phase's own limit has elapsed since the
   phase was entered, never before, never if the limit is 0.  In particular the whole-request deadline
   t0 + ReadTimeout that is armed when a CONNECT head is complete cannot cut a MITM handshake short
   (ob_mitm_replaces_read_deadline: handleMITM replaces it, then clears it). *)
Theorem T15_handshake_limits_any_config : forall c pre evs,
  let s := run c (conn_start c) pre in
  let exact d :=
    (d <= 0 -> closed (run c s evs) = None) /\
    (0 < d -> now s < entered s + d ->
       (closed (run c s evs) = None /\ now (run c s evs) < entered s + d) \/
       (closed (run c s evs) = Some (entered s + d) /\ entered s + d <= now (run c s evs))) in
  closed s = None -> forallb (stall (ph s)) evs = true ->
  (ph s = PLTls -> exact (tls_dur c)) /\ (ph s = PMPeek -> exact (c_mitm c)) /\
  (ph s = PMTls -> exact (mitm_dur c)) /\ (ph s = PPHdr -> exact (pp_dur c)) /\
  limit c PLTls = pos (tls_dur c) /\ limit c PMPeek = pos (c_mitm c) /\
  limit c PMTls = pos (mitm_dur c) /\ limit c PPHdr = pos (pp_dur c).
Proof.
  exact (fun c pre evs Hc Hs =>
    match handshake_deadline c pre evs Hc Hs, handshake_durations c with
    | conj A (conj B (conj C D)), conj L1 (conj L2 (conj L3 L4)) =>
        conj A (conj (fun H => B H ob_mitm_replaces_read_deadline)
          (conj (fun H => C H ob_mitm_replaces_read_deadline)
            (conj (fun H => D H ob_pp_awaited_first)
              (conj L1 (conj (L4 ob_mitm_replaces_read_deadline) (conj L2 L3))))))
    end).
Qed.
Print Assumptions T15_handshake_limits_any_config.

(* The limits of the model are the configured ones the property names, phase by phase;
   in particular every phase in which the proxy waits for the client has one. *)
Theorem T15_limits_are_the_configured_ones : forall c,
  limit c PPHdr = spec_limit c 0%N /\ limit c PLTls = spec_limit c 1%N /\
  limit c PIdle = spec_limit c 2%N /\ limit c PHead = spec_limit c 3%N /\
  limit c PMPeek = spec_limit c 5%N /\ limit c PMTls = spec_limit c 6%N /\
  limit c PUp = None /\ limit c PTunnel = None /\ limit c PBody = None.
Proof. exact ob_limits_are_the_configured_ones. Qed.
Print Assumptions T15_limits_are_the_configured_ones.

(* The accept loop: every connection is handed to its own goroutine at the moment it arrives,
   for every number of earlier peers and whatever those peers do. *)
Theorem T15_accept_never_blocks : forall c ps,
  arrivals_sorted 0 ps -> serve c ps = map (fun p => Some (p_arrive p)) ps.
Proof. exact (fun c ps => serve_loop_never_blocks serve_pre_go_calls c
                (blocks_of_never_waits c serve_pre_go_calls ob_accept_loop_calls_never_wait) ps 0). Qed.
Print Assumptions T15_accept_never_blocks.

(* The model can express the defect: with a header-reading call before `go`, one silent peer
   delays the next client by the whole PROXY-header timeout. *)
Theorem T15_model_expresses_accept_delay : forall calls c L,
  existsb (fun m => mem m io_methods || negb (mem m conn_methods)) calls = false ->
  existsb (blocks c) calls = true ->
  pos (if pp_timeout_closes_conn then c_pp c else 0) = Some L -> 0 <= L ->
  serve_loop calls c (Some 0) [mkpeer 0 None; mkpeer 0 (Some 0)] = [Some L; Some L].
Proof. exact serve_loop_blocks_witness. Qed.
Print Assumptions T15_model_expresses_accept_delay.

(* A rate-limited listener (--read-limit / --write-limit): all its connections draw on one token bucket.
   Connections parked in Read hold no tokens: for every rate and burst size, every bucket level, and every
   history evs of the bucket - time passing, completed reads and writes of other connections, and any
   number of peers parking in Read anywhere in between - the level, and therefore the time any client's
   WaitN(n) has to wait, is the same as in the history with the parked peers removed. *)
Theorem T15_parked_peers_hold_no_tokens : forall rate burst evs lvl n,
  level rate burst ratelimit_read_prog evs lvl = level rate burst ratelimit_read_prog (without_parked evs) lvl /\
  wait_ms rate (level rate burst ratelimit_read_prog evs lvl) n =
  wait_ms rate (level rate burst ratelimit_read_prog (without_parked evs) lvl) n.
Proof.
  exact (fun rate burst evs lvl n =>
    conj (parked_invisible rate burst _ ob_parked_reader_holds_no_tokens evs lvl)
         (probe_wait_independent rate burst _ ob_parked_reader_holds_no_tokens evs lvl n)).
Qed.
Print Assumptions T15_parked_peers_hold_no_tokens.

(* The model can express the defect: if the limiter is charged before the Read (for the buffer), N parked
   peers take N buffers out of the bucket; with forwarder's 4 MiB burst, 64 KiB/s and a 4 KiB read buffer,
   1100 silent peers make a fresh client wait 4.7 s for its first 256 bytes. *)
Theorem T15_model_expresses_token_starvation :
  (forall rate burst prog buf n lvl, 0 <= buf -> park_cost prog buf = buf ->
     level rate burst prog (repeat (RPark buf) n) lvl = lvl - Z.of_nat n * buf) /\
  parked_delay [b "c.rxLimiter.WaitN(waitContext, len(b))"; b "c.Conn.Read(b)"] 65536 1100 256 = 4754 /\
  parked_delay ratelimit_read_prog 65536 1100 256 = 0.
Proof.
  exact (conj (fun rate burst prog buf n lvl Hb Hp => parked_cost_prepaid rate burst prog buf Hb Hp n lvl)
          (conj eq_refl (parked_delay_zero _ 65536 1100 256 ob_parked_reader_holds_no_tokens (conj (proj1 (Z.leb_le 0 256) eq_refl) (proj1 (Z.leb_le 256 4194304) eq_refl))))).
Qed.
Print Assumptions T15_model_expresses_token_starvation.

(* Non-vacuity: PROXY + TLS listener; header and handshake complete, first request byte at 30,
   then a trickle: closed at 30 + read-header-timeout, not earlier. *)
Example T15_example :
  let c := mkcfg 420 0 300 360 360 240 true true true in
  let pre := [Tick 10; Done; Tick 15; Done; Tick 5; Bytes] in
  let s := run c (conn_start c) pre in
  closed s = None /\ ph s = PHead /\ eff_limit c s = Some 300 /\ entered s = 30 /\
  closed (run c s [Tick 100; Bytes; Tick 199]) = None /\
  closed (run c s [Tick 100; Bytes; Tick 250; Bytes]) = Some 330.
Proof. exact (conj eq_refl (conj eq_refl (conj eq_refl (conj eq_refl (conj eq_refl eq_refl))))). Qed.

(* ... and with ReadTimeout = 350 < tls-handshake-timeout = 500 on a MITM listener: the CONNECT head is
   complete at 40 (whole-request deadline 10 + 350 = 360 armed), the client then stalls 5 bytes into its
   hello: cut at 45 + 500, not at 360. *)
Example T15_example_mitm_read_timeout :
  let c := mkcfg 420 350 250 500 500 200 false false true in
  let pre := [Tick 10; Bytes; Tick 30; DoneConnect; Tick 5; Bytes] in
  let s := run c (conn_start c) pre in
  closed s = None /\ ph s = PMTls /\ entered s = 45 /\
  closed (run c s [Tick 400; Bytes]) = None /\ closed (run c s [Tick 400; Bytes; Tick 200]) = Some 545.
Proof. exact (conj eq_refl (conj eq_refl (conj eq_refl (conj eq_refl eq_refl)))). Qed.
