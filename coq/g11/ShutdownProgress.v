(* C11 — progress: the LTS has no deadlock.  From every reachable state there is a schedule — in
   which the environment withholds nothing (the context expires, clients go away, the origin answers)
   — that releases connsMu and lets EVERY handler run to its end; the counter is then zero and the
   registry empty.  In particular Shutdown holding connsMu for its whole duration can never block
   the handlers for ever (their registration / deletion wait for it, and it can always leave:
   through the counter reaching zero or through its context). *)
From G11 Require Import Shutdown ShutdownProofs.
Open Scope Z_scope.

Lemma runf_app ls1 : forall g g1 ls2, runf g ls1 = Some g1 -> runf g (ls1 ++ ls2) = runf g1 ls2.
Proof.
  induction ls1 as [|l r IH]; intros g g1 ls2 H; cbn in *.
  - inversion H. reflexivity.
  - destruct (stepf g l) as [g'|]; [|discriminate]. apply IH. assumption.
Qed.

Lemma reach_run g ls g' : reach g -> runf g ls = Some g' -> reach g'.
Proof. intros (l0 & H0) H. exists (l0 ++ ls). rewrite (runf_app _ _ _ _ H0). assumption. Qed.

(* ---------- Close's list of connections still to close is part of the registry ---------- *)
Definition todo_ok (g : gst) : Prop := forall todo, cl g = ClHolding todo -> forall i, In i todo -> In i (regs g).

Lemma In_remove_nat_weak i j l : In j (remove_nat i l) -> In j l.
Proof.
  induction l as [|x l IH]; cbn; [tauto|]. destruct (Nat.eqb x i); [tauto|]. cbn. tauto.
Qed.

Lemma todo_step g l g' : Inv g -> todo_ok g -> stepf g l = Some g' -> todo_ok g'.
Proof.
  intros HI Ht Hs. pose proof (inv_lock g HI) as Hlock.
  assert (Hframe : cl g' = cl g -> regs g' = regs g -> todo_ok g').
  { intros E1 E2 todo Hc i Hi. rewrite E2. rewrite E1 in Hc. eauto. }
  destruct l; cbn [stepf label_conn] in Hs;
    try (destruct (getc g i) as [c|] eqn:Hg; [|discriminate];
         match type of Hs with
         | option_map _ (hstep _ _ ?lab) = _ =>
             destruct (hstep (closing g) c lab) as [c'|]; [|discriminate]; inv_some Hs; apply Hframe; reflexivity
         end).
  all: try (break_match Hs; inv_some Hs; apply Hframe; reflexivity).
  - (* TRegister *) destruct (getc g i) as [c|] eqn:Hg; [|discriminate]. break_match Hs. inv_some Hs.
    intros td Hc j Hj. cbn in *. right. eauto.
  - (* SockCloseC *) destruct (getc g i) as [c|] eqn:Hg; [|discriminate]. break_match Hs. inv_some Hs.
    intros td Hc j Hj. cbn in *. inv_some Hc. apply In_remove_nat_weak in Hj. eauto.
  - (* TDelete *) destruct (getc g i) as [c|] eqn:Hg; [|discriminate]. break_match Hs. inv_some Hs.
    intros td Hc j Hj. cbn in *. exfalso.
    destruct (lock_not_holding g Hlock) as [Hn _]; [assumption|]. eapply Hn; eassumption.
  - break_match Hs; inv_some Hs; intros td Hc j Hj; cbn in *; try discriminate; try (inv_some Hc; assumption).
  - break_match Hs; inv_some Hs; intros td Hc j Hj; cbn in *; try discriminate; try (inv_some Hc; assumption).
  - break_match Hs; inv_some Hs; intros td Hc j Hj; cbn in *; try discriminate; try (inv_some Hc; assumption).
  - break_match Hs; inv_some Hs; intros td Hc j Hj; cbn in *; try discriminate; try (inv_some Hc; assumption).
Qed.

Lemma todo_run ls : forall g g', Inv g -> todo_ok g -> runf g ls = Some g' -> todo_ok g'.
Proof.
  induction ls as [|l r IH]; intros g g' HI Ht H; cbn in H.
  - inv_some H. assumption.
  - destruct (stepf g l) as [g1|] eqn:E; [|discriminate].
    eapply IH; [eapply inv_step; eauto|eapply todo_step; eauto|eassumption].
Qed.

Lemma todo_reach g : reach g -> todo_ok g.
Proof.
  intros (ls & H). eapply todo_run; [apply inv_g0| |eassumption]. intros todo Hc. cbn in Hc. discriminate.
Qed.

(* ---------- 1. whoever holds connsMu can let go ---------- *)
Definition same_conns (g g' : gst) : Prop := conns g' = conns g \/ True.

Lemma close_loop_finishes todo : forall g,
  cl g = ClHolding todo -> (forall i, In i todo -> exists c, getc g i = Some c) ->
  exists ls g', runf g ls = Some g' /\ cl g' = ClHolding [] /\ length (conns g') = length (conns g) /\ mu g' = mu g.
Proof.
  induction todo as [|i todo IH]; intros g Hc Hall.
  - exists [], g. cbn. auto.
  - destruct (Hall i (or_introl eq_refl)) as (c & Hg).
    set (g1 := mkg (closing g) (mu g) (cnt g) (regs g) (upd (conns g) i (mark_closed c)) (sd g)
                   (ClHolding todo) (sv g) (lopen g) (ctx_exp g)).
    assert (Hs : stepf g (SockCloseC i) = Some g1).
    { cbn [stepf]. rewrite Hg, Hc. cbn [mem_nat remove_nat]. rewrite Nat.eqb_refl. reflexivity. }
    destruct (IH g1 eq_refl) as (ls & g' & Hr & Hc' & Hl & Hm).
    { intros j Hj. unfold getc, g1; cbn. destruct (Hall j (or_intror Hj)) as (cj & Hgj).
      destruct (Nat.eq_dec i j) as [->|Hne].
      - rewrite (nth_upd_same _ _ _ _ Hg). eauto.
      - rewrite (nth_upd_other _ _ _ _ Hne). eauto. }
    exists (SockCloseC i :: ls), g'. cbn [runf]. rewrite Hs. split; [assumption|]. split; [assumption|].
    unfold g1 in Hl, Hm. cbn in Hl, Hm. rewrite upd_length in Hl. auto.
Qed.

Lemma lock_released g :
  reach g -> exists ls g', runf g ls = Some g' /\ mu g' = None.
Proof.
  intros Hr. pose proof (inv_reach g Hr) as HI. destruct (inv_lock g HI) as (L1 & L2 & _).
  destruct (mu g) as [[|]|] eqn:Emu.
  - (* Shutdown holds it: its context expires and it returns *)
    assert (Hsd : sd g = SdHolding) by (apply L1; reflexivity).
    exists [CtxExpire; TSdOut false]. eexists. cbn. rewrite Hsd. cbn. split; reflexivity.
  - (* Close holds it: it finishes its loop *)
    destruct (proj1 L2 eq_refl) as (todo & Hc).
    destruct (close_loop_finishes todo g Hc) as (ls & g1 & Hr1 & Hc1 & _ & _).
    { intros i Hi. apply (todo_reach g Hr todo Hc) in Hi. apply (inv_regs g HI) in Hi as (c & Hg & _). eauto. }
    exists (ls ++ [TClOut]). eexists. rewrite (runf_app _ _ _ _ Hr1). cbn. rewrite Hc1. split; reflexivity.
  - exists [], g. cbn. auto.
Qed.

(* ---------- 2. with connsMu free, a handler can always take a step towards its end ---------- *)
Definition rank (p : cpc) : nat :=
  match p with
  | CAcc => 16 | CReg => 15 | CAddr => 14 | CRead => 13 | CChecked => 12 | CFwd => 11 | CResp => 10
  | CWriting _ => 9 | CWriting2 _ => 8 | CHead => 7 | CWait => 6 | CExit => 3 | CClosed => 2 | CDec => 1 | CDone => 0
  end%nat.

(* the step chosen: the environment cooperates (the client goes away / the origin answers) *)
Definition next_label (i : nat) (c : cst) : label :=
  match pc c with
  | CAcc => TRegister i
  | CReg => Addr i
  | CAddr => TChkConn i
  | CWait => if hs c then THsFail i else ReqRead i RErr
  | CHead => ReqRead i RErr
  | CRead => TChkReq i
  | CChecked => Fwd i
  | CFwd => RTLeave i
  | CResp => TDecide i
  | CWriting _ => WrCall i
  | CWriting2 b => if is_connect c then (if b then TConnRefuse i else Wrote i false false) else Wrote i b false
  | CExit => SockClose i
  | CClosed => TDec i
  | CDec => TDelete i
  | CDone => CntIs 0
  end.

Definition others_same (i : nat) (g g' : gst) : Prop :=
  length (conns g') = length (conns g) /\ forall j, j <> i -> getc g' j = getc g j.

Ltac fin g i Hset X :=
  let A := fresh in let B := fresh in let C := fresh in
  exists (setc g i X), X; destruct (Hset X) as (A & B & C);
  (split; [reflexivity|]); (split; [exact B|]); (split; [cbn; try lia|]); (split; [reflexivity|]); (split; [reflexivity|exact A]).

Lemma one_step g i c :
  (mu g = None \/ (pc c <> CAcc /\ pc c <> CDec)) -> getc g i = Some c -> pc c <> CDone ->
  exists g' c', stepf g (next_label i c) = Some g' /\ getc g' i = Some c' /\
                (rank (pc c') < rank (pc c))%nat /\ mu g' = mu g /\ sd g' = sd g /\ others_same i g g'.
Proof.
  intros Hmu0 Hg Hnd.
  assert (Hmu : pc c = CAcc \/ pc c = CDec -> mu g = None).
  { intros H. destruct Hmu0 as [H0|[H1 H2]]; [assumption|]. destruct H; contradiction. }
  assert (Hset : forall c', others_same i g (setc g i c') /\ getc (setc g i c') i = Some c' /\ True).
  { intros c'. split; [|split].
    - split; [cbn; apply upd_length|]. intros j Hne. apply getc_setc_other. congruence.
    - eapply getc_setc_same; eauto.
    - exact I. }
  assert (Hupd : forall G c', conns G = upd (conns g) i c' -> True ->
            others_same i g G /\ getc G i = Some c' /\ True).
  { intros G c' HG HM. split; [|split; [|assumption]].
    - split; [rewrite HG; apply upd_length|]. intros j Hne. unfold getc. rewrite HG. apply nth_upd_other. congruence.
    - unfold getc. rewrite HG. eapply nth_upd_same; eauto. }
  unfold next_label.
  destruct (pc c) eqn:Ep; try contradiction.
  - (* CAcc *) specialize (Hmu (or_introl eq_refl)). eexists. exists (set_pc c CReg). cbn [stepf]. rewrite Hg, Hmu, Ep.
    destruct (Hupd (mkg (closing g) None (cnt g + 1) (i :: regs g) (upd (conns g) i (set_pc c CReg)) (sd g) (cl g) (sv g) (lopen g) (ctx_exp g))
                   (set_pc c CReg) eq_refl I) as (A & B & C).
    split; [reflexivity|]. split; [exact B|]. split; [cbn; lia|]. split; [reflexivity|]. split; [reflexivity|assumption].
  - (* CReg *) cbn [stepf label_conn]. rewrite Hg. unfold hstep. rewrite Ep. cbn [option_map]. fin g i Hset (set_pc c CAddr).
  - (* CAddr *) cbn [stepf label_conn]. rewrite Hg. unfold hstep. rewrite Ep. destruct (closing g); cbn [option_map].
    + fin g i Hset (set_pc c CExit).
    + fin g i Hset (mkc CWait (acc_closing c) (fb_closing c) true (sock_closed c) (client_gone c) (is_connect c) (hs c) (nreq c)).
  - (* CWait *) destruct (hs c) eqn:Eh; cbn [stepf label_conn]; rewrite Hg; unfold hstep; rewrite Ep, Eh; cbn [option_map];
      fin g i Hset (set_pc c CExit).
  - (* CHead *) cbn [stepf label_conn]. rewrite Hg. unfold hstep. rewrite Ep. cbn [option_map]. fin g i Hset (set_pc c CExit).
  - (* CRead *) cbn [stepf label_conn]. rewrite Hg. unfold hstep. rewrite Ep. destruct (closing g); cbn [option_map].
    + fin g i Hset (set_pc c CExit).
    + fin g i Hset (set_pc c CChecked).
  - (* CChecked *) cbn [stepf label_conn]. rewrite Hg. unfold hstep. rewrite Ep. cbn [option_map].
    fin g i Hset (mkc CFwd (acc_closing c) (fb_closing c) (served c) (sock_closed c) (client_gone c) (is_connect c) (hs c) (nreq c + 1)%N).
  - (* CFwd *) cbn [stepf label_conn]. rewrite Hg. unfold hstep. rewrite Ep. cbn [option_map]. fin g i Hset (set_pc c CResp).
  - (* CResp *) cbn [stepf label_conn]. rewrite Hg. unfold hstep. rewrite Ep. cbn [option_map]. fin g i Hset (set_pc c (CWriting (closing g))).
  - (* CWriting *) cbn [stepf label_conn]. rewrite Hg. unfold hstep. rewrite Ep. cbn [option_map]. fin g i Hset (set_pc c (CWriting2 b)).
  - (* CWriting2 *) destruct (is_connect c) eqn:Ei; [destruct b|]; cbn [stepf label_conn]; rewrite Hg; unfold hstep; rewrite Ep, ?Ei;
      cbn [negb andb orb Bool.eqb option_map].
    + fin g i Hset (set_pc c CExit).
    + fin g i Hset (set_pc c CExit).
    + rewrite Bool.eqb_reflx. cbn [negb andb orb option_map].
      destruct b; cbn [orb].
      * fin g i Hset (set_pc c CExit).
      * fin g i Hset (set_pc c CWait).
  - (* CExit *) cbn [stepf]. rewrite Hg. unfold hstep. rewrite Ep. cbn [option_map].
    fin g i Hset (mkc CClosed (acc_closing c) (fb_closing c) (served c) true (client_gone c) (is_connect c) (hs c) (nreq c)).
  - (* CClosed *) eexists. exists (set_pc c CDec). cbn [stepf]. rewrite Hg, Ep.
    destruct (Hupd (mkg (closing g) (mu g) (cnt g - 1) (regs g) (upd (conns g) i (set_pc c CDec)) (sd g) (cl g) (sv g) (lopen g) (ctx_exp g))
                   (set_pc c CDec) eq_refl I) as (A & B & C).
    split; [reflexivity|]. split; [exact B|]. split; [cbn; lia|]. split; [reflexivity|]. split; [reflexivity|assumption].
  - (* CDec *) specialize (Hmu (or_intror eq_refl)). eexists. exists (set_pc c CDone). cbn [stepf]. rewrite Hg, Hmu, Ep.
    destruct (Hupd (mkg (closing g) None (cnt g) (remove_nat i (regs g)) (upd (conns g) i (set_pc c CDone)) (sd g) (cl g) (sv g) (lopen g) (ctx_exp g))
                   (set_pc c CDone) eq_refl I) as (A & B & C).
    split; [reflexivity|]. split; [exact B|]. split; [cbn; lia|]. split; [reflexivity|]. split; [reflexivity|assumption].
Qed.

Lemma cpc_acc_dec (p : cpc) : {p = CAcc} + {p <> CAcc}.
Proof. destruct p; (left; reflexivity) || (right; discriminate). Qed.

Lemma cpc_done_dec (p : cpc) : {p = CDone} + {p <> CDone}.
Proof. destruct p; (left; reflexivity) || (right; discriminate). Qed.

(* one handler runs to its end, nobody else moves *)
Lemma handler_finishes n : forall g i c,
  (rank (pc c) <= n)%nat -> mu g = None -> getc g i = Some c ->
  exists ls g' c', runf g ls = Some g' /\ getc g' i = Some c' /\ pc c' = CDone /\ mu g' = None /\ others_same i g g'.
Proof.
  induction n as [|n IH]; intros g i c Hr Hmu Hg.
  - exists [], g, c. cbn. repeat split; auto. destruct (pc c); cbn in Hr; try lia. reflexivity.
  - destruct (cpc_done_dec (pc c)) as [Hd|Hd].
    + exists [], g, c. cbn. repeat split; auto.
    + destruct (one_step g i c (or_introl Hmu) Hg Hd) as (g1 & c1 & Hs & Hg1 & Hlt & Hmu1 & _ & Hl1 & Ho1).
      rewrite Hmu in Hmu1.
      destruct (IH g1 i c1 ltac:(lia) Hmu1 Hg1) as (ls & g' & c' & Hrun & Hg' & Hp & Hmu' & Hl' & Ho').
      exists (next_label i c :: ls), g', c'. cbn [runf]. rewrite Hs.
      repeat split; try assumption; try lia. intros j Hne. rewrite Ho', Ho1; auto.
Qed.

(* all handlers, one after the other *)
Lemma all_finish n : forall g,
  mu g = None -> (n <= length (conns g))%nat ->
  exists ls g', runf g ls = Some g' /\ mu g' = None /\ length (conns g') = length (conns g) /\
    (forall j c, (j < n)%nat -> getc g' j = Some c -> pc c = CDone) /\
    (forall j, (n <= j)%nat -> getc g' j = getc g j).
Proof.
  induction n as [|n IH]; intros g Hmu Hn.
  - exists [], g. cbn. repeat split; auto. intros j c Hj. lia.
  - destruct (IH g Hmu ltac:(lia)) as (ls1 & g1 & Hr1 & Hmu1 & Hl1 & Hd1 & Hs1).
    destruct (nth_error (conns g1) n) as [c|] eqn:Hc.
    2:{ apply nth_error_None in Hc. lia. }
    destruct (handler_finishes 16 g1 n c) as (ls2 & g2 & c2 & Hr2 & Hg2 & Hp2 & Hmu2 & Hl2 & Ho2); auto.
    { destruct (pc c); cbn; lia. }
    exists (ls1 ++ ls2), g2. rewrite (runf_app _ _ _ _ Hr1). repeat split; try assumption; try lia.
    + intros j cj Hj Hgj. destruct (Nat.eq_dec j n) as [->|Hne].
      * rewrite Hg2 in Hgj. inv_some Hgj. assumption.
      * rewrite (Ho2 j Hne) in Hgj. apply (Hd1 j cj); [lia|assumption].
    + intros j Hj. rewrite (Ho2 j ltac:(lia)). apply Hs1. lia.
Qed.

(* ---------- the theorems ---------- *)
Theorem no_deadlock g :
  reach g ->
  exists ls g', runf g ls = Some g' /\
    (forall i c, getc g' i = Some c -> pc c = CDone) /\ cnt g' = 0 /\ regs g' = [] /\ mu g' = None.
Proof.
  intros Hr. destruct (lock_released g Hr) as (ls0 & g0' & Hr0 & Hmu0).
  destruct (all_finish (length (conns g0')) g0' Hmu0 (le_n _)) as (ls1 & g1 & Hr1 & Hmu1 & Hl1 & Hd1 & _).
  exists (ls0 ++ ls1), g1. rewrite (runf_app _ _ _ _ Hr0). split; [assumption|].
  assert (Hall : forall i c, getc g1 i = Some c -> pc c = CDone).
  { intros i c Hg. apply (Hd1 i c); [|assumption]. rewrite <- Hl1. eapply getc_lt; eauto. }
  assert (Hr' : reach g1). { eapply reach_run; [|eassumption]. eapply reach_run; eassumption. }
  destruct (counter_balanced g1 Hr') as (_ & _ & Hz). destruct (Hz Hall) as (Hc & Hrg).
  repeat split; assumption.
Qed.

(* Shutdown's drain can succeed: while it holds connsMu (so that no handler can register or delete
   its entry), every registered handler can still run up to its counter decrement, after which the
   poll finds the counter at zero and Shutdown returns nil — no context expiry is needed. *)
Lemma cpc_dec_dec (p : cpc) : {p = CDec} + {p <> CDec}.
Proof. destruct p; (left; reflexivity) || (right; discriminate). Qed.

Lemma rank_le_16 p : (rank p <= 16)%nat.
Proof. destruct p; cbn; lia. Qed.

Lemma handler_to_dec n : forall g i c,
  (rank (pc c) <= n)%nat -> getc g i = Some c -> pc c <> CAcc ->
  exists ls g' c', runf g ls = Some g' /\ getc g' i = Some c' /\ (pc c' = CDec \/ pc c' = CDone) /\
                   mu g' = mu g /\ sd g' = sd g /\ others_same i g g'.
Proof.
  induction n as [|n IH]; intros g i c Hr Hg Hna.
  - exists [], g, c. cbn. repeat split; auto. destruct (pc c); cbn in Hr; try lia. right; reflexivity.
  - destruct (cpc_done_dec (pc c)) as [Hd|Hd]; [exists [], g, c; cbn; repeat split; auto|].
    destruct (cpc_dec_dec (pc c)) as [Hd2|Hd2]; [exists [], g, c; cbn; repeat split; auto|].
    destruct (one_step g i c (or_intror (conj Hna Hd2)) Hg Hd) as (g1 & c1 & Hs & Hg1 & Hlt & Hmu1 & Hsd1 & Hl1 & Ho1).
    assert (Hna1 : pc c1 <> CAcc).
    { intros E. rewrite E in Hlt. cbn in Hlt. pose proof (rank_le_16 (pc c)). lia. }
    destruct (IH g1 i c1 ltac:(lia) Hg1 Hna1) as (ls & g' & c' & Hrun & Hg' & Hp & Hmu' & Hsd' & Hl' & Ho').
    exists (next_label i c :: ls), g', c'. cbn [runf]. rewrite Hs.
    repeat split; try assumption; try congruence; try lia.
    intros j Hne. rewrite Ho', Ho1; auto.
Qed.

(* every registered handler up to its decrement, whoever holds connsMu *)
Lemma all_to_dec n : forall g,
  (n <= length (conns g))%nat ->
  exists ls g', runf g ls = Some g' /\ mu g' = mu g /\ sd g' = sd g /\ length (conns g') = length (conns g) /\
    (forall j c, (j < n)%nat -> getc g' j = Some c -> counted (pc c) = false) /\
    (forall j, (n <= j)%nat -> getc g' j = getc g j).
Proof.
  induction n as [|n IH]; intros g Hn.
  - exists [], g. cbn. repeat split; auto. intros j c Hj. lia.
  - destruct (IH g ltac:(lia)) as (ls1 & g1 & Hr1 & Hmu1 & Hsd1 & Hl1 & Hd1 & Hs1).
    destruct (nth_error (conns g1) n) as [c|] eqn:Hc.
    2:{ apply nth_error_None in Hc. lia. }
    destruct (cpc_acc_dec (pc c)) as [Ha|Ha].
    + (* not registered yet: it does not count, and it stays where it is *)
      exists ls1, g1. repeat split; try assumption.
      * intros j cj Hj Hgj. destruct (Nat.eq_dec j n) as [->|Hne].
        -- unfold getc in Hgj. rewrite Hc in Hgj. inv_some Hgj. rewrite Ha. reflexivity.
        -- apply (Hd1 j cj); [lia|assumption].
      * intros j Hj. apply Hs1. lia.
    + destruct (handler_to_dec 16 g1 n c (rank_le_16 _) Hc Ha) as (ls2 & g2 & c2 & Hr2 & Hg2 & Hp2 & Hmu2 & Hsd2 & Hl2 & Ho2).
      exists (ls1 ++ ls2), g2. rewrite (runf_app _ _ _ _ Hr1). repeat split; try congruence; try lia.
      * intros j cj Hj Hgj. destruct (Nat.eq_dec j n) as [->|Hne].
        -- rewrite Hg2 in Hgj. inv_some Hgj. destruct Hp2 as [E|E]; rewrite E; reflexivity.
        -- rewrite (Ho2 j Hne) in Hgj. apply (Hd1 j cj); [lia|assumption].
      * intros j Hj. rewrite (Ho2 j ltac:(lia)). apply Hs1. lia.
Qed.

Theorem drain_can_succeed g :
  reach g -> sd g = SdHolding ->
  exists ls g', runf g ls = Some g' /\ sd g' = SdDone true /\ cnt g' = 0.
Proof.
  intros Hr Hsd.
  destruct (all_to_dec (length (conns g)) g (le_n _)) as (ls1 & g1 & Hr1 & Hmu1 & Hsd1 & Hl1 & Hd1 & _).
  assert (Hr' : reach g1) by (eapply reach_run; eassumption).
  destruct (counter_balanced g1 Hr') as (Hcnt & _ & _).
  assert (Hz : cnt g1 = 0).
  { rewrite Hcnt. assert (H : forall j c, getc g1 j = Some c -> counted (pc c) = false).
    { intros j c Hg. apply (Hd1 j c); [|assumption]. rewrite <- Hl1. eapply getc_lt; eauto. }
    clear -H. unfold getc in H. induction (conns g1) as [|c l IH]; cbn; [reflexivity|].
    rewrite (H 0%nat c eq_refl). cbn. apply IH. intros j c' Hj. apply (H (S j)). assumption. }
  exists (ls1 ++ [TSdOut true; SdRet true]). eexists. rewrite (runf_app _ _ _ _ Hr1).
  cbn. rewrite Hsd1, Hsd, Hz. cbn. repeat split; reflexivity.
Qed.
