(* C11 — table obligations: the code shapes the LTS of Shutdown.v transcribes, as extracted into
   Tables.v on this run.  Statements the extractor does not know are tagged "other" when they touch
   nothing the shutdown logic depends on, and "?:<source>" otherwise; `core` drops the former, so an
   obligation breaks exactly when a relevant statement is added, removed or moved. *)
From G11 Require Import Shutdown Gauge.

Fixpoint memb (s : str) (l : list str) : bool :=
  match l with [] => false | x :: r => str_eqb s x || memb s r end.
Definition neutral : list str :=
  [b "other"; b "start"; b "const"; b "var"; b "ctx"; b "req"; b "log"; b "init"; b "poll-setup"].
Definition core (p : list str) : list str := filter (fun s => negb (memb s neutral)) p.

(* handleLoop: registration under the lock, then the three defers (so that on return the socket is
   closed first, then the counter is decremented, then the entry is deleted under the lock), then the
   address is read, then the closing check, and only then the connection is served *)
Lemma ob_handleloop_prog :
  core handleloop_prog =
  [b "lock"; b "conns-add"; b "cnt-inc"; b "unlock"; b "defer:delete-under-lock"; b "defer:cnt-dec";
   b "defer:conn-close"; b "addr"; b "closing-check-return"; b "new-proxy-conn"; b "handshake"; b "loop"].
Proof. vm_compute. reflexivity. Qed.
Lemma ob_handleloop_leaves_by_return_only : handleloop_leaves_by_return_only = true.
Proof. vm_compute. reflexivity. Qed.

(* handle: the closing check sits between reading the request and everything that forwards it *)
Lemma ob_handle_prog :
  core handle_prog =
  [b "read-request"; b "trace-read"; b "read-error-return-errClose"; b "defer:body-close";
   b "closing-check-errClose"; b "connect-branch"; b "fix-scheme"; b "upgrade-type"; b "upgrade-hdr";
   b "modify-request"; b "upgrade-hdr"; b "round-trip"; b "round-trip-error-response";
   b "defer:res-body-close"; b "res-request"; b "upgrade-type"; b "upgrade-hdr"; b "modify-response";
   b "upgrade-hdr"; b "upgrade-branch"; b "write-response"].
Proof. vm_compute. reflexivity. Qed.

(* writeResponse: res.Close is forced while closing, before the header is added and the response
   written; a response with res.Close ends the handler *)
Lemma ob_write_response_prog :
  core write_response_prog =
  [b "write-deadline"; b "decide-close-if-closing"; b "unknown-length-framing"; b "close-header";
   b "write"; b "flush"; b "trace-wrote"; b "write-error-return-errClose"; b "close-return-errClose";
   b "return-nil"].
Proof. vm_compute. reflexivity. Qed.

(* Shutdown holds connsMu from before the closing signal until it returns; it returns nil only when
   it has read the counter as zero and otherwise only ctx.Err() *)
Lemma ob_shutdown_prog :
  core shutdown_prog = [b "lock"; b "defer:unlock"; b "close-once"; b "poll:zero-return-nil|ctx-done-return-err"].
Proof. vm_compute. reflexivity. Qed.

(* Close holds connsMu while it sets the closing signal and closes every registered connection — and,
   for a *tls.Conn (whose Close is a no-op while its handler is closing it), the socket underneath *)
Lemma ob_close_prog :
  core close_prog = [b "lock"; b "defer:unlock"; b "close-once"; b "range-conns-close-and-socket-under-tls"; b "return"].
Proof. vm_compute. reflexivity. Qed.

Lemma ob_closing_body :
  closing_body = b "{ select { case <-p.closeCh: return true default: return false } }".
Proof. vm_compute. reflexivity. Qed.

Lemma ob_serve_defers_listener_close : serve_defers_listener_close = true.
Proof. vm_compute. reflexivity. Qed.

(* forwarder's run: listeners closed first, then Shutdown under the shutdown context, Close only if
   Shutdown failed, idle upstream connections closed last *)
Lemma ob_run_prog :
  core run_prog =
  [b "wait-ctx"; b "ctx-err"; b "close-listeners"; b "shutdown-context"; b "defer:cancel";
   b "shutdown-else-close"; b "close-idle-upstream"; b "return-ctx-err"].
Proof. vm_compute. reflexivity. Qed.

(* HTTP/2 inside an intercepted session is not enabled by any production code (only the h2 test
   fixture calls SetH2Config): the one handler path missing from the LTS is unreachable.  If this
   breaks, read Shutdown.v's header: h2.Config.Proxy ends both relays as soon as closing is set. *)
Lemma ob_h2_in_mitm_unreachable : h2_in_mitm_enabled_by = [].
Proof. vm_compute. reflexivity. Qed.

(* several listeners are several accept loops on ONE proxy: one registry, one counter, one closing
   signal; the LTS has one accept loop, so "at most one late accept" reads "at most one per listener" *)
Lemma ob_run_serves_every_listener_on_one_proxy : run_serves_every_listener_on_one_proxy = true.
Proof. vm_compute. reflexivity. Qed.

(* shutdownContext applies the timeout only when it is positive: a zero shutdown timeout means "no
   limit" (the drain is waited for), not "expire at once" *)
Lemma ob_shutdown_context : shutdown_timeout_guarded = true /\ shutdown_signals_guarded = true.
Proof. vm_compute. split; reflexivity. Qed.

Lemma ob_default_shutdown_timeout : (0 < default_shutdown_timeout_ms)%Z.
Proof. vm_compute. reflexivity. Qed.

(* the gauge listener_cx_active (Gauge.v): Listener.Accept adds one after a successful accept and wraps
   the connection with OnClose = metrics.close; closeListener.Close runs once.Do(onClose) whatever the
   underlying Close returned; metrics.close subtracts one *)
Lemma ob_gauge_programs : good gpar_of_tables.
Proof. vm_compute. repeat split. Qed.
