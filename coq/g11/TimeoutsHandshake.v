(* C15 — the handshake and PROXY-header limits for EVERY configuration (phase 4).

   TimeoutsProofs.v proves "closed exactly at the limit, never before" under the hypothesis ReadTimeout = 0;
   TimeoutsGeneral.v lifts that hypothesis for the idle wait, the request head and the body.  This file
   lifts it for the remaining client-wait phases: the listener TLS handshake, the two MITM phases (wait
   for the first byte of the client hello; handshake) and the PROXY header.  With ReadTimeout = R > 0 a
   whole-request deadline t0 + R is armed on the socket when a CONNECT head is complete; the question
   is whether it can cut a MITM handshake short (it would, before tls-handshake-timeout, whenever
   R < tls-handshake-timeout).  It cannot: handleMITM replaces the read deadline before it waits for
   the hello and clears it before the handshake (table flag mitm_peek_deadline), and a fresh
   connection has no read deadline at all while the listener handshake / PROXY header is awaited.
   No hypothesis on the configuration anywhere in this file. *)
From G11 Require Import Timeouts TimeoutsProofs TimeoutsGeneral.
Open Scope Z_scope.

Section Handshake.
Variable c : cfg.

Definition tls_dur : Z := if ltls_timeout_guarded then c_tls c else 0.
Definition mitm_dur : Z := if mitm_timeout_guarded then c_mitm c else 0.
Definition pp_dur : Z := if pp_timeout_closes_conn then c_pp c else 0.

(* which deadlines are armed in the handshake phases, for every reachable state *)
Definition inv_h (s : st) : Prop :=
  closed s = None ->
  (ph s = PLTls -> rd s = None /\ ctxd s = arm tls_dur (entered s)) /\
  (ph s = PMPeek -> mitm_peek_deadline = true -> rd s = arm (c_mitm c) (entered s)) /\
  (ph s = PMTls -> mitm_peek_deadline = true -> rd s = None /\ ctxd s = arm mitm_dur (entered s)) /\
  (ph s = PPHdr ->
     (pp_early = true -> rd s = None /\ ctxd s = None /\ ppd s = arm pp_dur (entered s)) /\
     (pp_early = false -> nxt s = PLTls -> rd s = None /\ ctxd s = arm tls_dur (entered s))).

Ltac hinv := unfold inv_h; intros _; cbn [ph rd ctxd ppd entered now t0 closed nxt];
  repeat split; intros; try discriminate; try congruence; auto.

Lemma inv_h_start : inv_h (conn_start c).
Proof.
  unfold conn_start, after_accept, start_ltls, start_read_request, s_init, pp_timer.
  destruct (c_has_pp c), pp_early eqn:Ee, (c_has_tls c); hinv.
Qed.

Lemma inv_h_rr s : inv_h (start_read_request c s).
Proof. unfold start_read_request. hinv. Qed.

Lemma inv_h_tick_plain d s : inv_h s -> inv_h (tick_plain d s).
Proof.
  intros Hi. unfold tick_plain.
  destruct (closed s) eqn:Hc; [intros H; cbn in H; congruence|].
  specialize (Hi Hc).
  destruct (fire_at s) as [f|]; [destruct (f <=? now s + d)|]; try (intros H; cbn in H; discriminate);
    intros _; exact Hi.
Qed.

Lemma inv_h_body_timeout s f : inv_h (body_timeout c s f).
Proof. unfold body_timeout. hinv. Qed.

Lemma inv_h_step s e : inv_g c s -> inv_h s -> inv_h (step c s e).
Proof.
  intros Hg Hi. destruct e as [d| | | | |]; cbn [step].
  - (* Tick *) unfold tick. destruct (d <? 0); [assumption|].
    destruct (closed s) eqn:Hc; [apply inv_h_tick_plain; assumption|].
    destruct (ph s) eqn:Hp; try (apply inv_h_tick_plain; assumption).
    destruct (fire_at s) as [f|]; [|apply inv_h_tick_plain; assumption].
    destruct (f <=? now s + d); [|apply inv_h_tick_plain; assumption].
    apply inv_h_tick_plain, inv_h_body_timeout.
  - (* Bytes *) destruct (closed s) eqn:Hc; [assumption|]. destruct (ph s) eqn:Hp; try assumption.
    + unfold head_start. hinv.
    + unfold mtls_start. intros _. cbn [ph rd ctxd ppd entered now closed nxt].
      repeat split; intros; try discriminate; rewrite ?H0; reflexivity.
  - (* Done *) destruct (closed s) eqn:Hc; [assumption|]. destruct (Hi Hc) as (A & B & C & D).
    destruct (Hg Hc) as (_ & _ & _ & G).
    destruct (ph s) eqn:Hp; try assumption.
    + unfold pp_done, after_accept, start_ltls, start_read_request. destruct (D eq_refl) as [De Dl].
      destruct pp_early eqn:Ee.
      * destruct (De eq_refl) as (R1 & R2 & R3). destruct (c_has_tls c); hinv.
      * destruct (G eq_refl eq_refl) as [Gn _]. intros _. cbn [ph rd ctxd ppd entered now closed nxt].
        destruct Gn as [Gn|Gn]; rewrite Gn in *.
        -- destruct (Dl eq_refl eq_refl) as [R1 R2]. repeat split; intros; try discriminate; assumption.
        -- repeat split; intros; discriminate.
    + apply inv_h_rr.
    + unfold head_done, head_start. hinv.
    + unfold head_done. hinv.
    + unfold body_done. hinv.
    + apply inv_h_rr.
    + apply inv_h_rr.
  - (* DoneHeadBody *) destruct (closed s) eqn:Hc; [assumption|].
    destruct (ph s) eqn:Hp; try assumption; unfold head_done_body, head_start; hinv.
  - (* DoneConnect *) destruct (closed s) eqn:Hc; [assumption|].
    destruct (ph s) eqn:Hp; try assumption; unfold connect_done, head_start; destruct (c_mitm_on c);
      intros _; cbn [ph rd ctxd ppd entered now closed nxt]; repeat split; intros; try discriminate;
      rewrite ?H0; reflexivity.
  - (* Reply *) destruct (closed s) eqn:Hc; [assumption|]. destruct (ph s) eqn:Hp; try assumption. apply inv_h_rr.
Qed.

Lemma inv_h_run evs : forall s, inv_g c s -> inv_h s -> inv_h (run c s evs).
Proof.
  induction evs as [|e r IH]; intros s Hg Hi; [assumption|]. rewrite run_cons.
  apply IH; [apply inv_g_step, Hg | apply inv_h_step; assumption].
Qed.

Lemma inv_h_reach pre : inv_h (run c (conn_start c) pre).
Proof. apply inv_h_run; [apply inv_g_start | apply inv_h_start]. Qed.

(* "exactly at entry + d, never before; never if d <= 0", as in TimeoutsGeneral.governed *)
Definition exact_deadline (s : st) (evs : list ev) (d : Z) : Prop :=
  (d <= 0 -> closed (run c s evs) = None) /\
  (0 < d -> now s < entered s + d ->
     (closed (run c s evs) = None /\ now (run c s evs) < entered s + d) \/
     (closed (run c s evs) = Some (entered s + d) /\ entered s + d <= now (run c s evs))).

(* the listener TLS handshake, the MITM wait for the client hello, the MITM handshake and the PROXY
   header: after any history, for any stalling behaviour, for EVERY configuration (ReadTimeout > 0
   included) the connection is closed exactly when the phase's own limit has elapsed since the phase
   was entered, and never before. *)
Lemma handshake_deadline pre evs :
  let s := run c (conn_start c) pre in
  closed s = None -> forallb (stall (ph s)) evs = true ->
  (ph s = PLTls -> exact_deadline s evs tls_dur) /\
  (ph s = PMPeek -> mitm_peek_deadline = true -> exact_deadline s evs (c_mitm c)) /\
  (ph s = PMTls -> mitm_peek_deadline = true -> exact_deadline s evs mitm_dur) /\
  (ph s = PPHdr -> pp_early = true -> exact_deadline s evs pp_dur).
Proof.
  intros s Hc Hs. destruct (inv_h_reach pre Hc) as (A & B & C & D). fold s in A, B, C, D.
  split; [|split; [|split]]; intros; unfold exact_deadline.
  - destruct (A H) as [R1 R2]. apply governed; try assumption; [rewrite H; discriminate|].
    unfold fire_at. rewrite H, R1, R2. apply omin_none_r.
  - apply governed; try assumption; [rewrite H; discriminate|]. unfold fire_at. rewrite H. apply B; assumption.
  - destruct (C H H0) as [R1 R2]. apply governed; try assumption; [rewrite H; discriminate|].
    unfold fire_at. rewrite H, R1, R2. apply omin_none_r.
  - destruct (D H) as [De _]. destruct (De H0) as (R1 & R2 & R3).
    apply governed; try assumption; [rewrite H; discriminate|]. unfold fire_at. rewrite H, R1, R2, R3. apply omin_none_r.
Qed.

(* the durations are the configured ones the property names *)
Lemma handshake_durations :
  limit c PLTls = pos tls_dur /\ limit c PMTls = pos mitm_dur /\ limit c PPHdr = pos pp_dur /\
  (mitm_peek_deadline = true -> limit c PMPeek = pos (c_mitm c)).
Proof.
  unfold limit, tls_dur, mitm_dur, pp_dur.
  split; [reflexivity|]. split; [reflexivity|]. split; [reflexivity|]. intros H. rewrite H. reflexivity.
Qed.
End Handshake.
