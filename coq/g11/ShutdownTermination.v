(* C11 — once closing is set the handlers cannot run for ever (phase 4).

   T11_no_deadlock says: from every reachable state SOME continuation takes every handler to its end.
   This file adds the other half of "the count of open connections always returns to zero": once the
   closing signal is set, EVERY continuation contains only boundedly many handler steps.  Each handler
   has a rank (its distance to the end of handleLoop along the longest path that is still possible while
   closing is set); every step a handler takes lowers its rank, nothing raises a rank, and at most one
   more connection can be accepted.  So a handler can neither spin nor be re-armed: in every run in
   which the handlers that can move do move (and clients / origins / the lock holder eventually let the
   waiting ones move - T11_no_deadlock: such a move always exists), the counter reaches zero. *)
From G11 Require Import Shutdown ShutdownProofs.
Open Scope Z_scope.

Definition rank_pc (p : cpc) : Z :=
  match p with
  | CAcc => 20 | CReg => 19 | CAddr => 18
  | CChecked => 17 | CFwd => 16 | CResp => 15 | CWriting _ => 14 | CWriting2 _ => 13
  | CWait => 12 | CHead => 10 | CRead => 9
  | CExit => 8 | CClosed => 7 | CDec => 6 | CDone => 5
  end.
Definition rank (c : cst) : Z := 2 * rank_pc (pc c) + (if (before_check (pc c) || hs c)%bool then 1 else 0).
Definition max_rank : Z := 41.

Fixpoint total (l : list cst) : Z := match l with [] => 0 | c :: r => rank c + total r end.

(* the steps a handler takes itself (program steps of handleLoop / handle / writeResponse and their
   deferred calls, including those that wait for the client, the origin or connsMu) *)
Definition handler_step (l : label) : bool :=
  match l with
  | TRegister _ | Addr _ | TChkConn _ | HsDone _ | THsFail _ | FirstByte _ | ReqRead _ _ | TChkReq _ | Fwd _
  | RTLeave _ | RTLeaveUp _ | TDecide _ | WrCall _ | Wrote _ _ _ | TConnRefuse _ | SockClose _ | TSilentClose _
  | TDec _ | TDelete _ => true
  | _ => false
  end.
Definition is_acc (l : label) : bool := match l with Acc _ => true | _ => false end.

Fixpoint count (f : label -> bool) (ls : list label) : Z :=
  match ls with [] => 0 | l :: r => (if f l then 1 else 0) + count f r end.

Lemma rank_bounds c : 10 <= rank c <= max_rank.
Proof. unfold rank, max_rank. destruct (pc c), (hs c); cbn; lia. Qed.

Lemma total_upd l : forall i c c', nth_error l i = Some c -> total (upd l i c') = total l - rank c + rank c'.
Proof.
  induction l as [|a l IH]; intros [|i] c c' H; cbn in *; try discriminate.
  - inversion H. lia.
  - rewrite (IH _ _ _ H). lia.
Qed.

Lemma total_app l1 l2 : total (l1 ++ l2) = total l1 + total l2.
Proof. induction l1 as [|a l IH]; cbn; [reflexivity|rewrite IH; lia]. Qed.

(* a handler step under closing lowers the handler's rank; the other labels that act on a handler's
   state (TlsConn, ClientGone) do not raise it *)
Lemma hstep_rank c l c' :
  hstep true c l = Some c' ->
  (handler_step l = true -> rank c' < rank c) /\ (handler_step l = false -> rank c' = rank c).
Proof.
  intros H. unfold hstep in H. unfold rank.
  break_match H; inv_some H; cbn;
    repeat match goal with E : pc _ = _ |- _ => rewrite E in *; clear E end;
    repeat match goal with E : hs _ = _ |- _ => rewrite E in *; clear E end;
    repeat match goal with E : before_check _ = _ |- _ => rewrite ?E in *; clear E end;
    cbn in *; split; intros; try discriminate; try lia;
    repeat match goal with |- context [if ?b then _ else _] => destruct b end; cbn; try lia.
Qed.

Ltac fin_upd Hg :=
  rewrite (total_upd _ _ _ _ Hg); unfold rank; cbn [pc hs set_pc mark_closed];
  repeat match goal with E : pc _ = _ |- _ => rewrite E end; cbn [rank_pc before_check orb];
  repeat match goal with |- context [if ?b then _ else _] => destruct b end; lia.

(* one step, closing set: handler steps + total rank do not grow, except by an accept *)
Lemma step_measure g l g' :
  closing g = true -> stepf g l = Some g' ->
  closing g' = true /\
  (if handler_step l then 1 else 0) + total (conns g') <=
  total (conns g) + (if is_acc l then max_rank else 0).
Proof.
  intros Hc Hs.
  assert (Hset : forall i c c', getc g i = Some c -> total (conns (setc g i c')) = total (conns g) - rank c + rank c').
  { intros i c c' Hg. cbn. apply total_upd. exact Hg. }
  destruct l; cbn [stepf label_conn] in Hs;
    try (destruct (getc g i) as [c|] eqn:Hg; [|discriminate];
         match type of Hs with
         | option_map _ (hstep _ _ ?lab) = _ =>
             rewrite Hc in Hs; destruct (hstep true c lab) as [c'|] eqn:Hh; [|discriminate]; inv_some Hs;
             split; [exact Hc|]; rewrite (Hset _ _ _ Hg); destruct (hstep_rank _ _ _ Hh) as [R1 R2];
             cbn [handler_step is_acc] in *;
             first [ specialize (R1 eq_refl); lia
                   | specialize (R2 eq_refl); lia ]
         end; fail).
  all: try (break_match Hs; inv_some Hs; cbn [closing conns handler_step is_acc]; split; [try assumption; reflexivity|lia]; fail).
  - (* Acc *) break_match Hs. inv_some Hs. cbn [closing conns handler_step is_acc]. split; [assumption|].
    rewrite total_app. cbn [total]. unfold rank, max_rank, c0. cbn [pc hs rank_pc before_check orb]. lia.
  - (* TRegister *) destruct (getc g i) as [c|] eqn:Hg; [|discriminate]. break_match Hs. inv_some Hs.
    cbn [closing conns handler_step is_acc]. split; [assumption|]. fin_upd Hg.
  - (* SockCloseC *) destruct (getc g i) as [c|] eqn:Hg; [|discriminate].
    break_match Hs; inv_some Hs; cbn [closing conns handler_step is_acc]; (split; [assumption|]); fin_upd Hg.
  - (* TDec *) destruct (getc g i) as [c|] eqn:Hg; [|discriminate]. break_match Hs. inv_some Hs.
    cbn [closing conns handler_step is_acc]. split; [assumption|]. fin_upd Hg.
  - (* TDelete *) destruct (getc g i) as [c|] eqn:Hg; [|discriminate]. break_match Hs. inv_some Hs.
    cbn [closing conns handler_step is_acc]. split; [assumption|]. fin_upd Hg.
Qed.

(* ... and every accept while closing is set is a late accept *)
Lemma late_step g l g' :
  closing g = true -> stepf g l = Some g' ->
  n_late (conns g') = n_late (conns g) + (if is_acc l then 1 else 0).
Proof.
  intros Hc Hs.
  destruct l; cbn [stepf label_conn] in Hs;
    try (destruct (getc g i) as [c|] eqn:Hg; [|discriminate];
         match type of Hs with
         | option_map _ (hstep _ _ ?lab) = _ =>
             destruct (hstep (closing g) c lab) as [c'|] eqn:Hh; [|discriminate]; inv_some Hs;
             destruct (hstep_frame _ _ _ _ Hh) as (_ & _ & Ha & _);
             cbn [conns setc is_acc]; rewrite (n_late_upd _ _ _ _ Hg Ha); lia
         end; fail).
  all: try (break_match Hs; inv_some Hs; cbn [conns is_acc]; lia).
  - (* Acc *) break_match Hs. inv_some Hs. cbn [conns is_acc]. rewrite n_late_app, Hc. cbn. lia.
  - (* TRegister *) destruct (getc g i) as [c|] eqn:Hg; [|discriminate]. break_match Hs. inv_some Hs.
    cbn [conns is_acc]. rewrite (n_late_upd _ _ _ _ Hg); [lia|reflexivity].
  - (* SockCloseC *) destruct (getc g i) as [c|] eqn:Hg; [|discriminate].
    break_match Hs; inv_some Hs; cbn [conns is_acc]; (rewrite (n_late_upd _ _ _ _ Hg); [lia|reflexivity]).
  - (* TDec *) destruct (getc g i) as [c|] eqn:Hg; [|discriminate]. break_match Hs. inv_some Hs.
    cbn [conns is_acc]. rewrite (n_late_upd _ _ _ _ Hg); [lia|reflexivity].
  - (* TDelete *) destruct (getc g i) as [c|] eqn:Hg; [|discriminate]. break_match Hs. inv_some Hs.
    cbn [conns is_acc]. rewrite (n_late_upd _ _ _ _ Hg); [lia|reflexivity].
Qed.

Lemma run_measure ls : forall g g',
  closing g = true -> runf g ls = Some g' ->
  closing g' = true /\
  count handler_step ls + total (conns g') <= total (conns g) + max_rank * count is_acc ls /\
  n_late (conns g') = n_late (conns g) + count is_acc ls.
Proof.
  induction ls as [|l r IH]; intros g g' Hc H; cbn [runf count] in *.
  - inv_some H. split; [assumption|]. split; lia.
  - destruct (stepf g l) as [g1|] eqn:E; [|discriminate].
    destruct (step_measure _ _ _ Hc E) as [Hc1 M1]. pose proof (late_step _ _ _ Hc E) as L1.
    destruct (IH _ _ Hc1 H) as (Hc' & M2 & L2). split; [assumption|].
    unfold max_rank in *. split; destruct (handler_step l), (is_acc l); lia.
Qed.

Lemma total_bound l : 0 <= total l <= max_rank * Z.of_nat (length l).
Proof.
  induction l as [|c r IH]; cbn [total length]; [unfold max_rank; lia|].
  pose proof (rank_bounds c). unfold max_rank in *. lia.
Qed.

(* Once closing is set: along EVERY continuation the handlers together take at most
   (sum of their ranks) + 41 further steps - at most 41 per connection that exists, plus 41 for the one
   connection that may still be accepted - and at most one connection is accepted. *)
Theorem handlers_terminate g :
  reach g -> closing g = true ->
  forall ls g', runf g ls = Some g' ->
    count is_acc ls <= 1 /\
    count handler_step ls <= total (conns g) + max_rank /\
    count handler_step ls <= max_rank * (Z.of_nat (length (conns g)) + 1).
Proof.
  intros Hr Hc ls g' Hrun.
  destruct (run_measure ls g g' Hc Hrun) as (Hc' & M & L).
  assert (Hr' : reach g').
  { destruct Hr as (l0 & H0). exists (l0 ++ ls).
    assert (A : forall l1 gi, runf gi l1 = Some g -> runf gi (l1 ++ ls) = Some g').
    { induction l1 as [|l r IH]; intros gi H1; cbn in *.
      - inv_some H1. assumption.
      - destruct (stepf gi l) as [gj|]; [|discriminate]. apply IH. assumption. }
    apply A. assumption. }
  destruct (inv_late _ (inv_reach _ Hr')) as (_ & L1 & _).
  pose proof (n_late_nonneg (conns g)) as N0.
  pose proof (total_bound (conns g')) as [T0 _]. pose proof (total_bound (conns g)) as [_ T1].
  assert (Ha : count is_acc ls <= 1) by lia.
  unfold max_rank in *. repeat split; lia.
Qed.
