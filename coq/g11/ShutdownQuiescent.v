(* C11 — where a run of the handlers ends (phase 4).

   ShutdownTermination: once closing is set every continuation contains boundedly many handler steps.
   Here: in ANY reachable state in which no handler step is possible, every handler has finished - or is
   waiting for connsMu (to register: it has not been counted yet; or to delete itself from the registry: it
   has decremented already) - and the counter is ZERO.  Together: once closing is set, every run in which a
   handler that can move eventually does move reaches, after at most 41 x (connections + 1) handler steps,
   a state with the counter at zero.  (In the LTS the client going away / the origin answering are always
   possible, so "can move" is never withheld for ever by the environment; for the real proxy that is what
   the limits of C15 and the dial / response-header timeouts are for.) *)
From G11 Require Import Shutdown ShutdownProofs ShutdownProgress ShutdownTermination.
Open Scope Z_scope.

Lemma next_label_is_handler_step i c : pc c <> CDone -> handler_step (next_label i c) = true.
Proof.
  intros H. unfold next_label. destruct (pc c) eqn:E; try reflexivity; try contradiction.
  - destruct (hs c); reflexivity.
  - destruct (is_connect c); [destruct b|]; reflexivity.
Qed.

Lemma count_pc_all_uncounted l :
  (forall i c, nth_error l i = Some c -> counted (pc c) = false) -> count_pc counted l = 0.
Proof.
  induction l as [|a l IH]; intros H; [reflexivity|]. cbn [count_pc].
  rewrite (H O a eq_refl). rewrite IH; [reflexivity|]. intros i c Hi. apply (H (S i)). exact Hi.
Qed.

Theorem quiescent_counter_zero g :
  reach g -> (forall l, handler_step l = true -> stepf g l = None) ->
  cnt g = 0 /\
  forall i c, getc g i = Some c -> pc c = CDone \/ (mu g <> None /\ (pc c = CAcc \/ pc c = CDec)).
Proof.
  intros Hr Hq.
  assert (Hconn : forall i c, getc g i = Some c -> pc c = CDone \/ (mu g <> None /\ (pc c = CAcc \/ pc c = CDec))).
  { intros i c Hc. destruct (cpc_done_dec (pc c)) as [Hd|Hd]; [left; assumption|right].
    assert (Hblocked : ~ (mu g = None \/ (pc c <> CAcc /\ pc c <> CDec))).
    { intros Hm. destruct (one_step g i c Hm Hc Hd) as (g' & c' & Hs & _).
      rewrite (Hq _ (next_label_is_handler_step i c Hd)) in Hs. discriminate. }
    split.
    - intros Hm. apply Hblocked. left. assumption.
    - destruct (cpc_acc_dec (pc c)) as [Ha|Ha]; [left; assumption|].
      destruct (cpc_dec_dec (pc c)) as [He|He]; [right; assumption|].
      exfalso. apply Hblocked. right. split; assumption. }
  split; [|exact Hconn].
  rewrite (inv_cnt _ (inv_reach _ Hr)). apply count_pc_all_uncounted.
  intros i c Hc. destruct (Hconn i c Hc) as [E|[_ [E|E]]]; rewrite E; reflexivity.
Qed.
