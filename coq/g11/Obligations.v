(* C15 — table obligations: facts about the source as extracted into Tables.v on this run,
   each discharged by closed computation.  When the source changes shape, exactly the lemma
   naming that shape stops checking. *)
From G11 Require Import Timeouts RateLimit TimeoutsCheck.
Open Scope Z_scope.

(* Serve: no call on the accepted connection between Accept and `go` can wait for the peer *)
Lemma ob_accept_loop_calls_never_wait : forallb call_never_waits serve_pre_go_calls = true.
Proof. vm_compute. reflexivity. Qed.

(* ... and neither do the Accept methods of the listener wrappers (forwarder.Listener,
   proxyproto.Listener, ratelimit.Listener), which run inside the same loop: they only hand the new
   connection to wrapper constructors *)
Lemma ob_listener_accept_calls_nothing : listener_accept_calls = [].
Proof. vm_compute. reflexivity. Qed.

(* a rate-limited listener charges the shared bucket AFTER the I/O and for the bytes moved: a stalled
   connection parked in Read holds no tokens, so stalled peers cannot starve a well-behaved client *)
Lemma ob_rate_limit_charged_after_io :
  ratelimit_read_prog = [b "c.Conn.Read(b)"; b "c.rxLimiter.WaitN(waitContext, n)"] /\
  ratelimit_write_prog = [b "c.Conn.Write(b)"; b "c.txLimiter.WaitN(waitContext, n)"].
Proof. vm_compute. split; reflexivity. Qed.

(* the first header-reading call on a PROXY-protocol connection is not made in the accept loop *)
Lemma ob_pp_first_touch_not_in_accept_loop : pp_touch_accept = false.
Proof. vm_compute. reflexivity. Qed.

(* readRequest arms its deadlines in the transcribed order *)
Lemma ob_read_request_prog :
  read_request_prog = [b "set:idleDeadline"; b "peek:1"; b "t0=time.Now()"; b "set:hdrDeadline";
                       b "readrequest"; b "set:wholeReqDeadline"].
Proof. vm_compute. reflexivity. Qed.
Lemma ob_read_request_deadline_defs :
  read_request_deadline_defs =
  [b "d := p.idleTimeout(); d > 0 => idleDeadline = time.Now().Add(d)";
   b "d := p.readHeaderTimeout(); d > 0 => hdrDeadline = t0.Add(d)";
   b "d := p.ReadTimeout; d > 0 => wholeReqDeadline = t0.Add(d)"].
Proof. vm_compute. reflexivity. Qed.

(* every timeout of the configuration reaches the field the model reads *)
Lemma ob_timeout_wiring :
  timeout_wiring =
  [b "ConnectTimeout=ConnectTimeout"; b "IdleTimeout=IdleTimeout";
   b "TLSHandshakeTimeout=TLSServerConfig.HandshakeTimeout"; b "ReadTimeout=ReadTimeout";
   b "ReadHeaderTimeout=ReadHeaderTimeout"; b "WriteTimeout=WriteTimeout";
   b "MITMTLSHandshakeTimeout=TLSServerConfig.HandshakeTimeout";
   b "proxyproto.ReadHeaderTimeout=l.ProxyProtocolConfig.ReadHeaderTimeout"].
Proof. vm_compute. reflexivity. Qed.

(* the listener is stacked PROXY protocol innermost, TLS outermost (martian type-asserts *tls.Conn) *)
Lemma ob_listener_stacking :
  listener_stacking = [b "proxyproto.Listener"; b "ratelimit.NewListener"; b "conntrack.Builder"; b "tls.Server"].
Proof. vm_compute. reflexivity. Qed.

(* the PROXY header timer is armed at the first header-reading call and closes the socket *)
Lemma ob_pp_timer : pp_timeout_closes_conn = true /\ pp_timer_starts_at_first_call = true.
Proof. vm_compute. split; reflexivity. Qed.

(* defaults: ReadTimeout is 0 (the hypothesis of the timing theorems), every other limit is set *)
Lemma ob_defaults :
  default_read_ms = 0 /\ 0 < default_idle_ms /\ 0 < default_rhdr_ms /\ 0 < default_tls_ms /\ 0 < default_pp_ms.
Proof. vm_compute. repeat split; reflexivity. Qed.

(* the model's limit of each waiting phase is the configured value the property names *)
Lemma ob_limits_are_the_configured_ones : forall c,
  limit c PPHdr = spec_limit c 0%N /\ limit c PLTls = spec_limit c 1%N /\
  limit c PIdle = spec_limit c 2%N /\ limit c PHead = spec_limit c 3%N /\
  limit c PMPeek = spec_limit c 5%N /\ limit c PMTls = spec_limit c 6%N /\
  limit c PUp = None /\ limit c PTunnel = None /\ limit c PBody = None.
Proof. intros c. repeat split; reflexivity. Qed.

(* handleMITM replaces the read deadline (a whole-request deadline may be armed) by now + MITM handshake
   timeout before it waits for the client hello and clears it before the handshake; the PROXY header is
   awaited by the handler's first call, before any other timer is started (phase 4: hypotheses of
   T15_handshake_limits_any_config) *)
Lemma ob_mitm_replaces_read_deadline : mitm_peek_deadline = true.
Proof. vm_compute. reflexivity. Qed.
Lemma ob_pp_awaited_first : pp_early = true.
Proof. vm_compute. reflexivity. Qed.

(* ratelimit.Conn.Read enters the wrapped Read before anything else: a connection parked there has taken
   nothing from the listener's shared bucket (hypothesis of T15_parked_peers_hold_no_tokens) *)
Lemma ob_parked_reader_holds_no_tokens : forall buf, park_cost ratelimit_read_prog buf = 0.
Proof. apply (park_cost_read_first _ (tl ratelimit_read_prog)). vm_compute. reflexivity. Qed.
