(* C11 — invariants of the shutdown LTS, proved by induction over arbitrary label sequences
   (all interleavings of accept loop, handlers, Shutdown, Close and environment). *)
From G11 Require Import Shutdown.
Open Scope Z_scope.

(* ---------- lists ---------- *)
Lemma upd_length {A} (l : list A) i x : length (upd l i x) = length l.
Proof. revert i; induction l as [|a l IH]; intros [|i]; cbn; auto. Qed.

Lemma nth_upd_same {A} (l : list A) i x y : nth_error l i = Some y -> nth_error (upd l i x) i = Some x.
Proof. revert i; induction l as [|a l IH]; intros [|i] H; cbn in *; try discriminate; auto. Qed.

Lemma nth_upd_other {A} (l : list A) i j x : i <> j -> nth_error (upd l i x) j = nth_error l j.
Proof.
  revert i j; induction l as [|a l IH]; intros [|i] [|j] H; cbn; auto; try contradiction;
    try (apply IH; congruence).
Qed.

Lemma nth_app_new {A} (l : list A) x j y :
  nth_error (l ++ [x]) j = Some y -> (nth_error l j = Some y) \/ (j = length l /\ y = x).
Proof.
  intros H. destruct (Nat.lt_ge_cases j (length l)) as [Hl|Hl].
  - left. rewrite nth_error_app1 in H; assumption.
  - right. rewrite nth_error_app2 in H by assumption.
    destruct (j - length l)%nat eqn:E; cbn in H.
    + inversion H. split; [lia|reflexivity].
    + destruct n; discriminate.
Qed.

Lemma mem_nat_In i l : mem_nat i l = true <-> In i l.
Proof.
  induction l as [|x l IH]; cbn; [split; [discriminate|tauto]|].
  rewrite orb_true_iff, Nat.eqb_eq, IH. tauto.
Qed.

Lemma In_remove_nat i j l : NoDup l -> (In j (remove_nat i l) <-> In j l /\ j <> i).
Proof.
  induction l as [|x l IH]; intros Hnd; cbn; [tauto|].
  inversion Hnd as [|? ? Hx Hnd']; subst.
  destruct (Nat.eqb x i) eqn:E.
  - apply Nat.eqb_eq in E. subst x. split.
    + intros H. split; [right; assumption|]. intros ->. contradiction.
    + intros [[H|H] Hne]; [congruence|assumption].
  - apply Nat.eqb_neq in E. cbn. rewrite (IH Hnd'). split.
    + intros [H|[H1 H2]]; [subst; tauto|tauto].
    + intros [[H|H] Hne]; [left; assumption|right; tauto].
Qed.

Lemma NoDup_remove_nat i l : NoDup l -> NoDup (remove_nat i l).
Proof.
  induction l as [|x l IH]; intros Hnd; cbn; [constructor|].
  inversion Hnd as [|? ? Hx Hnd']; subst.
  destruct (Nat.eqb x i); [assumption|]. constructor; [|apply IH; assumption].
  intros H. apply (In_remove_nat i x l Hnd') in H. tauto.
Qed.

(* ---------- counting ---------- *)
Definition ind (b : bool) : Z := if b then 1 else 0.

Lemma count_pc_app f l1 l2 : count_pc f (l1 ++ l2) = count_pc f l1 + count_pc f l2.
Proof. induction l1 as [|c l IH]; cbn; [reflexivity|]. rewrite IH. lia. Qed.

Lemma count_pc_upd f l i c c' :
  nth_error l i = Some c ->
  count_pc f (upd l i c') = count_pc f l - ind (f (pc c)) + ind (f (pc c')).
Proof.
  revert i; induction l as [|a l IH]; intros [|i] H; cbn in *; try discriminate.
  - inversion H; subst. unfold ind. lia.
  - rewrite (IH i H). lia.
Qed.

Lemma count_pc_nonneg f l : 0 <= count_pc f l.
Proof. induction l as [|c l IH]; cbn; [lia|]. destruct (f (pc c)); lia. Qed.

Lemma count_pc_zero f l i c : count_pc f l = 0 -> nth_error l i = Some c -> f (pc c) = false.
Proof.
  revert i; induction l as [|a l IH]; intros [|i] H0 H; cbn in *; try discriminate.
  - inversion H; subst. pose proof (count_pc_nonneg f l). destruct (f (pc c)); [lia|reflexivity].
  - pose proof (count_pc_nonneg f l). apply (IH i); [|assumption]. destruct (f (pc a)); lia.
Qed.

(* ---------- pc classes ---------- *)
(* socket certainly closed by the handler itself *)
Definition closed_pc (p : cpc) : bool := match p with CClosed | CDec | CDone => true | _ => false end.
(* past the closing check of handle for the current request *)
Definition past_check (p : cpc) : bool :=
  match p with CChecked | CFwd | CResp | CWriting _ | CWriting2 _ => true | _ => false end.
Definition reading (p : cpc) : bool := match p with CHead | CRead => true | _ => false end.
(* program points a handler can be at without ever having been served *)
Definition unserved_pc (p : cpc) : bool :=
  match p with CAcc | CReg | CAddr | CExit | CClosed | CDec | CDone => true | _ => false end.

Definition pre_check (p : cpc) : bool := match p with CAcc | CReg | CAddr => true | _ => false end.
Definition cl_finished (g : gst) : bool := match cl g with ClOut | ClDone => true | _ => false end.

(* ---------- the invariant ---------- *)
Definition conn_ok (g : gst) (i : nat) (c : cst) : Prop :=
  (closed_pc (pc c) = true -> sock_closed c = true) /\
  (past_check (pc c) = true -> fb_closing c = false) /\
  (reading (pc c) = true -> fb_closing c = true -> closing g = true) /\
  (acc_closing c = true -> closing g = true /\ served c = false) /\
  (served c = false -> unserved_pc (pc c) = true) /\
  (cl_finished g = true -> served c = true -> sock_closed c = true) /\
  (forall todo, cl g = ClHolding todo -> in_set (pc c) = true -> mem_nat i todo = true \/ sock_closed c = true) /\
  (pre_check (pc c) = true -> served c = false).

Definition lock_ok (g : gst) : Prop :=
  (mu g = Some OSd <-> sd g = SdHolding) /\
  (mu g = Some OCl <-> exists todo, cl g = ClHolding todo) /\
  (match sd g with SdIdle | SdCalled => True | _ => closing g = true end) /\
  (match cl g with ClIdle | ClCalled => True | _ => closing g = true end).

Fixpoint n_late (l : list cst) : Z :=
  match l with [] => 0 | c :: r => ind (acc_closing c) + n_late r end.

(* at most one connection is accepted after closing has been set *)
Definition late_ok (g : gst) : Prop :=
  (closing g = false -> n_late (conns g) = 0) /\
  n_late (conns g) <= 1 /\
  (n_late (conns g) = 1 -> sv g <> SvAccepting).

Record Inv (g : gst) : Prop := {
  inv_cnt : cnt g = count_pc counted (conns g);
  inv_nodup : NoDup (regs g);
  inv_regs : forall i, In i (regs g) <-> exists c, getc g i = Some c /\ in_set (pc c) = true;
  inv_conn : forall i c, getc g i = Some c -> conn_ok g i c;
  inv_lock : lock_ok g;
  inv_late : late_ok g
}.

Lemma n_late_app l1 l2 : n_late (l1 ++ l2) = n_late l1 + n_late l2.
Proof. induction l1 as [|c l IH]; cbn; [reflexivity|]. rewrite IH. lia. Qed.

Lemma n_late_upd l i c c' :
  nth_error l i = Some c -> acc_closing c' = acc_closing c -> n_late (upd l i c') = n_late l.
Proof.
  revert i; induction l as [|a l IH]; intros [|i] H E; cbn in *; try discriminate.
  - inversion H; subst. rewrite E. reflexivity.
  - rewrite (IH i H E). reflexivity.
Qed.

Lemma n_late_nonneg l : 0 <= n_late l.
Proof. induction l as [|c l IH]; cbn; [lia|]. unfold ind. destruct (acc_closing c); lia. Qed.

(* ---------- facts about one handler step ---------- *)
Ltac break_match H :=
  repeat match type of H with
  | context [match ?x with _ => _ end] => destruct x eqn:?; try discriminate
  end.

Lemma hstep_frame cn c l c' :
  hstep cn c l = Some c' ->
  counted (pc c') = counted (pc c) /\ in_set (pc c') = in_set (pc c) /\ acc_closing c' = acc_closing c /\
  (sock_closed c = true -> sock_closed c' = true) /\ (served c = true -> served c' = true).
Proof.
  intros H. unfold hstep in H. break_match H; inversion H; subst; cbn;
    repeat match goal with E : pc _ = _ |- _ => rewrite E; clear E end; cbn; repeat split; auto.
Qed.

Definition cl_started (g : gst) : bool := match cl g with ClIdle | ClCalled => false | _ => true end.

Lemma hstep_conn_ok g i c l c' :
  conn_ok g i c -> (cl_started g = true -> closing g = true) ->
  hstep (closing g) c l = Some c' -> conn_ok g i c'.
Proof.
  intros (H1 & H2 & H3 & H4 & H5 & H6 & H7 & H8) Hcl H.
  assert (Hfin : cl_finished g = true -> closing g = true).
  { intros E. apply Hcl. unfold cl_finished, cl_started in *. destruct (cl g); try discriminate; reflexivity. }
  assert (Hhold : forall todo, cl g = ClHolding todo -> closing g = true).
  { intros todo E. apply Hcl. unfold cl_started. rewrite E. reflexivity. }
  unfold hstep in H. break_match H; inversion H; subst; clear H; unfold conn_ok; cbn in *;
    repeat split; intros;
    repeat match goal with E : pc _ = _ |- _ => rewrite E in *; clear E end; cbn in *;
    try discriminate; try congruence; auto;
    try (destruct (served c); [auto; fail|]; exfalso;
         match goal with Hu : false = false -> _ |- _ => specialize (Hu eq_refl); discriminate end);
    try (rewrite Hfin in *; [discriminate | assumption]);
    try (match goal with E : cl _ = ClHolding _ |- _ => rewrite (Hhold _ E) in *; discriminate end).
  all: try (match goal with E : cl _ = ClHolding _ |- _ => eapply H7; eauto end).
  all: try solve [intuition congruence].
  destruct (fb_closing c); [|reflexivity]. exfalso. specialize (H3 eq_refl eq_refl). discriminate.
Qed.

Lemma lock_cl_started g : lock_ok g -> cl_started g = true -> closing g = true.
Proof.
  intros (_ & _ & _ & H) E. unfold cl_started in E. destruct (cl g); try discriminate; assumption.
Qed.

Lemma getc_setc_same g i c c' : getc g i = Some c -> getc (setc g i c') i = Some c'.
Proof. unfold getc, setc; cbn. apply nth_upd_same. Qed.
Lemma getc_setc_other g i j c' : i <> j -> getc (setc g i c') j = getc g j.
Proof. unfold getc, setc; cbn. apply nth_upd_other. Qed.

(* a handler-local step preserves the invariant *)
Lemma inv_setc g i c l c' :
  Inv g -> getc g i = Some c -> hstep (closing g) c l = Some c' -> Inv (setc g i c').
Proof.
  intros [Hcnt Hnd Hregs Hconn Hlock Hlate] Hg Hs.
  destruct (hstep_frame _ _ _ _ Hs) as (Fc & Fs & Fa & _ & _).
  constructor.
  - cbn. rewrite (count_pc_upd counted _ _ _ c' Hg), Fc. lia.
  - exact Hnd.
  - intros j. cbn [regs setc]. rewrite Hregs. destruct (Nat.eq_dec i j) as [->|Hne].
    + rewrite (getc_setc_same _ _ _ c' Hg). split; intros (x & Hx & Hin).
      * exists c'. split; [reflexivity|]. rewrite Fs. congruence.
      * exists c. split; [assumption|]. inversion Hx; subst. congruence.
    + rewrite (getc_setc_other _ _ _ c' Hne). tauto.
  - intros j cj Hj. destruct (Nat.eq_dec i j) as [->|Hne].
    + rewrite (getc_setc_same _ _ _ c' Hg) in Hj. inversion Hj; subst cj.
      change (conn_ok g j c'). eapply hstep_conn_ok; eauto. apply lock_cl_started; assumption.
    + rewrite (getc_setc_other _ _ _ c' Hne) in Hj. change (conn_ok g j cj). auto.
  - exact Hlock.
  - unfold late_ok in *. cbn [conns setc closing sv]. rewrite (n_late_upd _ _ _ c' Hg Fa). exact Hlate.
Qed.

(* ---------- transport of conn_ok along global changes ---------- *)
Lemma conn_ok_same g g' i c :
  closing g' = closing g -> cl g' = cl g -> conn_ok g i c -> conn_ok g' i c.
Proof. intros E1 E2. unfold conn_ok, cl_finished. rewrite E1, E2. tauto. Qed.

Lemma conn_ok_closing g g' i c :
  closing g' = true -> cl g' = cl g -> conn_ok g i c -> conn_ok g' i c.
Proof.
  intros E1 E2 (H1 & H2 & H3 & H4 & H5 & H6 & H7 & H8). unfold conn_ok, cl_finished in *. rewrite E1, E2.
  repeat split; auto. apply H4. assumption.
Qed.

Lemma mem_remove_other i j l : i <> j -> mem_nat j l = true -> mem_nat j (remove_nat i l) = true.
Proof.
  intros Hne. induction l as [|x l IH]; cbn; [auto|].
  destruct (Nat.eqb x i) eqn:E.
  - apply Nat.eqb_eq in E. subst x. destruct (Nat.eqb i j) eqn:E2; [apply Nat.eqb_eq in E2; contradiction|]. auto.
  - cbn. destruct (Nat.eqb x j); cbn; auto.
Qed.

Lemma getc_lt g i c : getc g i = Some c -> (i < length (conns g))%nat.
Proof. unfold getc. intros H. apply nth_error_Some. congruence. Qed.

Lemma lock_not_holding g : lock_ok g -> mu g = None -> (forall todo, cl g <> ClHolding todo) /\ sd g <> SdHolding.
Proof.
  intros (H1 & H2 & _) E. split.
  - intros todo Hc. destruct H2 as [_ H2]. rewrite H2 in E by eauto. discriminate.
  - intros Hs. destruct H1 as [_ H1]. rewrite H1 in E by assumption. discriminate.
Qed.

Ltac inv_some H := inversion H; subst; clear H.

Lemma inv_g0 : Inv g0.
Proof.
  constructor; cbn.
  - reflexivity.
  - constructor.
  - intros i. split; [tauto|]. intros (c & H & _). unfold getc in H. cbn in H. destruct i; discriminate.
  - intros i c H. unfold getc in H. cbn in H. destruct i; discriminate.
  - unfold lock_ok; cbn. repeat split; try discriminate; auto. intros (t & H). discriminate.
  - unfold late_ok; cbn. repeat split; try lia; try discriminate.
Qed.

(* steps that change no field the invariant reads except through sv / lopen / ctx_exp / sd / cl labels *)
Lemma inv_frame g g' :
  Inv g -> closing g' = closing g -> mu g' = mu g -> cnt g' = cnt g -> regs g' = regs g -> conns g' = conns g ->
  sd g' = sd g -> cl g' = cl g -> (sv g' = sv g \/ (sv g' <> SvAccepting)) -> Inv g'.
Proof.
  intros [Hcnt Hnd Hregs Hconn Hlock Hlate] E1 E2 E3 E4 E5 E6 E7 E8.
  constructor.
  - rewrite E3, E5. assumption.
  - rewrite E4. assumption.
  - intros i. rewrite E4. unfold getc. rewrite E5. apply Hregs.
  - intros i c H. unfold getc in H. rewrite E5 in H. eapply conn_ok_same; eauto.
  - unfold lock_ok in *. rewrite E1, E2, E6, E7. assumption.
  - unfold late_ok in *. rewrite E1, E5. destruct Hlate as (A & B & C). repeat split; auto.
    intros H. destruct E8 as [E8|E8]; [rewrite E8; auto|assumption].
Qed.

Ltac use_acc :=
  try match goal with
      | Hx : acc_closing _ = true -> _ /\ _, Hy : acc_closing _ = true |- _ => solve [apply (Hx Hy)]
      end.

Ltac conn_fin := repeat split; intros; try discriminate; auto; use_acc.

Ltac lock_fin L1 L2 :=
  repeat split; auto; try discriminate;
  try (apply L1); try (apply L2);
  try (let H := fresh in intros H; apply L1 in H; discriminate);
  try (let H := fresh in let t := fresh in let Ht := fresh in intros H; apply L2 in H as (t & Ht); discriminate);
  try (let t := fresh in let Ht := fresh in intros (t & Ht); discriminate).

(* one item of Close's loop over the registered connections *)
Lemma inv_close_item g i c todo :
  Inv g -> getc g i = Some c -> cl g = ClHolding todo ->
  Inv (mkg (closing g) (mu g) (cnt g) (regs g) (upd (conns g) i (mark_closed c)) (sd g)
           (ClHolding (remove_nat i todo)) (sv g) (lopen g) (ctx_exp g)).
Proof.
  intros [Hcnt Hnd Hregs Hconn Hlock Hlate] Hg Ecl.
  constructor; cbn.
  - rewrite (count_pc_upd counted _ _ _ (mark_closed c) Hg). cbn. lia.
  - assumption.
  - intros j. unfold getc; cbn. destruct (Nat.eq_dec i j) as [->|Hne].
    + rewrite (nth_upd_same _ _ (mark_closed c) _ Hg). rewrite Hregs, Hg.
      split; intros (x & Hx & Hin); inv_some Hx; eexists; (split; [reflexivity|assumption]).
    + rewrite (nth_upd_other _ _ _ (mark_closed c) Hne). apply Hregs.
  - intros j cj Hj. unfold getc in Hj; cbn in Hj. destruct (Nat.eq_dec i j) as [->|Hne].
    + rewrite (nth_upd_same _ _ (mark_closed c) _ Hg) in Hj. inv_some Hj.
      destruct (Hconn _ _ Hg) as (H1 & H2 & H3 & H4 & H5 & H6 & H7 & H8).
      unfold conn_ok, cl_finished in *; cbn. repeat split; intros; try discriminate; auto; use_acc.
    + rewrite (nth_upd_other _ _ _ (mark_closed c) Hne) in Hj.
      destruct (Hconn _ _ Hj) as (H1 & H2 & H3 & H4 & H5 & H6 & H7 & H8).
      unfold conn_ok, cl_finished in *; cbn. rewrite Ecl in *.
      repeat split; intros; try discriminate; auto; use_acc.
      match goal with Ht : ClHolding _ = ClHolding _ |- _ => inv_some Ht end.
      destruct (H7 _ eq_refl) as [Hm|Hm]; auto. left. apply mem_remove_other; assumption.
  - unfold lock_ok in *; cbn. rewrite Ecl in Hlock. destruct Hlock as (L1 & L2 & L3 & L4).
    split; [exact L1|]. split; [|split; assumption].
    split; [intros _; eexists; reflexivity|]. intros _. apply L2. eexists; reflexivity.
  - unfold late_ok in *; cbn. rewrite (n_late_upd _ _ _ (mark_closed c) Hg) by reflexivity. exact Hlate.
Qed.

Ltac frame := eapply inv_frame; [eassumption|try reflexivity..].

(* every step preserves the invariant *)
Lemma inv_step g l g' : Inv g -> stepf g l = Some g' -> Inv g'.
Proof.
  intros HI Hs. pose proof HI as [Hcnt Hnd Hregs Hconn Hlock Hlate].
  destruct l; cbn [stepf label_conn] in Hs.
  - (* TSvChk *) destruct (sv g) eqn:Esv; try discriminate. inv_some Hs.
    constructor; cbn; auto.
    + unfold late_ok in *; cbn. destruct Hlate as (A & B & C). repeat split; auto.
      intros H1. destruct (closing g) eqn:Ec; [discriminate|]. rewrite A in H1 by reflexivity. lia.
  - (* Acc *) destruct (sv g) eqn:Esv; try discriminate.
    destruct (lopen g && Nat.eqb i (length (conns g))) eqn:E; [|discriminate]. inv_some Hs.
    constructor; cbn.
    + rewrite count_pc_app. cbn. lia.
    + assumption.
    + intros j. rewrite Hregs. unfold getc; cbn. split; intros (c & Hc & Hin).
      * exists c. split; [|assumption]. rewrite nth_error_app1; [assumption|]. apply nth_error_Some. congruence.
      * apply nth_app_new in Hc as [Hc|[_ ->]]; [eauto|discriminate].
    + intros j c Hc. unfold getc in Hc; cbn in Hc. apply nth_app_new in Hc as [Hc|[_ ->]].
      * eapply conn_ok_same; [| |apply Hconn; exact Hc]; reflexivity.
      * unfold conn_ok, c0; cbn. repeat split; intros; try discriminate; auto.
    + exact Hlock.
    + unfold late_ok in *; cbn. rewrite n_late_app. cbn. destruct Hlate as (A & B & C).
      pose proof (n_late_nonneg (conns g)).
      destruct (closing g) eqn:Ec; unfold ind.
      * assert (n_late (conns g) = 0).
        { destruct (Z.eq_dec (n_late (conns g)) 1) as [E1|E1]; [exfalso; apply (C E1); assumption|lia]. }
        repeat split; try lia; try discriminate.
      * rewrite A by reflexivity. repeat split; try lia; try discriminate.
  - (* LClose *) inv_some Hs. frame. left; reflexivity.
  - (* TSvErr *) destruct (sv g) eqn:Esv; try discriminate. destruct (lopen g); [discriminate|]. inv_some Hs.
    frame. right; discriminate.
  - (* SrvRet *) destruct (sv g) eqn:Esv; try discriminate. inv_some Hs. frame. right; discriminate.
  - (* TRegister *) destruct (getc g i) as [c|] eqn:Hg; [|discriminate].
    destruct (mu g) eqn:Emu; [discriminate|]. destruct (pc c) eqn:Epc; try discriminate. inv_some Hs.
    destruct (lock_not_holding g Hlock Emu) as [Hnh _].
    assert (Hnot : ~ In i (regs g)).
    { intros Hin. apply Hregs in Hin as (x & Hx & Hin). rewrite Hg in Hx. inv_some Hx. rewrite Epc in Hin. discriminate. }
    constructor; cbn.
    + rewrite (count_pc_upd counted _ _ _ (set_pc c CReg) Hg), Epc. cbn. lia.
    + constructor; assumption.
    + intros j. unfold getc; cbn. destruct (Nat.eq_dec i j) as [->|Hne].
      * rewrite (nth_upd_same _ _ (set_pc c CReg) _ Hg). split; [intros _; eexists; split; [reflexivity|reflexivity]|auto].
      * rewrite (nth_upd_other _ _ _ (set_pc c CReg) Hne). fold (getc g j). rewrite <- Hregs. split; [intros [H|H]; [contradiction|assumption]|auto].
    + intros j cj Hj. unfold getc in Hj; cbn in Hj. destruct (Nat.eq_dec i j) as [->|Hne].
      * rewrite (nth_upd_same _ _ (set_pc c CReg) _ Hg) in Hj. inv_some Hj.
        destruct (Hconn _ _ Hg) as (H1 & H2 & H3 & H4 & H5 & H6 & H7 & H8). rewrite Epc in *.
        unfold conn_ok, cl_finished; cbn. repeat split; intros; try discriminate; auto;
          try (apply H4; assumption); try (exfalso; eapply Hnh; eassumption);
          try (rewrite H8 in *; [discriminate|reflexivity]).
      * rewrite (nth_upd_other _ _ _ (set_pc c CReg) Hne) in Hj.
        eapply conn_ok_same; [| |apply Hconn; exact Hj]; reflexivity.
    + unfold lock_ok in *; cbn. rewrite Emu in Hlock. exact Hlock.
    + unfold late_ok in *; cbn. rewrite (n_late_upd _ _ _ (set_pc c CReg) Hg) by reflexivity. exact Hlate.
  - (* Addr *) destruct (getc g i) as [c|] eqn:Hg; [|discriminate].
    destruct (hstep (closing g) c (Addr i)) as [c'|] eqn:Hh; [|discriminate]. inv_some Hs. eapply inv_setc; eauto.
  - (* TlsConn *) destruct (getc g i) as [c|] eqn:Hg; [|discriminate].
    destruct (hstep (closing g) c (TlsConn i)) as [c'|] eqn:Hh; [|discriminate]. inv_some Hs. eapply inv_setc; eauto.
  - (* TChkConn *) destruct (getc g i) as [c|] eqn:Hg; [|discriminate].
    destruct (hstep (closing g) c (TChkConn i)) as [c'|] eqn:Hh; [|discriminate]. inv_some Hs. eapply inv_setc; eauto.
  - (* HsDone *) destruct (getc g i) as [c|] eqn:Hg; [|discriminate].
    destruct (hstep (closing g) c (HsDone i)) as [c'|] eqn:Hh; [|discriminate]. inv_some Hs. eapply inv_setc; eauto.
  - (* THsFail *) destruct (getc g i) as [c|] eqn:Hg; [|discriminate].
    destruct (hstep (closing g) c (THsFail i)) as [c'|] eqn:Hh; [|discriminate]. inv_some Hs. eapply inv_setc; eauto.
  - (* FirstByte *) destruct (getc g i) as [c|] eqn:Hg; [|discriminate].
    destruct (hstep (closing g) c (FirstByte i)) as [c'|] eqn:Hh; [|discriminate]. inv_some Hs. eapply inv_setc; eauto.
  - (* ReqRead *) destruct (getc g i) as [c|] eqn:Hg; [|discriminate].
    destruct (hstep (closing g) c (ReqRead i k)) as [c'|] eqn:Hh; [|discriminate]. inv_some Hs. eapply inv_setc; eauto.
  - (* TChkReq *) destruct (getc g i) as [c|] eqn:Hg; [|discriminate].
    destruct (hstep (closing g) c (TChkReq i)) as [c'|] eqn:Hh; [|discriminate]. inv_some Hs. eapply inv_setc; eauto.
  - (* Fwd *) destruct (getc g i) as [c|] eqn:Hg; [|discriminate].
    destruct (hstep (closing g) c (Fwd i)) as [c'|] eqn:Hh; [|discriminate]. inv_some Hs. eapply inv_setc; eauto.
  - (* RTLeave *) destruct (getc g i) as [c|] eqn:Hg; [|discriminate].
    destruct (hstep (closing g) c (RTLeave i)) as [c'|] eqn:Hh; [|discriminate]. inv_some Hs. eapply inv_setc; eauto.
  - (* RTLeaveUp *) destruct (getc g i) as [c|] eqn:Hg; [|discriminate].
    destruct (hstep (closing g) c (RTLeaveUp i)) as [c'|] eqn:Hh; [|discriminate]. inv_some Hs. eapply inv_setc; eauto.
  - (* TDecide *) destruct (getc g i) as [c|] eqn:Hg; [|discriminate].
    destruct (hstep (closing g) c (TDecide i)) as [c'|] eqn:Hh; [|discriminate]. inv_some Hs. eapply inv_setc; eauto.
  - (* WrCall *) destruct (getc g i) as [c|] eqn:Hg; [|discriminate].
    destruct (hstep (closing g) c (WrCall i)) as [c'|] eqn:Hh; [|discriminate]. inv_some Hs. eapply inv_setc; eauto.
  - (* Wrote *) destruct (getc g i) as [c|] eqn:Hg; [|discriminate].
    destruct (hstep (closing g) c (Wrote i close err)) as [c'|] eqn:Hh; [|discriminate]. inv_some Hs. eapply inv_setc; eauto.
  - (* TConnRefuse *) destruct (getc g i) as [c|] eqn:Hg; [|discriminate].
    destruct (hstep (closing g) c (TConnRefuse i)) as [c'|] eqn:Hh; [|discriminate]. inv_some Hs. eapply inv_setc; eauto.
  - (* SockClose *) destruct (getc g i) as [c|] eqn:Hg; [|discriminate].
    destruct (hstep (closing g) c (SockClose i)) as [c'|] eqn:Hh; [|discriminate]. inv_some Hs. eapply inv_setc; eauto.
  - (* SockCloseC *) destruct (getc g i) as [c|] eqn:Hg; [|discriminate].
    destruct (cl g) as [| |todo| |] eqn:Ecl; try discriminate.
    destruct (mem_nat i todo || mem_nat i (regs g)) eqn:Em; [|discriminate]. inv_some Hs. eapply inv_close_item; eauto.
  - (* TSilentClose *) destruct (getc g i) as [c|] eqn:Hg; [|discriminate].
    destruct (hstep (closing g) c (TSilentClose i)) as [c'|] eqn:Hh; [|discriminate]. inv_some Hs. eapply inv_setc; eauto.
  - (* TDec *) destruct (getc g i) as [c|] eqn:Hg; [|discriminate]. destruct (pc c) eqn:Epc; try discriminate. inv_some Hs.
    constructor; cbn.
    + rewrite (count_pc_upd counted _ _ _ (set_pc c CDec) Hg), Epc. cbn. lia.
    + assumption.
    + intros j. unfold getc; cbn. destruct (Nat.eq_dec i j) as [->|Hne].
      * rewrite (nth_upd_same _ _ (set_pc c CDec) _ Hg). rewrite Hregs, Hg. split; intros (x & Hx & Hin); inv_some Hx.
        -- eexists; split; reflexivity.
        -- eexists; split; [reflexivity|]. rewrite Epc. reflexivity.
      * rewrite (nth_upd_other _ _ _ (set_pc c CDec) Hne). apply Hregs.
    + intros j cj Hj. unfold getc in Hj; cbn in Hj. destruct (Nat.eq_dec i j) as [->|Hne].
      * rewrite (nth_upd_same _ _ (set_pc c CDec) _ Hg) in Hj. inv_some Hj.
        destruct (Hconn _ _ Hg) as (H1 & H2 & H3 & H4 & H5 & H6 & H7 & H8). rewrite Epc in *.
        unfold conn_ok, cl_finished; cbn. repeat split; intros; try discriminate; auto; use_acc;
          try (eapply H7; eauto).
      * rewrite (nth_upd_other _ _ _ (set_pc c CDec) Hne) in Hj.
        eapply conn_ok_same; [| |apply Hconn; exact Hj]; reflexivity.
    + exact Hlock.
    + unfold late_ok in *; cbn. rewrite (n_late_upd _ _ _ (set_pc c CDec) Hg) by reflexivity. exact Hlate.
  - (* TDelete *) destruct (getc g i) as [c|] eqn:Hg; [|discriminate].
    destruct (mu g) eqn:Emu; [discriminate|]. destruct (pc c) eqn:Epc; try discriminate. inv_some Hs.
    destruct (lock_not_holding g Hlock Emu) as [Hnh _].
    constructor; cbn.
    + rewrite (count_pc_upd counted _ _ _ (set_pc c CDone) Hg), Epc. cbn. lia.
    + apply NoDup_remove_nat; assumption.
    + intros j. rewrite (In_remove_nat i j _ Hnd), Hregs. unfold getc; cbn. destruct (Nat.eq_dec i j) as [->|Hne].
      * rewrite (nth_upd_same _ _ (set_pc c CDone) _ Hg). split; [intros [_ H]; contradiction|].
        intros (x & Hx & Hin). inv_some Hx. discriminate.
      * rewrite (nth_upd_other _ _ _ (set_pc c CDone) Hne). fold (getc g j). split; [tauto|]. intros H; split; [assumption|congruence].
    + intros j cj Hj. unfold getc in Hj; cbn in Hj. destruct (Nat.eq_dec i j) as [->|Hne].
      * rewrite (nth_upd_same _ _ (set_pc c CDone) _ Hg) in Hj. inv_some Hj.
        destruct (Hconn _ _ Hg) as (H1 & H2 & H3 & H4 & H5 & H6 & H7 & H8). rewrite Epc in *.
        unfold conn_ok, cl_finished; cbn. repeat split; intros; try discriminate; auto; use_acc;
          try (exfalso; eapply Hnh; eassumption).
      * rewrite (nth_upd_other _ _ _ (set_pc c CDone) Hne) in Hj.
        eapply conn_ok_same; [| |apply Hconn; exact Hj]; reflexivity.
    + unfold lock_ok in *; cbn. rewrite Emu in Hlock. exact Hlock.
    + unfold late_ok in *; cbn. rewrite (n_late_upd _ _ _ (set_pc c CDone) Hg) by reflexivity. exact Hlate.
  - (* ClientGone *) destruct (getc g i) as [c|] eqn:Hg; [|discriminate].
    destruct (hstep (closing g) c (ClientGone i)) as [c'|] eqn:Hh; [|discriminate]. inv_some Hs. eapply inv_setc; eauto.
  - (* CtxExpire *) inv_some Hs. frame. left; reflexivity.
  - (* SdCall *) destruct (sd g) eqn:Esd; try discriminate. inv_some Hs.
    constructor; cbn; auto.
    + unfold lock_ok in *; cbn. rewrite Esd in Hlock. destruct Hlock as (L1 & L2 & L3 & L4).
      lock_fin L1 L2.
  - (* TSdLock *) destruct (sd g) eqn:Esd; try discriminate. destruct (mu g) eqn:Emu; [discriminate|]. inv_some Hs.
    destruct (lock_not_holding g Hlock Emu) as [Hnh _].
    constructor; cbn; auto.
    + intros i c H. eapply conn_ok_closing; [| |apply Hconn; exact H]; reflexivity.
    + unfold lock_ok in *; cbn. destruct Hlock as (L1 & L2 & L3 & L4).
      repeat split; auto; try discriminate; try (apply L2).
      * intros (t & Ht). exfalso. eapply Hnh; eassumption.
      * destruct (cl g); auto.
    + unfold late_ok in *; cbn. destruct Hlate as (A & B & C). repeat split; auto. discriminate.
  - (* TSdOut *) destruct (sd g) eqn:Esd; try discriminate.
    destruct (if ok then cnt g =? 0 else ctx_exp g) eqn:Eg; [|discriminate]. inv_some Hs.
    assert (Emu : mu g = Some OSd) by (apply Hlock; assumption).
    constructor; cbn; auto.
    + unfold lock_ok in *; cbn. rewrite Esd in Hlock. destruct Hlock as (L1 & L2 & L3 & L4).
      lock_fin L1 L2.
      all: try (intros (t & Ht); assert (mu g = Some OCl) by (apply L2; eauto); congruence).
  - (* SdRet *) destruct (sd g) eqn:Esd; try discriminate. destruct (Bool.eqb ok ok0); [|discriminate]. inv_some Hs.
    constructor; cbn; auto.
    + unfold lock_ok in *; cbn. rewrite Esd in Hlock. destruct Hlock as (L1 & L2 & L3 & L4).
      lock_fin L1 L2.
  - (* ClCall *) destruct (cl g) eqn:Ecl; try discriminate. inv_some Hs.
    constructor; cbn; auto.
    + intros i c H. destruct (Hconn _ _ H) as (H1 & H2 & H3 & H4 & H5 & H6 & H7 & H8).
      unfold conn_ok, cl_finished in *; cbn. rewrite Ecl in *. conn_fin.
    + unfold lock_ok in *; cbn. rewrite Ecl in Hlock. destruct Hlock as (L1 & L2 & L3 & L4).
      lock_fin L1 L2.
  - (* TClLock *) destruct (cl g) eqn:Ecl; try discriminate. destruct (mu g) eqn:Emu; [discriminate|]. inv_some Hs.
    destruct (lock_not_holding g Hlock Emu) as [_ Hns].
    constructor; cbn; auto.
    + intros i c H. destruct (Hconn _ _ H) as (H1 & H2 & H3 & H4 & H5 & H6 & H7 & H8).
      unfold conn_ok, cl_finished in *; cbn. rewrite Ecl in *. conn_fin.
      match goal with Ht : ClHolding _ = ClHolding _ |- _ => inv_some Ht end.
      left. apply mem_nat_In. apply Hregs. eauto.
    + unfold lock_ok in *; cbn. destruct Hlock as (L1 & L2 & L3 & L4).
      repeat split; auto; try discriminate; try (intros; eexists; reflexivity); try (apply L2).
      * intros H. exfalso. apply Hns. assumption.
      * destruct (sd g); auto.
    + unfold late_ok in *; cbn. destruct Hlate as (A & B & C). repeat split; auto. discriminate.
  - (* TClOut *) destruct (cl g) as [| |todo| |] eqn:Ecl; try discriminate. destruct todo; [|discriminate]. inv_some Hs.
    constructor; cbn; auto.
    + intros i c H. destruct (Hconn _ _ H) as (H1 & H2 & H3 & H4 & H5 & H6 & H7 & H8).
      unfold conn_ok, cl_finished in *; cbn. rewrite Ecl in *. conn_fin.
      match goal with Hs : served c = true |- _ => rename Hs into Hsv end.
      destruct (in_set (pc c)) eqn:Ein.
      * destruct (H7 _ eq_refl eq_refl) as [Hm|Hm]; [discriminate|assumption].
      * destruct (pc c) eqn:Epc; try discriminate.
        -- rewrite H8 in Hsv; [discriminate|reflexivity].
        -- apply H1. reflexivity.
    + unfold lock_ok in *; cbn. rewrite Ecl in Hlock. destruct Hlock as (L1 & L2 & L3 & L4).
      repeat split; auto; try discriminate; try (apply L2).
      * intros H. apply L1 in H. assert (mu g = Some OCl) by (apply L2; eauto). congruence.
      * intros (t & Ht). discriminate.
  - (* ClRet *) destruct (cl g) eqn:Ecl; try discriminate. inv_some Hs.
    constructor; cbn; auto.
    + intros i c H. destruct (Hconn _ _ H) as (H1 & H2 & H3 & H4 & H5 & H6 & H7 & H8).
      unfold conn_ok, cl_finished in *; cbn. rewrite Ecl in *. conn_fin.
    + unfold lock_ok in *; cbn. rewrite Ecl in Hlock. destruct Hlock as (L1 & L2 & L3 & L4).
      lock_fin L1 L2.
  - (* ClosingSeen *) destruct (closing g); [|discriminate]. inv_some Hs. assumption.
  - (* CntIs *) destruct (cnt g =? k); [|discriminate]. inv_some Hs. assumption.
  - (* CliResp *) inv_some Hs. assumption.
  - (* CliEOF *) inv_some Hs. assumption.
Qed.

Lemma inv_run ls : forall g g', Inv g -> runf g ls = Some g' -> Inv g'.
Proof.
  induction ls as [|l r IH]; intros g g' HI H; cbn in H.
  - inv_some H. assumption.
  - destruct (stepf g l) as [g1|] eqn:E; [|discriminate]. eapply IH; [|eassumption]. eapply inv_step; eauto.
Qed.

Lemma inv_reach g : reach g -> Inv g.
Proof. intros (ls & H). eapply inv_run; [apply inv_g0|eassumption]. Qed.

(* ================= the theorems ================= *)

(* the counter is exactly the number of handlers between registration and their deferred decrement *)
Lemma counter_balanced g :
  reach g ->
  cnt g = count_pc counted (conns g) /\ 0 <= cnt g /\
  ((forall i c, getc g i = Some c -> pc c = CDone) -> cnt g = 0 /\ regs g = []).
Proof.
  intros Hr. destruct (inv_reach g Hr) as [Hcnt Hnd Hregs _ _ _].
  split; [assumption|]. split; [rewrite Hcnt; apply count_pc_nonneg|].
  intros Hall. split.
  - rewrite Hcnt. clear -Hall. unfold getc in Hall. induction (conns g) as [|c l IH]; cbn; [reflexivity|].
    rewrite (Hall 0%nat c eq_refl). cbn. apply IH. intros i c' H. apply (Hall (S i)). assumption.
  - destruct (regs g) as [|i r] eqn:E; [reflexivity|]. exfalso.
    assert (Hin : In i (i :: r)) by (left; reflexivity).
    apply Hregs in Hin as (c & Hc & Hs). rewrite (Hall _ _ Hc) in Hs. discriminate.
Qed.

(* Shutdown decides "drained" only when every connection that has registered has been closed *)
Lemma success_means_drained g g' :
  reach g -> stepf g (TSdOut true) = Some g' ->
  cnt g = 0 /\ forall i c, getc g i = Some c -> pc c = CAcc \/ sock_closed c = true.
Proof.
  intros Hr Hs. destruct (inv_reach g Hr) as [Hcnt _ _ Hconn _ _].
  cbn in Hs. destruct (sd g); try discriminate. destruct (cnt g =? 0) eqn:E; [|discriminate].
  apply Z.eqb_eq in E. split; [assumption|]. intros i c Hc.
  rewrite Hcnt in E. pose proof (count_pc_zero _ _ _ _ E Hc) as Hn.
  destruct (Hconn _ _ Hc) as (H1 & _).
  destruct (pc c) eqn:Ep; try discriminate; auto.
Qed.

Lemma else_ctx_error g g' : stepf g (TSdOut false) = Some g' -> ctx_exp g = true.
Proof. cbn. destruct (sd g); try discriminate. destruct (ctx_exp g); [reflexivity|discriminate]. Qed.

Lemma shutdown_returns_what_it_decided g g' ok :
  stepf g (SdRet ok) = Some g' -> sd g = SdOut ok.
Proof.
  cbn. destruct (sd g) as [| | |ok'|]; try discriminate. destruct ok, ok'; cbn; try discriminate; reflexivity.
Qed.

(* a forwarded request had its first byte received before closing was set *)
Lemma no_new_work g g' i :
  reach g -> stepf g (Fwd i) = Some g' -> exists c, getc g i = Some c /\ fb_closing c = false /\ served c = true.
Proof.
  intros Hr Hs. destruct (inv_reach g Hr) as [_ _ _ Hconn _ _].
  cbn in Hs. destruct (getc g i) as [c|] eqn:Hc; [|discriminate].
  exists c. split; [reflexivity|]. destruct (Hconn _ _ Hc) as (_ & H2 & _ & _ & H5 & _).
  unfold hstep in Hs. destruct (pc c) eqn:Ep; try discriminate.
  split; [apply H2; reflexivity|]. destruct (served c); [reflexivity|]. specialize (H5 eq_refl). discriminate.
Qed.

(* once closing is set no further connection starts being served *)
Lemma no_new_served_step g l g' :
  closing g = true -> stepf g l = Some g' ->
  closing g' = true /\
  forall i c', getc g' i = Some c' -> served c' = true -> exists c, getc g i = Some c /\ served c = true.
Proof.
  intros Hc Hs.
  assert (Hgen : forall i c cn c', getc g i = Some c -> hstep true c cn = Some c' -> served c' = true -> served c = true).
  { intros i c cn c' _ Hh Hv. unfold hstep in Hh. break_match Hh; inv_some Hh; cbn in Hv; auto. }
  assert (Hset : forall i c c', getc g i = Some c -> (served c' = true -> served c = true) ->
            forall j cj, getc (setc g i c') j = Some cj -> served cj = true -> exists x, getc g j = Some x /\ served x = true).
  { intros i c c' Hg Hv j cj Hj Hsv. destruct (Nat.eq_dec i j) as [->|Hne].
    - rewrite (getc_setc_same _ _ _ c' Hg) in Hj. inv_some Hj. eauto.
    - rewrite (getc_setc_other _ _ _ c' Hne) in Hj. eauto. }
  assert (Hupd : forall i c c' G, getc g i = Some c -> (served c' = true -> served c = true) -> conns G = upd (conns g) i c' ->
            forall j cj, getc G j = Some cj -> served cj = true -> exists x, getc g j = Some x /\ served x = true).
  { intros i c c' G Hg Hv HG j cj Hj Hsv. unfold getc in Hj. rewrite HG in Hj. destruct (Nat.eq_dec i j) as [->|Hne].
    - rewrite (nth_upd_same _ _ c' _ Hg) in Hj. inv_some Hj. eauto.
    - rewrite (nth_upd_other _ _ _ c' Hne) in Hj. eauto. }
  destruct l; cbn [stepf label_conn] in Hs;
    try (destruct (getc g i) as [c|] eqn:Hg; [|discriminate];
         match type of Hs with
         | option_map _ (hstep _ _ ?lab) = _ =>
             rewrite Hc in Hs; destruct (hstep true c lab) as [c'|] eqn:Hh; [|discriminate]; inv_some Hs;
             split; [assumption|]; eapply Hset; eauto
         end; fail).
  all: try (break_match Hs; inv_some Hs; split; [try assumption; reflexivity|]; intros j cj Hj Hsv; eauto; fail).
  - (* Acc *) break_match Hs. inv_some Hs. split; [assumption|]. intros j cj Hj Hsv.
    unfold getc in Hj; cbn in Hj. apply nth_app_new in Hj as [Hj|[_ ->]]; [eauto|discriminate].
  - (* TRegister *) destruct (getc g i) as [c|] eqn:Hg; [|discriminate]. break_match Hs. inv_some Hs.
    split; [assumption|]. eapply (Hupd i c (set_pc c CReg)); eauto.
  - (* SockCloseC *) destruct (getc g i) as [c|] eqn:Hg; [|discriminate].
    break_match Hs; inv_some Hs; (split; [assumption|]); eapply (Hupd i c (mark_closed c)); eauto.
  - (* TDec *) destruct (getc g i) as [c|] eqn:Hg; [|discriminate]. break_match Hs. inv_some Hs.
    split; [assumption|]. eapply (Hupd i c (set_pc c CDec)); eauto.
  - (* TDelete *) destruct (getc g i) as [c|] eqn:Hg; [|discriminate]. break_match Hs. inv_some Hs.
    split; [assumption|]. eapply (Hupd i c (set_pc c CDone)); eauto.
Qed.

Lemma no_new_served ls : forall g g',
  closing g = true -> runf g ls = Some g' ->
  closing g' = true /\
  forall i c', getc g' i = Some c' -> served c' = true -> exists c, getc g i = Some c /\ served c = true.
Proof.
  induction ls as [|l r IH]; intros g g' Hc H; cbn in H.
  - inv_some H. split; [assumption|]. eauto.
  - destruct (stepf g l) as [g1|] eqn:E; [|discriminate].
    destruct (no_new_served_step _ _ _ Hc E) as (Hc1 & H1).
    destruct (IH _ _ Hc1 H) as (Hc' & H2). split; [assumption|].
    intros i c' Hi Hsv. destruct (H2 _ _ Hi Hsv) as (c1 & Hi1 & Hsv1). eauto.
Qed.

(* writeResponse: the response of an exchange that is written after closing was set carries Connection: close *)
Lemma decide_uses_closing g g' i :
  stepf g (TDecide i) = Some g' -> exists c', getc g' i = Some c' /\ pc c' = CWriting (closing g).
Proof.
  cbn. destruct (getc g i) as [c|] eqn:Hg; [|discriminate]. unfold hstep.
  destruct (pc c) eqn:Ep; try discriminate. cbn. intros H. inv_some H.
  exists (set_pc c (CWriting (closing g))). split; [|reflexivity]. eapply getc_setc_same; eauto.
Qed.

(* ... and after a response with Connection: close (or a failed write, or a tunnel) the handler leaves *)
Lemma wrote_then g g' i b e :
  stepf g (Wrote i b e) = Some g' ->
  exists c c', getc g i = Some c /\ getc g' i = Some c' /\
    (pc c = CWriting2 b \/ (pc c = CWriting b /\ e = true)) /\
    pc c' = (if is_connect c || b || e then CExit else CWait) /\
    (e = true -> sock_closed c = true \/ client_gone c = true).
Proof.
  cbn. destruct (getc g i) as [c|] eqn:Hg; [|discriminate]. unfold hstep.
  destruct (pc c) eqn:Ep; try discriminate.
  - (* CWriting: the write failed at once *)
    destruct (e && Bool.eqb b b0 && (sock_closed c || client_gone c)) eqn:E; [|discriminate].
    cbn. intros H. inv_some H. apply andb_true_iff in E as [E1 E2]. apply andb_true_iff in E1 as [E0 E1].
    apply Bool.eqb_prop in E1. subst b0. subst e.
    exists c, (set_pc c CExit). split; [reflexivity|]. split; [eapply getc_setc_same; eauto|].
    split; [right; split; [assumption|reflexivity]|]. split.
    + cbn. rewrite !orb_true_r. reflexivity.
    + intros _. apply orb_true_iff in E2. tauto.
  - destruct (is_connect c) eqn:Ei.
    + destruct ((negb b && negb b0 && negb e) || (Bool.eqb b b0 && e && (sock_closed c || client_gone c))) eqn:E; [|discriminate].
      cbn. intros H. inv_some H. exists c, (set_pc c CExit).
      split; [reflexivity|]. split; [eapply getc_setc_same; eauto|].
      assert (b = b0).
      { destruct b, b0, e; cbn in E; try discriminate; reflexivity. }
      subst b0. split; [left; assumption|]. split; [rewrite Ei; reflexivity|].
      intros ->. destruct b; cbn in E; apply orb_true_iff in E; tauto.
    + destruct (Bool.eqb b b0 && (negb e || sock_closed c || client_gone c)) eqn:E; [|discriminate].
      cbn. intros H. inv_some H. apply andb_true_iff in E as [E1 E2]. apply Bool.eqb_prop in E1. subst b0.
      exists c, (set_pc c (if b || e then CExit else CWait)).
      split; [reflexivity|]. split; [eapply getc_setc_same; eauto|]. split; [left; assumption|]. split; [rewrite Ei; reflexivity|].
      intros ->. cbn in E2. apply orb_true_iff in E2. tauto.
Qed.

(* an exchange that has reached the origin side is never abandoned: the only ways out of the
   in-flight program points are writing the response (or, for a CONNECT while closing, its 2xx) *)
Lemma inflight_not_abandoned g l g' i c :
  stepf g l = Some g' -> getc g i = Some c -> in_flight (pc c) = true ->
  (exists c', getc g' i = Some c' /\ in_flight (pc c') = true) \/
  (exists b e, l = Wrote i b e) \/ l = TConnRefuse i.
Proof.
  intros Hs Hg Hf.
  assert (Hset : forall j cj cj', getc g j = Some cj -> (j = i -> in_flight (pc cj') = true) ->
            exists c', getc (setc g j cj') i = Some c' /\ in_flight (pc c') = true).
  { intros j cj cj' Hj Hk. destruct (Nat.eq_dec j i) as [->|Hne].
    - rewrite (getc_setc_same _ _ _ cj' Hj). eauto.
    - rewrite (getc_setc_other _ _ _ cj' Hne). eauto. }
  assert (Hupd : forall j cj cj' G, getc g j = Some cj -> (j = i -> in_flight (pc cj') = true) ->
            conns G = upd (conns g) j cj' -> exists c', getc G i = Some c' /\ in_flight (pc c') = true).
  { intros j cj cj' G Hj Hk HG. unfold getc. rewrite HG. destruct (Nat.eq_dec j i) as [->|Hne].
    - rewrite (nth_upd_same _ _ cj' _ Hj). eauto.
    - rewrite (nth_upd_other _ _ _ cj' Hne). eauto. }
  destruct l; cbn [stepf label_conn] in Hs;
    try (right; left; eauto; fail); try (right; right; reflexivity);
    try (destruct (getc g i0) as [c0|] eqn:Hg0; [|discriminate];
         match type of Hs with
         | option_map _ (hstep _ _ ?lab) = _ =>
             destruct (hstep (closing g) c0 lab) as [c0'|] eqn:Hh; [|discriminate]; inv_some Hs;
             destruct (Nat.eq_dec i0 i) as [->|Hne];
             [ rewrite Hg in Hg0; inv_some Hg0;
               first [ left; eapply Hset; eauto; intros _; unfold hstep in Hh; break_match Hh; inv_some Hh; cbn in *; congruence
                     | right; left; eauto | right; right; reflexivity ]
             | left; eapply Hset; eauto; intros; contradiction ]
         end; fail).
  all: try (break_match Hs; inv_some Hs; left; exists c; (split; [exact Hg|exact Hf]); fail).
  - (* Acc *) break_match Hs. inv_some Hs. left. exists c. split; [|assumption].
    unfold getc; cbn. rewrite nth_error_app1; [exact Hg|]. eapply getc_lt; eauto.
  - (* TRegister *) destruct (getc g i0) as [c0|] eqn:Hg0; [|discriminate]. break_match Hs. inv_some Hs.
    left. eapply (Hupd i0 c0 (set_pc c0 CReg)); eauto. intros ->. rewrite Hg in Hg0. inv_some Hg0.
    rewrite Heqc1 in Hf. discriminate.
  - (* TConnRefuse *) destruct (getc g i0) as [c0|] eqn:Hg0; [|discriminate].
    destruct (hstep (closing g) c0 (TConnRefuse i0)) as [c0'|] eqn:Hh; [|discriminate]. inv_some Hs.
    destruct (Nat.eq_dec i0 i) as [->|Hne].
    + rewrite Hg in Hg0. inv_some Hg0. right; right; reflexivity.
    + left. eapply Hset; eauto.
  - (* SockCloseC *) destruct (getc g i0) as [c0|] eqn:Hg0; [|discriminate].
    break_match Hs; inv_some Hs; left; eapply (Hupd i0 c0 (mark_closed c0)); eauto;
      intros ->; rewrite Hg in Hg0; inv_some Hg0; cbn; assumption.
  - (* TDec *) destruct (getc g i0) as [c0|] eqn:Hg0; [|discriminate]. break_match Hs. inv_some Hs.
    left. eapply (Hupd i0 c0 (set_pc c0 CDec)); eauto. intros ->. rewrite Hg in Hg0. inv_some Hg0.
    rewrite Heqc1 in Hf. discriminate.
  - (* TDelete *) destruct (getc g i0) as [c0|] eqn:Hg0; [|discriminate]. break_match Hs. inv_some Hs.
    left. eapply (Hupd i0 c0 (set_pc c0 CDone)); eauto. intros ->. rewrite Hg in Hg0. inv_some Hg0.
    rewrite Heqc1 in Hf. discriminate.
Qed.

(* a connection accepted after closing was set is never served; there is at most one such connection *)
Lemma late_accepts_closed_unserved g :
  reach g ->
  (forall i c, getc g i = Some c -> acc_closing c = true -> served c = false /\ unserved_pc (pc c) = true) /\
  n_late (conns g) <= 1.
Proof.
  intros Hr. destruct (inv_reach g Hr) as [_ _ _ Hconn _ Hlate]. split.
  - intros i c Hc Ha. destruct (Hconn _ _ Hc) as (_ & _ & _ & H4 & H5 & _).
    destruct (H4 Ha) as [_ Hs]. split; [assumption|]. apply H5. assumption.
  - apply Hlate.
Qed.

(* after Close has gone through the registry every connection that was ever served is closed,
   and every other accepted connection can only run into its closing check and close itself *)
Lemma close_closes_all g :
  reach g -> cl_finished g = true ->
  closing g = true /\
  forall i c, getc g i = Some c -> sock_closed c = true \/ (served c = false /\ unserved_pc (pc c) = true).
Proof.
  intros Hr Hf. destruct (inv_reach g Hr) as [_ _ _ Hconn Hlock _]. split.
  - destruct Hlock as (_ & _ & _ & L4). unfold cl_finished in Hf. destruct (cl g); try discriminate; assumption.
  - intros i c Hc. destruct (Hconn _ _ Hc) as (_ & _ & _ & _ & H5 & H6 & _).
    destruct (served c) eqn:Es; [left; apply H6; auto|right; split; [reflexivity|apply H5; reflexivity]].
Qed.

(* Close returns only when its loop over the registry is finished *)
Lemma close_returns_finished g g' : stepf g ClRet = Some g' -> cl_finished g = true.
Proof. cbn. unfold cl_finished. destruct (cl g); try discriminate; reflexivity. Qed.

(* a handler that has finished has closed its socket *)
Lemma done_means_closed g i c : reach g -> getc g i = Some c -> pc c = CDone -> sock_closed c = true.
Proof.
  intros Hr Hc Hp. destruct (inv_reach g Hr) as [_ _ _ Hconn _ _].
  destruct (Hconn _ _ Hc) as (H1 & _). apply H1. rewrite Hp. reflexivity.
Qed.
