(* C15 — proofs about the timed model (Timeouts.v).
   Table constants stay opaque here: every lemma holds for each value of the shape flags;
   the two facts about the source that the theorems need are explicit hypotheses
   (discharged in Obligations.v against the regenerated Tables.v). *)
From G11 Require Import Timeouts.
Open Scope Z_scope.

Global Opaque idle_fallback_read rhdr_fallback_read whole_set_guard_equal ltls_timeout_guarded
  mitm_timeout_guarded mitm_peek_deadline pp_timeout_closes_conn serve_pre_go_calls
  handleloop_pre_handshake_calls pp_blocking_methods pp_early pp_touch_accept pp_touch_goroutine.

Lemma arm_pos d t : arm d t = option_map (Z.add t) (pos d).
Proof. unfold arm, pos. destruct (0 <? d); reflexivity. Qed.

Lemma arm_some d t f : arm d t = Some f -> t < f.
Proof. unfold arm. destruct (0 <? d) eqn:E; [|discriminate]. intros H; inversion H. apply Z.ltb_lt in E. lia. Qed.

Lemma arm_zero t : arm 0 t = None.
Proof. reflexivity. Qed.

Lemma omin_none_r a : omin a None = a.
Proof. destruct a; reflexivity. Qed.

(* discharge a goal whose premises contain an equation between two different phases, looking at
   nothing else (in particular not at the value of table-derived constants) *)
Ltac dphase :=
  try (let Hx := fresh in intro Hx; discriminate Hx);
  try match goal with Hx : @eq phase _ _ |- _ => discriminate Hx end.

(* outside the body phase (or with no deadline armed there) time passes the plain way *)
Lemma tick_eq c d s :
  (closed s <> None \/ ph s <> PBody \/ fire_at s = None) ->
  tick c d s = if d <? 0 then s else tick_plain d s.
Proof.
  intros H. unfold tick. destruct (d <? 0); [reflexivity|].
  destruct (closed s) eqn:Hc; [reflexivity|]. destruct (ph s) eqn:Hp; try reflexivity.
  destruct (fire_at s) eqn:Hf; [|reflexivity].
  destruct H as [H|[H|H]]; [contradiction|contradiction|discriminate].
Qed.

Section OneConnection.
Variable c : cfg.
(* the default: no whole-request deadline (Proxy.ReadTimeout = 0) *)
Hypothesis Hread : c_read c = 0.

(* what is known about a PROXY header awaited lazily: the timers of the following phase are armed already *)
Definition lazy_ok (s : st) : Prop :=
  (nxt s = PLTls \/ nxt s = PIdle) /\
  ppd s = option_map (Z.add (entered s)) (limit c PPHdr) /\
  omin (ctxd s) (rd s) = option_map (Z.add (entered s)) (limit c (nxt s)) /\
  (nxt s = PIdle -> ctxd s = None).

Definition inv (s : st) : Prop :=
  closed s = None ->
  entered s <= now s /\
  fire_at s = option_map (Z.add (entered s)) (eff_limit c s) /\
  (forall f, fire_at s = Some f -> now s < f) /\
  (ph s = PPHdr -> pp_early = true -> rd s = None) /\
  (ph s = PHead -> rd s = arm (rhdr_eff c) (t0 s)) /\
  (ph s = PPHdr -> pp_early = false -> lazy_ok s).

Lemma omin_map t a e : omin (option_map (Z.add t) a) (option_map (Z.add t) e) = option_map (Z.add t) (omin a e).
Proof. destruct a, e; cbn; try reflexivity. f_equal. lia. Qed.

Lemma omin_some_r a x m : omin a (Some x) = Some m -> m <= x.
Proof. destruct a; cbn; intros H; inversion H; lia. Qed.

Lemma omin_lt a e t : (forall f, omin a e = Some f -> t < f) -> forall f, e = Some f -> t < f.
Proof.
  intros H f ->. destruct (omin a (Some f)) eqn:E.
  - specialize (H _ eq_refl). apply omin_some_r in E. lia.
  - destruct a; discriminate.
Qed.

(* with ReadTimeout = 0 no deadline is armed while a body is outstanding *)
Lemma tick_inv d s : inv s -> tick c d s = if d <? 0 then s else tick_plain d s.
Proof.
  intros Hi. apply tick_eq. destruct (closed s) eqn:Hc; [left; discriminate|].
  destruct (Hi Hc) as (_ & Hf & _). unfold eff_limit in Hf.
  destruct (ph s) eqn:Hp; try (right; left; discriminate). right; right. rewrite Hf. reflexivity.
Qed.

Lemma inv_read_request s : closed s = None -> inv (start_read_request c s).
Proof.
  intros Hc _. unfold start_read_request; cbn [closed entered now fire_at ph rd limit eff_limit].
  repeat split; try lia.
  all: dphase.
  all: try apply arm_pos.
  all: try (intros f Hf; eapply arm_some; eauto).
Qed.

Lemma inv_ltls s : closed s = None -> rd s = None -> inv (start_ltls c s).
Proof.
  intros Hc Hrd _. unfold start_ltls; cbn [closed entered now fire_at ph rd ctxd limit eff_limit].
  rewrite Hrd, omin_none_r.
  repeat split; try lia.
  all: dphase.
  all: try apply arm_pos.
  all: try (intros f Hf; eapply arm_some; eauto).
Qed.

Lemma inv_after_accept s : closed s = None -> rd s = None -> inv (after_accept c s).
Proof.
  intros Hc Hrd. unfold after_accept. destruct (c_has_tls c).
  - apply inv_ltls; assumption.
  - apply inv_read_request; assumption.
Qed.

Lemma inv_start : inv (conn_start c).
Proof.
  unfold conn_start. destruct (c_has_pp c).
  - destruct pp_early eqn:Ee.
    + intros _. cbn [closed entered now fire_at ph rd ctxd ppd limit eff_limit]. rewrite Ee.
      unfold pp_timer. rewrite omin_none_r.
      repeat split; try lia.
      all: dphase.
      all: try apply arm_pos.
      all: try (intros f Hf; eapply arm_some; eauto).
    + intros _.
      assert (Hl : lazy_ok (mkst 0 PPHdr (rd (after_accept c s_init)) (ctxd (after_accept c s_init)) (pp_timer c 0) 0 None
                                 (ph (after_accept c s_init)) 0)).
      { unfold lazy_ok, after_accept, start_ltls, start_read_request, pp_timer.
        destruct (c_has_tls c); cbn [nxt ppd ctxd rd entered limit now s_init ph];
          (split; [auto|]); (split; [apply arm_pos|]); (split; [|intros; try reflexivity; try (match goal with Hx : _ = PIdle |- _ => discriminate Hx end)]).
        - rewrite omin_none_r. apply arm_pos.
        - cbn. apply arm_pos. }
      destruct Hl as (Hn & Hp & Ho & Hc0).
      cbn [nxt ppd ctxd rd entered] in Hn, Hp, Ho, Hc0.
      assert (Heq : omin (pp_timer c 0) (omin (ctxd (after_accept c s_init)) (rd (after_accept c s_init))) =
                    option_map (Z.add 0) (omin (limit c PPHdr) (limit c (ph (after_accept c s_init))))).
      { rewrite Hp, Ho. exact (omin_map 0 _ _). }
      assert (Hpos : forall f, omin (pp_timer c 0) (omin (ctxd (after_accept c s_init)) (rd (after_accept c s_init))) = Some f -> 0 < f).
      { intros f Hf. rewrite Heq in Hf.
        assert (P1 : forall x, limit c PPHdr = Some x -> 0 < x).
        { cbn [limit]. unfold pos. intros x. destruct (0 <? _) eqn:E; [|intros H; inversion H]. intros H; inversion H; subst. apply Z.ltb_lt in E. assumption. }
        assert (P2 : forall x, limit c (ph (after_accept c s_init)) = Some x -> 0 < x).
        { unfold after_accept, start_ltls, start_read_request. destruct (c_has_tls c); cbn [ph limit]; unfold pos;
            intros x; (destruct (0 <? _) eqn:E; [|intros H; inversion H]); intros H; inversion H; subst; apply Z.ltb_lt in E; assumption. }
        destruct (limit c PPHdr) as [a|], (limit c (ph (after_accept c s_init))) as [e|];
          cbn in Hf; inversion Hf; subst;
          try (specialize (P1 _ eq_refl)); try (specialize (P2 _ eq_refl)); lia. }
      unfold inv, eff_limit, fire_at. cbn [closed entered now ph rd ctxd ppd nxt]. rewrite Ee.
      split; [lia|]. split; [exact Heq|]. split; [exact Hpos|].
      split; [intros _ Hx; inversion Hx|]. split; [intros Hx; inversion Hx|].
      intros _ _. unfold lazy_ok. cbn [nxt ppd ctxd rd entered]. repeat split; assumption.
  - apply inv_after_accept; reflexivity.
Qed.

Lemma closed_start : closed (conn_start c) = None.
Proof.
  unfold conn_start, after_accept, start_ltls, start_read_request.
  destruct (c_has_pp c), pp_early, (c_has_tls c); reflexivity.
Qed.

Lemma inv_head_start s : closed s = None -> inv (head_start c s).
Proof.
  intros Hc _. unfold head_start; cbn [closed entered now fire_at ph rd limit eff_limit].
  repeat split; try lia.
  all: dphase.
  all: try apply arm_pos.
  all: try (intros f Hf; eapply arm_some; eauto).
Qed.

(* with ReadTimeout = 0 the read deadline is cleared once the head is complete *)
Lemma rd_after_head_none s :
  rd s = arm (rhdr_eff c) (t0 s) -> rd_after_head c s = None.
Proof.
  intros Hrd. unfold rd_after_head. rewrite Hread, arm_zero.
  destruct whole_set_guard_equal; [|reflexivity].
  destruct (arm (rhdr_eff c) (t0 s)) eqn:E; cbn [opt_eqb]; [reflexivity|].
  congruence.
Qed.

Lemma inv_head_done s : closed s = None -> inv (head_done c s).
Proof.
  intros Hc _. unfold head_done; cbn [closed entered now fire_at ph rd limit eff_limit].
  repeat split; try lia; try discriminate.
Qed.

Lemma inv_head_done_body s :
  closed s = None -> rd s = arm (rhdr_eff c) (t0 s) -> inv (head_done_body c s).
Proof.
  intros Hc Hrd _. unfold head_done_body. rewrite (rd_after_head_none s Hrd).
  cbn [closed entered now fire_at ph rd limit eff_limit]. repeat split; try lia; try discriminate.
Qed.

Lemma inv_body_done s : closed s = None -> inv (body_done s).
Proof.
  intros Hc _. unfold body_done; cbn [closed entered now fire_at ph rd limit eff_limit].
  repeat split; try lia; try discriminate.
Qed.

Lemma inv_connect_done s :
  closed s = None -> rd s = arm (rhdr_eff c) (t0 s) -> inv (connect_done c s).
Proof.
  intros Hc Hrd _. unfold connect_done. rewrite (rd_after_head_none s Hrd).
  destruct (c_mitm_on c); cbn [closed entered now fire_at ph rd limit eff_limit].
  - destruct mitm_peek_deadline.
    + repeat split; try lia.
      all: dphase.
      all: try apply arm_pos.
      all: try (intros f Hf; eapply arm_some; eauto).
    + repeat split; try lia; try discriminate.
  - repeat split; try lia; try discriminate.
Qed.

Lemma inv_mtls_start s :
  closed s = None -> ph s = PMPeek -> inv s -> inv (mtls_start c s).
Proof.
  intros Hc Hp Hi _. destruct (Hi Hc) as (_ & Hf & _).
  unfold fire_at, eff_limit in Hf. rewrite Hp in Hf. cbn [limit] in Hf.
  unfold mtls_start; cbn [closed entered now fire_at ph rd ctxd limit eff_limit].
  assert (Hrd : (if mitm_peek_deadline then None else rd s) = None).
  { destruct mitm_peek_deadline; [reflexivity|]. rewrite Hf. reflexivity. }
  rewrite Hrd, omin_none_r.
  repeat split; try lia.
  all: dphase.
  all: try apply arm_pos.
  all: try (intros f Hf'; eapply arm_some; eauto).
Qed.

Lemma closed_set_now t s : closed (set_now t s) = closed s. Proof. reflexivity. Qed.

Lemma fire_at_set_now t s : fire_at (set_now t s) = fire_at s.
Proof. reflexivity. Qed.

Lemma inv_set_now s t :
  inv s -> closed s = None -> now s <= t -> (forall f, fire_at s = Some f -> t < f) -> inv (set_now t s).
Proof.
  intros Hi Hc Ht Hlt _. destruct (Hi Hc) as (He & Hf & _ & Hpp & Hhd & Hlz).
  split; [cbn; lia|]. split; [exact Hf|]. split; [exact Hlt|]. split; [exact Hpp|]. split; [exact Hhd|exact Hlz].
Qed.

Lemma inv_tick d s : inv s -> inv (tick c d s).
Proof.
  intros Hi. rewrite (tick_inv d s Hi). unfold tick_plain. destruct (d <? 0) eqn:Ed; [assumption|]. apply Z.ltb_ge in Ed.
  destruct (closed s) eqn:Hc.
  - intros H. cbn in H. congruence.
  - destruct (Hi Hc) as (He & Hf & Hlt & Hpp & Hhd & Hlz).
    destruct (fire_at s) as [f|] eqn:Ef.
    + destruct (f <=? now s + d) eqn:Efd.
      * intros H. cbn in H. discriminate.
      * apply Z.leb_gt in Efd. apply inv_set_now; try assumption; try lia.
        intros f' Hf'. rewrite Ef in Hf'. inversion Hf'; subst. lia.
    + apply inv_set_now; try assumption; try lia. intros f' Hf'. rewrite Ef in Hf'. discriminate.
Qed.

Lemma inv_closed s : closed s <> None -> inv s.
Proof. intros H H'. contradiction. Qed.

Lemma inv_step s e : inv s -> inv (step c s e).
Proof.
  intros Hi. destruct e as [d| | | | |]; cbn [step]; try (apply inv_tick; assumption);
    destruct (closed s) eqn:Hc; try assumption;
    destruct (Hi Hc) as (He & Hf & Hlt & Hpp & Hhd & Hlz).
  - (* Bytes *) destruct (ph s) eqn:Hp; try assumption.
    + apply inv_head_start; assumption.
    + apply inv_mtls_start; assumption.
  - (* Done *) destruct (ph s) eqn:Hp; try assumption.
    + unfold pp_done. destruct pp_early eqn:Ee.
      * apply inv_after_accept; [assumption|]. cbn. apply Hpp; reflexivity.
      * (* the header was awaited lazily: the timers of the next phase have been running since `entered` *)
        destruct (Hlz eq_refl eq_refl) as (Hn & Hpd & Ho & Hc0).
        assert (Hfa : fire_at s = omin (ppd s) (omin (ctxd s) (rd s))) by (unfold fire_at; rewrite Hp; reflexivity).
        assert (Hlt2 : forall f, omin (ctxd s) (rd s) = Some f -> now s < f).
        { apply (omin_lt (ppd s)). intros f Hf'. apply Hlt. rewrite Hfa. assumption. }
        intros _. unfold inv, eff_limit, fire_at, lazy_ok. cbn [closed entered now ph rd ctxd ppd nxt].
        destruct Hn as [Hn|Hn]; rewrite Hn in *; cbn [limit].
        -- repeat split; try assumption; dphase.
        -- rewrite (Hc0 eq_refl) in *. cbn [omin] in *. repeat split; try assumption; dphase.
    + apply inv_read_request. assumption.
    + apply inv_head_done. assumption.
    + apply inv_head_done. assumption.
    + apply inv_body_done. assumption.
    + apply inv_read_request. assumption.
    + apply inv_read_request. assumption.
  - (* DoneHeadBody *) destruct (ph s) eqn:Hp; try assumption.
    + apply inv_head_done_body; [assumption|reflexivity].
    + apply inv_head_done_body; [assumption|]. apply Hhd; reflexivity.
  - (* DoneConnect *) destruct (ph s) eqn:Hp; try assumption.
    + apply inv_connect_done; [assumption|reflexivity].
    + apply inv_connect_done; [assumption|]. apply Hhd; reflexivity.
  - (* Reply *) destruct (ph s) eqn:Hp; try assumption.
    apply inv_read_request. assumption.
Qed.

Lemma inv_run evs : forall s, inv s -> inv (run c s evs).
Proof. induction evs as [|e r IH]; intros s Hi; cbn; [assumption|]. apply IH, inv_step, Hi. Qed.

Lemma inv_reachable pre : inv (run c (conn_start c) pre).
Proof. apply inv_run, inv_start. Qed.

(* ---- a closed connection stays as it is; only the clock moves, forwards ---- *)
Lemma step_closed s e t :
  closed s = Some t ->
  closed (step c s e) = Some t /\ ph (step c s e) = ph s /\ entered (step c s e) = entered s /\
  now s <= now (step c s e).
Proof.
  intros Hc. destruct e; cbn [step]; rewrite ?Hc; try (repeat split; try assumption; lia).
  rewrite tick_eq by (left; congruence). unfold tick_plain. destruct (d <? 0) eqn:Ed; [repeat split; try assumption; lia|].
  apply Z.ltb_ge in Ed. rewrite Hc. cbn. repeat split; try assumption; lia.
Qed.

Lemma run_cons s e r : run c s (e :: r) = run c (step c s e) r.
Proof. reflexivity. Qed.

Lemma run_closed evs : forall s t,
  closed s = Some t ->
  closed (run c s evs) = Some t /\ ph (run c s evs) = ph s /\ entered (run c s evs) = entered s /\
  now s <= now (run c s evs).
Proof.
  induction evs as [|e r IH]; intros s t Hc.
  - cbn. repeat split; try assumption; lia.
  - rewrite run_cons. destruct (step_closed s e t Hc) as (H1 & H2 & H3 & H4).
    destruct (IH _ _ H1) as (G1 & G2 & G3 & G4).
    repeat split; try congruence; lia.
Qed.

(* ---- one stalled step ---- *)
Lemma eff_limit_eq s s' : ph s' = ph s -> nxt s' = nxt s -> eff_limit c s' = eff_limit c s.
Proof. intros H1 H2. unfold eff_limit. rewrite H1, H2. reflexivity. Qed.

Lemma stall_step s e :
  inv s -> closed s = None -> stall (ph s) e = true ->
  let s' := step c s e in
  ph s' = ph s /\ nxt s' = nxt s /\ entered s' = entered s /\ now s <= now s' /\
  (closed s' = None \/
   exists L, eff_limit c s = Some L /\ closed s' = Some (entered s + L) /\ entered s + L <= now s').
Proof.
  intros Hi Hc Hs. destruct (Hi Hc) as (He & Hf & Hlt & _).
  destruct e as [d| | | | |]; cbn [stall] in Hs; try discriminate.
  - cbn [step]. rewrite (tick_inv d s Hi). unfold tick_plain. destruct (d <? 0) eqn:Ed.
    + cbn. repeat split; try lia. left; assumption.
    + apply Z.ltb_ge in Ed. rewrite Hc.
      destruct (fire_at s) as [f|] eqn:Ef.
      * destruct (f <=? now s + d) eqn:Efd.
        -- apply Z.leb_le in Efd. cbn. repeat split; try lia. right.
           destruct (eff_limit c s) as [L|]; cbn in Hf; [|discriminate].
           inversion Hf; subst f. exists L. specialize (Hlt _ eq_refl).
           repeat split; try lia. f_equal. lia.
        -- cbn. repeat split; try lia. left; assumption.
      * cbn. repeat split; try lia. left; assumption.
  - cbn [step]. rewrite Hc. destruct (ph s) eqn:Hp; try discriminate;
      cbn; repeat split; try lia; try assumption; left; assumption.
Qed.

(* ---- a client that makes no progress, for any number of steps ---- *)
Lemma stall_run evs : forall s,
  inv s -> closed s = None -> forallb (stall (ph s)) evs = true ->
  let s' := run c s evs in
  ph s' = ph s /\ nxt s' = nxt s /\ entered s' = entered s /\ now s <= now s' /\
  (closed s' = None \/
   exists L, eff_limit c s = Some L /\ closed s' = Some (entered s + L) /\ entered s + L <= now s').
Proof.
  induction evs as [|e r IH]; intros s Hi Hc Hs; [cbn [run fold_left]|rewrite run_cons].
  - repeat split; try lia. left; assumption.
  - cbn [forallb] in Hs. apply andb_true_iff in Hs as [Hs1 Hs2].
    destruct (stall_step s e Hi Hc Hs1) as (Hp & Hx & He & Hn & Hcl).
    destruct Hcl as [Hcl | (L & HL & Hcl & Hle)].
    + rewrite <- Hp in Hs2.
      destruct (IH (step c s e) (inv_step s e Hi) Hcl Hs2) as (G1 & Gx & G2 & G3 & G4).
      repeat split; try congruence; try lia.
      destruct G4 as [G4 | (L & HL & G4 & G5)]; [left; assumption|right].
      exists L. rewrite <- (eff_limit_eq s (step c s e) Hp Hx), <- He. repeat split; assumption.
    + destruct (run_closed r _ _ Hcl) as (G1 & G2 & G3 & G4).
      assert (Gx : nxt (run c (step c s e) r) = nxt (step c s e)).
      { clear -Hcl. revert Hcl. generalize (step c s e). induction r as [|x r IHr]; intros s0 H0; [reflexivity|].
        rewrite run_cons. destruct (step_closed s0 x _ H0) as (K1 & _).
        rewrite (IHr _ K1). destruct x; cbn [step]; rewrite ?H0; try reflexivity.
        rewrite tick_eq by (left; congruence). unfold tick_plain. destruct (d <? 0); [reflexivity|]. rewrite H0. reflexivity. }
      repeat split; try congruence; try lia.
      right. exists L. repeat split; try assumption. lia.
Qed.

(* T15_closed_at_limit *)
Lemma closed_at_limit pre evs L :
  let s := run c (conn_start c) pre in
  closed s = None -> eff_limit c s = Some L -> forallb (stall (ph s)) evs = true ->
  entered s + L <= now (run c s evs) ->
  closed (run c s evs) = Some (entered s + L).
Proof.
  intros s Hc HL Hs Hn.
  destruct (stall_run evs s (inv_reachable pre) Hc Hs) as (Hp & Hx & He & _ & Hcl).
  destruct Hcl as [Hcl | (L' & HL' & Hcl & _)].
  - exfalso. pose proof (inv_run evs s (inv_reachable pre) Hcl) as (_ & Hf & Hlt & _).
    rewrite (eff_limit_eq s _ Hp Hx), He, HL in Hf. cbn in Hf. specialize (Hlt _ Hf). fold s in Hn. lia.
  - congruence.
Qed.

(* T15_not_before *)
Lemma not_before pre evs t :
  let s := run c (conn_start c) pre in
  closed s = None -> forallb (stall (ph s)) evs = true ->
  closed (run c s evs) = Some t ->
  exists L, eff_limit c s = Some L /\ t = entered s + L.
Proof.
  intros s Hc Hs Ht.
  destruct (stall_run evs s (inv_reachable pre) Hc Hs) as (_ & _ & _ & _ & Hcl).
  destruct Hcl as [Hcl | (L & HL & Hcl & _)]; [fold s in Hcl; congruence|].
  exists L. split; [assumption|]. fold s in Hcl. congruence.
Qed.

Lemma no_limit_no_close pre evs :
  let s := run c (conn_start c) pre in
  closed s = None -> eff_limit c s = None -> forallb (stall (ph s)) evs = true ->
  closed (run c s evs) = None.
Proof.
  intros s Hc HL Hs. destruct (closed (run c s evs)) eqn:E; [|reflexivity].
  destruct (not_before pre evs z Hc Hs E) as (L & HL' & _). unfold s in *. congruence.
Qed.

(* while the origin is awaited (or a tunnel is open) nothing closes the client socket *)
Lemma upstream_never_cut pre evs :
  let s := run c (conn_start c) pre in
  closed s = None -> ph s = PUp -> forallb (stall PUp) evs = true ->
  closed (run c s evs) = None.
Proof.
  intros s Hc Hp Hs. apply no_limit_no_close; try assumption.
  - fold s. unfold eff_limit. rewrite Hp. reflexivity.
  - fold s. rewrite Hp. assumption.
Qed.

(* when the PROXY header is awaited before the other timers are started (the shape of the current
   source, obligation ob_pp_first_touch_is_early) the limit in force is simply that of the phase *)
Lemma eff_limit_early s : pp_early = true -> eff_limit c s = limit c (ph s).
Proof. intros H. unfold eff_limit. rewrite H. destruct (ph s); reflexivity. Qed.

End OneConnection.

(* ================= accept loop ================= *)
Section AcceptLoop.
Variable calls : list str.
Variable c : cfg.

Lemma pre_go_wait_nonblocking p :
  existsb (blocks c) calls = false -> pre_go_wait calls c p = Some 0.
Proof.
  intros H. unfold pre_go_wait. rewrite H.
  assert (E : existsb (fun m => mem m io_methods || negb (mem m conn_methods)) calls = false).
  { clear p. induction calls as [|m r IH]; cbn [existsb] in *; [reflexivity|].
    apply orb_false_iff in H as [H1 H2]. unfold blocks in H1.
    apply orb_false_iff in H1 as [H1 _]. rewrite H1. cbn. apply IH, H2. }
  rewrite E. reflexivity.
Qed.

(* no call made on the connection before `go` can wait for the peer  ==>
   every connection is handed to its goroutine at the moment it arrives,
   whatever the earlier peers do and however many they are *)
Lemma serve_loop_never_blocks :
  existsb (blocks c) calls = false ->
  forall ps f, arrivals_sorted f ps ->
  serve_loop calls c (Some f) ps = map (fun p => Some (p_arrive p)) ps.
Proof.
  intros Hnb. induction ps as [|p r IH]; intros f Hs; cbn [serve_loop map]; [reflexivity|].
  destruct Hs as [H1 H2]. rewrite (pre_go_wait_nonblocking p Hnb).
  rewrite Z.max_r by assumption. rewrite Z.add_0_r. f_equal. apply IH. assumption.
Qed.

(* the converse shape, kept to show that the model can express the defect:
   one blocking call + one silent peer delays the next client by the whole header timeout *)
Lemma serve_loop_blocks_witness L :
  existsb (fun m => mem m io_methods || negb (mem m conn_methods)) calls = false ->
  existsb (blocks c) calls = true ->
  pos (if pp_timeout_closes_conn then c_pp c else 0) = Some L -> 0 <= L ->
  serve_loop calls c (Some 0) [mkpeer 0 None; mkpeer 0 (Some 0)] = [Some L; Some L].
Proof.
  intros Hio Hb HL HL0. cbn [serve_loop]. unfold pre_go_wait. rewrite Hio, Hb. cbn [p_hdr_after p_arrive].
  rewrite HL.
  replace (Z.max 0 0 + L) with L by lia.
  replace (Z.max 0 (Z.min 0 L)) with 0 by lia.
  replace (Z.max L 0 + 0) with L by lia. reflexivity.
Qed.
End AcceptLoop.

Lemma blocks_of_never_waits c calls :
  forallb call_never_waits calls = true -> existsb (blocks c) calls = false.
Proof.
  induction calls as [|m r IH]; cbn [forallb existsb]; [reflexivity|]. intros H.
  apply andb_true_iff in H as [H1 H2]. unfold call_never_waits in H1.
  apply andb_true_iff in H1 as [H1 H3]. apply andb_true_iff in H1 as [H1 H4].
  apply negb_true_iff in H1, H3. unfold blocks at 1. rewrite H1, H3, H4, andb_false_r. cbn.
  apply IH, H2.
Qed.
