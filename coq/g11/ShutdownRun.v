(* C11 — what holds once forwarder's run() has returned (phase 4).

   run():  close the listeners; err := Shutdown(ctx); if err != nil { Close() }; return.
   ShutdownProofs.success_means_drained speaks about the moment Shutdown DECIDES that the proxy is
   drained; close_closes_all about the states after Close has finished.  Here the two are composed into a
   statement about every state from the return of run() on, for ever: Shutdown has returned nil, or it
   has returned the context's error and Close has returned; then every connection that was ever served has
   been closed, every other accepted connection is unserved and will never be served, and this stays so
   along every continuation (late registrations, handlers still unwinding, anything). *)
From G11 Require Import Shutdown ShutdownProofs.
Open Scope Z_scope.

Definition run_returned (g : gst) : Prop :=
  sd g = SdDone true \/ (sd g = SdDone false /\ cl g = ClDone).

Definition drained (g : gst) : Prop :=
  forall i c, getc g i = Some c -> served c = true -> sock_closed c = true.

(* while closing is set, a step neither makes a connection served nor reopens a socket *)
Lemma closed_served_step g l g' :
  closing g = true -> stepf g l = Some g' ->
  forall i c', getc g' i = Some c' -> served c' = true ->
  exists c, getc g i = Some c /\ served c = true /\ (sock_closed c = true -> sock_closed c' = true).
Proof.
  intros Hc Hs.
  assert (Hgen : forall c cn c', hstep true c cn = Some c' -> served c' = true ->
                 served c = true /\ (sock_closed c = true -> sock_closed c' = true)).
  { intros c cn c' Hh Hv. unfold hstep in Hh. break_match Hh; inv_some Hh; cbn in *; auto. }
  assert (Hset : forall i c c', getc g i = Some c ->
            (served c' = true -> served c = true /\ (sock_closed c = true -> sock_closed c' = true)) ->
            forall j cj, getc (setc g i c') j = Some cj -> served cj = true ->
            exists x, getc g j = Some x /\ served x = true /\ (sock_closed x = true -> sock_closed cj = true)).
  { intros i c c' Hg Hv j cj Hj Hsv. destruct (Nat.eq_dec i j) as [->|Hne].
    - rewrite (getc_setc_same _ _ _ c' Hg) in Hj. inv_some Hj. destruct (Hv Hsv). eauto.
    - rewrite (getc_setc_other _ _ _ c' Hne) in Hj. eauto. }
  assert (Hupd : forall i c c' G, getc g i = Some c ->
            (served c' = true -> served c = true /\ (sock_closed c = true -> sock_closed c' = true)) ->
            conns G = upd (conns g) i c' ->
            forall j cj, getc G j = Some cj -> served cj = true ->
            exists x, getc g j = Some x /\ served x = true /\ (sock_closed x = true -> sock_closed cj = true)).
  { intros i c c' G Hg Hv HG j cj Hj Hsv. unfold getc in Hj. rewrite HG in Hj. destruct (Nat.eq_dec i j) as [->|Hne].
    - rewrite (nth_upd_same _ _ c' _ Hg) in Hj. inv_some Hj. destruct (Hv Hsv). eauto.
    - rewrite (nth_upd_other _ _ _ c' Hne) in Hj. eauto. }
  destruct l; cbn [stepf label_conn] in Hs;
    try (destruct (getc g i) as [c|] eqn:Hg; [|discriminate];
         match type of Hs with
         | option_map _ (hstep _ _ ?lab) = _ =>
             rewrite Hc in Hs; destruct (hstep true c lab) as [c'|] eqn:Hh; [|discriminate]; inv_some Hs;
             eapply Hset; eauto
         end; fail).
  all: try (break_match Hs; inv_some Hs; intros j cj Hj Hsv; eauto; fail).
  - (* Acc *) break_match Hs. inv_some Hs. intros j cj Hj Hsv.
    unfold getc in Hj; cbn in Hj. apply nth_app_new in Hj as [Hj|[_ ->]]; [eauto|discriminate].
  - (* TRegister *) destruct (getc g i) as [c|] eqn:Hg; [|discriminate]. break_match Hs. inv_some Hs.
    eapply (Hupd i c (set_pc c CReg)); eauto.
  - (* SockCloseC *) destruct (getc g i) as [c|] eqn:Hg; [|discriminate].
    break_match Hs; inv_some Hs; eapply (Hupd i c (mark_closed c)); eauto.
  - (* TDec *) destruct (getc g i) as [c|] eqn:Hg; [|discriminate]. break_match Hs. inv_some Hs.
    eapply (Hupd i c (set_pc c CDec)); eauto.
  - (* TDelete *) destruct (getc g i) as [c|] eqn:Hg; [|discriminate]. break_match Hs. inv_some Hs.
    eapply (Hupd i c (set_pc c CDone)); eauto.
Qed.

Lemma drained_step g l g' : closing g = true -> drained g -> stepf g l = Some g' -> drained g'.
Proof.
  intros Hc Hd Hs i c' Hi Hsv. destruct (closed_served_step _ _ _ Hc Hs _ _ Hi Hsv) as (c & Hg & Hv & Hm).
  apply Hm. eapply Hd; eauto.
Qed.

(* how the state of the Shutdown call evolves *)
Lemma sd_step g l g' :
  stepf g l = Some g' ->
  sd g' = sd g \/
  (sd g = SdIdle /\ sd g' = SdCalled) \/ (sd g = SdCalled /\ sd g' = SdHolding) \/
  (exists ok, l = TSdOut ok /\ sd g = SdHolding /\ sd g' = SdOut ok) \/
  (exists ok, sd g = SdOut ok /\ sd g' = SdDone ok).
Proof.
  intros Hs. destruct l; cbn [stepf label_conn] in Hs;
    try (destruct (getc g i) as [c|] eqn:Hg; [|discriminate];
         match type of Hs with
         | option_map _ (hstep _ _ ?lab) = _ =>
             destruct (hstep (closing g) c lab) as [c'|]; [|discriminate]; inv_some Hs; left; reflexivity
         end; fail).
  all: try (break_match Hs; inv_some Hs; left; reflexivity).
  - (* SdCall *) break_match Hs. inv_some Hs. right. left. auto.
  - (* TSdLock *) break_match Hs. inv_some Hs. right. right. left. auto.
  - (* TSdOut *) break_match Hs. inv_some Hs. right. right. right. left. exists ok. auto.
  - (* SdRet *) destruct (sd g) as [| | |ok'|] eqn:E; try discriminate. destruct (Bool.eqb ok ok') eqn:Eo; [|discriminate].
    apply Bool.eqb_prop in Eo. subst ok'. inv_some Hs. right. right. right. right. exists ok. auto.
Qed.

(* from the moment Shutdown decides "drained" on: every connection that was ever served is closed *)
Definition sd_ok (g : gst) : Prop := (sd g = SdOut true \/ sd g = SdDone true) -> drained g.

Lemma sd_ok_step g l g' : Inv g -> sd_ok g -> stepf g l = Some g' -> sd_ok g'.
Proof.
  intros Hinv Hok Hs Hsd.
  destruct (sd_step _ _ _ Hs) as [E|[[E1 E2]|[[E1 E2]|[(ok & -> & E1 & E2)|(ok & E1 & E2)]]]].
  - (* sd unchanged *) rewrite E in Hsd.
    assert (Hc : closing g = true).
    { destruct (inv_lock _ Hinv) as (_ & _ & L3 & _). destruct Hsd as [Q|Q]; rewrite Q in L3; exact L3. }
    eapply drained_step; eauto.
  - rewrite E2 in Hsd. destruct Hsd; discriminate.
  - rewrite E2 in Hsd. destruct Hsd; discriminate.
  - (* the decision *) rewrite E2 in Hsd. assert (ok = true) by (destruct Hsd as [Q|Q]; inversion Q; reflexivity). subst ok.
    cbn in Hs. rewrite E1 in Hs. destruct (cnt g =? 0) eqn:Ec; [|discriminate]. inv_some Hs. apply Z.eqb_eq in Ec.
    intros i c Hi Hsv. unfold getc in Hi. cbn in Hi.
    destruct (inv_conn _ Hinv _ _ Hi) as (K1 & _ & _ & _ & _ & _ & _ & K8).
    assert (Hcnt : counted (pc c) = false).
    { eapply count_pc_zero; [|exact Hi]. rewrite <- (inv_cnt _ Hinv). exact Ec. }
    apply K1. destruct (pc c); cbn in *; try discriminate; try reflexivity.
    specialize (K8 eq_refl). congruence.
  - (* the return *) rewrite E2 in Hsd. assert (ok = true) by (destruct Hsd as [Q|Q]; inversion Q; reflexivity). subst ok.
    assert (Hc : closing g = true).
    { destruct (inv_lock _ Hinv) as (_ & _ & L3 & _). rewrite E1 in L3. exact L3. }
    eapply drained_step; eauto.
Qed.

Lemma sd_ok_reach g : reach g -> sd_ok g.
Proof.
  intros (ls & Hr). assert (G : forall ls g1 g2, Inv g1 -> sd_ok g1 -> runf g1 ls = Some g2 -> sd_ok g2).
  { clear. induction ls as [|l r IH]; intros g1 g2 Hi Hk H; cbn in H.
    - inv_some H. assumption.
    - destruct (stepf g1 l) as [g'|] eqn:E; [|discriminate].
      eapply IH; [eapply inv_step; eauto|eapply sd_ok_step; eauto|exact H]. }
  eapply G; [apply inv_g0| |exact Hr]. intros [Q|Q]; discriminate.
Qed.

(* run() has returned: for ever after, every connection that was ever served is closed, every other
   accepted connection is unserved - and (closing stays set) will stay so *)
Theorem after_run g :
  reach g -> run_returned g ->
  forall ls g', runf g ls = Some g' ->
    run_returned g' /\ closing g' = true /\
    forall i c, getc g' i = Some c -> sock_closed c = true \/ (served c = false /\ unserved_pc (pc c) = true).
Proof.
  intros Hr Hret ls g' Hrun.
  assert (Hr' : reach g').
  { destruct Hr as (l0 & H0). exists (l0 ++ ls).
    assert (A : forall l1 gi, runf gi l1 = Some g -> runf gi (l1 ++ ls) = Some g').
    { induction l1 as [|l r IH]; intros gi H1; cbn in *.
      - inv_some H1. assumption.
      - destruct (stepf gi l) as [gj|]; [|discriminate]. apply IH. assumption. }
    apply A. assumption. }
  assert (Hret' : run_returned g').
  { clear Hr Hr'. revert g Hret Hrun. induction ls as [|l r IH]; intros g Hret Hrun; cbn in Hrun.
    - inv_some Hrun. assumption.
    - destruct (stepf g l) as [g1|] eqn:E; [|discriminate]. apply (IH g1); [|assumption].
      assert (Hsd : forall ok, sd g = SdDone ok -> sd g1 = SdDone ok).
      { intros ok Q. destruct (sd_step _ _ _ E) as [E0|[[E1 _]|[[E1 _]|[(o & _ & E1 & _)|(o & E1 & _)]]]]; congruence. }
      assert (Hcl : cl g = ClDone -> cl g1 = ClDone).
      { intros Q. clear -E Q. destruct l; cbn [stepf label_conn] in E;
          try (destruct (getc g i) as [c|] eqn:Hg; [|discriminate];
               match type of E with
               | option_map _ (hstep _ _ ?lab) = _ =>
                   destruct (hstep (closing g) c lab) as [c'|]; [|discriminate]; inv_some E; exact Q
               end; fail).
        all: try (break_match E; inv_some E; try exact Q; try congruence). }
      destruct Hret as [Q|[Q1 Q2]]; [left; auto|right; auto]. }
  pose proof (inv_reach _ Hr') as Hinv.
  assert (Hc : closing g' = true).
  { destruct (inv_lock _ Hinv) as (_ & _ & L3 & _). destruct Hret' as [Q|[Q _]]; rewrite Q in L3; exact L3. }
  split; [assumption|]. split; [assumption|].
  intros i c Hi. destruct (inv_conn _ Hinv _ _ Hi) as (_ & _ & _ & _ & K5 & K6 & _).
  destruct (served c) eqn:Es; [left|right; split; [reflexivity|apply K5; reflexivity]].
  destruct Hret' as [Q|[_ Q]].
  - apply (sd_ok_reach _ Hr' (or_intror Q) _ _ Hi Es).
  - apply K6; [unfold cl_finished; rewrite Q; reflexivity|reflexivity].
Qed.

(* run() closes the listeners before it calls Shutdown: from then on the accept loop hands out nothing
   (a closed listener stays closed), so under run()'s order not even the one late accept of
   T11_late_accepts_closed_unserved happens *)
Fixpoint accepts (ls : list label) : Z :=
  match ls with [] => 0 | Acc _ :: r => 1 + accepts r | _ :: r => accepts r end.

Lemma lopen_step g l g' : stepf g l = Some g' -> lopen g = false -> lopen g' = false /\ (forall i, l <> Acc i).
Proof.
  intros Hs Hl. destruct l; cbn [stepf label_conn] in Hs;
    try (destruct (getc g i) as [c|] eqn:Hg; [|discriminate];
         match type of Hs with
         | option_map _ (hstep _ _ ?lab) = _ =>
             destruct (hstep (closing g) c lab) as [c'|]; [|discriminate]; inv_some Hs; split; [exact Hl|discriminate]
         end; fail).
  all: try (break_match Hs; inv_some Hs; (split; [cbn; first [exact Hl|reflexivity]|intros; discriminate]); fail).
  (* Acc *) rewrite Hl in Hs. cbn in Hs. break_match Hs.
Qed.

Theorem closed_listener_accepts_nothing ls : forall g g',
  lopen g = false -> runf g ls = Some g' -> lopen g' = false /\ accepts ls = 0.
Proof.
  induction ls as [|l r IH]; intros g g' Hl H; cbn [runf] in H.
  - inv_some H. split; [assumption|reflexivity].
  - destruct (stepf g l) as [g1|] eqn:E; [|discriminate].
    destruct (lopen_step _ _ _ E Hl) as [Hl1 Hn]. destruct (IH _ _ Hl1 H) as [A B].
    split; [assumption|]. destruct l; cbn [accepts]; try assumption. exfalso. eapply Hn. reflexivity.
Qed.
