(* G09 — the relay's windows are the receiver's ledger, and every release fits it
   (flow level: one relay, one receiving endpoint). *)
From FwdLib Require Import Bytes.
From G09 Require Import Tables H2Relay Ledger FlowBasics.
Open Scope N_scope.

(* queues hold frames of their own stream only; pseudo-stream 0 (created by the fall-through of
   updateWindow) never holds a frame *)
Definition QInv (fl : flow) : Prop :=
  forall s o, get_buf s (f_bufs fl) = Some o ->
    Forall (fun q => q_id q = s) (ob_q o) /\ (s = 0 -> ob_q o = []).

(* the relay's view of the receiver's windows is the receiver's own ledger *)
Definition WSim (fl : flow) (l : wled) : Prop :=
  f_conn fl = l_conn l /\ Z.of_N (f_init fl) = l_init l /\
  forall s, s <> 0 -> win_of fl s = led_window l s.

Lemma zget_zadd_same id d l : zget id (zadd id d l) = (zget id l + d)%Z.
Proof.
  induction l as [|[k v] r IH]; cbn [zadd zget].
  - rewrite N.eqb_refl. lia.
  - destruct (k =? id) eqn:E; cbn [zget]; rewrite E; [reflexivity|exact IH].
Qed.
Lemma zget_zadd_other id id' d l : id' <> id -> zget id' (zadd id d l) = zget id' l.
Proof.
  intro Hn. induction l as [|[k v] r IH]; cbn [zadd zget].
  - destruct (id =? id') eqn:E; [apply N.eqb_eq in E; congruence|reflexivity].
  - destruct (k =? id) eqn:E; cbn [zget].
    + apply N.eqb_eq in E. subst k. destruct (id =? id') eqn:E2; [apply N.eqb_eq in E2; congruence|reflexivity].
    + destruct (k =? id'); [reflexivity|exact IH].
Qed.

Lemma wl_recv_all_app l a c :
  wl_recv_all l (a ++ c) =
  let '(l1, o1) := wl_recv_all l a in let '(l2, o2) := wl_recv_all l1 c in (l2, o1 && o2).
Proof.
  revert l. induction a as [|f r IH]; intro l; cbn [app wl_recv_all].
  - destruct (wl_recv_all l c). reflexivity.
  - destruct (wl_recv l f) as [l1 a1]. rewrite IH.
    destruct (wl_recv_all l1 r) as [l2 a2]. destruct (wl_recv_all l2 c) as [l3 a3].
    rewrite andb_assoc. reflexivity.
Qed.

Lemma wl_recv_all_conts l id ch : wl_recv_all l (conts id ch) = (l, true).
Proof.
  induction ch as [|c r IH]; [reflexivity|].
  cbn [conts]. destruct r as [|c' r']; [reflexivity|].
  cbn [wl_recv_all wl_recv]. rewrite IH. reflexivity.
Qed.

(* a released non-DATA frame does not touch the credit ledger *)
Lemma wl_recv_all_send_nodata l q : fsz q = 0%Z -> (forall id es d, q <> QData id es d) ->
  (forall id es d m, q <> QDataP id es d m) ->
  wl_recv_all l (send q) = (l, true).
Proof.
  intros _ Hnd Hnp. destruct q; cbn [send wl_recv_all wl_recv]; try reflexivity.
  - exfalso. eapply Hnd. reflexivity.
  - exfalso. eapply Hnp. reflexivity.
  - rewrite wl_recv_all_conts. reflexivity.
  - rewrite wl_recv_all_conts. reflexivity.
Qed.

(* ---- a DATA frame written in pieces is, for the credit ledger, the frame written whole *)
Lemma zadd_zadd id x y l : zadd id x (zadd id y l) = zadd id (y + x)%Z l.
Proof.
  induction l as [|[k v] r IH]; cbn [zadd].
  - rewrite N.eqb_refl. reflexivity.
  - destruct (k =? id) eqn:E; cbn [zadd]; rewrite E; [f_equal; f_equal; lia|rewrite IH; reflexivity].
Qed.

Lemma len_app {A} (a c : list A) : len (a ++ c) = len a + len c.
Proof. unfold len. rewrite app_length. lia. Qed.

Lemma wl_two l id es a c :
  wl_recv_all l [WData id false a; WData id es c] = wl_recv_all l [WData id es (a ++ c)].
Proof.
  cbn [wl_recv_all wl_recv l_init l_conn l_adj]. unfold led_window. cbn [l_init l_adj].
  rewrite zget_zadd_same, zadd_zadd, len_app, N2Z.inj_add.
  set (A := Z.of_N (len a)). set (C := Z.of_N (len c)). set (w := (l_init l + zget id (l_adj l))%Z).
  assert (0 <= A)%Z by (unfold A; lia). assert (0 <= C)%Z by (unfold C; lia).
  f_equal.
  - f_equal; [lia|f_equal; lia].
  - replace (l_init l + (zget id (l_adj l) + - A))%Z with (w - A)%Z by (unfold w; lia).
    destruct (A <=? l_conn l)%Z eqn:E1, (A <=? w)%Z eqn:E2, (C <=? l_conn l - A)%Z eqn:E3, (C <=? w - A)%Z eqn:E4,
             (A + C <=? l_conn l)%Z eqn:E5, (A + C <=? w)%Z eqn:E6; cbn [andb]; try reflexivity;
      repeat match goal with
             | H : (_ <=? _)%Z = true |- _ => apply Z.leb_le in H
             | H : (_ <=? _)%Z = false |- _ => apply Z.leb_gt in H
             end; lia.
Qed.

Lemma wl_cons_congr l f r r' : (forall l1, wl_recv_all l1 r = wl_recv_all l1 r') ->
  wl_recv_all l (f :: r) = wl_recv_all l (f :: r').
Proof. intro H. cbn [wl_recv_all]. destruct (wl_recv l f) as [l1 a1]. rewrite H. reflexivity. Qed.

Lemma wl_pieces : forall fuel m id d es l,
  wl_recv_all l (wdata_pieces fuel m id d es) = wl_recv_all l [WData id es d].
Proof.
  induction fuel as [|k IH]; intros m id d es l; cbn [wdata_pieces]; [reflexivity|].
  destruct ((0 <? m) && (m <? len d)); [|reflexivity].
  rewrite (wl_cons_congr l _ _ [WData id es (dropN m d)] (fun l1 => IH m id (dropN m d) es l1)).
  rewrite wl_two. unfold takeN, dropN. rewrite firstn_skipn. reflexivity.
Qed.

Lemma wl_send_datap l id es d m : wl_recv_all l (send (QDataP id es d m)) = wl_recv_all l (send (QData id es d)).
Proof. cbn [send]. apply wl_pieces. Qed.

Section Gate.
  Hypothesis Hgate : emit_conn_blocks_on_gt = true /\ emit_stream_blocks_on_gt = true.
  Hypothesis Hdeb : emit_debits_conn = true /\ emit_debits_stream = true.

  Lemma not_blocked sz cw sw : blocked sz cw sw = false -> (sz <= cw)%Z /\ (sz <= sw)%Z.
  Proof.
    destruct Hgate as [Hc Hs]. unfold blocked. rewrite Hc, Hs. intro H.
    apply orb_false_iff in H as [H1 H2]. apply Z.ltb_ge in H1. apply Z.ltb_ge in H2. lia.
  Qed.

  (* releasing from the queue of stream s, seen by the receiver *)
  Lemma emit_q_wl : forall q s cw sw l,
    Forall (fun f => q_id f = s) q ->
    cw = l_conn l -> sw = led_window l s ->
    exists l',
      wl_recv_all l (sends (fst (snd (emit_q cw sw q)))) = (l', true) /\
      fst (fst (emit_q cw sw q)) = l_conn l' /\ snd (fst (emit_q cw sw q)) = led_window l' s /\
      l_init l' = l_init l /\ (forall s', s' <> s -> led_window l' s' = led_window l s').
  Proof.
    destruct Hdeb as [Hdc Hds].
    induction q as [|f r IH]; intros s cw sw l Hid Hc Hs; cbn [emit_q].
    - exists l. cbn [fst snd sends flat_map wl_recv_all]. auto.
    - destruct (blocked (fsz f) cw sw) eqn:Eb.
      + exists l. cbn [fst snd sends flat_map wl_recv_all]. auto.
      + apply not_blocked in Eb as [Hcw Hsw]. rewrite Hdc, Hds.
        inversion Hid as [|? ? Hf Hr]; subst.
        (* the ledger after receiving f *)
        assert (Hone : exists l1, wl_recv_all l (send f) = (l1, true) /\
                  l_conn l1 = (l_conn l - fsz f)%Z /\ led_window l1 (q_id f) = (led_window l (q_id f) - fsz f)%Z /\
                  l_init l1 = l_init l /\ (forall s', s' <> q_id f -> led_window l1 s' = led_window l s')).
        { assert (Hdata : forall id es d, q_id f = id -> fsz f = Z.of_N (len d) ->
                    wl_recv_all l (send f) = wl_recv_all l [WData id es d] ->
                    exists l1, wl_recv_all l (send f) = (l1, true) /\
                      l_conn l1 = (l_conn l - fsz f)%Z /\ led_window l1 (q_id f) = (led_window l (q_id f) - fsz f)%Z /\
                      l_init l1 = l_init l /\ (forall s', s' <> q_id f -> led_window l1 s' = led_window l s')).
          { intros id es d Hq Hsz Hsend. rewrite Hsend, Hq, Hsz in *. cbn [wl_recv_all wl_recv].
            eexists. split.
            + assert (E1 : (Z.of_N (len d) <=? l_conn l)%Z = true) by (apply Z.leb_le; lia).
              assert (E2 : (Z.of_N (len d) <=? led_window l id)%Z = true) by (apply Z.leb_le; lia).
              rewrite E1, E2. reflexivity.
            + cbn [l_conn l_init]. unfold led_window. cbn [l_init l_adj].
              repeat split; try lia.
              * rewrite zget_zadd_same. lia.
              * intros s' Hn. rewrite zget_zadd_other by exact Hn. reflexivity. }
          destruct f as [id es d|id es d m| | | |].
          - apply (Hdata id es d); reflexivity.
          - apply (Hdata id es d); [reflexivity|reflexivity|apply wl_send_datap].
          - exists l. rewrite wl_recv_all_send_nodata by (reflexivity || discriminate). cbn [fsz]. repeat split; try lia.
          - exists l. rewrite wl_recv_all_send_nodata by (reflexivity || discriminate). cbn [fsz]. repeat split; try lia.
          - exists l. rewrite wl_recv_all_send_nodata by (reflexivity || discriminate). cbn [fsz]. repeat split; try lia.
          - exists l. rewrite wl_recv_all_send_nodata by (reflexivity || discriminate). cbn [fsz]. repeat split; try lia. }
        destruct Hone as [l1 [Hr1 [Hc1 [Hw1 [Hi1 Ho1]]]]].
        destruct (IH (q_id f) (l_conn l - fsz f)%Z (led_window l (q_id f) - fsz f)%Z l1 Hr) as [l' [Hr' [Hc' [Hw' [Hi' Ho']]]]];
          [congruence|congruence|].
        destruct (emit_q (l_conn l - fsz f) (led_window l (q_id f) - fsz f) r) as [[cw' sw'] [em rest]] eqn:Ee.
        cbn [fst snd] in *. exists l'.
        cbn [sends flat_map]. rewrite wl_recv_all_app, Hr1. fold (sends em). rewrite Hr'.
        repeat split; try assumption; try congruence.
        intros s' Hn. rewrite Ho' by exact Hn. apply Ho1. exact Hn.
  Qed.
End Gate.

(* ---- lifting to the flow operations *)
Lemma win_of_set m i c b s o s' :
  win_of (mkFlow m i c (set_buf s o b)) s' = if s' =? s then ob_win o else win_of (mkFlow m i c b) s'.
Proof.
  unfold win_of, buf_or_new. cbn [f_bufs f_init].
  destruct (s' =? s) eqn:E.
  - apply N.eqb_eq in E. subst. rewrite get_set_same. reflexivity.
  - apply N.eqb_neq in E. rewrite get_set_other by exact E. reflexivity.
Qed.

Lemma win_of_irrel m i c b m' c' s : win_of (mkFlow m i c b) s = win_of (mkFlow m' i c' b) s.
Proof. reflexivity. Qed.

Lemma flow_eta fl : fl = mkFlow (f_max fl) (f_init fl) (f_conn fl) (f_bufs fl).
Proof. destruct fl; reflexivity. Qed.

Lemma QInv_set fl s o m i c :
  QInv fl -> Forall (fun q => q_id q = s) (ob_q o) -> (s = 0 -> ob_q o = []) ->
  QInv (mkFlow m i c (set_buf s o (f_bufs fl))).
Proof.
  intros HQ Hf H0 s' o' Hg. cbn [f_bufs] in Hg.
  destruct (N.eq_dec s' s) as [->|Hn].
  - rewrite get_set_same in Hg. inversion Hg; subst. split; assumption.
  - rewrite get_set_other in Hg by exact Hn. exact (HQ s' o' Hg).
Qed.

Lemma Forall_app_r {A} (P : A -> Prop) a c : Forall P (a ++ c) -> Forall P c.
Proof. intro H. apply Forall_app in H. tauto. Qed.

Section Ops.
  Hypothesis Hgate : emit_conn_blocks_on_gt = true /\ emit_stream_blocks_on_gt = true.
  Hypothesis Hdeb : emit_debits_conn = true /\ emit_debits_stream = true.

  (* the shape of every conclusion: the receiver accepts what was released and agrees on the windows afterwards *)
  Definition Released (fl' : flow) (em : list qframe) (l : wled) : Prop :=
    exists l', wl_recv_all l (sends em) = (l', true) /\ WSim fl' l' /\ QInv fl'.

  Lemma emit_stream_wl fl l s : WSim fl l -> QInv fl ->
    Released (fst (emit_stream s fl)) (snd (emit_stream s fl)) l.
  Proof.
    intros [Hc [Hi Hw]] HQ. unfold emit_stream.
    destruct (get_buf s (f_bufs fl)) as [o|] eqn:Eg.
    2:{ exists l. cbn [fst snd sends flat_map wl_recv_all]. split; [reflexivity|]. split; [repeat split; assumption|exact HQ]. }
    destruct (HQ s o Eg) as [Hids H0].
    destruct (N.eq_dec s 0) as [->|Hs0].
    - rewrite (H0 eq_refl). cbn [emit_q fst snd]. exists l. cbn [sends flat_map wl_recv_all].
      split; [reflexivity|]. split.
      + repeat split; cbn [f_conn f_init]; try assumption.
        intros s' Hn. rewrite win_of_set. destruct (s' =? 0) eqn:E; [apply N.eqb_eq in E; congruence|].
        rewrite <- (Hw s' Hn). rewrite (flow_eta fl) at 2. reflexivity.
      + apply QInv_set; [exact HQ|constructor|reflexivity].
    - assert (Hwin : ob_win o = led_window l s).
      { rewrite <- (Hw s Hs0). unfold win_of, buf_or_new. rewrite Eg. reflexivity. }
      destruct (emit_q_wl Hgate Hdeb (ob_q o) s (f_conn fl) (ob_win o) l Hids Hc Hwin) as [l' [Hr [Hc' [Hw' [Hi' Ho']]]]].
      pose proof (emit_q_split (f_conn fl) (ob_win o) (ob_q o)) as Hsp.
      destruct (emit_q (f_conn fl) (ob_win o) (ob_q o)) as [[cw sw] [em rest]].
      cbn [fst snd] in *. exists l'. split; [exact Hr|]. split.
      + repeat split; cbn [f_conn f_init]; try congruence.
        intros s' Hn. rewrite win_of_set. destruct (s' =? s) eqn:E.
        * apply N.eqb_eq in E. subst s'. cbn [ob_win]. exact Hw'.
        * apply N.eqb_neq in E. rewrite (Ho' s' E). rewrite <- (Hw s' Hn). rewrite (flow_eta fl) at 2. reflexivity.
      + apply QInv_set; [exact HQ| |intro; congruence].
        cbn [ob_q]. rewrite <- Hsp in Hids. exact (Forall_app_r _ _ _ Hids).
  Qed.

  Lemma Released_seq fl1 em1 fl2 em2 l :
    Released fl1 em1 l ->
    (forall l1, WSim fl1 l1 -> QInv fl1 -> Released fl2 em2 l1) ->
    Released fl2 (em1 ++ em2) l.
  Proof.
    intros [l1 [Hr1 [Hs1 Hq1]]] H2. destruct (H2 l1 Hs1 Hq1) as [l2 [Hr2 [Hs2 Hq2]]].
    exists l2. unfold sends in *. rewrite flat_map_app, wl_recv_all_app, Hr1, Hr2. auto.
  Qed.

  Lemma scan_ids_wl ids : forall fl l, WSim fl l -> QInv fl ->
    Released (fst (scan_ids ids fl)) (snd (scan_ids ids fl)) l.
  Proof.
    induction ids as [|id r IH]; intros fl l Hs Hq; cbn [scan_ids].
    - exists l. cbn [fst snd sends flat_map wl_recv_all]. auto.
    - pose proof (emit_stream_wl fl l id Hs Hq) as H1.
      destruct (emit_stream id fl) as [fl1 e1]. cbn [fst snd] in H1.
      specialize (IH fl1). destruct (scan_ids r fl1) as [fl2 e2]. cbn [fst snd] in *.
      eapply Released_seq; [exact H1|]. intros l1 Hs1 Hq1. exact (IH l1 Hs1 Hq1).
  Qed.

  (* enqueueFrame / one iteration of data(): a frame of a real stream is appended, then the stream is scanned *)
  Lemma enqueue_emit_wl fl l q : q_id q <> 0 -> WSim fl l -> QInv fl ->
    Released (fst (enqueue_emit q fl)) (snd (enqueue_emit q fl)) l.
  Proof.
    intros Hid [Hc [Hi Hw]] HQ. unfold enqueue_emit.
    apply emit_stream_wl.
    - repeat split; try assumption.
      intros s Hn. unfold with_buf. rewrite win_of_set. cbn [ob_win].
      destruct (s =? q_id q) eqn:E.
      + apply N.eqb_eq in E. subst s. apply (Hw _ Hn).
      + rewrite <- (Hw s Hn). rewrite (flow_eta fl) at 2. reflexivity.
    - unfold with_buf. apply QInv_set; [exact HQ| |intro; congruence].
      cbn [ob_q]. apply Forall_app. split; [|repeat constructor].
      unfold buf_or_new. destruct (get_buf (q_id q) (f_bufs fl)) as [o|] eqn:Eg; [apply (HQ _ _ Eg)|constructor].
  Qed.

  Lemma enqueue_all_wl qs : forall fl l, Forall (fun q => q_id q <> 0) qs -> WSim fl l -> QInv fl ->
    Released (fst (enqueue_all qs fl)) (snd (enqueue_all qs fl)) l.
  Proof.
    induction qs as [|q r IH]; intros fl l Hid Hs Hq; cbn [enqueue_all].
    - exists l. cbn [fst snd sends flat_map wl_recv_all]. auto.
    - inversion Hid; subst.
      pose proof (enqueue_emit_wl fl l q H1 Hs Hq) as Hone.
      destruct (enqueue_emit q fl) as [fl1 e1]. cbn [fst snd] in Hone.
      specialize (IH fl1). destruct (enqueue_all r fl1) as [fl2 e2]. cbn [fst snd] in *.
      eapply Released_seq; [exact Hone|]. intros l1 Hs1 Hq1. exact (IH l1 H2 Hs1 Hq1).
  Qed.
End Ops.

Lemma get_buf_map g l s :
  get_buf s (map (fun ko : N * obuf => (fst ko, g (snd ko))) l) = option_map g (get_buf s l).
Proof.
  induction l as [|[k o] r IH]; cbn [map get_buf fst snd]; [reflexivity|].
  destruct (k =? s); [reflexivity|exact IH].
Qed.

Section Ops2.
  Hypothesis Hgate : emit_conn_blocks_on_gt = true /\ emit_stream_blocks_on_gt = true.
  Hypothesis Hdeb : emit_debits_conn = true /\ emit_debits_stream = true.
  Hypothesis Hconn : settings_delta_touches_conn = false.

  Lemma scan_all_wl order fl l : WSim fl l -> QInv fl ->
    Released (fst (scan_all order fl)) (snd (scan_all order fl)) l.
  Proof. intros. unfold scan_all. apply scan_ids_wl; assumption. Qed.

  Lemma buf0_queue_empty fl : QInv fl -> ob_q (buf_or_new fl 0) = [].
  Proof.
    intro HQ. unfold buf_or_new. destruct (get_buf 0 (f_bufs fl)) as [o|] eqn:E; [|reflexivity].
    exact (proj2 (HQ 0 o E) eq_refl).
  Qed.

  (* updateWindow, as seen by the endpoint that sent the WINDOW_UPDATE *)
  Lemma update_window_wl id inc order fl l : WSim fl l -> QInv fl ->
    Released (fst (update_window id inc order fl)) (snd (update_window id inc order fl)) (wl_sent l (RWinUpd id inc)).
  Proof.
    intros [Hc [Hi Hw]] HQ. unfold update_window. cbn [wl_sent].
    destruct (id =? 0) eqn:E0.
    - apply N.eqb_eq in E0. subst id.
      set (fl0 := mkFlow (f_max fl) (f_init fl) (f_conn fl + Z.of_N inc)%Z (f_bufs fl)).
      set (l1 := mkWl (l_init l) (l_conn l + Z.of_N inc)%Z (l_adj l)).
      assert (Hs0 : WSim fl0 l1).
      { split; [cbn [f_conn l_conn fl0 l1]; lia|]. split; [exact Hi|].
        intros s Hn. exact (Hw s Hn). }
      assert (Hq0 : QInv fl0) by exact HQ.
      pose proof (scan_all_wl order fl0 l1 Hs0 Hq0) as H1.
      destruct (scan_all order fl0) as [fl1 e1]. cbn [fst snd] in H1.
      cbn [andb]. destruct wu_conn_falls_through; cbn [negb]; [|cbn [fst snd]; exact H1].
      set (o := buf_or_new fl1 0).
      pose proof (fun l2 (Hs : WSim (with_buf fl1 0 (mkOb (ob_win o + Z.of_N inc) (ob_q o))) l2) Hq =>
                    emit_stream_wl Hgate Hdeb _ l2 0 Hs Hq) as H2.
      destruct (emit_stream 0 (with_buf fl1 0 (mkOb (ob_win o + Z.of_N inc) (ob_q o)))) as [fl2 e2].
      cbn [fst snd] in *. eapply Released_seq; [exact H1|].
      intros l2 [Hc2 [Hi2 Hw2]] Hq2. apply H2.
      + repeat split; try assumption.
        intros s Hn. unfold with_buf. rewrite win_of_set.
        destruct (s =? 0) eqn:E; [apply N.eqb_eq in E; congruence|].
        rewrite <- (Hw2 s Hn). rewrite (flow_eta fl1) at 2. reflexivity.
      + unfold with_buf. apply QInv_set; [exact Hq2| |intros _]; cbn [ob_q]; subst o;
          rewrite (buf0_queue_empty fl1 Hq2); [constructor|reflexivity].
    - apply N.eqb_neq in E0. cbn [andb fst snd].
      set (o := buf_or_new fl id).
      pose proof (fun l2 (Hs : WSim (with_buf fl id (mkOb (ob_win o + Z.of_N inc) (ob_q o))) l2) Hq =>
                    emit_stream_wl Hgate Hdeb _ l2 id Hs Hq) as H2.
      destruct (emit_stream id (with_buf fl id (mkOb (ob_win o + Z.of_N inc) (ob_q o)))) as [fl2 e2].
      cbn [fst snd app] in *. apply H2.
      + repeat split; cbn [l_conn l_init]; try assumption.
        intros s Hn. unfold with_buf. rewrite win_of_set. unfold led_window. cbn [l_init l_adj ob_win].
        destruct (s =? id) eqn:E.
        * apply N.eqb_eq in E. subst s. rewrite zget_zadd_same. subst o. fold (win_of fl id). rewrite (Hw id Hn). unfold led_window. lia.
        * apply N.eqb_neq in E. rewrite zget_zadd_other by exact E. rewrite <- flow_eta. apply (Hw s Hn).
      + unfold with_buf. apply QInv_set; [exact HQ| |]; cbn [ob_q]; subst o; unfold buf_or_new;
          destruct (get_buf id (f_bufs fl)) as [o'|] eqn:Eg; try constructor; try reflexivity.
        * exact (proj1 (HQ id o' Eg)).
        * exact (proj2 (HQ id o' Eg)).
  Qed.

  (* updateInitialWindowSize, as seen by the endpoint that sent the SETTINGS value *)
  Lemma update_init_wl v order fl l : WSim fl l -> QInv fl ->
    Released (fst (update_init v order fl)) (snd (update_init v order fl)) (mkWl (Z.of_N v) (l_conn l) (l_adj l)).
  Proof.
    intros [Hc [Hi Hw]] HQ. unfold update_init. rewrite Hconn. cbv zeta.
    set (g := fun o : obuf => mkOb (ob_win o + (Z.of_N v - Z.of_N (f_init fl)))%Z (ob_q o)).
    change (map _ (f_bufs fl)) with (map (fun ko : N * obuf => (fst ko, g (snd ko))) (f_bufs fl)).
    apply scan_all_wl.
    - split; [exact Hc|]. split; [reflexivity|].
      intros s Hn. unfold win_of, buf_or_new, led_window. cbn [f_bufs f_init l_init l_adj].
      rewrite get_buf_map. specialize (Hw s Hn). unfold win_of, buf_or_new, led_window in Hw.
      destruct (get_buf s (f_bufs fl)) as [o|]; cbn [option_map ob_win g] in *; lia.
    - intros s o Hg. cbn [f_bufs] in Hg. rewrite get_buf_map in Hg.
      destruct (get_buf s (f_bufs fl)) as [o'|] eqn:Eg; cbn [option_map] in Hg; [|discriminate].
      inversion Hg; subst. cbn [ob_q g]. exact (HQ s o' Eg).
  Qed.

  (* data(): every piece belongs to the stream of the DATA frame *)
  Lemma data_pieces_ids : forall fuel max id d es ps,
    data_pieces fuel max id d es = Some ps -> Forall (fun q => q_id q = id) ps.
  Proof.
    induction fuel as [|k IH]; intros max id d es ps H; cbn [data_pieces] in H; [discriminate|].
    destruct (dropN (N.min (len d) max) d) as [|x rest].
    - inversion H; subst. repeat constructor.
    - destruct (data_pieces k max id (x :: rest) es) as [ps'|] eqn:E; cbn [option_map] in H; [|discriminate].
      inversion H; subst. constructor; [reflexivity|]. exact (IH _ _ _ _ _ E).
  Qed.

  Lemma with_buf_same_wl fl l id : WSim fl l -> QInv fl ->
    WSim (with_buf fl id (buf_or_new fl id)) l /\ QInv (with_buf fl id (buf_or_new fl id)).
  Proof.
    intros [Hc [Hi Hw]] HQ. split.
    - repeat split; try assumption.
      intros s Hn. unfold with_buf. rewrite win_of_set.
      destruct (s =? id) eqn:E.
      + apply N.eqb_eq in E. subst s. apply (Hw id Hn).
      + rewrite <- flow_eta. apply (Hw s Hn).
    - unfold with_buf. unfold buf_or_new.
      destruct (get_buf id (f_bufs fl)) as [o|] eqn:Eg.
      + apply QInv_set; [exact HQ|exact (proj1 (HQ id o Eg))|exact (proj2 (HQ id o Eg))].
      + apply QInv_set; [exact HQ|constructor|reflexivity].
  Qed.
End Ops2.
