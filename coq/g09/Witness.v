(* G09 — concrete histories: witnesses of the refuted statements and non-vacuity examples. *)
From FwdLib Require Import Bytes.
From G09 Require Import Tables H2Relay Ledger Check PairBasics PairWin LedgerFormula SizeProofs FifoProofs PairFifo Spec Fidelity.
Open Scope N_scope.

(* a codec that decodes nothing (enough for histories without header blocks) *)
Definition unit_dec (_ : unit) (_ : list N) : option (list field) * unit := (None, tt).
Definition unit_enc (_ : unit) (_ : list field) : list N * unit := ([], tt).
Definition unit_res (_ : unit) (_ : N) : unit := tt.
Notation urun := (H2Relay.run unit_dec unit_enc unit_res unit_res (pair0 unit unit tt tt tt tt)).

Ltac wf_tac := unfold hist_wf; repeat (constructor; [cbn [e_frame frame_wf count4 N.eqb Pos.eqb]; try lia; try exact I|]); constructor.
Ltac small_tac := unfold hist_small; repeat (constructor; [cbn [e_frame frame_small count5 N.eqb Pos.eqb]; try exact I; try (split; [unfold len; cbn [length N.of_nat]; lia|lia]); unfold len; cbn [length N.of_nat]; try lia|]); constructor.

Definition lowered_while_queued : list event :=
  [mkEv Sv (RSettings false [(4, 10); (5, 32768)]) [[]]; mkEv Cl (RSettings true []) [];
   mkEv Cl (RData 1 true (Check.run 7 30000) 30000) []; mkEv Sv (RSettings false [(5, 16384)]) [];
   mkEv Cl (RSettings true []) []; mkEv Sv (RWinUpd 1 40000) []].
Lemma lowered_wf : hist_wf lowered_while_queued.
Proof. unfold lowered_while_queued. wf_tac. Qed.
Lemma lowered_small : hist_small lowered_while_queued.
Proof. unfold lowered_while_queued. small_tac. Qed.
(* since DATA is split again when it is released the old counterexample is handled correctly *)
Lemma lowered_now_fine : sizes_within_tolerated Sv (snd (urun lowered_while_queued)) = true.
Proof. vm_compute. reflexivity. Qed.

Definition two_initial_windows : list event :=
  [mkEv Cl (RData 1 false (Check.run 3 70000) 70000) []; mkEv Sv (RWinUpd 0 100000) [[]];
   mkEv Sv (RSettings false [(4, 100000); (4, 0)]) [[]; []]].
Lemma two_initial_refutes : windows_respected Sv (snd (urun two_initial_windows)) = false.
Proof. vm_compute. reflexivity. Qed.

Definition example_hist : list event :=
  [mkEv Sv (RSettings false [(4, 10)]) [[]]; mkEv Cl (RData 1 false (Check.run 1 25) 25) [];
   mkEv Sv (RSettings false [(4, 3)]) [[1]]; mkEv Sv (RWinUpd 1 30) []; mkEv Sv (RWinUpd 0 1) [[1]]].
Lemma example_wf : hist_wf example_hist.
Proof. unfold example_hist. wf_tac. Qed.
Lemma example_small : hist_small example_hist.
Proof. unfold example_hist. small_tac. Qed.
Lemma example_ok : all_ok (snd (urun example_hist)).
Proof. vm_compute. repeat constructor. Qed.
Lemma example_window : win_of (r_flow (toS (fst (urun example_hist)))) 1 = 8%Z.
Proof. vm_compute. reflexivity. Qed.

(* the three terms of the closed form on that history: latest INITIAL_WINDOW_SIZE 3, granted 30, received 25 *)
Lemma example_formula :
  latest_init Sv (Z.of_N default_initial_window) (snd (urun example_hist)) = 3%Z /\
  sum_grants_on Sv 1 (snd (urun example_hist)) = 30%Z /\ sum_data_on Sv 1 (snd (urun example_hist)) = 25%Z /\
  sum_conn_grants Sv (snd (urun example_hist)) = 1%Z /\ sum_data Sv (snd (urun example_hist)) = 25%Z.
Proof. vm_compute. repeat split. Qed.

(* a codec with a single header list: every block decodes to [a: b] and is encoded as one byte *)
Definition one_dec (_ : unit) (_ : list N) : option (list field) * unit := (Some [(b "a", b "b", false)], tt).
Definition one_enc (_ : unit) (_ : list field) : list N * unit := ([130], tt).
Notation orun := (H2Relay.run one_dec one_enc unit_res unit_res (pair0 unit unit tt tt tt tt)).

Definition fid_hist : list event :=
  [mkEv Sv (RSettings false [(4, 3)]) [[]];
   mkEv Cl (RHeaders 1 false false prio0 [1]) []; mkEv Cl (RCont 1 false [2]) []; mkEv Cl (RCont 1 true []) [];
   mkEv Cl (RData 1 false [1; 2; 3] 3) []; mkEv Cl (RData 1 false [4; 5] 2) [];
   mkEv Cl (RHeaders 1 true true prio0 [9]) []].
Lemma fid_wf : hist_wf fid_hist.
Proof. unfold fid_hist. wf_tac. Qed.
Lemma fid_seq : seq_wf None (inputs Cl fid_hist).
Proof. vm_compute. auto. Qed.
Lemma fid_ok : all_ok (snd (orun fid_hist)).
Proof. vm_compute. repeat constructor. Qed.
Lemma fid_content : qcontent (on 1 (emitted_to Sv (snd (orun fid_hist)))) = [EHdr (Some [(b "a", b "b", false)]) false prio0; EData [1; 2; 3]].
Proof. vm_compute. reflexivity. Qed.
