(* C10 — property theorems.  Nothing but statements, `exact`, Print Assumptions. *)
From FwdLib Require Import Bytes.
From G09 Require Import Tables H2Relay Ledger Check Term Obligations.
Open Scope N_scope.

Theorem T10_chunks_terminate : forall first cmax data, 0 < cmax -> split_chunks first cmax data <> None.
Proof. exact split_chunks_terminates. Qed.
Print Assumptions T10_chunks_terminate.
