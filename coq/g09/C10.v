(* C10 — property theorems.  Nothing but statements, `exact`, Print Assumptions. *)
From FwdLib Require Import Bytes.
From G09 Require Import Tables H2Relay Ledger Check Term Obligations Obligations10 FlowBasics PairBasics Lift PairWin PairMisc
  FifoProofs PairFifo NoStrand Deliver Spec Content Fidelity Misc10 ToyCodec Witness.
Open Scope N_scope.

(* Per-stream order: for every history in which no frame was refused, every endpoint x and every stream s,
   the frames released towards x on s followed by the frames still held for x on s are exactly the frames
   queued for x on s, in the order they were queued (DATA and zero-cost frames share the queue).  Frames
   are compared without their chunks: a header frame's block is encoded when it is released. *)
Theorem T10_fifo :
  forall (dstate estate : Type) dec enc dresize eresize (evs : list event) (d1 : dstate) (e1 : estate) d2 e2 x s,
    hist_wf evs ->
    let r := H2Relay.run dec enc dresize eresize (pair0 dstate estate d1 e1 d2 e2) evs in
    all_ok (snd r) ->
    map strip (on s (emitted_to x (snd r)) ++ queue_of (r_flow (toward x (fst r))) s) = map strip (on s (enqueued_for x (snd r))).
Proof. exact fifo_from_start. Qed.
Print Assumptions T10_fifo.

(* Fidelity: the logical content of what has been released towards x on stream s, followed by what is
   still held, is the content the other endpoint put on s: header lists as decoded from the reassembled
   block (HEADERS or PUSH_PROMISE + CONTINUATION fragments, any split), END_STREAM on the same element,
   priority, concatenated DATA bytes, RST_STREAM code, PRIORITY - in the same order.
   seq_wf: the ordering http2.Framer enforces on what it returns; all_ok: no frame was refused. *)
Theorem T10_fidelity :
  forall (dstate estate : Type) dec enc dresize eresize (evs : list event) (d1 : dstate) (e1 : estate) d2 e2 x s,
    hist_wf evs -> seq_wf None (inputs (other x) evs) ->
    let r := H2Relay.run dec enc dresize eresize (pair0 dstate estate d1 e1 d2 e2) evs in
    all_ok (snd r) ->
    qcontent (on s (emitted_to x (snd r)) ++ queue_of (r_flow (toward x (fst r))) s) =
    spec_content dstate dec s (r_dst (toward x (pair0 dstate estate d1 e1 d2 e2))) (inputs (other x) evs).
Proof. exact (fun ds es dec enc dr er => fidelity_from_start ds es dec enc dr er ob_cont_end_stream_from_frame ob_decoder_not_resized). Qed.
Print Assumptions T10_fidelity.

(* hence what has been released is always an initial part of what was sent *)
Theorem T10_prefix_order :
  forall (dstate estate : Type) dec enc dresize eresize (evs : list event) (d1 : dstate) (e1 : estate) d2 e2 x s,
    hist_wf evs -> seq_wf None (inputs (other x) evs) ->
    let r := H2Relay.run dec enc dresize eresize (pair0 dstate estate d1 e1 d2 e2) evs in
    all_ok (snd r) ->
    exists held, qcontent (on s (emitted_to x (snd r)) ++ held) =
                 spec_content dstate dec s (r_dst (toward x (pair0 dstate estate d1 e1 d2 e2))) (inputs (other x) evs).
Proof.
  exact (fun ds es dec enc dr er evs d1 e1 d2 e2 x s Hwf Hseq Hok =>
           ex_intro _ _ (fidelity_from_start ds es dec enc dr er ob_cont_end_stream_from_frame ob_decoder_not_resized
                           evs d1 e1 d2 e2 x s Hwf Hseq Hok)).
Qed.
Print Assumptions T10_prefix_order.

(* Nothing is stranded: after every frame of every history, in both relays, the head of every queue fails
   the gate of emitEligibleFrames, i.e. (ob_emit_gate) is larger than the stream window or the connection window. *)
Theorem T10_no_stranding :
  forall (dstate estate : Type) dec enc dresize eresize (evs : list event) (d1 : dstate) (e1 : estate) d2 e2,
    let p := fst (H2Relay.run dec enc dresize eresize (pair0 dstate estate d1 e1 d2 e2) evs) in
    NS (r_flow (toC p)) /\ NS (r_flow (toS p)).
Proof. exact (fun ds es dec enc dr er evs d1 e1 d2 e2 => run_NS ds es dec enc dr er evs (pair0 ds es d1 e1 d2 e2) NS0 NS0). Qed.
Print Assumptions T10_no_stranding.

(* ... and once both windows cover what is queued for a stream, scanning it empties the queue. *)
Theorem T10_drains : forall s fl o, get_buf s (f_bufs fl) = Some o ->
  (qtot (ob_q o) <= f_conn fl)%Z -> (qtot (ob_q o) <= ob_win o)%Z -> queue_of (fst (emit_stream s fl)) s = [].
Proof. exact (emit_stream_drains ob_emit_gate ob_emit_debits). Qed.
Print Assumptions T10_drains.

(* "Whenever the receiver's windows permit, every queued frame is delivered", with the RECEIVER's own ledger
   (its SETTINGS / WINDOW_UPDATEs and the DATA it received, computed from the trace alone): after every
   history in which no frame was refused, a frame is still held for stream s only if it does not fit the
   receiver's connection window or its window for s. *)
Theorem T10_delivered_when_permitted :
  forall (dstate estate : Type) dec enc dresize eresize (evs : list event) (d1 : dstate) (e1 : estate) d2 e2 x s f rest,
    hist_wf evs -> all_ok (snd (H2Relay.run dec enc dresize eresize (pair0 dstate estate d1 e1 d2 e2) evs)) -> s <> 0 ->
    queue_of (r_flow (toward x (fst (H2Relay.run dec enc dresize eresize (pair0 dstate estate d1 e1 d2 e2) evs)))) s = f :: rest ->
    let l := final_wled x (snd (H2Relay.run dec enc dresize eresize (pair0 dstate estate d1 e1 d2 e2) evs)) in
    (l_conn l < fsz f)%Z \/ (led_window l s < fsz f)%Z.
Proof. exact (fun ds es dec enc dr er => held_only_without_credit ds es dec enc dr er ob_emit_gate ob_emit_debits ob_settings_delta_not_on_connection). Qed.
Print Assumptions T10_delivered_when_permitted.

(* What the RECEIVING endpoint decodes: if its HPACK decoder is correct with respect to the relay's encoder
   (hypothesis Henc: in step -> the next encoded block decodes to the encoded list and they stay in step;
   Hres: the encoder's table-size changes travel in-band), then decoding the header blocks of everything one
   relay writes in a step, in wire order, yields exactly the header lists of the released frames, in order,
   and the two stay in step for the next step. *)
Theorem T10_receiver_decodes :
  forall (estate rstate : Type) enc eresize (rdec : rstate -> list N -> option (list field) * rstate) (Sync : estate -> rstate -> Prop),
    (forall est rst f bytes est', Sync est rst -> enc est f = (bytes, est') -> exists rst', rdec rst bytes = (Some f, rst') /\ Sync est' rst') ->
    (forall est rst v, Sync est rst -> Sync (eresize est v) rst) ->
    forall l est maxp l' est' rst,
      run_script enc eresize est maxp l = Some (l', est') -> Sync est rst ->
      fst (rdecode rstate rdec rst (blocks l')) = map Some (hdr_lists l') /\ hdr_lists l' = hdr_lists l /\
      Sync est' (snd (rdecode rstate rdec rst (blocks l'))).
Proof. exact receiver_decodes_what_was_queued. Qed.
Print Assumptions T10_receiver_decodes.

(* the hypotheses of T10_receiver_decodes are satisfiable: a length-prefixed codec *)
Example T10_receiver_decodes_example :
  forall est rst f bytes est', True -> toy_enc est f = (bytes, est') -> exists rst', toy_dec rst bytes = (Some f, rst') /\ True.
Proof. exact toy_correct. Qed.

(* SETTINGS, SETTINGS ACK, PING, GOAWAY: relayed one for one to the other endpoint in the same step. *)
Theorem T10_conn_frames :
  forall (dstate estate : Type) dec enc dresize eresize (evs : list event) (p : pair dstate estate),
    forallb conn_stepb (snd (H2Relay.run dec enc dresize eresize p evs)) = true.
Proof. exact conn_frames_run. Qed.
Print Assumptions T10_conn_frames.

(* SETTINGS_HEADER_TABLE_SIZE of endpoint x bounds the encoder of the relay sending to x, and no other encoder. *)
Theorem T10_table_size :
  forall (dstate estate : Type) dec enc dresize eresize (p : pair dstate estate) from v orders,
    r_est (toward from (s_pair (pstep dec enc dresize eresize p from (RSettings false [(1, v)]) orders))) = eresize (r_est (toward from p)) v /\
    r_est (toward (other from) (s_pair (pstep dec enc dresize eresize p from (RSettings false [(1, v)]) orders))) = r_est (toward (other from) p).
Proof. exact table_size_step. Qed.
Print Assumptions T10_table_size.

(* The wire form of a queued header block: HEADERS (same stream, END_STREAM and priority as queued) then
   CONTINUATION frames of that stream, END_HEADERS on the last frame only, fragments = the chunks ... *)
Theorem T10_wire_headers : forall id es p fields c0 rest,
  let ws := send (QHdr id es p fields (c0 :: rest)) in
  hd_error ws = Some (WHeaders id es (match rest with [] => true | _ => false end) p c0) /\
  concat (map frag_of ws) = concat (c0 :: rest) /\
  Forall (fun w => w_id w = id) ws /\
  map ends_headers ws = repeat false (length rest) ++ [true].
Proof. exact send_headers_wire. Qed.
Print Assumptions T10_wire_headers.

(* ... and the chunks are the encoded block: splitIntoChunks loses and reorders nothing. *)
Theorem T10_chunks_lossless : forall first cmax data ch,
  split_chunks first cmax data = Some ch -> concat ch = data /\ ch <> [].
Proof. exact split_chunks_concat. Qed.
Print Assumptions T10_chunks_lossless.

(* The wire form of a released DATA frame, for EVERY max frame size recorded at release (the repair 46c7d86
   splits a queued DATA frame again when the receiver lowered MAX_FRAME_SIZE in the meantime): only DATA frames
   of the same stream, payloads concatenating to the queued octets, END_STREAM (the queued value) on the last
   piece and on no other.  With T10_fidelity (queue level) this gives "same concatenated DATA bytes, END_STREAM
   on the same element" on the wire. *)
Theorem T10_wire_data : forall id es d m,
  let ws := send (QDataP id es d m) in
  concat (map data_of ws) = d /\
  Forall (fun w => is_wdata w = true /\ w_id w = id) ws /\
  exists k, map ends_stream ws = repeat false k ++ [es].
Proof. exact send_data_wire. Qed.
Print Assumptions T10_wire_data.

(* HPACK is stateful: the receiver can only decode header blocks in the order the relay's encoder produced
   them.  Whatever one relay writes during a step - frames of any streams released in any order, encoder
   resizes in between - the header blocks on the wire, in wire order, are exactly the successive outputs of
   its encoder (ob_hpack_at_release: the source encodes in emitEligibleFrames, when a frame enters the
   output channel; the unrepaired code encoded when a frame was queued, and a block queued behind blocked
   DATA was overtaken by later blocks of other streams). *)
Theorem T10_blocks_in_encoding_order :
  forall (estate : Type) enc eresize (l : list oframe) (est : estate) maxp l' est',
    hpack_at_release = true ->
    run_script enc eresize est maxp l = Some (l', est') -> blocks l' = enc_trace estate enc eresize est l.
Proof. exact (fun E enc er l est maxp l' est' _ => blocks_in_encoding_order E enc er l est maxp l' est'). Qed.
Print Assumptions T10_blocks_in_encoding_order.
Theorem T10_source_encodes_at_release : hpack_at_release = true.
Proof. exact ob_hpack_at_release. Qed.

(* The client preface is forwarded whatever way the transport cuts the client's first bytes into reads. *)
Theorem T10_preface_any_segmentation : forall reads tail, concat reads = connection_preface ++ tail ->
  fst (forward_preface reads) = Some connection_preface /\ concat (snd (forward_preface reads)) = tail.
Proof. exact (preface_any_segmentation ob_preface_read_full). Qed.
Print Assumptions T10_preface_any_segmentation.

(* The relay's own HPACK decoder accepts, and its encoder may use, any dynamic table size an endpoint can
   negotiate (newRelay lifts x/net's 4096-octet defaults to MaxUint32): a fact about the source only; the
   behaviour is observed with HEADER_TABLE_SIZE values of 65537, 2^20 and 2^24 followed by header blocks that
   carry the size update of the peer's real hpack.Encoder. *)
Theorem T10_hpack_table_limits_unbounded : hpack_limits_unbounded = true.
Proof. exact ob_hpack_limits_unbounded. Qed.

(* Hand-off from the MITM path (proxy_conn.go handleMITM): the read deadline armed for the client's TLS
   handshake is cleared before the connection is given to h2.Config.Proxy, whose relays never touch
   deadlines.  This is a fact about the source only (obligation); the behaviour is observed by the MITM
   hand-off scenario of the harness (a request after an idle period longer than the handshake timeout). *)
Theorem T10_mitm_handoff_clears_read_deadline : mitm_deadline_cleared_before_h2 = true.
Proof. exact ob_mitm_deadline_cleared_before_h2. Qed.

(* Non-vacuity: the hypotheses of T10_fidelity are met by a history with a header block split over
   CONTINUATION frames, queued DATA and trailers. *)
Example T10_example :
  hist_wf fid_hist /\ seq_wf None (inputs Cl fid_hist) /\
  all_ok (snd (H2Relay.run one_dec one_enc unit_res unit_res (pair0 unit unit tt tt tt tt) fid_hist)) /\
  qcontent (on 1 (emitted_to Sv (snd (H2Relay.run one_dec one_enc unit_res unit_res (pair0 unit unit tt tt tt tt) fid_hist)))) =
    [EHdr (Some [(b "a", b "b", false)]) false prio0; EData [1; 2; 3]].
Proof. exact (conj fid_wf (conj fid_seq (conj fid_ok fid_content))). Qed.
