(* G09 — per-stream FIFO: what has been released on a stream, followed by what is still queued for it,
   is exactly what was queued for it, in order (flow level). *)
From FwdLib Require Import Bytes.
From G09 Require Import Tables H2Relay FlowBasics WinProofs.
Open Scope N_scope.

Definition on (s : N) (l : list qframe) : list qframe := filter (fun q => q_id q =? s) l.

Lemma on_app s a c : on s (a ++ c) = on s a ++ on s c.
Proof. unfold on. apply filter_app. Qed.

Lemma on_all s l : Forall (fun q => q_id q = s) l -> on s l = l.
Proof.
  induction 1 as [|q r Hq _ IH]; [reflexivity|]. unfold on in *. cbn [filter].
  rewrite Hq, N.eqb_refl, IH. reflexivity.
Qed.
Lemma on_none s s' l : s' <> s -> Forall (fun q => q_id q = s) l -> on s' l = [].
Proof.
  intros Hn. induction 1 as [|q r Hq _ IH]; [reflexivity|]. unfold on in *. cbn [filter].
  rewrite Hq. destruct (s =? s') eqn:E; [apply N.eqb_eq in E; congruence|exact IH].
Qed.

(* op took fl to fl', queued enq (in order) and released em (in order) *)
Definition Fifo (fl : flow) (enq : list qframe) (fl' : flow) (em : list qframe) : Prop :=
  (forall s, on s em ++ queue_of fl' s = queue_of fl s ++ on s enq) /\ (QInv fl -> QInv fl').

Lemma Fifo_refl fl : Fifo fl [] fl [].
Proof. split; [intro s; cbn; rewrite app_nil_r; reflexivity|auto]. Qed.

Lemma Fifo_seq fl enq1 fl1 em1 enq2 fl2 em2 :
  Fifo fl enq1 fl1 em1 -> Fifo fl1 enq2 fl2 em2 -> Fifo fl (enq1 ++ enq2) fl2 (em1 ++ em2).
Proof.
  intros [H1 Q1] [H2 Q2]. split; [|auto].
  intro s. rewrite !on_app, <- app_assoc, H2, app_assoc, H1, <- app_assoc. reflexivity.
Qed.

Lemma queue_of_set m i c b s o s' :
  queue_of (mkFlow m i c (set_buf s o b)) s' = if s' =? s then ob_q o else queue_of (mkFlow m i c b) s'.
Proof.
  unfold queue_of, buf_or_new. cbn [f_bufs f_init].
  destruct (s' =? s) eqn:E.
  - apply N.eqb_eq in E. subst. rewrite get_set_same. reflexivity.
  - apply N.eqb_neq in E. rewrite get_set_other by exact E. reflexivity.
Qed.

Lemma emit_stream_fifo fl s : QInv fl -> Fifo fl [] (fst (emit_stream s fl)) (snd (emit_stream s fl)).
Proof.
  intro HQ. unfold emit_stream.
  destruct (get_buf s (f_bufs fl)) as [o|] eqn:Eg; [|apply Fifo_refl].
  destruct (HQ s o Eg) as [Hids H0].
  pose proof (emit_q_split (f_conn fl) (ob_win o) (ob_q o)) as Hsp.
  destruct (emit_q (f_conn fl) (ob_win o) (ob_q o)) as [[cw sw] [em rest]]. cbn [fst snd] in *.
  assert (Hem : Forall (fun q => q_id q = s) em) by (rewrite <- Hsp in Hids; apply Forall_app in Hids; tauto).
  assert (Hrest : Forall (fun q => q_id q = s) rest) by (rewrite <- Hsp in Hids; apply Forall_app in Hids; tauto).
  split.
  - intro s'. cbn [on filter app]. rewrite app_nil_r, queue_of_set. cbn [ob_q].
    destruct (s' =? s) eqn:E.
    + apply N.eqb_eq in E. subst s'. rewrite (on_all s em Hem), Hsp.
      unfold queue_of, buf_or_new. rewrite Eg. reflexivity.
    + apply N.eqb_neq in E. rewrite (on_none s s' em E Hem). cbn [app]. rewrite (flow_eta fl) at 2. reflexivity.
  - intros _. apply QInv_set; [exact HQ|exact Hrest|].
    intro Hs0. specialize (H0 Hs0). rewrite H0 in Hsp. apply app_eq_nil in Hsp. tauto.
Qed.

Lemma scan_ids_fifo ids : forall fl, QInv fl -> Fifo fl [] (fst (scan_ids ids fl)) (snd (scan_ids ids fl)).
Proof.
  induction ids as [|id r IH]; intros fl HQ; cbn [scan_ids]; [apply Fifo_refl|].
  pose proof (emit_stream_fifo fl id HQ) as H1.
  destruct (emit_stream id fl) as [fl1 e1]. cbn [fst snd] in H1.
  specialize (IH fl1 (proj2 H1 HQ)). destruct (scan_ids r fl1) as [fl2 e2]. cbn [fst snd] in *.
  exact (Fifo_seq _ _ _ _ _ _ _ H1 IH).
Qed.

Lemma scan_all_fifo order fl : QInv fl -> Fifo fl [] (fst (scan_all order fl)) (snd (scan_all order fl)).
Proof. apply scan_ids_fifo. Qed.

(* appending q to its stream's queue *)
Lemma append_fifo fl q : q_id q <> 0 ->
  Fifo fl [q] (with_buf fl (q_id q) (mkOb (ob_win (buf_or_new fl (q_id q))) (ob_q (buf_or_new fl (q_id q)) ++ [q]))) [].
Proof.
  intro Hid. split.
  - intro s. cbn [on filter app]. unfold with_buf. rewrite queue_of_set. cbn [ob_q].
    destruct (q_id q =? s) eqn:E.
    + apply N.eqb_eq in E. subst s. rewrite N.eqb_refl. reflexivity.
    + rewrite N.eqb_sym, E. rewrite app_nil_r, <- flow_eta. reflexivity.
  - intro HQ. unfold with_buf. apply QInv_set; [exact HQ| |intro; congruence].
    cbn [ob_q]. apply Forall_app. split; [|repeat constructor].
    unfold buf_or_new. destruct (get_buf (q_id q) (f_bufs fl)) as [o|] eqn:Eg; [apply (HQ _ _ Eg)|constructor].
Qed.

Lemma enqueue_emit_fifo fl q : q_id q <> 0 -> QInv fl ->
  Fifo fl [q] (fst (enqueue_emit q fl)) (snd (enqueue_emit q fl)).
Proof.
  intros Hid HQ. unfold enqueue_emit.
  pose proof (append_fifo fl q Hid) as H1.
  pose proof (emit_stream_fifo _ (q_id q) (proj2 H1 HQ)) as H2.
  exact (Fifo_seq _ _ _ _ _ _ _ H1 H2).
Qed.

Lemma enqueue_all_fifo qs : forall fl, Forall (fun q => q_id q <> 0) qs -> QInv fl ->
  Fifo fl qs (fst (enqueue_all qs fl)) (snd (enqueue_all qs fl)).
Proof.
  induction qs as [|q r IH]; intros fl Hid HQ; cbn [enqueue_all]; [apply Fifo_refl|].
  inversion Hid; subst.
  pose proof (enqueue_emit_fifo fl q H1 HQ) as Hone.
  destruct (enqueue_emit q fl) as [fl1 e1]. cbn [fst snd] in Hone.
  specialize (IH fl1 H2 (proj2 Hone HQ)). destruct (enqueue_all r fl1) as [fl2 e2]. cbn [fst snd] in *.
  exact (Fifo_seq _ [q] _ _ r _ _ Hone IH).
Qed.

(* operations that only touch windows leave every queue as it is *)
Lemma same_queues_fifo fl fl' : (forall s, queue_of fl' s = queue_of fl s) -> (QInv fl -> QInv fl') -> Fifo fl [] fl' [].
Proof. intros Hq HQ. split; [intro s; cbn; rewrite Hq, app_nil_r; reflexivity|exact HQ]. Qed.

Lemma with_win_fifo fl id w : Fifo fl [] (with_buf fl id (mkOb w (ob_q (buf_or_new fl id)))) [].
Proof.
  apply same_queues_fifo.
  - intro s. unfold with_buf. rewrite queue_of_set. cbn [ob_q].
    destruct (s =? id) eqn:E; [apply N.eqb_eq in E; subst; reflexivity|rewrite <- flow_eta; reflexivity].
  - intro HQ. unfold with_buf. apply QInv_set; [exact HQ| |]; cbn [ob_q]; unfold buf_or_new;
      destruct (get_buf id (f_bufs fl)) as [o|] eqn:Eg; try constructor; try reflexivity.
    + exact (proj1 (HQ id o Eg)).
    + exact (proj2 (HQ id o Eg)).
Qed.

Lemma update_window_fifo id inc order fl : QInv fl ->
  Fifo fl [] (fst (update_window id inc order fl)) (snd (update_window id inc order fl)).
Proof.
  intro HQ. unfold update_window.
  assert (H1 : Fifo fl [] (fst (if id =? 0 then scan_all order (mkFlow (f_max fl) (f_init fl) (f_conn fl + Z.of_N inc) (f_bufs fl)) else (fl, [])))
                         (snd (if id =? 0 then scan_all order (mkFlow (f_max fl) (f_init fl) (f_conn fl + Z.of_N inc) (f_bufs fl)) else (fl, [])))).
  { destruct (id =? 0); [|apply Fifo_refl].
    change (@nil qframe) with (@nil qframe ++ []).
    eapply (Fifo_seq fl [] (mkFlow (f_max fl) (f_init fl) (f_conn fl + Z.of_N inc) (f_bufs fl)) [] []).
    - apply same_queues_fifo; [reflexivity|exact (fun H => H)].
    - apply scan_all_fifo. exact HQ. }
  destruct (if id =? 0 then scan_all order _ else (fl, [])) as [fl1 e1]. cbn [fst snd] in H1.
  destruct ((id =? 0) && negb wu_conn_falls_through); [exact H1|].
  pose proof (with_win_fifo fl1 id (ob_win (buf_or_new fl1 id) + Z.of_N inc)) as H2.
  pose proof (emit_stream_fifo _ id (proj2 H2 (proj2 H1 HQ))) as H3.
  destruct (emit_stream id _) as [fl2 e2]. cbn [fst snd] in *.
  pose proof (Fifo_seq _ _ _ _ _ _ _ H1 (Fifo_seq _ _ _ _ _ _ _ H2 H3)) as H. cbn [app] in H. exact H.
Qed.

Lemma update_init_fifo v order fl : QInv fl ->
  Fifo fl [] (fst (update_init v order fl)) (snd (update_init v order fl)).
Proof.
  intro HQ. unfold update_init. cbv zeta.
  set (g := fun o : obuf => mkOb (ob_win o + (Z.of_N v - Z.of_N (f_init fl)))%Z (ob_q o)).
  change (map _ (f_bufs fl)) with (map (fun ko : N * obuf => (fst ko, g (snd ko))) (f_bufs fl)).
  set (fl0 := mkFlow (f_max fl) v _ _).
  assert (H0 : Fifo fl [] fl0 []).
  { apply same_queues_fifo.
    - intro s. unfold queue_of, buf_or_new, fl0. cbn [f_bufs f_init]. rewrite get_buf_map.
      destruct (get_buf s (f_bufs fl)); reflexivity.
    - intros _ s o Hg. unfold fl0 in Hg. cbn [f_bufs] in Hg. rewrite get_buf_map in Hg.
      destruct (get_buf s (f_bufs fl)) as [o'|] eqn:Eg; cbn [option_map] in Hg; [|discriminate].
      inversion Hg; subst. cbn [ob_q g]. exact (HQ s o' Eg). }
  pose proof (scan_all_fifo order fl0 (proj2 H0 HQ)) as H1.
  pose proof (Fifo_seq _ _ _ _ _ _ _ H0 H1) as H. cbn [app] in H. exact H.
Qed.

Lemma update_max_fifo v fl : Fifo fl [] (update_max v fl) [].
Proof. apply same_queues_fifo; [reflexivity|exact (fun H => H)]. Qed.
