(* G09 — C09 (b'): every frame an endpoint is sent fits the SETTINGS_MAX_FRAME_SIZE values that endpoint
   must still be prepared for: the value of its last acknowledged SETTINGS frame and those of its SETTINGS
   frames that are not yet acknowledged.  Holds because DATA is split and header blocks are chunked when a
   frame is RELEASED, with the limit in force at that moment. *)
From FwdLib Require Import Bytes.
From G09 Require Import Tables H2Relay Ledger Term FlowBasics WinProofs PairBasics Lift PairWin PairMisc SizeBasics SizeProofs.
Open Scope N_scope.

(* ---- queues hold frames that satisfy P (generic in P) *)
Definition QP (P : qframe -> Prop) (fl : flow) : Prop :=
  forall s o, get_buf s (f_bufs fl) = Some o -> Forall P (ob_q o).

Section Generic.
  Variable P : qframe -> Prop.

  Lemma QP_set fl s o mx i c : QP P fl -> Forall P (ob_q o) -> QP P (mkFlow mx i c (set_buf s o (f_bufs fl))).
  Proof.
    intros H Ho s' o' Hg. cbn [f_bufs] in Hg. destruct (N.eq_dec s' s) as [->|Hn].
    - rewrite get_set_same in Hg. inversion Hg; subst. exact Ho.
    - rewrite get_set_other in Hg by exact Hn. exact (H s' o' Hg).
  Qed.

  Lemma emit_stream_P s fl : QP P fl -> QP P (fst (emit_stream s fl)) /\ Forall P (snd (emit_stream s fl)).
  Proof.
    intro H. unfold emit_stream. destruct (get_buf s (f_bufs fl)) as [o|] eqn:Eg; [|split; [exact H|constructor]].
    pose proof (emit_q_split (f_conn fl) (ob_win o) (ob_q o)) as Hsp.
    destruct (emit_q _ _ _) as [[cw sw] [em rest]]. cbn [fst snd] in *.
    pose proof (H s o Eg) as Ho. rewrite <- Hsp in Ho. apply Forall_app in Ho as [Hem Hrest].
    split; [apply QP_set; [exact H|exact Hrest]|exact Hem].
  Qed.

  Lemma scan_ids_P ids : forall fl, QP P fl -> QP P (fst (scan_ids ids fl)) /\ Forall P (snd (scan_ids ids fl)).
  Proof.
    induction ids as [|id r IH]; intros fl H; cbn [scan_ids]; [split; [exact H|constructor]|].
    destruct (emit_stream_P id fl H) as [H1 E1]. destruct (emit_stream id fl) as [fl1 e1]. cbn [fst snd] in *.
    destruct (IH fl1 H1) as [H2 E2]. destruct (scan_ids r fl1) as [fl2 e2]. cbn [fst snd] in *.
    split; [exact H2|apply Forall_app; split; assumption].
  Qed.

  Lemma enqueue_emit_P q fl : P q -> QP P fl -> QP P (fst (enqueue_emit q fl)) /\ Forall P (snd (enqueue_emit q fl)).
  Proof.
    intros Hq H. unfold enqueue_emit. apply emit_stream_P. unfold with_buf. apply QP_set; [exact H|].
    cbn [ob_q]. apply Forall_app. split; [|repeat constructor; exact Hq].
    unfold buf_or_new. destruct (get_buf (q_id q) (f_bufs fl)) as [o|] eqn:Eg; [exact (H _ _ Eg)|constructor].
  Qed.

  Lemma enqueue_all_P qs : forall fl, Forall P qs -> QP P fl ->
    QP P (fst (enqueue_all qs fl)) /\ Forall P (snd (enqueue_all qs fl)).
  Proof.
    induction qs as [|q r IH]; intros fl Hq H; cbn [enqueue_all]; [split; [exact H|constructor]|].
    inversion Hq; subst.
    destruct (enqueue_emit_P q fl H2 H) as [H1 E1]. destruct (enqueue_emit q fl) as [fl1 e1]. cbn [fst snd] in *.
    destruct (IH fl1 H3 H1) as [H4 E2]. destruct (enqueue_all r fl1) as [fl2 e2]. cbn [fst snd] in *.
    split; [exact H4|apply Forall_app; split; assumption].
  Qed.

  Lemma QP_with_buf_same fl id w : QP P fl -> QP P (with_buf fl id (mkOb w (ob_q (buf_or_new fl id)))).
  Proof.
    intro H. unfold with_buf. apply QP_set; [exact H|]. cbn [ob_q]. unfold buf_or_new.
    destruct (get_buf id (f_bufs fl)) as [o|] eqn:Eg; [exact (H _ _ Eg)|constructor].
  Qed.

  Lemma update_window_P id inc order fl : QP P fl ->
    QP P (fst (update_window id inc order fl)) /\ Forall P (snd (update_window id inc order fl)).
  Proof.
    intro H. unfold update_window.
    assert (H1 : QP P (fst (if id =? 0 then scan_all order (mkFlow (f_max fl) (f_init fl) (f_conn fl + Z.of_N inc) (f_bufs fl)) else (fl, []))) /\
                 Forall P (snd (if id =? 0 then scan_all order (mkFlow (f_max fl) (f_init fl) (f_conn fl + Z.of_N inc) (f_bufs fl)) else (fl, [])))).
    { destruct (id =? 0); [apply scan_ids_P; exact H|split; [exact H|constructor]]. }
    destruct (if id =? 0 then _ else _) as [fl1 e1]. cbn [fst snd] in H1. destruct H1 as [H1 E1].
    destruct ((id =? 0) && negb wu_conn_falls_through); [split; assumption|].
    destruct (emit_stream_P id _ (QP_with_buf_same fl1 id (ob_win (buf_or_new fl1 id) + Z.of_N inc) H1)) as [H2 E2].
    destruct (emit_stream id _) as [fl2 e2]. cbn [fst snd] in *.
    split; [exact H2|apply Forall_app; split; assumption].
  Qed.

  Lemma update_init_P v order fl : QP P fl ->
    QP P (fst (update_init v order fl)) /\ Forall P (snd (update_init v order fl)).
  Proof.
    intro H. unfold update_init. cbv zeta. apply scan_ids_P.
    set (g := fun o : obuf => mkOb (ob_win o + (Z.of_N v - Z.of_N (f_init fl)))%Z (ob_q o)).
    change (map _ (f_bufs fl)) with (map (fun ko : N * obuf => (fst ko, g (snd ko))) (f_bufs fl)).
    intros s o Hg. cbn [f_bufs] in Hg. rewrite get_buf_map in Hg.
    destruct (get_buf s (f_bufs fl)) as [o'|] eqn:Eg; cbn [option_map] in Hg; [|discriminate].
    inversion Hg; subst. cbn [ob_q g]. exact (H s o' Eg).
  Qed.
End Generic.

(* frames waiting in a queue have not been prepared yet *)
Definition unprep (q : qframe) : Prop := match q with QDataP _ _ _ _ => False | _ => True end.

Lemma data_pieces_unprep : forall fuel max id d es ps, data_pieces fuel max id d es = Some ps -> Forall unprep ps.
Proof.
  induction fuel as [|k IH]; intros max id d es ps H; cbn [data_pieces] in H; [discriminate|].
  destruct (dropN (N.min (len d) max) d) as [|x rest].
  - inversion H; subst. repeat constructor.
  - destruct (data_pieces k max id (x :: rest) es) as [ps'|] eqn:E; cbn [option_map] in H; [|discriminate].
    inversion H; subst. constructor; [exact I|exact (IH _ _ _ _ _ E)].
Qed.

(* ---- the ledger side *)
Definition okv (v : N) : Prop := 16384 <= v /\ v <= 16777215.
Definition vals (l : sled) : list N := l_max_acked l :: l_max_pending l.

Lemma fold_max_ge_init l a : a <= fold_left N.max l a.
Proof. revert a. induction l as [|x r IH]; intro a; cbn [fold_left]; [lia|]. specialize (IH (N.max a x)). lia. Qed.
Lemma fold_max_ge_in l a v : In v l -> v <= fold_left N.max l a.
Proof.
  revert a. induction l as [|x r IH]; intros a Hin; cbn [fold_left]; [contradiction|].
  destruct Hin as [->|Hin]; [pose proof (fold_max_ge_init r (N.max a v)); lia|apply IH; exact Hin].
Qed.
Lemma tol_ge l v : In v (vals l) -> v <= led_tolerated l.
Proof.
  unfold vals, led_tolerated. intros [<-|Hin]; [apply fold_max_ge_init|apply fold_max_ge_in; exact Hin].
Qed.
(* the newest of: the acknowledged value, then the pending ones in order *)
Definition lastv (l : list N) (a : N) : N := fold_left (fun _ x => x) l a.
Lemma lastv_in l : forall a, In (lastv l a) (a :: l).
Proof.
  induction l as [|x r IH]; intro a; [left; reflexivity|].
  cbn [lastv fold_left]. specialize (IH x). fold (lastv r x). destruct IH as [H|H]; [right; left; exact H|right; right; exact H].
Qed.
Lemma lastv_app l a x : lastv (l ++ [x]) a = x.
Proof. unfold lastv. rewrite fold_left_app. reflexivity. Qed.

Definition bnd (maxp t : N) : Prop := okv maxp /\ maxp <= t.

(* everything a relay writes during a step fits t, given the max frame size in force at each point *)
Fixpoint ScriptTol (t maxp : N) (l : list oframe) : Prop :=
  match l with
  | [] => True
  | OQ q :: r => unprep q /\ bnd maxp t /\ ScriptTol t maxp r
  | OW w :: r => payload_len w <= t /\ w <> WSettingsAck /\ ScriptTol t maxp r
  | OResize _ :: r => ScriptTol t maxp r
  | OSetMax m' :: r => ScriptTol t m' r
  end.

Lemma ScriptTol_oq t maxp em : Forall unprep em -> bnd maxp t -> ScriptTol t maxp (oq em).
Proof. intros H Hb. induction H as [|q r Hq _ IH]; cbn [oq map ScriptTol]; [exact I|]. split; [exact Hq|]. split; [exact Hb|exact IH]. Qed.
Lemma ScriptTol_oq_app t maxp em l : Forall unprep em -> bnd maxp t -> ScriptTol t maxp l -> ScriptTol t maxp (oq em ++ l).
Proof. intros H Hb Hl. induction H as [|q r Hq _ IH]; cbn [oq map app ScriptTol]; [exact Hl|]. split; [exact Hq|]. split; [exact Hb|exact IH]. Qed.

Definition no_ack (fs : list wframe) : Prop := Forall (fun w => w <> WSettingsAck) fs.

Lemma no_ack_pieces : forall fuel m id d es, no_ack (wdata_pieces fuel m id d es).
Proof. induction fuel as [|k IH]; intros; cbn [wdata_pieces]; [repeat constructor; discriminate|]. destruct ((0 <? m) && (m <? len d)); [constructor; [discriminate|apply IH]|repeat constructor; discriminate]. Qed.
Lemma no_ack_conts id ch : no_ack (conts id ch).
Proof. induction ch as [|c r IH]; [constructor|]. cbn [conts]. destruct r; constructor; try discriminate; [constructor|exact IH]. Qed.
Lemma no_ack_send q : no_ack (send q).
Proof. destruct q; cbn [send]; try (repeat constructor; discriminate); try apply no_ack_pieces; (constructor; [discriminate|apply no_ack_conts]). Qed.

(* receiving frames that fit what must be tolerated, none of them a SETTINGS ACK: the ledger is unchanged *)
Lemma sl_recv_all_tol l fs : Forall (fun w => payload_len w <= led_tolerated l) fs -> no_ack fs ->
  snd (snd (sl_recv_all l fs)) = true /\ fst (sl_recv_all l fs) = l.
Proof.
  induction fs as [|f r IH]; intros H Hn; cbn [sl_recv_all]; [cbn; auto|].
  inversion H as [|? ? Hf Hr]; subst. inversion Hn as [|? ? Hna Hnr]; subst.
  assert (H1 : sl_recv l f = (l, (payload_len f <=? l_max_ever l, true))).
  { unfold sl_recv. assert (Hb : (payload_len f <=? led_tolerated l) = true) by (apply N.leb_le; exact Hf).
    rewrite Hb. destruct f; try reflexivity. congruence. }
  rewrite H1. destruct (IH Hr Hnr) as [Hc He]. destruct (sl_recv_all l r) as [l2 [b2 c2]]. cbn [fst snd] in *. subst. split; reflexivity.
Qed.

Section Codec.
  Variables dstate estate : Type.
  Variable dec : dstate -> list N -> option (list field) * dstate.
  Variable enc : estate -> list field -> list N * estate.
  Variable dresize : dstate -> N -> dstate.
  Variable eresize : estate -> N -> estate.
  Hypothesis Hval : settings_validated = true.
  Hypothesis Hinit : initial_max_frame_size = 16384.
  Hypothesis Hprio : headers_priority_len = 5.
  Hypothesis Hpush : push_promise_meta_len = 4.

  Notation relay := (relay dstate estate).
  Notation pair := (pair dstate estate).
  Notation pcore := (pcore dec dresize).
  Notation pstep := (pstep dec enc dresize eresize).
  Notation run := (H2Relay.run dec enc dresize eresize).
  Notation tstep_of := (tstep_of dstate estate).

  (* the relay sending towards x and x's size ledger: the relay uses x's latest value, which is the newest
     of the values x must still tolerate *)
  Definition TS (r : relay) (l : sled) : Prop :=
    f_max (r_flow r) = l_max_cur l /\ l_max_cur l = lastv (l_max_pending l) (l_max_acked l) /\
    Forall okv (vals l) /\ QP unprep (r_flow r).

  Lemma TS_bnd (r : relay) l : TS r l -> bnd (f_max (r_flow r)) (led_tolerated l) /\ 16384 <= led_tolerated l.
  Proof.
    intros [Hc [Hl [Hv Hq]]].
    assert (Hin : In (l_max_cur l) (vals l)) by (rewrite Hl; apply lastv_in).
    pose proof (tol_ge l _ Hin) as Hle. rewrite Forall_forall in Hv. pose proof (Hv _ Hin) as [H1 H2].
    unfold bnd, okv. rewrite Hc. repeat split; lia.
  Qed.

  Lemma prepare_tol est maxp t q q' est' : bnd maxp t -> unprep q ->
    prepare enc est maxp q = Some (q', est') -> qfits t q'.
  Proof.
    intros [[Hlo Hhi] Hle] Hu Hp.
    assert (Hb : bounds maxp t) by (unfold bounds; lia).
    assert (Hpre : pre_ok t q)
      by (destruct q; try contradiction; cbn [pre_ok]; try exact I; repeat constructor; cbn [payload_len]; lia).
    eapply prepare_fits_weak; eassumption.
  Qed.

  Lemma run_script_tol : forall l est maxp t l' est', ScriptTol t maxp l ->
    run_script enc eresize est maxp l = Some (l', est') ->
    Forall (fun w => payload_len w <= t) (wire l') /\ no_ack (wire l').
  Proof.
    induction l as [|o r IH]; intros est maxp t l' est' Hf H; cbn [run_script] in H.
    - inversion H. split; constructor.
    - destruct o as [q|w|v|m']; cbn [ScriptTol] in Hf.
      + destruct Hf as [Hq [Hb Hr]].
        destruct (prepare enc est maxp q) as [[q' e1]|] eqn:Ep; [|discriminate].
        destruct (run_script enc eresize e1 maxp r) as [[l1 e2]|] eqn:Er; [|discriminate].
        inversion H; subst. destruct (IH _ _ _ _ _ Hr Er) as [I1 I2].
        unfold wire. cbn [flat_map wire1]. split; apply Forall_app; split; try assumption.
        * exact (prepare_tol _ _ _ _ _ _ Hb Hq Ep).
        * apply no_ack_send.
      + destruct Hf as [Hw [Hna Hr]]. destruct (run_script enc eresize est maxp r) as [[l1 e2]|] eqn:Er; [|discriminate].
        inversion H; subst. destruct (IH _ _ _ _ _ Hr Er) as [I1 I2].
        unfold wire. cbn [flat_map wire1 app]. split; constructor; assumption.
      + exact (IH _ _ _ _ _ Hf H).
      + exact (IH _ _ _ _ _ Hf H).
  Qed.

  Lemma okv_of_valid v : setting_valid 5 v = true -> okv v.
  Proof. unfold setting_valid. cbn. intro H. apply andb_true_iff in H as [Ea Eb]. apply N.leb_le in Ea. apply N.leb_le in Eb. split; assumption. Qed.

  (* t: what the sender of the SETTINGS frame must tolerate after it *)
  Lemma apply_settings_tol : forall l orders (peer : relay) acc t,
    QP unprep (r_flow peer) -> bnd (f_max (r_flow peer)) t -> (count5 l <= 1)%nat ->
    (forall v, last_setting 5 l None = Some v -> v <= t) ->
    exists scr,
      snd (fst (apply_settings dresize l orders peer acc)) = acc ++ scr /\
      ScriptTol t (f_max (r_flow peer)) scr /\
      QP unprep (r_flow (fst (fst (apply_settings dresize l orders peer acc)))) /\
      okv (f_max (r_flow (fst (fst (apply_settings dresize l orders peer acc))))) /\
      (snd (apply_settings dresize l orders peer acc) = true ->
       f_max (r_flow (fst (fst (apply_settings dresize l orders peer acc)))) = final_max l (f_max (r_flow peer))).
  Proof.
    induction l as [|[k v] rest IH]; intros orders peer acc t Hq Hb Hc5 Hfin; cbn [apply_settings].
    - exists []. cbn [fst snd ScriptTol]. rewrite app_nil_r. split; [reflexivity|]. split; [exact I|]. split; [exact Hq|]. split; [apply Hb|reflexivity].
    - rewrite Hval. cbn [andb]. destruct (setting_valid k v) eqn:Ev; cbn [negb].
      2:{ exists []. cbn [fst snd ScriptTol]. rewrite app_nil_r. split; [reflexivity|]. split; [exact I|]. split; [exact Hq|]. split; [apply Hb|discriminate]. }
      unfold final_max. cbn [last_setting count5] in *.
      destruct (k =? 1) eqn:E1.
      { apply N.eqb_eq in E1. subst k. cbn [N.eqb Pos.eqb] in *.
        destruct (IH orders (mkRelay (r_flow peer) (r_cont peer) (r_hbuf peer)
                 (if table_size_resizes_decoder then dresize (r_dst peer) v else r_dst peer) (r_est peer)) (acc ++ [OResize v]) t Hq Hb Hc5 Hfin)
          as [scr [Ha [Hf [Hs [Ho Hfn]]]]].
        exists (OResize v :: scr). split; [rewrite Ha, <- app_assoc; reflexivity|]. split; [exact Hf|]. split; [exact Hs|]. split; [exact Ho|exact Hfn]. }
      destruct (k =? 4) eqn:E4.
      { apply N.eqb_eq in E4. subst k. cbn [N.eqb Pos.eqb] in *.
        destruct (update_init_P unprep v (hd [] orders) (r_flow peer) Hq) as [H1 F1].
        pose proof (f_max_update_init v (hd [] orders) (r_flow peer)) as Hmx.
        destruct (update_init v (hd [] orders) (r_flow peer)) as [fl e]. cbn [fst snd] in *.
        assert (Hb' : bnd (f_max (r_flow (with_flow peer fl))) t) by (cbn [with_flow r_flow]; rewrite Hmx; exact Hb).
        destruct (IH (tl orders) (with_flow peer fl) (acc ++ oq e) t H1 Hb' Hc5 Hfin) as [scr [Ha [Hf [Hs [Ho Hfn]]]]].
        exists (oq e ++ scr). split; [rewrite Ha, app_assoc; reflexivity|].
        cbn [with_flow r_flow] in Hf, Hfn. rewrite Hmx in Hf, Hfn.
        split; [apply ScriptTol_oq_app; [exact F1|exact Hb|exact Hf]|]. split; [exact Hs|]. split; [exact Ho|exact Hfn]. }
      destruct (k =? 5) eqn:E5.
      + apply N.eqb_eq in E5. subst k.
        assert (Hr0 : count5 rest = O) by lia.
        assert (Hv : v <= t) by (apply Hfin; rewrite last_setting_acc, (count5_none rest Hr0); reflexivity).
        assert (Hb' : bnd (f_max (r_flow (with_flow peer (update_max v (r_flow peer))))) t)
          by (cbn [with_flow r_flow update_max f_max]; split; [exact (okv_of_valid v Ev)|exact Hv]).
        destruct (IH orders (with_flow peer (update_max v (r_flow peer))) (acc ++ [OSetMax v]) t Hq Hb' ltac:(lia)
                    ltac:(intros w Hw; rewrite (count5_none rest Hr0) in Hw; discriminate)) as [scr [Ha [Hf [Hs [Ho Hfn]]]]].
        exists (OSetMax v :: scr). split; [rewrite Ha, <- app_assoc; reflexivity|].
        split; [cbn [ScriptTol]; exact Hf|]. split; [exact Hs|]. split; [exact Ho|].
        intro Hok. rewrite (Hfn Hok). unfold final_max. cbn [with_flow r_flow update_max f_max].
        rewrite (last_setting_acc 5 rest (Some v)). destruct (last_setting 5 rest None); reflexivity.
      + exact (IH orders peer acc t Hq Hb Hc5 Hfin).
  Qed.

  Ltac quiet_from_tol HS :=
    rewrite ?res_toward_from, ?res_to_from, ?res_status; cbn [sl_sent ScriptTol];
    (split; [exact I|intros _; exact HS]).

  Lemma wu_tol (t maxp c id : N) : 16384 <= t ->
    ScriptTol t maxp (ow (if c =? 0 then [] else [WWinUpd 0 c; WWinUpd id c])).
  Proof. intro H. destruct (c =? 0); cbn [ow map ScriptTol]; repeat split; cbn [payload_len]; try lia; discriminate. Qed.

  Lemma core_tol_from (p : pair) from f orders l :
    frame_small f -> TS (toward from p) l ->
    ScriptTol (led_tolerated (sl_sent l f)) (f_max (r_flow (toward from p))) (s_to from (pcore p from f orders)) /\
    (s_status (pcore p from f orders) = Ok -> TS (toward from (s_pair (pcore p from f orders))) (sl_sent l f)).
  Proof.
    intros Hsm HS. unfold pcore. cbv zeta.
    pose proof HS as [Hc [Hl [Hv Hq]]]. destruct (TS_bnd _ _ HS) as [Hb H16].
    destruct f as [id es d flen|id es eh pr frag|id eh frag|id pm eh frag|id pr|id code|ack st|ack d|last code dbg|id inc|].
    - destruct (data_pieces _ _ id d es) as [ps|]; [destruct (enqueue_all ps _) as [fl em]|];
        rewrite res_toward_from, res_to_from, res_status; cbn [sl_sent]; (split; [apply wu_tol; exact H16|intros _; exact HS]).
    - destruct eh; [|quiet_from_tol HS]. destruct (dec _ frag) as [[fields|] dst']; [|quiet_from_tol HS].
      destruct (r_header _ _ _ _ _) as [[[me' em] q]|]; quiet_from_tol HS.
    - destruct eh; [|quiet_from_tol HS]. destruct (dec _ _) as [[fields|] dst']; [|quiet_from_tol HS].
      cbn [r_cont]. destruct (r_cont _); [|quiet_from_tol HS].
      destruct (complete _ _ _) as [[[me' em] q]|]; quiet_from_tol HS.
    - destruct eh; [|quiet_from_tol HS]. destruct (dec _ frag) as [[fields|] dst']; [|quiet_from_tol HS].
      destruct (r_push _ _ _ _) as [[[me' em] q]|]; quiet_from_tol HS.
    - destruct (enqueue_emit _ _) as [fl em]. quiet_from_tol HS.
    - destruct (enqueue_emit _ _) as [fl em]. quiet_from_tol HS.
    - destruct ack; [quiet_from_tol HS|]. cbn [frame_small] in Hsm. destruct Hsm as [_ Hc5].
      set (l1 := sl_sent l (RSettings false st)).
      assert (Hvals : vals l1 = vals l ++ [l_max_cur l1]) by reflexivity.
      assert (Hold : f_max (r_flow (toward from p)) <= led_tolerated l1).
      { apply tol_ge. rewrite Hvals, Hc, Hl. apply in_or_app. left. apply lastv_in. }
      assert (Hfin : forall v, last_setting 5 st None = Some v -> v <= led_tolerated l1).
      { intros v Hvv. apply tol_ge. rewrite Hvals. apply in_or_app. right. left.
        unfold l1. cbn [sl_sent l_max_cur]. rewrite Hvv. reflexivity. }
      destruct (apply_settings_tol st orders (toward from p) [] (led_tolerated l1) Hq
                  (conj (proj1 Hb) Hold) Hc5 Hfin) as [scr [Ha [Hf [Hs [Ho Hfn]]]]].
      destruct (apply_settings dresize st orders (toward from p) []) as [[peer' acc'] ok].
      cbn [fst snd app] in *. subst acc'.
      destruct ok; rewrite res_toward_from, res_to_from, res_status; (split; [exact Hf|]).
      + intros _. unfold TS. specialize (Hfn eq_refl).
        assert (Hcur : f_max (r_flow peer') = l_max_cur l1).
        { rewrite Hfn. unfold l1, final_max. cbn [sl_sent l_max_cur]. rewrite Hc. reflexivity. }
        split; [exact Hcur|]. split; [unfold l1; cbn [sl_sent l_max_cur l_max_pending l_max_acked]; rewrite lastv_app; reflexivity|].
        split; [|exact Hs]. rewrite Hvals. apply Forall_app. split; [exact Hv|]. constructor; [rewrite <- Hcur; exact Ho|constructor].
      + discriminate.
    - quiet_from_tol HS.
    - quiet_from_tol HS.
    - destruct (update_window_P unprep id inc (hd [] orders) (r_flow (toward from p)) Hq) as [H1 F1].
      pose proof (f_max_update_window id inc (hd [] orders) (r_flow (toward from p))) as Hmx.
      destruct (update_window id inc (hd [] orders) (r_flow (toward from p))) as [fl em]. cbn [fst snd] in *.
      rewrite res_toward_from, res_to_from, res_status. cbn [sl_sent].
      split; [apply ScriptTol_oq; [exact F1|exact Hb]|]. intros _.
      unfold TS in *. cbn [with_flow r_flow]. rewrite Hmx. auto.
    - quiet_from_tol HS.
  Qed.

  Ltac quiet_other_tol HS :=
    rewrite ?res_toward_other, ?res_to_other, ?res_status; cbn [ScriptTol];
    (split; [left; exact I|intros _; exact HS]).

  Lemma TS_me_enq (me me' : relay) l q em :
    TS me l -> unprep q -> enqueue_emit q (r_flow me) = (r_flow me', em) ->
    ScriptTol (led_tolerated l) (f_max (r_flow me)) (oq em) /\ TS me' l.
  Proof.
    intros HS Hq Ee. pose proof HS as [Hc [Hl [Hv Hsq]]].
    destruct (enqueue_emit_P unprep q (r_flow me) Hq Hsq) as [H1 F1].
    pose proof (f_max_enqueue_emit q (r_flow me)) as Hmx. rewrite Ee in H1, F1, Hmx. cbn [fst snd] in *.
    split; [apply ScriptTol_oq; [exact F1|exact (proj1 (TS_bnd _ _ HS))]|].
    unfold TS in *. rewrite Hmx. auto.
  Qed.

  Lemma one_tol t maxp w : payload_len w <= 16384 -> 16384 <= t -> w <> WSettingsAck -> ScriptTol t maxp [OW w].
  Proof. intros. cbn [ScriptTol]. repeat split; [lia|assumption]. Qed.

  (* what the relay that read the frame writes towards the other endpoint: a script that fits, or exactly
     the acknowledgement of that endpoint's SETTINGS *)
  Lemma core_tol_other (p : pair) from f orders l :
    frame_small f -> TS (toward (other from) p) l ->
    (ScriptTol (led_tolerated l) (f_max (r_flow (toward (other from) p))) (s_to (other from) (pcore p from f orders)) \/
     s_to (other from) (pcore p from f orders) = [OW WSettingsAck]) /\
    (s_status (pcore p from f orders) = Ok -> TS (toward (other from) (s_pair (pcore p from f orders))) l).
  Proof.
    intros Hsm HS. unfold pcore. cbv zeta.
    remember (toward (other from) p) as me eqn:Eme. clear Eme.
    pose proof HS as [Hc [Hl [Hv Hq]]]. destruct (TS_bnd _ _ HS) as [Hb H16].
    destruct f as [id es d flen|id es eh pr frag|id eh frag|id pm eh frag|id pr|id code|ack st|ack d|last code dbg|id inc|];
      cbn [frame_small] in Hsm.
    - destruct (data_pieces _ _ id d es) as [ps|] eqn:Ep; [|quiet_other_tol HS].
      assert (H0 : QP unprep (with_buf (r_flow me) id (buf_or_new (r_flow me) id))).
      { unfold with_buf. apply QP_set; [exact Hq|]. unfold buf_or_new.
        destruct (get_buf id (f_bufs (r_flow me))) as [o|] eqn:Eg; [exact (Hq _ _ Eg)|constructor]. }
      destruct (enqueue_all_P unprep ps _ (data_pieces_unprep _ _ _ _ _ _ Ep) H0) as [H1 F1].
      pose proof (f_max_enqueue_all ps (with_buf (r_flow me) id (buf_or_new (r_flow me) id))) as Hmx.
      destruct (enqueue_all ps _) as [fl em]. cbn [fst snd] in *.
      rewrite res_toward_other, res_to_other, res_status.
      split; [left; apply ScriptTol_oq; [exact F1|exact Hb]|]. intros _.
      unfold TS in *. cbn [with_flow r_flow]. rewrite Hmx. auto.
    - destruct eh; [|quiet_other_tol HS]. destruct (dec _ frag) as [[fields|] dst']; [|quiet_other_tol HS].
      set (me1 := mkRelay _ _ _ dst' _). assert (HS1 : TS me1 l) by exact HS.
      destruct (r_header me1 id fields es pr) as [[[me' em] q]|] eqn:Eh; [|quiet_other_tol HS1].
      apply r_header_flow in Eh as [Ee [_ [_ [_ [_ [_ Hqq]]]]]].
      destruct (TS_me_enq me1 me' l q em HS1 ltac:(rewrite Hqq; exact I) Ee) as [Hf HS'].
      rewrite res_toward_other, res_to_other, res_status. split; [left; exact Hf|intros _; exact HS'].
    - destruct eh; [|quiet_other_tol HS]. destruct (dec _ _) as [[fields|] dst']; [|quiet_other_tol HS].
      set (me1 := mkRelay _ _ _ dst' _). assert (HS1 : TS me1 l) by exact HS.
      destruct (r_cont me1) as [cs|] eqn:Ec; [|quiet_other_tol HS1].
      destruct (complete me1 id fields) as [[[me' em] q]|] eqn:Eh; [|quiet_other_tol HS1].
      assert (Hu : unprep q).
      { unfold complete in Eh. rewrite Ec in Eh. destruct cs.
        - apply r_header_flow in Eh as [_ [_ [_ [_ [_ [_ ->]]]]]]. exact I.
        - apply r_push_flow in Eh as [_ [_ [_ [_ [_ [_ ->]]]]]]. exact I. }
      apply complete_flow in Eh as [Ee _].
      destruct (TS_me_enq me1 me' l q em HS1 Hu Ee) as [Hf HS'].
      rewrite res_toward_other, res_to_other, res_status. split; [left; exact Hf|intros _; exact HS'].
    - destruct eh; [|quiet_other_tol HS]. destruct (dec _ frag) as [[fields|] dst']; [|quiet_other_tol HS].
      set (me1 := mkRelay _ _ _ dst' _). assert (HS1 : TS me1 l) by exact HS.
      destruct (r_push me1 id pm fields) as [[[me' em] q]|] eqn:Eh; [|quiet_other_tol HS1].
      apply r_push_flow in Eh as [Ee [_ [_ [_ [_ [_ Hqq]]]]]].
      destruct (TS_me_enq me1 me' l q em HS1 ltac:(rewrite Hqq; exact I) Ee) as [Hf HS'].
      rewrite res_toward_other, res_to_other, res_status. split; [left; exact Hf|intros _; exact HS'].
    - destruct (enqueue_emit (QPrio id pr) (r_flow me)) as [fl em] eqn:Ee.
      destruct (TS_me_enq me (with_flow me fl) l (QPrio id pr) em HS I Ee) as [Hf HS'].
      rewrite res_toward_other, res_to_other, res_status. split; [left; exact Hf|intros _; exact HS'].
    - destruct (enqueue_emit (QRst id code) (r_flow me)) as [fl em] eqn:Ee.
      destruct (TS_me_enq me (with_flow me fl) l (QRst id code) em HS I Ee) as [Hf HS'].
      rewrite res_toward_other, res_to_other, res_status. split; [left; exact Hf|intros _; exact HS'].
    - destruct ack.
      + rewrite res_toward_other, res_to_other, res_status. split; [right; reflexivity|intros _; exact HS].
      + destruct (apply_settings _ _ _ _ _) as [[peer' acc'] ok]. destruct ok; [|quiet_other_tol HS].
        rewrite res_toward_other, res_to_other, res_status.
        split; [left; apply one_tol; [cbn [payload_len]; exact (proj1 Hsm)|exact H16|discriminate]|intros _; exact HS].
    - rewrite res_toward_other, res_to_other, res_status.
      split; [left; apply one_tol; [cbn; lia|exact H16|discriminate]|intros _; exact HS].
    - rewrite res_toward_other, res_to_other, res_status.
      split; [left; apply one_tol; [cbn [payload_len]; exact Hsm|exact H16|discriminate]|intros _; exact HS].
    - destruct (update_window _ _ _ _) as [fl em]. quiet_other_tol HS.
    - quiet_other_tol HS.
  Qed.

  (* the acknowledgement arrives: the oldest pending value becomes the acknowledged one *)
  Lemma TS_ack (r : relay) l : TS r l ->
    snd (snd (sl_recv_all l [WSettingsAck])) = true /\ TS r (fst (sl_recv_all l [WSettingsAck])).
  Proof.
    intros [Hc [Hl [Hv Hq]]]. cbn [sl_recv_all sl_recv payload_len].
    assert (E0 : (0 <=? led_tolerated l) = true) by (apply N.leb_le; lia). rewrite E0.
    destruct (l_max_pending l) as [|m rest] eqn:Ep; cbn [fst snd andb].
    - split; [reflexivity|]. unfold TS. rewrite Ep. auto.
    - split; [reflexivity|]. unfold TS, vals in *. cbn [l_max_cur l_max_pending l_max_acked]. rewrite Ep in *.
      split; [exact Hc|]. split; [exact Hl|]. split; [inversion Hv; assumption|exact Hq].
  Qed.

  Lemma step_tol (p : pair) from f orders x l :
    frame_small f -> TS (toward x p) l ->
    let r := sl_step x l (tstep_of from f orders (pstep p from f orders)) in
    snd (snd r) = true /\
    (s_status (pstep p from f orders) = Ok -> TS (toward x (s_pair (pstep p from f orders))) (fst r)).
  Proof.
    intros Hsm HS. cbv zeta. rewrite (sl_step_any dstate estate).
    set (l1 := if side_eqb from x then sl_sent l f else l).
    assert (Hcore : (ScriptTol (led_tolerated l1) (f_max (r_flow (toward x p))) (s_to x (pcore p from f orders)) \/
                     (s_to x (pcore p from f orders) = [OW WSettingsAck] /\ l1 = l)) /\
                    (s_status (pcore p from f orders) = Ok -> TS (toward x (s_pair (pcore p from f orders))) l1)).
    { unfold l1. destruct (side_cases from x) as [-> | ->].
      - rewrite side_eqb_refl. destruct (core_tol_from p from f orders l Hsm HS) as [H1 H2]. split; [left; exact H1|exact H2].
      - rewrite side_eqb_other. destruct (core_tol_other p from f orders l Hsm HS) as [[H1|H1] H2];
          (split; [|exact H2]); [left; exact H1|right; split; [exact H1|reflexivity]]. }
    destruct Hcore as [Hfit Hnext].
    assert (Hflow : forall l', TS (toward x (s_pair (pcore p from f orders))) l' -> TS (toward x (s_pair (pstep p from f orders))) l').
    { intros l' [S1 [S2 [S3 S4]]]. unfold TS. rewrite (proj1 (pstep_flow dstate estate dec enc dresize eresize p from f orders x)). auto. }
    destruct (pstep_script dstate estate dec enc dresize eresize p from f orders x) as [[e He] | [He Hd]].
    - destruct Hfit as [Hfit | [Hack Hl1]].
      + destruct (run_script_tol _ _ _ _ _ _ Hfit He) as [Hw Hna].
        destruct (sl_recv_all_tol l1 _ Hw Hna) as [Hc Hsame].
        split; [exact Hc|]. intro Hok. rewrite Hsame. apply Hflow, Hnext.
        exact (pstep_ok dstate estate dec enc dresize eresize p from f orders Hok).
      + rewrite Hack in He. cbn [run_script] in He. injection He as Hout _. rewrite <- Hout.
        unfold wire. cbn [flat_map wire1 app].
        split.
        * rewrite Hl1.
          assert (E0 : (0 <=? led_tolerated l) = true) by (apply N.leb_le; lia).
          cbn [sl_recv_all sl_recv payload_len]. rewrite E0. destruct (l_max_pending l); reflexivity.
        * intro Hok. pose proof (Hnext (pstep_ok dstate estate dec enc dresize eresize p from f orders Hok)) as HT.
          apply Hflow. exact (proj2 (TS_ack _ _ HT)).
    - rewrite He. cbn [wire flat_map sl_recv_all fst snd]. split; [reflexivity|]. rewrite Hd. discriminate.
  Qed.

  Lemma run_tol : forall evs (p : pair) x l, hist_small evs -> TS (toward x p) l ->
    snd (snd (sl_run x l (snd (run p evs)))) = true.
  Proof.
    induction evs as [|e r IH]; intros p x l Hsm HS; [reflexivity|].
    inversion Hsm as [|? ? He Hr]; subst. destruct e as [from f orders]. cbn [e_frame] in He.
    cbn [H2Relay.run e_from e_frame e_orders].
    pose proof (step_tol p from f orders x l He HS) as Hstep. cbv zeta in Hstep.
    unfold PairWin.tstep_of in Hstep. destruct Hstep as [Hb Hnext].
    destruct (s_status (pstep p from f orders)) eqn:Est.
    - specialize (IH (s_pair (pstep p from f orders)) x _ Hr (Hnext eq_refl)).
      destruct (run (s_pair (pstep p from f orders)) r) as [p' ts]. cbn [fst snd] in *. cbn [sl_run].
      destruct (sl_step x l _) as [l1 [b1 c1]]. cbn [fst snd] in *.
      destruct (sl_run x l1 ts) as [l2 [b2 c2]]. cbn [fst snd] in *. subst. reflexivity.
    - cbn [fst snd sl_run]. destruct (sl_step x l _) as [l1 [b1 c1]]. cbn [fst snd] in *. subst. reflexivity.
    - cbn [fst snd sl_run]. destruct (sl_step x l _) as [l1 [b1 c1]]. cbn [fst snd] in *. subst. reflexivity.
    - cbn [fst snd sl_run]. destruct (sl_step x l _) as [l1 [b1 c1]]. cbn [fst snd] in *. subst. reflexivity.
  Qed.

  Theorem frame_size_at_emission_from_start : forall evs d1 e1 d2 e2 x, hist_small evs ->
    sizes_within_tolerated x (snd (run (pair0 dstate estate d1 e1 d2 e2) evs)) = true.
  Proof.
    intros evs d1 e1 d2 e2 x Hsm. unfold sizes_within_tolerated. apply run_tol; [exact Hsm|].
    unfold TS, sled0, vals. rewrite toward_pair0. unfold flow0. cbn [f_max l_max_cur l_max_pending l_max_acked lastv fold_left]. rewrite Hinit.
    split; [reflexivity|]. split; [reflexivity|]. split; [repeat constructor; unfold okv; lia|]. intros s o H. discriminate.
  Qed.
End Codec.
