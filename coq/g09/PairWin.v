(* G09 — C09 (a): for every history the relay's windows equal the receiver's ledger and every
   released DATA frame fits both of the receiver's windows. *)
From FwdLib Require Import Bytes.
From G09 Require Import Tables H2Relay Ledger FlowBasics WinProofs PairBasics Lift.
Open Scope N_scope.

Lemma last_setting_acc sid l cur :
  last_setting sid l cur = match last_setting sid l None with Some w => Some w | None => cur end.
Proof.
  revert cur. induction l as [|[k v] r IH]; intro cur; cbn [last_setting]; [reflexivity|].
  rewrite (IH (if k =? sid then Some v else cur)), (IH (if k =? sid then Some v else None)).
  destruct (last_setting sid r None); [reflexivity|]. destruct (k =? sid); reflexivity.
Qed.

Lemma last_setting_none l : count4 l = O -> last_setting 4 l None = None.
Proof.
  induction l as [|[k v] r IH]; cbn [count4 last_setting]; [reflexivity|].
  destruct (k =? 4); [discriminate|exact IH].
Qed.

Lemma wled_eta l : mkWl (l_init l) (l_conn l) (l_adj l) = l.
Proof. destruct l; reflexivity. Qed.

Lemma wl_recv_all_wus l fs : (forall f, In f fs -> match f with WData _ _ _ => False | _ => True end) ->
  wl_recv_all l fs = (l, true).
Proof.
  induction fs as [|f r IH]; intro H; cbn [wl_recv_all]; [reflexivity|].
  assert (Hf := H f (or_introl eq_refl)). destruct f; try contradiction; cbn [wl_recv];
    rewrite IH by (intros g Hg; apply H; right; exact Hg); reflexivity.
Qed.

Lemma WSim_update_max v fl l : WSim fl l -> WSim (update_max v fl) l.
Proof. intro H. exact H. Qed.
Lemma QInv_update_max v fl : QInv fl -> QInv (update_max v fl).
Proof. intro H. exact H. Qed.

Section Codec.
  Variables dstate estate : Type.
  Variable dec : dstate -> list N -> option (list field) * dstate.
  Variable enc : estate -> list field -> list N * estate.
  Variable dresize : dstate -> N -> dstate.
  Variable eresize : estate -> N -> estate.
  Hypothesis Hgate : emit_conn_blocks_on_gt = true /\ emit_stream_blocks_on_gt = true.
  Hypothesis Hdeb : emit_debits_conn = true /\ emit_debits_stream = true.
  Hypothesis Hconn : settings_delta_touches_conn = false.

  Notation relay := (relay dstate estate).
  Notation pair := (pair dstate estate).
  Notation pcore := (pcore dec dresize).
  Notation pstep := (pstep dec enc dresize eresize).
  Notation run := (run dec enc dresize eresize).

  Definition final_init (l : list (N * N)) (i : Z) : Z :=
    match last_setting 4 l None with Some v => Z.of_N v | None => i end.

  Lemma apply_settings_wl : forall l orders (peer : relay) acc lw,
    WSim (r_flow peer) lw -> QInv (r_flow peer) -> (count4 l <= 1)%nat ->
    exists scr lw',
      snd (fst (apply_settings dresize l orders peer acc)) = acc ++ scr /\
      wl_recv_all (mkWl (final_init l (l_init lw)) (l_conn lw) (l_adj lw)) (wire scr) = (lw', true) /\
      (snd (apply_settings dresize l orders peer acc) = true ->
       WSim (r_flow (fst (fst (apply_settings dresize l orders peer acc)))) lw' /\
       QInv (r_flow (fst (fst (apply_settings dresize l orders peer acc))))).
  Proof.
    induction l as [|[k v] rest IH]; intros orders peer acc lw Hs Hq Hc.
    - exists [], lw. cbn [apply_settings fst snd wire flat_map wl_recv_all]. unfold final_init. cbn [last_setting].
      rewrite app_nil_r, wled_eta. auto.
    - cbn [apply_settings].
      destruct (settings_validated && negb (setting_valid k v)).
      { exists [], (mkWl (final_init ((k, v) :: rest) (l_init lw)) (l_conn lw) (l_adj lw)).
        cbn [fst snd wire flat_map wl_recv_all]. rewrite app_nil_r. repeat split; discriminate. }
      cbn [count4] in Hc.
      destruct (k =? 1) eqn:E1.
      { apply N.eqb_eq in E1. subst k. cbn [N.eqb Pos.eqb] in Hc.
        destruct (IH orders (mkRelay (r_flow peer) (r_cont peer) (r_hbuf peer)
                                 (if table_size_resizes_decoder then dresize (r_dst peer) v else r_dst peer)
                                 (r_est peer)) (acc ++ [OResize v]) lw Hs Hq Hc) as [scr [lw' [Ha [Hr Hok]]]].
        exists (OResize v :: scr), lw'. split; [rewrite Ha, <- app_assoc; reflexivity|]. split; [|exact Hok].
        unfold final_init in *. cbn [last_setting N.eqb Pos.eqb wire flat_map wire1 app]. exact Hr. }
      destruct (k =? 4) eqn:E4.
      { apply N.eqb_eq in E4. subst k.
        assert (Hr0 : count4 rest = O) by lia.
        pose proof (update_init_wl Hgate Hdeb Hconn v (hd [] orders) (r_flow peer) lw Hs Hq) as [l1 [Hr1 [Hs1 Hq1]]].
        destruct (update_init v (hd [] orders) (r_flow peer)) as [fl e] eqn:Eu. cbn [fst snd] in *.
        specialize (IH (tl orders) (with_flow peer fl) (acc ++ oq e) l1 Hs1 Hq1 ltac:(lia)).
        destruct IH as [scr [lw' [Ha [Hr Hok]]]].
        exists (oq e ++ scr), lw'. split; [rewrite Ha, app_assoc; reflexivity|]. split; [|exact Hok].
        unfold final_init in *. cbn [last_setting N.eqb Pos.eqb]. rewrite last_setting_acc, (last_setting_none rest Hr0).
        rewrite (last_setting_none rest Hr0), wled_eta in Hr.
        rewrite wire_app, wire_oq, wl_recv_all_app, Hr1, Hr. reflexivity. }
      assert (Hfi : final_init ((k, v) :: rest) (l_init lw) = final_init rest (l_init lw)).
      { unfold final_init. cbn [last_setting]. rewrite E4. reflexivity. }
      rewrite Hfi.
      destruct (k =? 5).
      + destruct (IH orders (with_flow peer (update_max v (r_flow peer))) (acc ++ [OSetMax v]) lw Hs Hq Hc) as [scr [lw' [Ha [Hr Hok]]]].
        exists (OSetMax v :: scr), lw'. split; [rewrite Ha, <- app_assoc; reflexivity|]. split; [|exact Hok].
        cbn [wire flat_map wire1 app]. exact Hr.
      + exact (IH orders peer acc lw Hs Hq Hc).
  Qed.

  Definition tstep_of (from : side) (f : rframe) (orders : list (list N)) (s : sres dstate estate) : tstep :=
    mkT (mkEv from f orders) (s_toC s) (s_toS s) (s_status s) (s_enq s).

  Lemma oframes_to_tstep x from f orders s : oframes_to x (tstep_of from f orders s) = s_to x s.
  Proof. destruct x; reflexivity. Qed.

  Lemma wl_step_from from f orders s l :
    wl_step from l (tstep_of from f orders s) = wl_recv_all (wl_sent l f) (wire (s_to from s)).
  Proof. unfold wl_step, frames_to. rewrite oframes_to_tstep. cbn [t_ev tstep_of e_from e_frame]. rewrite side_eqb_refl. reflexivity. Qed.

  Lemma wl_step_other from f orders s l :
    wl_step (other from) l (tstep_of from f orders s) = wl_recv_all l (wire (s_to (other from) s)).
  Proof. unfold wl_step, frames_to. rewrite oframes_to_tstep. cbn [t_ev tstep_of e_from e_frame]. rewrite side_eqb_other. reflexivity. Qed.

  Ltac quiet_from Hs Hq :=
    rewrite ?res_toward_from, ?res_to_from, ?res_status; cbn [wire flat_map wl_recv_all wl_sent];
    eexists; split; [reflexivity|intros _; split; [exact Hs|exact Hq]].
  Ltac quiet_other Hs Hq :=
    rewrite ?res_toward_other, ?res_to_other, ?res_status; cbn [wire wire1 flat_map app wl_recv_all wl_recv];
    eexists; split; [reflexivity|intros _; split; [exact Hs|exact Hq]].

  Lemma wl_recv_all_wu l c id :
    wl_recv_all l (wire (ow (if c =? 0 then [] else [WWinUpd 0 c; WWinUpd id c]))) = (l, true).
  Proof. rewrite wire_ow. destruct (c =? 0); reflexivity. Qed.

  (* one processFrame call, seen by the endpoint that sent the frame *)
  Lemma step_wl_from (p : pair) from f orders l :
    frame_wf f ->
    WSim (r_flow (toward from p)) l -> QInv (r_flow (toward from p)) ->
    exists l', wl_step from l (tstep_of from f orders (pcore p from f orders)) = (l', true) /\
      (s_status (pcore p from f orders) = Ok ->
       WSim (r_flow (toward from (s_pair (pcore p from f orders)))) l' /\
       QInv (r_flow (toward from (s_pair (pcore p from f orders))))).
  Proof.
    intros Hwf Hs Hq. rewrite wl_step_from. unfold pcore. cbv zeta.
    destruct f as [id es d flen|id es eh pr frag|id eh frag|id pm eh frag|id pr|id code|ack st|ack d|last code dbg|id inc|].
    - (* DATA: only WINDOW_UPDATE frames go back *)
      destruct (data_pieces _ _ id d es) as [ps|].
      + destruct (enqueue_all ps _) as [fl em].
        rewrite res_toward_from, res_to_from, res_status. cbn [wl_sent]. rewrite wl_recv_all_wu.
        eexists; split; [reflexivity|intros _; split; assumption].
      + rewrite res_toward_from, res_to_from, res_status. cbn [wl_sent]. rewrite wl_recv_all_wu.
        eexists; split; [reflexivity|intros _; split; assumption].
    - destruct eh; [|quiet_from Hs Hq].
      destruct (dec _ frag) as [[fields|] dst']; [|quiet_from Hs Hq].
      destruct (r_header _ _ _ _ _) as [[[me' em] q]|]; quiet_from Hs Hq.
    - destruct eh; [|quiet_from Hs Hq].
      destruct (dec _ _) as [[fields|] dst']; [|quiet_from Hs Hq].
      cbn [r_cont]. destruct (r_cont _); [|quiet_from Hs Hq].
      destruct (complete _ _ _) as [[[me' em] q]|]; quiet_from Hs Hq.
    - destruct eh; [|quiet_from Hs Hq].
      destruct (dec _ frag) as [[fields|] dst']; [|quiet_from Hs Hq].
      destruct (r_push _ _ _ _) as [[[me' em] q]|]; quiet_from Hs Hq.
    - destruct (enqueue_emit _ _) as [fl em]. quiet_from Hs Hq.
    - destruct (enqueue_emit _ _) as [fl em]. quiet_from Hs Hq.
    - destruct ack; [quiet_from Hs Hq|].
      cbn [frame_wf] in Hwf.
      destruct (apply_settings_wl st orders (toward from p) [] l Hs Hq Hwf) as [em [lw' [Ha [Hr Hok]]]].
      destruct (apply_settings dresize st orders (toward from p) []) as [[peer' acc'] ok].
      cbn [fst snd app] in *. subst acc'.
      destruct ok; rewrite res_toward_from, res_to_from, res_status; cbn [wl_sent];
        unfold final_init in Hr; rewrite Hr; eexists; (split; [reflexivity|]).
      + intros _. exact (Hok eq_refl).
      + discriminate.
    - quiet_from Hs Hq.
    - quiet_from Hs Hq.
    - pose proof (update_window_wl Hgate Hdeb id inc (hd [] orders) (r_flow (toward from p)) l Hs Hq) as [l' [Hr [Hs' Hq']]].
      destruct (update_window id inc (hd [] orders) (r_flow (toward from p))) as [fl em]. cbn [fst snd] in *.
      rewrite res_toward_from, res_to_from, res_status, wire_oq. rewrite Hr.
      eexists; split; [reflexivity|]. intros _. cbn [with_flow r_flow]. split; assumption.
    - quiet_from Hs Hq.
  Qed.
  (* ... and by the other endpoint, which receives what the reading relay releases *)
  Lemma step_wl_other (p : pair) from f orders l :
    frame_wf f ->
    WSim (r_flow (toward (other from) p)) l -> QInv (r_flow (toward (other from) p)) ->
    exists l', wl_step (other from) l (tstep_of from f orders (pcore p from f orders)) = (l', true) /\
      (s_status (pcore p from f orders) = Ok ->
       WSim (r_flow (toward (other from) (s_pair (pcore p from f orders)))) l' /\
       QInv (r_flow (toward (other from) (s_pair (pcore p from f orders))))).
  Proof.
    intros Hwf Hs Hq. rewrite wl_step_other. unfold pcore. cbv zeta.
    set (me := toward (other from) p) in *.
    destruct f as [id es d flen|id es eh pr frag|id eh frag|id pm eh frag|id pr|id code|ack st|ack d|last code dbg|id inc|];
      cbn [frame_wf] in Hwf.
    - destruct (data_pieces _ _ id d es) as [ps|] eqn:Ep; [|quiet_other Hs Hq].
      destruct (with_buf_same_wl (r_flow me) l id Hs Hq) as [Hs0 Hq0].
      assert (Hids : Forall (fun q => q_id q <> 0) ps).
      { eapply Forall_impl; [|exact (data_pieces_ids _ _ _ _ _ _ Ep)]. intros q Hq1. cbn beta in Hq1. congruence. }
      pose proof (enqueue_all_wl Hgate Hdeb ps _ l Hids Hs0 Hq0) as [l' [Hr [Hs' Hq']]].
      destruct (enqueue_all ps _) as [fl em]. cbn [fst snd] in *.
      rewrite res_toward_other, res_to_other, res_status, wire_oq, Hr.
      eexists; split; [reflexivity|intros _; split; assumption].
    - destruct eh; [|quiet_other Hs Hq].
      destruct (dec _ frag) as [[fields|] dst']; [|quiet_other Hs Hq].
      destruct (r_header _ _ _ _ _) as [[[me' em] q]|] eqn:Eh; [|quiet_other Hs Hq].
      apply r_header_flow in Eh as [Ee [Hid _]]. cbn [r_flow] in Ee.
      pose proof (enqueue_emit_wl Hgate Hdeb (r_flow me) l q ltac:(congruence) Hs Hq) as [l' [Hr [Hs' Hq']]].
      rewrite Ee in Hr, Hs', Hq'. cbn [fst snd] in *.
      rewrite res_toward_other, res_to_other, res_status, wire_oq, Hr.
      eexists; split; [reflexivity|intros _; split; assumption].
    - destruct eh; [|quiet_other Hs Hq].
      destruct (dec _ _) as [[fields|] dst']; [|quiet_other Hs Hq].
      cbn [r_cont]. destruct (r_cont me) eqn:Ec; [|quiet_other Hs Hq].
      destruct (complete _ _ _) as [[[me' em] q]|] eqn:Eh; [|quiet_other Hs Hq].
      apply complete_flow in Eh as [Ee [Hid _]]. cbn [r_flow] in Ee.
      pose proof (enqueue_emit_wl Hgate Hdeb (r_flow me) l q ltac:(congruence) Hs Hq) as [l' [Hr [Hs' Hq']]].
      rewrite Ee in Hr, Hs', Hq'. cbn [fst snd] in *.
      rewrite res_toward_other, res_to_other, res_status, wire_oq, Hr.
      eexists; split; [reflexivity|intros _; split; assumption].
    - destruct eh; [|quiet_other Hs Hq].
      destruct (dec _ frag) as [[fields|] dst']; [|quiet_other Hs Hq].
      destruct (r_push _ _ _ _) as [[[me' em] q]|] eqn:Eh; [|quiet_other Hs Hq].
      apply r_push_flow in Eh as [Ee [Hid _]]. cbn [r_flow] in Ee.
      pose proof (enqueue_emit_wl Hgate Hdeb (r_flow me) l q ltac:(congruence) Hs Hq) as [l' [Hr [Hs' Hq']]].
      rewrite Ee in Hr, Hs', Hq'. cbn [fst snd] in *.
      rewrite res_toward_other, res_to_other, res_status, wire_oq, Hr.
      eexists; split; [reflexivity|intros _; split; assumption].
    - pose proof (enqueue_emit_wl Hgate Hdeb (r_flow me) l (QPrio id pr) Hwf Hs Hq) as [l' [Hr [Hs' Hq']]].
      destruct (enqueue_emit _ _) as [fl em]. cbn [fst snd] in *.
      rewrite res_toward_other, res_to_other, res_status, wire_oq, Hr.
      eexists; split; [reflexivity|intros _; split; assumption].
    - pose proof (enqueue_emit_wl Hgate Hdeb (r_flow me) l (QRst id code) Hwf Hs Hq) as [l' [Hr [Hs' Hq']]].
      destruct (enqueue_emit _ _) as [fl em]. cbn [fst snd] in *.
      rewrite res_toward_other, res_to_other, res_status, wire_oq, Hr.
      eexists; split; [reflexivity|intros _; split; assumption].
    - destruct ack; [quiet_other Hs Hq|].
      destruct (apply_settings _ _ _ _ _) as [[peer' acc'] ok]. destruct ok; quiet_other Hs Hq.
    - quiet_other Hs Hq.
    - quiet_other Hs Hq.
    - destruct (update_window _ _ _ _) as [fl em]. quiet_other Hs Hq.
    - quiet_other Hs Hq.
  Qed.
  Definition hist_wf (evs : list event) : Prop := Forall (fun e => frame_wf (e_frame e)) evs.
  Definition all_ok (tr : list tstep) : Prop := Forall (fun t => t_status t = Ok) tr.

  Lemma step_wl_core (p : pair) from f orders x l :
    frame_wf f ->
    WSim (r_flow (toward x p)) l -> QInv (r_flow (toward x p)) ->
    exists l', wl_step x l (tstep_of from f orders (pcore p from f orders)) = (l', true) /\
      (s_status (pcore p from f orders) = Ok ->
       WSim (r_flow (toward x (s_pair (pcore p from f orders)))) l' /\
       QInv (r_flow (toward x (s_pair (pcore p from f orders))))).
  Proof.
    destruct (side_cases from x) as [-> | ->]; [apply step_wl_from|apply step_wl_other].
  Qed.

  Lemma wl_step_any x from f orders s l :
    wl_step x l (tstep_of from f orders s) =
    wl_recv_all (if side_eqb from x then wl_sent l f else l) (wire (s_to x s)).
  Proof. unfold wl_step, frames_to. rewrite oframes_to_tstep. reflexivity. Qed.

  (* the same for the whole step: preparing the released frames changes nothing the credit ledger sees *)
  Lemma step_wl (p : pair) from f orders x l :
    frame_wf f ->
    WSim (r_flow (toward x p)) l -> QInv (r_flow (toward x p)) ->
    exists l', wl_step x l (tstep_of from f orders (pstep p from f orders)) = (l', true) /\
      (s_status (pstep p from f orders) = Ok ->
       WSim (r_flow (toward x (s_pair (pstep p from f orders)))) l' /\
       QInv (r_flow (toward x (s_pair (pstep p from f orders))))).
  Proof.
    intros Hwf Hs Hq. destruct (step_wl_core p from f orders x l Hwf Hs Hq) as [l0 [H0 Hn0]].
    rewrite wl_step_any in *.
    destruct (pstep_out dstate estate dec enc dresize eresize p from f orders x) as [Hp | [He Hd]].
    - exists l0. rewrite (Prep_wl _ _ _ Hp). split; [exact H0|].
      intro Hok. rewrite (proj1 (pstep_flow dstate estate dec enc dresize eresize p from f orders x)).
      apply Hn0. apply (pstep_ok dstate estate dec enc dresize eresize). exact Hok.
    - rewrite He. cbn [wire flat_map wl_recv_all]. eexists. split; [reflexivity|]. rewrite Hd. discriminate.
  Qed.

  Lemma run_wl : forall evs (p : pair) x l,
    hist_wf evs -> WSim (r_flow (toward x p)) l -> QInv (r_flow (toward x p)) ->
    snd (wl_run x l (snd (run p evs))) = true /\
    (all_ok (snd (run p evs)) ->
     WSim (r_flow (toward x (fst (run p evs)))) (fst (wl_run x l (snd (run p evs)))) /\
     QInv (r_flow (toward x (fst (run p evs))))).
  Proof.
    induction evs as [|e r IH]; intros p x l Hwf Hs Hq.
    - cbn [run wl_run fst snd]. split; [reflexivity|intros _; split; assumption].
    - inversion Hwf as [|? ? He Hr]; subst. destruct e as [from f orders]. cbn [e_frame e_from e_orders] in *.
      cbn [run e_from e_frame e_orders].
      destruct (step_wl p from f orders x l He Hs Hq) as [l' [Hstep Hnext]].
      unfold tstep_of in Hstep.
      destruct (s_status (pstep p from f orders)) eqn:Est.
      + specialize (IH (s_pair (pstep p from f orders)) x l' Hr (proj1 (Hnext eq_refl)) (proj2 (Hnext eq_refl))).
        destruct (run (s_pair (pstep p from f orders)) r) as [p' ts]. cbn [fst snd] in *.
        cbn [wl_run]. rewrite Hstep. destruct (wl_run x l' ts) as [l2 a2]. cbn [fst snd] in *.
        destruct IH as [Ha Hfin]. split; [rewrite Ha; reflexivity|].
        intro Hall. inversion Hall; subst. exact (Hfin H2).
      + cbn [fst snd wl_run]. rewrite Hstep. cbn [fst snd]. split; [reflexivity|].
        intro Hall. inversion Hall as [|? ? Hbad _]; subst. cbn [t_status] in Hbad. congruence.
      + cbn [fst snd wl_run]. rewrite Hstep. cbn [fst snd]. split; [reflexivity|].
        intro Hall. inversion Hall as [|? ? Hbad _]; subst. cbn [t_status] in Hbad. congruence.
      + cbn [fst snd wl_run]. rewrite Hstep. cbn [fst snd]. split; [reflexivity|].
        intro Hall. inversion Hall as [|? ? Hbad _]; subst. cbn [t_status] in Hbad. congruence.
  Qed.

  Lemma WSim0 : WSim flow0 wled0.
  Proof.
    unfold flow0, wled0. split; [reflexivity|]. split; [reflexivity|].
    intros s _. unfold win_of, buf_or_new, led_window. cbn. lia.
  Qed.
  Lemma QInv0 : QInv flow0.
  Proof. intros s o H. discriminate. Qed.

  Definition pair0 (d1 : dstate) (e1 : estate) (d2 : dstate) (e2 : estate) : pair := mkPair (relay0 d1 e1) (relay0 d2 e2).

  Lemma toward_pair0 x d1 e1 d2 e2 : r_flow (toward x (pair0 d1 e1 d2 e2)) = flow0.
  Proof. destruct x; reflexivity. Qed.

  (* every DATA frame an endpoint is sent fits its stream window and its connection window at that moment *)
  Theorem emit_within_window : forall evs d1 e1 d2 e2 x,
    hist_wf evs -> windows_respected x (snd (run (pair0 d1 e1 d2 e2) evs)) = true.
  Proof.
    intros evs d1 e1 d2 e2 x Hwf. unfold windows_respected.
    apply (run_wl evs (pair0 d1 e1 d2 e2) x wled0 Hwf); rewrite toward_pair0; [exact WSim0|exact QInv0].
  Qed.

  (* the relay's windows ARE the receiver's ledger (which is computed from the trace alone) *)
  Theorem window_is_ledger : forall evs d1 e1 d2 e2 x,
    hist_wf evs -> all_ok (snd (run (pair0 d1 e1 d2 e2) evs)) ->
    let p := fst (run (pair0 d1 e1 d2 e2) evs) in
    let l := final_wled x (snd (run (pair0 d1 e1 d2 e2) evs)) in
    f_conn (r_flow (toward x p)) = l_conn l /\
    forall s, s <> 0 -> win_of (r_flow (toward x p)) s = led_window l s.
  Proof.
    intros evs d1 e1 d2 e2 x Hwf Hok p l.
    destruct (run_wl evs (pair0 d1 e1 d2 e2) x wled0 Hwf) as [_ Hfin];
      [rewrite toward_pair0; exact WSim0|rewrite toward_pair0; exact QInv0|].
    destruct (Hfin Hok) as [[Hc [_ Hw]] _]. split; [exact Hc|exact Hw].
  Qed.
End Codec.
