(* G09 — from pcore (frames released, header blocks not yet encoded) to pstep (prepared in order). *)
From FwdLib Require Import Bytes.
From G09 Require Import Tables H2Relay Ledger Term FlowBasics WinProofs PairBasics.
Open Scope N_scope.

(* a queued frame without its chunks *)
Definition strip (q : qframe) : qframe :=
  match q with
  | QDataP id es d _ => QData id es d
  | QHdr id es p f _ => QHdr id es p f []
  | QPush id pr f _ => QPush id pr f []
  | _ => q
  end.

Definition oqs (l : list oframe) : list qframe := flat_map (fun o => match o with OQ q => [q] | _ => [] end) l.
Lemma oqs_oq l : oqs (oq l) = l.
Proof. unfold oqs, oq. induction l as [|q r IH]; cbn [map flat_map app]; [reflexivity|rewrite IH; reflexivity]. Qed.
Lemma oqs_ow l : oqs (ow l) = [].
Proof. unfold oqs, ow. induction l as [|q r IH]; cbn [map flat_map app]; [reflexivity|exact IH]. Qed.
Lemma oqs_app a c : oqs (a ++ c) = oqs a ++ oqs c.
Proof. unfold oqs. apply flat_map_app. Qed.
Lemma wire_app a c : wire (a ++ c) = wire a ++ wire c.
Proof. unfold wire. apply flat_map_app. Qed.

(* l' is l with every released frame prepared and the markers dropped *)
Inductive Prep : list oframe -> list oframe -> Prop :=
| Prep_nil : Prep [] []
| Prep_q q q' r r' : strip q' = strip q -> Prep r r' -> Prep (OQ q :: r) (OQ q' :: r')
| Prep_w w r r' : Prep r r' -> Prep (OW w :: r) (OW w :: r')
| Prep_resize v r r' : Prep r r' -> Prep (OResize v :: r) r'
| Prep_max m r r' : Prep r r' -> Prep (OSetMax m :: r) r'.

Section Codec.
  Variables estate : Type.
  Variable enc : estate -> list field -> list N * estate.
  Variable eresize : estate -> N -> estate.

  Lemma prepare_strip est maxp q q' est' : prepare enc est maxp q = Some (q', est') -> strip q' = strip q.
  Proof.
    destruct q; cbn [prepare]; try (intro H; inversion H; reflexivity).
    - destruct (enc est fields) as [bytes e']. destruct (split_chunks _ _ bytes); intro H; inversion H; reflexivity.
    - destruct (enc est fields) as [bytes e']. destruct (split_chunks _ _ bytes); intro H; inversion H; reflexivity.
  Qed.

  Lemma run_script_Prep : forall l est maxp l' est', run_script enc eresize est maxp l = Some (l', est') -> Prep l l'.
  Proof.
    induction l as [|o r IH]; intros est maxp l' est' H; cbn [run_script] in H.
    - inversion H. constructor.
    - destruct o as [q|w|v|m].
      + destruct (prepare enc est maxp q) as [[q' e1]|] eqn:Ep; [|discriminate].
        destruct (run_script enc eresize e1 maxp r) as [[l1 e2]|] eqn:Er; [|discriminate].
        inversion H; subst. constructor; [exact (prepare_strip _ _ _ _ _ Ep)|exact (IH _ _ _ _ Er)].
      + destruct (run_script enc eresize est maxp r) as [[l1 e2]|] eqn:Er; [|discriminate].
        inversion H; subst. constructor. exact (IH _ _ _ _ Er).
      + constructor. exact (IH _ _ _ _ H).
      + constructor. exact (IH _ _ _ _ H).
  Qed.

  (* with a positive max frame size the preparation terminates *)
  Lemma prepare_total est maxp q : 0 < maxp -> prepare enc est maxp q <> None.
  Proof.
    intro Hm. destruct q; cbn [prepare]; try discriminate.
    - destruct (enc est fields) as [bytes e']. pose proof (split_chunks_terminates (u32_sub maxp (if prio_is_zero p then 0 else headers_priority_len)) maxp bytes Hm).
      destruct (split_chunks _ _ bytes); [discriminate|congruence].
    - destruct (enc est fields) as [bytes e']. pose proof (split_chunks_terminates (u32_sub maxp push_promise_meta_len) maxp bytes Hm).
      destruct (split_chunks _ _ bytes); [discriminate|congruence].
  Qed.

  Fixpoint maxes_pos (l : list oframe) : Prop :=
    match l with [] => True | OSetMax m :: r => 0 < m /\ maxes_pos r | _ :: r => maxes_pos r end.

  Lemma run_script_total : forall l est maxp, 0 < maxp -> maxes_pos l -> run_script enc eresize est maxp l <> None.
  Proof.
    induction l as [|o r IH]; intros est maxp Hm Hp; cbn [run_script]; [discriminate|].
    destruct o as [q|w|v|m]; cbn [maxes_pos] in Hp.
    - pose proof (prepare_total est maxp q Hm). destruct (prepare enc est maxp q) as [[q' e1]|]; [|congruence].
      pose proof (IH e1 maxp Hm Hp). destruct (run_script enc eresize e1 maxp r) as [[l1 e2]|]; [discriminate|congruence].
    - pose proof (IH est maxp Hm Hp). destruct (run_script enc eresize est maxp r) as [[l1 e2]|]; [discriminate|congruence].
    - apply IH; assumption.
    - apply IH; tauto.
  Qed.
End Codec.

(* ---- what the endpoints' ledgers see is the same before and after preparation *)
Lemma strip_fsz q q' : strip q' = strip q -> fsz q' = fsz q.
Proof. destruct q, q'; cbn; intro H; try discriminate; try reflexivity; inversion H; reflexivity. Qed.

Lemma wl_send_strip l q q' : strip q' = strip q -> wl_recv_all l (send q') = wl_recv_all l (send q).
Proof.
  intro H. destruct q, q'; cbn [strip] in H; try discriminate H; try (inversion H; subst; reflexivity).
  - inversion H; subst. first [apply wl_send_datap | symmetry; apply wl_send_datap].
  - inversion H; subst. first [apply wl_send_datap | symmetry; apply wl_send_datap].
  - inversion H; subst. rewrite !wl_send_datap. reflexivity.
  - rewrite !wl_recv_all_send_nodata; try reflexivity; intros; discriminate.
  - rewrite !wl_recv_all_send_nodata; try reflexivity; intros; discriminate.
Qed.

Lemma Prep_wl l l' lw : Prep l l' -> wl_recv_all lw (wire l') = wl_recv_all lw (wire l).
Proof.
  intro H. revert lw. induction H as [|q q' r r' Hs _ IH|w r r' _ IH|v r r' _ IH|m r r' _ IH]; intro lw.
  - reflexivity.
  - cbn [wire flat_map wire1]. rewrite !wl_recv_all_app, (wl_send_strip lw q q' Hs).
    destruct (wl_recv_all lw (send q)) as [l1 o1]. fold (wire r) (wire r'). rewrite IH. reflexivity.
  - cbn [wire flat_map wire1 app wl_recv_all]. destruct (wl_recv lw w) as [l1 o1]. fold (wire r) (wire r'). rewrite IH. reflexivity.
  - cbn [wire flat_map wire1 app]. fold (wire r). apply IH.
  - cbn [wire flat_map wire1 app]. fold (wire r). apply IH.
Qed.

Lemma Prep_oqs l l' : Prep l l' -> map strip (oqs l') = map strip (oqs l).
Proof.
  induction 1 as [|q q' r r' Hs _ IH|w r r' _ IH|v r r' _ IH|m r r' _ IH].
  - reflexivity.
  - cbn [oqs flat_map app map]. fold (oqs r) (oqs r'). congruence.
  - cbn [oqs flat_map app map]. fold (oqs r) (oqs r'). exact IH.
  - cbn [oqs flat_map app map]. fold (oqs r). exact IH.
  - cbn [oqs flat_map app map]. fold (oqs r). exact IH.
Qed.

Lemma wus_app a c : wus (a ++ c) = wus a ++ wus c.
Proof.
  induction a as [|f r IH]; [reflexivity|]. cbn [app wus]. destruct f; cbn [app]; rewrite ?IH; reflexivity.
Qed.
Lemma wus_conts id ch : wus (conts id ch) = [].
Proof. induction ch as [|c r IH]; [reflexivity|]. cbn [conts]. destruct r; [reflexivity|]. cbn [wus]. exact IH. Qed.
Lemma wus_pieces : forall fuel m id d es, wus (wdata_pieces fuel m id d es) = [].
Proof. induction fuel as [|k IH]; intros; cbn [wdata_pieces]; [reflexivity|]. destruct ((0 <? m) && (m <? len d)); [cbn [wus]; apply IH|reflexivity]. Qed.
Lemma wus_send q : wus (send q) = [].
Proof. destruct q; cbn [send wus]; rewrite ?wus_conts, ?wus_pieces; reflexivity. Qed.
Lemma wus_sends l : wus (sends l) = [].
Proof. unfold sends. induction l as [|q r IH]; [reflexivity|]. cbn [flat_map]. rewrite wus_app, wus_send, IH. reflexivity. Qed.

Lemma Prep_wus l l' : Prep l l' -> wus (wire l') = wus (wire l).
Proof.
  induction 1 as [|q q' r r' Hs _ IH|w r r' _ IH|v r r' _ IH|m r r' _ IH]; unfold wire in *; cbn [flat_map wire1 app].
  - reflexivity.
  - rewrite !wus_app, !wus_send. exact IH.
  - destruct w; cbn [wus]; rewrite ?IH; reflexivity.
  - exact IH.
  - exact IH.
Qed.

Lemma conn_conts id ch : filter is_conn (conts id ch) = [].
Proof. induction ch as [|c r IH]; [reflexivity|]. cbn [conts]. destruct r; [reflexivity|]. cbn [filter is_conn]. exact IH. Qed.
Lemma conn_pieces : forall fuel m id d es, filter is_conn (wdata_pieces fuel m id d es) = [].
Proof. induction fuel as [|k IH]; intros; cbn [wdata_pieces]; [reflexivity|]. destruct ((0 <? m) && (m <? len d)); [cbn [filter is_conn]; apply IH|reflexivity]. Qed.
Lemma conn_send q : filter is_conn (send q) = [].
Proof. destruct q; cbn [send filter is_conn]; rewrite ?conn_conts, ?conn_pieces; reflexivity. Qed.
Lemma conn_sends l : filter is_conn (sends l) = [].
Proof. unfold sends. induction l as [|q r IH]; [reflexivity|]. cbn [flat_map]. rewrite filter_app, conn_send, IH. reflexivity. Qed.

Lemma Prep_conn l l' : Prep l l' -> filter is_conn (wire l') = filter is_conn (wire l).
Proof.
  induction 1 as [|q q' r r' Hs _ IH|w r r' _ IH|v r r' _ IH|m r r' _ IH]; unfold wire in *; cbn [flat_map wire1 app].
  - reflexivity.
  - rewrite !filter_app, !conn_send. exact IH.
  - cbn [filter]. rewrite IH. reflexivity.
  - exact IH.
  - exact IH.
Qed.

(* ---- scripts without directly written frames *)
Definition noW (l : list oframe) : Prop := Forall (fun o => match o with OW _ => False | _ => True end) l.
Lemma noW_oq l : noW (oq l).
Proof. unfold noW, oq. induction l; constructor; [exact I|assumption]. Qed.
Lemma noW_app a c : noW a -> noW c -> noW (a ++ c).
Proof. intros. apply Forall_app. split; assumption. Qed.
Lemma noW_wus l : noW l -> wus (wire l) = [].
Proof.
  induction 1 as [|o r Ho _ IH]; [reflexivity|]. unfold wire in *. cbn [flat_map]. rewrite wus_app, IH.
  destruct o; try contradiction; cbn [wire1]; rewrite ?wus_send; reflexivity.
Qed.
Lemma noW_conn l : noW l -> filter is_conn (wire l) = [].
Proof.
  induction 1 as [|o r Ho _ IH]; [reflexivity|]. unfold wire in *. cbn [flat_map]. rewrite filter_app, IH.
  destruct o; try contradiction; cbn [wire1]; rewrite ?conn_send; reflexivity.
Qed.

(* ---- pstep in terms of pcore *)
Section Pair.
  Variables dstate estate : Type.
  Variable dec : dstate -> list N -> option (list field) * dstate.
  Variable enc : estate -> list field -> list N * estate.
  Variable dresize : dstate -> N -> dstate.
  Variable eresize : estate -> N -> estate.

  Notation pair := (pair dstate estate).
  Notation pcore := (pcore dec dresize).
  Notation pstep := (pstep dec enc dresize eresize).

  (* either both relays' releases were prepared, or preparing did not terminate *)
  Lemma pstep_cases (p : pair) from f orders :
    let s0 := pcore p from f orders in
    let s := pstep p from f orders in
    (exists oc ec os es',
        Prep (s_toC s0) oc /\ Prep (s_toS s0) os /\
        s = mkRes (mkPair (with_est (toC (s_pair s0)) ec) (with_est (toS (s_pair s0)) es')) oc os (s_status s0) (s_enq s0)) \/
    s = mkRes (s_pair s0) [] [] Diverge [].
  Proof.
    cbv zeta. unfold H2Relay.pstep.
    destruct (run_script enc eresize (r_est (toC (s_pair (pcore p from f orders)))) (f_max (r_flow (toC p))) (s_toC (pcore p from f orders))) as [[oc ec]|] eqn:E1; [|right; reflexivity].
    destruct (run_script enc eresize (r_est (toS (s_pair (pcore p from f orders)))) (f_max (r_flow (toS p))) (s_toS (pcore p from f orders))) as [[os es']|] eqn:E2; [|right; reflexivity].
    left. exists oc, ec, os, es'. split; [exact (run_script_Prep _ _ _ _ _ _ _ _ E1)|]. split; [exact (run_script_Prep _ _ _ _ _ _ _ _ E2)|reflexivity].
  Qed.

  (* the flow-control and reassembly state of both relays is that of pcore *)
  Lemma pstep_flow (p : pair) from f orders x :
    r_flow (toward x (s_pair (pstep p from f orders))) = r_flow (toward x (s_pair (pcore p from f orders))) /\
    r_dst (toward x (s_pair (pstep p from f orders))) = r_dst (toward x (s_pair (pcore p from f orders))) /\
    r_cont (toward x (s_pair (pstep p from f orders))) = r_cont (toward x (s_pair (pcore p from f orders))) /\
    r_hbuf (toward x (s_pair (pstep p from f orders))) = r_hbuf (toward x (s_pair (pcore p from f orders))).
  Proof.
    destruct (pstep_cases p from f orders) as [[oc [ec [os [es' [_ [_ ->]]]]]] | ->]; destruct x; cbn; auto.
  Qed.

  Lemma pstep_status (p : pair) from f orders :
    s_status (pstep p from f orders) = s_status (pcore p from f orders) \/ s_status (pstep p from f orders) = Diverge.
  Proof.
    destruct (pstep_cases p from f orders) as [[oc [ec [os [es' [_ [_ ->]]]]]] | ->]; cbn; auto.
  Qed.

  Lemma pstep_ok (p : pair) from f orders :
    s_status (pstep p from f orders) = Ok -> s_status (pcore p from f orders) = Ok.
  Proof. destruct (pstep_status p from f orders) as [H|H]; rewrite H; [auto|discriminate]. Qed.

  (* what endpoint x is sent: the prepared form of what pcore released towards it, or nothing *)
  Lemma pstep_out (p : pair) from f orders x :
    Prep (s_to x (pcore p from f orders)) (s_to x (pstep p from f orders)) \/
    (s_to x (pstep p from f orders) = [] /\ s_status (pstep p from f orders) = Diverge).
  Proof.
    destruct (pstep_cases p from f orders) as [[oc [ec [os [es' [H1 [H2 ->]]]]]] | ->]; destruct x; cbn; auto.
  Qed.

  Lemma pstep_script (p : pair) from f orders x :
    (exists e, run_script enc eresize (r_est (toward x (s_pair (pcore p from f orders)))) (f_max (r_flow (toward x p)))
                 (s_to x (pcore p from f orders)) = Some (s_to x (pstep p from f orders), e)) \/
    (s_to x (pstep p from f orders) = [] /\ s_status (pstep p from f orders) = Diverge).
  Proof.
    unfold H2Relay.pstep.
    destruct (run_script enc eresize (r_est (toC (s_pair (pcore p from f orders)))) (f_max (r_flow (toC p))) (s_toC (pcore p from f orders))) as [[oc ec]|] eqn:E1;
      [|right; destruct x; split; reflexivity].
    destruct (run_script enc eresize (r_est (toS (s_pair (pcore p from f orders)))) (f_max (r_flow (toS p))) (s_toS (pcore p from f orders))) as [[os es']|] eqn:E2;
      [|right; destruct x; split; reflexivity].
    left. destruct x; cbn [s_to s_toC s_toS toward]; eexists; eassumption.
  Qed.

  Lemma apply_settings_noW : forall l orders (peer : relay dstate estate) acc,
    noW acc -> noW (snd (fst (apply_settings dresize l orders peer acc))).
  Proof.
    induction l as [|[k v] rest IH]; intros orders peer acc Ha; cbn [apply_settings]; [exact Ha|].
    destruct (settings_validated && negb (setting_valid k v)); [exact Ha|].
    destruct (k =? 1); [apply IH; apply noW_app; [exact Ha|repeat constructor]|].
    destruct (k =? 4).
    - destruct (update_init v (hd [] orders) (r_flow peer)) as [fl e]. apply IH. apply noW_app; [exact Ha|apply noW_oq].
    - destruct (k =? 5); apply IH; [apply noW_app; [exact Ha|repeat constructor]|exact Ha].
  Qed.

  Lemma pstep_enq (p : pair) from f orders :
    s_status (pstep p from f orders) = Ok -> s_enq (pstep p from f orders) = s_enq (pcore p from f orders).
  Proof.
    destruct (pstep_cases p from f orders) as [[oc [ec [os [es' [_ [_ ->]]]]]] | ->]; cbn; [auto|discriminate].
  Qed.
End Pair.
