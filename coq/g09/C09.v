(* C09 — property theorems.  Nothing but statements, `exact`, Print Assumptions. *)
From FwdLib Require Import Bytes.
From G09 Require Import Tables H2Relay Ledger Check Term Obligations PairBasics PairWin.
Open Scope N_scope.

(* The split loop of data() terminates for every payload whenever the peer's
   MAX_FRAME_SIZE is positive ... *)
Theorem T09_data_terminates : forall id d es fl, 0 < f_max fl -> fl_data id d es fl <> None.
Proof. exact fl_data_terminates. Qed.
Print Assumptions T09_data_terminates.

(* ... and so does splitIntoChunks. *)
Theorem T09_chunks_terminate : forall first cmax data, 0 < cmax -> split_chunks first cmax data <> None.
Proof. exact split_chunks_terminates. Qed.
Print Assumptions T09_chunks_terminate.

(* For every history of frames (any number of streams, both directions, any visiting order of the
   map ranges, any HPACK behaviour), every DATA frame an endpoint is sent fits, at that moment, both
   the stream window and the connection window that endpoint has granted - as computed by the
   endpoint itself from the SETTINGS and WINDOW_UPDATE frames it sent and the DATA it received
   (Ledger.wl_run): no release ever drives a receiver's window below zero.
   hist_wf: what http2.Framer guarantees (no stream frame on stream 0), and at most one
   INITIAL_WINDOW_SIZE entry per SETTINGS frame. *)
Theorem T09_emit_within_window :
  forall (dstate estate : Type) dec enc dresize eresize (evs : list event) (d1 : dstate) (e1 : estate) d2 e2 x,
    hist_wf evs ->
    windows_respected x (snd (H2Relay.run dec enc dresize eresize (pair0 dstate estate d1 e1 d2 e2) evs)) = true.
Proof. exact (fun ds es dec enc dr er => emit_within_window ds es dec enc dr er ob_emit_gate ob_emit_debits ob_settings_delta_not_on_connection). Qed.
Print Assumptions T09_emit_within_window.

(* The windows the relay keeps (lazily created per-stream buffers, connection window) are exactly the
   receiver's ledger, for every stream and for the connection (T09_conn_credit is the first conjunct). *)
Theorem T09_window_is_ledger :
  forall (dstate estate : Type) dec enc dresize eresize (evs : list event) (d1 : dstate) (e1 : estate) d2 e2 x,
    hist_wf evs -> all_ok (snd (H2Relay.run dec enc dresize eresize (pair0 dstate estate d1 e1 d2 e2) evs)) ->
    let p := fst (H2Relay.run dec enc dresize eresize (pair0 dstate estate d1 e1 d2 e2) evs) in
    let l := final_wled x (snd (H2Relay.run dec enc dresize eresize (pair0 dstate estate d1 e1 d2 e2) evs)) in
    f_conn (r_flow (toward x p)) = l_conn l /\
    forall s, s <> 0 -> win_of (r_flow (toward x p)) s = led_window l s.
Proof. exact (fun ds es dec enc dr er => window_is_ledger ds es dec enc dr er ob_emit_gate ob_emit_debits ob_settings_delta_not_on_connection). Qed.
Print Assumptions T09_window_is_ledger.
