(* C09 — property theorems.  Nothing but statements, `exact`, Print Assumptions. *)
From FwdLib Require Import Bytes.
From G09 Require Import Tables H2Relay Ledger Check Term Obligations PairBasics PairWin LedgerFormula PairMisc SizeProofs SizeTol Witness.
Open Scope N_scope.

(* The split loop of data() terminates for every payload whenever the peer's
   MAX_FRAME_SIZE is positive ... *)
Theorem T09_data_terminates : forall id d es fl, 0 < f_max fl -> fl_data id d es fl <> None.
Proof. exact fl_data_terminates. Qed.
Print Assumptions T09_data_terminates.

(* ... and so does splitIntoChunks. *)
Theorem T09_chunks_terminate : forall first cmax data, 0 < cmax -> split_chunks first cmax data <> None.
Proof. exact split_chunks_terminates. Qed.
Print Assumptions T09_chunks_terminate.

(* For every history of frames (any number of streams, both directions, any visiting order of the
   map ranges, any HPACK behaviour), every DATA frame an endpoint is sent fits, at that moment, both
   the stream window and the connection window that endpoint has granted - as computed by the
   endpoint itself from the SETTINGS and WINDOW_UPDATE frames it sent and the DATA it received
   (Ledger.wl_run): no release ever drives a receiver's window below zero.
   hist_wf: what http2.Framer guarantees (no stream frame on stream 0), and at most one
   INITIAL_WINDOW_SIZE entry per SETTINGS frame. *)
Theorem T09_emit_within_window :
  forall (dstate estate : Type) dec enc dresize eresize (evs : list event) (d1 : dstate) (e1 : estate) d2 e2 x,
    hist_wf evs ->
    windows_respected x (snd (H2Relay.run dec enc dresize eresize (pair0 dstate estate d1 e1 d2 e2) evs)) = true.
Proof. exact (fun ds es dec enc dr er => emit_within_window ds es dec enc dr er ob_emit_gate ob_emit_debits ob_settings_delta_not_on_connection). Qed.
Print Assumptions T09_emit_within_window.

(* The windows the relay keeps (lazily created per-stream buffers, connection window) are exactly the
   receiver's ledger, for every stream and for the connection (T09_conn_credit is the first conjunct). *)
Theorem T09_window_is_ledger :
  forall (dstate estate : Type) dec enc dresize eresize (evs : list event) (d1 : dstate) (e1 : estate) d2 e2 x,
    hist_wf evs -> all_ok (snd (H2Relay.run dec enc dresize eresize (pair0 dstate estate d1 e1 d2 e2) evs)) ->
    let p := fst (H2Relay.run dec enc dresize eresize (pair0 dstate estate d1 e1 d2 e2) evs) in
    let l := final_wled x (snd (H2Relay.run dec enc dresize eresize (pair0 dstate estate d1 e1 d2 e2) evs)) in
    f_conn (r_flow (toward x p)) = l_conn l /\
    forall s, s <> 0 -> win_of (r_flow (toward x p)) s = led_window l s.
Proof. exact (fun ds es dec enc dr er => window_is_ledger ds es dec enc dr er ob_emit_gate ob_emit_debits ob_settings_delta_not_on_connection). Qed.
Print Assumptions T09_window_is_ledger.

(* The windows in closed form (RFC 7540 6.9 / 6.9.2): after every non-diverged history, for either side x, the
   relay's connection window toward x is 65535 + the sum of x's connection WINDOW_UPDATEs - the DATA octets
   sent to x, and its window for every stream s is x's latest SETTINGS_INITIAL_WINDOW_SIZE (65535 when x sent
   none) + the sum of x's WINDOW_UPDATEs for s - the DATA octets sent to x on s.  All five sums are functions
   of the trace alone (what x put on the wire and what the relay put on the wire toward x). *)
Theorem T09_window_closed_form :
  forall (dstate estate : Type) dec enc dresize eresize (evs : list event) (d1 : dstate) (e1 : estate) d2 e2 x,
    hist_wf evs -> all_ok (snd (H2Relay.run dec enc dresize eresize (pair0 dstate estate d1 e1 d2 e2) evs)) ->
    let p := fst (H2Relay.run dec enc dresize eresize (pair0 dstate estate d1 e1 d2 e2) evs) in
    let tr := snd (H2Relay.run dec enc dresize eresize (pair0 dstate estate d1 e1 d2 e2) evs) in
    f_conn (r_flow (toward x p)) = (Z.of_N default_initial_window + sum_conn_grants x tr - sum_data x tr)%Z /\
    forall s, s <> 0 ->
      win_of (r_flow (toward x p)) s =
      (latest_init x (Z.of_N default_initial_window) tr + sum_grants_on x s tr - sum_data_on x s tr)%Z.
Proof. exact (fun ds es dec enc dr er => relay_window_closed_form ds es dec enc dr er ob_emit_gate ob_emit_debits ob_settings_delta_not_on_connection). Qed.
Print Assumptions T09_window_closed_form.

(* Non-vacuity of the closed form: on the example history (window 8 below) the terms are 3 + 30 - 25. *)
Example T09_window_closed_form_example :
  latest_init Sv (Z.of_N default_initial_window) (snd (H2Relay.run unit_dec unit_enc unit_res unit_res (pair0 unit unit tt tt tt tt) example_hist)) = 3%Z /\
  sum_grants_on Sv 1 (snd (H2Relay.run unit_dec unit_enc unit_res unit_res (pair0 unit unit tt tt tt tt) example_hist)) = 30%Z /\
  sum_data_on Sv 1 (snd (H2Relay.run unit_dec unit_enc unit_res unit_res (pair0 unit unit tt tt tt tt) example_hist)) = 25%Z /\
  sum_conn_grants Sv (snd (H2Relay.run unit_dec unit_enc unit_res unit_res (pair0 unit unit tt tt tt tt) example_hist)) = 1%Z /\
  sum_data Sv (snd (H2Relay.run unit_dec unit_enc unit_res unit_res (pair0 unit unit tt tt tt tt) example_hist)) = 25%Z.
Proof. exact example_formula. Qed.

(* Every flow-controlled octet accepted from a sender (frame payload length: data, pad length octet and
   padding) is credited back to it in the same step, on the stream and on the connection, and no other
   WINDOW_UPDATE is ever sent (Ledger.credit_step, for every step of every history). *)
Theorem T09_credit_returned :
  forall (dstate estate : Type) dec enc dresize eresize (evs : list event) (p : pair dstate estate),
    hist_wf evs -> credit_returned (snd (H2Relay.run dec enc dresize eresize p evs)) = true.
Proof. exact (fun ds es dec enc dr er => credit_returned_run ds es dec enc dr er ob_credit_frame_length). Qed.
Print Assumptions T09_credit_returned.

(* processFrame returns for every frame of every history: the split loops of data() and splitIntoChunks
   always have a positive step because validated SETTINGS keep MAX_FRAME_SIZE >= 16384. *)
Theorem T09_no_divergence :
  forall (dstate estate : Type) dec enc dresize eresize (evs : list event) (d1 : dstate) (e1 : estate) d2 e2,
    no_divergence (snd (H2Relay.run dec enc dresize eresize (pair0 dstate estate d1 e1 d2 e2) evs)) = true.
Proof. exact (fun ds es dec enc dr er => no_divergence_from_start ds es dec enc dr er ob_settings_validated ob_initial_max_frame_is_rfc). Qed.
Print Assumptions T09_no_divergence.

(* Why the validation matters: with MAX_FRAME_SIZE = 0 (accepted by the unrepaired code) the loop of
   data() has no finite unfolding for any non-empty payload. *)
Theorem T09_data_diverges_on_zero : forall fuel id d es, d <> [] -> data_pieces fuel 0 id d es = None.
Proof. exact data_pieces_zero. Qed.
Print Assumptions T09_data_diverges_on_zero.

(* No frame an endpoint is sent has a payload larger than a SETTINGS_MAX_FRAME_SIZE that endpoint has
   announced (the largest value so far, 16384 initially): DATA is split and header blocks are chunked to
   the limit in force when they are queued.  hist_small: SETTINGS and GOAWAY frames, which are forwarded
   verbatim, are themselves at most 16384 octets. *)
Theorem T09_frame_size :
  forall (dstate estate : Type) dec enc dresize eresize (evs : list event) (d1 : dstate) (e1 : estate) d2 e2 x,
    hist_small evs ->
    sizes_within_announced x (snd (H2Relay.run dec enc dresize eresize (pair0 dstate estate d1 e1 d2 e2) evs)) = true.
Proof. exact (fun ds es dec enc dr er => frame_size_from_start ds es dec enc dr er ob_settings_validated ob_initial_max_frame_is_rfc ob_headers_priority_len ob_push_promise_meta_len). Qed.
Print Assumptions T09_frame_size.

(* The stronger statement: no frame sent to an endpoint exceeds the SETTINGS_MAX_FRAME_SIZE values that
   endpoint must still be prepared for - the value of its last ACKNOWLEDGED SETTINGS frame and those of its
   SETTINGS frames whose acknowledgement it has not yet been sent.  It used to be false (a DATA frame sized
   under an older, larger limit and held behind a closed window was released unchanged; the witness is
   kept below and now satisfies the predicate): DATA is split again, and header blocks are chunked, when a
   frame is RELEASED, with the limit in force at that moment (ob_data_resplit_at_release, T10_source_encodes_at_release). *)
Theorem T09_frame_size_at_emission :
  forall (dstate estate : Type) dec enc dresize eresize (evs : list event) (d1 : dstate) (e1 : estate) d2 e2 x,
    data_resplit_at_release = true -> hist_small evs ->
    sizes_within_tolerated x (snd (H2Relay.run dec enc dresize eresize (pair0 dstate estate d1 e1 d2 e2) evs)) = true.
Proof. exact (fun ds es dec enc dr er evs d1 e1 d2 e2 x _ => frame_size_at_emission_from_start ds es dec enc dr er ob_settings_validated ob_initial_max_frame_is_rfc ob_headers_priority_len ob_push_promise_meta_len evs d1 e1 d2 e2 x). Qed.
Print Assumptions T09_frame_size_at_emission.
Theorem T09_source_resplits_data_at_release : data_resplit_at_release = true.
Proof. exact ob_data_resplit_at_release. Qed.

Theorem T09_frame_size_at_emission_former_witness :
  hist_wf lowered_while_queued /\ hist_small lowered_while_queued /\
  sizes_within_tolerated Sv (snd (H2Relay.run unit_dec unit_enc unit_res unit_res (pair0 unit unit tt tt tt tt) lowered_while_queued)) = true.
Proof. exact (conj lowered_wf (conj lowered_small lowered_now_fine)). Qed.
Print Assumptions T09_frame_size_at_emission_former_witness.

(* T09_emit_within_window needs "at most one INITIAL_WINDOW_SIZE per SETTINGS frame": the relay applies
   each value as it comes and releases frames in between (RFC 7540 6.5.3: "with no other frame processing
   between values"), so a transient larger value lets DATA through that the final value does not cover. *)
Theorem T09_emit_within_window_needs_single_initial_window :
  windows_respected Sv (snd (H2Relay.run unit_dec unit_enc unit_res unit_res (pair0 unit unit tt tt tt tt) two_initial_windows)) = false.
Proof. exact two_initial_refutes. Qed.
Print Assumptions T09_emit_within_window_needs_single_initial_window.

(* Non-vacuity: a history with blocking, a negative window and unblocking meets the hypotheses. *)
Example T09_example :
  hist_wf example_hist /\ hist_small example_hist /\
  all_ok (snd (H2Relay.run unit_dec unit_enc unit_res unit_res (pair0 unit unit tt tt tt tt) example_hist)) /\
  win_of (r_flow (toS (fst (H2Relay.run unit_dec unit_enc unit_res unit_res (pair0 unit unit tt tt tt tt) example_hist)))) 1 = 8%Z.
Proof. exact (conj example_wf (conj example_small (conj example_ok example_window))). Qed.
