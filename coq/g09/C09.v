(* C09 — property theorems.  Nothing but statements, `exact`, Print Assumptions. *)
From FwdLib Require Import Bytes.
From G09 Require Import Tables H2Relay Ledger Check Term Obligations.
Open Scope N_scope.

(* The split loop of data() terminates for every payload whenever the peer's
   MAX_FRAME_SIZE is positive ... *)
Theorem T09_data_terminates : forall id d es fl, 0 < f_max fl -> fl_data id d es fl <> None.
Proof. exact fl_data_terminates. Qed.
Print Assumptions T09_data_terminates.

(* ... and so does splitIntoChunks. *)
Theorem T09_chunks_terminate : forall first cmax data, 0 < cmax -> split_chunks first cmax data <> None.
Proof. exact split_chunks_terminates. Qed.
Print Assumptions T09_chunks_terminate.
