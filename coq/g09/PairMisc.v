(* G09 — C09 (c) every flow-controlled octet is credited back at once; (d) processFrame terminates. *)
From FwdLib Require Import Bytes.
From G09 Require Import Tables H2Relay Ledger Term FlowBasics WinProofs PairBasics Lift PairWin.
Open Scope N_scope.

Section Codec.
  Variables dstate estate : Type.
  Variable dec : dstate -> list N -> option (list field) * dstate.
  Variable enc : estate -> list field -> list N * estate.
  Variable dresize : dstate -> N -> dstate.
  Variable eresize : estate -> N -> estate.

  Notation relay := (relay dstate estate).
  Notation pair := (pair dstate estate).
  Notation pcore := (pcore dec dresize).
  Notation pstep := (pstep dec enc dresize eresize).
  Notation run := (H2Relay.run dec enc dresize eresize).
  Notation tstep_of := (tstep_of dstate estate).

  Lemma frames_to_tstep x from f orders s : frames_to x (tstep_of from f orders s) = wire (s_to x s).
  Proof. unfold frames_to. rewrite oframes_to_tstep. reflexivity. Qed.

  Ltac no_wu := rewrite ?res_to_from, ?res_to_other, ?res_status; cbn [wire wire1 flat_map app wus];
                rewrite ?wire_oq, ?wus_sends; try reflexivity.

  Section Credit.
    Hypothesis Hcredit : credit_frame_length = true.

    Lemma credit_step_core (p : pair) from f orders : frame_wf f ->
      credit_step (tstep_of from f orders (pcore p from f orders)) = true.
    Proof.
      intro Hwf. unfold credit_step. cbn [t_ev t_status PairWin.tstep_of e_from e_frame].
      rewrite !frames_to_tstep.
      destruct (s_status (pcore p from f orders)) eqn:Est; try reflexivity. cbn [negb orb].
      revert Est. unfold pcore. cbv zeta.
      destruct f as [id es d flen|id es eh pr frag|id eh frag|id pm eh frag|id pr|id code|ack st|ack d|last code dbg|id inc|];
        cbn [frame_wf] in Hwf.
      - rewrite Hcredit. destruct (data_pieces _ _ id d es) as [ps|]; [|rewrite res_status; discriminate].
        destruct (enqueue_all ps _) as [fl em]. intros _.
        rewrite res_to_from, res_to_other, wire_ow, wire_oq, wus_sends.
        destruct (flen =? 0) eqn:E0.
        + apply N.eqb_eq in E0. subst flen. reflexivity.
        + cbn [wus wu_sum forallb fst snd].
          assert (E1 : (0 =? id) = false) by (apply N.eqb_neq; congruence).
          assert (E2 : (id =? 0) = false) by (apply N.eqb_neq; congruence).
          rewrite !N.eqb_refl, ?E1, ?E2, ?E0. cbn [negb andb orb].
          rewrite ?N.add_0_r, ?N.add_0_l, !N.eqb_refl. reflexivity.
      - destruct eh; [|intros _; no_wu].
        destruct (dec _ frag) as [[fields|] dst']; [|rewrite res_status; discriminate].
        destruct (r_header _ _ _ _ _) as [[[me' em] q]|]; intros _; no_wu.
      - destruct eh; [|intros _; no_wu].
        destruct (dec _ _) as [[fields|] dst']; [|rewrite res_status; discriminate].
        cbn [r_cont]. destruct (r_cont _); [|rewrite res_status; discriminate].
        destruct (complete _ _ _) as [[[me' em] q]|]; intros _; no_wu.
      - destruct eh; [|intros _; no_wu].
        destruct (dec _ frag) as [[fields|] dst']; [|rewrite res_status; discriminate].
        destruct (r_push _ _ _ _) as [[[me' em] q]|]; intros _; no_wu.
      - destruct (enqueue_emit _ _) as [fl em]. intros _; no_wu.
      - destruct (enqueue_emit _ _) as [fl em]. intros _; no_wu.
      - destruct ack; [intros _; no_wu|].
        pose proof (apply_settings_noW dstate estate dresize st orders (toward from p) [] ltac:(constructor)) as Hq.
        destruct (apply_settings _ _ _ _ _) as [[peer' acc'] ok]. cbn [fst snd] in Hq.
        destruct ok; intros _; rewrite ?res_to_from, ?res_to_other, (noW_wus _ Hq); reflexivity.
      - intros _; no_wu.
      - intros _; no_wu.
      - destruct (update_window _ _ _ _) as [fl em]. intros _; no_wu.
      - rewrite res_status; discriminate.
    Qed.

    Lemma credit_step_ok (p : pair) from f orders : frame_wf f ->
      credit_step (tstep_of from f orders (pstep p from f orders)) = true.
    Proof.
      intro Hwf. pose proof (credit_step_core p from f orders Hwf) as Hc.
      unfold credit_step in *. cbn [t_ev t_status PairWin.tstep_of e_from e_frame] in *. rewrite !frames_to_tstep in *.
      destruct (pstep_cases dstate estate dec enc dresize eresize p from f orders) as [[oc [ec [os [es' [H1 [H2 Hs]]]]]] | Hs];
        cbv zeta in Hs; rewrite Hs; [|reflexivity].
      assert (Hw : forall x, wus (wire (s_to x (mkRes (mkPair (with_est (toC (s_pair (pcore p from f orders))) ec)
                                                         (with_est (toS (s_pair (pcore p from f orders))) es')) oc os
                                                 (s_status (pcore p from f orders)) (s_enq (pcore p from f orders))))) =
                             wus (wire (s_to x (pcore p from f orders)))).
      { intros [|]; cbn [s_to s_toC s_toS]; apply Prep_wus; assumption. }
      rewrite !Hw. cbn [s_status]. exact Hc.
    Qed.

    Theorem credit_returned_run : forall evs (p : pair), hist_wf evs -> credit_returned (snd (run p evs)) = true.
    Proof.
      induction evs as [|e r IH]; intros p Hwf; [reflexivity|].
      inversion Hwf as [|? ? He Hr]; subst. destruct e as [from f orders]. cbn [e_frame] in He.
      cbn [H2Relay.run e_from e_frame e_orders].
      pose proof (credit_step_ok p from f orders He) as Hc. unfold PairWin.tstep_of in Hc.
      destruct (s_status (pstep p from f orders)) eqn:Est.
      - specialize (IH (s_pair (pstep p from f orders)) Hr).
        destruct (run (s_pair (pstep p from f orders)) r) as [p' ts]. cbn [fst snd] in *.
        unfold credit_returned in *. cbn [forallb]. rewrite Hc, IH. reflexivity.
      - cbn [snd]. unfold credit_returned. cbn [forallb]. rewrite Hc. reflexivity.
      - cbn [snd]. unfold credit_returned. cbn [forallb]. rewrite Hc. reflexivity.
      - cbn [snd]. unfold credit_returned. cbn [forallb]. rewrite Hc. reflexivity.
    Qed.
  End Credit.

  (* ---- termination: with validated SETTINGS the peer's MAX_FRAME_SIZE stays >= 16384 > 0 *)
  Lemma f_max_emit_stream s fl : f_max (fst (emit_stream s fl)) = f_max fl.
  Proof.
    unfold emit_stream. destruct (get_buf s (f_bufs fl)); [|reflexivity].
    destruct (emit_q _ _ _) as [[cw sw] [em rest]]. reflexivity.
  Qed.
  Lemma f_max_scan_ids ids : forall fl, f_max (fst (scan_ids ids fl)) = f_max fl.
  Proof.
    induction ids as [|id r IH]; intro fl; cbn [scan_ids]; [reflexivity|].
    pose proof (f_max_emit_stream id fl) as H1. destruct (emit_stream id fl) as [fl1 e1].
    specialize (IH fl1). destruct (scan_ids r fl1) as [fl2 e2]. cbn [fst] in *. congruence.
  Qed.
  Lemma f_max_enqueue_emit q fl : f_max (fst (enqueue_emit q fl)) = f_max fl.
  Proof. unfold enqueue_emit. rewrite f_max_emit_stream. reflexivity. Qed.
  Lemma f_max_enqueue_all qs : forall fl, f_max (fst (enqueue_all qs fl)) = f_max fl.
  Proof.
    induction qs as [|q r IH]; intro fl; cbn [enqueue_all]; [reflexivity|].
    pose proof (f_max_enqueue_emit q fl) as H1. destruct (enqueue_emit q fl) as [fl1 e1].
    specialize (IH fl1). destruct (enqueue_all r fl1) as [fl2 e2]. cbn [fst] in *. congruence.
  Qed.
  Lemma f_max_update_window id inc order fl : f_max (fst (update_window id inc order fl)) = f_max fl.
  Proof.
    unfold update_window.
    assert (H1 : f_max (fst (if id =? 0 then scan_all order (mkFlow (f_max fl) (f_init fl) (f_conn fl + Z.of_N inc) (f_bufs fl)) else (fl, []))) = f_max fl).
    { destruct (id =? 0); [unfold scan_all; rewrite f_max_scan_ids|]; reflexivity. }
    destruct (if id =? 0 then _ else _) as [fl1 e1]. cbn [fst] in H1.
    destruct ((id =? 0) && negb wu_conn_falls_through); [exact H1|].
    pose proof (f_max_emit_stream id (with_buf fl1 id (mkOb (ob_win (buf_or_new fl1 id) + Z.of_N inc) (ob_q (buf_or_new fl1 id))))) as H2.
    destruct (emit_stream id _) as [fl2 e2]. cbn [fst] in *. rewrite H2. exact H1.
  Qed.
  Lemma f_max_update_init v order fl : f_max (fst (update_init v order fl)) = f_max fl.
  Proof. unfold update_init, scan_all. cbv zeta. rewrite f_max_scan_ids. reflexivity. Qed.

  Section Terminates.
    Hypothesis Hval : settings_validated = true.
    Hypothesis Hinit : initial_max_frame_size = 16384.

    Definition MaxOk (r : relay) : Prop := 16384 <= f_max (r_flow r).

    Lemma maxes_pos_app a c : maxes_pos a -> maxes_pos c -> maxes_pos (a ++ c).
    Proof. induction a as [|o r IH]; [auto|]. destruct o; cbn [app maxes_pos]; intros Ha Hc; try (apply IH; assumption). destruct Ha as [H1 H2]. split; [exact H1|apply IH; assumption]. Qed.
    Lemma maxes_pos_oq l : maxes_pos (oq l).
    Proof. induction l; cbn; auto. Qed.
    Lemma maxes_pos_ow l : maxes_pos (ow l).
    Proof. induction l; cbn; auto. Qed.

    Lemma apply_settings_max : forall l orders (peer : relay) acc,
      MaxOk peer -> maxes_pos acc ->
      MaxOk (fst (fst (apply_settings dresize l orders peer acc))) /\
      maxes_pos (snd (fst (apply_settings dresize l orders peer acc))).
    Proof.
      induction l as [|[k v] rest IH]; intros orders peer acc Hm Ha; cbn [apply_settings]; [split; assumption|].
      rewrite Hval. cbn [andb].
      destruct (setting_valid k v) eqn:Ev; cbn [negb]; [|split; assumption].
      destruct (k =? 1).
      { apply IH; [exact Hm|]. apply maxes_pos_app; [exact Ha|]. cbn. exact I. }
      destruct (k =? 4).
      - pose proof (f_max_update_init v (hd [] orders) (r_flow peer)) as H1.
        destruct (update_init v (hd [] orders) (r_flow peer)) as [fl e]. cbn [fst] in H1.
        apply IH; [unfold MaxOk in *; cbn [with_flow r_flow]; rewrite H1; exact Hm|apply maxes_pos_app; [exact Ha|apply maxes_pos_oq]].
      - destruct (k =? 5) eqn:E5; [|apply IH; assumption].
        apply N.eqb_eq in E5. subst k. unfold setting_valid in Ev. cbn in Ev.
        apply andb_true_iff in Ev as [Ev _]. apply N.leb_le in Ev.
        apply IH; [unfold MaxOk; cbn [with_flow r_flow update_max f_max]; exact Ev|].
        apply maxes_pos_app; [exact Ha|cbn; split; [lia|exact I]].
    Qed.

    Ltac keep_max Hme Hpeer :=
      rewrite ?res_status, ?res_toward_from, ?res_toward_other, ?res_to_from, ?res_to_other;
      (split; [discriminate|split; [exact Hpeer|split; [exact Hme|split; (exact I || apply maxes_pos_oq || apply maxes_pos_ow || (cbn; exact I))]]]).

    Lemma core_terminates (p : pair) from f orders :
      MaxOk (toward from p) -> MaxOk (toward (other from) p) ->
      s_status (pcore p from f orders) <> Diverge /\
      MaxOk (toward from (s_pair (pcore p from f orders))) /\
      MaxOk (toward (other from) (s_pair (pcore p from f orders))) /\
      maxes_pos (s_to from (pcore p from f orders)) /\ maxes_pos (s_to (other from) (pcore p from f orders)).
    Proof.
      intros Hpeer Hme. unfold pcore. cbv zeta.
      remember (toward (other from) p) as me eqn:Eme. remember (toward from p) as peer eqn:Epeer. clear Eme Epeer.
      destruct f as [id es d flen|id es eh pr frag|id eh frag|id pm eh frag|id pr|id code|ack st|ack d|last code dbg|id inc|].
      - destruct (data_pieces_total (Datatypes.S (length d)) (f_max (r_flow me)) id d es) as [ps Hps];
          [unfold MaxOk in Hme; lia|lia|].
        rewrite Hps.
        pose proof (f_max_enqueue_all ps (with_buf (r_flow me) id (buf_or_new (r_flow me) id))) as H1.
        destruct (enqueue_all ps _) as [fl em]. cbn [fst] in H1.
        assert (Hm' : MaxOk (with_flow me fl)) by (unfold MaxOk in *; cbn [with_flow r_flow]; rewrite H1; exact Hme).
        keep_max Hm' Hpeer.
      - destruct eh; [|keep_max Hme Hpeer].
        destruct (dec _ frag) as [[fields|] dst']; [|keep_max Hme Hpeer].
        set (me1 := mkRelay _ _ _ dst' _). assert (Hm1 : MaxOk me1) by exact Hme.
        pose proof (r_header_some dstate estate me1 id fields es pr) as Ht.
        destruct (r_header me1 id fields es pr) as [[[me' em] q]|] eqn:Eh; [|congruence].
        apply r_header_flow in Eh as [Ee _].
        pose proof (f_max_enqueue_emit q (r_flow me1)) as H1. rewrite Ee in H1. cbn [fst] in H1.
        assert (Hm' : MaxOk me') by (unfold MaxOk in *; rewrite H1; exact Hm1).
        keep_max Hm' Hpeer.
      - destruct eh; [|keep_max Hme Hpeer].
        destruct (dec _ _) as [[fields|] dst']; [|keep_max Hme Hpeer].
        set (me1 := mkRelay _ _ _ dst' _). assert (Hm1 : MaxOk me1) by exact Hme.
        destruct (r_cont me1) as [c|] eqn:Ec; [|keep_max Hme Hpeer].
        assert (Ht : complete me1 id fields <> None).
        { unfold complete. rewrite Ec. destruct c; [apply r_header_some|apply r_push_some]. }
        destruct (complete me1 id fields) as [[[me' em] q]|] eqn:Eh; [|congruence].
        apply complete_flow in Eh as [Ee _].
        pose proof (f_max_enqueue_emit q (r_flow me1)) as H1. rewrite Ee in H1. cbn [fst] in H1.
        assert (Hm' : MaxOk me') by (unfold MaxOk in *; rewrite H1; exact Hm1).
        keep_max Hm' Hpeer.
      - destruct eh; [|keep_max Hme Hpeer].
        destruct (dec _ frag) as [[fields|] dst']; [|keep_max Hme Hpeer].
        set (me1 := mkRelay _ _ _ dst' _). assert (Hm1 : MaxOk me1) by exact Hme.
        pose proof (r_push_some dstate estate me1 id pm fields) as Ht.
        destruct (r_push me1 id pm fields) as [[[me' em] q]|] eqn:Eh; [|congruence].
        apply r_push_flow in Eh as [Ee _].
        pose proof (f_max_enqueue_emit q (r_flow me1)) as H1. rewrite Ee in H1. cbn [fst] in H1.
        assert (Hm' : MaxOk me') by (unfold MaxOk in *; rewrite H1; exact Hm1).
        keep_max Hm' Hpeer.
      - pose proof (f_max_enqueue_emit (QPrio id pr) (r_flow me)) as H1.
        destruct (enqueue_emit _ _) as [fl em]. cbn [fst] in H1.
        assert (Hm' : MaxOk (with_flow me fl)) by (unfold MaxOk in *; cbn [with_flow r_flow]; rewrite H1; exact Hme).
        keep_max Hm' Hpeer.
      - pose proof (f_max_enqueue_emit (QRst id code) (r_flow me)) as H1.
        destruct (enqueue_emit _ _) as [fl em]. cbn [fst] in H1.
        assert (Hm' : MaxOk (with_flow me fl)) by (unfold MaxOk in *; cbn [with_flow r_flow]; rewrite H1; exact Hme).
        keep_max Hm' Hpeer.
      - destruct ack; [keep_max Hme Hpeer|].
        pose proof (apply_settings_max st orders peer [] Hpeer I) as [Hm Hp].
        destruct (apply_settings _ _ _ _ _) as [[peer' acc'] ok]. cbn [fst snd] in Hm, Hp.
        destruct ok; rewrite res_status, res_toward_from, res_toward_other, res_to_from, res_to_other;
          (split; [discriminate|split; [exact Hm|split; [exact Hme|split; [exact Hp|cbn; exact I]]]]).
      - keep_max Hme Hpeer.
      - keep_max Hme Hpeer.
      - pose proof (f_max_update_window id inc (hd [] orders) (r_flow peer)) as H1.
        destruct (update_window _ _ _ _) as [fl em]. cbn [fst] in H1.
        assert (Hm' : MaxOk (with_flow peer fl)) by (unfold MaxOk in *; cbn [with_flow r_flow]; rewrite H1; exact Hpeer).
        keep_max Hme Hm'.
      - keep_max Hme Hpeer.
    Qed.

    Lemma step_terminates (p : pair) : forall from f orders,
      MaxOk (toC p) -> MaxOk (toS p) ->
      s_status (pstep p from f orders) <> Diverge /\
      MaxOk (toC (s_pair (pstep p from f orders))) /\ MaxOk (toS (s_pair (pstep p from f orders))).
    Proof.
      intros from f orders HC HS.
      assert (Hb : MaxOk (toward from p) /\ MaxOk (toward (other from) p)) by (destruct from; cbn; auto).
      destruct (core_terminates p from f orders (proj1 Hb) (proj2 Hb)) as [Hnd [H1 [H2 [P1 P2]]]].
      assert (HCS : MaxOk (toC (s_pair (pcore p from f orders))) /\ MaxOk (toS (s_pair (pcore p from f orders))) /\
                    maxes_pos (s_toC (pcore p from f orders)) /\ maxes_pos (s_toS (pcore p from f orders)))
        by (destruct from; cbn in *; auto).
      destruct HCS as [HC' [HS' [PC PS]]].
      unfold H2Relay.pstep.
      pose proof (run_script_total estate enc eresize (s_toC (pcore p from f orders)) (r_est (toC (s_pair (pcore p from f orders))))
                    (f_max (r_flow (toC p))) ltac:(unfold MaxOk in HC; lia) PC) as T1.
      pose proof (run_script_total estate enc eresize (s_toS (pcore p from f orders)) (r_est (toS (s_pair (pcore p from f orders))))
                    (f_max (r_flow (toS p))) ltac:(unfold MaxOk in HS; lia) PS) as T2.
      destruct (run_script enc eresize _ (f_max (r_flow (toC p))) _) as [[oc ec]|]; [|congruence].
      destruct (run_script enc eresize _ (f_max (r_flow (toS p))) _) as [[os es']|]; [|congruence].
      cbn [s_status s_pair toC toS]. split; [exact Hnd|]. split; [exact HC'|exact HS'].
    Qed.

    Theorem no_divergence_run : forall evs (p : pair), MaxOk (toC p) -> MaxOk (toS p) ->
      no_divergence (snd (run p evs)) = true.
    Proof.
      induction evs as [|e r IH]; intros p HC HS; [reflexivity|].
      destruct e as [from f orders]. cbn [H2Relay.run e_from e_frame e_orders].
      destruct (step_terminates p from f orders HC HS) as [Hnd [HC' HS']].
      destruct (s_status (pstep p from f orders)) eqn:Est; try congruence.
      - specialize (IH (s_pair (pstep p from f orders)) HC' HS').
        destruct (run (s_pair (pstep p from f orders)) r) as [p' ts]. cbn [fst snd] in *.
        unfold no_divergence in *. cbn [forallb t_status]. exact IH.
      - cbn [snd]. unfold no_divergence. cbn [forallb t_status]. reflexivity.
      - cbn [snd]. unfold no_divergence. cbn [forallb t_status]. reflexivity.
    Qed.

    Theorem no_divergence_from_start : forall evs d1 e1 d2 e2,
      no_divergence (snd (run (pair0 dstate estate d1 e1 d2 e2) evs)) = true.
    Proof.
      intros. apply no_divergence_run; unfold MaxOk, pair0, relay0, flow0; cbn [toC toS r_flow f_max]; rewrite Hinit; lia.
    Qed.
  End Terminates.
End Codec.
