(* G09 — termination of the two split loops (data(), splitIntoChunks). *)
From FwdLib Require Import Bytes.
From G09 Require Import Tables H2Relay.
Open Scope N_scope.

Lemma to_nat_min_len {A} (d : list A) (m : N) :
  N.to_nat (N.min (len d) m) = Nat.min (length d) (N.to_nat m).
Proof. unfold len. rewrite N2Nat.inj_min, Nat2N.id. reflexivity. Qed.

Lemma dropN_length {A} (n : N) (d : list A) : length (dropN n d) = (length d - N.to_nat n)%nat.
Proof. unfold dropN. apply skipn_length. Qed.

Lemma data_pieces_total : forall fuel max id d es,
  0 < max -> (length d < fuel)%nat -> exists ps, data_pieces fuel max id d es = Some ps.
Proof.
  induction fuel as [|k IH]; intros max id d es Hm Hl; [lia|].
  cbn [data_pieces].
  destruct (dropN (N.min (len d) max) d) as [|x rest] eqn:E; [eexists; reflexivity|].
  assert (Hlen : length (dropN (N.min (len d) max) d) = S (length rest)) by (rewrite E; reflexivity).
  rewrite dropN_length, to_nat_min_len in Hlen.
  destruct (IH max id (x :: rest) es Hm) as [ps Hps].
  - cbn [length]. assert (0 < N.to_nat max)%nat by lia. lia.
  - rewrite Hps. eexists; reflexivity.
Qed.

(* data() terminates whenever the peer's MAX_FRAME_SIZE is positive *)
Lemma fl_data_terminates : forall id d es fl, 0 < f_max fl -> fl_data id d es fl <> None.
Proof.
  intros id d es fl Hm. unfold fl_data.
  destruct (data_pieces_total (S (length d)) (f_max fl) id d es Hm) as [ps Hps]; [lia|].
  rewrite Hps. discriminate.
Qed.

(* ... and does not terminate for a non-empty payload when it is 0 *)
Lemma data_pieces_zero : forall fuel id d es, d <> [] -> data_pieces fuel 0 id d es = None.
Proof.
  induction fuel as [|k IH]; intros id d es Hd; [reflexivity|].
  cbn [data_pieces]. rewrite N.min_0_r. unfold dropN, takeN. cbn [N.to_nat skipn firstn].
  destruct d as [|x r]; [congruence|]. rewrite IH by discriminate. reflexivity.
Qed.

Lemma chunk_rest_total : forall fuel cmax rem,
  0 < cmax -> (length rem < fuel)%nat -> exists ch, chunk_rest fuel cmax rem = Some ch.
Proof.
  induction fuel as [|k IH]; intros cmax rem Hm Hl; [lia|].
  destruct rem as [|x r]; [eexists; reflexivity|].
  cbn [chunk_rest].
  destruct (IH cmax (dropN (N.min (len (x :: r)) cmax) (x :: r)) Hm) as [ch Hch].
  - rewrite dropN_length, to_nat_min_len. cbn [length] in *. assert (0 < N.to_nat cmax)%nat by lia. lia.
  - rewrite Hch. eexists; reflexivity.
Qed.

Lemma split_chunks_terminates : forall first cmax data, 0 < cmax -> split_chunks first cmax data <> None.
Proof.
  intros first cmax data Hm. unfold split_chunks.
  destruct (chunk_rest_total (S (length data)) cmax (dropN (N.min (len data) first) data) Hm) as [ch Hch].
  - rewrite dropN_length. lia.
  - rewrite Hch. discriminate.
Qed.
