(* G09 — table obligations: facts about the source as extracted into Tables.v on
   this run, each discharged by closed computation.  When the source changes
   shape exactly the lemma naming that shape stops checking. *)
From FwdLib Require Import Bytes.
From G09 Require Import Tables.
Open Scope N_scope.

Lemma ob_initial_max_frame_positive : 0 < initial_max_frame_size.
Proof. vm_compute. reflexivity. Qed.
Lemma ob_initial_max_frame_is_rfc : initial_max_frame_size = 16384.
Proof. vm_compute. reflexivity. Qed.
Lemma ob_initial_window_is_rfc : default_initial_window = 65535.
Proof. vm_compute. reflexivity. Qed.
Lemma ob_emit_gate : emit_conn_blocks_on_gt = true /\ emit_stream_blocks_on_gt = true.
Proof. vm_compute. split; reflexivity. Qed.
Lemma ob_emit_debits : emit_debits_conn = true /\ emit_debits_stream = true.
Proof. vm_compute. split; reflexivity. Qed.
Lemma ob_settings_delta_not_on_connection : settings_delta_touches_conn = false.
Proof. vm_compute. reflexivity. Qed.
Lemma ob_credit_frame_length : credit_frame_length = true.
Proof. vm_compute. reflexivity. Qed.
Lemma ob_settings_validated : settings_validated = true.
Proof. vm_compute. reflexivity. Qed.
Lemma ob_headers_priority_len : headers_priority_len = 5.
Proof. vm_compute. reflexivity. Qed.
Lemma ob_push_promise_meta_len : push_promise_meta_len = 4.
Proof. vm_compute. reflexivity. Qed.
Lemma ob_data_resplit_at_release : data_resplit_at_release = true.
Proof. vm_compute. reflexivity. Qed.
