(* G09 — a small concrete codec (length-prefixed serialisation) showing that the HPACK-correctness hypothesis of
   T10_receiver_decodes is satisfiable. *)
From FwdLib Require Import Bytes.
From G09 Require Import Tables H2Relay.
Open Scope N_scope.

Definition ser_str (s : list N) : list N := len s :: s.
Definition ser_field (f : field) : list N :=
  ser_str (fst (fst f)) ++ ser_str (snd (fst f)) ++ [if snd f then 1 else 0].
Fixpoint ser_fields (fs : list field) : list N :=
  match fs with [] => [0] | f :: r => 1 :: ser_field f ++ ser_fields r end.

Definition par_str (l : list N) : option (list N * list N) :=
  match l with
  | [] => None
  | k :: r => if k <=? len r then Some (takeN k r, dropN k r) else None
  end.
Definition par_field (l : list N) : option (field * list N) :=
  match par_str l with
  | Some (n, r1) =>
      match par_str r1 with
      | Some (v, b :: r2) => Some ((n, v, negb (b =? 0)), r2)
      | _ => None
      end
  | None => None
  end.
Fixpoint par_fields (fuel : nat) (l : list N) : option (list field) :=
  match fuel with
  | O => None
  | Datatypes.S k =>
      match l with
      | t :: r =>
          if t =? 0 then (match r with [] => Some [] | _ => None end)
          else match par_field r with
               | Some (f, r') => option_map (cons f) (par_fields k r')
               | None => None
               end
      | [] => None
      end
  end.

Lemma par_ser_str s rest : par_str (ser_str s ++ rest) = Some (s, rest).
Proof.
  unfold par_str, ser_str. cbn [app].
  assert (E : (len s <=? len (s ++ rest)) = true) by (apply N.leb_le; unfold len; rewrite app_length; lia).
  rewrite E. unfold takeN, dropN, len. rewrite Nat2N.id.
  rewrite firstn_app, Nat.sub_diag, firstn_O, app_nil_r, firstn_all.
  rewrite skipn_app, Nat.sub_diag, skipn_all. reflexivity.
Qed.

Lemma par_ser_field f rest : par_field (ser_field f ++ rest) = Some (f, rest).
Proof.
  destruct f as [[n v] b]. unfold par_field, ser_field. cbn [fst snd].
  rewrite <- !app_assoc, par_ser_str, par_ser_str. cbn [app]. destruct b; reflexivity.
Qed.

Lemma par_ser_fields fs : forall fuel, (length fs < fuel)%nat -> par_fields fuel (ser_fields fs) = Some fs.
Proof.
  induction fs as [|f r IH]; intros fuel Hl; (destruct fuel as [|k]; [lia|]); cbn [par_fields ser_fields].
  - reflexivity.
  - cbn [N.eqb]. rewrite par_ser_field, IH by (cbn [length] in Hl; lia). reflexivity.
Qed.

Definition toy_enc (_ : unit) (fs : list field) : list N * unit := (ser_fields fs, tt).
Definition toy_dec (_ : unit) (bytes : list N) : option (list field) * unit := (par_fields (Datatypes.S (length bytes)) bytes, tt).

Lemma ser_fields_long fs : (length fs < Datatypes.S (length (ser_fields fs)))%nat.
Proof. induction fs as [|f r IH]; cbn [ser_fields length]; [lia|]. rewrite app_length. lia. Qed.

Lemma toy_correct : forall est rst f bytes est', True -> toy_enc est f = (bytes, est') ->
  exists rst', toy_dec rst bytes = (Some f, rst') /\ True.
Proof.
  intros est rst f bytes est' _ H. inversion H; subst. exists tt. split; [|exact I].
  unfold toy_dec. rewrite par_ser_fields by apply ser_fields_long. reflexivity.
Qed.
