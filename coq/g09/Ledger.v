(* G09 — what the two ENDPOINTS can compute from the frames they sent and
   received (RFC 7540 6.9, 4.2, 6.5): ledgers of granted credit, frame-size
   limits, returned credit, logical stream content.  Nothing here looks at the
   relay's state: the definitions take a trace (events with the frames each
   endpoint was sent because of them).  They are the predicates of the C09/C10
   theorems and, evaluated on the implementation's observed trace, the run-time
   oracles. *)
From FwdLib Require Import Bytes.
From G09 Require Import Tables H2Relay.
Open Scope N_scope.

(* ---------------------------------------------------------------- helpers *)
Fixpoint zget (id : N) (l : list (N * Z)) : Z :=
  match l with [] => 0%Z | (k, v) :: r => if k =? id then v else zget id r end.
Fixpoint zadd (id : N) (d : Z) (l : list (N * Z)) : list (N * Z) :=
  match l with
  | [] => [(id, d)]
  | (k, v) :: r => if k =? id then (k, (v + d)%Z) :: r else (k, v) :: zadd id d r
  end.

Definition oframes_to (x : side) (t : tstep) : list oframe := match x with Cl => t_toC t | Sv => t_toS t end.
Definition frames_to (x : side) (t : tstep) : list wframe := wire (oframes_to x t).

(* last value of setting [sid] in a SETTINGS payload, if any (values are processed in order) *)
Fixpoint last_setting (sid : N) (l : list (N * N)) (cur : option N) : option N :=
  match l with
  | [] => cur
  | (k, v) :: r => last_setting sid r (if k =? sid then Some v else cur)
  end.

(* payload length of a frame on the wire (no padding is ever written by the relay) *)
Definition payload_len (f : wframe) : N :=
  match f with
  | WData _ _ d => len d
  | WHeaders _ _ _ p frag => (if prio_is_zero p then 0 else 5) + len frag
  | WCont _ _ frag => len frag
  | WPush _ _ _ frag => 4 + len frag
  | WPrio _ _ => 5
  | WRst _ _ => 4
  | WSettings l => 6 * len l
  | WSettingsAck => 0
  | WPing _ _ => 8
  | WGoAway _ _ dbg => 8 + len dbg
  | WWinUpd _ _ => 4
  end.

(* ------------------------------------------------ receiver ledgers (C09 a,b) *)
(* Kept by endpoint x from what it SENT (SETTINGS, WINDOW_UPDATE) and what it RECEIVED
   (DATA, SETTINGS ACK).  Two independent ledgers: granted credit, and frame-size limits. *)

(* ---- credit *)
Record wled := mkWl {
  l_init : Z;                 (* its current SETTINGS_INITIAL_WINDOW_SIZE *)
  l_conn : Z;                 (* 65535 + sum WU(0) - sum DATA received *)
  l_adj : list (N * Z)        (* per stream: sum WU(s) - sum DATA received on s *)
}.
Definition wled0 : wled := mkWl (Z.of_N default_initial_window) (Z.of_N default_initial_window) [].
Definition led_window (l : wled) (id : N) : Z := (l_init l + zget id (l_adj l))%Z.

(* endpoint x sent frame f *)
Definition wl_sent (l : wled) (f : rframe) : wled :=
  match f with
  | RWinUpd id inc =>
      if id =? 0 then mkWl (l_init l) (l_conn l + Z.of_N inc)%Z (l_adj l)
      else mkWl (l_init l) (l_conn l) (zadd id (Z.of_N inc) (l_adj l))
  | RSettings false s =>
      mkWl (match last_setting 4 s None with Some v => Z.of_N v | None => l_init l end) (l_conn l) (l_adj l)
  | _ => l
  end.

(* endpoint x received frame f: new ledger, and whether the frame respected both windows *)
Definition wl_recv (l : wled) (f : wframe) : wled * bool :=
  match f with
  | WData id _ d =>
      let n := Z.of_N (len d) in
      (mkWl (l_init l) (l_conn l - n)%Z (zadd id (- n)%Z (l_adj l)),
       (n <=? l_conn l)%Z && (n <=? led_window l id)%Z)
  | _ => (l, true)
  end.

Fixpoint wl_recv_all (l : wled) (fs : list wframe) : wled * bool :=
  match fs with
  | [] => (l, true)
  | f :: r =>
      let '(l1, a1) := wl_recv l f in
      let '(l2, a2) := wl_recv_all l1 r in
      (l2, a1 && a2)
  end.

(* one trace step seen from endpoint x: first what x sent (if the event is x's), then what x was sent *)
Definition wl_step (x : side) (l : wled) (t : tstep) : wled * bool :=
  let l1 := if side_eqb (e_from (t_ev t)) x then wl_sent l (e_frame (t_ev t)) else l in
  wl_recv_all l1 (frames_to x t).

Fixpoint wl_run (x : side) (l : wled) (tr : list tstep) : wled * bool :=
  match tr with
  | [] => (l, true)
  | t :: r =>
      let '(l1, a1) := wl_step x l t in
      let '(l2, a2) := wl_run x l1 r in
      (l2, a1 && a2)
  end.

Definition windows_respected (x : side) (tr : list tstep) : bool := snd (wl_run x wled0 tr).
Definition final_wled (x : side) (tr : list tstep) : wled := fst (wl_run x wled0 tr).

(* ---- frame sizes *)
Record sled := mkSl {
  l_max_cur : N;              (* its latest SETTINGS_MAX_FRAME_SIZE *)
  l_max_acked : N;            (* the value in force by the last acknowledged SETTINGS *)
  l_max_pending : list N;     (* values of its not yet acknowledged SETTINGS frames, oldest first *)
  l_max_ever : N              (* the largest value it has ever announced (incl. the initial 16384) *)
}.
Definition sled0 : sled := mkSl initial_max_frame_size initial_max_frame_size [] initial_max_frame_size.

(* the largest frame the endpoint must still be prepared to receive *)
Definition led_tolerated (l : sled) : N := fold_left N.max (l_max_pending l) (l_max_acked l).

Definition sl_sent (l : sled) (f : rframe) : sled :=
  match f with
  | RSettings false s =>
      let m := match last_setting 5 s None with Some v => v | None => l_max_cur l end in
      mkSl m (l_max_acked l) (l_max_pending l ++ [m]) (N.max m (l_max_ever l))
  | _ => l
  end.

(* (ledger, size within the largest value ever announced, size within what must still be tolerated) *)
Definition sl_recv (l : sled) (f : wframe) : sled * (bool * bool) :=
  let fl := (payload_len f <=? l_max_ever l, payload_len f <=? led_tolerated l) in
  match f with
  | WSettingsAck =>
      (match l_max_pending l with
       | [] => l
       | m :: r => mkSl (l_max_cur l) m r (l_max_ever l)
       end, fl)
  | _ => (l, fl)
  end.

Fixpoint sl_recv_all (l : sled) (fs : list wframe) : sled * (bool * bool) :=
  match fs with
  | [] => (l, (true, true))
  | f :: r =>
      let '(l1, (b1, c1)) := sl_recv l f in
      let '(l2, (b2, c2)) := sl_recv_all l1 r in
      (l2, (b1 && b2, c1 && c2))
  end.

Definition sl_step (x : side) (l : sled) (t : tstep) : sled * (bool * bool) :=
  let l1 := if side_eqb (e_from (t_ev t)) x then sl_sent l (e_frame (t_ev t)) else l in
  sl_recv_all l1 (frames_to x t).

Fixpoint sl_run (x : side) (l : sled) (tr : list tstep) : sled * (bool * bool) :=
  match tr with
  | [] => (l, (true, true))
  | t :: r =>
      let '(l1, (b1, c1)) := sl_step x l t in
      let '(l2, (b2, c2)) := sl_run x l1 r in
      (l2, (b1 && b2, c1 && c2))
  end.

Definition sizes_within_announced (x : side) (tr : list tstep) : bool := fst (snd (sl_run x sled0 tr)).
Definition sizes_within_tolerated (x : side) (tr : list tstep) : bool := snd (snd (sl_run x sled0 tr)).

(* ------------------------------------------------- returned credit (C09 c) *)
(* WINDOW_UPDATE frames among fs, as (stream, increment) *)
Fixpoint wus (fs : list wframe) : list (N * N) :=
  match fs with
  | [] => []
  | WWinUpd id inc :: r => (id, inc) :: wus r
  | _ :: r => wus r
  end.

Fixpoint wu_sum (id : N) (l : list (N * N)) : N :=
  match l with [] => 0 | (k, v) :: r => (if k =? id then v else 0) + wu_sum id r end.

(* after a DATA frame with flow-controlled length flen the sender has been given back flen on the
   stream and flen on the connection in the same step; no other credit is ever sent *)
Definition credit_step (t : tstep) : bool :=
  let from := e_from (t_ev t) in
  let back := wus (frames_to from t) in
  let fwd := wus (frames_to (other from) t) in
  negb (match t_status t with Ok => true | _ => false end) ||
  match e_frame (t_ev t) with
  | RData id _ _ flen =>
      (wu_sum 0 back =? flen) && (wu_sum id back =? flen) &&
      forallb (fun kv => (fst kv =? 0) || (fst kv =? id)) back &&
      forallb (fun kv => negb (snd kv =? 0)) back &&
      match fwd with [] => true | _ => false end
  | _ => match back, fwd with [], [] => true | _, _ => false end
  end.

Definition credit_returned (tr : list tstep) : bool := forallb credit_step tr.

(* no step diverged (the relay answered every frame in finite time) *)
Definition no_divergence (tr : list tstep) : bool :=
  forallb (fun t => match t_status t with Diverge => false | _ => true end) tr.

(* ------------------------------------------------ stream content (C10) *)
Inductive elem :=
| EHdr (fields : option (list field)) (es : bool) (p : prio)   (* None: the block could not be decoded *)
| EData (d : list N)
| EEnd
| ERst (code : N)
| EPush (promise : N) (fields : option (list field))
| EPrio (p : prio).

(* append an element, concatenating adjacent DATA and dropping empty DATA *)
Fixpoint snoc_elem (l : list elem) (e : elem) : list elem :=
  match e with
  | EData [] => l
  | _ =>
    match l with
    | [] => [e]
    | [EData d] => match e with EData d' => [EData (d ++ d')] | _ => [EData d; e] end
    | x :: r => x :: snoc_elem r e
    end
  end.

Definition r2w (f : rframe) : list wframe :=
  match f with
  | RData id es d _ => [WData id es d]
  | RHeaders id es eh p frag => [WHeaders id es eh p frag]
  | RCont id eh frag => [WCont id eh frag]
  | RPush id pr eh frag => [WPush id pr eh frag]
  | RPrio id p => [WPrio id p]
  | RRst id c => [WRst id c]
  | RSettings true _ => [WSettingsAck]
  | RSettings false l => [WSettings l]
  | RPing a d => [WPing a d]
  | RGoAway a c d => [WGoAway a c d]
  | RWinUpd id inc => [WWinUpd id inc]
  | RUnknown => []
  end.

(* context of an unfinished header block *)
Inductive hctx := HNone | HHdr (id : N) (es : bool) (p : prio) | HPush (id promise : N).

(* content of stream s in a frame sequence; [blocks] are the decoded header lists of the completed
   header blocks of the WHOLE sequence (all streams), in order *)
Fixpoint content_go (s : N) (fs : list wframe) (blocks : list (option (list field))) (ctx : hctx) (acc : list elem) : list elem :=
  let fin (ctx : hctx) (blocks : list (option (list field))) (acc : list elem) : list (option (list field)) * list elem :=
    let b := match blocks with [] => None | x :: _ => x end in
    (tl blocks,
     match ctx with
     | HHdr id es p => if id =? s then snoc_elem acc (EHdr b es p) else acc
     | HPush id pr => if id =? s then snoc_elem acc (EPush pr b) else acc
     | HNone => acc
     end) in
  match fs with
  | [] => acc
  | f :: r =>
      match f with
      | WData id es d =>
          let acc1 := if id =? s then snoc_elem acc (EData d) else acc in
          let acc2 := if (id =? s) && es then snoc_elem acc1 EEnd else acc1 in
          content_go s r blocks ctx acc2
      | WHeaders id es eh p _ =>
          if eh then let '(bl, acc1) := fin (HHdr id es p) blocks acc in content_go s r bl HNone acc1
          else content_go s r blocks (HHdr id es p) acc
      | WPush id pr eh _ =>
          if eh then let '(bl, acc1) := fin (HPush id pr) blocks acc in content_go s r bl HNone acc1
          else content_go s r blocks (HPush id pr) acc
      | WCont _ eh _ =>
          if eh then let '(bl, acc1) := fin ctx blocks acc in content_go s r bl HNone acc1
          else content_go s r blocks ctx acc
      | WPrio id p => content_go s r blocks ctx (if id =? s then snoc_elem acc (EPrio p) else acc)
      | WRst id c => content_go s r blocks ctx (if id =? s then snoc_elem acc (ERst c) else acc)
      | _ => content_go s r blocks ctx acc
      end
  end.

Definition content (s : N) (fs : list wframe) (blocks : list (option (list field))) : list elem :=
  content_go s fs blocks HNone [].

(* frames endpoint x sent / was sent over a whole trace *)
Definition sent_by (x : side) (tr : list tstep) : list wframe :=
  flat_map (fun t => if side_eqb (e_from (t_ev t)) x then r2w (e_frame (t_ev t)) else []) tr.
Definition received_by (x : side) (tr : list tstep) : list wframe := flat_map (frames_to x) tr.

(* stream ids mentioned *)
Definition w_id (f : wframe) : N :=
  match f with
  | WData id _ _ => id | WHeaders id _ _ _ _ => id | WCont id _ _ => id | WPush id _ _ _ => id
  | WPrio id _ => id | WRst id _ => id | WWinUpd id _ => id | _ => 0
  end.

(* ---- decidable equality of content *)
Fixpoint list_eqb {A} (eqb : A -> A -> bool) (x y : list A) : bool :=
  match x, y with
  | [], [] => true
  | a :: x', c :: y' => eqb a c && list_eqb eqb x' y'
  | _, _ => false
  end.
Definition field_eqb (x y : field) : bool :=
  str_eqb (fst (fst x)) (fst (fst y)) && str_eqb (snd (fst x)) (snd (fst y)) && Bool.eqb (snd x) (snd y).
Definition prio_eqb (x y : prio) : bool :=
  (p_dep x =? p_dep y) && Bool.eqb (p_excl x) (p_excl y) && (p_weight x =? p_weight y).
Definition ofields_eqb (x y : option (list field)) : bool :=
  match x, y with
  | Some a, Some c => list_eqb field_eqb a c
  | _, _ => false          (* an undecodable block is never "the same" *)
  end.
Definition elem_eqb (x y : elem) : bool :=
  match x, y with
  | EHdr f e p, EHdr f' e' p' => ofields_eqb f f' && Bool.eqb e e' && prio_eqb p p'
  | EData d, EData d' => str_eqb d d'
  | EEnd, EEnd => true
  | ERst c, ERst c' => c =? c'
  | EPush i f, EPush i' f' => (i =? i') && ofields_eqb f f'
  | EPrio p, EPrio p' => prio_eqb p p'
  | _, _ => false
  end.

(* a is an initial part of c; a trailing DATA element may be an initial part of the matching DATA *)
Fixpoint content_prefix (a c : list elem) : bool :=
  match a, c with
  | [], _ => true
  | [EData d], EData d' :: _ => has_prefix d' d
  | x :: a', y :: c' => elem_eqb x y && content_prefix a' c'
  | _ :: _, [] => false
  end.

(* ---- decidable equality of wire frames *)
Definition pair_eqb {A B} (fa : A -> A -> bool) (fb : B -> B -> bool) (x y : A * B) : bool :=
  fa (fst x) (fst y) && fb (snd x) (snd y).

Definition wframe_eqb (x y : wframe) : bool :=
  match x, y with
  | WData i e d, WData i' e' d' => (i =? i') && Bool.eqb e e' && str_eqb d d'
  | WHeaders i e h p f, WHeaders i' e' h' p' f' => (i =? i') && Bool.eqb e e' && Bool.eqb h h' && prio_eqb p p' && str_eqb f f'
  | WCont i h f, WCont i' h' f' => (i =? i') && Bool.eqb h h' && str_eqb f f'
  | WPush i q h f, WPush i' q' h' f' => (i =? i') && (q =? q') && Bool.eqb h h' && str_eqb f f'
  | WPrio i p, WPrio i' p' => (i =? i') && prio_eqb p p'
  | WRst i c, WRst i' c' => (i =? i') && (c =? c')
  | WSettings l, WSettings l' => list_eqb (pair_eqb N.eqb N.eqb) l l'
  | WSettingsAck, WSettingsAck => true
  | WPing a d, WPing a' d' => Bool.eqb a a' && str_eqb d d'
  | WGoAway a c d, WGoAway a' c' d' => (a =? a') && (c =? c') && str_eqb d d'
  | WWinUpd i n, WWinUpd i' n' => (i =? i') && (n =? n')
  | _, _ => false
  end.


(* ------------------------------------------------ connection-level frames (C10) *)
Definition is_conn (f : wframe) : bool :=
  match f with WSettings _ => true | WSettingsAck => true | WPing _ _ => true | WGoAway _ _ _ => true | _ => false end.

(* SETTINGS, SETTINGS ACK, PING and GOAWAY are relayed one for one to the other endpoint in the same
   step, and none is ever sent back to the endpoint the frame came from *)
Definition conn_stepb (t : tstep) : bool :=
  let from := e_from (t_ev t) in
  match filter is_conn (frames_to from t) with [] => true | _ => false end &&
  match t_status t with
  | Ok => list_eqb wframe_eqb (filter is_conn (frames_to (other from) t)) (filter is_conn (r2w (e_frame (t_ev t))))
  | _ => true
  end.
