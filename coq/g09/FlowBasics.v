(* G09 — basic facts about the association-list buffers and emit_q. *)
From FwdLib Require Import Bytes.
From G09 Require Import Tables H2Relay.
Open Scope N_scope.

(* facts about the source are hypotheses of the lemmas; keep the extracted values opaque *)
Global Opaque emit_conn_blocks_on_gt emit_stream_blocks_on_gt emit_debits_conn emit_debits_stream
  credit_frame_length cont_end_stream_from_frame settings_validated wu_conn_falls_through
  settings_delta_touches_conn table_size_resizes_decoder preface_read_full
  initial_max_frame_size default_initial_window headers_priority_len push_promise_meta_len.

Lemma get_set_same id o l : get_buf id (set_buf id o l) = Some o.
Proof.
  induction l as [|[k o'] r IH]; cbn [set_buf get_buf].
  - rewrite N.eqb_refl. reflexivity.
  - destruct (k =? id) eqn:E; cbn [get_buf]; rewrite E; [reflexivity|exact IH].
Qed.

Lemma get_set_other id id' o l : id' <> id -> get_buf id' (set_buf id o l) = get_buf id' l.
Proof.
  intro Hn. induction l as [|[k o'] r IH]; cbn [set_buf get_buf].
  - destruct (id =? id') eqn:E; [apply N.eqb_eq in E; congruence|reflexivity].
  - destruct (k =? id) eqn:E; cbn [get_buf].
    + apply N.eqb_eq in E. subst k. destruct (id =? id') eqn:E2; [apply N.eqb_eq in E2; congruence|reflexivity].
    + destruct (k =? id'); [reflexivity|exact IH].
Qed.

Lemma get_buf_in id l o : get_buf id l = Some o -> In (id, o) l.
Proof.
  induction l as [|[k o'] r IH]; cbn [get_buf]; [discriminate|].
  destruct (k =? id) eqn:E; intro H.
  - apply N.eqb_eq in E. inversion H; subst. left; reflexivity.
  - right. exact (IH H).
Qed.

Lemma get_buf_keys id l : get_buf id l <> None <-> In id (keys l).
Proof.
  unfold keys. induction l as [|[k o'] r IH]; cbn [get_buf map fst In].
  - split; [congruence|tauto].
  - destruct (k =? id) eqn:E.
    + apply N.eqb_eq in E. split; [intros _; left; exact E|discriminate].
    + apply N.eqb_neq in E. rewrite IH. split; [tauto|intros [H|H]; [congruence|exact H]].
Qed.

(* ---- win_of / queue_of through with_buf *)
Lemma buf_or_new_with_same fl id o : buf_or_new (with_buf fl id o) id = o.
Proof. unfold buf_or_new, with_buf. cbn [f_bufs]. rewrite get_set_same. reflexivity. Qed.

Lemma buf_or_new_with_other fl id id' o : id' <> id -> buf_or_new (with_buf fl id o) id' = buf_or_new fl id'.
Proof. intro H. unfold buf_or_new, with_buf. cbn [f_bufs f_init]. rewrite get_set_other by exact H. reflexivity. Qed.

Lemma f_conn_with_buf fl id o : f_conn (with_buf fl id o) = f_conn fl.
Proof. reflexivity. Qed.
Lemma f_init_with_buf fl id o : f_init (with_buf fl id o) = f_init fl.
Proof. reflexivity. Qed.
Lemma f_max_with_buf fl id o : f_max (with_buf fl id o) = f_max fl.
Proof. reflexivity. Qed.

(* ---- sums of flow-control sizes *)
Fixpoint qtot (l : list qframe) : Z :=
  match l with [] => 0%Z | q :: r => (fsz q + qtot r)%Z end.

Lemma fsz_nonneg q : (0 <= fsz q)%Z.
Proof. destruct q; cbn [fsz]; lia. Qed.
Lemma qtot_nonneg l : (0 <= qtot l)%Z.
Proof. induction l as [|q r IH]; cbn [qtot]; [lia|pose proof (fsz_nonneg q); lia]. Qed.
Lemma qtot_app a c : qtot (a ++ c) = (qtot a + qtot c)%Z.
Proof. induction a as [|q r IH]; cbn [qtot app]; [reflexivity|rewrite IH; lia]. Qed.

(* ---- emit_q *)
Section Emit.
  Hypothesis Hdeb : emit_debits_conn = true /\ emit_debits_stream = true.

  Lemma emit_q_split cw sw q :
    let r := emit_q cw sw q in fst (snd r) ++ snd (snd r) = q.
  Proof.
    revert cw sw. induction q as [|f r IH]; intros cw sw; cbn [emit_q]; [reflexivity|].
    destruct (blocked (fsz f) cw sw); [reflexivity|].
    specialize (IH (if emit_debits_conn then (cw - fsz f)%Z else cw) (if emit_debits_stream then (sw - fsz f)%Z else sw)).
    destruct (emit_q _ _ r) as [ws [em rest]]. cbn [fst snd app] in *. rewrite IH. reflexivity.
  Qed.

  Lemma emit_q_windows cw sw q :
    let r := emit_q cw sw q in
    fst (fst r) = (cw - qtot (fst (snd r)))%Z /\ snd (fst r) = (sw - qtot (fst (snd r)))%Z.
  Proof.
    destruct Hdeb as [Hc Hs].
    revert cw sw. induction q as [|f r IH]; intros cw sw; cbn [emit_q].
    - cbn [fst snd qtot]. lia.
    - destruct (blocked (fsz f) cw sw); [cbn [fst snd qtot]; lia|].
      rewrite Hc, Hs. specialize (IH (cw - fsz f)%Z (sw - fsz f)%Z).
      destruct (emit_q _ _ r) as [[cw' sw'] [em rest]]. cbn [fst snd qtot] in *. lia.
  Qed.
End Emit.

(* what remains is empty or its head does not pass the gate (whatever the gate is) *)
Lemma emit_q_head_blocked cw sw q :
  let r := emit_q cw sw q in
  match snd (snd r) with
  | [] => True
  | f :: _ => blocked (fsz f) (fst (fst r)) (snd (fst r)) = true
  end.
Proof.
  revert cw sw. induction q as [|f r IH]; intros cw sw; cbn [emit_q]; [exact I|].
  destruct (blocked (fsz f) cw sw) eqn:E; [cbn [fst snd]; exact E|].
  specialize (IH (if emit_debits_conn then (cw - fsz f)%Z else cw) (if emit_debits_stream then (sw - fsz f)%Z else sw)).
  destruct (emit_q _ _ r) as [[cw' sw'] [em rest]]. cbn [fst snd] in *. exact IH.
Qed.

(* the connection window never grows by emitting *)
Lemma emit_q_conn_le cw sw q : (fst (fst (emit_q cw sw q)) <= cw)%Z.
Proof.
  revert cw sw. induction q as [|f r IH]; intros cw sw; cbn [emit_q]; [cbn; lia|].
  destruct (blocked (fsz f) cw sw); [cbn; lia|].
  specialize (IH (if emit_debits_conn then (cw - fsz f)%Z else cw) (if emit_debits_stream then (sw - fsz f)%Z else sw)).
  destruct (emit_q _ _ r) as [[cw' sw'] [em rest]]. cbn [fst snd] in *.
  pose proof (fsz_nonneg f). destruct emit_debits_conn; lia.
Qed.

Lemma blocked_mono sz cw cw' sw : (cw' <= cw)%Z -> blocked sz cw sw = true -> blocked sz cw' sw = true.
Proof.
  unfold blocked. intros Hle H. apply orb_true_iff in H. apply orb_true_iff. destruct H as [H|H]; [left|right; exact H].
  destruct emit_conn_blocks_on_gt; [apply Z.ltb_lt in H; apply Z.ltb_lt; lia|apply Z.leb_le in H; apply Z.leb_le; lia].
Qed.
