(* G09 — C10: "whenever the receiver's windows permit, a queued frame has been delivered", stated with the
   RECEIVER's own ledger (computed from the trace alone), for every history: combines the no-stranding
   invariant of the relay with the fact that the relay's windows are the receiver's ledger. *)
From FwdLib Require Import Bytes.
From G09 Require Import Tables H2Relay Ledger FlowBasics WinProofs PairBasics Lift PairWin NoStrand.
Open Scope N_scope.

Section Codec.
  Variables dstate estate : Type.
  Variable dec : dstate -> list N -> option (list field) * dstate.
  Variable enc : estate -> list field -> list N * estate.
  Variable dresize : dstate -> N -> dstate.
  Variable eresize : estate -> N -> estate.
  Hypothesis Hgate : emit_conn_blocks_on_gt = true /\ emit_stream_blocks_on_gt = true.
  Hypothesis Hdeb : emit_debits_conn = true /\ emit_debits_stream = true.
  Hypothesis Hconn : settings_delta_touches_conn = false.

  Notation run := (H2Relay.run dec enc dresize eresize).
  Notation pair0 := (pair0 dstate estate).

  Theorem held_only_without_credit : forall evs d1 e1 d2 e2 x s f rest,
    hist_wf evs -> all_ok (snd (run (pair0 d1 e1 d2 e2) evs)) -> s <> 0 ->
    queue_of (r_flow (toward x (fst (run (pair0 d1 e1 d2 e2) evs)))) s = f :: rest ->
    let l := final_wled x (snd (run (pair0 d1 e1 d2 e2) evs)) in
    (l_conn l < fsz f)%Z \/ (led_window l s < fsz f)%Z.
  Proof.
    intros evs d1 e1 d2 e2 x s f rest Hwf Hok Hs Hq l.
    destruct (window_is_ledger dstate estate dec enc dresize eresize Hgate Hdeb Hconn evs d1 e1 d2 e2 x Hwf Hok) as [Hc Hw].
    destruct (run_NS dstate estate dec enc dresize eresize evs (pair0 d1 e1 d2 e2) NS0 NS0) as [NC NSv].
    assert (HN : NS (r_flow (toward x (fst (run (pair0 d1 e1 d2 e2) evs))))) by (destruct x; assumption).
    specialize (HN s). specialize (Hw s Hs). unfold HB in HN. unfold queue_of, win_of, buf_or_new in *.
    destruct (get_buf s (f_bufs (r_flow (toward x (fst (run (pair0 d1 e1 d2 e2) evs)))))) as [o|]; [|discriminate].
    unfold head_blocked_in in HN. rewrite Hq in HN. unfold blocked in HN. destruct Hgate as [G1 G2]. rewrite G1, G2 in HN.
    apply orb_true_iff in HN. fold l in Hc, Hw. rewrite Hc, Hw in HN.
    destruct HN as [H|H]; apply Z.ltb_lt in H; [left|right]; exact H.
  Qed.
End Codec.
