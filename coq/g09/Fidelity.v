(* G09 — C10: what a relay has released on a stream followed by what it still holds for it carries
   exactly the content the sending endpoint put on that stream (header lists, DATA bytes, END_STREAM
   on the same element, RST_STREAM code, PUSH_PROMISE, PRIORITY, in order). *)
From FwdLib Require Import Bytes.
From G09 Require Import Tables H2Relay Ledger FlowBasics WinProofs PairBasics Lift PairWin FifoProofs PairFifo Spec Content.
Open Scope N_scope.

Definition head_ok (open : option N) (f : rframe) : Prop :=
  match open, f with
  | Some id, RCont id' _ _ => id' = id
  | Some _, _ => False
  | None, RCont _ _ _ => False
  | None, _ => True
  end.
Definition next_open (open : option N) (f : rframe) : option N :=
  match f with
  | RCont _ eh _ => if eh then None else open
  | RHeaders id _ eh _ _ => if eh then None else Some id
  | RPush id _ eh _ => if eh then None else Some id
  | _ => open
  end.

Lemma seq_wf_cons open f r : seq_wf open (f :: r) <-> head_ok open f /\ seq_wf (next_open open f) r.
Proof.
  destruct open as [id|]; destruct f; cbn [seq_wf head_ok next_open]; try tauto.
Qed.

Lemma on_cons s q l : on s (q :: l) = if q_id q =? s then q :: on s l else on s l.
Proof. reflexivity. Qed.

Section Codec.
  Variables dstate estate : Type.
  Variable dec : dstate -> list N -> option (list field) * dstate.
  Variable enc : estate -> list field -> list N * estate.
  Variable dresize : dstate -> N -> dstate.
  Variable eresize : estate -> N -> estate.
  Hypothesis Hcont : cont_end_stream_from_frame = true.
  Hypothesis Hdec : table_size_resizes_decoder = false.

  Notation relay := (relay dstate estate).
  Notation pair := (pair dstate estate).
  Notation pcore := (pcore dec dresize).
  Notation pstep := (pstep dec enc dresize eresize).
  Notation run := (H2Relay.run dec enc dresize eresize).
  Notation spec_elems := (spec_elems dstate dec).

  Definition cstate_of (ctx : hctx) : option cstate :=
    match ctx with HHdr _ es p => Some (CHdr p es) | HPush _ pr => Some (CPush pr) | HNone => None end.
  Definition ctx_id (ctx : hctx) : option N :=
    match ctx with HHdr id _ _ => Some id | HPush id _ => Some id | HNone => None end.
  Definition open_of (pend : option (hctx * list N)) : option N :=
    match pend with Some (ctx, _) => ctx_id ctx | None => None end.

  (* the reading relay's reassembly state is the protocol's *)
  Definition CI (r : relay) (dst : dstate) (pend : option (hctx * list N)) : Prop :=
    r_dst r = dst /\
    match pend with
    | None => True
    | Some (ctx, acc) => r_hbuf r = acc /\ r_cont r = cstate_of ctx /\ ctx <> HNone
    end.

  Lemma apply_settings_codec : forall l orders (peer : relay) acc,
    let r := fst (fst (apply_settings dresize l orders peer acc)) in
    r_dst r = r_dst peer /\ r_hbuf r = r_hbuf peer /\ r_cont r = r_cont peer.
  Proof.
    induction l as [|[k v] rest IH]; intros orders peer acc; cbn [apply_settings]; [cbn; auto|].
    destruct (settings_validated && negb (setting_valid k v)); [cbn; auto|].
    destruct (k =? 1).
    { rewrite Hdec. apply (IH orders (mkRelay (r_flow peer) (r_cont peer) (r_hbuf peer) (r_dst peer) (r_est peer)) (acc ++ [OResize v])). }
    destruct (k =? 4).
    - destruct (update_init v (hd [] orders) (r_flow peer)) as [fl e].
      apply (IH (tl orders) (with_flow peer fl) (acc ++ oq e)).
    - destruct (k =? 5); [apply (IH orders (with_flow peer (update_max v (r_flow peer))) (acc ++ [OSetMax v]))|apply IH].
  Qed.

  (* a frame from endpoint x does not touch the reassembly state of the relay that sends towards x *)
  Lemma core_ci_from (p : pair) from f orders dst pend :
    CI (toward from p) dst pend -> CI (toward from (s_pair (pcore p from f orders))) dst pend.
  Proof.
    intro H. unfold pcore. cbv zeta.
    destruct f as [id es d flen|id es eh pr frag|id eh frag|id pm eh frag|id pr|id code|ack st|ack d|last code dbg|id inc|].
    - destruct (data_pieces _ _ id d es) as [ps|]; [destruct (enqueue_all ps _) as [fl em]|]; rewrite res_toward_from; exact H.
    - destruct eh; [|rewrite res_toward_from; exact H]. destruct (dec _ frag) as [[fields|] dst']; [|rewrite res_toward_from; exact H].
      destruct (r_header _ _ _ _ _) as [[[me' em] q]|]; rewrite res_toward_from; exact H.
    - destruct eh; [|rewrite res_toward_from; exact H]. destruct (dec _ _) as [[fields|] dst']; [|rewrite res_toward_from; exact H].
      cbn [r_cont]. destruct (r_cont _); [|rewrite res_toward_from; exact H].
      destruct (complete _ _ _) as [[[me' em] q]|]; rewrite res_toward_from; exact H.
    - destruct eh; [|rewrite res_toward_from; exact H]. destruct (dec _ frag) as [[fields|] dst']; [|rewrite res_toward_from; exact H].
      destruct (r_push _ _ _ _) as [[[me' em] q]|]; rewrite res_toward_from; exact H.
    - destruct (enqueue_emit _ _) as [fl em]. rewrite res_toward_from; exact H.
    - destruct (enqueue_emit _ _) as [fl em]. rewrite res_toward_from; exact H.
    - destruct ack; [rewrite res_toward_from; exact H|].
      pose proof (apply_settings_codec st orders (toward from p) []) as Hc. cbv zeta in Hc.
      destruct (apply_settings _ _ _ _ _) as [[peer' acc'] ok]. cbn [fst] in Hc. destruct Hc as [H1 [H2 H3]].
      destruct ok; rewrite res_toward_from; unfold CI in *; rewrite H1, H2, H3; exact H.
    - rewrite res_toward_from; exact H.
    - rewrite res_toward_from; exact H.
    - destruct (update_window _ _ _ _) as [fl em]. rewrite res_toward_from. exact H.
    - rewrite res_toward_from; exact H.
  Qed.

  Ltac done_other := rewrite ?res_toward_other, ?res_enq.

  (* a frame from endpoint y, read by the relay that sends towards the other endpoint *)
  Lemma core_content (p : pair) from f orders s dst pend :
    frame_wf f ->
    CI (toward (other from) p) dst pend -> head_ok (open_of pend) f ->
    s_status (pcore p from f orders) = Ok ->
    exists E dst' pend',
      (forall R, spec_elems s dst pend (f :: R) = E ++ spec_elems s dst' pend' R) /\
      eqv (flat_map q_elems (on s (s_enq (pcore p from f orders)))) E /\
      CI (toward (other from) (s_pair (pcore p from f orders))) dst' pend' /\
      open_of pend' = next_open (open_of pend) f.
  Proof.
    intros Hwf [Hd Hp] Hh. unfold pcore. cbv zeta. remember (toward (other from) p) as me eqn:Eme. clear Eme.
    destruct f as [id es d flen|id es eh pr frag|id eh frag|id pm eh frag|id pr|id code|ack st|ack d|last code dbg|id inc|];
      cbn [frame_wf] in Hwf.
    - (* DATA *)
      destruct (data_pieces _ _ id d es) as [ps|] eqn:Ep; [|rewrite res_status; discriminate].
      destruct (enqueue_all ps _) as [fl em]. intros _. done_other.
      exists (if id =? s then EData d :: (if es then [EEnd] else []) else []), dst, pend.
      split; [intro R; reflexivity|]. split; [|split; [split; [exact Hd|exact Hp]|reflexivity]].
      pose proof (data_pieces_ids _ _ _ _ _ _ Ep) as Hids.
      destruct (id =? s) eqn:E.
      + apply N.eqb_eq in E. subst s. rewrite (on_all id ps Hids). exact (data_pieces_content _ _ _ _ _ _ Ep).
      + apply N.eqb_neq in E. rewrite (on_none id s ps ltac:(congruence) Hids). apply eqv_refl.
    - (* HEADERS *)
      destruct pend as [[ctx acc]|]; [destruct Hp as [_ [_ Hn]]; destruct ctx; cbn in Hh; try contradiction; congruence|].
      destruct eh.
      + destruct (dec (r_dst me) frag) as [[fields|] dst'] eqn:Edec; [|rewrite res_status; discriminate].
        destruct (r_header _ _ _ _ _) as [[[me' em] q]|] eqn:Eh; [|rewrite res_status; discriminate].
        intros _. done_other.
        pose proof Eh as Eh2. apply r_header_flow in Eh2 as [_ [_ [Hc' [Hb' [Hd' _]]]]].
        unfold r_header in Eh. destruct (enqueue_emit _ _) as [fl em']. inversion Eh; subst q me' em'.
        exists (ctx_elems s (HHdr id es pr) (Some fields)), dst', None.
        split; [intro R; cbn [spec_elems]; rewrite <- Hd, Edec; reflexivity|].
        split; [|split; [split; [cbn [r_dst]; reflexivity|exact I]|reflexivity]].
        cbn [on filter q_id ctx_elems]. destruct (id =? s); cbn [flat_map q_elems app]; apply eqv_refl.
      + intros _. done_other. exists [], dst, (Some (HHdr id es pr, frag)).
        split; [intro R; reflexivity|]. split; [apply eqv_refl|].
        split; [split; [exact Hd|cbn [r_hbuf r_cont cstate_of]; repeat split; discriminate]|reflexivity].
    - (* CONTINUATION *)
      destruct pend as [[ctx acc]|]; [|cbn in Hh; contradiction].
      destruct Hp as [Hb [Hc Hn]].
      assert (Hid : ctx_id ctx = Some id) by (destruct ctx; cbn in Hh |- *; congruence).
      destruct eh.
      + rewrite Hb. destruct (dec (r_dst me) (acc ++ frag)) as [[fields|] dst'] eqn:Edec; [|rewrite res_status; discriminate].
        cbn [r_cont]. rewrite Hc.
        destruct ctx as [|hid hes hp|hid hpr]; [congruence| |]; cbn [cstate_of ctx_id] in *.
        * unfold complete. cbn [r_cont cstate_of]. rewrite Hcont.
          destruct (r_header _ _ _ _ _) as [[[me' em] q]|] eqn:Eh; [|rewrite res_status; discriminate].
          intros _. done_other.
          unfold r_header in Eh. destruct (enqueue_emit _ _) as [fl em']. inversion Eh; subst q me' em'.
          exists (ctx_elems s (HHdr hid hes hp) (Some fields)), dst', None.
          split; [intro R; cbn [spec_elems]; rewrite <- Hd, Edec; reflexivity|].
          split; [|split; [split; [cbn [r_dst]; reflexivity|exact I]|reflexivity]].
          inversion Hid; subst hid.
          cbn [on filter q_id ctx_elems]. destruct (id =? s); cbn [flat_map q_elems app]; apply eqv_refl.
        * unfold complete. cbn [r_cont cstate_of].
          destruct (r_push _ _ _ _) as [[[me' em] q]|] eqn:Eh; [|rewrite res_status; discriminate].
          intros _. done_other.
          unfold r_push in Eh. destruct (enqueue_emit _ _) as [fl em']. inversion Eh; subst q me' em'.
          exists (ctx_elems s (HPush hid hpr) (Some fields)), dst', None.
          split; [intro R; cbn [spec_elems]; rewrite <- Hd, Edec; reflexivity|].
          split; [|split; [split; [cbn [r_dst]; reflexivity|exact I]|reflexivity]].
          inversion Hid; subst hid.
          cbn [on filter q_id ctx_elems]. destruct (id =? s); cbn [flat_map q_elems app]; apply eqv_refl.
      + intros _. done_other. exists [], dst, (Some (ctx, acc ++ frag)).
        split; [intro R; reflexivity|]. split; [apply eqv_refl|].
        split; [split; [exact Hd|cbn [r_hbuf r_cont]; rewrite Hb; auto]|].
        cbn [open_of next_open]. reflexivity.
    - (* PUSH_PROMISE *)
      destruct pend as [[ctx acc]|]; [destruct Hp as [_ [_ Hn]]; destruct ctx; cbn in Hh; try contradiction; congruence|].
      destruct eh.
      + destruct (dec (r_dst me) frag) as [[fields|] dst'] eqn:Edec; [|rewrite res_status; discriminate].
        destruct (r_push _ _ _ _) as [[[me' em] q]|] eqn:Eh; [|rewrite res_status; discriminate].
        intros _. done_other.
        unfold r_push in Eh. destruct (enqueue_emit _ _) as [fl em']. inversion Eh; subst q me' em'.
        exists (ctx_elems s (HPush id pm) (Some fields)), dst', None.
        split; [intro R; cbn [spec_elems]; rewrite <- Hd, Edec; reflexivity|].
        split; [|split; [split; [cbn [r_dst]; reflexivity|exact I]|reflexivity]].
        cbn [on filter q_id ctx_elems]. destruct (id =? s); cbn [flat_map q_elems app]; apply eqv_refl.
      + intros _. done_other. exists [], dst, (Some (HPush id pm, frag)).
        split; [intro R; reflexivity|]. split; [apply eqv_refl|].
        split; [split; [exact Hd|cbn [r_hbuf r_cont cstate_of]; repeat split; discriminate]|reflexivity].
    - destruct (enqueue_emit _ _) as [fl em]. intros _. done_other.
      exists (if id =? s then [EPrio pr] else []), dst, pend.
      split; [intro R; reflexivity|]. split; [|split; [split; [exact Hd|exact Hp]|destruct pend as [[[] ?]|]; reflexivity]].
      cbn [on filter q_id]. destruct (id =? s); cbn [flat_map q_elems app]; apply eqv_refl.
    - destruct (enqueue_emit _ _) as [fl em]. intros _. done_other.
      exists (if id =? s then [ERst code] else []), dst, pend.
      split; [intro R; reflexivity|]. split; [|split; [split; [exact Hd|exact Hp]|destruct pend as [[[] ?]|]; reflexivity]].
      cbn [on filter q_id]. destruct (id =? s); cbn [flat_map q_elems app]; apply eqv_refl.
    - destruct ack.
      + intros _. done_other. exists [], dst, pend. split; [intro R; reflexivity|]. split; [apply eqv_refl|].
        split; [split; [exact Hd|exact Hp]|destruct pend as [[[] ?]|]; reflexivity].
      + destruct (apply_settings _ _ _ _ _) as [[peer' acc'] ok]. destruct ok; [|rewrite res_status; discriminate].
        intros _. done_other. exists [], dst, pend. split; [intro R; reflexivity|]. split; [apply eqv_refl|].
        split; [split; [exact Hd|exact Hp]|destruct pend as [[[] ?]|]; reflexivity].
    - intros _. done_other. exists [], dst, pend. split; [intro R; reflexivity|]. split; [apply eqv_refl|].
      split; [split; [exact Hd|exact Hp]|destruct pend as [[[] ?]|]; reflexivity].
    - intros _. done_other. exists [], dst, pend. split; [intro R; reflexivity|]. split; [apply eqv_refl|].
      split; [split; [exact Hd|exact Hp]|destruct pend as [[[] ?]|]; reflexivity].
    - destruct (update_window _ _ _ _) as [fl em]. intros _. done_other.
      exists [], dst, pend. split; [intro R; reflexivity|]. split; [apply eqv_refl|].
      split; [split; [exact Hd|exact Hp]|destruct pend as [[[] ?]|]; reflexivity].
    - rewrite res_status. discriminate.
  Qed.
  Lemma CI_flow (r r' : relay) dst pend :
    r_dst r' = r_dst r -> r_cont r' = r_cont r -> r_hbuf r' = r_hbuf r -> CI r dst pend -> CI r' dst pend.
  Proof. intros H1 H2 H3 [Hd Hp]. unfold CI. rewrite H1, H2, H3. split; assumption. Qed.

  Lemma step_ci_from (p : pair) from f orders dst pend :
    CI (toward from p) dst pend -> CI (toward from (s_pair (pstep p from f orders))) dst pend.
  Proof.
    intro H. destruct (pstep_flow dstate estate dec enc dresize eresize p from f orders from) as [_ [H1 [H2 H3]]].
    exact (CI_flow _ _ dst pend H1 H2 H3 (core_ci_from p from f orders dst pend H)).
  Qed.

  Lemma step_content (p : pair) from f orders s dst pend :
    frame_wf f ->
    CI (toward (other from) p) dst pend -> head_ok (open_of pend) f ->
    s_status (pstep p from f orders) = Ok ->
    exists E dst' pend',
      (forall R, spec_elems s dst pend (f :: R) = E ++ spec_elems s dst' pend' R) /\
      eqv (flat_map q_elems (on s (s_enq (pstep p from f orders)))) E /\
      CI (toward (other from) (s_pair (pstep p from f orders))) dst' pend' /\
      open_of pend' = next_open (open_of pend) f.
  Proof.
    intros Hwf Hci Hh Hok.
    pose proof (pstep_ok dstate estate dec enc dresize eresize p from f orders Hok) as Hok0.
    destruct (core_content p from f orders s dst pend Hwf Hci Hh Hok0) as [E [dst' [pend' [H1 [H2 [H3 H4]]]]]].
    exists E, dst', pend'. rewrite (pstep_enq dstate estate dec enc dresize eresize p from f orders Hok).
    destruct (pstep_flow dstate estate dec enc dresize eresize p from f orders (other from)) as [_ [F1 [F2 F3]]].
    split; [exact H1|]. split; [exact H2|]. split; [exact (CI_flow _ _ dst' pend' F1 F2 F3 H3)|exact H4].
  Qed.

  Lemma other_other x : other (other x) = x.
  Proof. destruct x; reflexivity. Qed.

  Lemma inputs_cons_same y f orders evs : inputs y (mkEv y f orders :: evs) = f :: inputs y evs.
  Proof. unfold inputs. cbn [filter e_from]. rewrite side_eqb_refl. reflexivity. Qed.
  Lemma inputs_cons_other y f orders evs : inputs (other y) (mkEv y f orders :: evs) = inputs (other y) evs.
  Proof. unfold inputs. cbn [filter e_from]. rewrite side_eqb_other. reflexivity. Qed.

  Lemma run_content : forall evs (p : pair) x s dst pend,
    hist_wf evs -> CI (toward x p) dst pend -> seq_wf (open_of pend) (inputs (other x) evs) ->
    all_ok (snd (run p evs)) ->
    eqv (flat_map q_elems (on s (enqueued_for x (snd (run p evs))))) (spec_elems s dst pend (inputs (other x) evs)).
  Proof.
    induction evs as [|e r IH]; intros p x s dst pend Hwf Hci Hseq Hok; [apply eqv_refl|].
    inversion Hwf as [|? ? He Hr]; subst. destruct e as [from f orders]. cbn [e_frame] in He.
    cbn [H2Relay.run e_from e_frame e_orders] in *.
    destruct (s_status (pstep p from f orders)) eqn:Est;
      try (cbn [snd] in Hok; inversion Hok as [|? ? Hbad _]; cbn [t_status] in Hbad; congruence).
    destruct (run (s_pair (pstep p from f orders)) r) as [p' ts] eqn:Erun. cbn [fst snd] in *.
    inversion Hok as [|? ? _ Hok']; subst.
    unfold enqueued_for. cbn [flat_map t_ev e_from t_enq]. fold (enqueued_for x ts).
    rewrite on_app, flat_map_app.
    destruct (side_cases from x) as [-> | ->].
    - rewrite side_eqb_refl. cbn [on filter flat_map app]. rewrite inputs_cons_other in *.
      specialize (IH (s_pair (pstep p from f orders)) from s dst pend Hr (step_ci_from p from f orders dst pend Hci) Hseq).
      rewrite Erun in IH. exact (IH Hok').
    - rewrite side_eqb_other. rewrite other_other in *. rewrite inputs_cons_same in *.
      apply seq_wf_cons in Hseq as [Hh Hrest].
      destruct (step_content p from f orders s dst pend He Hci Hh Est) as [E [dst' [pend' [Hspec [Heq [Hci' Hopen]]]]]].
      rewrite Hspec. apply eqv_app; [exact Heq|].
      rewrite <- Hopen in Hrest.
      specialize (IH (s_pair (pstep p from f orders)) (other from) s dst' pend' Hr Hci').
      rewrite other_other, Erun in IH. exact (IH Hrest Hok').
  Qed.

  Notation pair0 := (pair0 dstate estate).

  Lemma q_elems_strip q : q_elems (strip q) = q_elems q.
  Proof. destruct q; reflexivity. Qed.
  Lemma elems_strip l : flat_map q_elems (map strip l) = flat_map q_elems l.
  Proof. induction l as [|q r IH]; [reflexivity|]. cbn [map flat_map]. rewrite q_elems_strip, IH. reflexivity. Qed.

  (* T10_fifo: per stream, released ++ held = queued, in order (the chunks of a header frame are filled in
     when it is released: frames are compared without them) *)
  Theorem fifo_from_start : forall evs d1 e1 d2 e2 x s, hist_wf evs ->
    let r := run (pair0 d1 e1 d2 e2) evs in
    all_ok (snd r) ->
    map strip (on s (emitted_to x (snd r)) ++ queue_of (r_flow (toward x (fst r))) s) = map strip (on s (enqueued_for x (snd r))).
  Proof.
    intros evs d1 e1 d2 e2 x s Hwf r Hok.
    assert (HQ : QInv (r_flow (toward x (pair0 d1 e1 d2 e2)))) by (rewrite toward_pair0; exact QInv0).
    pose proof (proj1 (run_fifo dstate estate dec enc dresize eresize evs (pair0 d1 e1 d2 e2) x Hwf HQ Hok) s) as H.
    rewrite toward_pair0 in H. rewrite map_app. exact H.
  Qed.

  (* T10_fidelity *)
  Theorem fidelity_from_start : forall evs d1 e1 d2 e2 x s,
    hist_wf evs -> seq_wf None (inputs (other x) evs) ->
    let r := run (pair0 d1 e1 d2 e2) evs in
    all_ok (snd r) ->
    qcontent (on s (emitted_to x (snd r)) ++ queue_of (r_flow (toward x (fst r))) s) =
    spec_content dstate dec s (r_dst (toward x (pair0 d1 e1 d2 e2))) (inputs (other x) evs).
  Proof.
    intros evs d1 e1 d2 e2 x s Hwf Hseq r Hok. subst r.
    unfold qcontent. rewrite <- elems_strip, (fifo_from_start evs d1 e1 d2 e2 x s Hwf Hok), elems_strip.
    unfold spec_content. apply eqv_norm.
    apply (run_content evs (pair0 d1 e1 d2 e2) x s _ None Hwf); [split; [reflexivity|exact I]|exact Hseq|exact Hok].
  Qed.
End Codec.
