(* G09 — C10: what "the content of a stream" means, for the frames an endpoint SENT (protocol-level
   reassembly: a header block is the concatenation of the fragments of HEADERS/PUSH_PROMISE and the
   CONTINUATION frames that follow, decoded once complete) and for frames held or released by a relay.
   No proofs here. *)
From FwdLib Require Import Bytes.
From G09 Require Import Tables H2Relay Ledger.
Open Scope N_scope.

(* logical elements carried by one queued frame *)
Definition q_elems (q : qframe) : list elem :=
  match q with
  | QData _ es d => EData d :: (if es then [EEnd] else [])
  | QDataP _ es d _ => EData d :: (if es then [EEnd] else [])
  | QHdr _ es p fields _ => [EHdr (Some fields) es p]
  | QPush _ pr fields _ => [EPush pr (Some fields)]
  | QPrio _ p => [EPrio p]
  | QRst _ c => [ERst c]
  end.

(* adjacent DATA concatenated, empty DATA dropped *)
Definition norm (l : list elem) : list elem := fold_left snoc_elem l [].
Definition qcontent (l : list qframe) : list elem := norm (flat_map q_elems l).

Section Spec.
  Variable dstate : Type.
  Variable dec : dstate -> list N -> option (list field) * dstate.

  Definition ctx_elems (s : N) (ctx : hctx) (o : option (list field)) : list elem :=
    match ctx with
    | HHdr id es p => if id =? s then [EHdr o es p] else []
    | HPush id pr => if id =? s then [EPush pr o] else []
    | HNone => []
    end.

  (* elements of stream s in the frames fs sent by one endpoint; dst: the state of the HPACK decoder
     that reads them; pend: an unfinished header block *)
  Fixpoint spec_elems (s : N) (dst : dstate) (pend : option (hctx * list N)) (fs : list rframe) : list elem :=
    match fs with
    | [] => []
    | f :: r =>
        match f with
        | RData id es d _ =>
            (if id =? s then EData d :: (if es then [EEnd] else []) else []) ++ spec_elems s dst pend r
        | RHeaders id es eh p frag =>
            if eh then let '(o, dst') := dec dst frag in ctx_elems s (HHdr id es p) o ++ spec_elems s dst' None r
            else spec_elems s dst (Some (HHdr id es p, frag)) r
        | RPush id pr eh frag =>
            if eh then let '(o, dst') := dec dst frag in ctx_elems s (HPush id pr) o ++ spec_elems s dst' None r
            else spec_elems s dst (Some (HPush id pr, frag)) r
        | RCont _ eh frag =>
            match pend with
            | Some (ctx, acc) =>
                if eh then let '(o, dst') := dec dst (acc ++ frag) in ctx_elems s ctx o ++ spec_elems s dst' None r
                else spec_elems s dst (Some (ctx, acc ++ frag)) r
            | None => spec_elems s dst pend r
            end
        | RPrio id p => (if id =? s then [EPrio p] else []) ++ spec_elems s dst pend r
        | RRst id c => (if id =? s then [ERst c] else []) ++ spec_elems s dst pend r
        | _ => spec_elems s dst pend r
        end
    end.

  Definition spec_content (s : N) (dst : dstate) (fs : list rframe) : list elem := norm (spec_elems s dst None fs).
End Spec.

(* the frames endpoint y sent, in order *)
Definition inputs (y : side) (evs : list event) : list rframe :=
  map e_frame (filter (fun e => side_eqb (e_from e) y) evs).

(* What http2.Framer.checkFrameOrder guarantees about the frames it returns from one endpoint: a
   CONTINUATION frame only follows an unfinished header block of the same stream, and nothing else does.
   (x/net's framer additionally refuses CONTINUATION after PUSH_PROMISE; the model does not need that.) *)
Fixpoint seq_wf (open : option N) (fs : list rframe) : Prop :=
  match fs with
  | [] => True
  | f :: r =>
      match open, f with
      | Some id, RCont id' eh _ => id' = id /\ seq_wf (if eh then None else Some id) r
      | Some _, _ => False
      | None, RCont _ _ _ => False
      | None, RHeaders id _ eh _ _ => seq_wf (if eh then None else Some id) r
      | None, RPush id _ eh _ => seq_wf (if eh then None else Some id) r
      | None, _ => seq_wf None r
      end
  end.
