(* G09 — C09 (b): every frame an endpoint is sent has a payload no larger than a SETTINGS_MAX_FRAME_SIZE
   that endpoint has announced (the largest so far; frames are sized when they are queued). *)
From FwdLib Require Import Bytes.
From G09 Require Import Tables H2Relay Ledger Term FlowBasics WinProofs PairBasics Lift PairWin PairMisc SizeBasics.
Open Scope N_scope.

Definition SQ (m : N) (fl : flow) : Prop :=
  forall s o, get_buf s (f_bufs fl) = Some o -> Forall (qfits m) (ob_q o).

Lemma qfits_mono m m' q : m <= m' -> qfits m q -> qfits m' q.
Proof. intros Hle H. unfold qfits in *. eapply Forall_impl; [|exact H]. intros w Hw. cbn beta in Hw. lia. Qed.
Lemma SQ_mono m m' fl : m <= m' -> SQ m fl -> SQ m' fl.
Proof. intros Hle H s o Hg. eapply Forall_impl; [|exact (H s o Hg)]. intros q. apply qfits_mono. exact Hle. Qed.

Lemma SQ_set m fl s o mx i c : SQ m fl -> Forall (qfits m) (ob_q o) -> SQ m (mkFlow mx i c (set_buf s o (f_bufs fl))).
Proof.
  intros H Ho s' o' Hg. cbn [f_bufs] in Hg. destruct (N.eq_dec s' s) as [->|Hn].
  - rewrite get_set_same in Hg. inversion Hg; subst. exact Ho.
  - rewrite get_set_other in Hg by exact Hn. exact (H s' o' Hg).
Qed.

Lemma emit_stream_size m s fl : SQ m fl -> SQ m (fst (emit_stream s fl)) /\ Forall (qfits m) (snd (emit_stream s fl)).
Proof.
  intro H. unfold emit_stream. destruct (get_buf s (f_bufs fl)) as [o|] eqn:Eg; [|split; [exact H|constructor]].
  pose proof (emit_q_split (f_conn fl) (ob_win o) (ob_q o)) as Hsp.
  destruct (emit_q _ _ _) as [[cw sw] [em rest]]. cbn [fst snd] in *.
  pose proof (H s o Eg) as Ho. rewrite <- Hsp in Ho. apply Forall_app in Ho as [Hem Hrest].
  split; [apply SQ_set; [exact H|exact Hrest]|exact Hem].
Qed.

Lemma scan_ids_size m ids : forall fl, SQ m fl -> SQ m (fst (scan_ids ids fl)) /\ Forall (qfits m) (snd (scan_ids ids fl)).
Proof.
  induction ids as [|id r IH]; intros fl H; cbn [scan_ids]; [split; [exact H|constructor]|].
  destruct (emit_stream_size m id fl H) as [H1 E1]. destruct (emit_stream id fl) as [fl1 e1]. cbn [fst snd] in *.
  destruct (IH fl1 H1) as [H2 E2]. destruct (scan_ids r fl1) as [fl2 e2]. cbn [fst snd] in *.
  split; [exact H2|apply Forall_app; split; assumption].
Qed.

Lemma enqueue_emit_size m q fl : qfits m q -> SQ m fl ->
  SQ m (fst (enqueue_emit q fl)) /\ Forall (qfits m) (snd (enqueue_emit q fl)).
Proof.
  intros Hq H. unfold enqueue_emit. apply emit_stream_size. unfold with_buf. apply SQ_set; [exact H|].
  cbn [ob_q]. apply Forall_app. split; [|repeat constructor; exact Hq].
  unfold buf_or_new. destruct (get_buf (q_id q) (f_bufs fl)) as [o|] eqn:Eg; [exact (H _ _ Eg)|constructor].
Qed.

Lemma enqueue_all_size m qs : forall fl, Forall (qfits m) qs -> SQ m fl ->
  SQ m (fst (enqueue_all qs fl)) /\ Forall (qfits m) (snd (enqueue_all qs fl)).
Proof.
  induction qs as [|q r IH]; intros fl Hq H; cbn [enqueue_all]; [split; [exact H|constructor]|].
  inversion Hq; subst.
  destruct (enqueue_emit_size m q fl H2 H) as [H1 E1]. destruct (enqueue_emit q fl) as [fl1 e1]. cbn [fst snd] in *.
  destruct (IH fl1 H3 H1) as [H4 E2]. destruct (enqueue_all r fl1) as [fl2 e2]. cbn [fst snd] in *.
  split; [exact H4|apply Forall_app; split; assumption].
Qed.

Lemma SQ_with_buf_same m fl id w : SQ m fl -> SQ m (with_buf fl id (mkOb w (ob_q (buf_or_new fl id)))).
Proof.
  intro H. unfold with_buf. apply SQ_set; [exact H|]. cbn [ob_q]. unfold buf_or_new.
  destruct (get_buf id (f_bufs fl)) as [o|] eqn:Eg; [exact (H _ _ Eg)|constructor].
Qed.

Lemma update_window_size m id inc order fl : SQ m fl ->
  SQ m (fst (update_window id inc order fl)) /\ Forall (qfits m) (snd (update_window id inc order fl)).
Proof.
  intro H. unfold update_window.
  assert (H1 : SQ m (fst (if id =? 0 then scan_all order (mkFlow (f_max fl) (f_init fl) (f_conn fl + Z.of_N inc) (f_bufs fl)) else (fl, []))) /\
               Forall (qfits m) (snd (if id =? 0 then scan_all order (mkFlow (f_max fl) (f_init fl) (f_conn fl + Z.of_N inc) (f_bufs fl)) else (fl, [])))).
  { destruct (id =? 0); [apply scan_ids_size; exact H|split; [exact H|constructor]]. }
  destruct (if id =? 0 then _ else _) as [fl1 e1]. cbn [fst snd] in H1. destruct H1 as [H1 E1].
  destruct ((id =? 0) && negb wu_conn_falls_through); [split; assumption|].
  destruct (emit_stream_size m id _ (SQ_with_buf_same m fl1 id (ob_win (buf_or_new fl1 id) + Z.of_N inc) H1)) as [H2 E2].
  destruct (emit_stream id _) as [fl2 e2]. cbn [fst snd] in *.
  split; [exact H2|apply Forall_app; split; assumption].
Qed.

Lemma update_init_size m v order fl : SQ m fl ->
  SQ m (fst (update_init v order fl)) /\ Forall (qfits m) (snd (update_init v order fl)).
Proof.
  intro H. unfold update_init. cbv zeta. apply scan_ids_size.
  set (g := fun o : obuf => mkOb (ob_win o + (Z.of_N v - Z.of_N (f_init fl)))%Z (ob_q o)).
  change (map _ (f_bufs fl)) with (map (fun ko : N * obuf => (fst ko, g (snd ko))) (f_bufs fl)).
  intros s o Hg. cbn [f_bufs] in Hg. rewrite get_buf_map in Hg.
  destruct (get_buf s (f_bufs fl)) as [o'|] eqn:Eg; cbn [option_map] in Hg; [|discriminate].
  inversion Hg; subst. cbn [ob_q g]. exact (H s o' Eg).
Qed.

(* ---- the size ledger while receiving frames that fit *)
Lemma sl_recv_all_fit l fs : Forall (fun w => payload_len w <= l_max_ever l) fs ->
  fst (snd (sl_recv_all l fs)) = true /\
  l_max_cur (fst (sl_recv_all l fs)) = l_max_cur l /\ l_max_ever (fst (sl_recv_all l fs)) = l_max_ever l.
Proof.
  revert l. induction fs as [|f r IH]; intros l H; cbn [sl_recv_all]; [cbn; auto|].
  inversion H as [|? ? Hf Hr]; subst.
  assert (H1 : l_max_cur (fst (sl_recv l f)) = l_max_cur l /\ l_max_ever (fst (sl_recv l f)) = l_max_ever l /\
               fst (snd (sl_recv l f)) = true).
  { unfold sl_recv. assert (Hb : (payload_len f <=? l_max_ever l) = true) by (apply N.leb_le; exact Hf).
    destruct f; cbn [fst snd]; try (rewrite Hb; auto). destruct (l_max_pending l); cbn; rewrite ?Hb; auto. }
  destruct (sl_recv l f) as [l1 [b1 c1]]. cbn [fst snd] in H1. destruct H1 as [Hc [He Hb]].
  rewrite <- He in Hr. destruct (IH l1 Hr) as [Hb2 [Hc2 He2]].
  destruct (sl_recv_all l1 r) as [l2 [b2 c2]]. cbn [fst snd] in *. subst b1 b2. repeat split; congruence.
Qed.

Lemma sends_fit m em : Forall (qfits m) em -> Forall (fun w => payload_len w <= m) (sends em).
Proof.
  unfold sends. induction 1 as [|q r Hq _ IH]; [constructor|]. cbn [flat_map]. apply Forall_app. split; [exact Hq|exact IH].
Qed.

(* count of SETTINGS_MAX_FRAME_SIZE entries in a SETTINGS payload *)
Fixpoint count5 (l : list (N * N)) : nat :=
  match l with [] => O | (k, _) :: r => if k =? 5 then Datatypes.S (count5 r) else count5 r end.

(* connection-level frames are forwarded as they are: their size is the sender's doing; and a SETTINGS
   frame names MAX_FRAME_SIZE at most once *)
Definition frame_small (f : rframe) : Prop :=
  match f with
  | RSettings false l => 6 * len l <= 16384 /\ (count5 l <= 1)%nat
  | RGoAway _ _ dbg => 8 + len dbg <= 16384
  | _ => True
  end.

Definition bounds (maxp m : N) : Prop := 16384 <= maxp /\ maxp <= 16777215 /\ maxp <= m.

(* everything a relay writes during a step fits m, given the max frame size in force at each point *)
Fixpoint ScriptFits (m maxp : N) (l : list oframe) : Prop :=
  match l with
  | [] => True
  | OQ q :: r => qfits m q /\ bounds maxp m /\ ScriptFits m maxp r
  | OW w :: r => payload_len w <= m /\ ScriptFits m maxp r
  | OResize _ :: r => ScriptFits m maxp r
  | OSetMax m' :: r => ScriptFits m m' r
  end.

Lemma ScriptFits_oq m maxp em : Forall (qfits m) em -> bounds maxp m -> ScriptFits m maxp (oq em).
Proof. intros H Hb. induction H as [|q r Hq _ IH]; cbn [oq map ScriptFits]; [exact I|]. split; [exact Hq|]. split; [exact Hb|exact IH]. Qed.
Lemma ScriptFits_ow m maxp ws : Forall (fun w => payload_len w <= m) ws -> ScriptFits m maxp (ow ws).
Proof. induction 1 as [|w r Hw _ IH]; cbn [ow map ScriptFits]; [exact I|]. split; [exact Hw|exact IH]. Qed.
Lemma ScriptFits_oq_app m maxp em l : Forall (qfits m) em -> bounds maxp m -> ScriptFits m maxp l -> ScriptFits m maxp (oq em ++ l).
Proof. intros H Hb Hl. induction H as [|q r Hq _ IH]; cbn [oq map app ScriptFits]; [exact Hl|]. split; [exact Hq|]. split; [exact Hb|exact IH]. Qed.

Section Codec.
  Variables dstate estate : Type.
  Variable dec : dstate -> list N -> option (list field) * dstate.
  Variable enc : estate -> list field -> list N * estate.
  Variable dresize : dstate -> N -> dstate.
  Variable eresize : estate -> N -> estate.
  Hypothesis Hval : settings_validated = true.
  Hypothesis Hinit : initial_max_frame_size = 16384.
  Hypothesis Hprio : headers_priority_len = 5.
  Hypothesis Hpush : push_promise_meta_len = 4.

  Notation relay := (relay dstate estate).
  Notation pair := (pair dstate estate).
  Notation pcore := (pcore dec dresize).
  Notation pstep := (pstep dec enc dresize eresize).
  Notation run := (H2Relay.run dec enc dresize eresize).
  Notation tstep_of := (tstep_of dstate estate).

  Definition MaxB (r : relay) : Prop := 16384 <= f_max (r_flow r) /\ f_max (r_flow r) <= 16777215.

  (* the relay sending towards x, and x's size ledger *)
  Definition SS (r : relay) (l : sled) : Prop :=
    f_max (r_flow r) = l_max_cur l /\ l_max_cur l <= l_max_ever l /\ 16384 <= l_max_ever l /\
    SQ (l_max_ever l) (r_flow r) /\ MaxB r.

  (* a prepared frame fits the max frame size it was prepared with *)
  (* frames that prepare leaves as they are must fit already *)
  Definition pre_ok (m : N) (q : qframe) : Prop :=
    match q with QData _ _ _ => True | QHdr _ _ _ _ _ => True | QPush _ _ _ _ => True | _ => qfits m q end.

  Lemma prepare_fits_weak est maxp m q q' est' : bounds maxp m -> pre_ok m q ->
    prepare enc est maxp q = Some (q', est') -> qfits m q'.
  Proof.
    intros [Hlo [Hhi Hle]] Hq. destruct q; cbn [prepare]; try (intro H; inversion H; subst; exact Hq).
    - intro H. inversion H; subst. unfold qfits. cbn [send].
      eapply Forall_impl; [|apply (wdata_pieces_fit (length data) maxp id data es); lia].
      intros w Hw. cbn beta in Hw. lia.
    - destruct (enc est fields) as [bytes e']. destruct (split_chunks _ _ bytes) as [ch|] eqn:Es; [|discriminate].
      intro H. inversion H; subst. apply split_chunks_fit in Es as [c0 [rest [-> [H0 Hr]]]].
      unfold qfits. cbn [send hd tl]. constructor.
      + cbn [payload_len]. destruct (prio_is_zero p).
        * rewrite u32_sub_small in H0 by lia. lia.
        * rewrite Hprio, u32_sub_small in H0 by lia. lia.
      + eapply Forall_impl; [|apply conts_fit; exact Hr]. intros w Hw. cbn beta in Hw. lia.
    - destruct (enc est fields) as [bytes e']. destruct (split_chunks _ _ bytes) as [ch|] eqn:Es; [|discriminate].
      intro H. inversion H; subst. apply split_chunks_fit in Es as [c0 [rest [-> [H0 Hr]]]].
      unfold qfits. cbn [send hd tl]. constructor.
      + cbn [payload_len]. rewrite Hpush, u32_sub_small in H0 by lia. lia.
      + eapply Forall_impl; [|apply conts_fit; exact Hr]. intros w Hw. cbn beta in Hw. lia.
  Qed.

  Lemma prepare_fits est maxp m q q' est' : bounds maxp m -> qfits m q ->
    prepare enc est maxp q = Some (q', est') -> qfits m q'.
  Proof. intros Hb Hq. apply prepare_fits_weak; [exact Hb|]. destruct q; cbn [pre_ok]; auto. Qed.

  Lemma run_script_fits : forall l est maxp m l' est', ScriptFits m maxp l ->
    run_script enc eresize est maxp l = Some (l', est') -> Forall (fun w => payload_len w <= m) (wire l').
  Proof.
    induction l as [|o r IH]; intros est maxp m l' est' Hf H; cbn [run_script] in H.
    - inversion H. constructor.
    - destruct o as [q|w|v|m']; cbn [ScriptFits] in Hf.
      + destruct Hf as [Hq [Hb Hr]].
        destruct (prepare enc est maxp q) as [[q' e1]|] eqn:Ep; [|discriminate].
        destruct (run_script enc eresize e1 maxp r) as [[l1 e2]|] eqn:Er; [|discriminate].
        inversion H; subst. unfold wire. cbn [flat_map wire1]. apply Forall_app. split.
        * exact (prepare_fits _ _ _ _ _ _ Hb Hq Ep).
        * exact (IH _ _ _ _ _ Hr Er).
      + destruct Hf as [Hw Hr]. destruct (run_script enc eresize est maxp r) as [[l1 e2]|] eqn:Er; [|discriminate].
        inversion H; subst. unfold wire. cbn [flat_map wire1 app]. constructor; [exact Hw|exact (IH _ _ _ _ _ Hr Er)].
      + exact (IH _ _ _ _ _ Hf H).
      + exact (IH _ _ _ _ _ Hf H).
  Qed.

  (* a header frame waiting in a queue has no chunks yet: it fits anything *)
  Lemma r_header_fits (r r' : relay) id fields es p em q m :
    5 <= m -> r_header r id fields es p = Some (r', em, q) -> qfits m q.
  Proof.
    intros Hm H. apply r_header_flow in H as [_ [_ [_ [_ [_ [_ ->]]]]]].
    unfold qfits. cbn [send hd tl conts]. constructor; [|constructor]. cbn [payload_len hd]. unfold len. cbn [length N.of_nat]. destruct (prio_is_zero p); lia.
  Qed.
  Lemma r_push_fits (r r' : relay) id pr fields em q m :
    5 <= m -> r_push r id pr fields = Some (r', em, q) -> qfits m q.
  Proof.
    intros Hm H. apply r_push_flow in H as [_ [_ [_ [_ [_ [_ ->]]]]]].
    unfold qfits. cbn [send hd tl conts]. constructor; [|constructor]. cbn [payload_len hd]. unfold len. cbn [length N.of_nat]. lia.
  Qed.
  Lemma complete_fits (r r' : relay) id fields em q m :
    5 <= m -> complete r id fields = Some (r', em, q) -> qfits m q.
  Proof.
    intro Hm. unfold complete. destruct (r_cont r) as [[p es|pr]|]; [apply r_header_fits|apply r_push_fits|discriminate]; exact Hm.
  Qed.

  Definition final_max (l : list (N * N)) (cur : N) : N :=
    match last_setting 5 l None with Some v => v | None => cur end.

  Lemma count5_none l : count5 l = O -> last_setting 5 l None = None.
  Proof.
    induction l as [|[k v] r IH]; cbn [count5 last_setting]; [reflexivity|].
    destruct (k =? 5); [discriminate|exact IH].
  Qed.

  (* m: the largest value the sender of the SETTINGS frame will have announced after it *)
  Lemma apply_settings_size : forall l orders (peer : relay) acc m,
    SQ m (r_flow peer) -> MaxB peer -> f_max (r_flow peer) <= m -> (count5 l <= 1)%nat ->
    (forall v, last_setting 5 l None = Some v -> v <= m) ->
    exists scr,
      snd (fst (apply_settings dresize l orders peer acc)) = acc ++ scr /\
      ScriptFits m (f_max (r_flow peer)) scr /\
      SQ m (r_flow (fst (fst (apply_settings dresize l orders peer acc)))) /\
      MaxB (fst (fst (apply_settings dresize l orders peer acc))) /\
      (snd (apply_settings dresize l orders peer acc) = true ->
       f_max (r_flow (fst (fst (apply_settings dresize l orders peer acc)))) = final_max l (f_max (r_flow peer))).
  Proof.
    induction l as [|[k v] rest IH]; intros orders peer acc m Hq Hm Hle Hc5 Hfin; cbn [apply_settings].
    - exists []. cbn [fst snd ScriptFits]. rewrite app_nil_r. split; [reflexivity|]. split; [exact I|]. split; [exact Hq|]. split; [exact Hm|reflexivity].
    - rewrite Hval. cbn [andb]. destruct (setting_valid k v) eqn:Ev; cbn [negb].
      2:{ exists []. cbn [fst snd ScriptFits]. rewrite app_nil_r. split; [reflexivity|]. split; [exact I|]. split; [exact Hq|]. split; [exact Hm|discriminate]. }
      unfold final_max. cbn [last_setting count5] in *.
      destruct (k =? 1) eqn:E1.
      { apply N.eqb_eq in E1. subst k. cbn [N.eqb Pos.eqb] in *.
        destruct (IH orders (mkRelay (r_flow peer) (r_cont peer) (r_hbuf peer)
                 (if table_size_resizes_decoder then dresize (r_dst peer) v else r_dst peer) (r_est peer)) (acc ++ [OResize v]) m Hq Hm Hle Hc5 Hfin)
          as [scr [Ha [Hf [Hs [Hb Hfn]]]]].
        exists (OResize v :: scr). split; [rewrite Ha, <- app_assoc; reflexivity|]. split; [exact Hf|]. split; [exact Hs|]. split; [exact Hb|exact Hfn]. }
      destruct (k =? 4) eqn:E4.
      { apply N.eqb_eq in E4. subst k. cbn [N.eqb Pos.eqb] in *.
        destruct (update_init_size m v (hd [] orders) (r_flow peer) Hq) as [H1 F1].
        pose proof (f_max_update_init v (hd [] orders) (r_flow peer)) as Hmx.
        destruct (update_init v (hd [] orders) (r_flow peer)) as [fl e]. cbn [fst snd] in *.
        assert (Hm' : MaxB (with_flow peer fl)) by (unfold MaxB in *; cbn [with_flow r_flow]; rewrite Hmx; exact Hm).
        assert (Hle' : f_max (r_flow (with_flow peer fl)) <= m) by (cbn [with_flow r_flow]; rewrite Hmx; exact Hle).
        destruct (IH (tl orders) (with_flow peer fl) (acc ++ oq e) m H1 Hm' Hle' Hc5 Hfin) as [scr [Ha [Hf [Hs [Hb Hfn]]]]].
        exists (oq e ++ scr). split; [rewrite Ha, app_assoc; reflexivity|].
        cbn [with_flow r_flow] in Hf, Hfn. rewrite Hmx in Hf, Hfn.
        split; [apply ScriptFits_oq_app; [exact F1|unfold bounds; destruct Hm; lia|exact Hf]|].
        split; [exact Hs|]. split; [exact Hb|exact Hfn]. }
      destruct (k =? 5) eqn:E5.
      + apply N.eqb_eq in E5. subst k.
        assert (Hr0 : count5 rest = O) by lia.
        assert (Hv : v <= m).
        { apply Hfin. rewrite last_setting_acc, (count5_none rest Hr0). reflexivity. }
        assert (Hm' : MaxB (with_flow peer (update_max v (r_flow peer)))).
        { unfold MaxB. cbn [with_flow r_flow update_max f_max]. unfold setting_valid in Ev. cbn in Ev.
          apply andb_true_iff in Ev as [Ea Eb]. apply N.leb_le in Ea. apply N.leb_le in Eb. lia. }
        destruct (IH orders (with_flow peer (update_max v (r_flow peer))) (acc ++ [OSetMax v]) m Hq Hm' Hv ltac:(lia)
                    ltac:(intros w Hw; rewrite (count5_none rest Hr0) in Hw; discriminate)) as [scr [Ha [Hf [Hs [Hb Hfn]]]]].
        exists (OSetMax v :: scr). split; [rewrite Ha, <- app_assoc; reflexivity|].
        split; [cbn [ScriptFits]; exact Hf|]. split; [exact Hs|]. split; [exact Hb|].
        intro Hok. rewrite (Hfn Hok). unfold final_max. cbn [with_flow r_flow update_max f_max].
        rewrite (last_setting_acc 5 rest (Some v)). destruct (last_setting 5 rest None); reflexivity.
      + exact (IH orders peer acc m Hq Hm Hle Hc5 Hfin).
  Qed.

  Lemma sl_step_any x from f orders s l :
    sl_step x l (tstep_of from f orders s) =
    sl_recv_all (if side_eqb from x then sl_sent l f else l) (wire (s_to x s)).
  Proof. unfold sl_step. rewrite frames_to_tstep. reflexivity. Qed.

  Lemma wu_fit (m c id : N) : 16384 <= m ->
    Forall (fun w => payload_len w <= m) (if c =? 0 then [] else [WWinUpd 0 c; WWinUpd id c]).
  Proof. intro H. destruct (c =? 0); repeat constructor; cbn [payload_len]; lia. Qed.

  Lemma SS_bounds (r : relay) l : SS r l -> bounds (f_max (r_flow r)) (l_max_ever l).
  Proof. intros [Hc [Hle [H16 [Hq [Hlo Hhi]]]]]. unfold bounds. lia. Qed.

  Ltac quiet_from_sz HS :=
    rewrite ?res_toward_from, ?res_to_from, ?res_status; cbn [sl_sent ScriptFits];
    (split; [exact I|intros _; exact HS]).

  (* the script of the relay sending towards the sender of the frame *)
  Lemma core_sl_from (p : pair) from f orders l :
    frame_small f -> SS (toward from p) l ->
    ScriptFits (l_max_ever (sl_sent l f)) (f_max (r_flow (toward from p))) (s_to from (pcore p from f orders)) /\
    (s_status (pcore p from f orders) = Ok -> SS (toward from (s_pair (pcore p from f orders))) (sl_sent l f)).
  Proof.
    intros Hsm HS. unfold pcore. cbv zeta.
    pose proof HS as [Hc [Hle [H16 [Hq Hm]]]]. pose proof (SS_bounds _ _ HS) as Hb.
    destruct f as [id es d flen|id es eh pr frag|id eh frag|id pm eh frag|id pr|id code|ack st|ack d|last code dbg|id inc|].
    - assert (Hgo : forall c, ScriptFits (l_max_ever l) (f_max (r_flow (toward from p))) (ow (if c =? 0 then [] else [WWinUpd 0 c; WWinUpd id c])))
        by (intro c; apply ScriptFits_ow, wu_fit; exact H16).
      destruct (data_pieces _ _ id d es) as [ps|]; [destruct (enqueue_all ps _) as [fl em]|];
        rewrite res_toward_from, res_to_from, res_status; cbn [sl_sent]; (split; [apply Hgo|intros _; exact HS]).
    - destruct eh; [|quiet_from_sz HS]. destruct (dec _ frag) as [[fields|] dst']; [|quiet_from_sz HS].
      destruct (r_header _ _ _ _ _) as [[[me' em] q]|]; quiet_from_sz HS.
    - destruct eh; [|quiet_from_sz HS]. destruct (dec _ _) as [[fields|] dst']; [|quiet_from_sz HS].
      cbn [r_cont]. destruct (r_cont _); [|quiet_from_sz HS].
      destruct (complete _ _ _) as [[[me' em] q]|]; quiet_from_sz HS.
    - destruct eh; [|quiet_from_sz HS]. destruct (dec _ frag) as [[fields|] dst']; [|quiet_from_sz HS].
      destruct (r_push _ _ _ _) as [[[me' em] q]|]; quiet_from_sz HS.
    - destruct (enqueue_emit _ _) as [fl em]. quiet_from_sz HS.
    - destruct (enqueue_emit _ _) as [fl em]. quiet_from_sz HS.
    - destruct ack; [quiet_from_sz HS|]. cbn [frame_small] in Hsm. destruct Hsm as [_ Hc5].
      set (l1 := sl_sent l (RSettings false st)).
      assert (Hever : l_max_ever l <= l_max_ever l1) by (unfold l1; cbn [sl_sent l_max_ever]; lia).
      assert (Hfin : forall v, last_setting 5 st None = Some v -> v <= l_max_ever l1).
      { intros v Hv. unfold l1. cbn [sl_sent l_max_ever]. rewrite Hv. lia. }
      destruct (apply_settings_size st orders (toward from p) [] (l_max_ever l1)
                  (SQ_mono _ _ _ Hever Hq) Hm ltac:(lia) Hc5 Hfin) as [scr [Ha [Hf [Hs [Hbb Hfn]]]]].
      destruct (apply_settings dresize st orders (toward from p) []) as [[peer' acc'] ok].
      cbn [fst snd app] in *. subst acc'.
      destruct ok; rewrite res_toward_from, res_to_from, res_status; (split; [exact Hf|]).
      + intros _. unfold SS. unfold l1 in *. cbn [sl_sent l_max_cur l_max_ever] in *.
        split; [rewrite (Hfn eq_refl), Hc; reflexivity|]. split; [lia|]. split; [lia|]. split; [exact Hs|exact Hbb].
      + discriminate.
    - quiet_from_sz HS.
    - quiet_from_sz HS.
    - destruct (update_window_size (l_max_ever l) id inc (hd [] orders) (r_flow (toward from p)) Hq) as [H1 F1].
      pose proof (f_max_update_window id inc (hd [] orders) (r_flow (toward from p))) as Hmx.
      destruct (update_window id inc (hd [] orders) (r_flow (toward from p))) as [fl em]. cbn [fst snd] in *.
      rewrite res_toward_from, res_to_from, res_status. cbn [sl_sent].
      split; [apply ScriptFits_oq; [exact F1|exact Hb]|]. intros _.
      unfold SS, MaxB in *. cbn [with_flow r_flow]. rewrite Hmx. auto.
    - quiet_from_sz HS.
  Qed.

  Ltac quiet_other_sz HS :=
    rewrite ?res_toward_other, ?res_to_other, ?res_status; cbn [ScriptFits];
    (split; [exact I|intros _; exact HS]).

  Lemma SS_me_enq (me me' : relay) l q em :
    SS me l -> qfits (l_max_ever l) q -> enqueue_emit q (r_flow me) = (r_flow me', em) ->
    ScriptFits (l_max_ever l) (f_max (r_flow me)) (oq em) /\ SS me' l.
  Proof.
    intros HS Hq Ee. pose proof HS as [Hc [Hle [H16 [Hsq Hm]]]].
    destruct (enqueue_emit_size (l_max_ever l) q (r_flow me) Hq Hsq) as [H1 F1].
    pose proof (f_max_enqueue_emit q (r_flow me)) as Hmx. rewrite Ee in H1, F1, Hmx. cbn [fst snd] in *.
    split; [apply ScriptFits_oq; [exact F1|exact (SS_bounds _ _ HS)]|].
    unfold SS, MaxB in *. rewrite Hmx. auto.
  Qed.

  Lemma one_fit m maxp w : payload_len w <= 16384 -> 16384 <= m -> ScriptFits m maxp [OW w].
  Proof. intros. cbn [ScriptFits]. split; [lia|exact I]. Qed.

  Lemma core_sl_other (p : pair) from f orders l :
    frame_small f -> SS (toward (other from) p) l ->
    ScriptFits (l_max_ever l) (f_max (r_flow (toward (other from) p))) (s_to (other from) (pcore p from f orders)) /\
    (s_status (pcore p from f orders) = Ok -> SS (toward (other from) (s_pair (pcore p from f orders))) l).
  Proof.
    intros Hsm HS. unfold pcore. cbv zeta.
    remember (toward (other from) p) as me eqn:Eme. clear Eme.
    pose proof HS as [Hc [Hle [H16 [Hq Hm]]]]. pose proof (SS_bounds _ _ HS) as Hb.
    destruct f as [id es d flen|id es eh pr frag|id eh frag|id pm eh frag|id pr|id code|ack st|ack d|last code dbg|id inc|];
      cbn [frame_small] in Hsm.
    - destruct (data_pieces _ _ id d es) as [ps|] eqn:Ep; [|quiet_other_sz HS].
      assert (Hfit : Forall (qfits (l_max_ever l)) ps).
      { eapply Forall_impl; [|exact (data_pieces_fit _ _ _ _ _ _ Ep)]. intro q. apply qfits_mono. lia. }
      assert (H0 : SQ (l_max_ever l) (with_buf (r_flow me) id (buf_or_new (r_flow me) id))).
      { unfold with_buf. apply SQ_set; [exact Hq|]. unfold buf_or_new.
        destruct (get_buf id (f_bufs (r_flow me))) as [o|] eqn:Eg; [exact (Hq _ _ Eg)|constructor]. }
      destruct (enqueue_all_size (l_max_ever l) ps _ Hfit H0) as [H1 F1].
      pose proof (f_max_enqueue_all ps (with_buf (r_flow me) id (buf_or_new (r_flow me) id))) as Hmx.
      destruct (enqueue_all ps _) as [fl em]. cbn [fst snd] in *.
      rewrite res_toward_other, res_to_other, res_status.
      split; [apply ScriptFits_oq; [exact F1|exact Hb]|]. intros _.
      unfold SS, MaxB in *. cbn [with_flow r_flow]. rewrite Hmx. auto.
    - destruct eh; [|quiet_other_sz HS]. destruct (dec _ frag) as [[fields|] dst']; [|quiet_other_sz HS].
      set (me1 := mkRelay _ _ _ dst' _). assert (HS1 : SS me1 l) by exact HS.
      destruct (r_header me1 id fields es pr) as [[[me' em] q]|] eqn:Eh; [|quiet_other_sz HS1].
      pose proof (r_header_fits me1 me' id fields es pr em q (l_max_ever l) ltac:(lia) Eh) as Hfq.
      apply r_header_flow in Eh as [Ee _].
      destruct (SS_me_enq me1 me' l q em HS1 Hfq Ee) as [Hf HS'].
      rewrite res_toward_other, res_to_other, res_status. split; [exact Hf|intros _; exact HS'].
    - destruct eh; [|quiet_other_sz HS]. destruct (dec _ _) as [[fields|] dst']; [|quiet_other_sz HS].
      set (me1 := mkRelay _ _ _ dst' _). assert (HS1 : SS me1 l) by exact HS.
      destruct (r_cont me1) eqn:Ec; [|quiet_other_sz HS1].
      destruct (complete me1 id fields) as [[[me' em] q]|] eqn:Eh; [|quiet_other_sz HS1].
      pose proof (complete_fits me1 me' id fields em q (l_max_ever l) ltac:(lia) Eh) as Hfq.
      apply complete_flow in Eh as [Ee _].
      destruct (SS_me_enq me1 me' l q em HS1 Hfq Ee) as [Hf HS'].
      rewrite res_toward_other, res_to_other, res_status. split; [exact Hf|intros _; exact HS'].
    - destruct eh; [|quiet_other_sz HS]. destruct (dec _ frag) as [[fields|] dst']; [|quiet_other_sz HS].
      set (me1 := mkRelay _ _ _ dst' _). assert (HS1 : SS me1 l) by exact HS.
      destruct (r_push me1 id pm fields) as [[[me' em] q]|] eqn:Eh; [|quiet_other_sz HS1].
      pose proof (r_push_fits me1 me' id pm fields em q (l_max_ever l) ltac:(lia) Eh) as Hfq.
      apply r_push_flow in Eh as [Ee _].
      destruct (SS_me_enq me1 me' l q em HS1 Hfq Ee) as [Hf HS'].
      rewrite res_toward_other, res_to_other, res_status. split; [exact Hf|intros _; exact HS'].
    - assert (Hfq : qfits (l_max_ever l) (QPrio id pr)) by (repeat constructor; cbn [payload_len]; lia).
      destruct (enqueue_emit (QPrio id pr) (r_flow me)) as [fl em] eqn:Ee.
      destruct (SS_me_enq me (with_flow me fl) l _ em HS Hfq Ee) as [Hf HS'].
      rewrite res_toward_other, res_to_other, res_status. split; [exact Hf|intros _; exact HS'].
    - assert (Hfq : qfits (l_max_ever l) (QRst id code)) by (repeat constructor; cbn [payload_len]; lia).
      destruct (enqueue_emit (QRst id code) (r_flow me)) as [fl em] eqn:Ee.
      destruct (SS_me_enq me (with_flow me fl) l _ em HS Hfq Ee) as [Hf HS'].
      rewrite res_toward_other, res_to_other, res_status. split; [exact Hf|intros _; exact HS'].
    - destruct ack.
      + rewrite res_toward_other, res_to_other, res_status.
        split; [apply one_fit; [cbn; lia|exact H16]|intros _; exact HS].
      + destruct (apply_settings _ _ _ _ _) as [[peer' acc'] ok]. destruct ok; [|quiet_other_sz HS].
        rewrite res_toward_other, res_to_other, res_status.
        split; [apply one_fit; [cbn [payload_len]; exact (proj1 Hsm)|exact H16]|intros _; exact HS].
    - rewrite res_toward_other, res_to_other, res_status.
      split; [apply one_fit; [cbn; lia|exact H16]|intros _; exact HS].
    - rewrite res_toward_other, res_to_other, res_status.
      split; [apply one_fit; [cbn [payload_len]; exact Hsm|exact H16]|intros _; exact HS].
    - destruct (update_window _ _ _ _) as [fl em]. quiet_other_sz HS.
    - quiet_other_sz HS.
  Qed.

  (* the whole step, seen by endpoint x's size ledger *)
  Lemma step_sl (p : pair) from f orders x l :
    frame_small f -> SS (toward x p) l ->
    let r := sl_step x l (tstep_of from f orders (pstep p from f orders)) in
    fst (snd r) = true /\
    (s_status (pstep p from f orders) = Ok -> SS (toward x (s_pair (pstep p from f orders))) (fst r)).
  Proof.
    intros Hsm HS. cbv zeta. rewrite sl_step_any.
    set (l1 := if side_eqb from x then sl_sent l f else l).
    assert (Hcore : ScriptFits (l_max_ever l1) (f_max (r_flow (toward x p))) (s_to x (pcore p from f orders)) /\
                    (s_status (pcore p from f orders) = Ok -> SS (toward x (s_pair (pcore p from f orders))) l1)).
    { unfold l1. destruct (side_cases from x) as [-> | ->].
      - rewrite side_eqb_refl. apply core_sl_from; assumption.
      - rewrite side_eqb_other. apply core_sl_other; assumption. }
    destruct Hcore as [Hfit Hnext].
    destruct (pstep_script dstate estate dec enc dresize eresize p from f orders x) as [[e He] | [He Hd]].
    - pose proof (run_script_fits _ _ _ _ _ _ Hfit He) as Hw.
      destruct (sl_recv_all_fit l1 _ Hw) as [Hb [Hc' He']].
      split; [exact Hb|]. intro Hok.
      pose proof (Hnext (pstep_ok dstate estate dec enc dresize eresize p from f orders Hok)) as [S1 [S2 [S3 [S4 S5]]]].
      unfold SS, MaxB in *. rewrite Hc', He', (proj1 (pstep_flow dstate estate dec enc dresize eresize p from f orders x)). auto.
    - rewrite He. cbn [wire flat_map sl_recv_all fst snd]. split; [reflexivity|]. rewrite Hd. discriminate.
  Qed.

  Definition hist_small (evs : list event) : Prop := Forall (fun e => frame_small (e_frame e)) evs.

  Lemma run_sl : forall evs (p : pair) x l, hist_small evs -> SS (toward x p) l ->
    fst (snd (sl_run x l (snd (run p evs)))) = true.
  Proof.
    induction evs as [|e r IH]; intros p x l Hsm HS; [reflexivity|].
    inversion Hsm as [|? ? He Hr]; subst. destruct e as [from f orders]. cbn [e_frame] in He.
    cbn [H2Relay.run e_from e_frame e_orders].
    pose proof (step_sl p from f orders x l He HS) as Hstep. cbv zeta in Hstep.
    unfold PairWin.tstep_of in Hstep. destruct Hstep as [Hb Hnext].
    destruct (s_status (pstep p from f orders)) eqn:Est.
    - specialize (IH (s_pair (pstep p from f orders)) x _ Hr (Hnext eq_refl)).
      destruct (run (s_pair (pstep p from f orders)) r) as [p' ts]. cbn [fst snd] in *. cbn [sl_run].
      destruct (sl_step x l _) as [l1 [b1 c1]]. cbn [fst snd] in *.
      destruct (sl_run x l1 ts) as [l2 [b2 c2]]. cbn [fst snd] in *. subst. reflexivity.
    - cbn [fst snd sl_run]. destruct (sl_step x l _) as [l1 [b1 c1]]. cbn [fst snd] in *. subst. reflexivity.
    - cbn [fst snd sl_run]. destruct (sl_step x l _) as [l1 [b1 c1]]. cbn [fst snd] in *. subst. reflexivity.
    - cbn [fst snd sl_run]. destruct (sl_step x l _) as [l1 [b1 c1]]. cbn [fst snd] in *. subst. reflexivity.
  Qed.

  Theorem frame_size_from_start : forall evs d1 e1 d2 e2 x, hist_small evs ->
    sizes_within_announced x (snd (run (pair0 dstate estate d1 e1 d2 e2) evs)) = true.
  Proof.
    intros evs d1 e1 d2 e2 x Hsm. unfold sizes_within_announced. apply run_sl; [exact Hsm|].
    unfold SS, MaxB, sled0. rewrite toward_pair0. unfold flow0. cbn [f_max l_max_cur l_max_ever]. rewrite Hinit.
    repeat split; try lia. intros s o H. discriminate.
  Qed.
End Codec.
